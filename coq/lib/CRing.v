(* Commutative component ring: the carrier of quaternion components.
   Every K-kind theorem is proved for an arbitrary CRing, hence for Z (bit-exact
   correspondence runs), Qc (exact rationals) and R (order-theoretic theorems). *)
From Coq Require Import ZArith QArith Qcanon Ring InitialRing.

Record CRing := mkCRing {
  car :> Type;
  c0 : car; c1 : car;
  cadd : car -> car -> car; cmul : car -> car -> car;
  csub : car -> car -> car; copp : car -> car;
  cr_th : ring_theory c0 c1 cadd cmul csub copp (@eq car)
}.
Arguments c0 {_}. Arguments c1 {_}. Arguments cadd {_}. Arguments cmul {_}.
Arguments csub {_}. Arguments copp {_}.

Declare Scope cr_scope.
Delimit Scope cr_scope with cr.
Infix "+" := cadd : cr_scope.
Infix "*" := cmul : cr_scope.
Infix "-" := csub : cr_scope.
Notation "- x" := (copp x) : cr_scope.

Definition ZR : CRing := mkCRing Z 0%Z 1%Z Z.add Z.mul Z.sub Z.opp Zth.
Definition QcR : CRing := mkCRing Qc 0%Qc 1%Qc Qcplus Qcmult Qcminus Qcopp Qcrt.
