(* The real numbers as a component ring (order-theoretic theorems only; brings the stdlib real axioms). *)
From Coq Require Import Reals RealField.
From QV Require Import CRing.
Definition RR : CRing := mkCRing R 0%R 1%R Rplus Rmult Rminus Ropp RTheory.
Ltac rr := cbn [car c0 c1 cadd cmul csub copp RR].
Tactic Notation "rr" "in" hyp(H) := cbn [car c0 c1 cadd cmul csub copp RR] in H.
