(* Executable glue for the correspondence runs: list <-> function matrices over Z. *)
From Coq Require Import ZArith List Arith Bool.
From QV Require Import CRing Sums Quat Mat.
Import ListNotations.

Definition zmat := list (list Z).
Definition of_list (L : zmat) : rmat ZR := fun i j => nth j (nth i L []) 0%Z.
Definition to_list (m n : nat) (M : rmat ZR) : zmat :=
  map (fun i => map (fun j => M i j) (seq 0 n)) (seq 0 m).
Fixpoint zrow_eqb (a b : list Z) : bool :=
  match a, b with [], [] => true | x :: a', y :: b' => Z.eqb x y && zrow_eqb a' b' | _, _ => false end.
Fixpoint zmat_eqb (a b : zmat) : bool :=
  match a, b with [], [] => true | x :: a', y :: b' => zrow_eqb x y && zmat_eqb a' b' | _, _ => false end.
Definition rm_eqb (m n : nat) (M : rmat ZR) (L : zmat) : bool := zmat_eqb (to_list m n M) L.
Definition qof_list (W X Y Z : zmat) : qmat ZR := pack (of_list W) (of_list X) (of_list Y) (of_list Z).
Definition q_eqb (m n : nat) (A : qmat ZR) (W X Y Z : zmat) : bool :=
  rm_eqb m n (cw A) W && rm_eqb m n (cx A) X && rm_eqb m n (cy A) Y && rm_eqb m n (cz A) Z.
Definition count_false (l : list bool) : nat := length (filter negb l).
