(* Field operations with square root, as a record: models of S-kind code (Givens, Householder,
   power iteration, Arnoldi) are written once over FOps and (i) executed at the fixed-point instance
   Fx for the correspondence runs, (ii) reasoned about at the real instance ROps. *)
From Coq Require Import ZArith List Bool Arith.
Import ListNotations.

Record FOps := mkFOps {
  F :> Type;
  f0 : F; f1 : F;
  fadd : F -> F -> F; fsub : F -> F -> F; fmul : F -> F -> F; fdiv : F -> F -> F;
  fopp : F -> F; fsqrt : F -> F;
  fleb : F -> F -> bool; fltb : F -> F -> bool;
  fdyad : Z -> Z -> F          (* fdyad m e = m * 2^e : exact injection of binary64 values *)
}.
Arguments f0 {_}. Arguments f1 {_}. Arguments fadd {_}. Arguments fsub {_}. Arguments fmul {_}.
Arguments fdiv {_}. Arguments fopp {_}. Arguments fsqrt {_}. Arguments fleb {_}. Arguments fltb {_}.
Arguments fdyad {_}.

Section Q.
Variable Ops : FOps.
(* quaternions over O *)
Record fq := mkfq { fw : Ops; fx : Ops; fy : Ops; fz : Ops }.
Definition fq0 := mkfq f0 f0 f0 f0.
Definition fq1 := mkfq f1 f0 f0 f0.
Definition fqreal (c : Ops) := mkfq c f0 f0 f0.
Definition fqadd p q := mkfq (fadd (fw p) (fw q)) (fadd (fx p) (fx q)) (fadd (fy p) (fy q)) (fadd (fz p) (fz q)).
Definition fqsub p q := mkfq (fsub (fw p) (fw q)) (fsub (fx p) (fx q)) (fsub (fy p) (fy q)) (fsub (fz p) (fz q)).
Definition fqopp p := mkfq (fopp (fw p)) (fopp (fx p)) (fopp (fy p)) (fopp (fz p)).
Definition fqconj p := mkfq (fw p) (fopp (fx p)) (fopp (fy p)) (fopp (fz p)).
Definition fqmul p q := mkfq
  (fsub (fsub (fsub (fmul (fw p) (fw q)) (fmul (fx p) (fx q))) (fmul (fy p) (fy q))) (fmul (fz p) (fz q)))
  (fsub (fadd (fadd (fmul (fw p) (fx q)) (fmul (fx p) (fw q))) (fmul (fy p) (fz q))) (fmul (fz p) (fy q)))
  (fadd (fadd (fsub (fmul (fw p) (fy q)) (fmul (fx p) (fz q))) (fmul (fy p) (fw q))) (fmul (fz p) (fx q)))
  (fadd (fsub (fadd (fmul (fw p) (fz q)) (fmul (fx p) (fy q))) (fmul (fy p) (fx q))) (fmul (fz p) (fw q))).
Definition fqscale (c : Ops) p := mkfq (fmul c (fw p)) (fmul c (fx p)) (fmul c (fy p)) (fmul c (fz p)).
Definition fqdivr p (c : Ops) := mkfq (fdiv (fw p) c) (fdiv (fx p) c) (fdiv (fy p) c) (fdiv (fz p) c).
Definition fqn2 p : Ops := fadd (fadd (fadd (fmul (fw p) (fw p)) (fmul (fx p) (fx p))) (fmul (fy p) (fy p))) (fmul (fz p) (fz p)).
Definition fqabs p : Ops := fsqrt (fqn2 p).
Definition fqinv p := fqdivr (fqconj p) (fqn2 p).

(* matrices as functions, with re-tabulation through lists *)
Definition fmat := nat -> nat -> fq.
Definition ftab (m n : nat) (M : fmat) : list (list fq) := map (fun i => map (fun j => M i j) (seq 0 n)) (seq 0 m).
Definition fof (L : list (list fq)) : fmat := fun i j => nth j (nth i L []) fq0.
Definition fretab (m n : nat) (M : fmat) : fmat := fof (ftab m n M).
Fixpoint fsum (n : nat) (f : nat -> Ops) : Ops := match n with O => f0 | S k => fadd (fsum k f) (f k) end.
Fixpoint fqsum (n : nat) (f : nat -> fq) : fq := match n with O => fq0 | S k => fqadd (fqsum k f) (f k) end.
Definition fmm (k : nat) (A B : fmat) : fmat := fun i j => fqsum k (fun l => fqmul (A i l) (B l j)).
Definition fherm (A : fmat) : fmat := fun i j => fqconj (A j i).
Definition feye : fmat := fun i j => if Nat.eqb i j then fq1 else fq0.
Definition ffrob2 (m n : nat) (A : fmat) : Ops := fsum m (fun i => fsum n (fun j => fqn2 (A i j))).
End Q.
Arguments mkfq {Ops}. Arguments fw {Ops}. Arguments fx {Ops}. Arguments fy {Ops}. Arguments fz {Ops}.
Arguments fq0 {Ops}. Arguments fq1 {Ops}. Arguments fqreal {Ops}. Arguments fqadd {Ops}. Arguments fqsub {Ops}. Arguments fqopp {Ops}.
Arguments fqconj {Ops}. Arguments fqmul {Ops}. Arguments fqscale {Ops}. Arguments fqdivr {Ops}. Arguments fqn2 {Ops}.
Arguments fqabs {Ops}. Arguments fqinv {Ops}. Arguments ftab {Ops}. Arguments fof {Ops}. Arguments fretab {Ops}.
Arguments fsum {Ops}. Arguments fqsum {Ops}. Arguments fmm {Ops}. Arguments fherm {Ops}. Arguments feye {Ops}. Arguments ffrob2 {Ops}.

(* ---------------------------------------------------------------------------------------------
   Fixed-point instance: value = z * 2^-P with P = 160; sqrt by Z.sqrt.  Not a field (rounding to
   2^-160), used only to EXECUTE models next to the implementation. *)
Definition FXP : Z := 160.
(* rounding is towards zero, hence odd-symmetric like IEEE arithmetic: (-a) b = -(a b) exactly, so structural
   cancellations that are exact in binary64 are exact here too *)
Definition tshiftr (x : Z) : Z := if Z.ltb x 0 then Z.opp (Z.shiftr (Z.opp x) FXP) else Z.shiftr x FXP.
Definition fx_mul (a b : Z) : Z := tshiftr (a * b).
Definition fx_div (a b : Z) : Z := if Z.eqb b 0 then 0 else Z.quot (Z.shiftl a FXP) b.
Definition fx_sqrt (a : Z) : Z := if Z.leb a 0 then 0 else Z.sqrt (Z.shiftl a FXP).
Definition fx_dyad (m e : Z) : Z := Z.shiftl m (e + FXP).       (* shiftl with negative amount shifts right *)
Definition FxOps : FOps := mkFOps Z 0%Z (Z.shiftl 1 FXP) Z.add Z.sub fx_mul fx_div Z.opp fx_sqrt Z.leb Z.ltb fx_dyad.
(* |a - b| <= tol (1 + |b|), tol = 2^-k *)
Definition fx_close (k : Z) (a b : Z) : bool := Z.leb (Z.abs (a - b)) (Z.shiftr (Z.shiftl 1 FXP + Z.abs b) k).
Definition fxq_close (k : Z) (p q : fq FxOps) : bool :=
  fx_close k (fw p) (fw q) && fx_close k (fx p) (fx q) && fx_close k (fy p) (fy q) && fx_close k (fz p) (fz q).
Definition fxm_close (k : Z) (m n : nat) (A : fmat FxOps) (L : list (list (fq FxOps))) : bool :=
  forallb (fun i => forallb (fun j => fxq_close k (A i j) (nth j (nth i L []) fq0)) (seq 0 n)) (seq 0 m).
Definition dq (a ae b be c ce d de : Z) : fq FxOps := @mkfq FxOps (fx_dyad a ae) (fx_dyad b be) (fx_dyad c ce) (fx_dyad d de).
