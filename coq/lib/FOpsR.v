(* The real-number instance of FOps (for theorems about S-kind models; brings the real axioms). *)
From Coq Require Import Reals ZArith.
From QV Require Import FOps.
Definition Rleb (x y : R) : bool := if Rle_dec x y then true else false.
Definition Rltb (x y : R) : bool := if Rlt_dec x y then true else false.
Definition ROps : FOps := mkFOps R 0%R 1%R Rplus Rminus Rmult Rdiv Ropp sqrt Rleb Rltb (fun m e => (IZR m * powerRZ 2 e)%R).
Ltac ro := cbn [F f0 f1 fadd fsub fmul fdiv fopp fsqrt fleb fltb ROps fw fx fy fz fqadd fqsub fqopp fqconj fqmul fqscale fqdivr fqn2 fqabs fqreal fq0 fq1].
Tactic Notation "ro" "in" hyp(H) := cbn [F f0 f1 fadd fsub fmul fdiv fopp fsqrt fleb fltb ROps fw fx fy fz fqadd fqsub fqopp fqconj fqmul fqscale fqdivr fqn2 fqabs fqreal fq0 fq1] in H.
