(* Matrices as functions with explicit dimensions; statements are pointwise. *)
From Coq Require Import Arith Lia Ring Bool.
From QV Require Import CRing Sums Quat.
Local Open Scope cr_scope.

Section Mat.
Variable C : CRing.
Add Ring Cr : (cr_th C).

Definition rmat := nat -> nat -> C.
Definition rmm (k : nat) (A B : rmat) : rmat := fun i j => sumR k (fun l => A i l * B l j).
Definition rmadd (A B : rmat) : rmat := fun i j => A i j + B i j.
Definition rmsub (A B : rmat) : rmat := fun i j => A i j - B i j.
Definition rmopp (A : rmat) : rmat := fun i j => - A i j.
Definition rmT (A : rmat) : rmat := fun i j => A j i.
Definition rmscale (c : C) (A : rmat) : rmat := fun i j => c * A i j.
Definition rmzero : rmat := fun _ _ => c0.
Definition rmid : rmat := fun i j => if Nat.eqb i j then c1 else c0.

Definition qmat := nat -> nat -> quat C.
Definition qmm (k : nat) (A B : qmat) : qmat := fun i j => sumQ k (fun l => qmul (A i l) (B l j)).
Definition qmadd (A B : qmat) : qmat := fun i j => qadd (A i j) (B i j).
Definition qmsub (A B : qmat) : qmat := fun i j => qsub (A i j) (B i j).
Definition qmscale (c : C) (A : qmat) : qmat := fun i j => qscale c (A i j).
Definition qherm (A : qmat) : qmat := fun i j => qconj (A j i).
Definition qmid : qmat := fun i j => if Nat.eqb i j then qone else qzero.
Definition pack (Aw Ax Ay Az : rmat) : qmat := fun i j => mkQ (Aw i j) (Ax i j) (Ay i j) (Az i j).
Definition cw (A : qmat) : rmat := fun i j => qw (A i j).
Definition cx (A : qmat) : rmat := fun i j => qx (A i j).
Definition cy (A : qmat) : rmat := fun i j => qy (A i j).
Definition cz (A : qmat) : rmat := fun i j => qz (A i j).
Definition frob2 (m n : nat) (A : qmat) : C :=
  sumR m (fun i => sumR n (fun j => qnorm2 (A i j))).
Definition rfrob2 (m n : nat) (A : rmat) : C :=
  sumR m (fun i => sumR n (fun j => A i j * A i j)).

Lemma pack_eta A i j : pack (cw A) (cx A) (cy A) (cz A) i j = A i j.
Proof. unfold pack, cw, cx, cy, cz. destruct (A i j); reflexivity. Qed.

(* window test used for slice assignment *)
Definition inwin (I J r0 r1 c0' c1' : nat) : bool :=
  (r0 <=? I) && (I <? r1) && (c0' <=? J) && (J <? c1').

(* the Hamilton product, componentwise, as four real matrix expressions *)
Lemma qmm_w k A B i j : qw (qmm k A B i j) =
  rmsub (rmsub (rmsub (rmm k (cw A) (cw B)) (rmm k (cx A) (cx B))) (rmm k (cy A) (cy B))) (rmm k (cz A) (cz B)) i j.
Proof. unfold qmm, rmsub, rmm, cw, cx, cy, cz. sumQ_comp. qcomp. sum_push. reflexivity. Qed.

(* Hermitian laws *)
Lemma qherm_invol A i j : qherm (qherm A) i j = A i j.
Proof. unfold qherm. apply qconj_conj. Qed.

Lemma sumQ_conj n (f : nat -> quat C) : qconj (sumQ n f) = sumQ n (fun k => qconj (f k)).
Proof. induction n; simpl; [apply qconj_0|]. rewrite qconj_add, IHn. reflexivity. Qed.

Lemma qherm_mm k A B i j : qherm (qmm k A B) i j = qmm k (qherm B) (qherm A) i j.
Proof. unfold qherm, qmm. rewrite sumQ_conj. apply sumQ_ext. intros. apply qconj_mul. Qed.

Lemma frob2_herm m n A : frob2 n m (qherm A) = frob2 m n A.
Proof. unfold frob2, qherm. rewrite sumR_swap. apply sumR_ext; intros. apply sumR_ext; intros.
  apply qnorm2_conj. Qed.

Lemma frob2_pack m n Aw Ax Ay Az :
  frob2 m n (pack Aw Ax Ay Az) = rfrob2 m n Aw + rfrob2 m n Ax + rfrob2 m n Ay + rfrob2 m n Az.
Proof. unfold frob2, rfrob2, pack, qnorm2. cbn [qw qx qy qz].
  rewrite <- !sumR_add. apply sumR_ext; intros. rewrite <- !sumR_add. apply sumR_ext; intros. ring. Qed.
End Mat.

Arguments rmm {C}. Arguments rmadd {C}. Arguments rmsub {C}. Arguments rmopp {C}.
Arguments rmT {C}. Arguments rmscale {C}. Arguments rmzero {C}. Arguments rmid {C}.
Arguments qmm {C}. Arguments qmadd {C}. Arguments qmsub {C}. Arguments qmscale {C}.
Arguments qherm {C}. Arguments qmid {C}. Arguments pack {C}.
Arguments cw {C}. Arguments cx {C}. Arguments cy {C}. Arguments cz {C}.
Arguments frob2 {C}. Arguments rfrob2 {C}.

(* decide every nat comparison in the goal by lia *)
Ltac nb := repeat match goal with
  | |- context [Nat.ltb ?a ?b] => first [ replace (Nat.ltb a b) with true by (symmetry; apply Nat.ltb_lt; lia) | replace (Nat.ltb a b) with false by (symmetry; apply Nat.ltb_ge; lia) ]
  | |- context [Nat.leb ?a ?b] => first [ replace (Nat.leb a b) with true by (symmetry; apply Nat.leb_le; lia) | replace (Nat.leb a b) with false by (symmetry; apply Nat.leb_gt; lia) ]
  | |- context [Nat.eqb ?a ?b] => first [ replace (Nat.eqb a b) with true by (symmetry; apply Nat.eqb_eq; lia) | replace (Nat.eqb a b) with false by (symmetry; apply Nat.eqb_neq; lia) ]
  end; cbn [andb orb negb]; rewrite ?Bool.andb_false_r, ?Bool.andb_true_r.
