(* Gallina meaning of the NumPy fragment emitted by qtrans (beyond the combinators of Mat.v). *)
From Coq Require Import Arith List Lia.
From QV Require Import CRing Sums Quat Mat.
Import ListNotations.

Section S.
Variable C : CRing.
(* entry (a, b) of a literal given as a list of rows; zero outside *)
Definition sel2 (a b : nat) (l : list (list C)) : C := nth b (nth a l []) c0.
End S.
Arguments sel2 {C}.

(* x mod 4 and x / 4 at the four residues *)
Lemma divmod4 l c : (c < 4)%nat -> ((4*l+c)/4 = l /\ (4*l+c) mod 4 = c)%nat.
Proof. intros H. split.
  - rewrite Nat.mul_comm, Nat.div_add_l by lia. rewrite Nat.div_small by lia. lia.
  - rewrite Nat.add_comm, Nat.mul_comm, Nat.mod_add by lia. apply Nat.mod_small; lia. Qed.
Lemma divmod4_0 l : ((4*l)/4 = l /\ (4*l) mod 4 = 0)%nat.
Proof. pose proof (divmod4 l 0 ltac:(lia)) as H. now rewrite Nat.add_0_r in H. Qed.
Lemma divmod_eq4 I : (I = 4 * (I / 4) + I mod 4 /\ I mod 4 < 4)%nat.
Proof. split; [apply Nat.div_mod; lia|apply Nat.mod_upper_bound; lia]. Qed.
