(* Quaternion matrices as a *-algebra: meq setoid, Proper instances, associativity, adjoint laws.
   Entry-level identities are decided componentwise by `ring` over the component ring (tactic qr). *)
From Coq Require Import Arith Lia Ring Bool Setoid Morphisms.
From QV Require Import CRing Sums Quat Mat.
Local Open Scope cr_scope.

Ltac qr := apply qeq; qcomp; ring.

Section QMat.
Variable C : CRing.
Add Ring Cr : (cr_th C).
Notation quat := (quat C).
Notation qmat := (qmat C).

Lemma sumQ_add n (f g : nat -> quat) : sumQ n (fun k => qadd (f k) (g k)) = qadd (sumQ n f) (sumQ n g).
Proof. induction n; simpl; [qr|rewrite IHn; qr]. Qed.
Lemma sumQ_sub n (f g : nat -> quat) : sumQ n (fun k => qsub (f k) (g k)) = qsub (sumQ n f) (sumQ n g).
Proof. induction n; simpl; [qr|rewrite IHn; qr]. Qed.
Lemma sumQ_mul_r n (f : nat -> quat) c : qmul (sumQ n f) c = sumQ n (fun k => qmul (f k) c).
Proof. induction n; simpl; [qr|rewrite <- IHn; qr]. Qed.
Lemma sumQ_mul_l n (f : nat -> quat) c : qmul c (sumQ n f) = sumQ n (fun k => qmul c (f k)).
Proof. induction n; simpl; [qr|rewrite <- IHn; qr]. Qed.
Lemma sumQ_zero n : sumQ n (fun _ => @qzero C) = qzero.
Proof. induction n; simpl; [reflexivity|rewrite IHn; qr]. Qed.
Lemma sumQ_swap m n (f : nat -> nat -> quat) :
  sumQ m (fun i => sumQ n (fun j => f i j)) = sumQ n (fun j => sumQ m (fun i => f i j)).
Proof. induction m; simpl; [now rewrite sumQ_zero|]. now rewrite IHm, sumQ_add. Qed.
Lemma sumQ_delta_l n (f d : nat -> quat) i : (i < n)%nat ->
  sumQ n (fun l => qmul (if Nat.eqb i l then d i else qzero) (f l)) = qmul (d i) (f i).
Proof. induction n; intros H; [lia|]. simpl. destruct (Nat.eq_dec i n) as [->|Hn].
  - rewrite Nat.eqb_refl. erewrite sumQ_ext.
    2:{ intros k Hk. replace (Nat.eqb n k) with false by (symmetry; apply Nat.eqb_neq; lia).
        instantiate (1 := fun _ => qzero). simpl. qr. }
    rewrite sumQ_zero. qr.
  - replace (Nat.eqb i n) with false by (symmetry; apply Nat.eqb_neq; lia). rewrite IHn by lia. qr. Qed.
Lemma sumQ_delta_r n (f d : nat -> quat) j : (j < n)%nat ->
  sumQ n (fun l => qmul (f l) (if Nat.eqb l j then d l else qzero)) = qmul (f j) (d j).
Proof. induction n; intros H; [lia|]. simpl. destruct (Nat.eq_dec j n) as [->|Hn].
  - rewrite Nat.eqb_refl. erewrite sumQ_ext.
    2:{ intros k Hk. replace (Nat.eqb k n) with false by (symmetry; apply Nat.eqb_neq; lia).
        instantiate (1 := fun _ => qzero). simpl. qr. }
    rewrite sumQ_zero. qr.
  - replace (Nat.eqb n j) with false by (symmetry; apply Nat.eqb_neq; lia). rewrite IHn by lia. qr. Qed.
Lemma sumQ_re n (f : nat -> quat) : qre (sumQ n f) = sumR n (fun k => qre (f k)).
Proof. unfold qre. apply sumQ_w. Qed.

Definition meq (m n : nat) (A B : qmat) := forall i j, (i < m)%nat -> (j < n)%nat -> A i j = B i j.
Definition qdiag (d : nat -> quat) : qmat := fun i j => if Nat.eqb i j then d i else qzero.
Definition qmscaleq (c : quat) (A : qmat) : qmat := fun i j => qmul c (A i j).

Global Instance meq_equiv m n : Equivalence (meq m n).
Proof. split.
 - intros A i j _ _; reflexivity.
 - intros A B H i j Hi Hj; symmetry; apply H; assumption.
 - intros A B D H1 H2 i j Hi Hj; rewrite H1, H2 by assumption; reflexivity. Qed.
Global Instance qmm_proper m k n : Proper (meq m k ==> meq k n ==> meq m n) (qmm k).
Proof. intros A A' HA B B' HB i j Hi Hj. unfold qmm. apply sumQ_ext. intros. rewrite HA, HB by assumption. reflexivity. Qed.
Global Instance qmsub_proper m n : Proper (meq m n ==> meq m n ==> meq m n) qmsub.
Proof. intros A A' HA B B' HB i j Hi Hj. unfold qmsub. now rewrite HA, HB. Qed.
Global Instance qmadd_proper m n : Proper (meq m n ==> meq m n ==> meq m n) qmadd.
Proof. intros A A' HA B B' HB i j Hi Hj. unfold qmadd. now rewrite HA, HB. Qed.
Global Instance qmscaleq_proper m n c : Proper (meq m n ==> meq m n) (qmscaleq c).
Proof. intros A A' HA i j Hi Hj. unfold qmscaleq. now rewrite HA. Qed.
Global Instance qherm_proper m n : Proper (meq m n ==> meq n m) qherm.
Proof. intros A B H i j Hi Hj. unfold qherm. now rewrite H. Qed.

Lemma qmm_assoc m k l n (A B D : qmat) : meq m n (qmm l (qmm k A B) D) (qmm k A (qmm l B D)).
Proof. intros i j Hi Hj. unfold qmm.
  erewrite sumQ_ext. 2:{ intros; rewrite sumQ_mul_r. reflexivity. }
  rewrite sumQ_swap. apply sumQ_ext. intros. rewrite sumQ_mul_l. apply sumQ_ext. intros. qr. Qed.
Lemma qmm_sub_l m k n (A B D : qmat) : meq m n (qmm k (qmsub A B) D) (qmsub (qmm k A D) (qmm k B D)).
Proof. intros i j _ _. unfold qmm, qmsub. rewrite <- sumQ_sub. apply sumQ_ext; intros; qr. Qed.
Lemma qmm_sub_r m k n (A B D : qmat) : meq m n (qmm k A (qmsub B D)) (qmsub (qmm k A B) (qmm k A D)).
Proof. intros i j _ _. unfold qmm, qmsub. rewrite <- sumQ_sub. apply sumQ_ext; intros; qr. Qed.
Lemma qmm_add_l m k n (A B D : qmat) : meq m n (qmm k (qmadd A B) D) (qmadd (qmm k A D) (qmm k B D)).
Proof. intros i j _ _. unfold qmm, qmadd. rewrite <- sumQ_add. apply sumQ_ext; intros; qr. Qed.
Lemma qmm_add_r m k n (A B D : qmat) : meq m n (qmm k A (qmadd B D)) (qmadd (qmm k A B) (qmm k A D)).
Proof. intros i j _ _. unfold qmm, qmadd. rewrite <- sumQ_add. apply sumQ_ext; intros; qr. Qed.
Lemma qmm_id_l m n (A : qmat) : meq m n (qmm m qmid A) A.
Proof. intros i j Hi Hj. unfold qmm, qmid.
  rewrite (sumQ_delta_l m (fun l => A l j) (fun _ => qone) i Hi). qr. Qed.
Lemma qmm_id_r m n (A : qmat) : meq m n (qmm n A qmid) A.
Proof. intros i j Hi Hj. unfold qmm, qmid.
  rewrite (sumQ_delta_r n (fun l => A i l) (fun _ => qone) j Hj). qr. Qed.
Lemma qmm_diag_l m n d (A : qmat) : meq m n (qmm m (qdiag d) A) (fun i j => qmul (d i) (A i j)).
Proof. intros i j Hi Hj. unfold qmm, qdiag. apply (sumQ_delta_l m (fun l => A l j) d i Hi). Qed.
Lemma qmm_diag_r m n d (A : qmat) : meq m n (qmm n A (qdiag d)) (fun i j => qmul (A i j) (d j)).
Proof. intros i j Hi Hj. unfold qmm, qdiag. apply (sumQ_delta_r n (fun l => A i l) d j Hj). Qed.
Lemma qmm_diag_diag r a b : meq r r (qmm r (qdiag a) (qdiag b)) (qdiag (fun i => qmul (a i) (b i))).
Proof. intros i j Hi Hj. rewrite (qmm_diag_l r r a (qdiag b) i j Hi Hj). unfold qdiag.
  destruct (Nat.eqb_spec i j) as [->|]; [reflexivity|qr]. Qed.
Lemma qmm_scale_l m k n c (A B : qmat) : meq m n (qmm k (qmscaleq c A) B) (qmscaleq c (qmm k A B)).
Proof. intros i j _ _. unfold qmm, qmscaleq. rewrite sumQ_mul_l. apply sumQ_ext. intros. qr. Qed.
Lemma qmm_scale_r m k n c (A B : qmat) : (forall a, qmul c a = qmul a c) ->
  meq m n (qmm k A (qmscaleq c B)) (qmscaleq c (qmm k A B)).
Proof. intros Hc i j _ _. unfold qmm, qmscaleq. rewrite sumQ_mul_l. apply sumQ_ext. intros.
  rewrite !qmul_assoc, (Hc (A i k0)). reflexivity. Qed.
Lemma qmsub_diag r (a b : nat -> quat) : meq r r (qmsub (qdiag a) (qdiag b)) (qdiag (fun i => qsub (a i) (b i))).
Proof. intros i j _ _. unfold qmsub, qdiag. destruct (Nat.eqb i j); qr. Qed.
Lemma qmscale_diag r c (b : nat -> quat) : meq r r (qmscaleq c (qdiag b)) (qdiag (fun i => qmul c (b i))).
Proof. intros i j _ _. unfold qmscaleq, qdiag. destruct (Nat.eqb i j); qr. Qed.

Lemma qherm_mm_meq m k n (A B : qmat) : meq n m (qherm (qmm k A B)) (qmm k (qherm B) (qherm A)).
Proof. intros i j _ _. apply qherm_mm. Qed.
Lemma qherm_herm m n (A : qmat) : meq m n (qherm (qherm A)) A.
Proof. intros i j _ _. apply qherm_invol. Qed.
Lemma qherm_id n : meq n n (qherm (@qmid C)) qmid.
Proof. intros i j _ _. unfold qherm, qmid. rewrite Nat.eqb_sym. destruct (Nat.eqb i j); qr. Qed.
Lemma qherm_sub m n (A B : qmat) : meq n m (qherm (qmsub A B)) (qmsub (qherm A) (qherm B)).
Proof. intros i j _ _. unfold qherm, qmsub. apply qconj_sub. Qed.

(* Frobenius norm through the trace of the Gram matrix *)
Definition retr (n : nat) (A : qmat) : C := sumR n (fun j => qre (A j j)).
Lemma frob2_gram m n (A : qmat) : frob2 m n A = retr n (qmm m (qherm A) A).
Proof. unfold frob2, retr, qmm, qherm. rewrite sumR_swap. apply sumR_ext. intros j Hj.
  rewrite sumQ_re. apply sumR_ext. intros i Hi. symmetry. apply qre_conj_mul. Qed.
Lemma retr_meq n (A B : qmat) : meq n n A B -> retr n A = retr n B.
Proof. intros H. unfold retr. apply sumR_ext. intros. now rewrite H. Qed.
Lemma frob2_meq m n (A B : qmat) : meq m n A B -> frob2 m n A = frob2 m n B.
Proof. intros H. unfold frob2. apply sumR_ext; intros. apply sumR_ext; intros. now rewrite H. Qed.

(* ||U A||_F = ||A||_F  when U^H U = I (U is p x m with orthonormal columns) *)
Theorem frob2_unitary_left p m n (U A : qmat) :
  meq m m (qmm p (qherm U) U) qmid -> frob2 p n (qmm m U A) = frob2 m n A.
Proof.
  intros HU. rewrite !frob2_gram. apply retr_meq.
  rewrite (qherm_mm_meq p m n U A).
  rewrite (qmm_assoc n m p n (qherm A) (qherm U) (qmm m U A)).
  rewrite <- (qmm_assoc m p m n (qherm U) U A).
  rewrite HU, (qmm_id_l m n A). reflexivity.
Qed.
(* ||A U||_F = ||A||_F  when U U^H = I *)
Theorem frob2_unitary_right m n p (A U : qmat) :
  meq n n (qmm p U (qherm U)) qmid -> frob2 m p (qmm n A U) = frob2 m n A.
Proof.
  intros HU.
  rewrite <- (frob2_herm C m p (qmm n A U)), <- (frob2_herm C m n A).
  rewrite (frob2_meq p m _ _ (qherm_mm_meq m n p A U)).
  apply frob2_unitary_left.
  rewrite (qherm_herm n p U). exact HU.
Qed.
End QMat.

Arguments meq {C}. Arguments qdiag {C}. Arguments qmscaleq {C}. Arguments retr {C}.
