(* Quaternions over a commutative ring; Hamilton product. *)
From Coq Require Import Arith Lia Ring.
From QV Require Import CRing Sums.
Local Open Scope cr_scope.

Section Quat.
Variable C : CRing.
Add Ring Cr : (cr_th C).

Record quat := mkQ { qw : C; qx : C; qy : C; qz : C }.

Definition qmul (p q : quat) : quat :=
  mkQ (qw p * qw q - qx p * qx q - qy p * qy q - qz p * qz q)
      (qw p * qx q + qx p * qw q + qy p * qz q - qz p * qy q)
      (qw p * qy q - qx p * qz q + qy p * qw q + qz p * qx q)
      (qw p * qz q + qx p * qy q - qy p * qx q + qz p * qw q).
Definition qadd (p q : quat) := mkQ (qw p + qw q) (qx p + qx q) (qy p + qy q) (qz p + qz q).
Definition qsub (p q : quat) := mkQ (qw p - qw q) (qx p - qx q) (qy p - qy q) (qz p - qz q).
Definition qopp (p : quat) := mkQ (- qw p) (- qx p) (- qy p) (- qz p).
Definition qzero := mkQ c0 c0 c0 c0.
Definition qone := mkQ c1 c0 c0 c0.
Definition qconj p := mkQ (qw p) (- qx p) (- qy p) (- qz p).
Definition qreal (c : C) := mkQ c c0 c0 c0.
Definition qscale (c : C) (p : quat) := mkQ (c * qw p) (c * qx p) (c * qy p) (c * qz p).
Definition qnorm2 (p : quat) : C := qw p * qw p + qx p * qx p + qy p * qy p + qz p * qz p.
Definition qre (p : quat) : C := qw p.

Lemma qeq p q : qw p = qw q -> qx p = qx q -> qy p = qy q -> qz p = qz q -> p = q.
Proof. destruct p, q; simpl; intros; subst; reflexivity. Qed.

Ltac qring := apply qeq; cbn [qmul qadd qsub qopp qzero qone qconj qreal qscale qw qx qy qz]; ring.

Lemma qadd_comm p q : qadd p q = qadd q p. Proof. qring. Qed.
Lemma qadd_assoc p q r : qadd p (qadd q r) = qadd (qadd p q) r. Proof. qring. Qed.
Lemma qadd_0_l p : qadd qzero p = p. Proof. qring. Qed.
Lemma qadd_0_r p : qadd p qzero = p. Proof. qring. Qed.
Lemma qmul_1_l p : qmul qone p = p. Proof. qring. Qed.
Lemma qmul_1_r p : qmul p qone = p. Proof. qring. Qed.
Lemma qmul_0_l p : qmul qzero p = qzero. Proof. qring. Qed.
Lemma qmul_0_r p : qmul p qzero = qzero. Proof. qring. Qed.
Lemma qmul_assoc p q r : qmul p (qmul q r) = qmul (qmul p q) r. Proof. qring. Qed.
Lemma qmul_add_l p q r : qmul (qadd p q) r = qadd (qmul p r) (qmul q r). Proof. qring. Qed.
Lemma qmul_add_r p q r : qmul p (qadd q r) = qadd (qmul p q) (qmul p r). Proof. qring. Qed.
Lemma qsub_def p q : qsub p q = qadd p (qopp q). Proof. qring. Qed.
Lemma qopp_def p : qadd p (qopp p) = qzero. Proof. qring. Qed.
Lemma qconj_mul p q : qconj (qmul p q) = qmul (qconj q) (qconj p). Proof. qring. Qed.
Lemma qconj_add p q : qconj (qadd p q) = qadd (qconj p) (qconj q). Proof. qring. Qed.
Lemma qconj_sub p q : qconj (qsub p q) = qsub (qconj p) (qconj q). Proof. qring. Qed.
Lemma qconj_opp p : qconj (qopp p) = qopp (qconj p). Proof. qring. Qed.
Lemma qconj_conj p : qconj (qconj p) = p. Proof. qring. Qed.
Lemma qconj_0 : qconj qzero = qzero. Proof. qring. Qed.
Lemma qconj_1 : qconj qone = qone. Proof. qring. Qed.
Lemma qconj_real c : qconj (qreal c) = qreal c. Proof. qring. Qed.
Lemma qreal_central c p : qmul (qreal c) p = qmul p (qreal c). Proof. qring. Qed.
Lemma qreal_scale c p : qmul (qreal c) p = qscale c p. Proof. qring. Qed.
Lemma qmul_conj_r p : qmul p (qconj p) = qreal (qnorm2 p).
Proof. apply qeq; cbn [qmul qconj qreal qw qx qy qz]; unfold qnorm2; ring. Qed.
Lemma qmul_conj_l p : qmul (qconj p) p = qreal (qnorm2 p).
Proof. apply qeq; cbn [qmul qconj qreal qw qx qy qz]; unfold qnorm2; ring. Qed.
Lemma qnorm2_mul p q : qnorm2 (qmul p q) = qnorm2 p * qnorm2 q.
Proof. unfold qnorm2; cbn [qmul qw qx qy qz]; ring. Qed.
Lemma qnorm2_conj p : qnorm2 (qconj p) = qnorm2 p.
Proof. unfold qnorm2; cbn [qconj qw qx qy qz]; ring. Qed.
Lemma qre_mul_comm p q : qre (qmul p q) = qre (qmul q p).
Proof. unfold qre; cbn [qmul qw]; ring. Qed.
Lemma qre_conj_mul p : qre (qmul (qconj p) p) = qnorm2 p.
Proof. rewrite qmul_conj_l. reflexivity. Qed.

(* sums of quaternions, component-wise *)
Fixpoint sumQ (n : nat) (f : nat -> quat) : quat :=
  match n with O => qzero | S k => qadd (sumQ k f) (f k) end.
Lemma sumQ_w n f : qw (sumQ n f) = sumR n (fun k => qw (f k)).
Proof. induction n; simpl; [reflexivity|rewrite IHn; reflexivity]. Qed.
Lemma sumQ_x n f : qx (sumQ n f) = sumR n (fun k => qx (f k)).
Proof. induction n; simpl; [reflexivity|rewrite IHn; reflexivity]. Qed.
Lemma sumQ_y n f : qy (sumQ n f) = sumR n (fun k => qy (f k)).
Proof. induction n; simpl; [reflexivity|rewrite IHn; reflexivity]. Qed.
Lemma sumQ_z n f : qz (sumQ n f) = sumR n (fun k => qz (f k)).
Proof. induction n; simpl; [reflexivity|rewrite IHn; reflexivity]. Qed.
Lemma sumQ_ext n f g : (forall k, (k < n)%nat -> f k = g k) -> sumQ n f = sumQ n g.
Proof. induction n; simpl; intros H; [reflexivity|]. rewrite IHn, H by (intros; try apply H; lia). reflexivity. Qed.
End Quat.

Arguments mkQ {C}. Arguments qw {C}. Arguments qx {C}. Arguments qy {C}. Arguments qz {C}.
Arguments qmul {C}. Arguments qadd {C}. Arguments qsub {C}. Arguments qopp {C}.
Arguments qzero {C}. Arguments qone {C}. Arguments qconj {C}. Arguments qreal {C}.
Arguments qscale {C}. Arguments qnorm2 {C}. Arguments qre {C}. Arguments sumQ {C}.
Arguments qeq {C}.

Ltac qcomp := cbn [qmul qadd qsub qopp qzero qone qconj qreal qscale qw qx qy qz].
Ltac sumQ_comp := rewrite ?sumQ_w, ?sumQ_x, ?sumQ_y, ?sumQ_z.
