(* Finite sums over a commutative ring. *)
From Coq Require Import Arith Lia Ring.
From QV Require Import CRing.
Local Open Scope cr_scope.

Section Sums.
Variable C : CRing.
Add Ring Cr : (cr_th C).

Fixpoint sumR (n : nat) (f : nat -> C) : C :=
  match n with O => c0 | S k => sumR k f + f k end.

Lemma sumR_ext n f g : (forall k, (k < n)%nat -> f k = g k) -> sumR n f = sumR n g.
Proof. induction n; simpl; intros H; [reflexivity|]. rewrite IHn, H by (intros; try apply H; lia). reflexivity. Qed.
Lemma sumR_zero n : sumR n (fun _ => c0) = c0.
Proof. induction n; simpl; [reflexivity|rewrite IHn; ring]. Qed.
Lemma sumR_add n f g : sumR n (fun k => f k + g k) = sumR n f + sumR n g.
Proof. induction n; simpl; [ring|rewrite IHn; ring]. Qed.
Lemma sumR_sub n f g : sumR n (fun k => f k - g k) = sumR n f - sumR n g.
Proof. induction n; simpl; [ring|rewrite IHn; ring]. Qed.
Lemma sumR_opp n f : sumR n (fun k => - f k) = - sumR n f.
Proof. induction n; simpl; [ring|rewrite IHn; ring]. Qed.
Lemma sumR_mul_l n c f : sumR n (fun k => c * f k) = c * sumR n f.
Proof. induction n; simpl; [ring|rewrite IHn; ring]. Qed.
Lemma sumR_mul_r n c f : sumR n (fun k => f k * c) = sumR n f * c.
Proof. induction n; simpl; [ring|rewrite IHn; ring]. Qed.
Lemma sumR_swap m n (f : nat -> nat -> C) :
  sumR m (fun i => sumR n (fun j => f i j)) = sumR n (fun j => sumR m (fun i => f i j)).
Proof. induction m; simpl; [now rewrite sumR_zero|]. now rewrite IHm, sumR_add. Qed.
Lemma sumR_sep m n (f g : nat -> C) :
  sumR m (fun i => sumR n (fun j => f i * g j)) = sumR m f * sumR n g.
Proof. rewrite <- sumR_mul_r. apply sumR_ext; intros. apply sumR_mul_l. Qed.
Lemma sumR_app m n f : sumR (m + n) f = sumR m f + sumR n (fun k => f (m + k)%nat).
Proof. induction n; simpl.
  - rewrite Nat.add_0_r. ring.
  - rewrite Nat.add_succ_r. simpl. rewrite IHn. ring. Qed.
Lemma sumR_delta n i (f : nat -> C) : (i < n)%nat ->
  sumR n (fun l => if Nat.eqb l i then f l else c0) = f i.
Proof. induction n; intros H; [lia|]. simpl. destruct (Nat.eq_dec i n) as [->|Hn].
  - rewrite Nat.eqb_refl. erewrite sumR_ext, sumR_zero; [ring|].
    intros k Hk. simpl. replace (k =? n)%nat with false by (symmetry; apply Nat.eqb_neq; lia). reflexivity.
  - replace (n =? i)%nat with false by (symmetry; apply Nat.eqb_neq; lia). rewrite IHn by lia. ring. Qed.

Lemma sumR_4 k f : sumR (4 * k) f
  = sumR k (fun l => f (4*l)%nat + f (4*l+1)%nat + f (4*l+2)%nat + f (4*l+3)%nat).
Proof.
  induction k; [reflexivity|].
  replace (4 * S k)%nat with (S (S (S (S (4 * k))))) by lia.
  cbn [sumR]. rewrite IHk.
  replace (S (4*k))%nat with (4*k+1)%nat by lia. replace (S (4*k+1))%nat with (4*k+2)%nat by lia.
  replace (S (4*k+2))%nat with (4*k+3)%nat by lia. ring.
Qed.
Lemma sumR_4z k f : sumR (4 * k) f
  = sumR k (fun l => f (4*l+0)%nat + f (4*l+1)%nat + f (4*l+2)%nat + f (4*l+3)%nat).
Proof. rewrite sumR_4. apply sumR_ext. intros. now rewrite Nat.add_0_r. Qed.
Lemma sumR_2 k f : sumR (2 * k) f = sumR k (fun l => f (2*l)%nat + f (2*l+1)%nat).
Proof.
  induction k; [reflexivity|].
  replace (2 * S k)%nat with (S (S (2 * k))) by lia.
  cbn [sumR]. rewrite IHk. replace (S (2*k))%nat with (2*k+1)%nat by lia. ring.
Qed.
(* sum over a product index  i*n + j *)
Lemma sumR_prod m n f : sumR (m * n) f = sumR m (fun i => sumR n (fun j => f (i * n + j)%nat)).
Proof. induction m; [reflexivity|].
  replace (S m * n)%nat with (m * n + n)%nat by lia. rewrite sumR_app, IHm. reflexivity. Qed.
(* four consecutive blocks of length n *)
Lemma sumR_4blocks n f : sumR (4 * n) f
  = sumR n f + sumR n (fun k => f (n + k)%nat) + sumR n (fun k => f (2*n + k)%nat) + sumR n (fun k => f (3*n + k)%nat).
Proof.
  replace (4 * n)%nat with (n + (n + (n + n)))%nat by lia.
  rewrite !sumR_app.
  rewrite (sumR_ext n (fun k => f (n + (n + k))%nat) (fun k => f (2*n + k)%nat)) by (intros; f_equal; lia).
  rewrite (sumR_ext n (fun k => f (n + (n + (n + k)))%nat) (fun k => f (3*n + k)%nat)) by (intros; f_equal; lia).
  ring.
Qed.
Lemma sumR_4blocksz n f : sumR (4 * n) f
  = sumR n (fun k => f (0*n + k)%nat + f (1*n + k)%nat + f (2*n + k)%nat + f (3*n + k)%nat).
Proof. rewrite sumR_4blocks, !sumR_add.
  rewrite (sumR_ext n (fun k => f (0*n + k)%nat) f) by (intros; f_equal; lia).
  rewrite (sumR_ext n (fun k => f (1*n + k)%nat) (fun k => f (n + k)%nat)) by (intros; f_equal; lia).
  reflexivity. Qed.
Lemma sumR_2blocksz n f : sumR (2 * n) f = sumR n (fun k => f (0*n + k)%nat + f (1*n + k)%nat).
Proof. replace (2 * n)%nat with (n + n)%nat by lia. rewrite sumR_app, sumR_add.
  rewrite (sumR_ext n (fun k => f (0*n + k)%nat) f) by (intros; f_equal; lia).
  rewrite (sumR_ext n (fun k => f (1*n + k)%nat) (fun k => f (n + k)%nat)) by (intros; f_equal; lia).
  reflexivity. Qed.
End Sums.
Arguments sumR {C} n f.

Ltac sum_push := repeat (rewrite sumR_add || rewrite sumR_sub || rewrite sumR_opp).
