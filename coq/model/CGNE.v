(* Hand model of solver.py: CGNEQSolver.compute (l.1800-1866, no preconditioner), the projection
   update of the sketch-and-project solvers and the hyper-power step (_ns_hyperpower_right).
   Squared norms are used directly (alpha_k = ||Z||^2 / ||W||^2), so no square roots.  No proofs. *)
From Coq Require Import Arith List Bool.
From QV Require Import CRing Sums Quat Mat.
Import ListNotations.

Section M.
Variable C : CRing.
Notation qmat := (qmat C).
Variable retab : nat -> nat -> qmat -> qmat.
Variable cdiv : C -> C -> C.
Variable small : C -> bool.          (* Wn <= 1e-20 (on the squared norm: <= 1e-40) *)
Definition qscalem (c : C) (M : qmat) : qmat := fun i j => qscale c (M i j).

Record cg_state := { cgX : qmat; cgR : qmat; cgZ : qmat; cgD : qmat }.
Definition cg_init (m n : nat) (alpha0 : C) (A : qmat) : cg_state :=
  let X := retab n m (qscalem alpha0 (qherm A)) in
  let R := retab n n (qmsub qmid (qmm m X A)) in
  let Z := retab n m (qmm n R (qherm A)) in
  {| cgX := X; cgR := R; cgZ := Z; cgD := Z |}.
(* one iteration up to and including the update of X and R; returns None when ||W|| is below the break threshold *)
Definition cg_update (m n : nat) (A : qmat) (s : cg_state) : option (cg_state * C) :=
  let W := retab n n (qmm m (cgD s) A) in
  let wn2 := frob2 n n W in
  if small wn2 then None else
  let ak := cdiv (frob2 n m (cgZ s)) wn2 in
  let X := retab n m (qmadd (cgX s) (qscalem ak (cgD s))) in
  let R := retab n n (qmsub (cgR s) (qscalem ak W)) in
  Some ({| cgX := X; cgR := R; cgZ := cgZ s; cgD := cgD s |}, frob2 n n R).
Definition cg_direction (m n : nat) (A : qmat) (s : cg_state) : cg_state :=
  let Znew := retab n m (qmm n (cgR s) (qherm A)) in
  let beta := cdiv (frob2 n m Znew) (frob2 n m (cgZ s)) in
  {| cgX := cgX s; cgR := cgR s; cgZ := Znew; cgD := retab n m (qmadd Znew (qscalem beta (cgD s))) |}.
(* runs k iterations (tol test supplied as a predicate on the squared relative residual) *)
Fixpoint cg_run (m n : nat) (A : qmat) (stop : C -> bool) (k : nat) (s : cg_state) (hist : list C) : cg_state * list C :=
  match k with
  | O => (s, hist)
  | S k' => match cg_update m n A s with
            | None => (s, hist)
            | Some (s1, r2) => if stop r2 then (s1, hist ++ [r2])
                               else cg_run m n A stop k' (cg_direction m n A s1) (hist ++ [r2])
            end
  end.

(* projection step  X' = X + (Omega - X Y) Z  with Z a left inverse of Y (Z Y = I_r) *)
Definition rsp_step (m n r : nat) (X Y Omega Z : qmat) : qmat := qmadd X (qmm r (qmsub Omega (qmm m X Y)) Z).
(* hyper-power:  X' = (I + F + ... + F^(p-1)) X,  F = I - X A *)
Fixpoint hp_sum (n : nat) (F : qmat) (p : nat) : qmat * qmat :=     (* (S_p, F^p) *)
  match p with
  | O => (fun _ _ => qzero, qmid)
  | S p' => let '(Sm, Fp) := hp_sum n F p' in (retab n n (qmadd Sm Fp), retab n n (qmm n Fp F))
  end.
Definition hyperpower (m n p : nat) (A X : qmat) : qmat :=
  let F := retab n n (qmsub qmid (qmm m X A)) in qmm n (fst (hp_sum n F p)) X.
End M.
