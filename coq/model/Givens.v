(* Hand model of quatica/utils.py: ggivens (l.771-829), GRSGivens (l.832-865), Hess_QR_ggivens
   (l.868-969) in quaternion form: the 8x8 real block G = Realp([[q1,q3],[q2,q4]]) acts on the two
   quaternion rows s, s+1 (G^T = G^H applied from the left) and on the two quaternion columns
   s, s+1 of W (G applied from the right).  No proofs here. *)
From Coq Require Import ZArith List Bool Arith.
From QV Require Import FOps.
Import ListNotations.

Section G.
Variable Ops : FOps.
Variable eps : Ops.        (* np.finfo(float).eps *)
Variable atol : Ops.       (* np.allclose absolute tolerance 1e-8 *)
Notation fq := (fq Ops).

(* the rotation [[q1, q3], [q2, q4]] *)
Definition ggivens (x1 x2 : fq) : fq * fq * fq * fq :=
  let t := fsqrt (fadd (fqn2 x1) (fqn2 x2)) in
  if fleb t eps then (fq1, fq0, fq0, fq1) else
  let q1 := fqdivr x1 t in let q2 := fqdivr x2 t in
  let n1 := fqabs q1 in let n2 := fqabs q2 in
  if fltb n1 n2
  then (q1, q2, fqreal n2, fqdivr (fqmul q2 (fqconj q1)) (fopp n2))
  else (q1, q2, fqdivr (fqmul q1 (fqconj q2)) (fopp n1), fqreal n1).

Definition fabs (x : Ops) : Ops := if fltb x f0 then fopp x else x.
(* unit quaternion u with conj(u) g real; identity when the imaginary part is below the allclose tolerance *)
Definition grs (g : fq) : fq :=
  if fleb (fabs (fx g)) atol && fleb (fabs (fy g)) atol && fleb (fabs (fz g)) atol then fq1
  else fqdivr g (fqabs g).

(* one sweep step at position s: rows s, s+1 of H on columns >= s; columns s, s+1 of W *)
Definition rot_rows (s n : nat) (g : fq * fq * fq * fq) (H : fmat Ops) : fmat Ops :=
  let '(q1, q2, q3, q4) := g in
  fun i c => if Nat.leb s c && Nat.ltb c n then
               if Nat.eqb i s then fqadd (fqmul (fqconj q1) (H s c)) (fqmul (fqconj q2) (H (S s) c))
               else if Nat.eqb i (S s) then fqadd (fqmul (fqconj q3) (H s c)) (fqmul (fqconj q4) (H (S s) c))
               else H i c
             else H i c.
Definition rot_cols (s : nat) (g : fq * fq * fq * fq) (W : fmat Ops) : fmat Ops :=
  let '(q1, q2, q3, q4) := g in
  fun i c => if Nat.eqb c s then fqadd (fqmul (W i s) q1) (fqmul (W i (S s)) q2)
             else if Nat.eqb c (S s) then fqadd (fqmul (W i s) q3) (fqmul (W i (S s)) q4)
             else W i c.
Fixpoint sweep (m n : nat) (ss : list nat) (W H : fmat Ops) : fmat Ops * fmat Ops :=
  match ss with
  | [] => (W, H)
  | s :: t => let g := ggivens (H s s) (H (S s) s) in
              sweep m n t (fretab m m (rot_cols s g W)) (fretab m n (rot_rows s n g H))
  end.
(* Hess is m x n (m rows); returns (W, R) with W R = Hess *)
Definition hessqr (m n : nat) (H : fmat Ops) : fmat Ops * fmat Ops :=
  let '(W, H1) := sweep m n (seq 0 (m - 1)) (feye) (fretab m n H) in
  let u := grs (H1 (m - 1) (n - 1)) in
  let W2 : fmat Ops := fun i c => if Nat.eqb c (m - 1) then fqmul (W i c) u else W i c in
  let H2 : fmat Ops := fun i c => if Nat.eqb i (m - 1) && Nat.eqb c (n - 1) then fqmul (fqconj u) (H1 i c) else H1 i c in
  (W2, H2).
End G.
