(* Control flow of solver.py:QGMRESSolver._GMRESQsparse / solve (outer loop l.645-844, info record
   l.597-617) over the outcomes of the cycles: cycle k (k = 1..N) would produce an iterate with
   relative residual res_k using an effective Krylov dimension meff_k (= k, or smaller after a lucky
   breakdown).  No proofs here. *)
From Coq Require Import QArith List Bool Arith.
Import ListNotations.

Record cycle := { c_res : Q; c_meff : nat }.
Record info := { ret_cycle : nat;      (* 1-based index of the cycle whose iterate is returned; 0 = x0 = 0 (b = 0) *)
                 res_core : Q; iterations : nat; history : list Q; converged : bool }.
Definition ltQ (a b : Q) : bool := if Qlt_le_dec a b then true else false.

(* cycles are consumed in order; stop after the first one with res < tol or meff > maxit *)
Fixpoint run (tol : Q) (maxit : nat) (k : nat) (cs : list cycle) (hist : list Q) (last : info) : info :=
  match cs with
  | [] => last
  | c :: rest =>
      let h := hist ++ [c_res c] in
      let i := {| ret_cycle := k; res_core := c_res c; iterations := c_meff c; history := h; converged := ltQ (c_res c) tol |} in
      if ltQ (c_res c) tol || Nat.ltb maxit (c_meff c) then i else run tol maxit (S k) rest h i
  end.
(* b = 0: no cycle is run *)
Definition zero_rhs : info := {| ret_cycle := 0; res_core := 0; iterations := 0; history := []; converged := true |}.
Definition solve (tol : Q) (maxit : nat) (b_is_zero : bool) (cs : list cycle) : info :=
  if b_is_zero then {| ret_cycle := 0; res_core := 0; iterations := 0; history := []; converged := ltQ 0 tol |}
  else run tol maxit 1 cs [] {| ret_cycle := 0; res_core := 1; iterations := 0; history := []; converged := false |}.
