(* Hand model of decomp/tridiagonalize.py: householder_vector / householder_matrix (column form,
   v = e1, l.40-145), of the two-sided reductions internal_tridiagonalizer (l.148-201, written as
   the equivalent loop) and decomp/hessenberg.py:hessenbergize (l.89-142), over FOps.  No proofs. *)
From Coq Require Import ZArith List Bool Arith.
From QV Require Import FOps.
Import ListNotations.

Section H.
Variable Ops : FOps.
Notation fq := (fq Ops).
Definition fis0 (x : Ops) : bool := fleb x f0 && fleb f0 x.
(* householder_vector(a, e1) for a column a of length n: returns (u, zeta) *)
Definition hh_vector (n : nat) (a : nat -> fq) : (nat -> fq) * fq :=
  let alpha := fsqrt (fsum n (fun i => fqn2 (a i))) in
  if fis0 alpha then (fun _ => fq0, fq1) else
  let r := fqabs (a 0%nat) in
  let zeta := if fis0 r then fq1 else fqopp (fqdivr (a 0%nat) r) in
  let mu := fsqrt (fmul alpha (fadd alpha r)) in
  (fun i => fqdivr (fqsub (a i) (if Nat.eqb i 0 then fqscale alpha zeta else fq0)) mu, zeta).
(* householder_matrix(a, e1) = (1/zeta) (I - u u^H) *)
Definition hh_matrix (n : nat) (a : nat -> fq) : fmat Ops :=
  let '(u, zeta) := hh_vector n a in
  let zi := fqinv zeta in
  fun i j => fqmul zi (fqsub (if Nat.eqb i j then fq1 else fq0) (fqmul (u i) (fqconj (u j)))).
(* embed a reflector acting on rows/columns k .. n-1 *)
Definition embed (k : nat) (Hs : fmat Ops) : fmat Ops :=
  fun i j => if Nat.ltb i k || Nat.ltb j k then (if Nat.eqb i j then fq1 else fq0) else Hs (i - k) (j - k).
(* one reduction step at column k (0-based): reflector from rows k+1.. of column k, embedded at offset k+1,
   B <- Hk B Hk^H, P <- Hk P *)
Definition reduce_step (n k : nat) (st : fmat Ops * fmat Ops) : fmat Ops * fmat Ops :=
  let '(P, B) := st in
  let Hs := hh_matrix (n - (k + 1)) (fun i => B (k + 1 + i) k) in
  let Hk := fretab n n (embed (k + 1) Hs) in
  (fretab n n (fmm n Hk P), fretab n n (fmm n (fretab n n (fmm n Hk B)) (fherm Hk))).
Fixpoint reduce (n : nat) (ks : list nat) (st : fmat Ops * fmat Ops) : fmat Ops * fmat Ops :=
  match ks with [] => st | k :: t => reduce n t (reduce_step n k st) end.
(* tridiagonalize: steps k = 0 .. n-2 ; hessenbergize: k = 0 .. n-3 *)
Definition tridiag (n : nat) (A : fmat Ops) := reduce n (seq 0 (n - 1)) (feye, fretab n n A).
Definition hessen (n : nat) (A : fmat Ops) := reduce n (seq 0 (n - 2)) (feye, fretab n n A).
(* check_tridiagonal (l.204-270): off-band entries dropped, every kept entry replaced by its scalar part *)
Definition band1 (i j : nat) : bool := Nat.leb i (j + 1) && Nat.leb j (i + 1).
Definition clean_tridiag (B : fmat Ops) : fmat Ops := fun i j => if band1 i j then fqreal (fw (B i j)) else fq0.
(* check_hessenberg (l.56-76): an entry below the first sub-diagonal whose four components are all <= atol
   in modulus is replaced by 0; nothing else changes.  is_hessenberg (l.36-53) is the matching predicate. *)
Definition fabs (x : Ops) : Ops := if fleb f0 x then x else fopp x.
Definition small4 (atol : Ops) (q : fq) : bool :=
  fleb (fabs (fw q)) atol && fleb (fabs (fx q)) atol && fleb (fabs (fy q)) atol && fleb (fabs (fz q)) atol.
Definition clean_hess (atol : Ops) (H : fmat Ops) : fmat Ops :=
  fun i j => if Nat.ltb (j + 1) i && small4 atol (H i j) then fq0 else H i j.
Definition is_hess (atol : Ops) (n : nat) (H : fmat Ops) : bool :=
  forallb (fun i => forallb (fun j => negb (Nat.ltb (j + 1) i) || small4 atol (H i j)) (seq 0 n)) (seq 0 n).
(* tridiagonalize = internal_tridiagonalizer followed by check_tridiagonal; hessenbergize ends with check_hessenberg *)
Definition tridiagonalize_model (n : nat) (A : fmat Ops) : fmat Ops * fmat Ops :=
  let '(P, B) := tridiag n A in (P, clean_tridiag B).
Definition hessenbergize_model (atol : Ops) (n : nat) (A : fmat Ops) : fmat Ops * fmat Ops :=
  let '(P, Hm) := hessen n A in (P, clean_hess atol Hm).
End H.
