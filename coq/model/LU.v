(* Hand model of quatica/decomp/LU.py:quaternion_lu (l.118-224): Gaussian elimination with partial
   pivoting on the in-place work matrix W and the permutation vector IP.  No proofs here.
   Parameters: inv (right division by the pivot is multiplication by inv pivot), small (the
   |pivot| < 1e-15 test), pivot (row chosen by the arg-max search). *)
From Coq Require Import Arith List Bool.
From QV Require Import CRing Sums Quat Mat.
Import ListNotations.

Section LU.
Variable C : CRing.
Notation quat := (quat C).
Notation qmat := (qmat C).
Variable inv : quat -> quat.
Variable small : quat -> bool.
Variable pivot : nat -> qmat -> nat -> nat.      (* pivot m W j : a row in [j, m) *)

Definition swapi (a b i : nat) : nat := if Nat.eqb i a then b else if Nat.eqb i b then a else i.
Definition swap_rows (W : qmat) (a b : nat) : qmat := fun i c => W (swapi a b i) c.
(* A_work[i, j] = A_work[i, j] / pivot  for i > j *)
Definition scale (W : qmat) (j : nat) : qmat :=
  fun i c => if Nat.ltb j i && Nat.eqb c j then qmul (W i j) (inv (W j j)) else W i c.
(* A_work[j+1:m, j+1:n] -= A_work[j+1:m, j] * A_work[j, j+1:n] *)
Definition update (W : qmat) (j : nat) : qmat :=
  fun i c => if Nat.ltb j i && Nat.ltb j c then qsub (W i c) (qmul (W i j) (W j c)) else W i c.

(* one pass of the loop body for column j; None = "Zero pivot encountered".
   The two `break`s of the source only skip empty ranges (j = m-1: no rows below; j = n-1: no
   columns to the right), which the guards below reproduce. *)
Definition step (m : nat) (j : nat) (W : qmat) (IP : nat -> nat) : option (qmat * (nat -> nat)) :=
  let p := pivot m W j in
  let W1 := swap_rows W j p in
  let IP1 := fun i => IP (swapi j p i) in
  if Nat.ltb (S j) m && small (W1 j j) then None
  else Some (update (scale W1 j) j, IP1).

(* re-tabulation keeps closures small when the model is executed *)
Variable retab : nat -> nat -> qmat -> qmat.
Variable retabp : nat -> (nat -> nat) -> (nat -> nat).

Fixpoint loop (m n : nat) (js : list nat) (W : qmat) (IP : nat -> nat) : option (qmat * (nat -> nat)) :=
  match js with
  | [] => Some (W, IP)
  | j :: t => match step m j W IP with
              | None => None
              | Some (W', IP') => loop m n t (retab m n W') (retabp m IP')
              end
  end.
Definition lu (m n : nat) (A : qmat) : option (qmat * (nat -> nat)) :=
  loop m n (seq 0 (Nat.min m n)) A (fun i => i).

(* extraction of the factors (l.187-224) *)
Definition Lof (W : qmat) : qmat := fun i k => if Nat.ltb k i then W i k else if Nat.eqb k i then qone else qzero.
Definition Uof (W : qmat) : qmat := fun k c => if Nat.leb k c then W k c else qzero.
Definition Pof (IP : nat -> nat) : qmat := fun i r => if Nat.eqb r (IP i) then qone else qzero.
(* two-output mode: row i of L is placed at row IP i *)
Fixpoint find_inv (IP : nat -> nat) (r : nat) (cnt : nat) : nat :=
  match cnt with O => O | S k => if Nat.eqb (IP k) r then k else find_inv IP r k end.
Definition Lperm (m : nat) (W : qmat) (IP : nat -> nat) : qmat := fun r k => Lof W (find_inv IP r m) k.
End LU.

Arguments swapi a b i : simpl never.
