(* Executable instance of the LU model over canonical rationals Qc (Leibniz equality). *)
From Coq Require Import ZArith QArith Qcanon Arith List Bool.
From QV Require Import CRing Sums Quat Mat.
From QVM Require Import LU.
Import ListNotations.

Notation quatQ := (quat QcR).
Definition qn2Q (p : quatQ) : Qc := qnorm2 p.
Definition qinvQ (p : quatQ) : quatQ :=
  let d := qn2Q p in @mkQ QcR (qw p / d)%Qc (- qx p / d)%Qc (- qy p / d)%Qc (- qz p / d)%Qc.
(* |pivot| < 1e-15  <=>  |pivot|^2 < 1e-30 *)
Definition tinyQ : Qc := Q2Qc (1 # 1000000000000000000000000000000).
Definition smallQ (p : quatQ) : bool := if Qclt_le_dec (qn2Q p) tinyQ then true else false.
(* first arg-max of the squared modulus on rows j..m-1 of column j (np.argmax takes the first) *)
Fixpoint argmax_from (W : qmat QcR) (c : nat) (i : nat) (cnt : nat) (best : nat) (bv : Qc) : nat :=
  match cnt with
  | O => best
  | S k => let v := qn2Q (W i c) in
           if Qclt_le_dec bv v then argmax_from W c (S i) k i v else argmax_from W c (S i) k best bv
  end.
Definition pivotQ (m : nat) (W : qmat QcR) (j : nat) : nat :=
  argmax_from W j (S j) (m - S j) j (qn2Q (W j j)).

Definition q0Q : quatQ := qzero.
Definition qto_list (m n : nat) (M : qmat QcR) := map (fun i => map (fun j => M i j) (seq 0 n)) (seq 0 m).
Definition qof_listQ (L : list (list quatQ)) : qmat QcR := fun i j => nth j (nth i L []) q0Q.
Definition retabQ (m n : nat) (M : qmat QcR) : qmat QcR := qof_listQ (qto_list m n M).
Definition retabpQ (m : nat) (IP : nat -> nat) : nat -> nat :=
  let l := map IP (seq 0 m) in fun i => nth i l 0%nat.

Definition luQ (m n : nat) (A : qmat QcR) := lu QcR qinvQ smallQ pivotQ retabQ retabpQ m n A.
