(* Hand model of solver.py: NewtonSchulzPseudoinverse.compute (l.50-113) and
   HigherOrderNewtonSchulzPseudoinverse.compute (l.140-175), trajectories over any commutative
   ring with a reciprocal on the scalars that appear (alpha = 1/||A||_F^2).  Histories are kept
   SQUARED (the code takes square roots last).  No proofs here. *)
From Coq Require Import Arith List Bool.
From QV Require Import CRing Sums Quat Mat.
Import ListNotations.

Section NS.
Variable C : CRing.
Notation qmat := (qmat C).
Variable retab : nat -> nat -> qmat -> qmat.

Definition qscalem (c : C) (M : qmat) : qmat := fun i j => qscale c (M i j).
(* the four Penrose residuals (squared) of X for A (m x n), X (n x m) *)
Definition penrose2 (m n : nat) (A X : qmat) : C * C * C * C :=
  let AX := retab m m (qmm n A X) in let XA := retab n n (qmm m X A) in
  (frob2 m n (qmsub (qmm m AX A) A), frob2 n m (qmsub (qmm n XA X) X),
   frob2 m m (qmsub AX (qherm AX)), frob2 n n (qmsub XA (qherm XA))).
(* one damped step; returns (covariance^2 before the update, X after the update) *)
Definition damped_step (m n : nat) (gamma : C) (A X : qmat) : C * qmat :=
  if Nat.leb n m
  then let dev := retab n n (qmsub (qmm m X A) qmid) in
       (frob2 n n dev, retab n m (qmsub X (qscalem gamma (qmm n dev X))))
  else let dev := retab m m (qmsub (qmm n A X) qmid) in
       (frob2 m m dev, retab n m (qmsub X (qscalem gamma (qmm m X dev)))).
Fixpoint damped_run (m n : nat) (gamma : C) (A : qmat) (k : nat) (X : qmat)
  : list (C * (C * C * C * C)) * qmat :=
  match k with
  | O => ([], X)
  | S k' => let '(cov, X1) := damped_step m n gamma A X in
            let '(hist, Xf) := damped_run m n gamma A k' X1 in
            ((cov, penrose2 m n A X1) :: hist, Xf)
  end.
(* alpha is supplied by the caller: 1 / ||A||_F^2, or 0 for the zero matrix *)
Definition damped (m n : nat) (gamma alpha : C) (A : qmat) (k : nat) :=
  damped_run m n gamma (retab m n A) k (retab n m (qscalem alpha (qherm A))).

Definition third_step (m n : nat) (three : C) (A T : qmat) : qmat :=
  let AT := retab m m (qmm n A T) in
  let AT2 := retab m m (qmm m AT AT) in
  let TAT := retab n m (qmm n (retab n n (qmm m T A)) T) in
  retab n m (qmadd (qmsub (qscalem three T) (qscalem three TAT)) (qmm m T AT2)).
Fixpoint third_run (m n : nat) (three : C) (A : qmat) (k : nat) (T : qmat) : list (C * C * C * C) * qmat :=
  match k with
  | O => ([], T)
  | S k' => let T1 := third_step m n three A T in
            let '(hist, Tf) := third_run m n three A k' T1 in
            (penrose2 m n A T1 :: hist, Tf)
  end.
Definition third (m n : nat) (three alpha : C) (A : qmat) (k : nat) :=
  third_run m n three (retab m n A) k (retab n m (qscalem alpha (qherm A))).
End NS.
