(* Hand model of quatica/utils.py: power_iteration (l.1269-1393), _power_iteration_complex (l.1435-1469)
   and the mapping back of power_iteration_nonhermitian (l.1537-1594), over FOps.  The random start
   vector is an input (recorded by the harness).  Complex numbers are quaternions with y = z = 0.  No proofs. *)
From Coq Require Import ZArith List Bool Arith.
From QV Require Import FOps.
From QVM Require Import Householder.
Import ListNotations.

Section P.
Variable Ops : FOps.
Notation fq := (fq Ops).
Notation fmat := (fmat Ops).
Definition fvec := nat -> fq.
Definition vtab (n : nat) (v : fvec) : fvec := let l := map v (seq 0 n) in fun i => nth i l fq0.
Definition vnorm (n : nat) (v : fvec) : Ops := fsqrt (fsum n (fun i => fqn2 (v i))).
Definition matvec (n : nat) (A : fmat) (v : fvec) : fvec := fun i => fqsum n (fun l => fqmul (A i l) (v l)).
Definition vdivr (v : fvec) (c : Ops) : fvec := fun i => fqdivr (v i) c.
Definition vsub (u v : fvec) : fvec := fun i => fqsub (u i) (v i).
Definition inner (n : nat) (u v : fvec) : fq := fqsum n (fun i => fqmul (fqconj (u i)) (v i)).       (* u^H v *)
Definition fabs' (x : Ops) : Ops := if fleb f0 x then x else fopp x.
Definition milli : Ops := fdyad 1152921504606847 (-60).       (* 1e-3 *)

(* the iteration: returns the last vector and the number of matrix-vector products performed *)
Fixpoint pi_loop (n : nat) (A : fmat) (tol : Ops) (fuel : nat) (v : fvec) (prev : option Ops) (k : nat) : fvec * nat :=
  match fuel with
  | O => (v, k)
  | S f =>
      let Av := vtab n (matvec n A v) in
      let nrm := vnorm n Av in
      if fis0 Ops nrm then (v, S k) else
      let v' := vtab n (vdivr Av nrm) in
      let d := vnorm n (vsub v' v) in
      if fltb d tol then (v', S k) else
      match prev with
      | Some p => if fltb (fabs' (fsub d p)) (fmul tol milli) then (v', S k) else pi_loop n A tol f v' (Some d) (S k)
      | None => pi_loop n A tol f v' (Some d) (S k)
      end
  end.
Definition rayleigh_abs (n : nat) (A : fmat) (v : fvec) : Ops :=
  fdiv (fqabs (inner n v (matvec n A v))) (fqabs (inner n v v)).
(* power_iteration(A, max_iterations, tol, return_eigenvalue=True) from the start vector x0 *)
Definition power_iteration (n : nat) (A : fmat) (tol : Ops) (max_it : nat) (x0 : fvec) : fvec * Ops * nat :=
  let v0 := vtab n (vdivr x0 (vnorm n x0)) in
  let '(v, k) := pi_loop n A tol max_it v0 None 0 in (v, rayleigh_abs n A v, k).

(* ---- complex power iteration on the 2n x 2n complex adjoint (entries with y = z = 0) *)
Definition cadj (n : nat) (A : fmat) : fmat :=
  fun i j => let a := A (i mod n) (j mod n) in
    match Nat.ltb i n, Nat.ltb j n with
    | true, true => mkfq (fw a) (fx a) f0 f0                        (* C = W + i X *)
    | true, false => mkfq (fy a) (fz a) f0 f0                       (* D = Y + i Z *)
    | false, true => mkfq (fopp (fy a)) (fz a) f0 f0                (* -conj D *)
    | false, false => mkfq (fw a) (fopp (fx a)) f0 f0               (* conj C *)
    end.
Definition eps52' : Ops := fdyad 1 (-52).
Record cres := mkC { clam : fq; cv : fvec; cres_n : nat; clast : Ops }.
Fixpoint cpi_loop (m : nat) (M : fmat) (eig_tol : Ops) (res_tol : option Ops) (fuel : nat) (v : fvec) (lam : fq) (k : nat) (last : Ops) : cres :=
  match fuel with
  | O => mkC lam v k last
  | S f =>
      let w := vtab m (matvec m M v) in
      let nw := vnorm m w in
      if fis0 Ops nw then mkC lam v k last else
      let v' := vtab m (vdivr w nw) in
      let Mv := vtab m (matvec m M v') in
      let lam' := fqdivr (inner m v' Mv) (fw (inner m v' v')) in
      let res := vnorm m (fun i => fqsub (Mv i) (fqmul lam' (v' i))) in
      let stop1 := match res_tol with Some rt => fleb res rt | None => false end in
      if stop1 then mkC lam' v' (S k) res else
      if fleb (fqabs (fqsub lam' lam)) (fmul eig_tol (if fleb f1 (fqabs lam') then fqabs lam' else f1)) then mkC lam' v' (S k) res
      else cpi_loop m M eig_tol res_tol f v' lam' (S k) res
  end.
(* mapping back with block purification (l.1544-1581): returns the unit quaternion vector and the eigenvalue *)
Definition nonherm (n : nat) (A : fmat) (eig_tol : Ops) (res_tol : option Ops) (max_it : nat) (x0 : fvec) : fvec * fq * nat :=
  let m := (2 * n)%nat in
  let M := fretab m m (cadj n A) in
  let v0 := vtab m (vdivr x0 (fadd (vnorm m x0) eps52')) in
  let r := cpi_loop m M eig_tol res_tol max_it v0 fq0 0 f0 in
  let u : fvec := fun i => cv r i in let w : fvec := fun i => cv r (n + i) in
  let nu := vnorm n u in let nw := vnorm n w in
  let keep_u := fleb nw nu in
  let vp : fvec := fun i => if Nat.ltb i n then (if keep_u then cv r i else fq0) else (if keep_u then fq0 else cv r i) in
  let den := fadd (vnorm m vp) eps52' in
  let vp' := vtab m (vdivr vp den) in
  let Mv := vtab m (matvec m M vp') in
  let lam := fqdivr (inner m vp' Mv) (fw (inner m vp' vp')) in
  let q : fvec := fun i => if keep_u then mkfq (fw (cv r i)) (fx (cv r i)) f0 f0 else mkfq f0 f0 (fw (cv r (n + i))) (fx (cv r (n + i))) in
  let qn := vnorm n q in
  (vtab n (if fis0 Ops qn then q else vdivr q qn), lam, cres_n r).
End P.
