(* Hand model of the data movement in decomp/qsvd.py around the LAPACK / SciPy oracles, generic in
   the entry type X (floats are passed as opaque tokens, so the comparison is bit-exact):
   classical_qsvd_full / classical_qsvd (l.93-202) and qr_qua (l.41-99, tall/square path).
   A quaternion entry is the 4-tuple read from the FIRST column of a 4x4 block.  No proofs here. *)
From Coq Require Import Arith List.
Section G.
Variable X : Type.
Definition q4 := (X * X * X * X)%type.
Definition contract (R : nat -> nat -> X) : nat -> nat -> q4 :=
  fun i j => (R (4 * i) (4 * j), R (4 * i + 1) (4 * j), R (4 * i + 2) (4 * j), R (4 * i + 3) (4 * j)).
(* (U, s, V) from the full real SVD (Ur, sr, Vtr) of the (4m x 4n) embedding *)
Definition qsvd_full_U (Ur : nat -> nat -> X) : nat -> nat -> q4 := contract Ur.
Definition qsvd_full_s (sr : nat -> X) : nat -> X := fun i => sr (4 * i).
Definition qsvd_full_V (Vtr : nat -> nat -> X) : nat -> nat -> q4 := contract (fun I J => Vtr J I).
(* truncation to rank R keeps the first R columns / values: same functions, narrower index range *)
(* qr_qua, m >= n: Q = contract(Qr[:, :4n]) (m x n), R = contract(Rr[:4n, :]) (n x n) *)
Definition qr_Q (Qr : nat -> nat -> X) : nat -> nat -> q4 := contract Qr.
Definition qr_R (Rr : nat -> nat -> X) : nat -> nat -> q4 := contract Rr.
End G.
