(* Hand model of utils.py: rank (l.1242-1284), quat_null_space (l.1620-1690) and det (l.1184-1239)
   on top of the Q-SVD oracle answer (s non-increasing, V, U).  No proofs here. *)
From Coq Require Import QArith Qcanon List Bool Arith.
Import ListNotations.
Definition gtQc (a b : Qc) : bool := if Qclt_le_dec b a then true else false.
(* number of singular values above the threshold *)
Definition count_above (tol : Qc) (s : list Qc) : nat := length (filter (fun x => gtQc x tol) s).
Definition maxQc (s : list Qc) : Qc := fold_left (fun a b => if gtQc b a then b else a) s 0%Qc.
(* rank(X, tol=None): tol = eps * max(m, n) * max s *)
Definition rank_default (eps : Qc) (m n : nat) (s : list Qc) : nat :=
  count_above (eps * Q2Qc (inject_Z (Z.of_nat (Nat.max m n))) * maxQc s)%Qc s.
(* quat_null_space: rank = #{s > rtol * s[0]} (0 for an empty s); right basis = columns rank .. n-1 of V, left = of U *)
Definition null_rank (rtol : Qc) (s : list Qc) : nat :=
  match s with [] => O | s0 :: _ => count_above (rtol * s0)%Qc s end.
Definition null_cols (dim rank : nat) : list nat := seq rank (dim - rank).
(* Dieudonne determinant = product of the singular values; Moore = product of the eigenvalues *)
Definition prodQc (s : list Qc) : Qc := fold_right Qcmult 1%Qc s.
