(* Hand model of quatica/decomp/schur.py over FOps.  Every state change of every variant goes through
   one of three operations on (Q, H, budget):
     sim2  s B : H <- P H P^H, Q <- Q P^H with P = I except the 2x2 block B at rows/cols s, s+1
                 (apply_left_rows / apply_right_cols, l.637-652, l.798-813; the full products of l.517-525;
                  the real-block Givens similarity of l.156-170 written in quaternion form)
     simG  G   : H <- G H G^H, Q <- Q G^H                (the explicit QR step of l.397-427)
     defl i j  : H[i,j] <- 0, budget += |H[i,j]|          (every deflation / clean-up assignment)
   `budget` is a ghost output: the sum of the moduli of everything that was set to zero.
   Shifts computed by numpy.linalg.eigvals and by the seeded power iteration are inputs (recorded).  No proofs. *)
From Coq Require Import ZArith List Bool Arith.
From QV Require Import FOps.
From QVM Require Import Householder Givens.
Import ListNotations.

Section S.
Variable Ops : FOps.
Notation fq := (fq Ops).
Notation fmat := (fmat Ops).
Record sst := mkS { sQ : fmat; sH : fmat; sBud : Ops }.
Definition blk : Type := (fq * fq * fq * fq)%type.       (* [[a, b], [c, d]] *)
Definition rows2 (s : nat) (B : blk) (M : fmat) : fmat :=
  let '(a, b, c, d) := B in
  fun i k => if Nat.eqb i s then fqadd (fqmul a (M s k)) (fqmul b (M (S s) k))
             else if Nat.eqb i (S s) then fqadd (fqmul c (M s k)) (fqmul d (M (S s) k)) else M i k.
(* M <- M B^H on columns s, s+1 *)
Definition cols2 (s : nat) (B : blk) (M : fmat) : fmat :=
  let '(a, b, c, d) := B in
  fun i k => if Nat.eqb k s then fqadd (fqmul (M i s) (fqconj a)) (fqmul (M i (S s)) (fqconj b))
             else if Nat.eqb k (S s) then fqadd (fqmul (M i s) (fqconj c)) (fqmul (M i (S s)) (fqconj d)) else M i k.
Definition sim2 (n s : nat) (B : blk) (st : sst) : sst :=
  mkS (fretab n n (cols2 s B (sQ st))) (fretab n n (cols2 s B (fretab n n (rows2 s B (sH st))))) (sBud st).
Definition simG (n : nat) (G : fmat) (st : sst) : sst :=
  mkS (fretab n n (fmm n (sQ st) (fherm G))) (fretab n n (fmm n (fretab n n (fmm n G (sH st))) (fherm G))) (sBud st).
Definition defl (n i j : nat) (st : sst) : sst :=
  mkS (sQ st) (fretab n n (fun a b => if Nat.eqb a i && Nat.eqb b j then fq0 else sH st a b)) (fadd (sBud st) (fqabs (sH st i j))).

Definition fmaxf (a b : Ops) : Ops := if fleb a b then b else a.
Definition max1 (x : Ops) : Ops := fmaxf f1 x.
Definition hh2 (v0 v1 : fq) : blk :=
  let Hm := hh_matrix Ops 2 (fun i => if Nat.eqb i 0 then v0 else v1) in (Hm 0 0, Hm 0 1, Hm 1 0, Hm 1 1)%nat.
(* largest modulus in the strictly lower triangle (the convergence test after the flag fix) *)
Definition max_below (n : nat) (H : fmat) : Ops :=
  fold_left (fun m i => fold_left (fun m' j => fmaxf m' (fqabs (H i j))) (seq 0 i) m) (seq 1 (n - 1)) f0.
Definition tiny30 : Ops := fdyad 178405961588245 (-147).      (* 1e-30 *)

(* ---- sweeps of 2x2 Householder similarities (implicit / aed / ds / experimental): reflector from
   [H[s,s] - sigma, H[s+1,s]], skipped when |H[s+1,s]| passes `skip` *)
Fixpoint sweep_hh (n : nat) (skip : Ops -> bool) (sigma : Ops) (ss : list nat) (st : sst) : sst :=
  match ss with
  | [] => st
  | s :: t => let H := sH st in
              let v0 := fqsub (H s s) (fqreal sigma) in let v1 := H (S s) s in
              if skip (fqabs v1) then sweep_hh n skip sigma t st
              else sweep_hh n skip sigma t (sim2 n s (hh2 v0 v1) st)
  end.
(* clean tiny sub-diagonals (l.429-448, l.527-547): returns the state and the largest sub-diagonal modulus *)
Fixpoint defl_pass (n : nat) (tol : Ops) (is : list nat) (acc : sst * Ops) : sst * Ops :=
  match is with
  | [] => acc
  | i :: t => let '(st, mx) := acc in let H := sH st in
              let sv := fqabs (H i (i - 1)) in
              let dscale := fadd (fadd (fqabs (H (i - 1) (i - 1))) (fqabs (H i i))) tiny30 in
              let st' := if fleb sv (fmul tol (max1 dscale)) then defl n i (i - 1) st else st in
              defl_pass n tol t (st', fmaxf mx sv)
  end.
Record sres := mkR { rst : sst; rconv : bool; riters : nat }.
(* quaternion_schur_pure_implicit (l.468-563); rayleigh = true: sigma = Re H[n-1,n-1], else 0 *)
Fixpoint implicit_loop (n : nat) (tol : Ops) (rayleigh : bool) (fuel k : nat) (st : sst) : sres :=
  match fuel with
  | O => mkR st false 0
  | S f => let sigma := if rayleigh then fw (sH st (n - 1) (n - 1)) else f0 in
           let st1 := sweep_hh n (fun sv => fleb sv tol) sigma (seq 0 (n - 1)) st in
           let '(st2, mx) := defl_pass n tol (seq 1 (n - 1)) (st1, f0) in
           if fleb mx tol then mkR st2 (fleb (max_below n (sH st2)) tol) (S k)
           else implicit_loop n tol rayleigh f (S k) st2
  end.
(* ---- the explicit QR step of quaternion_schur_pure (l.389-427): Householder triangularisation of H - sigma I *)
Definition col_zero_below (n j : nat) (R : fmat) : bool :=
  forallb (fun t => let q := R (j + t) j in fis0 Ops (fw q) && fis0 Ops (fx q) && fis0 Ops (fy q) && fis0 Ops (fz q)) (seq 1 (n - j - 1)).
Fixpoint qr_cols (n : nat) (js : list nat) (RQ : fmat * fmat) : fmat * fmat :=
  match js with
  | [] => RQ
  | j :: t => let '(R, Qi) := RQ in
              if col_zero_below n j R then qr_cols n t RQ
              else let Hj := fretab n n (embed Ops j (hh_matrix Ops (n - j) (fun i => R (j + i) j))) in
                   qr_cols n t (fretab n n (fmm n Hj R), fretab n n (fmm n Hj Qi))
  end.
Definition shiftI (sigma : Ops) : fmat := fun i j => if Nat.eqb i j then fqreal sigma else fq0.
Definition pure_step (n : nat) (sigma : Ops) (st : sst) : sst :=
  let H := sH st in
  let R0 : fmat := if fis0 Ops sigma then H else fretab n n (fun i j => fqsub (H i j) (shiftI sigma i j)) in
  let '(R, Qi) := qr_cols n (seq 0 (n - 1)) (R0, feye) in
  let H1 := fretab n n (fmm n R (fherm Qi)) in
  let H2 : fmat := if fis0 Ops sigma then H1 else fretab n n (fun i j => fqadd (H1 i j) (shiftI sigma i j)) in
  mkS (fretab n n (fmm n (sQ st) (fherm Qi))) H2 (sBud st).
Fixpoint pure_loop (n : nat) (tol : Ops) (rayleigh : bool) (fuel k : nat) (st : sst) : sres :=
  match fuel with
  | O => mkR st false 0
  | S f => let sigma := if rayleigh then fw (sH st (n - 1) (n - 1)) else f0 in
           let st1 := pure_step n sigma st in
           let '(st2, mx) := defl_pass n tol (seq 1 (n - 1)) (st1, f0) in
           if fleb mx tol then mkR st2 (fleb (max_below n (sH st2)) tol) (S k)
           else pure_loop n tol rayleigh f (S k) st2
  end.
(* ---- unified 'aed' / 'ds' (l.624-759).  schedule = the precomputed shifts (empty when precompute_shifts=False),
   eigs = the results of the numpy.linalg.eigvals calls in order (real parts), both recorded *)
Fixpoint aed_pass (n : nat) (tol aedf : Ops) (is : list nat) (acc : sst * Ops) : sst * Ops :=
  match is with
  | [] => acc
  | i :: t => let '(st, mx) := acc in let H := sH st in
              let sv_sq := fqn2 (H i (i - 1)) in
              let dsq := fadd (fqn2 (H (i - 1) (i - 1))) (fqn2 (H i i)) in
              let at_ := fmul aedf tol in
              let bound := fmul (fmul at_ at_) (max1 dsq) in
              let st' := if fleb sv_sq bound then defl n i (i - 1) st else st in
              aed_pass n tol aedf t (st', fmaxf mx (fsqrt sv_sq))
  end.
Fixpoint unified_loop (n : nat) (tol aedf : Ops) (ds : bool) (istart : nat) (fuel : nat) (schedule : list Ops) (eigs : list (list Ops)) (k : nat) (st : sst) : sres :=
  match fuel with
  | O => mkR st false 0
  | S f =>
      let H := sH st in
      let '(sig, schedule', eigs') :=
        if ds && Nat.leb 2 n then
          match schedule with
          | a :: b :: rest => ([a; b], rest, eigs)
          | _ => match eigs with e :: er => (e, schedule, er) | [] => ([], schedule, []) end
          end
        else match schedule with a :: rest => ([a], rest, eigs) | [] => ([fw (H (n - 1) (n - 1))%nat], [], eigs) end in
      let st1 := fold_left (fun s' sigma => sweep_hh n (fun sv => fleb sv tol) sigma (seq 0 (n - 1)) s') sig st in
      let '(st2, mx) := aed_pass n tol aedf (seq istart (n - istart)) (st1, f0) in
      if fleb mx tol then mkR st2 (fleb (max_below n (sH st2)) tol) (S k)
      else unified_loop n tol aedf ds istart f schedule' eigs' (S k) st2
  end.
(* ---- experimental windowed variants (l.762-912); lo = 0 *)
Fixpoint scan_defl (tol : Ops) (H : fmat) (i : nat) : option nat :=      (* bottom-up scan i = hi .. 1 *)
  match i with
  | O => None
  | S i' => let sv_sq := fqn2 (H i i') in
            let dsq := fadd (fqn2 (H i' i')) (fqn2 (H i i)) in
            if fleb sv_sq (fmul (fmul tol tol) (max1 dsq)) then Some i else scan_defl tol H i'
  end.
Definition max_sub_upto (hi : nat) (H : fmat) : Ops :=
  fold_left (fun m j => fmaxf m (fqabs (H j (j - 1)))) (seq 1 hi) f0.
Fixpoint exper_loop (n : nat) (tol : Ops) (window : nat) (ds : bool) (fuel : nat) (eigs : list (list Ops)) (k hi : nat) (st : sst) : sres :=
  match fuel with
  | O => mkR st false 0
  | S f =>
      if Nat.leb hi 0 then mkR st false 0 else
      let H := sH st in
      let '(st1, hi1, eigs1) :=
        match scan_defl tol H hi with
        | Some i => (defl n i (i - 1) st, (i - 1)%nat, eigs)
        | None =>
            let win := Nat.max 2 (Nat.min window (hi + 1)) in
            let start := (hi + 1 - win)%nat in
            let skip := fun sv => fleb (fmul sv sv) (fmul tol tol) in
            if ds && Nat.leb 2 (hi - start + 1) then
              match eigs with
              | e :: er => (fold_left (fun s' sigma => sweep_hh n skip sigma (seq start (hi - start)) s') e st, hi, er)
              | [] => (st, hi, [])
              end
            else (sweep_hh n skip (fw (H hi hi)) (seq start (hi - start)) st, hi, eigs)
        end in
      let mx := max_sub_upto hi1 (sH st1) in
      if Nat.leb hi1 0 || fleb mx tol then mkR st1 (fleb (max_below n (sH st1)) tol) (S k)
      else exper_loop n tol window ds f eigs1 (S k) hi1 st1
  end.
(* ---- quaternion_schur (l.89-344): Givens similarities built from the matrix as it was when the sweep started *)
Definition gblk (g : fq * fq * fq * fq) : blk := let '(q1, q2, q3, q4) := g in (fqconj q1, fqconj q2, fqconj q3, fqconj q4).
Definition eps52 : Ops := fdyad 1 (-52).
Fixpoint sweep_giv (n : nat) (Hst : fmat) (ss : list nat) (st : sst) : sst :=
  match ss with
  | [] => st
  | s :: t => sweep_giv n Hst t (sim2 n s (gblk (ggivens Ops eps52 (Hst s s) (Hst (S s) s))) st)
  end.
Definition shifted (n : nat) (H : fmat) (sigma : Ops) : fmat := fretab n n (fun i j => fqsub (H i j) (shiftI sigma i j)).
Fixpoint defl1 (n : nat) (tol : Ops) (is : list nat) (st : sst) : sst :=     (* l.186-195 *)
  match is with
  | [] => st
  | i :: t => let H := sH st in let hs := fqabs (H i (i - 1)) in
              let denom := fadd (fadd (fqabs (H (i - 1) (i - 1))) (fqabs (H i i))) hs in
              defl1 n tol t (if fleb hs (fmul tol (max1 denom)) then defl n i (i - 1) st else st)
  end.
Fixpoint shrink (tol : Ops) (H : fmat) (m : nat) : nat :=                       (* l.198-199 *)
  match m with
  | O => O
  | S m' => match m' with
            | O => m
            | S m'' => if fleb (fqabs (H m' m'')) tol then shrink tol H m' else m
            end
  end.
Definition atol12 : Ops := fdyad 4951760157141521 (-92).
Definition hess_clean (n : nat) (st : sst) : sst :=                              (* check_hessenberg inside the loop, l.304 *)
  fold_left (fun s' i => fold_left (fun s'' j => if Nat.ltb (j + 1) i && small4 Ops atol12 (sH s'' i j) then defl n i j s'' else s'') (seq 0 n) s') (seq 0 n) st.
Fixpoint defl2 (n : nat) (tol : Ops) (is : list nat) (st : sst) : sst :=     (* l.306-314 *)
  match is with
  | [] => st
  | i :: t => let H := sH st in
              let denom := fadd (fadd (fqabs (H (i - 1) (i - 1))) (fqabs (H i i))) tiny30 in
              defl2 n tol t (if fleb (fqabs (H i (i - 1))) (fmul (fmul (fdyad 5764607523034235 (-59)) tol) (max1 denom)) then defl n i (i - 1) st else st)
  end.
Definition final_clean (n : nat) (tol : Ops) (st : sst) : sst :=                 (* l.336-339 *)
  fold_left (fun s' i => fold_left (fun s'' j => if fleb (fqabs (sH s'' i j)) tol then defl n i j s'' else s'') (seq 0 i) s') (seq 0 n) st.
(* shift modes: 0 wilkinson, 1 rayleigh, 2 double, 3 anything else *)
Definition p95 : Ops := fdyad 4278419646001971 (-52).          (* 0.95 *)
Fixpoint giv_loop (n : nat) (tol : Ops) (mode : nat) (fuel : nat) (eigs : list (list Ops)) (k m : nat) (prev : option Ops) (stag : nat) (st : sst) : sres :=
  match fuel with
  | O => mkR st false 0
  | S f =>
      if Nat.leb m 1 then mkR st false 0 else
      let st1 := defl1 n tol (seq 1 (m - 1)) st in
      let H := sH st1 in
      let m1 := shrink tol H m in
      let sub := max_sub_upto (m1 - 1) H in
      if fleb sub tol then mkR st1 (fleb (max_below n H) tol) (S k) else
      let stag1 := match prev with None => 0%nat | Some p => if fleb (fmul p95 p) sub then S stag else 0%nat end in
      let '(mode1, stag2) := if Nat.leb 50 stag1 then ((if Nat.eqb mode 0 then 1 else 0)%nat, 0%nat) else (mode, stag1) in
      let '(mode2, stag3) := if Nat.leb 20 stag2 && Nat.leb 2 m1 then (2%nat, 0%nat) else (mode1, stag2) in
      let '(sig, eigs1) :=
        if (Nat.eqb mode2 0 || Nat.eqb mode2 2) && Nat.leb 2 m1 then match eigs with e :: er => (e, er) | [] => ([], []) end
        else ([fw (H (m1 - 1) (m1 - 1))%nat], eigs) in
      let st2 := fold_left (fun s' sigma => sweep_giv n (shifted n (sH s') sigma) (seq 0 (m1 - 1)) s') sig st1 in
      let st3 := defl2 n tol (seq 1 (m1 - 1)) (hess_clean n st2) in
      giv_loop n tol mode f eigs1 (S k) m1 (Some sub) stag3 st3
  end.
(* ---- entry points: Hessenberg reduction first, Q_total = P0^H Q_accum at the end *)
Record sout := mkO { oQ : fmat; oT : fmat; oconv : bool; oiters : nat; obud : Ops }.
Definition start (n : nat) (A : fmat) : fmat * sst :=
  let '(P0, H) := hessenbergize_model Ops atol12 n A in (P0, mkS feye (fretab n n (clean_hess Ops atol12 H)) f0).
Definition finish (n : nat) (P0 : fmat) (r : sres) : sout :=
  mkO (fretab n n (fmm n (fherm P0) (sQ (rst r)))) (sH (rst r)) (rconv r) (riters r) (sBud (rst r)).
Definition schur_pure (n : nat) (tol : Ops) (rayleigh : bool) (max_iter : nat) (A : fmat) : sout :=
  let '(P0, st) := start n A in finish n P0 (pure_loop n tol rayleigh max_iter 0 st).
Definition schur_implicit (n : nat) (tol : Ops) (rayleigh : bool) (max_iter : nat) (A : fmat) : sout :=
  let '(P0, st) := start n A in finish n P0 (implicit_loop n tol rayleigh max_iter 0 st).
Definition schur_unified (n : nat) (tol aedf : Ops) (ds : bool) (istart max_iter : nat) (schedule : list Ops) (eigs : list (list Ops)) (A : fmat) : sout :=
  let '(P0, st) := start n A in finish n P0 (unified_loop n tol aedf ds istart max_iter schedule eigs 0 st).
Definition schur_exper (n : nat) (tol : Ops) (window : nat) (ds : bool) (max_iter : nat) (eigs : list (list Ops)) (A : fmat) : sout :=
  let '(P0, st) := start n A in finish n P0 (exper_loop n tol window ds max_iter eigs 0 (n - 1) st).
Definition schur_givens (n : nat) (tol : Ops) (mode max_iter : nat) (eigs : list (list Ops)) (A : fmat) : sout :=
  let '(P0, st) := start n A in
  let r := giv_loop n tol mode max_iter eigs 0 n None 0 st in
  finish n P0 (mkR (final_clean n tol (rst r)) (rconv r) (riters r)).
End S.
