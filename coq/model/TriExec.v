(* Executable Qc instance of the triangular-solve model. *)
From Coq Require Import ZArith QArith Qcanon Arith List Bool.
From QV Require Import CRing Sums Quat Mat.
From QVM Require Import TriSolve LUexec.
(* conj(d) / (|d|^2 + delta) *)
Definition dinvQ (delta : Qc) (d : quatQ) : quatQ :=
  let s := (1 / (qn2Q d + delta))%Qc in @mkQ QcR (qw d * s)%Qc (- qx d * s)%Qc (- qy d * s)%Qc (- qz d * s)%Qc.
Definition rhoQ (delta : Qc) (d : quatQ) : Qc := (qn2Q d / (qn2Q d + delta))%Qc.
(* r > tol  <=>  |d|^2 > tol^2 *)
Definition tinyQ2 (tol2 : Qc) (d : quatQ) : bool := if Qclt_le_dec tol2 (qn2Q d) then false else true.
Definition never_tiny (d : quatQ) : bool := false.
