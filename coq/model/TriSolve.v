(* Hand model of the triangular solves: solver.py:_solve_lower_triangular_quat (l.381),
   _solve_upper_triangular_quat (l.429) and utils.py:UtriangleQsparse (l.1024) with its
   eps-regularised inverse (dotinvQsparse) and zero-diagonal branch.  dinv d is the (regularised)
   inverse conj(d) / (|d|^2 + delta); tiny d is the `r > tol` test of UtriangleQsparse (never true
   for the dense solves).  No proofs here. *)
From Coq Require Import Arith List Bool.
From QV Require Import CRing Sums Quat Mat.

Section Tri.
Variable C : CRing.
Notation quat := (quat C).
Notation qmat := (qmat C).
Variable dinv : quat -> quat.
Variable tiny : quat -> bool.
Variable retab : nat -> nat -> qmat -> qmat.   (* re-tabulation (identity within bounds) keeps execution linear *)
Variables (nn kk : nat).                       (* dimensions used by the re-tabulation *)

(* forward substitution, rows 0 .. i-1 done *)
Fixpoint fwd (L B : qmat) (i : nat) : qmat :=
  match i with
  | O => fun _ _ => qzero
  | S i' => let X := retab nn kk (fwd L B i') in
            fun r c => if Nat.eqb r i'
                       then qmul (dinv (L i' i')) (qsub (B i' c) (sumQ i' (fun j => qmul (L i' j) (X j c))))
                       else X r c
  end.
Definition solve_lower (n : nat) (L B : qmat) : qmat := fwd L B n.

(* backward substitution on an n x n upper-triangular U: after k steps rows n-k .. n-1 are done.
   sum over j = i+1 .. n-1 written as sum_{t < n-1-i} U i (i+1+t) * X (i+1+t) *)
Fixpoint bwd (n : nat) (U B : qmat) (k : nat) : qmat :=
  match k with
  | O => fun _ _ => qzero
  | S k' => let X := retab nn kk (bwd n U B k') in
            let i := n - S k' in
            fun r c => if Nat.eqb r i
                       then if tiny (U i i) then qzero
                            else qmul (dinv (U i i)) (qsub (B i c) (sumQ k' (fun t => qmul (U i (i + 1 + t)) (X (i + 1 + t) c))))
                       else X r c
  end.
Definition solve_upper (n : nat) (U B : qmat) : qmat := bwd n U B n.
End Tri.
