(* C04: one Q-GMRES cycle.  What the Arnoldi loop of _GMRESQsparse computes, whatever the values of the coefficients it stores:
   w_j = A v_j - sum_{i <= j} v_i h_ij and v_{j+1} h_{j+1,j} = w_j, i.e. A V_m = V_{m+1} H with H upper Hessenberg.  Consequences, for
   every size, every cycle length m and every coefficient vector y:
     b - A (x0 + V_m y) = V_{m+1} (beta e1 - H y)                      (the residual lives in the basis)
     ||b - A (x0 + V_m y)||^2 = ||beta e1 - H y||^2                    (V_{m+1} has orthonormal columns)
     ||c - H y||^2 = ||(W^H c)[:m] - R_m y||^2 + |(W^H c)_m|^2         (W unitary, W R = H, last row of R zero: the Givens QR of C16)
   hence (over R) the y obtained from the triangular system R_m y = (W^H c)[:m] gives the smallest residual of all x in x0 + range(V_m). *)
From Coq Require Import Arith Lia Bool Setoid Morphisms Ring.
From QV Require Import CRing Sums Quat Mat QMat.

Section Arn.
Variable C : CRing.
Add Ring Cr9 : (cr_th C).
Notation qmat := (qmat C).
Notation quat := (quat C).

Variables (N m : nat) (A V H : qmat).
(* the loop, column by column: after the inner Gram-Schmidt loop the work vector is w_j; the next basis vector times the stored norm is w_j *)
Hypothesis loop : forall j l, j < m -> l < N ->
  qmul (V l (S j)) (H (S j) j) = qsub (qmm N A V l j) (sumQ (S j) (fun i => qmul (V l i) (H i j))).
Hypothesis hess : forall i j, j < m -> S j < i -> H i j = qzero.

Lemma sumQ_extend_zero k n (f : nat -> quat) : k <= n -> (forall i, k <= i -> i < n -> f i = qzero) -> sumQ n f = sumQ k f.
Proof.
  intros Hk Hz. induction n as [|n IH]; [assert (k = 0) by lia; subst; reflexivity|].
  destruct (Nat.eq_dec k (S n)) as [->|NE]; [reflexivity|].
  cbn [sumQ]. rewrite (Hz n) by lia. rewrite IH by (try lia; intros; apply Hz; lia). qr.
Qed.

Theorem arnoldi_relation : meq N m (qmm N A V) (qmm (S m) V H).
Proof.
  intros l j Hl Hj. unfold qmm at 2.
  rewrite (sumQ_extend_zero (S (S j)) (S m)); [|lia|].
  - cbn [sumQ]. fold (sumQ (S j) (fun i => qmul (V l i) (H i j))). rewrite (loop j l Hj Hl).
    cbn [sumQ]. qr.
  - intros i Hi1 Hi2. rewrite (hess i j Hj) by lia. qr.
Qed.

(* the residual of x0 + V_m y, in the basis *)
Variables (b x0 y e1b : qmat).
Hypothesis start : meq N 1 (qmsub b (qmm N A x0)) (qmm (S m) V e1b).          (* r0 = v_0 beta: e1b = beta e_1 *)
Theorem residual_in_basis :
  meq N 1 (qmsub b (qmm N A (qmadd x0 (qmm m V y)))) (qmm (S m) V (qmsub e1b (qmm m H y))).
Proof.
  rewrite (qmm_add_r C N N 1 A x0 (qmm m V y)).
  rewrite <- (qmm_assoc C N N m 1 A V y), arnoldi_relation.
  rewrite (qmm_assoc C N (S m) m 1 V H y).
  rewrite (qmm_sub_r C N (S m) 1 V e1b (qmm m H y)), <- start.
  intros i j _ _. unfold qmsub, qmadd. qr.
Qed.
Hypothesis ortho : meq (S m) (S m) (qmm N (qherm V) V) qmid.
Theorem residual_norm_is_small_problem :
  frob2 N 1 (qmsub b (qmm N A (qmadd x0 (qmm m V y)))) = frob2 (S m) 1 (qmsub e1b (qmm m H y)).
Proof. rewrite (frob2_meq C N 1 _ _ residual_in_basis). apply (frob2_unitary_left C N (S m) 1 V _ ortho). Qed.
End Arn.

(* the small least-squares problem through a QR factorisation of H *)
Section LS.
Variable C : CRing.
Add Ring Cr10 : (cr_th C).
Notation qmat := (qmat C).
Variables (m : nat) (H W R c : qmat).
Hypothesis WWh : meq (S m) (S m) (qmm (S m) W (qherm W)) qmid.
Hypothesis WhW : meq (S m) (S m) (qmm (S m) (qherm W) W) qmid.
Hypothesis WR : meq (S m) m (qmm (S m) W R) H.
Hypothesis lastrow : forall j, j < m -> R m j = qzero.
Let g := qmm (S m) (qherm W) c.

Theorem small_problem_split (y : qmat) :
  frob2 (S m) 1 (qmsub c (qmm m H y)) = (frob2 m 1 (qmsub g (qmm m R y)) + qnorm2 (g m 0))%cr.
Proof.
  assert (E : meq (S m) 1 (qmm (S m) (qherm W) (qmsub c (qmm m H y))) (qmsub g (qmm m R y))).
  { rewrite (qmm_sub_r C (S m) (S m) 1 (qherm W) c (qmm m H y)). rewrite <- WR.
    rewrite (qmm_assoc C (S m) (S m) m 1 W R y).
    rewrite <- (qmm_assoc C (S m) (S m) (S m) 1 (qherm W) W (qmm m R y)), WhW, (qmm_id_l C (S m) 1 (qmm m R y)). reflexivity. }
  assert (HU : meq (S m) (S m) (qmm (S m) (qherm (qherm W)) (qherm W)) qmid) by (rewrite (qherm_herm C (S m) (S m) W); exact WWh).
  rewrite <- (frob2_unitary_left C (S m) (S m) 1 (qherm W) (qmsub c (qmm m H y)) HU).
  rewrite (frob2_meq C (S m) 1 _ _ E).
  unfold frob2 at 1. cbn [sumR]. unfold frob2. f_equal. ring_simplify.
  unfold qmsub at 1. unfold qmm at 1.
  rewrite (sumQ_ext C m _ (fun _ => qzero)); [|intros l Hl; rewrite (lastrow l Hl); qr].
  rewrite (sumQ_zero C). f_equal. qr.
Qed.
End LS.
