(* C04: a cycle whose small problem is solved exactly returns the exact solution -- in particular at a lucky breakdown (the last row of H
   vanishes, H y = beta e1 is a square system) and in the cycle of full dimension.  No orthonormality is needed for this direction.
   Conversely, with an orthonormal basis a breakdown makes the square part of H injective whenever A is. *)
From Coq Require Import Arith Lia Bool Setoid Morphisms Ring.
From QV Require Import CRing Sums Quat Mat QMat.
From QVT Require Import Arnoldi.

Section Exact.
Variable C : CRing.
Add Ring Cr14 : (cr_th C).
Notation qmat := (qmat C).
Variables (N m : nat) (A V H b x0 y e1b : qmat).
Hypothesis loop : forall j l, j < m -> l < N ->
  qmul (V l (S j)) (H (S j) j) = qsub (qmm N A V l j) (sumQ (S j) (fun i => qmul (V l i) (H i j))).
Hypothesis hess : forall i j, j < m -> S j < i -> H i j = qzero.
Hypothesis start : meq N 1 (qmsub b (qmm N A x0)) (qmm (S m) V e1b).

Theorem small_solution_is_exact_solution :
  meq (S m) 1 (qmm m H y) e1b -> meq N 1 (qmm N A (qmadd x0 (qmm m V y))) b.
Proof.
  intros Hy.
  pose proof (residual_in_basis C N m A V H loop hess b x0 y e1b start) as R.
  assert (Z : meq N 1 (qmm (S m) V (qmsub e1b (qmm m H y))) (fun _ _ => qzero)).
  { intros i j Hi Hj. unfold qmm at 1.
    rewrite (sumQ_ext C (S m) _ (fun _ => qzero)); [apply (sumQ_zero C)|].
    intros l Hl. unfold qmsub. rewrite (Hy l j Hl Hj). qr. }
  intros i j Hi Hj. specialize (R i j Hi Hj). rewrite (Z i j Hi Hj) in R. unfold qmsub in R.
  apply qeq; assert (Ew := f_equal qw R); assert (Ex := f_equal qx R); assert (Ey := f_equal qy R); assert (Ez := f_equal qz R);
    cbn [qsub qzero qw qx qy qz] in Ew, Ex, Ey, Ez.
  - transitivity (qw (b i j) - (qw (b i j) - qw (qmm N A (qmadd x0 (qmm m V y)) i j)))%cr; [ring|rewrite Ew; ring].
  - transitivity (qx (b i j) - (qx (b i j) - qx (qmm N A (qmadd x0 (qmm m V y)) i j)))%cr; [ring|rewrite Ex; ring].
  - transitivity (qy (b i j) - (qy (b i j) - qy (qmm N A (qmadd x0 (qmm m V y)) i j)))%cr; [ring|rewrite Ey; ring].
  - transitivity (qz (b i j) - (qz (b i j) - qz (qmm N A (qmadd x0 (qmm m V y)) i j)))%cr; [ring|rewrite Ez; ring].
Qed.

(* at a breakdown the last row of H is zero: A V_m = V_m H_m, and H_m inherits injectivity from A when the basis is orthonormal *)
Hypothesis breakdown : forall j, j < m -> H m j = qzero.
Theorem breakdown_invariant_subspace : meq N m (qmm N A V) (qmm m V H).
Proof.
  rewrite (arnoldi_relation C N m A V H loop hess). intros i j Hi Hj. unfold qmm. cbn [sumQ].
  rewrite (breakdown j Hj). qr.
Qed.
Hypothesis ortho : meq m m (qmm N (qherm V) V) qmid.
Variable Ainv : qmat.
Hypothesis Aleft : meq N N (qmm N Ainv A) qmid.
Theorem breakdown_square_part_injective (z : qmat) : meq m 1 (qmm m H z) (fun _ _ => qzero) -> meq m 1 z (fun _ _ => qzero).
Proof.
  intros Hz.
  assert (E1 : meq N 1 (qmm N A (qmm m V z)) (fun _ _ => qzero)).
  { rewrite <- (qmm_assoc C N N m 1 A V z), breakdown_invariant_subspace, (qmm_assoc C N m m 1 V H z), Hz.
    intros i j _ _. unfold qmm. rewrite (sumQ_ext C m _ (fun _ => qzero)); [apply (sumQ_zero C)|intros; qr]. }
  assert (E2 : meq N 1 (qmm m V z) (fun _ _ => qzero)).
  { rewrite <- (qmm_id_l C N 1 (qmm m V z)), <- Aleft, (qmm_assoc C N N N 1 Ainv A (qmm m V z)), E1.
    intros i j _ _. unfold qmm. rewrite (sumQ_ext C N _ (fun _ => qzero)); [apply (sumQ_zero C)|intros; qr]. }
  rewrite <- (qmm_id_l C m 1 z), <- ortho, (qmm_assoc C m N m 1 (qherm V) V z), E2.
  intros i j _ _. unfold qmm. rewrite (sumQ_ext C N _ (fun _ => qzero)); [apply (sumQ_zero C)|intros; qr].
Qed.
End Exact.
