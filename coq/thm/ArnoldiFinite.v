(* C04: finite termination.  At a lucky breakdown (the last row of H vanishes -- in exact arithmetic this happens at the latest when the basis has N
   vectors) the square part of H is injective (ArnoldiExact) hence surjective (SquareIso), so the small system H y = beta e1 HAS a solution, and with it
   x0 + V_m y solves A x = b exactly: the exact solution lies in the affine Krylov space of that cycle. *)
From Coq Require Import Reals Lra Arith Lia.
From QV Require Import CRing CRingR Sums Quat Mat QMat.
From QVT Require Import CauchySchwarz Kernel SquareIso Arnoldi ArnoldiExact.
Local Open Scope R_scope.
Add Ring RRf : (cr_th RR).

Theorem breakdown_reaches_the_exact_solution N m (A V H Ainv b x0 e1b : qmat RR) :
  (forall j l, (j < m)%nat -> (l < N)%nat -> qmul (V l (S j)) (H (S j) j) = qsub (qmm N A V l j) (sumQ (S j) (fun i => qmul (V l i) (H i j)))) ->
  (forall i j, (j < m)%nat -> (S j < i)%nat -> H i j = qzero) ->
  (forall j, (j < m)%nat -> H m j = qzero) ->
  meq m m (qmm N (qherm V) V) qmid -> meq N N (qmm N Ainv A) qmid ->
  meq N 1 (qmsub b (qmm N A x0)) (qmm (S m) V e1b) -> e1b m 0%nat = qzero ->
  exists y : qmat RR, meq N 1 (qmm N A (qmadd x0 (qmm m V y))) b.
Proof.
  intros L Hs Br Or Ai St Ez.
  assert (Hinj : forall z : qmat RR, meq m 1 (qmm m H z) zcol -> meq m 1 z zcol).
  { intros z Hz. exact (breakdown_square_part_injective RR N m A V H L Hs Br Or Ainv Ai z Hz). }
  destruct (square_injective_is_surjective m H Hinj e1b) as [y Hy].
  exists y. apply (small_solution_is_exact_solution RR N m A V H b x0 y e1b L Hs St).
  intros i j Hi Hj. destruct (Nat.eq_dec i m) as [->|NE].
  - assert (j = 0)%nat by lia. subst j. rewrite Ez. unfold qmm. rewrite (sumQ_ext RR m _ (fun _ => qzero)); [apply (sumQ_zero RR)|].
    intros k Hk. rewrite (Br k Hk). qr.
  - apply Hy; lia.
Qed.
