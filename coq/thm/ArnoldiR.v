(* C04 over R: the iterate of a Q-GMRES cycle has the smallest residual of all x in x0 + range(V_m). *)
From Coq Require Import Reals Lra Psatz Arith Lia.
From QV Require Import CRing CRingR Sums Quat Mat QMat.
From QVT Require Import CauchySchwarz Norms Arnoldi.
Local Open Scope R_scope.

Section Min.
Variables (N m : nat) (A V H W Rm b x0 e1b : qmat RR).
Hypothesis loop : forall j l, (j < m)%nat -> (l < N)%nat ->
  qmul (V l (S j)) (H (S j) j) = qsub (qmm N A V l j) (sumQ (S j) (fun i => qmul (V l i) (H i j))).
Hypothesis hess : forall i j, (j < m)%nat -> (S j < i)%nat -> H i j = qzero.
Hypothesis start : meq N 1 (qmsub b (qmm N A x0)) (qmm (S m) V e1b).
Hypothesis ortho : meq (S m) (S m) (qmm N (qherm V) V) qmid.
Hypothesis WWh : meq (S m) (S m) (qmm (S m) W (qherm W)) qmid.
Hypothesis WhW : meq (S m) (S m) (qmm (S m) (qherm W) W) qmid.
Hypothesis WR : meq (S m) m (qmm (S m) W Rm) H.
Hypothesis lastrow : forall j, (j < m)%nat -> Rm m j = qzero.

Definition cycle_residual2 (y : qmat RR) : R := frob2 N 1 (qmsub b (qmm N A (qmadd x0 (qmm m V y)))).

Lemma cycle_residual2_split y :
  cycle_residual2 y = frob2 m 1 (qmsub (qmm (S m) (qherm W) e1b) (qmm m Rm y)) + CauchySchwarz.N (qmm (S m) (qherm W) e1b m 0%nat).
Proof.
  unfold cycle_residual2.
  rewrite (residual_norm_is_small_problem RR N m A V H loop hess b x0 y e1b start ortho).
  exact (small_problem_split RR m H W Rm e1b WWh WhW WR lastrow y).
Qed.

(* y solves the triangular system R_m y = (W^H beta e1)[:m]  ==>  no x0 + V_m y' has a smaller residual, and the residual is |last entry| *)
Theorem gmres_cycle_minimises (y y' : qmat RR) :
  meq m 1 (qmm m Rm y) (qmm (S m) (qherm W) e1b) -> cycle_residual2 y <= cycle_residual2 y'.
Proof.
  intros Hy. rewrite !cycle_residual2_split.
  assert (Z : frob2 m 1 (qmsub (qmm (S m) (qherm W) e1b) (qmm m Rm y)) = 0).
  { rewrite (frob2_meq RR m 1 _ (fun _ _ => qzero)).
    - unfold frob2. rewrite (sumR_ext RR m _ (fun _ => 0)); [apply (sumR_zero RR)|].
      intros i Hi. cbn [sumR]. unfold qnorm2, qzero. cbn [qw qx qy qz]. rr. ring.
    - intros i j Hi Hj. unfold qmsub. rewrite (Hy i j Hi Hj). apply qeq; cbn [qsub qzero qw qx qy qz]; rr; ring. }
  rewrite Z. pose proof (frob2_nonneg m 1 (qmsub (qmm (S m) (qherm W) e1b) (qmm m Rm y'))). lra.
Qed.
Theorem gmres_cycle_residual_value (y : qmat RR) :
  meq m 1 (qmm m Rm y) (qmm (S m) (qherm W) e1b) -> cycle_residual2 y = CauchySchwarz.N (qmm (S m) (qherm W) e1b m 0%nat).
Proof.
  intros Hy. rewrite cycle_residual2_split.
  assert (Z : frob2 m 1 (qmsub (qmm (S m) (qherm W) e1b) (qmm m Rm y)) = 0).
  { rewrite (frob2_meq RR m 1 _ (fun _ _ => qzero)).
    - unfold frob2. rewrite (sumR_ext RR m _ (fun _ => 0)); [apply (sumR_zero RR)|].
      intros i Hi. cbn [sumR]. unfold qnorm2, qzero. cbn [qw qx qy qz]. rr. ring.
    - intros i j Hi Hj. unfold qmsub. rewrite (Hy i j Hi Hj). apply qeq; cbn [qsub qzero qw qx qy qz]; rr; ring. }
  rewrite Z. lra.
Qed.
End Min.
