(* Explicit matrices of the periodic convolution operator (BCCB: block circulant with circulant blocks):
   index reflection in sums over Z_H, the dense matrix of rolled copies, the list-of-taps (COO) form. *)
From Coq Require Import Arith Lia Ring Bool ZArith.
From QV Require Import CRing Sums Quat Mat.
From QVT Require Import Conv Tikhonov.
Local Open Scope cr_scope.

Lemma mod_sub_sub i a H : (i < H)%nat -> (a < H)%nat -> ((i + H - (i + H - a) mod H) mod H = a)%nat.
Proof.
  intros Hi Ha. rewrite (modH_sub i a H Hi Ha). destruct (Nat.leb_spec a i).
  - replace (i + H - (i - a))%nat with (a + 1 * H)%nat by lia. rewrite Nat.mod_add by lia. now apply Nat.mod_small.
  - replace (i + H - (i + H - a))%nat with a by lia. now apply Nat.mod_small.
Qed.
Lemma divmod_lt r H W : (r < H * W)%nat -> (r / W < H)%nat /\ (r mod W < W)%nat /\ W <> 0%nat.
Proof. intros Hr. assert (W0 : W <> 0%nat) by (intros ->; lia). repeat split; [|now apply Nat.mod_upper_bound|exact W0].
  apply Nat.div_lt_upper_bound; [exact W0|lia]. Qed.
Lemma dm_div' i W j : (j < W)%nat -> ((i * W + j) / W = i)%nat.
Proof. intros Hj. rewrite Nat.div_add_l by lia. rewrite Nat.div_small by lia. lia. Qed.
Lemma dm_mod' i W j : (j < W)%nat -> ((i * W + j) mod W = j)%nat.
Proof. intros Hj. rewrite Nat.add_comm, Nat.mod_add by lia. apply Nat.mod_small; lia. Qed.

Section B.
Variable K : CRing.
Add Ring Kb : (cr_th K).
Notation rmat := (rmat K).

Lemma sumR_head n (f : nat -> K) : sumR (S n) f = f 0%nat + sumR n (fun k => f (S k)).
Proof. replace (S n) with (1 + n)%nat by lia. rewrite sumR_app. cbn [sumR Nat.add]. ring. Qed.
Lemma sumR_rev n (f : nat -> K) : sumR n (fun a => f (n - 1 - a)%nat) = sumR n f.
Proof.
  induction n as [|n IH]; [reflexivity|]. rewrite sumR_head. cbn [sumR].
  replace (S n - 1 - 0)%nat with n by lia.
  rewrite (sumR_ext K n (fun k => f (S n - 1 - S k)%nat) (fun k => f (n - 1 - k)%nat)) by (intros k Hk; f_equal; lia).
  rewrite IH. ring.
Qed.
(* a -> (i - a) mod H is a bijection of Z_H *)
Lemma sumR_reflect H i (f : nat -> K) : (i < H)%nat -> sumR H (fun a => f ((i + H - a) mod H)%nat) = sumR H f.
Proof.
  intros Hi. remember (H - i - 1)%nat as m eqn:Em. assert (EH : H = (i + 1 + m)%nat) by lia. clear Em. subst H. rewrite !(sumR_app K (i + 1) m). f_equal.
  - rewrite <- (sumR_rev (i + 1) f). apply sumR_ext; intros a Ha. f_equal.
    rewrite (modH_sub i a (i + 1 + m) Hi ltac:(lia)). replace (a <=? i)%nat with true by (symmetry; apply Nat.leb_le; lia). lia.
  - rewrite <- (sumR_rev m (fun k => f (i + 1 + k)%nat)). apply sumR_ext; intros k Hk. f_equal.
    rewrite (modH_sub i (i + 1 + k) (i + 1 + m) Hi ltac:(lia)). replace (i + 1 + k <=? i)%nat with false by (symmetry; apply Nat.leb_gt; lia). lia.
Qed.

(* flattening of an H x W image, row-major *)
Definition vecW (W : nat) (x : rmat) : nat -> K := fun r => x (r / W)%nat (r mod W)%nat.

(* the dense BCCB matrix: column i' W + j' is the flattened copy of the kernel rolled by (i', j') *)
Definition bccb (H W : nat) (h : rmat) : rmat := fun r s =>
  h ((r / W + (H - (s / W) mod H)) mod H)%nat ((r mod W + (W - (s mod W) mod W)) mod W)%nat.

Lemma roll_index i i' H : (i < H)%nat -> (i' < H)%nat -> ((i + (H - i' mod H)) mod H = (i + H - i') mod H)%nat.
Proof. intros Hi Hi'. rewrite (Nat.mod_small i' H Hi'). f_equal. lia. Qed.

Theorem bccb_is_cconv H W h x r : (r < H * W)%nat ->
  rmv (H * W) (bccb H W h) (vecW W x) r = cconv H W h x (r / W)%nat (r mod W)%nat.
Proof.
  intros Hr. destruct (divmod_lt r H W Hr) as (Hi & Hj & W0). set (i := (r / W)%nat) in *. set (j := (r mod W)%nat) in *.
  unfold rmv. rewrite sumR_prod.
  transitivity (sumR H (fun i' => sumR W (fun j' => h ((i + H - i') mod H)%nat ((j + W - j') mod W)%nat * x i' j'))).
  { apply sumR_ext; intros i' Hi'. apply sumR_ext; intros j' Hj'. unfold bccb, vecW. fold i. fold j.
    rewrite (dm_div' i' W j' Hj'), (dm_mod' i' W j' Hj'). rewrite (roll_index i i' H Hi Hi'), (roll_index j j' W Hj Hj'). reflexivity. }
  unfold cconv.
  rewrite <- (sumR_reflect H i (fun a => sumR W (fun b => h a b * x ((i + H - a) mod H)%nat ((j + W - b) mod W)%nat)) Hi).
  apply sumR_ext; intros i' Hi'. cbn beta. rewrite (mod_sub_sub i i' H Hi Hi').
  rewrite <- (sumR_reflect W j (fun b => h ((i + H - i') mod H)%nat b * x i' ((j + W - b) mod W)%nat) Hj).
  apply sumR_ext; intros j' Hj'. cbn beta. rewrite (mod_sub_sub j j' W Hj Hj'). reflexivity.
Qed.

(* its transpose is the matrix of the correlation *)
Theorem bccbT_is_ccorr H W h y r : (r < H * W)%nat ->
  rmv (H * W) (rmT (bccb H W h)) (vecW W y) r = ccorr H W h y (r / W)%nat (r mod W)%nat.
Proof.
  intros Hr. destruct (divmod_lt r H W Hr) as (Hi & Hj & W0). set (i := (r / W)%nat) in *. set (j := (r mod W)%nat) in *.
  unfold rmv. rewrite sumR_prod.
  transitivity (sumR H (fun i' => sumR W (fun j' => h ((i' + H - i) mod H)%nat ((j' + W - j) mod W)%nat * y i' j'))).
  { apply sumR_ext; intros i' Hi'. apply sumR_ext; intros j' Hj'. unfold rmT, bccb, vecW. fold i. fold j.
    rewrite (dm_div' i' W j' Hj'), (dm_mod' i' W j' Hj'). rewrite (roll_index i' i H Hi' Hi), (roll_index j' j W Hj' Hj). reflexivity. }
  unfold ccorr.
  rewrite <- (sumR_rot K H i (fun i' => sumR W (fun j' => h ((i' + H - i) mod H)%nat ((j' + W - j) mod W)%nat * y i' j'))) by lia.
  apply sumR_ext; intros a Ha. cbn beta. rewrite (mod_add_sub a i H Ha Hi).
  rewrite <- (sumR_rot K W j (fun j' => h a ((j' + W - j) mod W)%nat * y ((a + i) mod H)%nat j')) by lia.
  apply sumR_ext; intros b Hb. cbn beta. rewrite (mod_add_sub b j W Hb Hj). rewrite (Nat.add_comm a i), (Nat.add_comm b j). reflexivity.
Qed.
Lemma rmv_add n (A B : rmat) (v : nat -> K) r : rmv n (rmadd A B) v r = rmv n A v r + rmv n B v r.
Proof. unfold rmv, rmadd. rewrite <- sumR_add. apply sumR_ext; intros. ring. Qed.
Lemma rmv_scale_id n (c : K) (v : nat -> K) r : (r < n)%nat -> rmv n (rmscale c rmid) v r = c * v r.
Proof. intros Hr. unfold rmscale. transitivity (c * rmv n rmid v r); [|now rewrite rmv_id].
  unfold rmv. rewrite <- sumR_mul_l. apply sumR_ext; intros. ring. Qed.
(* a system whose matrix has a left inverse has at most one solution *)
Lemma left_inverse_unique n (T Tp : rmat) (x y : nat -> K) :
  (forall i j, (i < n)%nat -> (j < n)%nat -> rmm n Tp T i j = rmid i j) ->
  (forall r, (r < n)%nat -> rmv n T x r = rmv n T y r) -> forall r, (r < n)%nat -> x r = y r.
Proof.
  intros Hl E r Hr. rewrite <- (rmv_id K n x r Hr), <- (rmv_id K n y r Hr).
  rewrite <- (rmv_ext K n (rmm n Tp T) rmid x r) by (intros; now apply Hl).
  rewrite <- (rmv_ext K n (rmm n Tp T) rmid y r) by (intros; now apply Hl).
  rewrite !rmv_rmm. apply rmv_ext_v. exact E.
Qed.

(* two matrices that act alike on every flattened image have the same entries *)
Lemma rmv_delta n (A : rmat) s r : (s < n)%nat -> rmv n A (fun l => if Nat.eqb l s then c1 else c0) r = A r s.
Proof. intros Hs. unfold rmv. rewrite <- (sumR_delta K n s (fun l => A r l) Hs). apply sumR_ext; intros l _. destruct (Nat.eqb l s); ring. Qed.
(* ------------------------------------------------------------------------------------------------
   the list-of-taps (COO) form written by the sparse builder: for every pixel (i, j) and every tap (du, dv) one entry
   at row i W + j, column ((i - (du - kH//2)) % H) W + ((j - (dv - kW//2)) % W); duplicates are summed *)
Definition coo (H W kH kW : nat) (keq0 : K -> bool) (psf : rmat) : rmat := fun r c =>
  sumR H (fun i => sumR W (fun j => sumR kH (fun du => sumR kW (fun dv =>
    if keq0 (psf du dv) then c0 else
    if (Z.eqb (Z.of_nat r) (Z.of_nat i * Z.of_nat W + Z.of_nat j)
        && Z.eqb (Z.of_nat c) (((Z.of_nat i - (Z.of_nat du - Z.of_nat kH / 2)) mod Z.of_nat H) * Z.of_nat W
                               + ((Z.of_nat j - (Z.of_nat dv - Z.of_nat kW / 2)) mod Z.of_nat W)))%Z
    then psf du dv else c0)))).
(* the centred, periodically wrapped kernel (what _pad_psf returns) *)
Definition padc (H W kH kW : nat) (psf : rmat) : rmat := fun I J =>
  if inwin ((I + kH / 2) mod H) ((J + kW / 2) mod W) 0 kH 0 kW then psf ((I + kH / 2) mod H)%nat ((J + kW / 2) mod W)%nat else c0.

Lemma tapz i du k H : (du <= H)%nat -> H <> 0%nat ->
  ((Z.of_nat i - (Z.of_nat du - Z.of_nat k / 2)) mod Z.of_nat H)%Z = Z.of_nat ((i + k / 2 + H - du) mod H)%nat.
Proof.
  intros Hd H0.
  assert (E : (Z.of_nat i - (Z.of_nat du - Z.of_nat k / 2) = Z.of_nat (i + k / 2 + H - du) + (-1) * Z.of_nat H)%Z).
  { rewrite Nat2Z.inj_sub by lia. rewrite !Nat2Z.inj_add. rewrite (Nat2Z.inj_div k 2). change (Z.of_nat 2) with 2%Z. lia. }
  rewrite E, Z.mod_add by lia. now rewrite <- Nat2Z.inj_mod.
Qed.
Lemma mod_3 x H : (0 < H)%nat -> (x < 3 * H)%nat ->
  ((x < H /\ x mod H = x) \/ (H <= x < 2 * H /\ x mod H = x - H) \/ (2 * H <= x /\ x mod H = x - 2 * H))%nat.
Proof.
  intros H0 Hx. destruct (Nat.lt_ge_cases x H); [left; split; [assumption|now apply Nat.mod_small]|]. right.
  destruct (Nat.lt_ge_cases x (2 * H)); [left|right]; (split; [lia|]).
  - replace x with ((x - H) + 1 * H)%nat at 1 by lia. rewrite Nat.mod_add by lia. apply Nat.mod_small. lia.
  - replace x with ((x - 2 * H) + 2 * H)%nat at 1 by lia. rewrite Nat.mod_add by lia. apply Nat.mod_small. lia.
Qed.
(* a = (i0 + c - du) mod H  <->  du = ((i0 - a) mod H + c) mod H   for du < kH <= H *)
Lemma tap_equiv i0 a du c H : (i0 < H)%nat -> (a < H)%nat -> (du < H)%nat -> (c <= H)%nat ->
  Nat.eqb a ((i0 + c + H - du) mod H) = Nat.eqb du (((i0 + H - a) mod H + c) mod H).
Proof.
  intros Hi Ha Hd Hc. assert (H0 : (0 < H)%nat) by lia.
  destruct (mod_3 (i0 + c + H - du) H H0 ltac:(lia)) as [[? E1]|[[? E1]|[? E1]]];
  destruct (mod_3 (i0 + H - a) H H0 ltac:(lia)) as [[? E2]|[[? E2]|[? E2]]]; rewrite E1, E2;
  (match goal with |- context [((?y + c) mod H)%nat] => destruct (mod_3 (y + c) H H0 ltac:(lia)) as [[? E3]|[[? E3]|[? E3]]]; rewrite E3 end);
  (destruct (Nat.eqb_spec a (i0 + c + H - du - 0)%nat); destruct (Nat.eqb_spec du du); try lia); 
  repeat match goal with |- context [Nat.eqb ?p ?q] => destruct (Nat.eqb_spec p q) end; try reflexivity; lia.
Qed.
Lemma sumR_delta_win n u (g : nat -> K) : sumR n (fun d => if Nat.eqb d u then g d else c0) = if (u <? n)%nat then g u else c0.
Proof.
  destruct (Nat.ltb_spec u n) as [Hu|Hu]; [now apply sumR_delta|].
  erewrite sumR_ext, sumR_zero; [reflexivity|]. intros d Hd. cbn beta. replace (d =? u)%nat with false by (symmetry; apply Nat.eqb_neq; lia). reflexivity.
Qed.
Lemma sum_pair_delta H W r (g : nat -> nat -> K) : (r < H * W)%nat ->
  sumR H (fun i => sumR W (fun j => if Nat.eqb r (i * W + j) then g i j else c0)) = g (r / W)%nat (r mod W)%nat.
Proof.
  intros Hr. destruct (divmod_lt r H W Hr) as (Hi & Hj & W0).
  rewrite <- (sumR_delta K H (r / W) (fun i => g i (r mod W)%nat) Hi). apply sumR_ext; intros i Hi'.
  destruct (Nat.eqb_spec i (r / W)) as [->|Hne].
  - rewrite <- (sumR_delta K W (r mod W) (fun j => g (r / W)%nat j) Hj). apply sumR_ext; intros j Hj'.
    pose proof (Nat.div_mod r W W0) as E.
    destruct (Nat.eqb_spec j (r mod W)) as [->|Hn].
    + replace (r =? r / W * W + r mod W)%nat with true by (symmetry; apply Nat.eqb_eq; lia). reflexivity.
    + replace (r =? r / W * W + j)%nat with false by (symmetry; apply Nat.eqb_neq; lia). reflexivity.
  - erewrite sumR_ext, sumR_zero; [reflexivity|]. intros j Hj'. cbn beta.
    replace (r =? i * W + j)%nat with false; [reflexivity|]. symmetry. apply Nat.eqb_neq. intros E. apply Hne.
    rewrite E. symmetry. now apply dm_div'.
Qed.
Lemma sumR_if n (b : bool) (f : nat -> K) : sumR n (fun k => if b then f k else c0) = if b then sumR n f else c0.
Proof. destruct b; [reflexivity | apply sumR_zero]. Qed.

Theorem coo_is_bccb H W kH kW keq0 psf r s :
  (forall x, keq0 x = true -> x = c0) -> (kH <= H)%nat -> (kW <= W)%nat -> (r < H * W)%nat -> (s < H * W)%nat ->
  coo H W kH kW keq0 psf r s = bccb H W (padc H W kH kW psf) r s.
Proof.
  intros Hk HkH HkW Hr Hs.
  destruct (divmod_lt r H W Hr) as (Hi & Hj & W0). destruct (divmod_lt s H W Hs) as (Ha & Hb & _).
  assert (H0 : H <> 0%nat) by lia.
  set (i0 := (r / W)%nat) in *. set (j0 := (r mod W)%nat) in *. set (a := (s / W)%nat) in *. set (b := (s mod W)%nat) in *.
  unfold coo.
  transitivity (sumR H (fun i => sumR W (fun j => if Nat.eqb r (i * W + j) then
     sumR kH (fun du => if Nat.eqb a ((i + kH / 2 + H - du) mod H) then sumR kW (fun dv => if Nat.eqb b ((j + kW / 2 + W - dv) mod W) then psf du dv else c0) else c0) else c0))).
  { apply sumR_ext; intros i Hi'. apply sumR_ext; intros j Hj'. rewrite <- sumR_if. apply sumR_ext; intros du Hdu. rewrite <- !sumR_if. apply sumR_ext; intros dv Hdv.
    rewrite (tapz i du kH H) by lia. rewrite (tapz j dv kW W) by lia.
    set (ii := ((i + kH / 2 + H - du) mod H)%nat). set (jj := ((j + kW / 2 + W - dv) mod W)%nat).
    assert (Hjj : (jj < W)%nat) by (apply Nat.mod_upper_bound; lia).
    replace (Z.of_nat i * Z.of_nat W + Z.of_nat j)%Z with (Z.of_nat (i * W + j)) by lia.
    replace (Z.of_nat ii * Z.of_nat W + Z.of_nat jj)%Z with (Z.of_nat (ii * W + jj)) by lia.
    assert (Z1 : forall p q, Z.eqb (Z.of_nat p) (Z.of_nat q) = Nat.eqb p q).
    { intros p q. destruct (Nat.eqb_spec p q) as [->|N]; [apply Z.eqb_refl | apply Z.eqb_neq; lia]. }
    rewrite !Z1.
    assert (E2 : Nat.eqb s (ii * W + jj) = Nat.eqb a ii && Nat.eqb b jj).
    { pose proof (Nat.div_mod s W W0) as Es. fold a in Es. fold b in Es.
      destruct (Nat.eqb_spec s (ii * W + jj)) as [E|N].
      - assert (Ea : a = ii) by (unfold a; rewrite E; now apply dm_div'). assert (Eb : b = jj) by (unfold b; rewrite E; now apply dm_mod').
        rewrite Ea, Eb, !Nat.eqb_refl. reflexivity.
      - destruct (Nat.eqb_spec a ii) as [->|?]; [|reflexivity]. destruct (Nat.eqb_spec b jj) as [->|?]; [|reflexivity]. exfalso. apply N. lia. }
    rewrite E2.
    destruct (keq0 (psf du dv)) eqn:Ek; [apply Hk in Ek; rewrite Ek|]; destruct (r =? i * W + j)%nat, (a =? ii)%nat, (b =? jj)%nat; reflexivity. }
  rewrite (sum_pair_delta H W r _ Hr). fold i0. fold j0.
  rewrite (sumR_ext K kH _ (fun du => if Nat.eqb du (((i0 + H - a) mod H + kH / 2) mod H) then
       sumR kW (fun dv => if Nat.eqb dv (((j0 + W - b) mod W + kW / 2) mod W) then psf du dv else c0) else c0)).
  2:{ intros du Hdu. assert (Hc : (kH / 2 <= H)%nat) by (transitivity kH; [apply Nat.div_le_upper_bound; lia | lia]).
      rewrite (tap_equiv i0 a du (kH / 2) H Hi Ha ltac:(lia) Hc). destruct (Nat.eqb du _); [|reflexivity].
      apply sumR_ext; intros dv Hdv. assert (Hc' : (kW / 2 <= W)%nat) by (transitivity kW; [apply Nat.div_le_upper_bound; lia | lia]).
      now rewrite (tap_equiv j0 b dv (kW / 2) W Hj Hb ltac:(lia) Hc'). }
  rewrite sumR_delta_win. unfold bccb, padc, inwin. fold i0. fold j0. fold a. fold b.
  rewrite (roll_index i0 a H Hi Ha), (roll_index j0 b W Hj Hb). cbn [Nat.leb andb].
  destruct (Nat.ltb _ kH); cbn [andb]; [|reflexivity]. rewrite sumR_delta_win. destruct (Nat.ltb _ kW); reflexivity.
Qed.
End B.
Arguments vecW {K}. Arguments bccb {K}. Arguments coo {K}. Arguments padc {K}.
