(* C13: the residual history of the CGNE model never increases.  For the executed model (model/CGNE.v, the one that is run next to
   CGNEQSolver.compute): at every loop head Z = R A^H and <R, D A> = ||Z||_F^2 (exact line search keeps the new gradient orthogonal to the
   previous direction, for ANY beta), and one update gives  ||R'||^2 ||W||^2 = ||R||^2 ||W||^2 - ||Z||^4.  Over R: ||R'|| <= ||R||. *)
From Coq Require Import Arith Lia Bool Setoid Morphisms Ring List.
From QV Require Import CRing Sums Quat Mat QMat.
From QVM Require Import CGNE.
From QVT Require Import CGNEthm Reflector.
Import ListNotations.

Section IP.
Variable C : CRing.
Add Ring Cr12 : (cr_th C).
Notation qmat := (qmat C).
Notation quat := (quat C).

(* real inner product of two p x q matrices: sum over the entries of the 4-vector dot products = Re tr(X^H Y) *)
Definition qdot (a b : quat) : C := (qw a * qw b + qx a * qx b + qy a * qy b + qz a * qz b)%cr.
Definition rip (p q : nat) (X Y : qmat) : C := sumR p (fun i => sumR q (fun j => qdot (X i j) (Y i j))).
Lemma qdot_re a b : qdot a b = qre (qmul (qconj a) b).
Proof. unfold qdot, qre. cbn [qmul qconj qw qx qy qz]. ring. Qed.
Lemma rip_trace p q X Y : rip p q X Y = retr q (qmm p (qherm X) Y).
Proof.
  unfold rip, retr, qmm, qherm. rewrite (sumR_swap C). apply (sumR_ext C). intros j Hj.
  rewrite (sumQ_re C). apply (sumR_ext C). intros i Hi. apply qdot_re.
Qed.
Lemma rip_self p q X : rip p q X X = frob2 p q X.
Proof. unfold rip, frob2. apply (sumR_ext C); intros i _. apply (sumR_ext C); intros j _. unfold qdot, qnorm2. ring. Qed.
Lemma rip_meq p q X X' Y Y' : meq p q X X' -> meq p q Y Y' -> rip p q X Y = rip p q X' Y'.
Proof. intros HX HY. unfold rip. apply (sumR_ext C); intros i Hi. apply (sumR_ext C); intros j Hj. now rewrite HX, HY. Qed.

(* double sums are linear *)
Lemma dsum_ext p q (f g : nat -> nat -> C) : (forall i j, i < p -> j < q -> f i j = g i j) ->
  sumR p (fun i => sumR q (fun j => f i j)) = sumR p (fun i => sumR q (fun j => g i j)).
Proof. intros H. apply (sumR_ext C); intros i Hi. apply (sumR_ext C); intros j Hj. now apply H. Qed.
Lemma dsum_lin3 p q (a b c : C) (f g h : nat -> nat -> C) :
  sumR p (fun i => sumR q (fun j => (a * f i j + b * g i j + c * h i j)%cr))
  = (a * sumR p (fun i => sumR q (fun j => f i j)) + b * sumR p (fun i => sumR q (fun j => g i j)) + c * sumR p (fun i => sumR q (fun j => h i j)))%cr.
Proof.
  rewrite <- !(sumR_mul_l C), <- !(sumR_add C). apply (sumR_ext C); intros i _.
  rewrite <- !(sumR_mul_l C), <- !(sumR_add C). reflexivity.
Qed.

Lemma frob2_sub_scaled p q (R W : qmat) (c : C) :
  frob2 p q (qmsub R (qscalem C c W)) = (c1 * frob2 p q R + (- (c + c)) * rip p q R W + (c * c) * frob2 p q W)%cr.
Proof.
  unfold frob2, rip. rewrite <- dsum_lin3. apply dsum_ext. intros i j _ _.
  unfold qmsub, qscalem, qnorm2, qdot. cbn [qsub qscale qw qx qy qz]. ring.
Qed.
Lemma rip_sub_scaled_l p q (R W Y : qmat) (c : C) :
  rip p q (qmsub R (qscalem C c W)) Y = (c1 * rip p q R Y + (- c) * rip p q W Y + c0 * rip p q W Y)%cr.
Proof.
  unfold rip. rewrite <- dsum_lin3. apply dsum_ext. intros i j _ _.
  unfold qmsub, qscalem, qdot. cbn [qsub qscale qw qx qy qz]. ring.
Qed.
Lemma rip_add_scaled_r p q (R Y Y' : qmat) (c : C) :
  rip p q R (qmadd Y (qscalem C c Y')) = (c1 * rip p q R Y + c * rip p q R Y' + c0 * rip p q R Y')%cr.
Proof.
  unfold rip. rewrite <- dsum_lin3. apply dsum_ext. intros i j _ _.
  unfold qmadd, qscalem, qdot. cbn [qadd qscale qw qx qy qz]. ring.
Qed.
(* the adjoint identity  <R, D A> = <R A^H, D>   (R n x n, D n x m, A m x n) *)
Lemma rip_adjoint m n (R D A : qmat) : rip n n R (qmm m D A) = rip n m (qmm n R (qherm A)) D.
Proof.
  rewrite !rip_trace.
  rewrite (retr_meq C m _ (qmm n (qmm n A (qherm R)) D)).
  - rewrite (retr_meq C m _ (qmm n A (qmm n (qherm R) D)) (qmm_assoc C m n n m A (qherm R) D)).
    rewrite (retr_cyclic C m n A (qmm n (qherm R) D)).
    apply retr_meq. symmetry. apply (qmm_assoc C n n m n (qherm R) D A).
  - assert (E : meq m n (qherm (qmm n R (qherm A))) (qmm n A (qherm R))).
    { rewrite (qherm_mm_meq C n n m R (qherm A)), (qherm_herm C m n A). reflexivity. }
    rewrite E. reflexivity.
Qed.
End IP.
Arguments rip {C}. Arguments qdot {C}.

Section Mono.
Variable C : CRing.
Add Ring Cr13 : (cr_th C).
Notation qmat := (qmat C).
Variable retab : nat -> nat -> qmat -> qmat.
Variable cdiv : C -> C -> C.
Variable small : C -> bool.
Hypothesis retab_ok : forall p q M, meq p q (retab p q M) M.
Hypothesis cdiv_ok : forall a b, small b = false -> (cdiv a b * b)%cr = a.
Variables (m n : nat) (A : qmat).

(* loop-head invariant *)
Definition Cinv (s : cg_state C) : Prop :=
  meq n m (cgZ C s) (qmm n (cgR C s) (qherm A)) /\ rip n n (cgR C s) (qmm m (cgD C s) A) = frob2 n m (cgZ C s).

Lemma init_Cinv alpha0 : Cinv (cg_init C retab m n alpha0 A).
Proof.
  unfold Cinv, cg_init; cbn [cgZ cgR cgD]. split; [apply retab_ok|].
  rewrite rip_adjoint. rewrite <- (rip_self C n m). apply rip_meq; [symmetry; apply retab_ok|reflexivity].
Qed.

(* one update: the new squared residual, times ||W||^2 *)
Lemma update_value s s1 r2 : Cinv s -> cg_update C retab cdiv small m n A s = Some (s1, r2) ->
  let wn2 := frob2 n n (qmm m (cgD C s) A) in
  small wn2 = false /\ (r2 * wn2 = frob2 n n (cgR C s) * wn2 - frob2 n m (cgZ C s) * frob2 n m (cgZ C s))%cr /\
  r2 = frob2 n n (cgR C s1) /\
  meq n n (cgR C s1) (qmsub (cgR C s) (qscalem C (cdiv (frob2 n m (cgZ C s)) wn2) (qmm m (cgD C s) A))) /\
  cgD C s1 = cgD C s /\ cgZ C s1 = cgZ C s.
Proof.
  intros [HZ HI] E. cbv zeta. unfold cg_update in E.
  assert (EW : frob2 n n (retab n n (qmm m (cgD C s) A)) = frob2 n n (qmm m (cgD C s) A)) by (apply frob2_meq, retab_ok).
  rewrite EW in E. destruct (small (frob2 n n (qmm m (cgD C s) A))) eqn:Es; [discriminate|].
  set (wn2 := frob2 n n (qmm m (cgD C s) A)) in *. set (zz := frob2 n m (cgZ C s)) in *. set (ak := cdiv zz wn2) in *.
  injection E as <- <-. cbn [cgR cgD cgZ].
  assert (ER : meq n n (retab n n (qmsub (cgR C s) (qscalem C ak (retab n n (qmm m (cgD C s) A)))))
                       (qmsub (cgR C s) (qscalem C ak (qmm m (cgD C s) A)))).
  { rewrite (retab_ok n n). intros i j Hi Hj. unfold qmsub, qscalem. now rewrite (retab_ok n n _ i j Hi Hj). }
  split; [reflexivity|]. split; [|split; [reflexivity|split; [exact ER|split; reflexivity]]].
  rewrite (frob2_meq C n n _ _ ER), frob2_sub_scaled, HI. fold wn2.
  pose proof (cdiv_ok zz wn2 Es) as Hd. fold ak in Hd.
  transitivity (frob2 n n (cgR C s) * wn2 - (ak * wn2) * zz - zz * (ak * wn2) + (ak * wn2) * (ak * wn2))%cr; [ring|].
  rewrite Hd. ring.
Qed.

Lemma step_Cinv s s1 r2 : Cinv s -> cg_update C retab cdiv small m n A s = Some (s1, r2) -> Cinv (cg_direction C retab cdiv m n A s1).
Proof.
  intros HC E. destruct (update_value s s1 r2 HC E) as (Es & _ & _ & ER & ED & EZ). destruct HC as [HZ HI].
  set (wn2 := frob2 n n (qmm m (cgD C s) A)) in *. set (zz := frob2 n m (cgZ C s)) in *. set (ak := cdiv zz wn2) in *.
  unfold Cinv, cg_direction; cbn [cgZ cgR cgD]. split; [apply retab_ok|].
  set (Zn := retab n m (qmm n (cgR C s1) (qherm A))). set (beta := cdiv (frob2 n m Zn) (frob2 n m (cgZ C s1))).
  assert (E1 : meq n n (qmm m (retab n m (qmadd Zn (qscalem C beta (cgD C s1)))) A)
                       (qmadd (qmm m Zn A) (qscalem C beta (qmm m (cgD C s) A)))).
  { rewrite (retab_ok n m), ED. rewrite (qmm_add_l C n m n Zn (qscalem C beta (cgD C s)) A).
    rewrite (qmm_scalem_l C n m n beta (cgD C s) A). reflexivity. }
  rewrite (rip_meq C n n _ (cgR C s1) _ _ (fun _ _ _ _ => eq_refl) E1), rip_add_scaled_r.
  (* <R1, Zn A> = <R1 A^H, Zn> = ||Zn||^2 *)
  assert (T1 : rip n n (cgR C s1) (qmm m Zn A) = frob2 n m Zn).
  { rewrite rip_adjoint, <- (rip_self C n m). apply rip_meq; [unfold Zn; symmetry; apply retab_ok|reflexivity]. }
  (* <R1, W> = <R, W> - ak ||W||^2 = zz - zz = 0 *)
  assert (T2 : rip n n (cgR C s1) (qmm m (cgD C s) A) = c0).
  { rewrite (rip_meq C n n _ _ _ _ ER (fun _ _ _ _ => eq_refl)), rip_sub_scaled_l, HI, rip_self. fold wn2 zz.
    pose proof (cdiv_ok zz wn2 Es) as Hd. fold ak in Hd.
    transitivity (zz - ak * wn2)%cr; [ring|]. rewrite Hd. ring. }
  rewrite T1, T2. ring.
Qed.
End Mono.
