(* C13 over R: the residual history of the CGNE model is non-increasing, for every matrix, budget, stopping predicate and break
   threshold -- starting from the residual of the initial iterate. *)
From Coq Require Import Reals Lra Psatz Arith Lia List.
From QV Require Import CRing CRingR Sums Quat Mat QMat.
From QVM Require Import CGNE.
From QVT Require Import CauchySchwarz Norms CGNEthm CGNEmono.
Import ListNotations.
Local Open Scope R_scope.

Fixpoint nonincr (l : list R) : Prop :=
  match l with [] => True | x :: t => match t with [] => True | y :: _ => y <= x /\ nonincr t end end.
Lemma nonincr_snoc l b r : nonincr (b :: l) -> r <= last (b :: l) 0 -> nonincr ((b :: l) ++ [r]).
Proof.
  revert b. induction l as [|x l IH]; intros b H Hr.
  - cbn in *. split; [exact Hr|exact I].
  - destruct H as [H1 H2]. change ((b :: x :: l) ++ [r]) with (b :: ((x :: l) ++ [r])).
    assert (Hl : last (b :: x :: l) 0 = last (x :: l) 0) by reflexivity. rewrite Hl in Hr.
    specialize (IH x H2 Hr). cbn [app] in *. split; [exact H1|exact IH].
Qed.

Section Run.
Variable retab : nat -> nat -> qmat RR -> qmat RR.
Variable small : R -> bool.
Hypothesis retab_ok : forall p q M, meq p q (retab p q M) M.
Hypothesis small_ok : forall b, small b = false -> b <> 0.
Variables (m n : nat) (A : qmat RR).
Let cdivR : R -> R -> R := Rdiv.
Lemma cdiv_ok a b : small b = false -> cdivR a b * b = a.
Proof. intros H. unfold cdivR. field. exact (small_ok b H). Qed.

Lemma update_decreases s s1 r2 : Cinv RR m n A s -> cg_update RR retab cdivR small m n A s = Some (s1, r2) ->
  r2 <= frob2 n n (cgR RR s) /\ r2 = frob2 n n (cgR RR s1).
Proof.
  intros HC E. destruct (update_value RR retab cdivR small retab_ok cdiv_ok m n A s s1 r2 HC E) as (Es & Ev & Er & _).
  split; [|exact Er]. rr in Ev.
  set (wn2 := frob2 n n (qmm m (cgD RR s) A)) in *. set (zz := frob2 n m (cgZ RR s)) in *.
  assert (W0 : 0 <= wn2) by apply frob2_nonneg. assert (W1 : wn2 <> 0) by (apply small_ok; exact Es).
  assert (Wp : 0 < wn2) by lra.
  assert (D : (frob2 n n (cgR RR s) - r2) * wn2 = zz * zz) by lra.
  assert (0 <= zz * zz) by nra.
  destruct (Rle_dec r2 (frob2 n n (cgR RR s))) as [|Hn]; [assumption|exfalso]. nra.
Qed.

Theorem cgne_history_nonincreasing stop k : forall s hist b sf hf,
  Cinv RR m n A s -> nonincr (b :: hist) -> last (b :: hist) 0 = frob2 n n (cgR RR s) ->
  cg_run RR retab cdivR small m n A stop k s hist = (sf, hf) -> nonincr (b :: hf).
Proof.
  induction k as [|k IH]; intros s hist b sf hf HC HN HL; cbn [cg_run]; [intros [= <- <-]; exact HN|].
  destruct (cg_update RR retab cdivR small m n A s) as [[s1 r2]|] eqn:E; [|intros [= <- <-]; exact HN].
  destruct (update_decreases s s1 r2 HC E) as [Hle Her].
  assert (HN' : nonincr (b :: (hist ++ [r2]))).
  { change (b :: hist ++ [r2]) with ((b :: hist) ++ [r2]). apply nonincr_snoc; [exact HN|]. rewrite HL. exact Hle. }
  destruct (stop r2); [intros [= <- <-]; exact HN'|].
  apply (IH (cg_direction RR retab cdivR m n A s1) (hist ++ [r2]) b sf hf).
  - exact (step_Cinv RR retab cdivR small retab_ok cdiv_ok m n A s s1 r2 HC E).
  - exact HN'.
  - change (b :: hist ++ [r2]) with ((b :: hist) ++ [r2]). rewrite last_last. unfold cg_direction; cbn [cgR]. exact Her.
Qed.
Corollary cgne_run_history_nonincreasing alpha0 stop k sf hf :
  cg_run RR retab cdivR small m n A stop k (cg_init RR retab m n alpha0 A) [] = (sf, hf) ->
  nonincr (frob2 n n (cgR RR (cg_init RR retab m n alpha0 A)) :: hf).
Proof.
  intros H. apply (cgne_history_nonincreasing stop k (cg_init RR retab m n alpha0 A) [] _ sf hf); [|exact I|reflexivity|exact H].
  exact (init_Cinv RR retab retab_ok m n A alpha0).
Qed.
End Run.
