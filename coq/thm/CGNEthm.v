(* C13: invariants of CGNE, the projection step and the hyper-power step, as matrix chains. *)
From Coq Require Import Arith Lia Bool Setoid Morphisms Ring List.
From QV Require Import CRing Sums Quat Mat QMat.
From QVM Require Import CGNE.
Import ListNotations.

Section T.
Variable C : CRing.
Add Ring Cr : (cr_th C).
Notation qmat := (qmat C).
Variable retab : nat -> nat -> qmat -> qmat.
Variable cdiv : C -> C -> C.
Variable small : C -> bool.
Hypothesis retab_ok : forall p q M, meq p q (retab p q M) M.
Variables (m n : nat) (A : qmat).

Lemma qscalem_eq c (M : qmat) i j : qscalem C c M i j = qmscaleq (qreal c) M i j.
Proof. unfold qscalem, qmscaleq. symmetry. apply qreal_scale. Qed.
Global Instance qscalem_proper p q c : Proper (meq p q ==> meq p q) (qscalem C c).
Proof. intros M M' H i j Hi Hj. unfold qscalem. now rewrite H. Qed.
Lemma qmm_scalem_l p k q c (M N : qmat) : meq p q (qmm k (qscalem C c M) N) (qscalem C c (qmm k M N)).
Proof. intros i j _ _. unfold qmm, qscalem. rewrite <- (qreal_scale C), (sumQ_mul_l C). apply (sumQ_ext C). intros.
  rewrite <- (qreal_scale C). apply qeq; qcomp; ring. Qed.

(* the residual matrix carried by the recurrence is the true residual: R = I - X A, after every update *)
Definition Rinv (s : cg_state C) : Prop := meq n n (cgR C s) (qmsub qmid (qmm m (cgX C s) A)).
Lemma init_Rinv alpha0 : Rinv (cg_init C retab m n alpha0 A).
Proof. unfold Rinv, cg_init; cbn [cgR cgX]. rewrite (retab_ok n n). reflexivity. Qed.
Lemma update_Rinv s s1 r2 : Rinv s -> cg_update C retab cdiv small m n A s = Some (s1, r2) -> Rinv s1.
Proof.
  unfold Rinv, cg_update. intros H. destruct (small _); [discriminate|]. intros [= <- _]. cbn [cgR cgX].
  rewrite (retab_ok n n), (retab_ok n m), H.
  set (ak := cdiv _ _).
  rewrite (qmm_add_l C n m n (cgX C s) (qscalem C ak (cgD C s)) A).
  rewrite (qmm_scalem_l n m n ak (cgD C s) A).
  intros i j Hi Hj. unfold qmsub, qmadd, qscalem. rewrite (retab_ok n n _ i j Hi Hj). apply qeq; qcomp; ring.
Qed.
Lemma direction_Rinv s : Rinv s -> Rinv (cg_direction C retab cdiv m n A s).
Proof. unfold Rinv, cg_direction; cbn [cgR cgX]. trivial. Qed.
Theorem cgne_residual_is_true stop k : forall s hist sf hf, Rinv s ->
  cg_run C retab cdiv small m n A stop k s hist = (sf, hf) -> Rinv sf.
Proof.
  induction k as [|k IH]; intros s hist sf hf H; cbn [cg_run]; [now intros [= <- _]|].
  destruct (cg_update C retab cdiv small m n A s) as [[s1 r2]|] eqn:E; [|now intros [= <- _]].
  pose proof (update_Rinv s s1 r2 H E) as H1.
  destruct (stop r2); [now intros [= <- _]|]. apply IH. now apply direction_Rinv.
Qed.
(* every recorded value is ||R_k||_F^2 of the state at that time, and the last one belongs to the returned state *)
Theorem cgne_last_history_is_returned stop k : forall s hist sf hf,
  (hist = [] \/ last hist c0 = frob2 n n (cgR C s)) ->
  cg_run C retab cdiv small m n A stop k s hist = (sf, hf) -> hf = [] \/ last hf c0 = frob2 n n (cgR C sf).
Proof.
  induction k as [|k IH]; intros s hist sf hf H; cbn [cg_run]; [now intros [= <- <-]|].
  destruct (cg_update C retab cdiv small m n A s) as [[s1 r2]|] eqn:E; [|now intros [= <- <-]].
  assert (Hr : r2 = frob2 n n (cgR C s1)).
  { unfold cg_update in E. destruct (small _); [discriminate|]. injection E as <- <-. reflexivity. }
  destruct (stop r2).
  - intros [= <- <-]. right. now rewrite last_last.
  - apply IH. right. rewrite last_last. unfold cg_direction; cbn [cgR]. exact Hr.
Qed.

(* projection step: the sketched equation holds exactly after the step *)
Theorem rsp_step_satisfies_sketch r (X Y Omega Z : qmat) : meq r r (qmm m Z Y) qmid ->
  meq n r (qmm m (rsp_step C m n r X Y Omega Z) Y) Omega.
Proof.
  intros HZ. unfold rsp_step.
  rewrite (qmm_add_l C n m r X (qmm r (qmsub Omega (qmm m X Y)) Z) Y).
  rewrite (qmm_assoc C n r m r (qmsub Omega (qmm m X Y)) Z Y), HZ, (qmm_id_r C n r).
  intros i j _ _. unfold qmadd, qmsub. apply qeq; qcomp; ring.
Qed.

(* hyper-power:  I - X' A = (I - X A)^p *)
Lemma hp_invariant F p : meq n n (qmsub qmid (qmm n (fst (hp_sum C retab n F p)) (qmsub qmid F))) (snd (hp_sum C retab n F p)).
Proof.
  induction p as [|p IH]; cbn [hp_sum].
  - cbn [fst snd]. intros i j Hi Hj. unfold qmsub, qmm. rewrite (sumQ_ext C n _ (fun _ => qzero)) by (intros; apply qeq; qcomp; ring).
    rewrite (sumQ_zero C). apply qeq; qcomp; ring.
  - destruct (hp_sum C retab n F p) as [Sm Fp] eqn:E. cbn [fst snd] in *.
    rewrite (retab_ok n n), (retab_ok n n).
    rewrite (qmm_add_l C n n n Sm Fp (qmsub qmid F)).
    rewrite (qmm_sub_r C n n n Fp qmid F), (qmm_id_r C n n Fp).
    intros i j Hi Hj. specialize (IH i j Hi Hj). unfold qmsub, qmadd in *. rewrite <- IH. apply qeq; qcomp; ring.
Qed.
Theorem hyperpower_residual p (X : qmat) :
  meq n n (qmsub qmid (qmm m (hyperpower C retab m n p A X) A))
          (snd (hp_sum C retab n (retab n n (qmsub qmid (qmm m X A))) p)).
Proof.
  unfold hyperpower. set (F := retab n n (qmsub qmid (qmm m X A))).
  rewrite <- (hp_invariant F p).
  rewrite (qmm_assoc C n n m n (fst (hp_sum C retab n F p)) X A).
  assert (E : meq n n (qmm m X A) (qmsub qmid F)).
  { unfold F. rewrite (retab_ok n n). intros i j _ _. unfold qmsub. apply qeq; qcomp; ring. }
  rewrite E. reflexivity.
Qed.
End T.
