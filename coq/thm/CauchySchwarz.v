(* Quaternion Cauchy-Schwarz and sub-multiplicativity of the Frobenius norm, over R. *)
From Coq Require Import Reals Lra Psatz Arith Lia.
From QV Require Import CRing CRingR Sums Quat Mat.
Local Open Scope R_scope.

Notation quatR := (quat RR).
Definition N (p : quatR) : RR := qnorm2 p.
Definition dot (p q : quatR) : RR := qw p * qw q + qx p * qx q + qy p * qy q + qz p * qz q.

Lemma N_nonneg p : 0 <= N p. Proof. unfold N, qnorm2. rr. nra. Qed.
Lemma N_mul p q : N (qmul p q) = N p * N q. Proof. unfold N. apply (qnorm2_mul RR). Qed.
Lemma N_add p q : N (qadd p q) = N p + 2 * dot p q + N q.
Proof. unfold N, dot, qnorm2, qadd; cbn [qw qx qy qz]. rr. ring. Qed.
Lemma dot_sq p q : dot p q * dot p q <= N p * N q.
Proof.
  unfold dot, N, qnorm2. rr.
  assert (H : (qw p * qw p + qx p * qx p + qy p * qy p + qz p * qz p) * (qw q * qw q + qx q * qx q + qy q * qy q + qz q * qz q)
              - (qw p * qw q + qx p * qx q + qy p * qy q + qz p * qz q) * (qw p * qw q + qx p * qx q + qy p * qy q + qz p * qz q)
            = (qw p * qx q - qx p * qw q)^2 + (qw p * qy q - qy p * qw q)^2 + (qw p * qz q - qz p * qw q)^2
            + (qx p * qy q - qy p * qx q)^2 + (qx p * qz q - qz p * qx q)^2 + (qy p * qz q - qz p * qy q)^2) by ring.
  assert (H2 : 0 <= (qw p * qx q - qx p * qw q)^2 + (qw p * qy q - qy p * qw q)^2 + (qw p * qz q - qz p * qw q)^2
            + (qx p * qy q - qy p * qx q)^2 + (qx p * qz q - qz p * qx q)^2 + (qy p * qz q - qz p * qy q)^2)
    by (repeat apply Rplus_le_le_0_compat; apply pow2_ge_0).
  lra.
Qed.

Lemma sumR_nonneg n (f : nat -> RR) : (forall k, 0 <= f k) -> 0 <= sumR n f.
Proof. intros H. induction n; simpl; rr; [lra|specialize (H n); lra]. Qed.
Lemma sumR_le n (f g : nat -> RR) : (forall k, (k < n)%nat -> f k <= g k) -> sumR n f <= sumR n g.
Proof. intros H. induction n; simpl; rr; [lra|].
  assert (sumR n f <= sumR n g) by (apply IHn; intros; apply H; lia). specialize (H n ltac:(lia)). lra. Qed.

Lemma amgm S P Q x y : 0 <= P -> 0 <= Q -> 0 <= x -> 0 <= y -> S * S <= (P * Q) * (x * y) -> 2 * S <= P * y + Q * x.
Proof.
  intros HP HQ Hx Hy H.
  assert (H0 : 0 <= P * y + Q * x) by nra.
  destruct (Rle_dec S 0) as [Hs|Hs]; [lra|].
  assert (Hs' : 0 < S) by lra.
  assert (H1 : 4 * (S * S) <= (P * y + Q * x) * (P * y + Q * x)).
  { assert (E : (P * y + Q * x) * (P * y + Q * x) - 4 * ((P * Q) * (x * y)) = (P * y - Q * x) ^ 2) by ring.
    pose proof (pow2_ge_0 (P * y - Q * x)). lra. }
  set (T := P * y + Q * x) in *.
  destruct (Rle_dec (2 * S) T) as [|Hn]; [assumption|exfalso].
  assert (T < 2 * S) by lra. assert (T * T < (2 * S) * (2 * S)) by nra. lra.
Qed.

Theorem quat_cauchy_schwarz n (p q : nat -> quatR) :
  N (sumQ n (fun k => qmul (p k) (q k))) <= sumR n (fun k => N (p k)) * sumR n (fun k => N (q k)).
Proof.
  induction n; cbn [sumQ sumR].
  - unfold N, qnorm2, qzero; cbn [qw qx qy qz]. rr. lra.
  - set (S0 := sumQ n (fun k => qmul (p k) (q k))) in *.
    set (P := sumR n (fun k => N (p k))) in *. set (Q := sumR n (fun k => N (q k))) in *.
    assert (HP : 0 <= P) by (apply sumR_nonneg; intros; apply N_nonneg).
    assert (HQ : 0 <= Q) by (apply sumR_nonneg; intros; apply N_nonneg).
    rewrite N_add, N_mul. rr.
    pose proof (N_nonneg (p n)) as Hx. pose proof (N_nonneg (q n)) as Hy.
    pose proof (dot_sq S0 (qmul (p n) (q n))) as Hd. rewrite N_mul in Hd. rr in IHn.
    assert (Hd2 : dot S0 (qmul (p n) (q n)) * dot S0 (qmul (p n) (q n)) <= (P * Q) * (N (p n) * N (q n))).
    { assert (Hxy : 0 <= N (p n) * N (q n)) by (apply Rmult_le_pos; assumption).
      pose proof (Rmult_le_compat_r _ _ _ Hxy IHn) as Hm. lra. }
    pose proof (amgm _ P Q (N (p n)) (N (q n)) HP HQ Hx Hy Hd2) as Ha.
    replace ((P + N (p n)) * (Q + N (q n))) with (P * Q + (P * N (q n) + Q * N (p n)) + N (p n) * N (q n)) by ring.
    lra.
Qed.

(* ||A B||_F^2 <= ||A||_F^2 ||B||_F^2 for every shape *)
Theorem frob2_submult m k n (A B : qmat RR) :
  frob2 m n (qmm k A B) <= frob2 m k A * frob2 k n B.
Proof.
  unfold frob2.
  (* bound each entry by Cauchy-Schwarz, then sum *)
  apply Rle_trans with
    (@sumR RR m (fun i => @sumR RR n (fun j => sumR k (fun l => N (A i l)) * sumR k (fun l => N (B l j))))).
  - apply sumR_le; intros i Hi. apply sumR_le; intros j Hj. unfold qmm.
    apply (quat_cauchy_schwarz k (fun l => A i l) (fun l => B l j)).
  - apply Req_le. change Rmult with (@cmul RR).
    rewrite (sumR_sep RR m n (fun i => sumR k (fun l => N (A i l))) (fun j => sumR k (fun l => N (B l j)))).
    f_equal. apply (sumR_swap RR).
Qed.
