(* C12: the first interlacing inequality.  The values returned by the randomized Q-SVDs are the singular values of a compression Q^H A (or A Q')
   of A by a matrix with orthonormal columns.  A compression does not increase operator bounds, so its largest singular value is at most the
   largest singular value of A:  s_0 <= sigma_0(A). *)
From Coq Require Import Reals Lra Psatz Arith Lia.
From QV Require Import CRing CRingR Sums Quat Mat QMat.
From QVT Require Import CauchySchwarz Norms Proj EckartYoung SpectralNorm.
Local Open Scope R_scope.

Lemma normF_compress_le k m p (Qm Y : qmat RR) : meq k k (qmm m (qherm Qm) Qm) qmid -> normF k p (qmm m (qherm Qm) Y) <= normF m p Y.
Proof.
  intros HQ. unfold normF. apply sqrt_le_1; [apply frob2_nonneg|apply frob2_nonneg|].
  pose proof (projection_pythagoras RR m k p Y Qm HQ) as P. cbv zeta in P. cbn [car cadd RR] in P.
  pose proof (frob2_nonneg m p (qmsub Y (qmm k Qm (qmm m (qherm Qm) Y)))). lra.
Qed.
Theorem op_bound_compress_left k m n (Qm A : qmat RR) M : meq k k (qmm m (qherm Qm) Qm) qmid ->
  op_bound m n A M -> op_bound k n (qmm m (qherm Qm) A) M.
Proof.
  intros HQ [HM HA]. split; [exact HM|]. intros p X.
  rewrite (normF_meq k p _ _ (qmm_assoc RR k m n p (qherm Qm) A X)).
  eapply Rle_trans; [apply (normF_compress_le k m p Qm (qmm n A X) HQ)|apply HA].
Qed.

(* sigma_max(Q^H A) <= sigma_max(A), for matrices given with their factorisations *)
Theorem compressed_top_value_le m n k ra rb (Qm Ua Va Ub Vb : qmat RR) (sa sb : nat -> R) :
  (0 < ra)%nat -> (0 < rb)%nat -> meq k k (qmm m (qherm Qm) Qm) qmid ->
  meq ra ra (qmm m (qherm Ua) Ua) qmid -> meq ra ra (qmm n (qherm Va) Va) qmid ->
  meq rb rb (qmm k (qherm Ub) Ub) qmid -> meq rb rb (qmm n (qherm Vb) Vb) qmid ->
  (forall j, (j < ra)%nat -> 0 <= sa j <= sa 0%nat) -> (forall j, (j < rb)%nat -> 0 <= sb j) ->
  meq k n (qmm m (qherm Qm) (@usv RR ra Ua sa Va)) (@usv RR rb Ub sb Vb) ->
  sb 0%nat <= sa 0%nat.
Proof.
  intros Hra Hrb HQ HUa HVa HUb HVb HsA HsB E.
  apply (largest_value_is_least_bound k n rb Ub Vb sb Hrb HUb HVb HsB).
  pose proof (largest_value_is_op_bound m n ra Ua Va sa Hra HUa HVa (fun j Hj => proj1 (HsA j Hj)) (fun j Hj => proj2 (HsA j Hj))) as BA.
  pose proof (op_bound_compress_left k m n Qm _ _ HQ BA) as [H0 HB].
  split; [exact H0|]. intros p X.
  assert (E2 : meq k p (qmm n (@usv RR rb Ub sb Vb) X) (qmm n (qmm m (qherm Qm) (@usv RR ra Ua sa Va)) X)) by (rewrite E; reflexivity).
  rewrite (normF_meq k p _ _ E2). apply HB.
Qed.
