(* Periodic (circular) convolution on Z_H x Z_W and kernel centring. *)
From Coq Require Import Arith Lia Ring Bool.
From QV Require Import CRing Sums Quat Mat.
Local Open Scope cr_scope.

Lemma modH_sub i a H : (i < H)%nat -> (a < H)%nat ->
  ((i + H - a) mod H = if (a <=? i)%nat then i - a else i + H - a)%nat.
Proof.
  intros Hi Ha. destruct (Nat.leb_spec a i).
  - replace (i + H - a)%nat with ((i - a) + 1 * H)%nat by lia. rewrite Nat.mod_add by lia. apply Nat.mod_small. lia.
  - apply Nat.mod_small. lia.
Qed.
Lemma modH_add i s H : (i < H)%nat -> (s <= H)%nat ->
  ((i + s) mod H = if (i + s <? H)%nat then i + s else i + s - H)%nat.
Proof.
  intros Hi Hs. destruct (Nat.ltb_spec (i + s) H).
  - apply Nat.mod_small. lia.
  - assert (E : (i + s = (i + s - H) + 1 * H)%nat) by lia. rewrite E at 1. rewrite Nat.mod_add by lia. apply Nat.mod_small. lia.
Qed.

Section Conv.
Variable C : CRing.
Add Ring Cr : (cr_th C).
Notation rmat := (rmat C).

(* rotating the summation index by s <= H does not change a sum over Z_H *)
Lemma sumR_rot H s (f : nat -> C) : (s <= H)%nat ->
  sumR H (fun i => f ((i + s) mod H)%nat) = sumR H f.
Proof.
  intros Hs. destruct (Nat.eq_dec H 0) as [->|H0]; [reflexivity|].
  transitivity (sumR (H - s) (fun i => f (i + s)%nat) + sumR s f).
  - replace H with ((H - s) + s)%nat at 1 by lia. rewrite sumR_app. f_equal.
    + apply sumR_ext. intros i Hi. f_equal. rewrite modH_add by lia.
      replace (i + s <? H)%nat with true by (symmetry; apply Nat.ltb_lt; lia). reflexivity.
    + apply sumR_ext. intros i Hi. f_equal. rewrite modH_add by lia.
      replace (H - s + i + s <? H)%nat with false by (symmetry; apply Nat.ltb_ge; lia). lia.
  - replace H with (s + (H - s))%nat at 2 by lia. rewrite sumR_app.
    rewrite (sumR_ext C (H - s) (fun k => f (s + k)%nat) (fun i => f (i + s)%nat)) by (intros; f_equal; lia). ring.
Qed.

Definition cconv (H W : nat) (h x : rmat) : rmat := fun i j =>
  sumR H (fun a => sumR W (fun b => h a b * x ((i + H - a) mod H)%nat ((j + W - b) mod W)%nat)).
Definition delta2 (p q : nat) : rmat := fun i j => if (Nat.eqb i p && Nat.eqb j q) then c1 else c0.
Definition total (H W : nat) (x : rmat) : C := sumR H (fun i => sumR W (fun j => x i j)).

Theorem cconv_additive H W h x y i j : cconv H W h (rmadd x y) i j = cconv H W h x i j + cconv H W h y i j.
Proof. unfold cconv, rmadd. rewrite <- sumR_add. apply sumR_ext; intros. rewrite <- sumR_add. apply sumR_ext; intros. ring. Qed.
Theorem cconv_homogeneous H W h c x i j : cconv H W h (rmscale c x) i j = c * cconv H W h x i j.
Proof. unfold cconv, rmscale. rewrite <- sumR_mul_l. apply sumR_ext; intros. rewrite <- sumR_mul_l. apply sumR_ext; intros. ring. Qed.

(* an impulse at (p, q) is mapped to the kernel re-centred on (p, q) *)
Theorem cconv_impulse H W h p q i j : (p < H)%nat -> (q < W)%nat -> (i < H)%nat -> (j < W)%nat ->
  cconv H W h (delta2 p q) i j = h ((i + H - p) mod H)%nat ((j + W - q) mod W)%nat.
Proof.
  intros Hp Hq Hi Hj. unfold cconv, delta2.
  set (a0 := ((i + H - p) mod H)%nat). set (b0 := ((j + W - q) mod W)%nat).
  assert (Ha0 : (a0 < H)%nat) by (apply Nat.mod_upper_bound; lia).
  assert (Hb0 : (b0 < W)%nat) by (apply Nat.mod_upper_bound; lia).
  rewrite <- (sumR_delta C H a0 (fun a => h a b0)) by exact Ha0.
  apply sumR_ext. intros a Ha.
  destruct (Nat.eqb_spec a a0) as [->|Na].
  - rewrite <- (sumR_delta C W b0 (fun b => h a0 b)) by exact Hb0.
    apply sumR_ext. intros b Hb.
    assert (Ea : ((i + H - a0) mod H =? p)%nat = true).
    { apply Nat.eqb_eq. unfold a0. rewrite (modH_sub i p H Hi Hp). destruct (p <=? i)%nat eqn:E;
      [apply Nat.leb_le in E|apply Nat.leb_gt in E]; rewrite modH_sub by lia;
      [replace (i - p <=? i)%nat with true by (symmetry; apply Nat.leb_le; lia)
      |replace (i + H - p <=? i)%nat with false by (symmetry; apply Nat.leb_gt; lia)]; lia. }
    rewrite Ea. cbn [andb].
    destruct (Nat.eqb_spec b b0) as [->|Nb].
    + assert (Eb : ((j + W - b0) mod W =? q)%nat = true).
      { apply Nat.eqb_eq. unfold b0. rewrite (modH_sub j q W Hj Hq). destruct (q <=? j)%nat eqn:E;
        [apply Nat.leb_le in E|apply Nat.leb_gt in E]; rewrite modH_sub by lia;
        [replace (j - q <=? j)%nat with true by (symmetry; apply Nat.leb_le; lia)
        |replace (j + W - q <=? j)%nat with false by (symmetry; apply Nat.leb_gt; lia)]; lia. }
      rewrite Eb. ring.
    + assert (Eb : ((j + W - b) mod W =? q)%nat = false).
      { apply Nat.eqb_neq. intros E. apply Nb. unfold b0. rewrite <- E.
        rewrite (modH_sub j b W Hj Hb). destruct (b <=? j)%nat eqn:E2;
        [apply Nat.leb_le in E2|apply Nat.leb_gt in E2]; rewrite modH_sub by lia;
        [replace (j - b <=? j)%nat with true by (symmetry; apply Nat.leb_le; lia)
        |replace (j + W - b <=? j)%nat with false by (symmetry; apply Nat.leb_gt; lia)]; lia. }
      rewrite Eb. ring.
  - erewrite sumR_ext, sumR_zero; [reflexivity|]. intros b Hb. cbn beta.
    assert (Ea : ((i + H - a) mod H =? p)%nat = false).
    { apply Nat.eqb_neq. intros E. apply Na. unfold a0. rewrite <- E.
      rewrite (modH_sub i a H Hi Ha). destruct (a <=? i)%nat eqn:E2;
      [apply Nat.leb_le in E2|apply Nat.leb_gt in E2]; rewrite modH_sub by lia;
      [replace (i - a <=? i)%nat with true by (symmetry; apply Nat.leb_le; lia)
      |replace (i + H - a <=? i)%nat with false by (symmetry; apply Nat.leb_gt; lia)]; lia. }
    rewrite Ea. cbn [andb]. ring.
Qed.

(* total mass: sum (h * x) = (sum h) (sum x) *)
Theorem cconv_mass H W h x : total H W (cconv H W h x) = total H W h * total H W x.
Proof.
  unfold total, cconv.
  transitivity (sumR H (fun a => sumR W (fun b => h a b * total H W x))).
  2:{ unfold total. rewrite <- sumR_mul_r. apply sumR_ext; intros. now rewrite sumR_mul_r. }
  (* bring the kernel sums outside *)
  transitivity (sumR H (fun a => sumR W (fun b => sumR H (fun i => sumR W (fun j =>
      h a b * x ((i + H - a) mod H)%nat ((j + W - b) mod W)%nat))))).
  - transitivity (sumR H (fun i => sumR H (fun a => sumR W (fun j => sumR W (fun b =>
      h a b * x ((i + H - a) mod H)%nat ((j + W - b) mod W)%nat))))).
    + apply sumR_ext; intros i _. rewrite sumR_swap. apply sumR_ext; intros a _. reflexivity.
    + rewrite sumR_swap. apply sumR_ext; intros a _.
      transitivity (sumR H (fun i => sumR W (fun b => sumR W (fun j =>
         h a b * x ((i + H - a) mod H)%nat ((j + W - b) mod W)%nat)))).
      * apply sumR_ext; intros i _. apply sumR_swap.
      * apply sumR_swap.
  - apply sumR_ext; intros a Ha. apply sumR_ext; intros b Hb.
    unfold total. rewrite <- sumR_mul_l.
    rewrite <- (sumR_rot H (H - a) (fun i => h a b * sumR W (fun j => x i j))) by lia.
    apply sumR_ext; intros i Hi. rewrite <- !sumR_mul_l.
    replace (i + (H - a))%nat with (i + H - a)%nat by lia.
    rewrite <- (sumR_rot W (W - b) (fun j => h a b * x ((i + H - a) mod H)%nat j)) by lia.
    apply sumR_ext; intros j Hj. replace (j + (W - b))%nat with (j + W - b)%nat by lia. reflexivity.
Qed.
End Conv.
Arguments cconv {C}. Arguments delta2 {C}. Arguments total {C}.
