(* The two-dimensional discrete Fourier transform over the complex numbers satisfies the contract under which
   thm/Tikhonov.v proves the restoration theorems: mutually inverse, linear, convolution and correlation theorems.
   Complex numbers are pairs of reals; the roots of unity come from cos / sin of the standard library. *)
From Coq Require Import Reals Lra Lia Arith Ring Field Bool.
From QV Require Import CRing Sums Quat Mat.
From QVT Require Import Conv Tikhonov.

(* ------------------------------------------------------------------ complex numbers as a CRing *)
Definition Cx := (R * R)%type.
Definition xadd (a b : Cx) : Cx := (fst a + fst b, snd a + snd b)%R.
Definition xmul (a b : Cx) : Cx := (fst a * fst b - snd a * snd b, fst a * snd b + snd a * fst b)%R.
Definition xopp (a : Cx) : Cx := (- fst a, - snd a)%R.
Definition xsub (a b : Cx) : Cx := (fst a - fst b, snd a - snd b)%R.
Definition x0 : Cx := (0, 0)%R.
Definition x1 : Cx := (1, 0)%R.
Lemma Cx_th : ring_theory x0 x1 xadd xmul xsub xopp (@eq Cx).
Proof.
  constructor; intros; repeat match goal with x : Cx |- _ => destruct x end;
    unfold xadd, xmul, xsub, xopp, x0, x1; cbn [fst snd]; f_equal; ring.
Qed.
Definition CxR : CRing := mkCRing Cx x0 x1 xadd xmul xsub xopp Cx_th.
Add Ring CxRing : Cx_th.
Notation xsum := (@sumR CxR).
Ltac xr := cbn [car c0 c1 cadd cmul csub copp CxR]; match goal with |- @eq _ ?a ?b => change (@eq Cx a b) end; ring.

Definition xconj (a : Cx) : Cx := (fst a, - snd a)%R.
Definition xre (a : Cx) : Cx := (fst a, 0%R).
Definition ofR (r : R) : Cx := (r, 0%R).
Definition norm2 (a : Cx) : R := (fst a * fst a + snd a * snd a)%R.
Definition xabs2 (a : Cx) : Cx := xmul a (xconj a).
Definition xinv (a : Cx) : Cx := (fst a / norm2 a, - snd a / norm2 a)%R.
Definition xdiv (a d : Cx) : Cx := xmul a (xinv d).

Lemma norm2_zero a : norm2 a = 0%R -> a = x0.
Proof. destruct a as [p q]. unfold norm2, x0. cbn [fst snd]. intros E. f_equal; nra. Qed.
Lemma norm2_nz a : a <> x0 -> norm2 a <> 0%R.
Proof. intros N E. apply N. now apply norm2_zero. Qed.
Lemma xinv_r a : a <> x0 -> xmul a (xinv a) = x1.
Proof. intros N. pose proof (norm2_nz a N) as Hn. destruct a as [p q]. unfold xmul, xinv, x1, norm2 in *. cbn [fst snd] in *. f_equal; field; exact Hn. Qed.
Lemma xdiv_mul a d : d <> x0 -> xmul (xdiv a d) d = a.
Proof. intros N. unfold xdiv. transitivity (xmul a (xmul d (xinv d))); [ring|]. rewrite xinv_r by exact N. ring. Qed.
Lemma xdiv_cancel a d : d <> x0 -> xdiv (xmul a d) d = a.
Proof. intros N. unfold xdiv. transitivity (xmul a (xmul d (xinv d))); [ring|]. rewrite xinv_r by exact N. ring. Qed.
Lemma norm2_mul a b : norm2 (xmul a b) = (norm2 a * norm2 b)%R.
Proof. destruct a, b. unfold norm2, xmul. cbn [fst snd]. ring. Qed.
Lemma xmul_integral a b : xmul a b = x0 -> a <> x0 -> b = x0.
Proof.
  intros E Na. apply norm2_zero. pose proof (norm2_mul a b) as Hm. rewrite E in Hm.
  assert (H0 : norm2 x0 = 0%R) by (unfold norm2, x0; cbn [fst snd]; ring). rewrite H0 in Hm.
  symmetry in Hm. apply Rmult_integral in Hm. destruct Hm as [Hm|Hm]; [exfalso; now apply (norm2_nz a Na) | exact Hm].
Qed.
Lemma xre_0 : xre x0 = x0. Proof. reflexivity. Qed.
Lemma xre_add a b : xre (xadd a b) = xadd (xre a) (xre b).
Proof. destruct a, b. unfold xre, xadd. cbn [fst snd]. f_equal. ring. Qed.
Lemma xre_scale r a : xre r = r -> xre (xmul r a) = xmul r (xre a).
Proof. destruct r as [p q], a as [c d]. unfold xre, xmul. cbn [fst snd]. intros E. injection E as E. subst q. f_equal; ring. Qed.
Lemma xconj_real r : xre r = r -> xconj r = r.
Proof. destruct r as [p q]. unfold xre, xconj. cbn [fst snd]. intros E. injection E as E. subst q. f_equal. ring. Qed.
Lemma xconj_mul a b : xconj (xmul a b) = xmul (xconj a) (xconj b).
Proof. destruct a, b. unfold xconj, xmul. cbn [fst snd]. f_equal; ring. Qed.
Lemma xconj_add a b : xconj (xadd a b) = xadd (xconj a) (xconj b).
Proof. destruct a, b. unfold xconj, xadd. cbn [fst snd]. f_equal; ring. Qed.
Lemma xconj_invol a : xconj (xconj a) = a.
Proof. destruct a. unfold xconj. cbn [fst snd]. f_equal. ring. Qed.
Lemma xconj_sum n (f : nat -> CxR) : xconj (xsum n f) = xsum n (fun k => xconj (f k)).
Proof. induction n as [|n IH]; cbn [sumR]; [change (xconj x0 = x0); unfold xconj, x0; cbn [fst snd]; f_equal; lra|]. change (xconj (xadd (xsum n f) (f n)) = xadd (xsum n (fun k => xconj (f k))) (xconj (f n))). now rewrite xconj_add, IH. Qed.

(* ------------------------------------------------------------------ roots of unity *)
Definition ang (N k : nat) : R := (2 * PI * INR k / INR N)%R.
Definition om (N k : nat) : Cx := (cos (ang N k), - sin (ang N k))%R.
Lemma ang_add N a b : ang N (a + b) = (ang N a + ang N b)%R.
Proof. unfold ang. rewrite plus_INR. unfold Rdiv. ring. Qed.
Lemma om_add N a b : om N (a + b) = xmul (om N a) (om N b).
Proof. unfold om, xmul. cbn [fst snd]. rewrite ang_add, cos_plus, sin_plus. f_equal; ring. Qed.
Lemma om_0 N : om N 0 = x1.
Proof. unfold om, ang, x1. cbn [INR]. replace (2 * PI * 0 / INR N)%R with 0%R by (unfold Rdiv; ring). rewrite cos_0, sin_0. f_equal. ring. Qed.
Lemma om_period N k t : N <> 0 -> om N (k + N * t) = om N k.
Proof.
  intros HN. unfold om. assert (E : ang N (k + N * t) = (ang N k + 2 * INR t * PI)%R).
  { unfold ang. rewrite plus_INR, mult_INR. field. now apply not_0_INR. }
  rewrite E, cos_period, sin_period. reflexivity.
Qed.
Lemma om_mod N u k : N <> 0 -> om N (u * (k mod N)) = om N (u * k).
Proof.
  intros HN. rewrite (Nat.div_mod k N HN) at 2.
  replace (u * (N * (k / N) + k mod N)) with (u * (k mod N) + N * (u * (k / N))) by ring.
  symmetry. now apply om_period.
Qed.
Lemma om_unit N k : xmul (om N k) (xconj (om N k)) = x1.
Proof. unfold om, xmul, xconj, x1. cbn [fst snd]. pose proof (sin2_cos2 (ang N k)) as P. unfold Rsqr in P. f_equal; [|ring].
  transitivity (sin (ang N k) * sin (ang N k) + cos (ang N k) * cos (ang N k))%R; [ring | exact P]. Qed.
Lemma inv_is_conj z w : xmul z w = x1 -> xmul w (xconj w) = x1 -> z = xconj w.
Proof. intros E1 E2. transitivity (xmul z (xmul w (xconj w))); [rewrite E2; ring|]. transitivity (xmul (xmul z w) (xconj w)); [ring|]. rewrite E1. ring. Qed.
Lemma om_full N u : N <> 0 -> om N (u * N) = x1.
Proof. intros HN. replace (u * N) with (0 + N * u) by ring. rewrite om_period by exact HN. apply om_0. Qed.
(* the weight at N - a is the conjugate of the weight at a *)
Lemma om_neg N u a : N <> 0 -> a <= N -> om N (u * (N - a)) = xconj (om N (u * a)).
Proof.
  intros HN Ha. apply inv_is_conj; [|apply om_unit]. rewrite <- om_add.
  replace (u * (N - a) + u * a) with (u * N) by nia. now apply om_full.
Qed.

Fixpoint xpow (z : Cx) (n : nat) : Cx := match n with O => x1 | S k => xmul (xpow z k) z end.
Lemma om_pow N m u : om N (u * m) = xpow (om N m) u.
Proof. induction u as [|u IH]; [apply om_0|]. cbn [xpow]. rewrite <- IH, <- om_add. f_equal. ring. Qed.
Lemma geom z n : xmul (xsub z x1) (xsum n (fun u => xpow z u : CxR)) = xsub (xpow z n) x1.
Proof. induction n as [|n IH]; cbn [sumR xpow]; [xr|].
  change (xmul (xsub z x1) (xadd (xsum n (fun u => xpow z u : CxR)) (xpow z n)) = xsub (xmul (xpow z n) z) x1).
  transitivity (xadd (xmul (xsub z x1) (xsum n (fun u => xpow z u : CxR))) (xmul (xsub z x1) (xpow z n))); [ring|]. rewrite IH. ring. Qed.
Lemma om_ne_1 N m : 0 < m < N -> om N m <> x1.
Proof.
  intros [H0 HN] E. unfold om, x1 in E. injection E as Ec Es.
  assert (Hn : (0 < INR N)%R) by (apply lt_0_INR; lia).
  assert (Hm : (0 < INR m)%R) by (apply lt_0_INR; lia).
  assert (Hmn : (INR m < INR N)%R) by (apply lt_INR; exact HN).
  pose proof PI_RGT_0 as Hpi.
  assert (Ha0 : (0 < ang N m)%R).
  { unfold ang. apply Rmult_lt_0_compat; [|now apply Rinv_0_lt_compat]. apply Rmult_lt_0_compat; lra. }
  assert (Ha1 : (ang N m < 2 * PI)%R).
  { unfold ang. apply (Rmult_lt_reg_r (INR N)); [exact Hn|]. unfold Rdiv. rewrite Rmult_assoc, Rinv_l by lra. nra. }
  assert (Es0 : sin (ang N m) = 0%R) by lra.
  destruct (sin_eq_O_2PI_0 (ang N m)) as [E1|[E1|E1]]; try lra.
  rewrite E1, cos_PI in Ec. lra.
Qed.
Lemma om_geom N m : 0 < m < N -> xsum N (fun u => om N (u * m) : CxR) = x0.
Proof.
  intros Hm. assert (HN : N <> 0) by lia.
  rewrite (sumR_ext CxR N _ (fun u => xpow (om N m) u)) by (intros; apply om_pow).
  apply (xmul_integral (xsub (om N m) x1)).
  - rewrite geom, <- om_pow. rewrite (Nat.mul_comm N m), om_full by exact HN. ring.
  - intros E. apply (om_ne_1 N m Hm). transitivity (xadd (xsub (om N m) x1) x1); [ring|]. rewrite E. ring.
Qed.
Lemma sum_ones N : xsum N (fun _ => x1 : CxR) = ofR (INR N).
Proof. induction N as [|N IH]; [reflexivity|]. cbn [sumR]. rewrite IH. change (xadd (ofR (INR N)) x1 = ofR (INR (S N))). rewrite S_INR. unfold xadd, ofR, x1. cbn [fst snd]. f_equal; ring. Qed.

(* orthogonality of the weights *)
Lemma om_orth N i i0 : i < N -> i0 < N ->
  xsum N (fun u => xmul (om N (u * i)) (xconj (om N (u * i0))) : CxR) = if Nat.eqb i i0 then ofR (INR N) else x0.
Proof.
  intros Hi Hi0. assert (HN : N <> 0) by lia.
  rewrite (sumR_ext CxR N _ (fun u => om N (u * ((i + N - i0) mod N)))).
  2:{ intros u _. rewrite <- om_neg by lia. rewrite <- om_add. rewrite om_mod by exact HN. f_equal. nia. }
  rewrite (modH_sub i i0 N Hi Hi0). destruct (Nat.eqb_spec i i0) as [->|Hne].
  - rewrite Nat.leb_refl. replace (i0 - i0) with 0 by lia.
    rewrite (sumR_ext CxR N _ (fun _ => x1)) by (intros; rewrite Nat.mul_0_r; apply om_0). apply sum_ones.
  - destruct (Nat.leb_spec i0 i); apply om_geom; lia.
Qed.
Lemma om_orth' N i i0 : i < N -> i0 < N ->
  xsum N (fun u => xmul (xconj (om N (i * u))) (om N (i0 * u)) : CxR) = if Nat.eqb i i0 then ofR (INR N) else x0.
Proof.
  intros Hi Hi0. rewrite Nat.eqb_sym. rewrite <- (om_orth N i0 i Hi0 Hi). apply sumR_ext; intros u _.
  rewrite (Nat.mul_comm i u), (Nat.mul_comm i0 u). change (xmul (xconj (om N (u * i))) (om N (u * i0)) = xmul (om N (u * i0)) (xconj (om N (u * i)))). ring.
Qed.

(* ------------------------------------------------------------------ the transform *)
Local Open Scope cr_scope.
Notation cmat := (rmat CxR).
Definition wt (H W u v : nat) : cmat := fun i j => xmul (om H (u * i)) (om W (v * j)).
Definition dft (H W : nat) (x : cmat) : cmat := fun u v => dot2 H W (wt H W u v) x.
Definition idft (H W : nat) (s : cmat) : cmat := fun i j =>
  xmul (ofR (/ (INR H * INR W))) (xsum H (fun u => xsum W (fun v => xmul (s u v) (xconj (wt H W u v i j)) : CxR))).

Lemma wt_shift H W u v i j a b : H <> 0 -> W <> 0 ->
  wt H W u v ((i + a) mod H) ((j + b) mod W) = xmul (wt H W u v i j) (wt H W u v a b).
Proof. intros HH HW. unfold wt. rewrite !om_mod by assumption. rewrite !Nat.mul_add_distr_l, !om_add. xr. Qed.
Lemma wt_unshift H W u v i j a b : a < H -> b < W ->
  wt H W u v ((i + H - a) mod H) ((j + W - b) mod W) = xmul (wt H W u v i j) (xconj (wt H W u v a b)).
Proof.
  intros Ha Hb. unfold wt. rewrite !om_mod by lia.
  replace (i + H - a)%nat with (i + (H - a))%nat by lia. replace (j + W - b)%nat with (j + (W - b))%nat by lia.
  rewrite !Nat.mul_add_distr_l, !om_add, !om_neg by lia. rewrite xconj_mul. xr.
Qed.

Lemma dot2_sym H W (x y : cmat) : dot2 H W x y = dot2 H W y x.
Proof. unfold dot2. apply sumR_ext; intros i _. apply sumR_ext; intros j _. xr. Qed.
Lemma dot2_scale_l H W c (x y : cmat) : dot2 H W (fun i j => c * x i j) y = c * dot2 H W x y.
Proof. unfold dot2. rewrite <- sumR_mul_l. apply sumR_ext; intros i _. rewrite <- sumR_mul_l. apply sumR_ext; intros j _. xr. Qed.
Lemma dot2_ext H W (x x' y : cmat) : weq H W x x' -> dot2 H W x y = dot2 H W x' y.
Proof. intros E. unfold dot2. apply sumR_ext; intros i Hi. apply sumR_ext; intros j Hj. now rewrite E. Qed.

Theorem dft_conv H W h x : weq H W (dft H W (cconv H W h x)) (pmul (dft H W h) (dft H W x)).
Proof.
  intros u v Hu Hv. assert (HH : H <> 0) by lia. assert (HW : W <> 0) by lia.
  unfold dft, pmul. rewrite ccorr_is_transpose.
  rewrite (dot2_ext H W _ (fun i j => dot2 H W (wt H W u v) h * wt H W u v i j)).
  - apply dot2_scale_l.
  - intros i j Hi Hj. unfold ccorr, dot2. rewrite <- sumR_mul_r. apply sumR_ext; intros a _. rewrite <- sumR_mul_r. apply sumR_ext; intros b _.
    rewrite wt_shift by assumption. change (xmul (h a b) (xmul (wt H W u v i j) (wt H W u v a b)) = xmul (xmul (wt H W u v a b) (h a b)) (wt H W u v i j)). xr.
Qed.
Theorem dft_corr H W h y : @isreal CxR xre H W h -> weq H W (dft H W (ccorr H W h y)) (pmul (@pconj CxR xconj (dft H W h)) (dft H W y)).
Proof.
  intros Rh u v Hu Hv. unfold dft, pmul, pconj.
  rewrite (dot2_sym H W (wt H W u v)), <- ccorr_is_transpose, dot2_sym.
  rewrite (dot2_ext H W _ (fun i j => (xconj (dot2 H W (wt H W u v) h) : CxR) * wt H W u v i j)).
  - apply dot2_scale_l.
  - intros i j Hi Hj. unfold cconv, dot2. rewrite xconj_sum, <- sumR_mul_r. apply sumR_ext; intros a Ha. rewrite xconj_sum, <- sumR_mul_r. apply sumR_ext; intros b Hb.
    rewrite wt_unshift by assumption.
    change (xmul (h a b) (xmul (wt H W u v i j) (xconj (wt H W u v a b))) = xmul (xconj (xmul (wt H W u v a b) (h a b))) (wt H W u v i j)).
    rewrite xconj_mul, (xconj_real (h a b)) by (now apply Rh). xr.
Qed.
Theorem dft_add H W x y : weq H W (dft H W (rmadd x y)) (rmadd (dft H W x) (dft H W y)).
Proof. intros u v _ _. unfold dft, dot2, rmadd. rewrite <- sumR_add. apply sumR_ext; intros i _. rewrite <- sumR_add. apply sumR_ext; intros j _. xr. Qed.
Theorem dft_scale H W c x : weq H W (dft H W (rmscale c x)) (rmscale c (dft H W x)).
Proof. intros u v _ _. unfold dft, dot2, rmscale. rewrite <- sumR_mul_l. apply sumR_ext; intros i _. rewrite <- sumR_mul_l. apply sumR_ext; intros j _. xr. Qed.
Theorem dft_w H W x y : weq H W x y -> weq H W (dft H W x) (dft H W y).
Proof. intros E u v _ _. unfold dft, dot2. apply sumR_ext; intros i Hi. apply sumR_ext; intros j Hj. now rewrite E. Qed.
Theorem idft_w H W s t : weq H W s t -> weq H W (idft H W s) (idft H W t).
Proof. intros E i j _ _. unfold idft. f_equal. apply sumR_ext; intros u Hu. apply sumR_ext; intros v Hv. now rewrite E. Qed.

(* a four-fold sum with separable weights *)
Lemma sum4_sep H W (x : cmat) (a : nat -> nat -> CxR) (a' : nat -> CxR) (b : nat -> nat -> CxR) (b' : nat -> CxR) :
  xsum H (fun u => xsum W (fun v => xsum H (fun i => xsum W (fun j => x i j * (a u i * b v j))) * (a' u * b' v)))
  = xsum H (fun i => xsum W (fun j => x i j * (xsum H (fun u => a u i * a' u) * xsum W (fun v => b v j * b' v)))).
Proof.
  transitivity (xsum H (fun u => xsum H (fun i => xsum W (fun v => xsum W (fun j => x i j * (a u i * a' u) * (b v j * b' v)))))).
  { apply sumR_ext; intros u _.
    transitivity (xsum W (fun v => xsum H (fun i => xsum W (fun j => x i j * (a u i * a' u) * (b v j * b' v))))).
    - apply sumR_ext; intros v _. rewrite <- sumR_mul_r. apply sumR_ext; intros i _. rewrite <- sumR_mul_r. apply sumR_ext; intros j _. xr.
    - apply sumR_swap. }
  rewrite sumR_swap. apply sumR_ext; intros i _.
  transitivity (xsum H (fun u => xsum W (fun j => xsum W (fun v => x i j * (a u i * a' u) * (b v j * b' v))))).
  { apply sumR_ext; intros u _. apply sumR_swap. }
  rewrite sumR_swap. apply sumR_ext; intros j _.
  transitivity (xsum H (fun u => x i j * (a u i * a' u) * xsum W (fun v => b v j * b' v))).
  { apply sumR_ext; intros u _. now rewrite sumR_mul_l. }
  rewrite (sumR_mul_r CxR H (xsum W (fun v => b v j * b' v)) (fun u => x i j * (a u i * a' u))).
  rewrite (sumR_mul_l CxR H (x i j) (fun u => a u i * a' u)). xr.
Qed.
Lemma scale_inv H W z : H <> 0 -> W <> 0 -> xmul (ofR (/ (INR H * INR W))) (xmul z (xmul (ofR (INR H)) (ofR (INR W)))) = z.
Proof. intros HH HW. destruct z as [p q]. unfold xmul, ofR. cbn [fst snd]. pose proof (not_0_INR H HH). pose proof (not_0_INR W HW). f_equal; field; split; assumption. Qed.

Theorem idft_dft H W x : weq H W (idft H W (dft H W x)) x.
Proof.
  intros i0 j0 Hi0 Hj0. assert (HH : H <> 0) by lia. assert (HW : W <> 0) by lia. unfold idft, dft, dot2, wt.
  rewrite (sumR_ext CxR H _ (fun u => xsum W (fun v => xsum H (fun i => xsum W (fun j => x i j * ((om H (u * i) : CxR) * om W (v * j)))) * ((xconj (om H (u * i0)) : CxR) * xconj (om W (v * j0)))))).
  2:{ intros u _. apply sumR_ext; intros v _. rewrite xconj_mul.
      rewrite (sumR_ext CxR H _ (fun i => xsum W (fun j => x i j * ((om H (u * i) : CxR) * om W (v * j))))); [reflexivity|].
      intros i _. apply sumR_ext; intros j _.
      change (xmul (xmul (om H (u * i)) (om W (v * j))) (x i j) = xmul (x i j) (xmul (om H (u * i)) (om W (v * j)))). xr. }
  rewrite (sum4_sep H W x (fun u i => om H (u * i)) (fun u => xconj (om H (u * i0))) (fun v j => om W (v * j)) (fun v => xconj (om W (v * j0)))).
  rewrite (sumR_ext CxR H _ (fun i => if Nat.eqb i i0 then xsum W (fun j => if Nat.eqb j j0 then x i j * ((ofR (INR H) : CxR) * ofR (INR W)) else c0) else c0)).
  2:{ intros i Hi. change (fun u => (om H (u * i) : CxR) * xconj (om H (u * i0))) with (fun u => xmul (om H (u * i)) (xconj (om H (u * i0))) : CxR).
      rewrite (om_orth H i i0 Hi Hi0). destruct (Nat.eqb i i0).
      - apply sumR_ext; intros j Hj. change (fun v => (om W (v * j) : CxR) * xconj (om W (v * j0))) with (fun v => xmul (om W (v * j)) (xconj (om W (v * j0))) : CxR).
        rewrite (om_orth W j j0 Hj Hj0). destruct (Nat.eqb j j0); [reflexivity|]. change (xmul (x i j) (xmul (ofR (INR H)) x0) = x0). xr.
      - erewrite sumR_ext, sumR_zero; [reflexivity|]. intros j _. cbn beta. change (xmul (x i j) (xmul x0 (xsum W (fun v => (om W (v * j) : CxR) * xconj (om W (v * j0))))) = x0). xr. }
  rewrite (sumR_delta CxR H i0 (fun i => xsum W (fun j => if Nat.eqb j j0 then x i j * ((ofR (INR H) : CxR) * ofR (INR W)) else c0)) Hi0).
  rewrite (sumR_delta CxR W j0 (fun j => x i0 j * ((ofR (INR H) : CxR) * ofR (INR W))) Hj0).
  now apply scale_inv.
Qed.
Theorem dft_idft H W s : weq H W (dft H W (idft H W s)) s.
Proof.
  intros u0 v0 Hu0 Hv0. assert (HH : H <> 0) by lia. assert (HW : W <> 0) by lia. unfold idft, dft, dot2, wt.
  set (c := ofR (/ (INR H * INR W))).
  transitivity ((c : CxR) * xsum H (fun i => xsum W (fun j => xsum H (fun u => xsum W (fun v => s u v * ((xconj (om H (i * u)) : CxR) * xconj (om W (j * v))))) * ((om H (i * u0) : CxR) * om W (j * v0))))).
  { rewrite <- sumR_mul_l. apply sumR_ext; intros i _. rewrite <- sumR_mul_l. apply sumR_ext; intros j _.
    rewrite (Nat.mul_comm u0 i), (Nat.mul_comm v0 j).
    rewrite (sumR_ext CxR H (fun u => xsum W (fun v => s u v * ((xconj (om H (i * u)) : CxR) * xconj (om W (j * v))))) (fun u => xsum W (fun v => xmul (s u v) (xconj (xmul (om H (u * i)) (om W (v * j)))) : CxR))).
    - change (xmul (xmul (om H (i * u0)) (om W (j * v0))) (xmul c (xsum H (fun u => xsum W (fun v => xmul (s u v) (xconj (xmul (om H (u * i)) (om W (v * j)))) : CxR)))) =
              xmul c (xmul (xsum H (fun u => xsum W (fun v => xmul (s u v) (xconj (xmul (om H (u * i)) (om W (v * j)))) : CxR))) (xmul (om H (i * u0)) (om W (j * v0))))). xr.
    - intros u _. apply sumR_ext; intros v _. rewrite xconj_mul, (Nat.mul_comm u i), (Nat.mul_comm v j). reflexivity. }
  rewrite (sum4_sep H W s (fun i u => xconj (om H (i * u))) (fun i => om H (i * u0)) (fun j v => xconj (om W (j * v))) (fun j => om W (j * v0))).
  rewrite (sumR_ext CxR H _ (fun u => if Nat.eqb u u0 then xsum W (fun v => if Nat.eqb v v0 then s u v * ((ofR (INR H) : CxR) * ofR (INR W)) else c0) else c0)).
  2:{ intros u Hu. change (fun i => (xconj (om H (i * u)) : CxR) * om H (i * u0)) with (fun i => xmul (xconj (om H (i * u))) (om H (i * u0)) : CxR).
      rewrite (sumR_ext CxR H (fun i => xmul (xconj (om H (i * u))) (om H (i * u0)) : CxR) (fun i => xmul (xconj (om H (u * i))) (om H (u0 * i)) : CxR))
        by (intros i _; now rewrite (Nat.mul_comm i u), (Nat.mul_comm i u0)).
      rewrite (om_orth' H u u0 Hu Hu0). destruct (Nat.eqb u u0).
      - apply sumR_ext; intros v Hv.
        change (fun j => (xconj (om W (j * v)) : CxR) * om W (j * v0)) with (fun j => xmul (xconj (om W (j * v))) (om W (j * v0)) : CxR).
        rewrite (sumR_ext CxR W (fun j => xmul (xconj (om W (j * v))) (om W (j * v0)) : CxR) (fun j => xmul (xconj (om W (v * j))) (om W (v0 * j)) : CxR))
          by (intros j _; now rewrite (Nat.mul_comm j v), (Nat.mul_comm j v0)).
        rewrite (om_orth' W v v0 Hv Hv0). destruct (Nat.eqb v v0); [reflexivity|]. change (xmul (s u v) (xmul (ofR (INR H)) x0) = x0). xr.
      - erewrite sumR_ext, sumR_zero; [reflexivity|]. intros v _. cbn beta.
        change (xmul (s u v) (xmul x0 (xsum W (fun j => (xconj (om W (j * v)) : CxR) * om W (j * v0)))) = x0). xr. }
  rewrite (sumR_delta CxR H u0 (fun u => xsum W (fun v => if Nat.eqb v v0 then s u v * ((ofR (INR H) : CxR) * ofR (INR W)) else c0)) Hu0).
  rewrite (sumR_delta CxR W v0 (fun v => s u0 v * ((ofR (INR H) : CxR) * ofR (INR W))) Hv0).
  now apply scale_inv.
Qed.
Theorem idft_add H W s t : weq H W (idft H W (rmadd s t)) (rmadd (idft H W s) (idft H W t)).
Proof.
  intros i j _ _. unfold idft, rmadd.
  rewrite (sumR_ext CxR H _ (fun u => xsum W (fun v => xmul (s u v) (xconj (wt H W u v i j)) : CxR) + xsum W (fun v => xmul (t u v) (xconj (wt H W u v i j)) : CxR))).
  - rewrite sumR_add. xr.
  - intros u _. rewrite <- sumR_add. apply sumR_ext; intros v _. xr.
Qed.
Theorem idft_scale H W c s : weq H W (idft H W (rmscale c s)) (rmscale c (idft H W s)).
Proof.
  intros i j _ _. unfold idft, rmscale.
  rewrite (sumR_ext CxR H _ (fun u => c * xsum W (fun v => xmul (s u v) (xconj (wt H W u v i j)) : CxR))).
  - rewrite sumR_mul_l. xr.
  - intros u _. rewrite <- sumR_mul_l. apply sumR_ext; intros v _. xr.
Qed.
Lemma xdiv_add a b d : xdiv (xadd a b) d = xadd (xdiv a d) (xdiv b d).
Proof. unfold xdiv. ring. Qed.
Lemma xdiv_scale c a d : xdiv (xmul c a) d = xmul c (xdiv a d).
Proof. unfold xdiv. ring. Qed.
