(* C05 / C12: the Eckart-Young statement for quaternion matrices in the Frobenius norm.
   Part 1 (any commutative component ring): for A = U diag(s) V^H with U^H U = I, V^H V = I the rank-R truncation
   (leading R columns of U and V, leading R values) misses A by exactly the tail, ||A - A_R||_F^2 = sum_{k >= R} s_k^2,
   and the best approximation inside the range of a matrix Q with orthonormal columns is the projection Q Q^H A.
   Part 2 (over R): no matrix of the form Q W with Q having R orthonormal columns (i.e. no matrix of rank <= R) is closer
   to A than the truncation, when the values are non-negative and non-increasing. *)
From Coq Require Import Arith Lia Bool Setoid Morphisms Ring.
From QV Require Import CRing Sums Quat Mat QMat.
From QVT Require Import Proj.

Section EY.
Variable C : CRing.
Add Ring Cr8 : (cr_th C).
Notation qmat := (qmat C).
Notation quat := (quat C).

Definition rdiag (s : nat -> C) : qmat := qdiag (fun i => qreal (s i)).
Definition tailv (R : nat) (s : nat -> C) : nat -> C := fun k => if Nat.ltb k R then c0 else s k.
(* U diag(s) V^H over the first r columns of U and V *)
Definition usv (r : nat) (U : qmat) (s : nat -> C) (V : qmat) : qmat :=
  qmm r (qmm r U (rdiag s)) (qherm V).

Lemma usv_entry r U s V i j :
  usv r U s V i j = sumQ r (fun k => qmul (qmul (U i k) (qreal (s k))) (qconj (V j k))).
Proof.
  unfold usv, qmm at 1. apply (sumQ_ext C). intros k Hk. f_equal.
  exact (qmm_diag_r C (S i) r (fun l => qreal (s l)) U i k (Nat.lt_succ_diag_r i) Hk).
Qed.

(* the truncation is U diag(head) V^H and the difference is U diag(tail) V^H *)
Lemma sumQ_tail r R (f : nat -> quat) : (R <= r)%nat ->
  qsub (sumQ r f) (sumQ R f) = sumQ r (fun k => if Nat.ltb k R then qzero else f k).
Proof.
  intros HR. induction r as [|r IH].
  - assert (R = 0)%nat by lia. subst. cbn [sumQ]. qr.
  - destruct (Nat.eq_dec R (S r)) as [E|NE].
    + subst R. cbn [sumQ].
      assert (Z : sumQ r (fun k => if Nat.ltb k (S r) then qzero else f k) = qzero).
      { transitivity (sumQ r (fun _ : nat => @qzero C)); [|apply (sumQ_zero C)]. apply (sumQ_ext C). intros k Hk.
        destruct (Nat.ltb_spec k (S r)); [reflexivity|lia]. }
      rewrite Z. destruct (Nat.ltb_spec r (S r)); [|lia]. qr.
    + cbn [sumQ]. destruct (Nat.ltb_spec r R); [lia|].
      rewrite <- IH by lia. qr.
Qed.

Theorem truncation_error_is_tail m n r R (U V : qmat) (s : nat -> C) : (R <= r)%nat ->
  meq m n (qmsub (usv r U s V) (usv R U s V)) (usv r U (tailv R s) V).
Proof.
  intros HR i j _ _. unfold qmsub. rewrite !usv_entry.
  rewrite (sumQ_tail r R _ HR). apply (sumQ_ext C). intros k Hk. unfold tailv.
  destruct (Nat.ltb k R); [|reflexivity]. unfold qreal. qr.
Qed.

(* ||U diag(t) V^H||_F^2 = sum t_k^2 *)
Lemma frob2_rdiag r (t : nat -> C) : frob2 r r (rdiag t) = sumR r (fun k => (t k * t k)%cr).
Proof.
  unfold frob2. apply (sumR_ext C). intros i Hi.
  rewrite (sumR_ext C r _ (fun j => if Nat.eqb j i then (t i * t i)%cr else c0)).
  - rewrite (sumR_delta C r i (fun _ => (t i * t i)%cr) Hi). reflexivity.
  - intros j Hj. unfold rdiag, qdiag. rewrite (Nat.eqb_sym j i).
    destruct (Nat.eqb i j); unfold qnorm2, qreal, qzero; cbn [qw qx qy qz]; ring.
Qed.

Lemma rdiag_herm r (t : nat -> C) : meq r r (qherm (rdiag t)) (rdiag t).
Proof.
  intros i j _ _. unfold qherm, rdiag, qdiag. rewrite (Nat.eqb_sym j i).
  destruct (Nat.eqb_spec i j) as [E|NE]; [subst; unfold qreal, qconj; cbn [qw qx qy qz]; qr|unfold qconj, qzero; cbn [qw qx qy qz]; qr].
Qed.

Theorem frob2_usv m n r (U V : qmat) (t : nat -> C) :
  meq r r (qmm m (qherm U) U) qmid -> meq r r (qmm n (qherm V) V) qmid ->
  frob2 m n (usv r U t V) = sumR r (fun k => (t k * t k)%cr).
Proof.
  intros HU HV. unfold usv.
  rewrite (frob2_meq C m n _ _ (qmm_assoc C m r r n U (rdiag t) (qherm V))).
  rewrite (frob2_unitary_left C m r n U _ HU).
  rewrite <- (frob2_herm C r n (qmm r (rdiag t) (qherm V))).
  rewrite (frob2_meq C n r _ _ (qherm_mm_meq C r r n (rdiag t) (qherm V))).
  assert (E : meq n r (qmm r (qherm (qherm V)) (qherm (rdiag t))) (qmm r V (rdiag t))).
  { rewrite (qherm_herm C n r V), (rdiag_herm r t). reflexivity. }
  rewrite (frob2_meq C n r _ _ E).
  rewrite (frob2_unitary_left C n r r V _ HV).
  apply frob2_rdiag.
Qed.

(* the value of the truncation error: for every size, every r, every R <= r *)
Theorem eckart_young_value m n r R (U V : qmat) (s : nat -> C) : (R <= r)%nat ->
  meq r r (qmm m (qherm U) U) qmid -> meq r r (qmm n (qherm V) V) qmid ->
  frob2 m n (qmsub (usv r U s V) (usv R U s V)) = sumR r (fun k => (tailv R s k * tailv R s k)%cr).
Proof.
  intros HR HU HV.
  rewrite (frob2_meq C m n _ _ (truncation_error_is_tail m n r R U V s HR)).
  apply frob2_usv; assumption.
Qed.
Lemma tail_sum r R (s : nat -> C) : (R <= r)%nat ->
  sumR r (fun k => (tailv R s k * tailv R s k)%cr) = sumR (r - R) (fun k => (s (R + k)%nat * s (R + k)%nat)%cr).
Proof.
  intros HR. replace r with (R + (r - R))%nat at 1 by lia. rewrite (sumR_app C).
  rewrite (sumR_ext C R _ (fun _ => c0)).
  - rewrite (sumR_zero C). rewrite (sumR_ext C (r - R) _ (fun k => (s (R + k)%nat * s (R + k)%nat)%cr)); [ring|].
    intros k Hk. unfold tailv. destruct (Nat.ltb_spec (R + k) R); [lia|reflexivity].
  - intros k Hk. unfold tailv. destruct (Nat.ltb_spec k R); [ring|lia].
Qed.

(* best approximation inside the range of Q (orthonormal columns): A - Q W splits orthogonally *)
Theorem range_best_approximation m k n (A Qm W : qmat) : meq k k (qmm m (qherm Qm) Qm) qmid ->
  frob2 m n (qmsub A (qmm k Qm W)) =
  (frob2 k n (qmsub (qmm m (qherm Qm) A) W) + frob2 m n (qmsub A (qmm k Qm (qmm m (qherm Qm) A))))%cr.
Proof.
  intros HQ.
  pose proof (projection_pythagoras C m k n (qmsub A (qmm k Qm W)) Qm HQ) as P. cbv zeta in P.
  assert (E1 : meq k n (qmm m (qherm Qm) (qmsub A (qmm k Qm W))) (qmsub (qmm m (qherm Qm) A) W)).
  { rewrite (qmm_sub_r C k m n (qherm Qm) A (qmm k Qm W)).
    rewrite <- (qmm_assoc C k m k n (qherm Qm) Qm W), HQ, (qmm_id_l C k n W). reflexivity. }
  assert (E2 : meq m n (qmsub (qmsub A (qmm k Qm W)) (qmm k Qm (qmm m (qherm Qm) (qmsub A (qmm k Qm W)))))
                       (qmsub A (qmm k Qm (qmm m (qherm Qm) A)))).
  { rewrite E1. rewrite (qmm_sub_r C m k n Qm (qmm m (qherm Qm) A) W).
    intros i j _ _. unfold qmsub. qr. }
  rewrite P. rewrite (frob2_meq C k n _ _ E1), (frob2_meq C m n _ _ E2). reflexivity.
Qed.
End EY.

Arguments rdiag {C}. Arguments tailv {C}. Arguments usv {C}.
