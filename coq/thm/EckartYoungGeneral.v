(* C05: Eckart-Young in the Frobenius norm against EVERY matrix that factors through R rows (X = G W, W with R rows: every matrix of rank <= R),
   without asking for an orthonormal factor: sum_{k >= R} sigma_k(A)^2 <= ||A - X||_F^2.  Through Weyl's inequality: sigma_{i+R}(A) <= sigma_i(A - X)
   + sigma_R(X) and sigma_R(X) = 0.  The matrices A, X and A - X are given with thin factorisations of q values each. *)
From Coq Require Import Reals Lra Psatz Arith Lia.
From QV Require Import CRing CRingR Sums Quat Mat QMat.
From QVT Require Import CauchySchwarz Norms Proj EckartYoung SpectralNorm Kernel Compress MinMax RankProduct Weyl.
Local Open Scope R_scope.
Add Ring RRg : (cr_th RR).

Theorem eckart_young_frobenius_general m n q p (Ua Va Ux Vx Ue Ve G W : qmat RR) (sa sx se : nat -> R) :
  (p < q)%nat ->
  meq q q (qmm m (qherm Ua) Ua) qmid -> meq q q (qmm n (qherm Va) Va) qmid ->
  meq q q (qmm m (qherm Ux) Ux) qmid -> meq q q (qmm n (qherm Vx) Vx) qmid ->
  meq q q (qmm m (qherm Ue) Ue) qmid -> meq q q (qmm n (qherm Ve) Ve) qmid ->
  (forall k, (k < q)%nat -> 0 <= sa k) -> (forall a b, (a <= b)%nat -> (b < q)%nat -> sa b <= sa a) ->
  (forall k, (k < q)%nat -> 0 <= sx k) -> (forall a b, (a <= b)%nat -> (b < q)%nat -> sx b <= sx a) ->
  (forall k, (k < q)%nat -> 0 <= se k) -> (forall a b, (a <= b)%nat -> (b < q)%nat -> se b <= se a) ->
  meq m n (qmm p G W) (@usv RR q Ux sx Vx) ->
  meq m n (qmsub (@usv RR q Ua sa Va) (qmm p G W)) (@usv RR q Ue se Ve) ->
  @sumR RR (q - p) (fun k => sa (p + k)%nat * sa (p + k)%nat) <= frob2 m n (qmsub (@usv RR q Ua sa Va) (qmm p G W)).
Proof.
  intros HR HUa HVa HUx HVx HUe HVe Ha0 Ham Hx0 Hxm He0 Hem EX EE.
  (* sigma_R(X) = 0 *)
  assert (ZX : sx p = 0).
  { assert (Z : meq m n (qmsub (@usv RR q Ux sx Vx) (qmm p G W)) (fun _ _ => qzero)) by (rewrite <- EX; intros i j _ _; unfold qmsub; qr).
    pose proof (low_rank_competitor_bound m n q p Ux Vx G W sx 0 HR HUx HVx Hx0 Hxm (op_bound_zero m n _ Z)) as L.
    specialize (Hx0 p HR). lra. }
  (* A = E + X *)
  assert (EA : meq m n (@usv RR q Ua sa Va) (qmadd (@usv RR q Ue se Ve) (@usv RR q Ux sx Vx))).
  { rewrite <- EE, <- EX. intros i j _ _. unfold qmadd, qmsub. qr. }
  (* Weyl: sa (i + p) <= se i *)
  assert (Wy : forall i, (i + p < q)%nat -> sa (p + i)%nat <= se i).
  { intros i Hi. pose proof (weyl_inequality m n q q q i p Ue Ve Ux Vx Ua Va se sx sa ltac:(lia) HR Hi HUe HVe HUx HVx HUa HVa He0 Hem Hx0 Hxm Ha0 Ham EA) as Wl.
    rewrite ZX in Wl. replace (p + i)%nat with (i + p)%nat by lia. lra. }
  rewrite (frob2_meq RR m n _ _ EE), (frob2_usv RR m n q Ue Ve se HUe HVe).
  replace q with ((q - p) + p)%nat at 2 by lia. rewrite (sumR_app RR). rr.
  assert (T : 0 <= @sumR RR p (fun k => se (q - p + k)%nat * se (q - p + k)%nat)) by (apply sumRR_nonneg; intros; nra).
  assert (S1 : @sumR RR (q - p) (fun k => sa (p + k)%nat * sa (p + k)%nat) <= @sumR RR (q - p) (fun k => se k * se k)).
  { apply sumRR_le. intros k Hk. assert (sa (p + k)%nat <= se k) by (apply Wy; lia). assert (0 <= sa (p + k)%nat) by (apply Ha0; lia). apply Rmult_le_compat; lra. }
  lra.
Qed.
