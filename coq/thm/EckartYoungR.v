(* C05 / C12: Eckart-Young optimality over R.  For A = U diag(s) V^H (U^H U = I_r, V^H V = I_r, s non-negative and
   non-increasing) and ANY matrix of the form Q W with Q having R orthonormal columns (every matrix of rank <= R has this
   form), ||A - Q W||_F^2 >= sum_{k >= R} s_k^2 -- the error of the rank-R truncation (EckartYoung.eckart_young_value). *)
From Coq Require Import Reals Lra Psatz Arith Lia.
From QV Require Import CRing CRingR Sums Quat Mat QMat.
From QVT Require Import CauchySchwarz Norms Proj EckartYoung.
Local Open Scope R_scope.

Notation qmatR := (qmat RR).

(* the "bathtub" inequality: weights in [0,1] of total mass <= p put on a non-increasing non-negative sequence *)
Lemma bathtub r p (a c : nat -> R) : (p <= r)%nat ->
  (forall k, (k < r)%nat -> 0 <= c k <= 1) -> @sumR RR r c <= @sumR RR p (fun _ => 1) ->
  (forall k l, (k <= l)%nat -> (l < r)%nat -> a l <= a k) -> (forall k, (k < r)%nat -> 0 <= a k) ->
  @sumR RR r (fun k => a k * c k) <= @sumR RR p a.
Proof.
  intros HR Hc Hm Hmono Hpos.
  destruct (Nat.eq_dec p r) as [E|NE].
  - subst p. apply sumRR_le. intros k Hk. specialize (Hc k Hk). specialize (Hpos k Hk). nra.
  - assert (HRr : (p < r)%nat) by lia. set (t := a p).
    assert (Ht : 0 <= t) by (apply Hpos; lia).
    replace r with (p + (r - p))%nat in * by lia.
    rewrite (sumR_app RR) in Hm |- *. rr. rr in Hm.
    assert (H1 : @sumR RR p (fun k => a k * c k) <= @sumR RR p (fun k => a k - t * (1 - c k))).
    { apply sumRR_le. intros k Hk. assert (Hk' : (k < p + (r - p))%nat) by lia.
      specialize (Hc k Hk'). assert (t <= a k) by (apply Hmono; lia). nra. }
    assert (E1 : @sumR RR p (fun k => a k - t * (1 - c k))
                 = @sumR RR p a - t * (@sumR RR p (fun _ => 1) - @sumR RR p c)).
    { pose proof (sumR_sub RR p a (fun k => t * (1 - c k))) as X1.
      pose proof (sumR_mul_l RR p t (fun k => 1 - c k)) as X2.
      pose proof (sumR_sub RR p (fun _ => 1) c) as X3.
      rr in X1. rr in X2. rr in X3. rewrite X1, X2, X3. reflexivity. }
    assert (H2 : @sumR RR (r - p) (fun k => a (p + k)%nat * c (p + k)%nat) <= t * @sumR RR (r - p) (fun k => c (p + k)%nat)).
    { pose proof (sumR_mul_l RR (r - p) t (fun k => c (p + k)%nat)) as X4. rr in X4. rewrite <- X4.
      apply sumRR_le. intros k Hk. assert (Hk' : (p + k < p + (r - p))%nat) by lia.
      specialize (Hc _ Hk'). assert (a (p + k)%nat <= t) by (apply Hmono; lia). nra. }
    rewrite E1 in H1.
    set (S1 := @sumR RR p (fun k => a k * c k)) in *. set (S2 := @sumR RR (r - p) (fun k => a (p + k)%nat * c (p + k)%nat)) in *.
    set (SA := @sumR RR p a) in *. set (N1 := @sumR RR p (fun _ => 1)) in *. set (C1 := @sumR RR p c) in *.
    set (C2 := @sumR RR (r - p) (fun k => c (p + k)%nat)) in *.
    nra.
Qed.

Section Opt.
Variables (m n r p : nat) (U V Qm W : qmatR) (s : nat -> R).
Hypothesis HR : (p <= r)%nat.
Hypothesis HU : meq r r (qmm m (qherm U) U) qmid.
Hypothesis HV : meq r r (qmm n (qherm V) V) qmid.
Hypothesis HQ : meq p p (qmm m (qherm Qm) Qm) qmid.
Hypothesis Hs0 : forall k, (k < r)%nat -> 0 <= s k.
Hypothesis Hmono : forall k l, (k <= l)%nat -> (l < r)%nat -> s l <= s k.

Let A := @usv RR r U s V.
Let G := qmm m (qherm Qm) U.                                  (* p x r *)
Let cw (k : nat) : R := @sumR RR p (fun l => N (G l k)).      (* ||Q^H u_k||^2 *)

(* Q^H A = G diag(s) V^H, so ||Q^H A||^2 = sum_k s_k^2 c_k *)
Lemma frob2_QhA : frob2 p n (qmm m (qherm Qm) A) = @sumR RR r (fun k => (s k * s k) * cw k).
Proof.
  assert (E : meq p n (qmm m (qherm Qm) A) (qmm r (qmm r G (@rdiag RR s)) (qherm V))).
  { unfold A, usv, G.
    rewrite <- (qmm_assoc RR p m r n (qherm Qm) (qmm r U (@rdiag RR s)) (qherm V)).
    rewrite <- (qmm_assoc RR p m r r (qherm Qm) U (@rdiag RR s)). reflexivity. }
  rewrite (frob2_meq RR p n _ _ E).
  (* drop V *)
  rewrite <- (frob2_herm RR p n (qmm r (qmm r G (@rdiag RR s)) (qherm V))).
  rewrite (frob2_meq RR n p _ _ (qherm_mm_meq RR p r n (qmm r G (@rdiag RR s)) (qherm V))).
  assert (E2 : meq n p (qmm r (qherm (qherm V)) (qherm (qmm r G (@rdiag RR s)))) (qmm r V (qherm (qmm r G (@rdiag RR s))))).
  { rewrite (qherm_herm RR n r V). reflexivity. }
  rewrite (frob2_meq RR n p _ _ E2).
  rewrite (frob2_unitary_left RR n r p V _ HV).
  rewrite (frob2_herm RR p r (qmm r G (@rdiag RR s))).
  unfold rdiag. rewrite (frob2_meq RR p r _ _ (qmm_diag_r RR p r (fun l => @qreal RR (s l)) G)).
  unfold frob2. rewrite (sumR_swap RR). apply (sumR_ext RR). intros k Hk.
  unfold cw. etransitivity; [|exact (sumR_mul_l RR p (s k * s k) (fun l => N (G l k)))]. apply (sumR_ext RR). intros l Hl.
  change (qnorm2 (qmul (G l k) (@qreal RR (s k)))) with (N (qmul (G l k) (@qreal RR (s k)))).
  rewrite N_mul. unfold N at 2, qnorm2, qreal. cbn [qw qx qy qz]. rr. ring.
Qed.

(* each weight is at most 1: ||Q^H u|| <= ||u|| = 1 *)
Lemma cw_le_1 k : (k < r)%nat -> 0 <= cw k <= 1.
Proof.
  intros Hk. split.
  - unfold cw. apply sumRR_nonneg. intros. apply N_nonneg.
  - pose (uk := (fun i (_ : nat) => U i k) : qmatR).
    pose proof (projection_pythagoras RR m p 1 uk Qm HQ) as P. cbv zeta in P.
    assert (F1 : frob2 m 1 uk = 1).
    { rewrite (frob2_gram RR). unfold retr. cbn [sumR]. rr.
      assert (E : qmm m (qherm uk) uk 0%nat 0%nat = qmm m (qherm U) U k k) by reflexivity.
      rewrite E, (HU k k Hk Hk). unfold qmid. rewrite Nat.eqb_refl. unfold qre, qone. cbn [qw]. rr. ring. }
    assert (F2 : frob2 p 1 (qmm m (qherm Qm) uk) = cw k).
    { unfold frob2, cw. apply (sumR_ext RR). intros l Hl. cbn [sumR]. rr. unfold N, G.
      assert (E : qmm m (qherm Qm) uk l 0%nat = qmm m (qherm Qm) U l k) by reflexivity. rewrite E. ring. }
    pose proof (frob2_nonneg m 1 (qmsub uk (qmm p Qm (qmm m (qherm Qm) uk)))) as P0.
    rewrite F1, F2 in P. rr in P. lra.
Qed.

(* the total weight is at most p: ||U^H Q||_F <= ||Q||_F = sqrt p *)
Lemma cw_total : @sumR RR r cw <= @sumR RR p (fun _ => 1).
Proof.
  pose proof (projection_pythagoras RR m r p Qm U HU) as P. cbv zeta in P.
  assert (F1 : frob2 m p Qm = @sumR RR p (fun _ => 1)).
  { rewrite (frob2_gram RR). unfold retr. apply (sumR_ext RR). intros j Hj.
    rewrite (HQ j j Hj Hj). unfold qmid. rewrite Nat.eqb_refl. reflexivity. }
  assert (F2 : frob2 r p (qmm m (qherm U) Qm) = @sumR RR r cw).
  { rewrite <- (frob2_herm RR r p (qmm m (qherm U) Qm)).
    rewrite (frob2_meq RR p r _ _ (qherm_mm_meq RR r m p (qherm U) Qm)).
    assert (E : meq p r (qmm m (qherm Qm) (qherm (qherm U))) G).
    { unfold G. rewrite (qherm_herm RR m r U). reflexivity. }
    rewrite (frob2_meq RR p r _ _ E). unfold frob2, cw. rewrite (sumR_swap RR). reflexivity. }
  pose proof (frob2_nonneg m p (qmsub Qm (qmm r U (qmm m (qherm U) Qm)))) as P0.
  rewrite F1, F2 in P. rr in P. lra.
Qed.

Theorem eckart_young_optimal :
  @sumR RR r (fun k => @tailv RR p s k * @tailv RR p s k) <= frob2 m n (qmsub A (qmm p Qm W)).
Proof.
  rewrite (range_best_approximation RR m p n A Qm W HQ). rr.
  pose proof (frob2_nonneg p n (qmsub (qmm m (qherm Qm) A) W)) as P1.
  pose proof (projection_pythagoras RR m p n A Qm HQ) as P. cbv zeta in P. rr in P.
  assert (FA : frob2 m n A = @sumR RR r (fun k => s k * s k)) by (apply (frob2_usv RR); assumption).
  rewrite FA, frob2_QhA in P.
  assert (B : @sumR RR r (fun k => (s k * s k) * cw k) <= @sumR RR p (fun k => s k * s k)).
  { apply bathtub; [exact HR|exact cw_le_1|exact cw_total| |].
    - intros k l Hkl Hl. assert (s l <= s k) by (apply Hmono; assumption).
      assert (0 <= s l) by (apply Hs0; assumption). nra.
    - intros k Hk. nra. }
  assert (T : @sumR RR r (fun k => @tailv RR p s k * @tailv RR p s k) = @sumR RR r (fun k => s k * s k) - @sumR RR p (fun k => s k * s k)).
  { replace r with (p + (r - p))%nat by lia. rewrite !(sumR_app RR). rr.
    rewrite (sumR_ext RR p (fun k => @tailv RR p s k * @tailv RR p s k) (fun _ => 0)).
    - rewrite (sumR_zero RR). rr.
      rewrite (sumR_ext RR (r - p) (fun k => @tailv RR p s (p + k) * @tailv RR p s (p + k)) (fun k => s (p + k)%nat * s (p + k)%nat)); [lra|].
      intros k Hk. unfold tailv. destruct (Nat.ltb_spec (p + k) p); [lia|reflexivity].
    - intros k Hk. unfold tailv. destruct (Nat.ltb_spec k p); [rr; ring|lia]. }
  rewrite T. lra.
Qed.
End Opt.
