(* C10 / C08: what the diagonal of T says about the eigenvalues of A.  For Q unitary and Q^H A Q = B (B = T + D in the Schur theorems, B the
   returned tridiagonal / diagonal form for C08): A Q = Q B, so column i of Q is an approximate right eigenvector for the diagonal entry
   b_ii, with residual EXACTLY the rest of column i of B:   ||A q_i - q_i b_ii||^2 = sum_{k <> i} |b_ki|^2.
   In particular, when B is diagonal (converged Hermitian case, D = 0) every column of Q is an exact eigenvector. *)
From Coq Require Import Arith Lia Bool Setoid Morphisms Ring.
From QV Require Import CRing Sums Quat Mat QMat.

Section ER.
Variable C : CRing.
Add Ring Cr16 : (cr_th C).
Notation qmat := (qmat C).
Variables (n : nat) (A Q B : qmat).
Hypothesis QhQ : meq n n (qmm n (qherm Q) Q) qmid.
Hypothesis QQh : meq n n (qmm n Q (qherm Q)) qmid.
Hypothesis sim : meq n n (qmm n (qmm n (qherm Q) A) Q) B.

Lemma AQ_is_QB : meq n n (qmm n A Q) (qmm n Q B).
Proof.
  rewrite <- sim. rewrite (qmm_assoc C n n n n (qherm Q) A Q).
  rewrite <- (qmm_assoc C n n n n Q (qherm Q) (qmm n A Q)), QQh. symmetry. apply (qmm_id_l C n n).
Qed.

Theorem eigen_residual_is_offdiagonal_column i : i < n ->
  frob2 n 1 (fun l _ => qsub (qmm n A Q l i) (qmul (Q l i) (B i i)))
  = sumR n (fun k => if Nat.eqb k i then c0 else qnorm2 (B k i)).
Proof.
  intros Hi.
  pose (c := (fun k (_ : nat) => if Nat.eqb k i then qzero else B k i) : qmat).
  assert (E : meq n 1 (fun l _ => qsub (qmm n A Q l i) (qmul (Q l i) (B i i))) (qmm n Q c)).
  { intros l j Hl Hj. rewrite (AQ_is_QB l i Hl Hi). unfold qmm, c.
    rewrite <- (sumQ_delta_r C n (fun k => Q l k) (fun k => B k i) i Hi).
    rewrite <- (sumQ_sub C). apply (sumQ_ext C). intros k Hk.
    destruct (Nat.eqb k i); qr. }
  rewrite (frob2_meq C n 1 _ _ E), (frob2_unitary_left C n n 1 Q c QhQ).
  unfold frob2, c. apply (sumR_ext C). intros k Hk. cbn [sumR].
  destruct (Nat.eqb k i); unfold qnorm2, qzero; cbn [qw qx qy qz]; ring.
Qed.

(* B diagonal: every column of Q is an exact eigenvector, A q_i = q_i b_ii *)
Corollary diagonal_form_gives_eigenvectors : (forall k i, k < n -> i < n -> k <> i -> B k i = qzero) ->
  forall l i, l < n -> i < n -> qmm n A Q l i = qmul (Q l i) (B i i).
Proof.
  intros HD l i Hl Hi. rewrite (AQ_is_QB l i Hl Hi). unfold qmm.
  rewrite (sumQ_ext C n _ (fun k => qmul (Q l k) (if Nat.eqb k i then B k i else qzero))).
  - exact (sumQ_delta_r C n (fun k => Q l k) (fun k => B k i) i Hi).
  - intros k Hk. destruct (Nat.eqb_spec k i) as [->|NE]; [reflexivity|]. now rewrite (HD k i Hk Hi NE).
Qed.
End ER.
