(* C08: the eigenvalues of a Hermitian quaternion matrix are determined by the matrix.  If A = V diag(lam) V^H = V' diag(lam') V'^H with V, V' unitary
   and both real vectors non-increasing, then lam = lam'.  (Shift by c I to make all values non-negative and use the uniqueness of singular values.) *)
From Coq Require Import Reals Lra Psatz Arith Lia.
From QV Require Import CRing CRingR Sums Quat Mat QMat.
From QVT Require Import CauchySchwarz Norms EckartYoung SVUnique.
Local Open Scope R_scope.
Add Ring RRe : (cr_th RR).

Lemma usv_shift n (V : qmat RR) (a : nat -> R) (c : R) : meq n n (qmm n V (qherm V)) qmid ->
  meq n n (@usv RR n V (fun k => a k + c) V) (qmadd (@usv RR n V a V) (fun i j => qmul (@qreal RR c) (qmid i j))).
Proof.
  intros HV i j Hi Hj. unfold qmadd. rewrite !(usv_entry RR). rewrite <- (HV i j Hi Hj). unfold qmm, qherm.
  rewrite (sumQ_mul_l RR), <- (sumQ_add RR). apply (sumQ_ext RR). intros k Hk.
  apply qeq; qcomp; first [ring | rr; ring | rr; nra].
Qed.

Theorem eigenvalues_unique n (V V' : qmat RR) (lam lam' : nat -> R) :
  meq n n (qmm n (qherm V) V) qmid -> meq n n (qmm n V (qherm V)) qmid ->
  meq n n (qmm n (qherm V') V') qmid -> meq n n (qmm n V' (qherm V')) qmid ->
  (forall k l, (k <= l)%nat -> (l < n)%nat -> lam l <= lam k) -> (forall k l, (k <= l)%nat -> (l < n)%nat -> lam' l <= lam' k) ->
  meq n n (@usv RR n V lam V) (@usv RR n V' lam' V') -> forall k, (k < n)%nat -> lam k = lam' k.
Proof.
  intros H1 H2 H1' H2' Hm Hm' E k Hk.
  destruct n as [|n]; [lia|].
  set (c := Rabs (lam n) + Rabs (lam' n)).
  assert (P : forall j, (j < S n)%nat -> 0 <= lam j + c).
  { intros j Hj. assert (lam n <= lam j) by (apply Hm; lia). unfold c. pose proof (Rabs_pos (lam' n)). pose proof (Rle_abs (- lam n)). rewrite Rabs_Ropp in *. lra. }
  assert (P' : forall j, (j < S n)%nat -> 0 <= lam' j + c).
  { intros j Hj. assert (lam' n <= lam' j) by (apply Hm'; lia). unfold c. pose proof (Rabs_pos (lam n)). pose proof (Rle_abs (- lam' n)). rewrite Rabs_Ropp in *. lra. }
  assert (E2 : meq (S n) (S n) (@usv RR (S n) V (fun j => lam j + c) V) (@usv RR (S n) V' (fun j => lam' j + c) V')).
  { rewrite (usv_shift (S n) V lam c H2), (usv_shift (S n) V' lam' c H2'), E. reflexivity. }
  pose proof (singular_values_unique (S n) (S n) (S n) V V V' V' (fun j => lam j + c) (fun j => lam' j + c) H1 H1 H1' H1' P
               (fun a b Hab Hb => Rplus_le_compat_r c _ _ (Hm a b Hab Hb)) P' (fun a b Hab Hb => Rplus_le_compat_r c _ _ (Hm' a b Hab Hb)) E2 k Hk) as Q.
  cbv beta in Q. lra.
Qed.
