(* The real (interleaved and component-blocked) and complex-adjoint embeddings of quaternion
   matrices: specifications and their algebraic laws, over any commutative component ring. *)
From Coq Require Import Arith Lia Ring Bool List.
From QV Require Import CRing Sums Quat Mat NumpySem.
Import ListNotations.
Local Open Scope cr_scope.

Section Embed.
Variable C : CRing.
Add Ring Cr : (cr_th C).
Notation quat := (quat C).
Notation qmat := (qmat C).
Notation rmat := (rmat C).

(* ---------------------------------------------------------------- the 4x4 block of one quaternion *)
Definition blk (q : quat) (a b : nat) : C :=
  match a, b with
  | 0, 0 => qw q | 0, 1 => - qx q | 0, 2 => - qy q | 0, 3 => - qz q
  | 1, 0 => qx q | 1, 1 => qw q | 1, 2 => - qz q | 1, 3 => qy q
  | 2, 0 => qy q | 2, 1 => qz q | 2, 2 => qw q | 2, 3 => - qx q
  | 3, 0 => qz q | 3, 1 => - qy q | 3, 2 => qx q | 3, 3 => qw q
  | _, _ => c0 end.

(* interleaved layout: entry (4i+a, 4j+b) is blk (A i j) a b *)
Definition rexp (A : qmat) : rmat := fun I J => blk (A (I / 4)%nat (J / 4)%nat) (I mod 4)%nat (J mod 4)%nat.
Definition rcontract (R : rmat) : qmat :=
  fun i j => mkQ (R (4*i)%nat (4*j)%nat) (R (4*i+1)%nat (4*j)%nat) (R (4*i+2)%nat (4*j)%nat) (R (4*i+3)%nat (4*j)%nat).

Lemma rexp_at A i j a b : (a < 4)%nat -> (b < 4)%nat -> rexp A (4*i+a)%nat (4*j+b)%nat = blk (A i j) a b.
Proof. intros Ha Hb. unfold rexp.
  destruct (divmod4 i a Ha) as [-> ->]. destruct (divmod4 j b Hb) as [-> ->]. reflexivity. Qed.

Lemma rexp_at' A I J i j a b : I = (4*i+a)%nat -> J = (4*j+b)%nat -> (a < 4)%nat -> (b < 4)%nat ->
  rexp A I J = blk (A i j) a b.
Proof. intros -> ->. apply rexp_at. Qed.

Theorem rcontract_rexp A i j : rcontract (rexp A) i j = A i j.
Proof. unfold rcontract.
  pose proof (rexp_at A i j 0 0 ltac:(lia) ltac:(lia)) as H0. pose proof (rexp_at A i j 1 0 ltac:(lia) ltac:(lia)) as H1.
  pose proof (rexp_at A i j 2 0 ltac:(lia) ltac:(lia)) as H2. pose proof (rexp_at A i j 3 0 ltac:(lia) ltac:(lia)) as H3.
  rewrite !Nat.add_0_r in *. rewrite H0, H1, H2, H3. cbn [blk]. destruct (A i j); reflexivity. Qed.

Theorem rexp_injective A B : (forall I J, rexp A I J = rexp B I J) -> forall i j, A i j = B i j.
Proof. intros H i j. rewrite <- (rcontract_rexp A), <- (rcontract_rexp B). unfold rcontract. now rewrite !H. Qed.

Lemma blk_add p q a b : blk (qadd p q) a b = blk p a b + blk q a b.
Proof. destruct a as [|[|[|[|?]]]]; destruct b as [|[|[|[|?]]]]; cbn [blk qadd qw qx qy qz]; ring. Qed.
Lemma blk_scale c p a b : blk (qscale c p) a b = c * blk p a b.
Proof. destruct a as [|[|[|[|?]]]]; destruct b as [|[|[|[|?]]]]; cbn [blk qscale qw qx qy qz]; ring. Qed.
Lemma blk_conj p a b : blk (qconj p) a b = blk p b a.
Proof. destruct a as [|[|[|[|?]]]]; destruct b as [|[|[|[|?]]]]; cbn [blk qconj qw qx qy qz]; ring. Qed.

Theorem rexp_additive A B I J : rexp (qmadd A B) I J = rexp A I J + rexp B I J.
Proof. unfold rexp, qmadd. apply blk_add. Qed.
Theorem rexp_homogeneous c A I J : rexp (qmscale c A) I J = c * rexp A I J.
Proof. unfold rexp, qmscale. apply blk_scale. Qed.
Theorem rexp_herm A I J : rexp (qherm A) I J = rexp A J I.
Proof. unfold rexp, qherm. apply blk_conj. Qed.

Lemma blk_mul_sum k (f g : nat -> quat) a b : (a < 4)%nat -> (b < 4)%nat ->
  blk (sumQ k (fun l => qmul (f l) (g l))) a b
  = sumR k (fun l => blk (f l) a 0 * blk (g l) 0 b + blk (f l) a 1 * blk (g l) 1 b
                   + blk (f l) a 2 * blk (g l) 2 b + blk (f l) a 3 * blk (g l) 3 b).
Proof.
  intros Ha Hb.
  destruct a as [|[|[|[|?]]]]; try lia; destruct b as [|[|[|[|?]]]]; try lia;
  cbn [blk]; sumQ_comp; rewrite <- ?sumR_opp; apply sumR_ext; intros; cbn [qmul qw qx qy qz]; ring.
Qed.

Theorem rexp_multiplicative k A B I J :
  rmm (4*k) (rexp A) (rexp B) I J = rexp (qmm k A B) I J.
Proof.
  unfold rmm. rewrite sumR_4.
  destruct (divmod_eq4 I) as [HI Ha]. destruct (divmod_eq4 J) as [HJ Hb].
  set (i := (I / 4)%nat) in *. set (a := (I mod 4)%nat) in *.
  set (j := (J / 4)%nat) in *. set (b := (J mod 4)%nat) in *.
  rewrite HI, HJ. rewrite (rexp_at (qmm k A B) i j a b Ha Hb).
  unfold qmm. rewrite (blk_mul_sum k (fun l => A i l) (fun l => B l j) a b Ha Hb).
  apply sumR_ext. intros l _.
  replace (4*l)%nat with (4*l+0)%nat at 1 2 by lia.
  rewrite !rexp_at by lia. reflexivity.
Qed.

Lemma blk_frob p : blk p 0 0 * blk p 0 0 + blk p 0 1 * blk p 0 1 + blk p 0 2 * blk p 0 2 + blk p 0 3 * blk p 0 3 = qnorm2 p.
Proof. cbn [blk]. unfold qnorm2. ring. Qed.
Lemma blk_row_norm p a : (a < 4)%nat ->
  blk p a 0 * blk p a 0 + blk p a 1 * blk p a 1 + blk p a 2 * blk p a 2 + blk p a 3 * blk p a 3 = qnorm2 p.
Proof. intros H. destruct a as [|[|[|[|?]]]]; try lia; cbn [blk]; unfold qnorm2; ring. Qed.

(* ||rexp A||_F^2 = 4 ||A||_F^2 *)
Theorem rexp_frob2 m n A : rfrob2 (4*m) (4*n) (rexp A) = (c1 + c1 + c1 + c1) * frob2 m n A.
Proof.
  unfold rfrob2, frob2. rewrite sumR_4z.
  rewrite <- sumR_mul_l. apply sumR_ext. intros i _.
  rewrite !sumR_4z. rewrite <- !sumR_add. rewrite <- sumR_mul_l. apply sumR_ext. intros j _.
  rewrite !rexp_at by lia. cbn [blk]. unfold qnorm2. ring.
Qed.

(* ---------------------------------------------------------------- component-blocked layout (Realp) *)
Definition is_blocked (m n : nat) (R : rmat) (A : qmat) : Prop :=
  forall a b i j, (a < 4)%nat -> (b < 4)%nat -> (i < m)%nat -> (j < n)%nat ->
    R (a*m+i)%nat (b*n+j)%nat = blk (A i j) a b.

Theorem blocked_injective m n R A B : is_blocked m n R A -> is_blocked m n R B ->
  forall i j, (i < m)%nat -> (j < n)%nat -> A i j = B i j.
Proof. intros HA HB i j Hi Hj.
  pose proof (HA 0 0 i j ltac:(lia) ltac:(lia) Hi Hj) as a0. pose proof (HB 0 0 i j ltac:(lia) ltac:(lia) Hi Hj) as b0.
  pose proof (HA 1 0 i j ltac:(lia) ltac:(lia) Hi Hj) as a1. pose proof (HB 1 0 i j ltac:(lia) ltac:(lia) Hi Hj) as b1.
  pose proof (HA 2 0 i j ltac:(lia) ltac:(lia) Hi Hj) as a2. pose proof (HB 2 0 i j ltac:(lia) ltac:(lia) Hi Hj) as b2.
  pose proof (HA 3 0 i j ltac:(lia) ltac:(lia) Hi Hj) as a3. pose proof (HB 3 0 i j ltac:(lia) ltac:(lia) Hi Hj) as b3.
  cbn [blk] in *. apply qeq; congruence. Qed.
Theorem blocked_additive m n RA RB A B : is_blocked m n RA A -> is_blocked m n RB B ->
  is_blocked m n (rmadd RA RB) (qmadd A B).
Proof. intros HA HB a b i j Ha Hb Hi Hj. unfold rmadd, qmadd. rewrite HA, HB by assumption. symmetry. apply blk_add. Qed.
Theorem blocked_homogeneous m n c R A : is_blocked m n R A -> is_blocked m n (rmscale c R) (qmscale c A).
Proof. intros HA a b i j Ha Hb Hi Hj. unfold rmscale, qmscale. rewrite HA by assumption. symmetry. apply blk_scale. Qed.
Theorem blocked_herm m n R A : is_blocked m n R A -> is_blocked n m (rmT R) (qherm A).
Proof. intros HA a b i j Ha Hb Hi Hj. unfold rmT, qherm. rewrite HA by assumption. symmetry. apply blk_conj. Qed.
Theorem blocked_multiplicative m k n RA RB A B : is_blocked m k RA A -> is_blocked k n RB B ->
  is_blocked m n (rmm (4*k) RA RB) (qmm k A B).
Proof.
  intros HA HB a c i j Ha Hc Hi Hj. unfold rmm. rewrite sumR_4blocksz.
  unfold qmm. rewrite (blk_mul_sum k (fun l => A i l) (fun l => B l j) a c Ha Hc).
  apply sumR_ext. intros l Hl.
  rewrite !HA, !HB by (assumption || lia). reflexivity.
Qed.
Theorem blocked_frob2 m n R A : is_blocked m n R A ->
  rfrob2 (4*m) (4*n) R = (c1 + c1 + c1 + c1) * frob2 m n A.
Proof.
  intros HA. unfold rfrob2, frob2. rewrite sumR_4blocksz.
  rewrite <- sumR_mul_l. apply sumR_ext. intros i Hi.
  rewrite !sumR_4blocksz. rewrite <- !sumR_add. rewrite <- sumR_mul_l. apply sumR_ext. intros j Hj.
  rewrite !HA by (assumption || lia). cbn [blk]. unfold qnorm2. ring.
Qed.

(* the interleaved layout is the blocked one up to the perfect shuffle of rows and columns *)
Theorem layouts_conjugate m n R A : is_blocked m n R A ->
  forall a b i j, (a < 4)%nat -> (b < 4)%nat -> (i < m)%nat -> (j < n)%nat ->
    rexp A (4*i+a)%nat (4*j+b)%nat = R (a*m+i)%nat (b*n+j)%nat.
Proof. intros HA a b i j Ha Hb Hi Hj. rewrite rexp_at, HA by assumption. reflexivity. Qed.

(* ---------------------------------------------------------------- complex adjoint [[C, D], [-conj D, conj C]] *)
Definition cblk_re (q : quat) (a b : nat) : C :=
  match a, b with 0, 0 => qw q | 0, 1 => qy q | 1, 0 => - qy q | 1, 1 => qw q | _, _ => c0 end.
Definition cblk_im (q : quat) (a b : nat) : C :=
  match a, b with 0, 0 => qx q | 0, 1 => qz q | 1, 0 => qz q | 1, 1 => - qx q | _, _ => c0 end.
Definition is_adjoint (m n : nat) (Mre Mim : rmat) (A : qmat) : Prop :=
  forall a b i j, (a < 2)%nat -> (b < 2)%nat -> (i < m)%nat -> (j < n)%nat ->
    Mre (a*m+i)%nat (b*n+j)%nat = cblk_re (A i j) a b /\ Mim (a*m+i)%nat (b*n+j)%nat = cblk_im (A i j) a b.
(* complex matrix product on (re, im) pairs *)
Definition cmm_re (k : nat) (Are Aim Bre Bim : rmat) : rmat := rmsub (rmm k Are Bre) (rmm k Aim Bim).
Definition cmm_im (k : nat) (Are Aim Bre Bim : rmat) : rmat := rmadd (rmm k Are Bim) (rmm k Aim Bre).

Theorem adjoint_injective m n Mre Mim A B : is_adjoint m n Mre Mim A -> is_adjoint m n Mre Mim B ->
  forall i j, (i < m)%nat -> (j < n)%nat -> A i j = B i j.
Proof. intros HA HB i j Hi Hj.
  destruct (HA 0 0 i j ltac:(lia) ltac:(lia) Hi Hj) as [a0 a1]. destruct (HB 0 0 i j ltac:(lia) ltac:(lia) Hi Hj) as [b0 b1].
  destruct (HA 0 1 i j ltac:(lia) ltac:(lia) Hi Hj) as [a2 a3]. destruct (HB 0 1 i j ltac:(lia) ltac:(lia) Hi Hj) as [b2 b3].
  cbn [cblk_re cblk_im] in *. apply qeq; congruence. Qed.
Lemma cblk_add_re p q a b : cblk_re (qadd p q) a b = cblk_re p a b + cblk_re q a b.
Proof. destruct a as [|[|?]]; destruct b as [|[|?]]; cbn [cblk_re qadd qw qx qy qz]; ring. Qed.
Lemma cblk_add_im p q a b : cblk_im (qadd p q) a b = cblk_im p a b + cblk_im q a b.
Proof. destruct a as [|[|?]]; destruct b as [|[|?]]; cbn [cblk_im qadd qw qx qy qz]; ring. Qed.
Theorem adjoint_additive m n Are Aim Bre Bim A B : is_adjoint m n Are Aim A -> is_adjoint m n Bre Bim B ->
  is_adjoint m n (rmadd Are Bre) (rmadd Aim Bim) (qmadd A B).
Proof. intros HA HB a b i j Ha Hb Hi Hj. unfold rmadd, qmadd.
  destruct (HA a b i j Ha Hb Hi Hj) as [-> ->]. destruct (HB a b i j Ha Hb Hi Hj) as [-> ->].
  split; symmetry; [apply cblk_add_re|apply cblk_add_im]. Qed.
Theorem adjoint_homogeneous m n c Are Aim A : is_adjoint m n Are Aim A ->
  is_adjoint m n (rmscale c Are) (rmscale c Aim) (qmscale c A).
Proof. intros HA a b i j Ha Hb Hi Hj. unfold rmscale, qmscale.
  destruct (HA a b i j Ha Hb Hi Hj) as [-> ->].
  destruct a as [|[|?]]; try lia; destruct b as [|[|?]]; try lia; cbn [cblk_re cblk_im qscale qw qx qy qz]; split; ring. Qed.
(* conjugate transpose of the adjoint = adjoint of the conjugate transpose *)
Theorem adjoint_herm m n Are Aim A : is_adjoint m n Are Aim A ->
  is_adjoint n m (rmT Are) (rmopp (rmT Aim)) (qherm A).
Proof. intros HA a b i j Ha Hb Hi Hj. unfold rmT, rmopp, qherm.
  destruct (HA b a j i Hb Ha Hj Hi) as [-> ->].
  destruct a as [|[|?]]; try lia; destruct b as [|[|?]]; try lia; cbn [cblk_re cblk_im qconj qw qx qy qz]; split; ring. Qed.

Lemma cblk_mul_sum_re k (f g : nat -> quat) a b : (a < 2)%nat -> (b < 2)%nat ->
  cblk_re (sumQ k (fun l => qmul (f l) (g l))) a b
  = sumR k (fun l => (cblk_re (f l) a 0 * cblk_re (g l) 0 b + cblk_re (f l) a 1 * cblk_re (g l) 1 b)
                   - (cblk_im (f l) a 0 * cblk_im (g l) 0 b + cblk_im (f l) a 1 * cblk_im (g l) 1 b)).
Proof. intros Ha Hb.
  destruct a as [|[|?]]; try lia; destruct b as [|[|?]]; try lia;
  cbn [cblk_re cblk_im]; sumQ_comp; rewrite <- ?sumR_opp; apply sumR_ext; intros; cbn [qmul qw qx qy qz]; ring. Qed.
Lemma cblk_mul_sum_im k (f g : nat -> quat) a b : (a < 2)%nat -> (b < 2)%nat ->
  cblk_im (sumQ k (fun l => qmul (f l) (g l))) a b
  = sumR k (fun l => (cblk_re (f l) a 0 * cblk_im (g l) 0 b + cblk_re (f l) a 1 * cblk_im (g l) 1 b)
                   + (cblk_im (f l) a 0 * cblk_re (g l) 0 b + cblk_im (f l) a 1 * cblk_re (g l) 1 b)).
Proof. intros Ha Hb.
  destruct a as [|[|?]]; try lia; destruct b as [|[|?]]; try lia;
  cbn [cblk_re cblk_im]; sumQ_comp; rewrite <- ?sumR_opp; apply sumR_ext; intros; cbn [qmul qw qx qy qz]; ring. Qed.

Theorem adjoint_multiplicative m k n Are Aim Bre Bim A B :
  is_adjoint m k Are Aim A -> is_adjoint k n Bre Bim B ->
  is_adjoint m n (cmm_re (2*k) Are Aim Bre Bim) (cmm_im (2*k) Are Aim Bre Bim) (qmm k A B).
Proof.
  intros HA HB a c i j Ha Hc Hi Hj. unfold cmm_re, cmm_im, rmsub, rmadd, rmm. rewrite !sumR_2blocksz.
  unfold qmm.
  rewrite (cblk_mul_sum_re k (fun l => A i l) (fun l => B l j) a c Ha Hc).
  rewrite (cblk_mul_sum_im k (fun l => A i l) (fun l => B l j) a c Ha Hc).
  rewrite <- sumR_sub, <- sumR_add.
  split; apply sumR_ext; intros l Hl.
  - destruct (HA a 0%nat i l Ha ltac:(lia) Hi Hl) as [-> ->]. destruct (HA a 1%nat i l Ha ltac:(lia) Hi Hl) as [-> ->].
    destruct (HB 0%nat c l j ltac:(lia) Hc Hl Hj) as [-> ->]. destruct (HB 1%nat c l j ltac:(lia) Hc Hl Hj) as [-> ->]. ring.
  - destruct (HA a 0%nat i l Ha ltac:(lia) Hi Hl) as [-> ->]. destruct (HA a 1%nat i l Ha ltac:(lia) Hi Hl) as [-> ->].
    destruct (HB 0%nat c l j ltac:(lia) Hc Hl Hj) as [-> ->]. destruct (HB 1%nat c l j ltac:(lia) Hc Hl Hj) as [-> ->]. ring.
Qed.
(* ||Adj(A)||_F^2 = 2 ||A||_F^2 *)
Theorem adjoint_frob2 m n Are Aim A : is_adjoint m n Are Aim A ->
  rfrob2 (2*m) (2*n) Are + rfrob2 (2*m) (2*n) Aim = (c1 + c1) * frob2 m n A.
Proof.
  intros HA. unfold rfrob2, frob2. rewrite !sumR_2blocksz.
  rewrite <- sumR_add, <- sumR_mul_l. apply sumR_ext. intros i Hi.
  rewrite !sumR_2blocksz. rewrite <- !sumR_add. rewrite <- sumR_mul_l. apply sumR_ext. intros j Hj.
  destruct (HA 0%nat 0%nat i j ltac:(lia) ltac:(lia) Hi Hj) as [-> ->]. destruct (HA 0%nat 1%nat i j ltac:(lia) ltac:(lia) Hi Hj) as [-> ->].
  destruct (HA 1%nat 0%nat i j ltac:(lia) ltac:(lia) Hi Hj) as [-> ->]. destruct (HA 1%nat 1%nat i j ltac:(lia) ltac:(lia) Hi Hj) as [-> ->].
  cbn [cblk_re cblk_im]. unfold qnorm2. ring.
Qed.
End Embed.

(* rewrite every  rexp A I J  whose indices are 4*i+a, 4*j+b (a, b < 4, found by lia) into blk (A i j) a b *)
Ltac rexp_norm C A i j := repeat match goal with
  | |- context [@rexp C A ?I ?J] =>
    first [ rewrite (rexp_at' C A I J i j 0 0) by lia | rewrite (rexp_at' C A I J i j 0 1) by lia
          | rewrite (rexp_at' C A I J i j 0 2) by lia | rewrite (rexp_at' C A I J i j 0 3) by lia
          | rewrite (rexp_at' C A I J i j 1 0) by lia | rewrite (rexp_at' C A I J i j 1 1) by lia
          | rewrite (rexp_at' C A I J i j 1 2) by lia | rewrite (rexp_at' C A I J i j 1 3) by lia
          | rewrite (rexp_at' C A I J i j 2 0) by lia | rewrite (rexp_at' C A I J i j 2 1) by lia
          | rewrite (rexp_at' C A I J i j 2 2) by lia | rewrite (rexp_at' C A I J i j 2 3) by lia
          | rewrite (rexp_at' C A I J i j 3 0) by lia | rewrite (rexp_at' C A I J i j 3 1) by lia
          | rewrite (rexp_at' C A I J i j 3 2) by lia | rewrite (rexp_at' C A I J i j 3 3) by lia ]
  end.
Arguments blk {C}. Arguments rexp {C}. Arguments rcontract {C}. Arguments is_blocked {C}. Arguments is_adjoint {C}.
Arguments cblk_re {C}. Arguments cblk_im {C}. Arguments cmm_re {C}. Arguments cmm_im {C}.
