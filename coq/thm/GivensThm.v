(* C16: the generated quaternion Givens rotation [[q1,q3],[q2,q4]] is unitary (both G^H G = I and
   G G^H = I) and maps the pair it was built from to (norm, 0); both ordering branches; over R. *)
From Coq Require Import Reals Lra Field Psatz.
From QV Require Import FOps FOpsR.
From QVM Require Import Givens.
Local Open Scope R_scope.

Notation fqR := (fq ROps).
Lemma fqeq (p q : fqR) : fw p = fw q -> fx p = fx q -> fy p = fy q -> fz p = fz q -> p = q.
Proof. destruct p, q; simpl; intros; subst; reflexivity. Qed.
Definition NR (p : fqR) : R := fw p * fw p + fx p * fx p + fy p * fy p + fz p * fz p.
Lemma fqn2_NR (p : fqR) : fqn2 p = NR p. Proof. reflexivity. Qed.

Section BranchA.
(* |q1| >= |q2| branch: q4 = |q1| (real), q3 = (q1 conj q2) / (-|q1|) *)
Variables (q1 q2 : fqR) (n1 : R).
Hypothesis Hunit : NR q1 + NR q2 = 1.
Hypothesis Hn : n1 * n1 = NR q1.
Hypothesis Hnpos : 0 < n1.
Definition q4A : fqR := @fqreal ROps n1.
Definition q3A : fqR := @fqdivr ROps (fqmul q1 (fqconj q2)) (- n1).

Lemma Hn2 : n1 ^ 2 = fw q1 ^ 2 + fx q1 ^ 2 + fy q1 ^ 2 + fz q1 ^ 2.
Proof. unfold NR in Hn. lra. Qed.
Ltac elim_sqrt := field_simplify_eq; [ rewrite ?Hn2; try ring | lra ].
Ltac comp := apply fqeq; ro; unfold q3A, q4A; ro.

(* G^H G = I *)
Lemma A_col1_unit : fqadd (fqmul (fqconj q1) q1) (fqmul (fqconj q2) q2) = fq1.
Proof. unfold NR in Hunit. comp; try ring. lra. Qed.
Lemma A_col12_orth : fqadd (fqmul (fqconj q1) q3A) (fqmul (fqconj q2) q4A) = fq0.
Proof. comp; elim_sqrt. Qed.
Lemma A_col21_orth : fqadd (fqmul (fqconj q3A) q1) (fqmul (fqconj q4A) q2) = fq0.
Proof. comp; elim_sqrt. Qed.
Lemma n4 : n1 ^ 4 = (fw q1 ^ 2 + fx q1 ^ 2 + fy q1 ^ 2 + fz q1 ^ 2) * (fw q1 ^ 2 + fx q1 ^ 2 + fy q1 ^ 2 + fz q1 ^ 2).
Proof. replace (n1 ^ 4) with ((n1 ^ 2) * (n1 ^ 2)) by ring. rewrite Hn2. ring. Qed.
Lemma A_col2_unit : fqadd (fqmul (fqconj q3A) q3A) (fqmul (fqconj q4A) q4A) = fq1.
Proof.
  comp; try elim_sqrt.
  field_simplify_eq; try lra.
  pose proof Hn2 as E2. pose proof Hunit as Eu. unfold NR in Eu. pose proof n4 as E4.
  set (a := fw q1 ^ 2 + fx q1 ^ 2 + fy q1 ^ 2 + fz q1 ^ 2) in *.
  set (b := fw q2 * fw q2 + fx q2 * fx q2 + fy q2 * fy q2 + fz q2 * fz q2) in *.
  assert (Ea : fw q1 * fw q1 + fx q1 * fx q1 + fy q1 * fy q1 + fz q1 * fz q1 = a) by (unfold a; ring).
  assert (Eab : a * b = a * (1 - a)) by (f_equal; lra).
  rewrite E4. unfold a, b in *. lra.
Qed.
(* G G^H = I *)
Lemma A_row1_unit : fqadd (fqmul q1 (fqconj q1)) (fqmul q3A (fqconj q3A)) = fq1.
Proof.
  comp; try elim_sqrt.
  field_simplify_eq; try lra.
  pose proof Hunit as Eu. unfold NR in Eu.
  assert (E : (fw q1 * fw q1 + fx q1 * fx q1 + fy q1 * fy q1 + fz q1 * fz q1) *
              ((fw q1 * fw q1 + fx q1 * fx q1 + fy q1 * fy q1 + fz q1 * fz q1 + (fw q2 * fw q2 + fx q2 * fx q2 + fy q2 * fy q2 + fz q2 * fz q2)) - 1) = 0)
    by (rewrite Eu; ring).
  lra.
Qed.
Lemma A_row12_orth : fqadd (fqmul q1 (fqconj q2)) (fqmul q3A (fqconj q4A)) = fq0.
Proof. comp; elim_sqrt. Qed.
Lemma A_row2_unit : fqadd (fqmul q2 (fqconj q2)) (fqmul q4A (fqconj q4A)) = fq1.
Proof. unfold NR in Hunit, Hn. comp; try ring. lra. Qed.
(* G^H [t q1; t q2] = [t; 0] *)
Lemma A_maps_first t : fqadd (fqmul (fqconj q1) (@fqscale ROps t q1)) (fqmul (fqconj q2) (@fqscale ROps t q2)) = @fqreal ROps t.
Proof. pose proof Hunit as H. unfold NR in H. comp; try ring.
  assert (E : t * ((fw q1 * fw q1 + fx q1 * fx q1 + fy q1 * fy q1 + fz q1 * fz q1 + (fw q2 * fw q2 + fx q2 * fx q2 + fy q2 * fy q2 + fz q2 * fz q2)) - 1) = 0) by (rewrite H; ring).
  lra. Qed.
Lemma A_maps_second t : fqadd (fqmul (fqconj q3A) (@fqscale ROps t q1)) (fqmul (fqconj q4A) (@fqscale ROps t q2)) = fq0.
Proof. comp; elim_sqrt. Qed.
End BranchA.

Section BranchB.
(* |q1| < |q2| branch: q3 = |q2| (real), q4 = (q2 conj q1) / (-|q2|) *)
Variables (q1 q2 : fqR) (n2 : R).
Hypothesis Hunit : NR q1 + NR q2 = 1.
Hypothesis Hn : n2 * n2 = NR q2.
Hypothesis Hnpos : 0 < n2.
Definition q3B : fqR := @fqreal ROps n2.
Definition q4B : fqR := @fqdivr ROps (fqmul q2 (fqconj q1)) (- n2).
Lemma HnB2 : n2 ^ 2 = fw q2 ^ 2 + fx q2 ^ 2 + fy q2 ^ 2 + fz q2 ^ 2.
Proof. unfold NR in Hn. lra. Qed.
Ltac elim_sqrt := field_simplify_eq; [ rewrite ?HnB2; try ring | lra ].
Ltac comp := apply fqeq; ro; unfold q3B, q4B; ro.
Lemma B_col1_unit : fqadd (fqmul (fqconj q1) q1) (fqmul (fqconj q2) q2) = fq1.
Proof. unfold NR in Hunit. comp; try ring. lra. Qed.
Lemma B_col12_orth : fqadd (fqmul (fqconj q1) q3B) (fqmul (fqconj q2) q4B) = fq0.
Proof. comp; elim_sqrt. Qed.
Lemma B_col21_orth : fqadd (fqmul (fqconj q3B) q1) (fqmul (fqconj q4B) q2) = fq0.
Proof. comp; elim_sqrt. Qed.
Ltac unit_w := field_simplify_eq; try lra;
  pose proof Hunit as Eu; unfold NR in Eu;
  assert (E : (fw q2 * fw q2 + fx q2 * fx q2 + fy q2 * fy q2 + fz q2 * fz q2) *
              ((fw q1 * fw q1 + fx q1 * fx q1 + fy q1 * fy q1 + fz q1 * fz q1 + (fw q2 * fw q2 + fx q2 * fx q2 + fy q2 * fy q2 + fz q2 * fz q2)) - 1) = 0)
    by (rewrite Eu; ring);
  assert (E4 : n2 ^ 4 = (fw q2 ^ 2 + fx q2 ^ 2 + fy q2 ^ 2 + fz q2 ^ 2) * (fw q2 ^ 2 + fx q2 ^ 2 + fy q2 ^ 2 + fz q2 ^ 2))
    by (replace (n2 ^ 4) with ((n2 ^ 2) * (n2 ^ 2)) by ring; rewrite HnB2; ring);
  rewrite ?E4, ?HnB2; lra.
Lemma B_col2_unit : fqadd (fqmul (fqconj q3B) q3B) (fqmul (fqconj q4B) q4B) = fq1.
Proof. comp; try elim_sqrt. unit_w. Qed.
Lemma B_row1_unit : fqadd (fqmul q1 (fqconj q1)) (fqmul q3B (fqconj q3B)) = fq1.
Proof. unfold NR in Hunit, Hn. comp; try ring. lra. Qed.
Lemma B_row12_orth : fqadd (fqmul q1 (fqconj q2)) (fqmul q3B (fqconj q4B)) = fq0.
Proof. comp; elim_sqrt. Qed.
Lemma B_row2_unit : fqadd (fqmul q2 (fqconj q2)) (fqmul q4B (fqconj q4B)) = fq1.
Proof. comp; try elim_sqrt. unit_w. Qed.
Lemma B_maps_first t : fqadd (fqmul (fqconj q1) (@fqscale ROps t q1)) (fqmul (fqconj q2) (@fqscale ROps t q2)) = @fqreal ROps t.
Proof. pose proof Hunit as H. unfold NR in H. comp; try ring.
  assert (E : t * ((fw q1 * fw q1 + fx q1 * fx q1 + fy q1 * fy q1 + fz q1 * fz q1 + (fw q2 * fw q2 + fx q2 * fx q2 + fy q2 * fy q2 + fz q2 * fz q2)) - 1) = 0) by (rewrite H; ring).
  lra. Qed.
Lemma B_maps_second t : fqadd (fqmul (fqconj q3B) (@fqscale ROps t q1)) (fqmul (fqconj q4B) (@fqscale ROps t q2)) = fq0.
Proof. comp; elim_sqrt. Qed.
End BranchB.

(* ---- the model's rotation: unitary and maps (x1, x2) to (t, 0), in every non-degenerate case ---- *)
Definition is_unitary2 (g : fqR * fqR * fqR * fqR) : Prop :=
  let '(q1, q2, q3, q4) := g in
  fqadd (fqmul (fqconj q1) q1) (fqmul (fqconj q2) q2) = fq1 /\
  fqadd (fqmul (fqconj q1) q3) (fqmul (fqconj q2) q4) = fq0 /\
  fqadd (fqmul (fqconj q3) q1) (fqmul (fqconj q4) q2) = fq0 /\
  fqadd (fqmul (fqconj q3) q3) (fqmul (fqconj q4) q4) = fq1 /\
  fqadd (fqmul q1 (fqconj q1)) (fqmul q3 (fqconj q3)) = fq1 /\
  fqadd (fqmul q1 (fqconj q2)) (fqmul q3 (fqconj q4)) = fq0 /\
  fqadd (fqmul q2 (fqconj q2)) (fqmul q4 (fqconj q4)) = fq1.
Definition maps_to (g : fqR * fqR * fqR * fqR) (x1 x2 : fqR) (t : R) : Prop :=
  let '(q1, q2, q3, q4) := g in
  fqadd (fqmul (fqconj q1) x1) (fqmul (fqconj q2) x2) = @fqreal ROps t /\
  fqadd (fqmul (fqconj q3) x1) (fqmul (fqconj q4) x2) = fq0.

Ltac foldN := repeat match goal with |- context [@fqn2 ROps ?p] => change (@fqn2 ROps p) with (NR p) end.
Ltac ro' := cbn [F f0 f1 fadd fsub fmul fdiv fopp fsqrt fleb fltb ROps].
Lemma NR_nonneg (p : fqR) : 0 <= NR p. Proof. unfold NR. nra. Qed.
Lemma NR_divr (p : fqR) (t : R) : t <> 0 -> NR (@fqdivr ROps p t) = NR p / (t * t).
Proof. intros Ht. unfold NR. ro. field. exact Ht. Qed.
Lemma scale_divr (p : fqR) (t : R) : t <> 0 -> @fqscale ROps t (@fqdivr ROps p t) = p.
Proof. intros Ht. apply fqeq; ro; field; exact Ht. Qed.

Theorem ggivens_is_rotation (eps : R) (x1 x2 : fqR) :
  0 <= eps -> eps < sqrt (NR x1 + NR x2) ->
  is_unitary2 (ggivens ROps eps x1 x2) /\ maps_to (ggivens ROps eps x1 x2) x1 x2 (sqrt (NR x1 + NR x2)).
Proof.
  intros He Ht. unfold ggivens. ro'. foldN.
  set (t := sqrt (NR x1 + NR x2)) in *.
  assert (Htpos : 0 < t) by lra. assert (Htne : t <> 0) by lra.
  assert (Htt : t * t = NR x1 + NR x2) by (apply sqrt_sqrt; pose proof (NR_nonneg x1); pose proof (NR_nonneg x2); lra).
  unfold Rleb. destruct (Rle_dec t eps) as [Hle|_]; [lra|].
  set (q1 := @fqdivr ROps x1 t). set (q2 := @fqdivr ROps x2 t).
  assert (Hunit : NR q1 + NR q2 = 1).
  { unfold q1, q2. rewrite (NR_divr x1 t Htne), (NR_divr x2 t Htne), Htt. field. rewrite <- Htt. nra. }
  assert (Hx1 : x1 = @fqscale ROps t q1) by (symmetry; apply scale_divr; exact Htne).
  assert (Hx2 : x2 = @fqscale ROps t q2) by (symmetry; apply scale_divr; exact Htne).
  unfold fqabs. ro'. foldN.
  set (n1 := sqrt (NR q1)). set (n2 := sqrt (NR q2)).
  assert (Hn1 : n1 * n1 = NR q1) by (apply sqrt_sqrt, NR_nonneg).
  assert (Hn2 : n2 * n2 = NR q2) by (apply sqrt_sqrt, NR_nonneg).
  assert (H1 : 0 <= n1) by apply sqrt_pos. assert (H2 : 0 <= n2) by apply sqrt_pos.
  unfold Rltb. destruct (Rlt_dec n1 n2) as [Hlt|Hge].
  - assert (Hp : 0 < n2) by lra.
    split; [unfold is_unitary2|unfold maps_to].
    + repeat split; [(eapply B_col1_unit; eassumption)|(eapply B_col12_orth; eassumption)|(eapply B_col21_orth; eassumption)
        |(eapply B_col2_unit; eassumption)|(eapply B_row1_unit; eassumption)|(eapply B_row12_orth; eassumption)|(eapply B_row2_unit; eassumption)].
    + rewrite Hx1, Hx2 at 1. split; [(eapply B_maps_first; eassumption)|]. rewrite Hx1, Hx2. (eapply B_maps_second; eassumption).
  - assert (Hp : 0 < n1) by nra.
    split; [unfold is_unitary2|unfold maps_to].
    + repeat split; [(eapply A_col1_unit; eassumption)|(eapply A_col12_orth; eassumption)|(eapply A_col21_orth; eassumption)
        |(eapply A_col2_unit; eassumption)|(eapply A_row1_unit; eassumption)|(eapply A_row12_orth; eassumption)|(eapply A_row2_unit; eassumption)].
    + rewrite Hx1, Hx2 at 1. split; [(eapply A_maps_first; eassumption)|]. rewrite Hx1, Hx2. (eapply A_maps_second; eassumption).
Qed.
(* degenerate pair (norm <= eps): the identity is returned; it is unitary and the image is off by at most eps *)
Theorem ggivens_degenerate (eps : R) (x1 x2 : fqR) : sqrt (NR x1 + NR x2) <= eps ->
  ggivens ROps eps x1 x2 = (fq1, fq0, fq0, fq1).
Proof. intros H. unfold ggivens. ro'. foldN. unfold Rleb. destruct (Rle_dec _ eps); [reflexivity|lra]. Qed.
