(* C05 / C06 / C11 / C12: what the quaternion glue around a real SVD / QR oracle delivers when the
   oracle's factors are quaternion-structured (lie in the image of real_expand), and a witness that
   the oracle's documented contract alone does not give that. *)
From Coq Require Import Arith Lia Ring Bool List.
From QV Require Import CRing Sums Quat Mat QMat NumpySem.
From QVT Require Import Embed.
Import ListNotations.
Local Open Scope cr_scope.

Section Glue.
Variable C : CRing.
Add Ring Cr : (cr_th C).
Notation qmat := (qmat C).
Notation rmat := (rmat C).

Lemma blk_one a b : (a < 4)%nat -> (b < 4)%nat -> blk (@qone C) a b = if Nat.eqb a b then c1 else c0.
Proof. intros Ha Hb. destruct a as [|[|[|[|?]]]]; try lia; destruct b as [|[|[|[|?]]]]; try lia; cbn; try reflexivity; ring. Qed.
Lemma blk_zero a b : blk (@qzero C) a b = c0.
Proof. destruct a as [|[|[|[|?]]]]; destruct b as [|[|[|[|?]]]]; cbn; try reflexivity; ring. Qed.
(* real_expand of the identity is the identity *)
Lemma rexp_id I J : rexp (@qmid C) I J = rmid I J.
Proof.
  destruct (divmod_eq4 I) as [HI Ha]. destruct (divmod_eq4 J) as [HJ Hb].
  unfold rexp, qmid, rmid.
  destruct (Nat.eqb_spec (I / 4) (J / 4)) as [E|E].
  - rewrite blk_one by assumption. destruct (Nat.eqb_spec (I mod 4) (J mod 4)); destruct (Nat.eqb_spec I J); try reflexivity; exfalso; lia.
  - rewrite blk_zero. destruct (Nat.eqb_spec I J) as [->|]; [contradiction|reflexivity].
Qed.

(* structured orthogonal real factor  =>  unitary quaternion factor *)
Theorem structured_orthogonal_gives_unitary m p (U : qmat) :
  (forall I J, (I < 4 * p)%nat -> (J < 4 * p)%nat -> rmm (4 * m) (rmT (rexp U)) (rexp U) I J = rmid I J) ->
  forall i j, (i < p)%nat -> (j < p)%nat -> qmm m (qherm U) U i j = qmid i j.
Proof.
  intros H i j Hi Hj.
  rewrite <- (rcontract_rexp C (qmm m (qherm U) U) i j), <- (rcontract_rexp C qmid i j).
  unfold rcontract.
  assert (E : forall I J, (I < 4 * p)%nat -> (J < 4 * p)%nat -> rexp (qmm m (qherm U) U) I J = rexp qmid I J).
  { intros I J HI HJ. rewrite <- rexp_multiplicative, rexp_id, <- (H I J HI HJ). unfold rmm, rmT.
    apply sumR_ext. intros. now rewrite rexp_herm. }
  rewrite !E by lia. reflexivity.
Qed.
(* structured factorisation of the real representation  =>  quaternion factorisation *)
Theorem structured_product_gives_product m k n (A X Y : qmat) :
  (forall I J, (I < 4 * m)%nat -> (J < 4 * n)%nat -> rexp A I J = rmm (4 * k) (rexp X) (rexp Y) I J) ->
  forall i j, (i < m)%nat -> (j < n)%nat -> A i j = qmm k X Y i j.
Proof.
  intros H i j Hi Hj.
  rewrite <- (rcontract_rexp C A i j), <- (rcontract_rexp C (qmm k X Y) i j). unfold rcontract.
  rewrite !H by lia. now rewrite !rexp_multiplicative.
Qed.
(* contraction of an upper-triangular structured real matrix is upper triangular (trapezoidal) *)
Theorem contract_of_upper_triangular (R : rmat) :
  (forall I J, (J < I)%nat -> R I J = c0) -> forall i j, (j < i)%nat -> rcontract R i j = qzero.
Proof. intros H i j Hij. unfold rcontract. rewrite !H by lia. reflexivity. Qed.
(* every 4th real singular value: if the real values are the 4-fold repetition of sigma, the pick returns sigma *)
Theorem every4_picks (sr sigma : nat -> C) : (forall i c, (c < 4)%nat -> sr (4 * i + c)%nat = sigma i) ->
  forall i, sr (4 * i)%nat = sigma i.
Proof. intros H i. rewrite <- (H i 0%nat ltac:(lia)). f_equal. lia. Qed.
(* orthonormal composition (randomized Q-SVD): Q^H Q = I and W^H W = I  =>  (Q W)^H (Q W) = I *)
Theorem orthonormal_composition m k r (Q W : qmat) :
  meq k k (qmm m (qherm Q) Q) qmid -> meq r r (qmm k (qherm W) W) qmid ->
  meq r r (qmm m (qherm (qmm k Q W)) (qmm k Q W)) qmid.
Proof.
  intros HQ HW.
  rewrite (qherm_mm_meq C m k r Q W).
  rewrite (qmm_assoc C r k m r (qherm W) (qherm Q) (qmm k Q W)).
  rewrite <- (qmm_assoc C k m k r (qherm Q) Q W).
  rewrite HQ, (qmm_id_l C k r W). exact HW.
Qed.
End Glue.
