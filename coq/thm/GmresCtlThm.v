(* C04: the info record tells the truth about the cycle whose iterate is returned. *)
From Coq Require Import QArith List Bool Arith Lia.
From QVM Require Import GmresCtl.
Import ListNotations.
Close Scope Q_scope.

Lemma ltQ_true a b : ltQ a b = true <-> (a < b)%Q.
Proof. unfold ltQ. destruct (Qlt_le_dec a b) as [H|H]; split; intros; try assumption; try reflexivity; try discriminate.
  exfalso. apply (Qlt_not_le _ _ H0 H). Qed.

(* invariant of the run: the record describes the last cycle consumed *)
Definition describes (cs0 : list cycle) (tol : Q) (i : info) : Prop :=
  ret_cycle i >= 1 ->
  exists c, nth_error cs0 (ret_cycle i - 1) = Some c /\ res_core i = c_res c /\ iterations i = c_meff c /\
            converged i = ltQ (c_res c) tol /\ history i = map c_res (firstn (ret_cycle i) cs0).

Lemma run_describes tol maxit : forall cs cs0 pre k hist last,
  cs0 = pre ++ cs -> k = S (length pre) -> hist = map c_res pre ->
  describes cs0 tol last -> (cs = [] -> ret_cycle last = length pre) ->
  describes cs0 tol (run tol maxit k cs hist last).
Proof.
  induction cs as [|c rest IH]; intros cs0 pre k hist last E Ek Eh Hl Hlast; cbn [run]; [exact Hl|].
  set (i := {| ret_cycle := k; res_core := c_res c; iterations := c_meff c; history := hist ++ [c_res c]; converged := ltQ (c_res c) tol |}).
  assert (Hi : describes cs0 tol i).
  { intros _. exists c. cbn [ret_cycle res_core iterations converged history i]. subst k hist cs0.
    replace (S (length pre) - 1) with (length pre) by lia.
    repeat split.
    - rewrite nth_error_app2 by lia. now rewrite Nat.sub_diag.
    - replace (S (length pre)) with (length pre + 1) by lia. rewrite firstn_app_2. cbn [firstn]. now rewrite map_app. }
  destruct (ltQ (c_res c) tol || Nat.ltb maxit (c_meff c)); [exact Hi|].
  apply (IH cs0 (pre ++ [c]) (S k) (hist ++ [c_res c]) i).
  - now rewrite <- app_assoc.
  - rewrite app_length; cbn; lia.
  - subst hist. now rewrite map_app.
  - exact Hi.
  - intros _. cbn [ret_cycle i]. rewrite app_length; cbn; lia.
Qed.

(* the returned record is truthful: residual, iteration count, history and the converged flag all
   belong to the cycle whose iterate is returned; converged is reported only if that residual is below tol *)
Theorem info_truthful tol maxit cs : let i := solve tol maxit false cs in
  ret_cycle i >= 1 ->
  exists c, nth_error cs (ret_cycle i - 1) = Some c /\ res_core i = c_res c /\ iterations i = c_meff c /\
            (converged i = true <-> (c_res c < tol)%Q) /\ history i = map c_res (firstn (ret_cycle i) cs).
Proof.
  cbv zeta. unfold solve. intros H.
  set (l0 := {| ret_cycle := 0; res_core := 1; iterations := 0; history := []; converged := false |}) in *.
  assert (D0 : describes cs tol l0) by (intros Hc; cbn in Hc; lia).
  destruct (run_describes tol maxit cs cs [] 1 [] l0 eq_refl eq_refl eq_refl D0 (fun _ => eq_refl) H) as [c [H1 [H2 [H3 [H4 H5]]]]].
  exists c. repeat split; try assumption; rewrite H4; apply ltQ_true.
Qed.
(* the run stops at the first cycle that meets the stop rule: no later cycle is consumed *)
Theorem stops_at_first tol maxit : forall cs k hist last c rest,
  cs = c :: rest -> (ltQ (c_res c) tol || Nat.ltb maxit (c_meff c) = true) ->
  ret_cycle (run tol maxit k cs hist last) = k.
Proof. intros cs k hist last c rest -> H. cbn [run]. now rewrite H. Qed.
(* b = 0 *)
Theorem zero_rhs_info tol maxit cs : (0 < tol)%Q -> let i := solve tol maxit true cs in
  ret_cycle i = 0 /\ iterations i = 0 /\ converged i = true /\ history i = [] /\ (res_core i == 0)%Q.
Proof. intros Ht. cbv zeta. unfold solve. cbn. repeat split; try reflexivity. now apply ltQ_true. Qed.
