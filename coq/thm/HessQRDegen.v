(* C16: the Givens sweep of Hess_QR_ggivens also on degenerate pairs whose sub-diagonal entry is exactly zero (a zero column that is not the
   last one, an already triangular column of tiny norm): the rotation is the identity there, and W unitary, W R = H, R upper triangular
   still hold at the end.  Extends HessQRThm.hess_sweep_correct (which asks for a non-degenerate pair at every position). *)
From Coq Require Import Reals Lra Field Psatz Arith Lia Bool List Setoid Morphisms.
From QV Require Import CRing Sums Quat Mat QMat CRingR FOps FOpsR.
From QVT Require Import CauchySchwarz Reflector Norms HouseholderR SchurThm GivensThm Pad2 SchurModelThm HessQRThm.
From QVM Require Import Householder Givens Schur.
Import ListNotations.
Local Open Scope R_scope.

Section Degen.
Variables (eps : R) (m n : nat) (H0 : qmat RR).
Hypothesis Heps : 0 <= eps.

Definition idrot : fq ROps * fq ROps * fq ROps * fq ROps := (fq1, fq0, fq0, fq1).
Lemma rot_rows_id s (H : fmat ROps) i c : rot_rows ROps s n idrot H i c = H i c.
Proof.
  unfold rot_rows, idrot. destruct (Nat.leb s c && Nat.ltb c n); [|reflexivity].
  destruct (Nat.eqb_spec i s) as [->|N1]; [apply fqeq; ro; ring|].
  destruct (Nat.eqb_spec i (S s)) as [->|N2]; [apply fqeq; ro; ring|reflexivity].
Qed.
Lemma rot_cols_id s (W : fmat ROps) i c : rot_cols ROps s idrot W i c = W i c.
Proof.
  unfold rot_cols, idrot. destruct (Nat.eqb_spec c s) as [->|N1]; [apply fqeq; ro; ring|].
  destruct (Nat.eqb_spec c (S s)) as [->|N2]; [apply fqeq; ro; ring|reflexivity].
Qed.
Definition degen0 (H : fmat ROps) (s : nat) : Prop := sqrt (NR (H s s) + NR (H (S s) s)) <= eps /\ H (S s) s = fq0.

Theorem sweep_step_degenerate s (W H : fmat ROps) : (S s < m)%nat -> (s < n)%nat -> degen0 H s -> QInv m n H0 s W H ->
  let g := ggivens ROps eps (H s s) (H (S s) s) in
  QInv m n H0 (S s) (fretab m m (rot_cols ROps s g W)) (fretab m n (rot_rows ROps s n g H)).
Proof.
  intros Hs Hsn [Hd Hz] [HU [HP Hpat]] g.
  assert (Eg : g = idrot).
  { unfold g, ggivens. ro. unfold Rleb. destruct (Rle_dec _ _) as [|Hn]; [reflexivity|exfalso; apply Hn]. exact Hd. }
  rewrite Eg.
  assert (EW : meq m m (tom (fretab m m (rot_cols ROps s idrot W))) (tom W)).
  { rewrite tom_retab. intros i c _ _. unfold tom. now rewrite rot_cols_id. }
  assert (ER : meq m n (tom (fretab m n (rot_rows ROps s n idrot H))) (tom H)).
  { rewrite tom_retab. intros i c _ _. unfold tom. now rewrite rot_rows_id. }
  split; [|split].
  - destruct HU as [U1 U2]. split; rewrite EW; assumption.
  - rewrite EW, ER. exact HP.
  - intros i c Hi Hc Hcase. rewrite fretab_in by assumption. rewrite rot_rows_id.
    destruct Hcase as [Hfar|[Hcs ->]]; [apply Hpat; try assumption; now left|].
    destruct (Nat.eq_dec c s) as [->|NE].
    + replace (s + 1)%nat with (S s) by lia. exact Hz.
    + apply Hpat; try assumption. right. split; lia.
Qed.

(* along the sweep every position is either non-degenerate or degenerate with an exactly zero sub-diagonal entry *)
Fixpoint sweep_ok (ss : list nat) (W H : fmat ROps) : Prop :=
  match ss with
  | [] => True
  | s :: t => (nondeg eps H s \/ degen0 H s) /\ let g := ggivens ROps eps (H s s) (H (S s) s) in
              sweep_ok t (fretab m m (rot_cols ROps s g W)) (fretab m n (rot_rows ROps s n g H))
  end.
Theorem sweep_inv_ok len : forall s0 W H, (s0 + len < m)%nat -> (s0 + len <= n)%nat -> sweep_ok (seq s0 len) W H -> QInv m n H0 s0 W H ->
  let '(W', H') := sweep ROps eps m n (seq s0 len) W H in QInv m n H0 (s0 + len) W' H'.
Proof.
  induction len as [|len IH]; intros s0 W H Hm Hn Hok Hi; cbn [seq sweep].
  - now rewrite Nat.add_0_r.
  - cbn [sweep_ok seq] in Hok. destruct Hok as [Hd Hrest].
    assert (Hstep : QInv m n H0 (S s0) (fretab m m (rot_cols ROps s0 (ggivens ROps eps (H s0 s0) (H (S s0) s0)) W))
                                       (fretab m n (rot_rows ROps s0 n (ggivens ROps eps (H s0 s0) (H (S s0) s0)) H))).
    { destruct Hd as [Hnd|Hdg].
      - exact (sweep_step eps m n H0 Heps s0 W H ltac:(lia) ltac:(lia) Hnd Hi).
      - exact (sweep_step_degenerate s0 W H ltac:(lia) ltac:(lia) Hdg Hi). }
    specialize (IH (S s0) _ _ ltac:(lia) ltac:(lia) Hrest Hstep). replace (s0 + S len)%nat with (S s0 + len)%nat by lia. exact IH.
Qed.
Theorem hess_sweep_correct_with_zero_pairs (H : fmat ROps) : (1 <= m)%nat -> (m - 1 <= n)%nat ->
  (forall i c, (i < m)%nat -> (c < n)%nat -> (c + 1 < i)%nat -> H i c = fq0) -> meq m n (tom H) H0 ->
  sweep_ok (seq 0 (m - 1)) feye (fretab m n H) ->
  let '(W, R) := sweep ROps eps m n (seq 0 (m - 1)) feye (fretab m n H) in
  unitary m (tom W) /\ meq m n (qmm m (tom W) (tom R)) H0 /\ (forall i c, (i < m)%nat -> (c < n)%nat -> (c < i)%nat -> R i c = fq0).
Proof.
  intros Hm1 Hmn Hhess HE Hok.
  assert (Hinit : QInv m n H0 0 feye (fretab m n H)).
  { split; [|split].
    - assert (E : meq m m (tom (@feye ROps)) qmid) by (intros i j _ _; apply tom_eye). rewrite E. apply unitary_id.
    - assert (E : meq m m (tom (@feye ROps)) qmid) by (intros i j _ _; apply tom_eye). rewrite E, (qmm_id_l RR m n), tom_retab. exact HE.
    - intros i c Hi Hc [Hfar|[Hlt _]]; [|lia]. rewrite fretab_in by assumption. now apply Hhess. }
  pose proof (sweep_inv_ok (m - 1) 0 feye (fretab m n H) ltac:(lia) ltac:(lia) Hok Hinit) as Hfin.
  destruct (sweep ROps eps m n (seq 0 (m - 1)) feye (fretab m n H)) as [W R]. destruct Hfin as [HU [HP Hpat]].
  split; [exact HU|]. split; [exact HP|]. intros i c Hi Hc Hic. apply Hpat; try assumption.
  destruct (Nat.eq_dec i (c + 1)); [right; split; lia|left; lia].
Qed.
End Degen.
