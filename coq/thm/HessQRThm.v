(* C16: the whole Givens sweep of Hess_QR_ggivens (model/Givens.v: sweep / hessqr) at the real instance:
   on an upper Hessenberg matrix on which no degenerate pair (norm <= eps) is met, W stays unitary,
   W R = H, and R is upper triangular. *)
From Coq Require Import Reals Lra Field Psatz Arith Lia Bool List Setoid Morphisms.
From QV Require Import CRing Sums Quat Mat QMat CRingR FOps FOpsR.
From QVT Require Import CauchySchwarz Reflector Norms HouseholderR SchurThm GivensThm Pad2 SchurModelThm.
From QVM Require Import Householder Givens Schur.
Import ListNotations.
Local Open Scope R_scope.

Section Sweep.
Variables (eps atol : R) (m n : nat) (H0 : qmat RR).
Hypothesis Heps : 0 <= eps.
(* zero pattern: Hessenberg, and sub-diagonal entries of the columns before s already eliminated *)
Definition hpat (s : nat) (H : fmat ROps) : Prop :=
  forall i c, (i < m)%nat -> (c < n)%nat -> ((c + 1 < i)%nat \/ ((c < s)%nat /\ i = (c + 1)%nat)) -> H i c = fq0.
Definition QInv (s : nat) (W H : fmat ROps) : Prop :=
  unitary m (tom W) /\ meq m n (qmm m (tom W) (tom H)) H0 /\ hpat s H.
Definition nondeg (H : fmat ROps) (s : nat) : Prop := eps < sqrt (NR (H s s) + NR (H (S s) s)).
Lemma rot_cols_is_cols2 s g (W : fmat ROps) i c : rot_cols ROps s g W i c = cols2 ROps s (gblk ROps g) W i c.
Proof.
  destruct g as [[[q1 q2] q3] q4]. unfold rot_cols, cols2, gblk. destruct (Nat.eqb c s); [|destruct (Nat.eqb c (S s))]; try reflexivity;
  apply fqeq; ro; ring.
Qed.
Lemma rot_rows_hi s g (H : fmat ROps) i c : (s <= c)%nat -> (c < n)%nat -> rot_rows ROps s n g H i c = rows2 ROps s (gblk ROps g) H i c.
Proof.
  intros H1 H2. destruct g as [[[q1 q2] q3] q4]. unfold rot_rows, rows2, gblk.
  replace (Nat.leb s c) with true by (symmetry; now apply Nat.leb_le). replace (Nat.ltb c n) with true by (symmetry; now apply Nat.ltb_lt). cbn [andb].
  destruct (Nat.eqb i s); [|destruct (Nat.eqb i (S s))]; reflexivity.
Qed.
Lemma rot_rows_lo s g (H : fmat ROps) i c : (c < s)%nat -> rot_rows ROps s n g H i c = H i c.
Proof.
  intros H1. destruct g as [[[q1 q2] q3] q4]. unfold rot_rows.
  replace (Nat.leb s c) with false by (symmetry; apply Nat.leb_gt; lia). reflexivity.
Qed.
(* one step of the sweep *)
Theorem sweep_step s (W H : fmat ROps) : (S s < m)%nat -> (s < n)%nat -> nondeg H s -> QInv s W H ->
  let g := ggivens ROps eps (H s s) (H (S s) s) in
  QInv (S s) (fretab m m (rot_cols ROps s g W)) (fretab m n (rot_rows ROps s n g H)).
Proof.
  intros Hs Hsn Hnd [HU [HP Hpat]] g.
  pose proof (ggivens_is_rotation eps (H s s) (H (S s) s) Heps Hnd) as [Hun Hmap]. fold g in Hun, Hmap.
  pose proof (gblk_unitary g Hun) as HB. pose proof (padB_unitary m s (gblk ROps g) Hs HB) as [PU1 PU2].
  set (P := padB s (gblk ROps g)) in *.
  assert (EW : meq m m (tom (fretab m m (rot_cols ROps s g W))) (qmm m (tom W) (qherm P))).
  { unfold P. rewrite tom_retab. rewrite <- (tom_cols2 m s (gblk ROps g) W Hs). intros i c _ _. unfold tom. now rewrite rot_cols_is_cols2. }
  assert (ER : meq m n (tom (fretab m n (rot_rows ROps s n g H))) (qmm m P (tom H))).
  { rewrite tom_retab. intros i c Hi Hc. destruct (Nat.lt_ge_cases c s) as [Hlo|Hhi].
    - unfold tom at 1. rewrite rot_rows_lo by exact Hlo.
      destruct g as [[[q1 q2] q3] q4] eqn:Eg. unfold P, padB, gblk. rewrite (pad2_mm_l RR m n s _ _ _ _ (tom H) Hs i c Hi Hc). unfold rows2q, tom.
      assert (Z1 : H s c = fq0) by (apply Hpat; [lia|exact Hc|destruct (Nat.eq_dec s (c + 1)); [right; split; lia|left; lia]]).
      assert (Z2 : H (S s) c = fq0) by (apply Hpat; [lia|exact Hc|left; lia]).
      destruct (Nat.eqb_spec i s) as [->|N1]; [rewrite Z1, Z2, toq_0; apply qeq; qcomp; rr; lra|].
      destruct (Nat.eqb_spec i (S s)) as [->|N2]; [rewrite Z1, Z2, toq_0; apply qeq; qcomp; rr; lra|reflexivity].
    - unfold tom at 1. rewrite rot_rows_hi by assumption.
      pose proof (pad2_mm_l RR m n s) as L. destruct g as [[[q1 q2] q3] q4]. unfold P, padB, gblk.
      rewrite (L _ _ _ _ (tom H) Hs i c Hi Hc). unfold rows2q, rows2, tom, gblk.
      destruct (Nat.eqb i s); [now rewrite toq_add, !toq_mul|]. destruct (Nat.eqb i (S s)); [now rewrite toq_add, !toq_mul|reflexivity]. }
  split; [|split].
  - rewrite EW. apply unitary_mm; [exact HU|]. split; rewrite (qherm_herm RR m m P); assumption.
  - rewrite EW, ER. rewrite (qmm_assoc RR m m m n (tom W) (qherm P) (qmm m P (tom H))).
    rewrite <- (qmm_assoc RR m m m n (qherm P) P (tom H)), PU1, (qmm_id_l RR m n (tom H)). exact HP.
  - intros i c Hi Hc Hcase. rewrite fretab_in by assumption.
    destruct (Nat.lt_ge_cases c s) as [Hlo|Hhi]; [rewrite rot_rows_lo by exact Hlo; apply Hpat; try assumption; destruct Hcase as [|[? ?]]; [now left|right; split; lia]|].
    rewrite rot_rows_hi by assumption. destruct g as [[[q1 q2] q3] q4] eqn:Eg. unfold rows2, gblk.
    destruct Hcase as [Hfar|[Hcs ->]].
    + (* i > c + 1 >= s + 1: rows s, s+1 not involved unless i = s+1 which needs c < s *)
      replace (Nat.eqb i s) with false by (symmetry; apply Nat.eqb_neq; lia).
      replace (Nat.eqb i (S s)) with false by (symmetry; apply Nat.eqb_neq; lia). apply Hpat; try assumption. now left.
    + (* i = c + 1 with c < S s, c >= s: c = s, i = s + 1 *)
      assert (c = s) by lia. subst c. replace (Nat.eqb (s + 1) s) with false by (symmetry; apply Nat.eqb_neq; lia).
      replace (Nat.eqb (s + 1) (S s)) with true by (symmetry; apply Nat.eqb_eq; lia).
      unfold maps_to in Hmap. exact (proj2 Hmap).
Qed.
End Sweep.

Section Whole.
Variables (eps : R) (m n : nat) (H0 : qmat RR).
Hypothesis Heps : 0 <= eps.
(* no degenerate pair is met along the sweep *)
Fixpoint sweep_nondeg (ss : list nat) (W H : fmat ROps) : Prop :=
  match ss with
  | [] => True
  | s :: t => nondeg eps H s /\ let g := ggivens ROps eps (H s s) (H (S s) s) in
              sweep_nondeg t (fretab m m (rot_cols ROps s g W)) (fretab m n (rot_rows ROps s n g H))
  end.
Theorem sweep_inv len : forall s0 W H, (s0 + len < m)%nat -> (s0 + len <= n)%nat -> sweep_nondeg (seq s0 len) W H -> QInv m n H0 s0 W H ->
  let '(W', H') := sweep ROps eps m n (seq s0 len) W H in QInv m n H0 (s0 + len) W' H'.
Proof.
  induction len as [|len IH]; intros s0 W H Hm Hn Hnd Hi; cbn [seq sweep].
  - now rewrite Nat.add_0_r.
  - cbn [sweep_nondeg seq] in Hnd. destruct Hnd as [Hd Hrest].
    pose proof (sweep_step eps m n H0 Heps s0 W H ltac:(lia) ltac:(lia) Hd Hi) as Hstep. cbn zeta in Hstep.
    specialize (IH (S s0) _ _ ltac:(lia) ltac:(lia) Hrest Hstep). replace (s0 + S len)%nat with (S s0 + len)%nat by lia. exact IH.
Qed.
(* Hess_QR_ggivens before the final phase normalisation: W unitary, W R = H, R upper triangular *)
Theorem hess_sweep_correct (H : fmat ROps) : (1 <= m)%nat -> (m - 1 <= n)%nat ->
  (forall i c, (i < m)%nat -> (c < n)%nat -> (c + 1 < i)%nat -> H i c = fq0) -> meq m n (tom H) H0 ->
  sweep_nondeg (seq 0 (m - 1)) feye (fretab m n H) ->
  let '(W, R) := sweep ROps eps m n (seq 0 (m - 1)) feye (fretab m n H) in
  unitary m (tom W) /\ meq m n (qmm m (tom W) (tom R)) H0 /\ (forall i c, (i < m)%nat -> (c < n)%nat -> (c < i)%nat -> R i c = fq0).
Proof.
  intros Hm1 Hmn Hhess HE Hnd.
  assert (Hinit : QInv m n H0 0 feye (fretab m n H)).
  { split; [|split].
    - assert (E : meq m m (tom (@feye ROps)) qmid) by (intros i j _ _; apply tom_eye). rewrite E. apply unitary_id.
    - assert (E : meq m m (tom (@feye ROps)) qmid) by (intros i j _ _; apply tom_eye). rewrite E, (qmm_id_l RR m n), tom_retab. exact HE.
    - intros i c Hi Hc [Hfar|[Hlt _]]; [|lia]. rewrite fretab_in by assumption. now apply Hhess. }
  pose proof (sweep_inv (m - 1) 0 feye (fretab m n H) ltac:(lia) ltac:(lia) Hnd Hinit) as Hfin.
  destruct (sweep ROps eps m n (seq 0 (m - 1)) feye (fretab m n H)) as [W R]. destruct Hfin as [HU [HP Hpat]].
  split; [exact HU|]. split; [exact HP|]. intros i c Hi Hc Hic. apply Hpat; try assumption.
  destruct (Nat.eq_dec i (c + 1)); [right; split; lia|left; lia].
Qed.
End Whole.
