(* C08 / C09: the coded quaternion Householder vector / matrix (model/Householder.v at the real
   instance) is unitary on both sides for every column - zero or not - and maps the column it was
   built from to (||a||, 0, ..., 0); the two-sided reduction loops keep P unitary and P A P^H = B and
   create the Hessenberg / real-symmetric-tridiagonal structure.  Over R (standard-library reals). *)
From Coq Require Import Reals Lra Field Psatz Arith Lia Bool List Setoid Morphisms.
From QV Require Import CRing Sums Quat Mat QMat CRingR FOps FOpsR.
From QVT Require Import Reflector.
From QVM Require Import Householder.
Import ListNotations.
Local Open Scope R_scope.
Notation fqR := (fq ROps).
Lemma fqeq (p q : fqR) : fw p = fw q -> fx p = fx q -> fy p = fy q -> fz p = fz q -> p = q.
Proof. destruct p, q; simpl; intros; subst; reflexivity. Qed.
Definition NR (p : fqR) : R := fw p * fw p + fx p * fx p + fy p * fy p + fz p * fz p.
Lemma NR_nonneg p : 0 <= NR p. Proof. unfold NR. nra. Qed.
Lemma NR_zero p : NR p = 0 -> p = fq0.
Proof. unfold NR. intros H. apply fqeq; ro; nra. Qed.
Fixpoint rsum (n : nat) (f : nat -> R) : R := match n with O => 0 | S k => rsum k f + f k end.
Lemma fsum_rsum n (f : nat -> R) : @fsum ROps n f = rsum n f.
Proof. induction n; cbn [fsum rsum]; ro; [reflexivity|now rewrite IHn]. Qed.
Lemma rsum_nonneg n f : (forall i, 0 <= f i) -> 0 <= rsum n f.
Proof. intros H. induction n; cbn [rsum]; [lra|specialize (H n); lra]. Qed.
Lemma rsum_head n f : rsum (S n) f = f O + rsum n (fun i => f (S i)).
Proof. induction n; [cbn [rsum]; ring|]. change (rsum (S (S n)) f) with (rsum (S n) f + f (S n)). rewrite IHn. cbn [rsum]. ring. Qed.
Lemma rsum_ext n f g : (forall i, (i < n)%nat -> f i = g i) -> rsum n f = rsum n g.
Proof. intros H. induction n; cbn [rsum]; [reflexivity|]. rewrite IHn, H by auto. reflexivity. Qed.
Lemma rsum_div n f c : rsum n (fun i => f i / c) = rsum n f / c.
Proof. induction n; cbn [rsum]; [unfold Rdiv; ring|rewrite IHn; unfold Rdiv; ring]. Qed.
Lemma Rleb_true x y : Rleb x y = true <-> x <= y.
Proof. unfold Rleb. destruct (Rle_dec x y); split; intros; try easy. Qed.
Lemma fis0_R (x : R) : fis0 ROps x = true <-> x = 0.
Proof. unfold fis0. ro. rewrite andb_true_iff, !Rleb_true. lra. Qed.
Lemma fis0_R_false (x : R) : fis0 ROps x = false <-> x <> 0.
Proof. rewrite <- fis0_R. destruct (fis0 ROps x); split; intros; congruence. Qed.

Definition hv_S (n : nat) (a : nat -> fqR) : R := rsum (S n) (fun i => NR (a i)).
Definition hv_alpha n a : R := sqrt (hv_S n a).
Definition hv_r (a : nat -> fqR) : R := sqrt (NR (a O)).
Definition hv_mu n a : R := sqrt (hv_alpha n a * (hv_alpha n a + hv_r a)).
Definition hv_zeta (a : nat -> fqR) : fqR := if fis0 ROps (hv_r a) then fq1 else fqopp (@fqdivr ROps (a O) (hv_r a)).
Definition hv_u n a (i : nat) : fqR := @fqdivr ROps (fqsub (a i) (if Nat.eqb i 0 then @fqscale ROps (hv_alpha n a) (hv_zeta a) else fq0)) (hv_mu n a).
Section HV.
Variables (n : nat) (a : nat -> fqR).
Let Sa := hv_S n a.
Let alpha := hv_alpha n a.
Let r := hv_r a.
Let mu := hv_mu n a.
Let zeta := hv_zeta a.
Let u := hv_u n a.
Hypothesis Hnz : alpha <> 0.

Lemma Sa_nonneg : 0 <= Sa. Proof. apply rsum_nonneg. intros; apply NR_nonneg. Qed.
Lemma alpha_pos : 0 < alpha.
Proof. pose proof (sqrt_pos Sa) as H. change (0 <= alpha) in H. lra. Qed.
Lemma alpha_sq : alpha * alpha = Sa. Proof. apply sqrt_sqrt, Sa_nonneg. Qed.
Lemma r_nonneg : 0 <= r. Proof. apply sqrt_pos. Qed.
Lemma r_sq : r * r = NR (a O). Proof. apply sqrt_sqrt, NR_nonneg. Qed.
Lemma mu_sq : mu * mu = alpha * (alpha + r).
Proof. apply sqrt_sqrt. pose proof alpha_pos. pose proof r_nonneg. nra. Qed.
Lemma mu_pos : 0 < mu.
Proof. apply sqrt_lt_R0. change (0 < alpha * (alpha + r)). pose proof alpha_pos. pose proof r_nonneg. nra. Qed.
Lemma tail_sum : rsum n (fun i => NR (a (S i))) = alpha * alpha - r * r.
Proof. rewrite alpha_sq, r_sq. unfold Sa, hv_S. rewrite rsum_head. ring. Qed.

Lemma zeta_unit : NR zeta = 1.
Proof.
  unfold zeta, hv_zeta; fold r. destruct (fis0 ROps r) eqn:E.
  - unfold NR; ro. ring.
  - apply fis0_R_false in E. pose proof r_sq as H. unfold NR in *. ro. field_simplify_eq; try lra.
Qed.

Lemma u_tail i : u (S i) = @fqdivr ROps (a (S i)) mu.
Proof. unfold u, hv_u; fold alpha zeta mu. cbn [Nat.eqb]. apply fqeq; ro; rewrite Rminus_0_r; reflexivity. Qed.
Lemma a0_zero : r = 0 -> a O = fq0.
Proof. intros H. apply NR_zero. rewrite <- r_sq, H. ring. Qed.
(* mu u_0 = a_0 - alpha zeta, and |a_0 - alpha zeta|^2 = (r + alpha)^2 *)
Lemma head_norm : NR (fqsub (a O) (@fqscale ROps alpha zeta)) = (r + alpha) * (r + alpha).
Proof.
  unfold zeta, hv_zeta; fold r. destruct (fis0 ROps r) eqn:E.
  - apply fis0_R in E. rewrite (a0_zero E), E. unfold NR; ro. ring.
  - apply fis0_R_false in E.
    transitivity (NR (a O) * (((r + alpha) / r) * ((r + alpha) / r))); [unfold NR; ro; field; exact E|].
    rewrite <- r_sq. field. exact E.
Qed.
Lemma NR_divr p c : c <> 0 -> NR (@fqdivr ROps p c) = NR p / (c * c).
Proof. intros Hc. unfold NR; ro. field. exact Hc. Qed.
Theorem u_norm2 : rsum (S n) (fun i => NR (u i)) = 2.
Proof.
  pose proof mu_pos as Hm. pose proof mu_sq as Hm2. pose proof alpha_pos as Ha.
  rewrite rsum_head. rewrite (rsum_ext n _ (fun i => NR (a (S i)) / (mu * mu))).
  2:{ intros i _. rewrite u_tail. apply NR_divr. lra. }
  rewrite rsum_div, tail_sum. unfold u, hv_u; fold alpha zeta mu. cbn [Nat.eqb]. rewrite NR_divr by lra. rewrite head_norm, Hm2.
  field. pose proof r_nonneg. split; nra.
Qed.
(* conj(zeta) a_0 = - r *)
Lemma zeta_a0 : fqmul (fqconj zeta) (a O) = @fqreal ROps (- r).
Proof.
  unfold zeta, hv_zeta; fold r. destruct (fis0 ROps r) eqn:E.
  - apply fis0_R in E. rewrite (a0_zero E), E. apply fqeq; ro; ring.
  - apply fis0_R_false in E. pose proof r_sq as H. unfold NR in H. apply fqeq; ro; field_simplify_eq; try lra.
Qed.

Lemma inner_pointwise i : fqmul (fqconj (u i)) (a i) = @fqreal ROps ((NR (a i) + (if Nat.eqb i 0 then alpha * r else 0)) / mu).
Proof.
  pose proof mu_pos as Hm. destruct i as [|i].
  - unfold u, hv_u; fold alpha zeta mu. cbn [Nat.eqb]. pose proof zeta_a0 as Hz. clearbody zeta.
    assert (Hw := f_equal fw Hz). assert (Hx := f_equal fx Hz). assert (Hy := f_equal fy Hz). assert (Hzz := f_equal fz Hz).
    ro in Hw. ro in Hx. ro in Hy. ro in Hzz. unfold NR. apply (f_equal (Rmult alpha)) in Hw, Hx, Hy, Hzz. apply fqeq; ro; field_simplify_eq; try lra.
  - rewrite u_tail. cbn [Nat.eqb]. unfold NR. apply fqeq; ro; field; lra.
Qed.
Lemma fqsum_real k (c : nat -> R) : @fqsum ROps k (fun i => @fqreal ROps (c i)) = @fqreal ROps (rsum k c).
Proof. induction k; cbn [fqsum rsum]; [reflexivity|rewrite IHk; apply fqeq; ro; ring]. Qed.
Lemma fqsum_ext k (f g : nat -> fqR) : (forall i, (i < k)%nat -> f i = g i) -> @fqsum ROps k f = @fqsum ROps k g.
Proof. intros H. induction k; cbn [fqsum]; [reflexivity|]. rewrite IHk, H by auto. reflexivity. Qed.
Theorem inner_is_mu : @fqsum ROps (S n) (fun i => fqmul (fqconj (u i)) (a i)) = @fqreal ROps mu.
Proof.
  pose proof mu_pos as Hm. pose proof mu_sq as Hm2.
  rewrite (fqsum_ext _ _ _ (fun i _ => inner_pointwise i)), fqsum_real. f_equal.
  rewrite rsum_div, rsum_head. cbn [Nat.eqb].
  rewrite (rsum_ext n _ (fun i => NR (a (S i)))) by (intros; ring).
  rewrite tail_sum, <- r_sq. field_simplify_eq; lra.
Qed.
Lemma mu_u i : @fqscale ROps mu (u i) = fqsub (a i) (if Nat.eqb i 0 then @fqscale ROps alpha zeta else fq0).
Proof. pose proof mu_pos. unfold u, hv_u; fold alpha zeta mu. apply fqeq; ro; field; lra. Qed.
End HV.

Definition toq (p : fqR) : quat RR := @mkQ RR (fw p) (fx p) (fy p) (fz p).
Definition tom (M : fmat ROps) : qmat RR := fun i j => toq (M i j).
Ltac tq := apply qeq; unfold toq; qcomp; rr; ro; try reflexivity; try ring.
Lemma toq_add p q : toq (fqadd p q) = qadd (toq p) (toq q). Proof. tq. Qed.
Lemma toq_sub p q : toq (fqsub p q) = qsub (toq p) (toq q). Proof. tq. Qed.
Lemma toq_mul p q : toq (fqmul p q) = qmul (toq p) (toq q). Proof. tq. Qed.
Lemma toq_conj p : toq (fqconj p) = qconj (toq p). Proof. tq. Qed.
Lemma toq_opp p : toq (fqopp p) = qopp (toq p). Proof. tq. Qed.
Lemma toq_0 : toq fq0 = qzero. Proof. tq. Qed.
Lemma toq_1 : toq fq1 = qone. Proof. tq. Qed.
Lemma toq_real c : toq (@fqreal ROps c) = @qreal RR c. Proof. tq. Qed.
Lemma toq_scale c p : toq (@fqscale ROps c p) = qmul (@qreal RR c) (toq p). Proof. tq. Qed.
Lemma toq_norm2 p : @qnorm2 RR (toq p) = NR p. Proof. reflexivity. Qed.
Lemma toq_sum k f : toq (@fqsum ROps k f) = sumQ k (fun i => toq (f i)).
Proof. induction k; cbn [fqsum sumQ]; [apply toq_0|rewrite toq_add, IHk; reflexivity]. Qed.
Lemma sumR_rsum k (c : nat -> R) : @sumR RR k c = rsum k c.
Proof. induction k; cbn [sumR rsum]; rr; [reflexivity|now rewrite IHk]. Qed.
Lemma sumQ_real k (c : nat -> R) : sumQ k (fun i => @qreal RR (c i)) = @qreal RR (rsum k c).
Proof. induction k; cbn [sumQ rsum]; [reflexivity|rewrite IHk; apply qeq; qcomp; rr; ring]. Qed.
Lemma tom_mm k A B i j : tom (fmm k A B) i j = qmm k (tom A) (tom B) i j.
Proof. unfold tom, fmm, qmm. rewrite toq_sum. apply (sumQ_ext RR). intros l _. apply toq_mul. Qed.
Lemma tom_herm A i j : tom (fherm A) i j = qherm (tom A) i j.
Proof. unfold tom, fherm, qherm. apply toq_conj. Qed.
Lemma tom_eye i j : tom feye i j = @qmid RR i j.
Proof. unfold tom, feye, qmid. destruct (Nat.eqb i j); [apply toq_1|apply toq_0]. Qed.
Lemma nth_map_seq {A} (f : nat -> A) m i d : (i < m)%nat -> nth i (map f (seq 0 m)) d = f i.
Proof. intros H. rewrite (nth_indep _ d (f O)) by (rewrite map_length, seq_length; exact H).
  rewrite (map_nth f (seq 0 m) O i), seq_nth by exact H. reflexivity. Qed.
Lemma fretab_in (Ops : FOps) m n (M : fmat Ops) i j : (i < m)%nat -> (j < n)%nat -> fretab m n M i j = M i j.
Proof. intros Hi Hj. unfold fretab, fof, ftab. rewrite (nth_map_seq (fun i => map (fun j => M i j) (seq 0 n))) by exact Hi.
  apply (nth_map_seq (fun j => M i j)). exact Hj. Qed.
Lemma tom_retab m n M : meq m n (tom (fretab m n M)) (tom M).
Proof. intros i j Hi Hj. unfold tom. now rewrite fretab_in. Qed.
Ltac qrr := apply qeq; qcomp; rr; ring.
Lemma toq_inv_unit z : NR z = 1 -> toq (fqinv z) = qconj (toq z).
Proof. intros H. unfold fqinv. change (fqn2 z) with (NR z). rewrite H. apply qeq; unfold toq; qcomp; rr; ro; field. Qed.
Lemma toq_delta i j : toq (if Nat.eqb i j then fq1 else fq0) = @qmid RR i j.
Proof. unfold qmid. destruct (Nat.eqb i j); [apply toq_1|apply toq_0]. Qed.

Section Refl.
Variables (n : nat) (a : nat -> fqR).
Hypothesis Hnz : hv_alpha n a <> 0.
Definition hU : qmat RR := fun i _ => toq (hv_u n a i).
Definition hZ : quat RR := toq (hv_zeta a).
Lemma hh_vector_nz : hh_vector ROps (S n) a = (hv_u n a, hv_zeta a).
Proof.
  unfold hh_vector. cbv zeta. rewrite fsum_rsum.
  change ((if fis0 ROps (hv_alpha n a) then ((fun _ : nat => @fq0 ROps), @fq1 ROps) else (hv_u n a, hv_zeta a)) = (hv_u n a, hv_zeta a)).
  apply fis0_R_false in Hnz. now rewrite Hnz.
Qed.
Lemma hZ_unit_r : qmul hZ (qconj hZ) = qone.
Proof. unfold hZ. rewrite (qmul_conj_r RR), toq_norm2, (zeta_unit a). reflexivity. Qed.
Lemma hZ_unit_l : qmul (qconj hZ) hZ = qone.
Proof. unfold hZ. rewrite (qmul_conj_l RR), toq_norm2, (zeta_unit a). reflexivity. Qed.
Lemma hU_two : meq 1 1 (qmm (S n) (qherm hU) hU) (fun _ _ => qadd qone qone).
Proof.
  intros i j _ _. unfold qmm, qherm, hU.
  rewrite (sumQ_ext RR _ _ (fun k => @qreal RR (NR (hv_u n a k)))) by (intros k _; rewrite (qmul_conj_l RR); reflexivity).
  rewrite sumQ_real, (u_norm2 n a Hnz). qrr.
Qed.
Lemma hh_matrix_nz i j : tom (hh_matrix ROps (S n) a) i j = Href RR hU hZ i j.
Proof.
  unfold hh_matrix. rewrite hh_vector_nz. unfold tom, Href, qmscaleq, Mref, Pm, qmsub, qmm, qherm, hU, hZ. cbn [sumQ].
  rewrite toq_mul, toq_sub, toq_mul, toq_conj, toq_delta, (toq_inv_unit _ (zeta_unit a)). qrr.
Qed.
Theorem hh_unitary_nz : meq (S n) (S n) (qmm (S n) (qherm (tom (hh_matrix ROps (S n) a))) (tom (hh_matrix ROps (S n) a))) qmid
                     /\ meq (S n) (S n) (qmm (S n) (tom (hh_matrix ROps (S n) a)) (qherm (tom (hh_matrix ROps (S n) a)))) qmid.
Proof.
  assert (E : meq (S n) (S n) (tom (hh_matrix ROps (S n) a)) (Href RR hU hZ)) by (intros i j _ _; apply hh_matrix_nz).
  split; rewrite E.
  - exact (reflector_unitary RR (S n) hU _ eq_refl hU_two hZ hZ_unit_r).
  - exact (reflector_unitary_right RR (S n) hU _ eq_refl hU_two hZ hZ_unit_l).
Qed.

Lemma hU_mu i : qmul (hU i O) (@qreal RR (hv_mu n a)) = qsub (toq (a i)) (if Nat.eqb i 0 then qmul (@qreal RR (hv_alpha n a)) hZ else qzero).
Proof.
  unfold hU, hZ. rewrite <- (qreal_central RR), <- toq_scale, (mu_u n a Hnz), toq_sub. f_equal.
  destruct (Nat.eqb i 0); [apply toq_scale|apply toq_0].
Qed.
Theorem hh_maps_nz i : (i < S n)%nat ->
  sumQ (S n) (fun j => qmul (tom (hh_matrix ROps (S n) a) i j) (toq (a j))) = if Nat.eqb i 0 then @qreal RR (hv_alpha n a) else qzero.
Proof.
  intros Hi.
  rewrite (sumQ_ext RR _ _ (fun j => qmul (qconj hZ) (qsub (qmul (if Nat.eqb i j then qone else qzero) (toq (a j)))
                                                       (qmul (hU i O) (qmul (qconj (hU j O)) (toq (a j))))))).
  2:{ intros j _. rewrite hh_matrix_nz. unfold Href, qmscaleq, Mref, Pm, qmsub, qmm, qherm, qmid. cbn [sumQ]. qrr. }
  rewrite <- (sumQ_mul_l RR), (sumQ_sub RR), (sumQ_delta_l RR (S n) (fun j => toq (a j)) (fun _ => qone) i Hi), <- (sumQ_mul_l RR).
  assert (E : sumQ (S n) (fun k => qmul (qconj (hU k O)) (toq (a k))) = @qreal RR (hv_mu n a)).
  { unfold hU. rewrite <- toq_real, <- (inner_is_mu n a Hnz), toq_sum. apply (sumQ_ext RR). intros k _. now rewrite toq_mul, toq_conj. }
  rewrite E, hU_mu. destruct i as [|i]; cbn [Nat.eqb].
  - transitivity (qmul (@qreal RR (hv_alpha n a)) (qmul (qconj hZ) hZ)); [qrr|rewrite hZ_unit_l; qrr].
  - qrr.
Qed.
End Refl.

Definition hm_alpha (m : nat) (a : nat -> fqR) : R := sqrt (rsum m (fun i => NR (a i))).
Lemma hh_vector_z m a : hm_alpha m a = 0 -> hh_vector ROps m a = ((fun _ => fq0), fq1).
Proof.
  intros H. unfold hh_vector. cbv zeta. rewrite fsum_rsum.
  apply fis0_R in H. change (@fsqrt ROps (rsum m (fun i => fqn2 (a i)))) with (hm_alpha m a). now rewrite H.
Qed.
Lemma hh_matrix_z m a : hm_alpha m a = 0 -> forall i j, tom (hh_matrix ROps m a) i j = @qmid RR i j.
Proof.
  intros H i j. unfold hh_matrix. rewrite (hh_vector_z m a H). unfold tom.
  rewrite toq_mul, toq_sub, toq_mul, toq_conj, toq_delta, toq_0, (toq_inv_unit fq1), toq_1 by (unfold NR; ro; ring).
  unfold qmid. destruct (Nat.eqb i j); qrr.
Qed.
Lemma rsum_zero_all m f : (forall i, 0 <= f i) -> rsum m f = 0 -> forall i, (i < m)%nat -> f i = 0.
Proof.
  intros Hp. induction m as [|m IH]; intros H i Hi; [lia|]. cbn [rsum] in H.
  pose proof (rsum_nonneg m f Hp). pose proof (Hp m).
  destruct (Nat.eq_dec i m) as [->|Hne]; [lra|]. apply IH; [lra|lia].
Qed.
Notation unitary := (unitary RR).
(* C08/C09: the coded reflector is unitary for every column, zero or not *)
Theorem hh_unitary m a : unitary m (tom (hh_matrix ROps m a)).
Proof.
  destruct (Req_dec (hm_alpha m a) 0) as [Hz|Hnz].
  - assert (E : meq m m (tom (hh_matrix ROps m a)) qmid) by (intros i j _ _; now apply hh_matrix_z).
    rewrite E. apply unitary_id.
  - destruct m as [|m]; [exfalso; apply Hnz; unfold hm_alpha; cbn [rsum]; apply sqrt_0|].
    exact (hh_unitary_nz m a Hnz).
Qed.
(* ... and maps the column it was built from to (||a||, 0, ..., 0) *)
Theorem hh_maps m a i : (i < m)%nat ->
  sumQ m (fun j => qmul (tom (hh_matrix ROps m a) i j) (toq (a j))) = if Nat.eqb i 0 then @qreal RR (hm_alpha m a) else qzero.
Proof.
  intros Hi. destruct (Req_dec (hm_alpha m a) 0) as [Hz|Hnz].
  - rewrite (sumQ_ext RR _ _ (fun j => qmul (if Nat.eqb i j then qone else qzero) (toq (a j)))) by (intros j _; rewrite hh_matrix_z by exact Hz; reflexivity).
    rewrite (sumQ_delta_l RR m (fun j => toq (a j)) (fun _ => qone) i Hi), Hz.
    assert (E : a i = fq0).
    { apply NR_zero. apply (rsum_zero_all m (fun i => NR (a i))); [intros; apply NR_nonneg| |exact Hi].
      unfold hm_alpha in Hz. apply sqrt_eq_0 in Hz; [exact Hz|apply rsum_nonneg; intros; apply NR_nonneg]. }
    rewrite E, toq_0. destruct (Nat.eqb i 0); qrr.
  - destruct m as [|m]; [lia|]. exact (hh_maps_nz m a Hnz i Hi).
Qed.

Lemma tom_mm_meq m k n A B : meq m n (tom (fmm k A B)) (qmm k (tom A) (tom B)).
Proof. intros i j _ _. apply tom_mm. Qed.
Lemma tom_herm_meq m n A : meq m n (tom (fherm A)) (qherm (tom A)).
Proof. intros i j _ _. apply tom_herm. Qed.
Lemma tom_embed k M i j : tom (embed ROps k M) i j = qembed RR k (tom M) i j.
Proof. unfold tom, embed, qembed. destruct (_ || _); [apply toq_delta|reflexivity]. Qed.
Lemma tom_embed_meq n k M : meq n n (tom (embed ROps k M)) (qembed RR k (tom M)).
Proof. intros i j _ _. apply tom_embed. Qed.

Section StepR.
Variables (n k : nat) (P B : fmat ROps).
Hypothesis Hk : (k + 1 <= n)%nat.
Definition colk : nat -> fqR := fun i => B (k + 1 + i)%nat k.
Definition HsR : fmat ROps := hh_matrix ROps (n - (k + 1)) colk.
Definition EkR : qmat RR := qembed RR (k + 1) (tom HsR).
Lemma reduce_step_P : meq n n (tom (fst (reduce_step ROps n k (P, B)))) (qmm n EkR (tom P)).
Proof.
  unfold reduce_step. cbn [fst]. rewrite tom_retab, tom_mm_meq, tom_retab, tom_embed_meq. reflexivity.
Qed.
Lemma reduce_step_B : meq n n (tom (snd (reduce_step ROps n k (P, B)))) (qmm n (qmm n EkR (tom B)) (qherm EkR)).
Proof.
  unfold reduce_step. cbn [snd]. rewrite tom_retab, tom_mm_meq, tom_retab, tom_mm_meq, tom_herm_meq, tom_retab, tom_embed_meq. reflexivity.
Qed.
Lemma EkR_unitary : unitary n EkR.
Proof. replace n with (k + 1 + (n - (k + 1)))%nat at 1 by lia. apply qembed_unitary, hh_unitary. Qed.
Lemma HsR_maps i : (i < n - (k + 1))%nat ->
  sumQ (n - (k + 1)) (fun l => qmul (tom HsR i l) (tom B (k + 1 + l)%nat k)) = if Nat.eqb i 0 then @qreal RR (hm_alpha (n - (k + 1)) colk) else qzero.
Proof. intros Hi. exact (hh_maps (n - (k + 1)) colk i Hi). Qed.
End StepR.

Lemma sim_inv_meq n (A P P' B B' : qmat RR) : meq n n P P' -> meq n n B B' -> sim_inv RR n A P B -> sim_inv RR n A P' B'.
Proof. intros EP EB [HU HS]. split; [now rewrite <- EP|]. now rewrite <- EP, <- EB. Qed.
Lemma below_zero_meq n k (B B' : qmat RR) : (k <= n)%nat -> meq n n B B' -> below_zero RR n k B -> below_zero RR n k B'.
Proof. intros Hk E Hb i j Hj Hij Hi. rewrite <- (E i j) by lia. now apply Hb. Qed.
Lemma sub_real_meq n k (B B' : qmat RR) : (k <= n)%nat -> meq n n B B' -> sub_real RR n k B -> sub_real RR n k B'.
Proof. intros Hk E Hb j Hj Hjn. rewrite <- (E (j + 1)%nat j) by lia. now apply Hb. Qed.
Lemma herm_meq n (B B' : qmat RR) : meq n n B B' -> meq n n (qherm B) B -> meq n n (qherm B') B'.
Proof. intros E H. now rewrite <- E. Qed.

Definition RInv (n : nat) (A : qmat RR) (K : nat) (st : fmat ROps * fmat ROps) : Prop :=
  sim_inv RR n A (tom (fst st)) (tom (snd st)) /\ below_zero RR n K (tom (snd st)) /\ sub_real RR n K (tom (snd st)).
Lemma reduce_step_inv n A K P B : (K + 1 <= n)%nat -> RInv n A K (P, B) -> RInv n A (K + 1) (reduce_step ROps n K (P, B)).
Proof.
  intros HK [Hsim [Hbz Hsr]]. cbn [fst snd] in *.
  pose proof (reduce_step_P n K P B) as EP. pose proof (reduce_step_B n K P B) as EB.
  pose proof (EkR_unitary n K B HK) as HU. pose proof (HsR_maps n K B) as Hmap.
  destruct (Nat.le_exists_sub (K + 1) n HK) as [m [En _]]. rewrite (Nat.add_comm m) in En. subst n.
  replace (K + 1 + m - (K + 1))%nat with m in * by lia.
  assert (EP' := EP). assert (EB' := EB). symmetry in EP', EB'.
  split; [|split].
  - eapply sim_inv_meq; [exact EP'|exact EB'|].
    apply sim_step_inv; [exact HU|exact Hsim].
  - eapply below_zero_meq; [|exact EB'|]; [lia|].
    exact (hess_step RR K m (tom (HsR (K + 1 + m) K B)) (tom B) _ Hmap Hbz).
  - eapply sub_real_meq; [|exact EB'|]; [lia|].
    apply (subreal_step RR K m (tom (HsR (K + 1 + m) K B)) (tom B) _ Hmap); [apply (qconj_real RR)|exact Hsr].
Qed.
Lemma reduce_app (Ops : FOps) n l1 l2 st : reduce Ops n (l1 ++ l2) st = reduce Ops n l2 (reduce Ops n l1 st).
Proof. revert st. induction l1 as [|k l1 IH]; intros st; cbn [reduce app]; [reflexivity|apply IH]. Qed.
Lemma reduce_seq_S (Ops : FOps) n K st : reduce Ops n (seq 0 (S K)) st = reduce_step Ops n K (reduce Ops n (seq 0 K) st).
Proof. rewrite seq_S, reduce_app. reflexivity. Qed.
Theorem reduce_inv n A K st : (K <= n)%nat -> RInv n A 0 st -> RInv n A K (reduce ROps n (seq 0 K) st).
Proof.
  intros HK H0. induction K as [|K IH]; [exact H0|].
  rewrite reduce_seq_S. specialize (IH ltac:(lia)). destruct (reduce ROps n (seq 0 K) st) as [P B].
  replace (S K) with (K + 1)%nat by lia. apply reduce_step_inv; [lia|exact IH].
Qed.
Lemma RInv_init n (A : fmat ROps) : RInv n (tom A) 0 (feye, fretab n n A).
Proof.
  split; [|split]; cbn [fst snd].
  - eapply sim_inv_meq; [| |apply sim_inv_init].
    + intros i j _ _. symmetry. apply tom_eye.
    + symmetry. apply tom_retab.
  - intros i j Hj. lia.
  - intros j Hj. lia.
Qed.
(* C09: hessenbergize before the tolerance clean-up *)
Theorem hessen_correct n (A : fmat ROps) : let '(P, H) := hessen ROps n A in
  unitary n (tom P) /\ meq n n (qmm n (qmm n (tom P) (tom A)) (qherm (tom P))) (tom H) /\ below_zero RR n (n - 2) (tom H).
Proof.
  unfold hessen. pose proof (reduce_inv n (tom A) (n - 2) _ ltac:(lia) (RInv_init n A)) as H.
  destruct (reduce ROps n (seq 0 (n - 2)) (feye, fretab n n A)) as [P Hm]. destruct H as [[HU HS] [HZ _]]. cbn [fst snd] in *. auto.
Qed.
(* C08: tridiagonalize before the clean-up, for Hermitian input *)
Definition real_entry (q : quat RR) : Prop := qconj q = q.
Theorem tridiag_correct n (A : fmat ROps) : meq n n (qherm (tom A)) (tom A) -> let '(P, B) := tridiag ROps n A in
  unitary n (tom P) /\ meq n n (qmm n (qmm n (tom P) (tom A)) (qherm (tom P))) (tom B) /\
  meq n n (qherm (tom B)) (tom B) /\
  (forall i j, (i < n)%nat -> (j < n)%nat -> (j + 1 < i \/ i + 1 < j)%nat -> tom B i j = qzero) /\
  (forall i j, (i < n)%nat -> (j < n)%nat -> real_entry (tom B i j)).
Proof.
  intros HA. unfold tridiag. pose proof (reduce_inv n (tom A) (n - 1) _ ltac:(lia) (RInv_init n A)) as H.
  destruct (reduce ROps n (seq 0 (n - 1)) (feye, fretab n n A)) as [P B]. destruct H as [[HU HS] [HZ HR]]. cbn [fst snd] in *.
  assert (HB : meq n n (qherm (tom B)) (tom B)).
  { rewrite <- HS. rewrite (qherm_mm_meq RR n n n (qmm n (tom P) (tom A)) (qherm (tom P))), (qherm_herm RR n n (tom P)).
    rewrite (qherm_mm_meq RR n n n (tom P) (tom A)), HA. rewrite <- (qmm_assoc RR n n n n (tom P) (tom A) (qherm (tom P))). reflexivity. }
  assert (HT := hess_hermitian_tridiagonal RR n (tom B) HB (below_zero_all RR n (tom B) HZ)).
  repeat (split; [assumption|]).
  intros i j Hi Hj. unfold real_entry.
  destruct (Nat.lt_ge_cases (j + 1) i) as [H1|H1]; [rewrite (HT i j) by auto; apply (qconj_0 RR)|].
  destruct (Nat.lt_ge_cases (i + 1) j) as [H2|H2]; [rewrite (HT i j) by auto; apply (qconj_0 RR)|].
  destruct (Nat.eq_dec i j) as [->|Hne]; [exact (HB j j Hj Hj)|].
  destruct (Nat.eq_dec i (j + 1)) as [->|Hne2]; [apply HR; lia|].
  assert (Ej : j = (i + 1)%nat) by lia. subst j.
  rewrite <- (HB i (i + 1)%nat Hi Hj). unfold qherm. rewrite (qconj_conj RR). symmetry. apply HR; lia.
Qed.

Lemma real_entry_form (q : quat RR) : real_entry q -> q = @qreal RR (qw q).
Proof.
  unfold real_entry. intros H. assert (Hx := f_equal (@qx RR) H). assert (Hy := f_equal (@qy RR) H). assert (Hz := f_equal (@qz RR) H).
  cbn [qconj qx qy qz] in Hx, Hy, Hz. rr in Hx. rr in Hy. rr in Hz.
  apply qeq; qcomp; rr; try reflexivity; lra.
Qed.
(* the tridiagonal clean-up is the identity on a real symmetric tridiagonal matrix *)
Theorem clean_tridiag_id n (B : fmat ROps) :
  (forall i j, (i < n)%nat -> (j < n)%nat -> (j + 1 < i \/ i + 1 < j)%nat -> tom B i j = qzero) ->
  (forall i j, (i < n)%nat -> (j < n)%nat -> real_entry (tom B i j)) ->
  meq n n (tom (clean_tridiag ROps B)) (tom B).
Proof.
  intros HT HR i j Hi Hj. unfold tom at 1. unfold clean_tridiag. destruct (band1 i j) eqn:E.
  - rewrite (real_entry_form _ (HR i j Hi Hj)). apply toq_real.
  - rewrite toq_0. symmetry. apply HT; try assumption. unfold band1 in E. apply andb_false_iff in E.
    destruct E as [E|E]; apply Nat.leb_gt in E; lia.
Qed.
(* the Hessenberg clean-up never touches the Hessenberg part ... *)
Theorem clean_hess_keeps (Ops : FOps) (atol : Ops) (H : fmat Ops) i j : (i <= j + 1)%nat -> clean_hess Ops atol H i j = H i j.
Proof. intros Hij. unfold clean_hess. replace (j + 1 <? i)%nat with false by (symmetry; apply Nat.ltb_ge; lia). reflexivity. Qed.
(* ... moves no component by more than atol ... *)
Lemma fabs_R x : fabs ROps x = Rabs x.
Proof. unfold fabs. ro. unfold Rleb. destruct (Rle_dec 0 x); [now rewrite Rabs_right by lra|now rewrite Rabs_left by lra]. Qed.
Theorem clean_hess_close (atol : R) (H : fmat ROps) i j :
  let d := fqsub (clean_hess ROps atol H i j) (H i j) in
  0 <= atol -> Rabs (fw d) <= atol /\ Rabs (fx d) <= atol /\ Rabs (fy d) <= atol /\ Rabs (fz d) <= atol.
Proof.
  intros d Ha. unfold d, clean_hess. destruct (_ && small4 _ _ _) eqn:E.
  - apply andb_true_iff in E. destruct E as [_ E]. unfold small4 in E. rewrite !andb_true_iff in E. destruct E as [[[E1 E2] E3] E4].
    ro in E1. ro in E2. ro in E3. ro in E4. apply Rleb_true in E1, E2, E3, E4. rewrite fabs_R in E1, E2, E3, E4.
    ro. unfold Rminus. rewrite !Rplus_0_l, !Rabs_Ropp. auto.
  - ro. unfold Rminus. rewrite !Rplus_opp_r, Rabs_R0. auto.
Qed.
(* ... and is the identity on an exactly Hessenberg matrix *)
Theorem clean_hess_exact n (atol : R) (H : fmat ROps) : below_zero RR n (n - 2) (tom H) -> meq n n (tom (clean_hess ROps atol H)) (tom H).
Proof.
  intros HZ i j Hi Hj. unfold tom at 1. unfold clean_hess. destruct (_ && _) eqn:E; [|reflexivity].
  apply andb_true_iff in E. destruct E as [E _]. apply Nat.ltb_lt in E. rewrite toq_0. symmetry. apply HZ; lia.
Qed.

Theorem tridiagonalize_full n (A : fmat ROps) : meq n n (qherm (tom A)) (tom A) -> let '(P, B) := tridiagonalize_model ROps n A in
  unitary n (tom P) /\ meq n n (qmm n (qmm n (tom P) (tom A)) (qherm (tom P))) (tom B) /\
  (forall i j, (i < n)%nat -> (j < n)%nat -> (j + 1 < i \/ i + 1 < j)%nat -> tom B i j = qzero) /\
  (forall i j, (i < n)%nat -> (j < n)%nat -> tom B i j = @qreal RR (fw (B i j)) /\ fw (B i j) = fw (B j i)).
Proof.
  intros HA. unfold tridiagonalize_model. pose proof (tridiag_correct n A HA) as H. destruct (tridiag ROps n A) as [P B].
  destruct H as [HU [HS [HB [HT HR]]]]. pose proof (clean_tridiag_id n B HT HR) as EC.
  split; [exact HU|]. split; [now rewrite EC|]. split.
  - intros i j Hi Hj Hij. rewrite (EC i j Hi Hj). now apply HT.
  - intros i j Hi Hj. split.
    + unfold tom, clean_tridiag. destruct (band1 i j); [apply toq_real|reflexivity].
    + unfold clean_tridiag. assert (Eb : band1 j i = band1 i j) by (unfold band1; apply andb_comm). rewrite Eb.
      destruct (band1 i j); [|reflexivity]. ro.
      pose proof (HB i j Hi Hj) as E. unfold qherm, tom in E. apply (f_equal (@qw RR)) in E. cbn [qconj qw toq] in E. symmetry. exact E.
Qed.
(* 1 x 1: eigen.py l.79-84 returns (Re a, [[1]]) *)
Theorem eigen_1x1 (a : quat RR) : qconj a = a -> qmul a qone = qmul qone (@qreal RR (qw a)).
Proof. intros H. rewrite (real_entry_form a H) at 1. apply qeq; qcomp; rr; ring. Qed.

(* C09: hessenbergize including its clean-up *)
Theorem hessenbergize_full n (atol : R) (A : fmat ROps) : let '(P, Hm) := hessenbergize_model ROps atol n A in
  unitary n (tom P) /\ meq n n (qmm n (qmm n (tom P) (tom A)) (qherm (tom P))) (tom Hm) /\
  (forall i j, (i < n)%nat -> (j + 1 < i)%nat -> tom Hm i j = qzero) /\ frob2 n n (tom Hm) = frob2 n n (tom A).
Proof.
  unfold hessenbergize_model. pose proof (hessen_correct n A) as H. destruct (hessen ROps n A) as [P Hm].
  destruct H as [HU [HS HZ]]. pose proof (clean_hess_exact n atol Hm HZ) as EC.
  assert (HS' : meq n n (qmm n (qmm n (tom P) (tom A)) (qherm (tom P))) (tom (clean_hess ROps atol Hm))) by now rewrite EC.
  split; [exact HU|]. split; [exact HS'|]. split.
  - intros i j Hi Hij. destruct (Nat.lt_ge_cases j n) as [Hj|Hj]; [|lia]. rewrite (EC i j Hi Hj). apply HZ; lia.
  - apply (similarity_frob2 RR n (tom A) (tom P)). split; assumption.
Qed.
