(* A homogeneous quaternion system with more unknowns than equations has a non-trivial (right) solution:
     for every i x (i+1) matrix W there is z <> 0 with  sum_j W_rj z_j = 0  for all rows r.
   (Elimination over the division ring of real quaternions; used for the min-max side of the singular values.) *)
From Coq Require Import Reals Lra Psatz Arith Lia.
From QV Require Import CRing CRingR Sums Quat Mat QMat.
From QVT Require Import CauchySchwarz.
Local Open Scope R_scope.
Add Ring RRk : (cr_th RR).

Notation qR := (quat RR).
Definition qinv (q : qR) : qR := @qscale RR (/ N q) (qconj q).
Lemma N_zero_iff (q : qR) : N q = 0 <-> q = qzero.
Proof.
  split.
  - intros H. destruct q as [a b c d]. unfold N, qnorm2 in H. cbn [qw qx qy qz car cadd cmul RR] in H.
    assert (a = 0) by nra. assert (b = 0) by nra. assert (c = 0) by nra. assert (d = 0) by nra. subst. reflexivity.
  - intros ->. unfold N, qnorm2, qzero. cbn. ring.
Qed.
Lemma qinv_r (q : qR) : q <> qzero -> qmul q (qinv q) = qone.
Proof.
  intros H. assert (Hn : N q <> 0) by (intros E; apply H, N_zero_iff, E).
  unfold qinv. destruct q as [a b c d]. unfold N, qnorm2 in *. cbn [qw qx qy qz car cadd cmul RR] in Hn.
  apply qeq; cbn [qmul qscale qconj qone qw qx qy qz car c0 c1 cadd cmul csub copp RR]; field; exact Hn.
Qed.
Lemma quat_eq_dec (p q : qR) : {p = q} + {p <> q}.
Proof.
  destruct p as [a b c d], q as [a' b' c' d'].
  destruct (Req_EM_T a a') as [->|Na]; [|right; intros E; apply Na; now inversion E].
  destruct (Req_EM_T b b') as [->|Nb]; [|right; intros E; apply Nb; now inversion E].
  destruct (Req_EM_T c c') as [->|Nc]; [|right; intros E; apply Nc; now inversion E].
  destruct (Req_EM_T d d') as [->|Nd]; [|right; intros E; apply Nd; now inversion E].
  left; reflexivity.
Qed.
Lemma row_zero_dec n (f : nat -> qR) : (forall j, (j < n)%nat -> f j = qzero) \/ (exists c, (c < n)%nat /\ f c <> qzero).
Proof.
  induction n as [|n IH]; [left; intros; lia|].
  destruct IH as [Z|[c [Hc Hn]]]; [|right; exists c; split; [lia|exact Hn]].
  destruct (quat_eq_dec (f n) qzero) as [E|NE]; [left; intros j Hj; destruct (Nat.eq_dec j n) as [->|]; [exact E|apply Z; lia]|right; exists n; split; [lia|exact NE]].
Qed.

(* removing index c from a sum *)
Definition skip (c j : nat) : nat := if Nat.ltb j c then j else S j.
Lemma sumQ_remove n c (f : nat -> qR) : (c <= n)%nat -> sumQ (S n) f = qadd (f c) (sumQ n (fun j => f (skip c j))).
Proof.
  induction n as [|n IH]; intros Hc.
  - assert (c = 0)%nat by lia. subst. cbn [sumQ]. qr.
  - destruct (Nat.eq_dec c (S n)) as [->|NE].
    + rewrite (sumQ_ext RR (S n) (fun j => f (skip (S n) j)) f).
      * cbn [sumQ]. qr.
      * intros j Hj. unfold skip. destruct (Nat.ltb_spec j (S n)); [reflexivity|lia].
    + change (sumQ (S (S n)) f) with (qadd (sumQ (S n) f) (f (S n))). rewrite IH by lia.
      change (sumQ (S n) (fun j => f (skip c j))) with (qadd (sumQ n (fun j => f (skip c j))) (f (skip c n))).
      assert (E : skip c n = S n) by (unfold skip; destruct (Nat.ltb_spec n c); [lia|reflexivity]). rewrite E. qr.
Qed.

Theorem kernel_vector : forall i (W : nat -> nat -> qR),
  exists z : nat -> qR, (exists j, (j < S i)%nat /\ z j <> qzero) /\ forall r, (r < i)%nat -> sumQ (S i) (fun j => qmul (W r j) (z j)) = qzero.
Proof.
  induction i as [|i IH]; intros W.
  - exists (fun _ => qone). split; [exists 0%nat; split; [lia|intros E; inversion E; lra]|intros r Hr; lia].
  - destruct (row_zero_dec (S (S i)) (W 0%nat)) as [Z|[c [Hc Ha]]].
    + (* first row is zero: solve the remaining rows on the first S i unknowns *)
      destruct (IH (fun r j => W (S r) j)) as [z' [[j0 [Hj0 Hz0]] Hrows]].
      exists (fun j => if Nat.ltb j (S i) then z' j else qzero). split.
      * exists j0. split; [lia|]. destruct (Nat.ltb_spec j0 (S i)); [exact Hz0|lia].
      * intros r Hr. change (sumQ (S (S i)) ?f) with (qadd (sumQ (S i) f) (f (S i))). cbv beta.
        destruct (Nat.ltb_spec (S i) (S i)); [lia|].
        destruct r as [|r].
        -- rewrite (sumQ_ext RR (S i) _ (fun _ => qzero)); [rewrite (sumQ_zero RR); qr|]. intros j Hj. rewrite (Z j) by lia. qr.
        -- rewrite (sumQ_ext RR (S i) _ (fun j => qmul (W (S r) j) (z' j))).
           ++ rewrite (Hrows r) by lia. qr.
           ++ intros j Hj. destruct (Nat.ltb_spec j (S i)); [reflexivity|lia].
    + (* eliminate unknown c with the first row *)
      set (a := W 0%nat c) in *. set (ai := qinv a).
      assert (Hai : qmul a ai = qone) by (apply qinv_r; exact Ha).
      set (W' := fun r j => qsub (W (S r) (skip c j)) (qmul (qmul (W (S r) c) ai) (W 0%nat (skip c j)))).
      destruct (IH W') as [z' [[j0 [Hj0 Hz0]] Hrows]].
      set (T := sumQ (S i) (fun j => qmul (W 0%nat (skip c j)) (z' j))).
      set (zc := qopp (qmul ai T)).
      set (unskip := fun k => if Nat.ltb k c then k else (k - 1)%nat).
      set (z := fun k => if Nat.eqb k c then zc else z' (unskip k)).
      assert (Zs : forall j, z (skip c j) = z' j).
      { intros j. unfold z, unskip, skip. destruct (Nat.ltb_spec j c).
        - replace (Nat.eqb j c) with false by (symmetry; apply Nat.eqb_neq; lia). destruct (Nat.ltb_spec j c); [reflexivity|lia].
        - replace (Nat.eqb (S j) c) with false by (symmetry; apply Nat.eqb_neq; lia). destruct (Nat.ltb_spec (S j) c); [lia|]. f_equal. lia. }
      assert (Zc : z c = zc) by (unfold z; now rewrite Nat.eqb_refl).
      exists z. split.
      * exists (skip c j0). split; [unfold skip; destruct (Nat.ltb_spec j0 c); lia|]. rewrite Zs. exact Hz0.
      * intros r Hr. rewrite (sumQ_remove (S i) c _ ltac:(lia)). rewrite Zc.
        rewrite (sumQ_ext RR (S i) (fun j => qmul (W r (skip c j)) (z (skip c j))) (fun j => qmul (W r (skip c j)) (z' j))) by (intros; now rewrite Zs).
        destruct r as [|r].
        -- fold a. fold T. unfold zc.
           transitivity (qsub T (qmul (qmul a ai) T)); [qr|]. rewrite Hai. qr.
        -- specialize (Hrows r ltac:(lia)). unfold W' in Hrows.
           assert (E : sumQ (S i) (fun j => qmul (qsub (W (S r) (skip c j)) (qmul (qmul (W (S r) c) ai) (W 0%nat (skip c j)))) (z' j))
                       = qsub (sumQ (S i) (fun j => qmul (W (S r) (skip c j)) (z' j))) (qmul (qmul (W (S r) c) ai) T)).
           { unfold T. rewrite (sumQ_mul_l RR), <- (sumQ_sub RR). apply (sumQ_ext RR). intros j _. qr. }
           rewrite E in Hrows. unfold zc.
           transitivity (qsub (sumQ (S i) (fun j => qmul (W (S r) (skip c j)) (z' j))) (qmul (qmul (W (S r) c) ai) T)); [qr|exact Hrows].
Qed.
