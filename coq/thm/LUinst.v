(* The Qc instance satisfies the hypotheses of the abstract LU theorems. *)
From Coq Require Import ZArith QArith Qcanon Arith List Bool Lia Field.
From QV Require Import CRing Sums Quat Mat QMat.
From QVM Require Import LU LUexec.
From QVT Require Import LUthm.
Import ListNotations.
Close Scope Q_scope. Open Scope nat_scope.

Lemma smallQ_false_pos p : smallQ p = false -> (qn2Q p <> 0)%Qc.
Proof.
  unfold smallQ. destruct (Qclt_le_dec (qn2Q p) tinyQ) as [|Hle]; [discriminate|]. intros _ E.
  rewrite E in Hle. revert Hle. unfold tinyQ. intros H. vm_compute in H. apply H. reflexivity.
Qed.
Lemma qinvQ_l p : smallQ p = false -> qmul (qinvQ p) p = qone.
Proof.
  intros H. apply smallQ_false_pos in H. unfold qinvQ, qn2Q, qnorm2 in *.
  destruct p as [w x y z]. cbn [qw qx qy qz cadd cmul QcR car] in *.
  apply qeq; cbn [qmul qone qw qx qy qz cadd cmul csub copp c0 c1 QcR car]; field; exact H.
Qed.
Lemma argmax_range W c : forall cnt i best bv lo, lo <= best < i -> lo <= argmax_from W c i cnt best bv < i + cnt.
Proof.
  induction cnt as [|k IH]; intros i best bv lo H; cbn [argmax_from]; [lia|].
  destruct (Qclt_le_dec bv (qn2Q (W i c))).
  - specialize (IH (S i) i (qn2Q (W i c)) lo ltac:(lia)). lia.
  - specialize (IH (S i) best bv lo ltac:(lia)). lia.
Qed.
Lemma pivotQ_range m W j : j < m -> j <= pivotQ m W j < m.
Proof. intros H. unfold pivotQ.
  pose proof (argmax_range W j (m - S j) (S j) j (qn2Q (W j j)) j ltac:(lia)). lia. Qed.
Lemma nth_map_seq {T} (f : nat -> T) d n i : i < n -> nth i (map f (seq 0 n)) d = f i.
Proof. intros H. rewrite (nth_indep _ d (f 0)) by (rewrite map_length, seq_length; exact H).
  rewrite (map_nth f (seq 0 n) 0 i), seq_nth by exact H. reflexivity. Qed.
Lemma retabQ_ok m n W i c : i < m -> c < n -> retabQ m n W i c = W i c.
Proof. intros Hi Hc. unfold retabQ, qof_listQ, qto_list.
  rewrite (nth_map_seq (fun i => map (fun j => W i j) (seq 0 n)) [] m i Hi).
  apply (nth_map_seq (fun j => W i j) q0Q n c Hc). Qed.
Lemma retabpQ_ok m IP i : i < m -> retabpQ m IP i = IP i.
Proof. intros Hi. unfold retabpQ. apply (nth_map_seq IP 0 m i Hi). Qed.

(* the executed model: P A = L U whenever it returns, for every shape *)
Theorem luQ_PA_eq_LU m n A Wf IPf : luQ m n A = Some (Wf, IPf) ->
  forall i c, i < m -> c < n -> A (IPf i) c = qmm (Nat.min m n) (Lof QcR Wf) (Uof QcR Wf) i c.
Proof. apply (lu_PA_eq_LU QcR qinvQ smallQ pivotQ retabQ retabpQ qinvQ_l pivotQ_range retabQ_ok retabpQ_ok). Qed.
Theorem luQ_IP_is_perm m n A Wf IPf : luQ m n A = Some (Wf, IPf) -> is_perm m IPf.
Proof. apply (lu_IP_is_perm QcR qinvQ smallQ pivotQ retabQ retabpQ pivotQ_range retabpQ_ok). Qed.
Theorem luQ_two_output m n A Wf IPf : luQ m n A = Some (Wf, IPf) ->
  forall i c, i < m -> c < n -> A (IPf i) c = qmm (Nat.min m n) (Lperm QcR m Wf IPf) (Uof QcR Wf) (IPf i) c.
Proof. apply (lu_two_output QcR qinvQ smallQ pivotQ retabQ retabpQ qinvQ_l pivotQ_range retabQ_ok retabpQ_ok). Qed.
