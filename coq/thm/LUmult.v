(* C07: every multiplier of the executed LU (first arg-max pivot of the squared modulus, 1e-15 guard) has
   modulus at most 1: |L[i,k]|^2 <= 1 for every i > k, every shape. *)
From Coq Require Import ZArith QArith Qcanon Arith List Bool Lia Field.
From QV Require Import CRing Sums Quat Mat QMat.
From QVM Require Import LU LUexec.
From QVT Require Import LUthm LUinst.
Import ListNotations.
Local Open Scope Qc_scope.

(* the arg-max search returns a row whose squared modulus dominates every row it looked at *)
Lemma argmax_dominates W c : forall cnt i best bv,
  bv = qn2Q (W best c) ->
  let r := argmax_from W c i cnt best bv in
  bv <= qn2Q (W r c) /\ (forall t, (i <= t < i + cnt)%nat -> qn2Q (W t c) <= qn2Q (W r c)).
Proof.
  induction cnt as [|k IH]; intros i best bv Hbv; cbn [argmax_from].
  - split; [rewrite Hbv; apply Qcle_refl|intros t Ht; lia].
  - destruct (Qclt_le_dec bv (qn2Q (W i c))) as [Hlt|Hge].
    + destruct (IH (S i) i (qn2Q (W i c)) eq_refl) as [H1 H2]. split.
      * eapply Qcle_trans; [apply Qclt_le_weak; exact Hlt|exact H1].
      * intros t Ht. destruct (Nat.eq_dec t i) as [->|Hne]; [exact H1|apply H2; lia].
    + destruct (IH (S i) best bv Hbv) as [H1 H2]. split; [exact H1|].
      intros t Ht. destruct (Nat.eq_dec t i) as [->|Hne]; [eapply Qcle_trans; [exact Hge|exact H1]|apply H2; lia].
Qed.
Lemma pivotQ_argmax m W j i : (j <= i < m)%nat -> qn2Q (W i j) <= qn2Q (W (pivotQ m W j) j).
Proof.
  intros Hi. unfold pivotQ. destruct (argmax_dominates W j (m - S j) (S j) j (qn2Q (W j j)) eq_refl) as [H1 H2].
  destruct (Nat.eq_dec i j) as [->|Hne]; [exact H1|apply H2; lia].
Qed.
Lemma qn2Q_mul (p q : quatQ) : qn2Q (qmul p q) = qn2Q p * qn2Q q.
Proof. unfold qn2Q. apply (qnorm2_mul QcR). Qed.
Lemma qn2Q_inv p : qn2Q p <> 0 -> qn2Q (qinvQ p) * qn2Q p = 1.
Proof.
  intros H. unfold qinvQ, qn2Q, qnorm2 in *. cbn [qw qx qy qz car cadd cmul QcR] in *. field. exact H.
Qed.
Lemma tinyQ_pos : 0 < tinyQ. Proof. reflexivity. Qed.
Lemma smallQ_false_gt p : smallQ p = false -> 0 < qn2Q p.
Proof. unfold smallQ. destruct (Qclt_le_dec (qn2Q p) tinyQ) as [|H]; [discriminate|]. intros _. eapply Qclt_le_trans; [apply tinyQ_pos|exact H]. Qed.
(* a quotient by a dominating non-small pivot has squared modulus at most 1 *)
Lemma multiplier_le_1 x y : smallQ y = false -> qn2Q x <= qn2Q y -> qn2Q (qmul x (qinvQ y)) <= 1.
Proof.
  intros Hs Hle. pose proof (smallQ_false_gt y Hs) as Hpos.
  assert (Hne : qn2Q y <> 0) by (intros E; rewrite E in Hpos; discriminate Hpos).
  apply (Qcmult_lt_0_le_reg_r _ _ (qn2Q y) Hpos).
  rewrite qn2Q_mul, <- Qcmult_assoc, (qn2Q_inv y Hne), Qcmult_1_r, Qcmult_1_l. exact Hle.
Qed.

Section Mult.
Variables (m n : nat).
Definition Mul (j : nat) (W : qmat QcR) : Prop := forall i k, (k < j)%nat -> (k < i < m)%nat -> qn2Q (W i k) <= 1.
Lemma mul_step j W IP W' IP' : (j < m)%nat -> Mul j W -> step QcR qinvQ smallQ pivotQ m j W IP = Some (W', IP') -> Mul (S j) W'.
Proof.
  intros Hj HM Hst. unfold step in Hst. set (p := pivotQ m W j) in *.
  pose proof (pivotQ_range m W j Hj) as Hp. fold p in Hp.
  destruct (Nat.ltb (S j) m && smallQ (swap_rows QcR W j p j j)) eqn:Eg; [discriminate|]. injection Hst as <- _.
  intros i k Hk Hi. unfold update, scale.
  destruct (Nat.eq_dec k j) as [->|Hkj].
  - replace (Nat.ltb j j) with false by (symmetry; apply Nat.ltb_irrefl). rewrite andb_false_r.
    replace (Nat.ltb j i) with true by (symmetry; apply Nat.ltb_lt; lia). rewrite Nat.eqb_refl. cbn [andb].
    apply andb_false_iff in Eg. destruct Eg as [Eg|Eg]; [apply Nat.ltb_ge in Eg; lia|].
    apply multiplier_le_1; [exact Eg|]. unfold swap_rows. unfold swapi at 2. rewrite Nat.eqb_refl.
    apply pivotQ_argmax. unfold swapi. destruct (Nat.eqb i j); [lia|]. destruct (Nat.eqb i p); lia.
  - assert (Hlt : (k < j)%nat) by lia.
    replace (Nat.ltb j k) with false by (symmetry; apply Nat.ltb_ge; lia). rewrite andb_false_r.
    replace (Nat.eqb k j) with false by (symmetry; apply Nat.eqb_neq; lia). rewrite andb_false_r.
    unfold swap_rows. apply HM; [exact Hlt|]. unfold swapi. destruct (Nat.eqb i j); [lia|]. destruct (Nat.eqb i p); lia.
Qed.
Lemma mul_loop len : forall j0 W IP Wf IPf, (j0 + len <= m)%nat -> (j0 + len <= n)%nat -> Mul j0 W ->
  loop QcR qinvQ smallQ pivotQ retabQ retabpQ m n (seq j0 len) W IP = Some (Wf, IPf) -> Mul (j0 + len) Wf.
Proof.
  induction len as [|len IH]; intros j0 W IP Wf IPf Hm Hn HM Hl; cbn [seq loop] in Hl.
  - injection Hl as <- _. now rewrite Nat.add_0_r.
  - destruct (step QcR qinvQ smallQ pivotQ m j0 W IP) as [[W' IP']|] eqn:Es; [|discriminate].
    pose proof (mul_step j0 W IP W' IP' ltac:(lia) HM Es) as HM'.
    assert (HM'' : Mul (S j0) (retabQ m n W')) by (intros i k Hk Hi; rewrite retabQ_ok by lia; now apply HM').
    specialize (IH (S j0) _ _ Wf IPf ltac:(lia) ltac:(lia) HM'' Hl). now replace (j0 + S len)%nat with (S j0 + len)%nat by lia.
Qed.
Theorem luQ_multipliers_le_1 A Wf IPf : luQ m n A = Some (Wf, IPf) ->
  forall i k, (k < i < m)%nat -> (k < n)%nat -> qn2Q (Lof QcR Wf i k) <= 1.
Proof.
  intros Hlu i k Hi Hk. unfold luQ, lu in Hlu.
  pose proof (mul_loop (Nat.min m n) 0 A (fun i => i) Wf IPf ltac:(lia) ltac:(lia) ltac:(intros ? ? H; lia) Hlu) as HM.
  unfold Lof. replace (Nat.ltb k i) with true by (symmetry; apply Nat.ltb_lt; lia). apply HM; lia.
Qed.
End Mult.
