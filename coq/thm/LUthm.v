(* C07: PA = LU for the model of quaternion_lu, for every shape and EVERY pivot rule with
   j <= pivot < m; permutation, triangular structure, two-output mode. *)
From Coq Require Import Arith Lia Bool List Ring.
From QV Require Import CRing Sums Quat Mat QMat.
From QVM Require Import LU.
Import ListNotations.


Section LUthm.
Variable C : CRing.
Add Ring Cr : (cr_th C).
Notation quat := (quat C).
Notation qmat := (qmat C).
Variable inv : quat -> quat.
Variable small : quat -> bool.
Variable pivot : nat -> qmat -> nat -> nat.
Variable retab : nat -> nat -> qmat -> qmat.
Variable retabp : nat -> (nat -> nat) -> (nat -> nat).
Hypothesis inv_l : forall p, small p = false -> qmul (inv p) p = qone.
Hypothesis pivot_range : forall m W j, j < m -> j <= pivot m W j < m.
Hypothesis retab_ok : forall m n W i c, i < m -> c < n -> retab m n W i c = W i c.
Hypothesis retabp_ok : forall m IP i, i < m -> retabp m IP i = IP i.

Variables (m n : nat) (A : qmat).

Definition Inv (j : nat) (W : qmat) (IP : nat -> nat) : Prop :=
  forall i c, i < m -> c < n ->
    A (IP i) c = qadd (sumQ j (fun k => qmul (Lof C W i k) (Uof C W k c)))
                      (if (j <=? i) && (j <=? c) then W i c else qzero).

Lemma swapi_lt a b i : a < m -> b < m -> i < m -> swapi a b i < m.
Proof. unfold swapi. intros. destruct (i =? a); [lia|destruct (i =? b); lia]. Qed.

Lemma inv_swap j W IP p : j < m -> j <= p < m -> Inv j W IP ->
  Inv j (swap_rows C W j p) (fun i => IP (swapi j p i)).
Proof.
  intros Hj Hp H i c Hi Hc. unfold swap_rows.
  assert (Hs : swapi j p i < m) by (apply swapi_lt; lia).
  rewrite (H _ _ Hs Hc).
  assert (E : forall k, k < j ->
     qmul (Lof C (fun i0 c0 => W (swapi j p i0) c0) i k) (Uof C (fun i0 c0 => W (swapi j p i0) c0) k c)
     = qmul (Lof C W (swapi j p i) k) (Uof C W k c)).
  { intros k Hk. unfold Lof, Uof, swapi.
    replace (k =? j) with false by (symmetry; apply Nat.eqb_neq; lia).
    replace (k =? p) with false by (symmetry; apply Nat.eqb_neq; lia).
    destruct (Nat.eqb_spec i j) as [->|]; [|destruct (Nat.eqb_spec i p) as [->|]]; try reflexivity.
    - replace (k <? j) with true by (symmetry; apply Nat.ltb_lt; lia).
      replace (k <? p) with true by (symmetry; apply Nat.ltb_lt; lia). reflexivity.
    - replace (k <? j) with true by (symmetry; apply Nat.ltb_lt; lia).
      replace (k <? p) with true by (symmetry; apply Nat.ltb_lt; lia). reflexivity. }
  rewrite (sumQ_ext C j _ _ E). f_equal.
  unfold swapi. destruct (Nat.eqb_spec i j) as [->|]; [|destruct (Nat.eqb_spec i p) as [->|]; [|reflexivity]].
  - replace (j <=? p) with true by (symmetry; apply Nat.leb_le; lia). now rewrite Nat.leb_refl.
  - replace (j <=? p) with true by (symmetry; apply Nat.leb_le; lia). now rewrite Nat.leb_refl.
Qed.

Lemma inv_elim j W IP : j < m ->
  (S j < m -> small (W j j) = false) -> Inv j W IP -> Inv (S j) (update C (scale C inv W j) j) IP.
Proof.
  intros Hj Hpiv H i c Hi Hc. rewrite (H i c Hi Hc). cbn [sumQ].
  set (W' := update C (scale C inv W j) j).
  assert (E : forall k, k < j -> qmul (Lof C W' i k) (Uof C W' k c) = qmul (Lof C W i k) (Uof C W k c)).
  { intros k Hk. unfold Lof, Uof, W', update, scale.
    destruct (Nat.lt_trichotomy k i) as [Hki|[Hki|Hki]]; destruct (Nat.le_gt_cases k c); nb; reflexivity. }
  rewrite (sumQ_ext C j _ _ E). set (S0 := sumQ j _).
  unfold Lof, Uof, W', update, scale.
  destruct (Nat.lt_trichotomy i j) as [Hij|[Hij|Hij]];
  destruct (Nat.lt_trichotomy c j) as [Hcj|[Hcj|Hcj]]; subst; nb; try qr.
  (* remaining: i > j, c = j : uses the pivot inverse *)
  assert (Hm : S j < m) by lia. specialize (Hpiv Hm).
  transitivity (qadd (qadd S0 (qmul (W i j) (qmul (inv (W j j)) (W j j)))) qzero); [rewrite (inv_l _ Hpiv)|]; qr.
Qed.

Theorem step_preserves j W IP W' IP' : j < m -> Inv j W IP ->
  step C inv small pivot m j W IP = Some (W', IP') -> Inv (S j) W' IP'.
Proof.
  intros Hj H. unfold step. destruct (_ && _) eqn:Eg; [discriminate|]. intros [= <- <-].
  apply inv_elim; [assumption| |apply inv_swap; auto].
  intros Hm. apply andb_false_iff in Eg. destruct Eg as [Eg|Eg]; [|exact Eg].
  apply Nat.ltb_ge in Eg. lia.
Qed.

Lemma Inv_ext j W W' IP IP' : j <= m -> j <= n ->
  (forall i c, i < m -> c < n -> W' i c = W i c) -> (forall i, i < m -> IP' i = IP i) ->
  Inv j W IP -> Inv j W' IP'.
Proof.
  intros Hjm Hjn HW HP H i c Hi Hc. rewrite HP by assumption. rewrite (H i c Hi Hc). f_equal.
  - apply sumQ_ext. intros k Hk. unfold Lof, Uof.
    destruct (k <? i); [rewrite HW by lia|]; (destruct (k <=? c); [rewrite HW by lia|]); reflexivity.
  - destruct ((j <=? i) && (j <=? c)); [rewrite HW by assumption|]; reflexivity.
Qed.

Lemma loop_preserves len : forall j0 W IP Wf IPf, j0 + len <= m -> j0 + len <= n -> Inv j0 W IP ->
  loop C inv small pivot retab retabp m n (seq j0 len) W IP = Some (Wf, IPf) -> Inv (j0 + len) Wf IPf.
Proof.
  induction len as [|len IH]; intros j0 W IP Wf IPf Hm Hn H; cbn [seq loop].
  - intros [= <- <-]. now rewrite Nat.add_0_r.
  - destruct (step C inv small pivot m j0 W IP) as [[W' IP']|] eqn:Es; [|discriminate].
    intros Hl. replace (j0 + S len) with (S j0 + len) by lia.
    apply (IH (S j0) (retab m n W') (retabp m IP')); try lia; [|exact Hl].
    apply (Inv_ext (S j0) W' _ IP' _); try lia; [intros; now apply retab_ok|intros; now apply retabp_ok|].
    apply (step_preserves j0 W IP); [lia|assumption|assumption].
Qed.

(* main theorem: whenever the factorisation returns, P A = L U *)
Theorem lu_PA_eq_LU Wf IPf : lu C inv small pivot retab retabp m n A = Some (Wf, IPf) ->
  forall i c, i < m -> c < n ->
    A (IPf i) c = qmm (Nat.min m n) (Lof C Wf) (Uof C Wf) i c.
Proof.
  unfold lu. intros Hl i c Hi Hc.
  assert (H0 : Inv 0 A (fun i => i)).
  { intros i0 c0 _ _. cbn [sumQ]. cbn. qr. }
  pose proof (loop_preserves (Nat.min m n) 0 A (fun i => i) Wf IPf ltac:(lia) ltac:(lia) H0 Hl) as H.
  cbn [Nat.add] in H. rewrite (H i c Hi Hc). unfold qmm.
  replace ((Nat.min m n <=? i) && (Nat.min m n <=? c)) with false; [qr|].
  symmetry. apply andb_false_iff. destruct (Nat.min_dec m n) as [E|E]; rewrite E;
  [left; apply Nat.leb_gt; lia|right; apply Nat.leb_gt; lia].
Qed.

(* structure of the factors *)
Theorem L_unit_lower W i k : (i < k -> Lof C W i k = qzero) /\ Lof C W i i = qone.
Proof. unfold Lof. split; [intros; nb; reflexivity|nb; reflexivity]. Qed.
Theorem U_upper W k c : c < k -> Uof C W k c = qzero.
Proof. intros. unfold Uof. nb. reflexivity. Qed.

(* permutation: IP stays a bijection of [0, m) *)
Definition is_perm (IP : nat -> nat) : Prop :=
  (forall i, i < m -> IP i < m) /\ (forall i i', i < m -> i' < m -> IP i = IP i' -> i = i').
Lemma swapi_inj a b i i' : swapi a b i = swapi a b i' -> i = i'.
Proof. unfold swapi. destruct (Nat.eqb_spec i a), (Nat.eqb_spec i' a), (Nat.eqb_spec i b), (Nat.eqb_spec i' b); lia. Qed.
Lemma perm_step j W IP W' IP' : j < m -> is_perm IP ->
  step C inv small pivot m j W IP = Some (W', IP') -> is_perm IP'.
Proof.
  intros Hj [Hr Hi]. unfold step. destruct (_ && _); [discriminate|]. intros [= _ <-].
  pose proof (pivot_range m W j Hj) as Hp. split.
  - intros i H. apply Hr. apply swapi_lt; lia.
  - intros i i' H H' E. apply Hi in E; [now apply swapi_inj in E|apply swapi_lt; lia|apply swapi_lt; lia].
Qed.
Lemma perm_ext IP IP' : (forall i, i < m -> IP' i = IP i) -> is_perm IP -> is_perm IP'.
Proof. intros E [Hr Hi]. split.
  - intros i H. rewrite E by assumption. now apply Hr.
  - intros i i' H H'. rewrite !E by assumption. now apply Hi. Qed.
Lemma perm_loop len : forall j0 W IP Wf IPf, j0 + len <= m -> is_perm IP ->
  loop C inv small pivot retab retabp m n (seq j0 len) W IP = Some (Wf, IPf) -> is_perm IPf.
Proof.
  induction len as [|len IH]; intros j0 W IP Wf IPf Hm H; cbn [seq loop].
  - now intros [= _ <-].
  - destruct (step C inv small pivot m j0 W IP) as [[W' IP']|] eqn:Es; [|discriminate].
    intros Hl. apply (IH (S j0) (retab m n W') (retabp m IP') Wf IPf); try lia; [|exact Hl].
    apply (perm_ext IP'); [intros; now apply retabp_ok|]. apply (perm_step j0 W IP W'); [lia|assumption|assumption].
Qed.
Theorem lu_IP_is_perm Wf IPf : lu C inv small pivot retab retabp m n A = Some (Wf, IPf) -> is_perm IPf.
Proof. unfold lu. intros Hl. apply (perm_loop (Nat.min m n) 0 A (fun i => i) Wf IPf); [lia| |exact Hl].
  split; auto. Qed.
(* P has exactly one 1 per row, at column IP i *)
Theorem P_is_permutation_matrix IP i r : Pof C IP i r = if r =? IP i then qone else qzero.
Proof. reflexivity. Qed.

(* two-output mode: A = Lperm U *)
Lemma find_inv_ok IP r cnt : forall i, i < cnt -> IP i = r ->
  (forall i i', i < m -> i' < m -> IP i = IP i' -> i = i') -> cnt <= m -> find_inv IP r cnt = i.
Proof.
  induction cnt as [|k IH]; intros i Hi E Hinj Hc; [lia|]. cbn [find_inv].
  destruct (Nat.eqb_spec (IP k) r) as [Ek|Ek].
  - apply Hinj; [lia|lia|congruence].
  - apply IH; try lia; try assumption. assert (i <> k) by (intros ->; congruence). lia.
Qed.
Theorem lu_two_output Wf IPf : lu C inv small pivot retab retabp m n A = Some (Wf, IPf) ->
  forall i c, i < m -> c < n ->
    A (IPf i) c = qmm (Nat.min m n) (Lperm C m Wf IPf) (Uof C Wf) (IPf i) c.
Proof.
  intros Hl i c Hi Hc. rewrite (lu_PA_eq_LU Wf IPf Hl i c Hi Hc).
  destruct (lu_IP_is_perm Wf IPf Hl) as [_ Hinj].
  unfold qmm, Lperm. rewrite (find_inv_ok IPf (IPf i) m i Hi eq_refl Hinj (le_n m)). reflexivity.
Qed.
End LUthm.
