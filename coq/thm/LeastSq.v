(* Normal equations characterise the minimal residual (used for the Krylov minimal-residual
   specification of C04 in the real embedding): over R. *)
From Coq Require Import Reals Lra Psatz Arith Lia.
From QV Require Import CRing CRingR Sums.
From QVT Require Import CauchySchwarz.
Local Open Scope R_scope.

Section LS.
Variables (p q : nat) (M : nat -> nat -> R) (b : nat -> R).
Definition Mv (y : nat -> R) (i : nat) : R := @sumR RR q (fun j => M i j * y j).
Definition resid (y : nat -> R) (i : nat) : R := b i - Mv y i.
Definition nrm2 (v : nat -> R) : R := @sumR RR p (fun i => v i * v i).
Definition normal_eq (y : nat -> R) : Prop := forall j, (j < q)%nat -> @sumR RR p (fun i => M i j * resid y i) = 0.

Lemma nrm2_nonneg v : 0 <= nrm2 v.
Proof. unfold nrm2. apply sumR_nonneg. intros. nra. Qed.

Theorem normal_equations_minimise y z : normal_eq y -> nrm2 (resid y) <= nrm2 (resid z).
Proof.
  intros Hy.
  set (w := fun i => Mv (fun j => y j - z j) i).
  assert (Ez : forall i, resid z i = resid y i + w i).
  { intros i. unfold resid, w, Mv.
    assert (E : @sumR RR q (fun j => M i j * (y j - z j)) = @sumR RR q (fun j => M i j * y j) - @sumR RR q (fun j => M i j * z j)).
    { rewrite (sumR_ext RR q (fun j => M i j * (y j - z j)) (fun j => @csub RR (M i j * y j) (M i j * z j))) by (intros; rr; ring).
      apply (sumR_sub RR). }
    rewrite E. lra. }
  assert (Eo : @sumR RR p (fun i => resid y i * w i) = 0).
  { unfold w, Mv.
    transitivity (@sumR RR p (fun i => @sumR RR q (fun j => (y j - z j) * (M i j * resid y i)))).
    - apply (sumR_ext RR). intros i _. change Rmult with (@cmul RR). rewrite <- (sumR_mul_l RR). apply (sumR_ext RR). intros. rr. ring.
    - rewrite (sumR_swap RR p q).
      transitivity (@sumR RR q (fun j => (y j - z j) * 0)).
      + apply (sumR_ext RR). intros j Hj. change Rmult with (@cmul RR). rewrite (sumR_mul_l RR). rr. f_equal. apply Hy. exact Hj.
      + transitivity (@sumR RR q (fun _ => @c0 RR)); [apply (sumR_ext RR); intros; rr; ring|apply (sumR_zero RR)]. }
  assert (Ex : nrm2 (resid z) = nrm2 (resid y) + 2 * @sumR RR p (fun i => resid y i * w i) + nrm2 w).
  { unfold nrm2. change Rmult with (@cmul RR). rewrite <- (sumR_mul_l RR). change Rplus with (@cadd RR). rewrite <- !(sumR_add RR).
    apply (sumR_ext RR). intros i _. rewrite Ez. rr. ring. }
  rewrite Ex, Eo. pose proof (nrm2_nonneg w). lra.
Qed.
End LS.
