(* Normal equations characterise the minimal residual (used for the Krylov minimal-residual
   specification of C04 in the real embedding): over R. *)
From Coq Require Import Reals Lra Psatz Arith Lia.
From QV Require Import CRing CRingR Sums.
From QVT Require Import CauchySchwarz.
Local Open Scope R_scope.

Section LS.
Variables (p q : nat) (M : nat -> nat -> R) (b : nat -> R).
Definition Mv (y : nat -> R) (i : nat) : R := @sumR RR q (fun j => M i j * y j).
Definition resid (y : nat -> R) (i : nat) : R := b i - Mv y i.
Definition nrm2 (v : nat -> R) : R := @sumR RR p (fun i => v i * v i).
Definition normal_eq (y : nat -> R) : Prop := forall j, (j < q)%nat -> @sumR RR p (fun i => M i j * resid y i) = 0.

Lemma nrm2_nonneg v : 0 <= nrm2 v.
Proof. unfold nrm2. apply sumR_nonneg. intros. nra. Qed.

Theorem normal_equations_minimise y z : normal_eq y -> nrm2 (resid y) <= nrm2 (resid z).
Proof.
  intros Hy.
  set (w := fun i => Mv (fun j => y j - z j) i).
  assert (Ez : forall i, resid z i = resid y i + w i).
  { intros i. unfold resid, w, Mv.
    assert (E : @sumR RR q (fun j => M i j * (y j - z j)) = @sumR RR q (fun j => M i j * y j) - @sumR RR q (fun j => M i j * z j)).
    { rewrite (sumR_ext RR q (fun j => M i j * (y j - z j)) (fun j => @csub RR (M i j * y j) (M i j * z j))) by (intros; rr; ring).
      apply (sumR_sub RR). }
    rewrite E. lra. }
  assert (Eo : @sumR RR p (fun i => resid y i * w i) = 0).
  { unfold w, Mv.
    transitivity (@sumR RR p (fun i => @sumR RR q (fun j => (y j - z j) * (M i j * resid y i)))).
    - apply (sumR_ext RR). intros i _. change Rmult with (@cmul RR). rewrite <- (sumR_mul_l RR). apply (sumR_ext RR). intros. rr. ring.
    - rewrite (sumR_swap RR p q).
      transitivity (@sumR RR q (fun j => (y j - z j) * 0)).
      + apply (sumR_ext RR). intros j Hj. change Rmult with (@cmul RR). rewrite (sumR_mul_l RR). rr. f_equal. apply Hy. exact Hj.
      + transitivity (@sumR RR q (fun _ => @c0 RR)); [apply (sumR_ext RR); intros; rr; ring|apply (sumR_zero RR)]. }
  assert (Ex : nrm2 (resid z) = nrm2 (resid y) + 2 * @sumR RR p (fun i => resid y i * w i) + nrm2 w).
  { unfold nrm2. change Rmult with (@cmul RR). rewrite <- (sumR_mul_l RR). change Rplus with (@cadd RR). rewrite <- !(sumR_add RR).
    apply (sumR_ext RR). intros i _. rewrite Ez. rr. ring. }
  rewrite Ex, Eo. pose proof (nrm2_nonneg w). lra.
Qed.
End LS.

(* Residuals never increase when the search space grows: if the first q columns of M' are those of M (nested Krylov bases; q = 0 is the
   restart from the current iterate, whose residual is the right-hand side of the new cycle), the minimal residual over the q' >= q
   columns of M' is at most the residual of ANY coefficient vector over the q columns of M. *)
Theorem nested_spaces_monotone (p q q' : nat) (M M' : nat -> nat -> R) (b y y' : nat -> R) :
  (q <= q')%nat -> (forall i j, (j < q)%nat -> M' i j = M i j) ->
  normal_eq p q' M' b y' -> nrm2 p (resid q' M' b y') <= nrm2 p (resid q M b y).
Proof.
  intros Hq HM Hy'.
  set (z := fun j => if (j <? q)%nat then y j else 0).
  eapply Rle_trans; [apply (normal_equations_minimise p q' M' b y' z Hy')|].
  apply Req_le. unfold nrm2. apply (sumR_ext RR). intros i _. f_equal; unfold resid; f_equal; unfold Mv.
  all: replace q' with (q + (q' - q))%nat by lia; rewrite (sumR_app RR);
    rewrite (sumR_ext RR q (fun j => M' i j * z j) (fun j => M i j * y j))
      by (intros j Hj; unfold z; replace (j <? q)%nat with true by (symmetry; apply Nat.ltb_lt; exact Hj); now rewrite HM);
    rewrite (sumR_ext RR (q' - q) (fun k => M' i (q + k)%nat * z (q + k)%nat) (fun _ => @c0 RR))
      by (intros k _; unfold z; replace (q + k <? q)%nat with false by (symmetry; apply Nat.ltb_ge; lia); rr; ring);
    rewrite (sumR_zero RR); rr; ring.
Qed.
