(* C04: the modified Gram-Schmidt loop inside the Arnoldi process of _GMRESQsparse keeps the basis orthonormal (exact arithmetic,
   no breakdown) and produces the Arnoldi equations used in Arnoldi.v.  The loop, for column j:
       w^(0) = A v_j;   for i = 0..j:  h_ij = v_i^H w^(i),  w^(i+1) = w^(i) - v_i h_ij;   rho_j = ||w^(j+1)|| <> 0,  v_{j+1} = w^(j+1) / rho_j. *)
From Coq Require Import Reals Lra Psatz Arith Lia.
From QV Require Import CRing CRingR Sums Quat Mat QMat.
From QVT Require Import CauchySchwarz Norms.
Local Open Scope R_scope.

Notation qR := (quat RR).
Definition ip (n : nat) (u v : nat -> qR) : qR := sumQ n (fun l => qmul (qconj (u l)) (v l)).
Add Ring RRr : (cr_th RR).
Ltac qrr := qr.

Lemma ip_sub_scaled n u v x (c : qR) :
  ip n u (fun l => qsub (v l) (qmul (x l) c)) = qsub (ip n u v) (qmul (ip n u x) c).
Proof.
  unfold ip. rewrite (sumQ_mul_r RR), <- (sumQ_sub RR). apply (sumQ_ext RR). intros l _. qrr.
Qed.
Lemma ip_scaled_r n u v (c : qR) : ip n u (fun l => qmul (v l) c) = qmul (ip n u v) c.
Proof. unfold ip. rewrite (sumQ_mul_r RR). apply (sumQ_ext RR). intros l _. qrr. Qed.
Lemma ip_conj n u v : ip n v u = qconj (ip n u v).
Proof.
  unfold ip. induction n as [|n IH]; cbn [sumQ]; [qrr|]. rewrite IH.
  rewrite (qconj_add RR), (qconj_mul RR), (qconj_conj RR). reflexivity.
Qed.
Lemma ip_self n u : ip n u u = @qreal RR (@sumR RR n (fun l => N (u l))).
Proof.
  unfold ip. induction n as [|n IH]; cbn [sumQ sumR]; [qrr|]. rewrite IH, (qmul_conj_l RR). unfold N. qrr.
Qed.
Lemma ip_ext n u v v' : (forall l, (l < n)%nat -> v l = v' l) -> ip n u v = ip n u v'.
Proof. intros E. unfold ip. apply (sumQ_ext RR). intros l Hl. now rewrite E. Qed.
Lemma qmul_real_cancel (q : qR) (rho : R) : rho <> 0 -> qmul q (@qreal RR rho) = qzero -> q = qzero.
Proof.
  intros Hr E. assert (Ew := f_equal qw E). assert (Ex := f_equal qx E). assert (Ey := f_equal qy E). assert (Ez := f_equal qz E).
  cbn [qmul qreal qzero qw qx qy qz] in Ew, Ex, Ey, Ez. rr in Ew. rr in Ex. rr in Ey. rr in Ez.
  destruct q as [a b c d]. cbn [qw qx qy qz] in *. unfold qzero.
  assert (a = 0) by (apply (Rmult_eq_reg_r rho); [lra|exact Hr]).
  assert (b = 0) by (apply (Rmult_eq_reg_r rho); [lra|exact Hr]).
  assert (c = 0) by (apply (Rmult_eq_reg_r rho); [lra|exact Hr]).
  assert (d = 0) by (apply (Rmult_eq_reg_r rho); [lra|exact Hr]).
  subst. reflexivity.
Qed.

Section MGS.
Variables (n m : nat) (A V H : qmat RR).
Variable Wk : nat -> nat -> nat -> qR.          (* Wk j i l : entry l of the work vector of column j after i subtractions *)
Variable rho : nat -> R.
Notation col i := (fun l => V l i).

Hypothesis w0 : forall j l, (j < m)%nat -> (l < n)%nat -> Wk j 0%nat l = qmm n A V l j.
Hypothesis hdef : forall j i, (j < m)%nat -> (i <= j)%nat -> H i j = ip n (col i) (Wk j i).
Hypothesis wstep : forall j i l, (j < m)%nat -> (i <= j)%nat -> (l < n)%nat -> Wk j (S i) l = qsub (Wk j i l) (qmul (V l i) (H i j)).
Hypothesis hsub : forall j, (j < m)%nat -> H (S j) j = @qreal RR (rho j).
Hypothesis rho_ne : forall j, (j < m)%nat -> rho j <> 0.
Hypothesis rho_sq : forall j, (j < m)%nat -> rho j * rho j = @sumR RR n (fun l => N (Wk j (S j) l)).
Hypothesis vnext : forall j l, (j < m)%nat -> (l < n)%nat -> qmul (V l (S j)) (H (S j) j) = Wk j (S j) l.
Hypothesis v0unit : @sumR RR n (fun l => N (V l 0%nat)) = 1.

(* the Arnoldi equations: the work vector after the whole inner loop is A v_j - sum_{i <= j} v_i h_ij *)
Lemma work_vector j i l : (j < m)%nat -> (i <= S j)%nat -> (l < n)%nat ->
  Wk j i l = qsub (qmm n A V l j) (sumQ i (fun a => qmul (V l a) (H a j))).
Proof.
  intros Hj Hi Hl. induction i as [|i IH].
  - rewrite (w0 j l Hj Hl). cbn [sumQ]. qrr.
  - rewrite (wstep j i l Hj ltac:(lia) Hl), IH by lia. cbn [sumQ]. qrr.
Qed.
Theorem mgs_gives_arnoldi_equations j l : (j < m)%nat -> (l < n)%nat ->
  qmul (V l (S j)) (H (S j) j) = qsub (qmm n A V l j) (sumQ (S j) (fun i => qmul (V l i) (H i j))).
Proof. intros Hj Hl. rewrite (vnext j l Hj Hl). apply work_vector; lia. Qed.

(* orthonormality, by induction over the columns *)
Definition orthon (k : nat) : Prop := forall a b, (a <= k)%nat -> (b <= k)%nat -> ip n (col a) (col b) = if Nat.eqb a b then qone else qzero.

Lemma inner_invariant j : (j < m)%nat -> orthon j -> forall i, (i <= S j)%nat -> forall a, (a < i)%nat -> ip n (col a) (Wk j i) = qzero.
Proof.
  intros Hj G i. induction i as [|i IH]; intros Hi a Ha; [lia|].
  rewrite (ip_ext n (col a) (Wk j (S i)) (fun l => qsub (Wk j i l) (qmul (V l i) (H i j)))) by (intros l Hl; apply wstep; lia).
  rewrite ip_sub_scaled. rewrite (G a i) by lia.
  destruct (Nat.eqb_spec a i) as [->|NE].
  - rewrite <- (hdef j i Hj) by lia. qrr.
  - rewrite IH by lia. qrr.
Qed.

Lemma next_column j : (j < m)%nat -> orthon j -> orthon (S j).
Proof.
  intros Hj G.
  assert (Z : forall a, (a <= j)%nat -> ip n (col a) (col (S j)) = qzero).
  { intros a Ha. apply (qmul_real_cancel _ (rho j) (rho_ne j Hj)).
    rewrite <- (hsub j Hj), <- ip_scaled_r.
    rewrite (ip_ext n (col a) _ (Wk j (S j))) by (intros l Hl; apply vnext; assumption).
    apply (inner_invariant j Hj G (S j)); lia. }
  assert (U : ip n (col (S j)) (col (S j)) = qone).
  { rewrite ip_self.
    assert (E : @sumR RR n (fun l => N (V l (S j))) * (rho j * rho j) = rho j * rho j).
    { rewrite (rho_sq j Hj) at 2.
      pose proof (sumR_mul_r RR n (rho j * rho j) (fun l => N (V l (S j)))) as X. rr in X. rewrite <- X.
      apply (sumR_ext RR). intros l Hl. rewrite <- (vnext j l Hj Hl), (hsub j Hj). rewrite N_mul.
      unfold N, qnorm2, qreal. cbn [qw qx qy qz]. first [ring | rr; ring | rr; nra]. }
    assert (P : rho j * rho j <> 0) by (pose proof (rho_ne j Hj); nra).
    assert (S1 : @sumR RR n (fun l => N (V l (S j))) = 1) by (apply (Rmult_eq_reg_r (rho j * rho j)); [lra|exact P]).
    rewrite S1. reflexivity. }
  intros a b Ha Hb.
  destruct (Nat.eq_dec a (S j)) as [->|Na]; destruct (Nat.eq_dec b (S j)) as [->|Nb].
  - rewrite Nat.eqb_refl. exact U.
  - replace (Nat.eqb (S j) b) with false by (symmetry; apply Nat.eqb_neq; lia).
    rewrite ip_conj, (Z b) by lia. qrr.
  - replace (Nat.eqb a (S j)) with false by (symmetry; apply Nat.eqb_neq; lia). apply Z. lia.
  - apply G; lia.
Qed.

Theorem mgs_basis_orthonormal : orthon m.
Proof.
  assert (B : orthon 0).
  { intros a b Ha Hb. assert (a = 0)%nat by lia. assert (b = 0)%nat by lia. subst. cbn [Nat.eqb]. rewrite ip_self, v0unit. reflexivity. }
  assert (K : forall k, (k <= m)%nat -> orthon k).
  { induction k as [|k IH]; intros Hk; [exact B|]. apply next_column; [lia|apply IH; lia]. }
  apply K. lia.
Qed.
Corollary mgs_gram_is_identity : meq (S m) (S m) (qmm n (qherm V) V) qmid.
Proof. intros a b Ha Hb. unfold qmid. rewrite <- (mgs_basis_orthonormal a b) by lia. reflexivity. Qed.
End MGS.
