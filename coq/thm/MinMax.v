(* C12 / C05: the min-max side of the singular values and interlacing.  For A = U diag(s) V^H (orthonormal columns, s non-negative and
   non-increasing) and ANY matrix X that factors through i rows (X = G W with W of i rows: every matrix of rank <= i), every operator bound of
   A - X is at least s_i.  Consequence: for a compression B = Q^H A by a matrix with orthonormal columns, EVERY value satisfies
   sigma_i(B) <= sigma_i(A)  (interlacing). *)
From Coq Require Import Reals Lra Psatz Arith Lia.
From QV Require Import CRing CRingR Sums Quat Mat QMat.
From QVT Require Import CauchySchwarz Norms Proj EckartYoung SpectralNorm Arnoldi Kernel Compress.
Local Open Scope R_scope.
Add Ring RRm : (cr_th RR).

Lemma sumRR_ge_term n (f : nat -> R) j0 : (forall k, 0 <= f k) -> (j0 < n)%nat -> f j0 <= @sumR RR n f.
Proof.
  intros H Hj. induction n as [|n IH]; [lia|]. cbn [sumR]. cbn [car cadd RR].
  destruct (Nat.eq_dec j0 n) as [->|NE].
  - pose proof (sumR_nonneg n f H). lra.
  - specialize (IH ltac:(lia)). specialize (H n). lra.
Qed.

Section MM.
Variables (m n r i : nat) (U V G Wr : qmat RR) (s : nat -> R) (M : R).
Hypothesis Hi : (i < r)%nat.
Hypothesis HU : meq r r (qmm m (qherm U) U) qmid.
Hypothesis HV : meq r r (qmm n (qherm V) V) qmid.
Hypothesis Hs0 : forall k, (k < r)%nat -> 0 <= s k.
Hypothesis Hmono : forall k l, (k <= l)%nat -> (l < r)%nat -> s l <= s k.
Let A := @usv RR r U s V.
Hypothesis HB : op_bound m n (qmsub A (qmm i G Wr)) M.

Theorem low_rank_competitor_bound : s i <= M.
Proof.
  destruct (kernel_vector i (fun r0 j => qmm n Wr V r0 j)) as [c [[j0 [Hj0 Hc0]] Hrows]].
  pose (ct := (fun k (_ : nat) => if Nat.ltb k (S i) then c k else qzero) : qmat RR).
  pose (z := qmm r V ct).
  (* X z = 0 *)
  assert (WZ : meq i 1 (qmm n Wr z) (fun _ _ => qzero)).
  { unfold z. rewrite <- (qmm_assoc RR i n r 1 Wr V ct). intros r0 j Hr0 Hj. unfold qmm at 1.
    rewrite (sumQ_extend_zero RR (S i) r); [|lia|intros k Hk1 Hk2; unfold ct; destruct (Nat.ltb_spec k (S i)); [lia|qr]].
    rewrite <- (Hrows r0 Hr0). apply (sumQ_ext RR). intros k Hk. unfold ct. destruct (Nat.ltb_spec k (S i)); [reflexivity|lia]. }
  assert (XZ : meq m 1 (qmm n (qmm i G Wr) z) (fun _ _ => qzero)).
  { rewrite (qmm_assoc RR m i n 1 G Wr z), WZ. intros a b _ _. unfold qmm. rewrite (sumQ_ext RR i _ (fun _ => qzero)); [apply (sumQ_zero RR)|intros; qr]. }
  (* V^H z = ct, ||z|| = ||ct|| *)
  assert (VZ : meq r 1 (qmm n (qherm V) z) ct).
  { unfold z. rewrite <- (qmm_assoc RR r n r 1 (qherm V) V ct), HV. apply (qmm_id_l RR r 1). }
  assert (NZ : frob2 n 1 z = frob2 r 1 ct) by (unfold z; apply (frob2_unitary_left RR n r 1 V ct HV)).
  (* ||(A - X) z||^2 = ||A z||^2 = sum s_k^2 N(ct k) *)
  assert (E1 : meq m 1 (qmm n (qmsub A (qmm i G Wr)) z) (qmm n A z)).
  { rewrite (qmm_sub_l RR m n 1 A (qmm i G Wr) z), XZ. intros a b _ _. unfold qmsub. qr. }
  assert (F1 : frob2 m 1 (qmm n (qmsub A (qmm i G Wr)) z) = @sumR RR r (fun k => (s k * s k) * @sumR RR 1 (fun j => N (ct k j)))).
  { rewrite (frob2_meq RR m 1 _ _ E1). unfold A. rewrite (AX_split m n r U V s HU 1 z).
    assert (E2 : meq r 1 (qmm r (@rdiag RR s) (qmm n (qherm V) z)) (qmm r (@rdiag RR s) ct)) by (rewrite VZ; reflexivity).
    rewrite (frob2_meq RR r 1 _ _ E2). apply frob2_DY. }
  assert (F2 : frob2 r 1 ct = @sumR RR r (fun k => @sumR RR 1 (fun j => N (ct k j)))) by reflexivity.
  (* sum s_k^2 N(ct k) >= s_i^2 sum N(ct k) *)
  assert (Hsi : 0 <= s i) by (apply Hs0; exact Hi).
  assert (L : (s i * s i) * frob2 r 1 ct <= frob2 m 1 (qmm n (qmsub A (qmm i G Wr)) z)).
  { rewrite F1, F2. pose proof (sumR_mul_l RR r (s i * s i) (fun k => @sumR RR 1 (fun j => N (ct k j)))) as X. cbn [car cmul RR] in X. rewrite <- X.
    apply sumRR_le. intros k Hk. cbn [sumR]. cbn [car c0 cadd RR]. unfold ct.
    destruct (Nat.ltb_spec k (S i)) as [Hlt|Hge].
    - assert (s i <= s k) by (apply Hmono; lia). pose proof (N_nonneg (c k)). assert (s i * s i <= s k * s k) by (apply Rmult_le_compat; lra). nra.
    - assert (E0 : N (@qzero RR) = 0) by (unfold N, qnorm2, qzero; cbn; ring). rewrite E0. lra. }
  (* ||ct||^2 > 0 *)
  assert (P : 0 < frob2 r 1 ct).
  { rewrite F2. assert (T : N (c j0) <= @sumR RR r (fun k => @sumR RR 1 (fun j => N (ct k j)))).
    { eapply Rle_trans; [|apply (sumRR_ge_term r (fun k => @sumR RR 1 (fun j => N (ct k j))) j0); [|lia]].
      - cbn [sumR]. cbn [car c0 cadd RR]. unfold ct. destruct (Nat.ltb_spec j0 (S i)); [lra|lia].
      - intros k. cbn [sumR]. cbn [car c0 cadd RR]. pose proof (N_nonneg (ct k 0%nat)). lra. }
    assert (0 < N (c j0)).
    { pose proof (N_nonneg (c j0)). destruct (Req_dec (N (c j0)) 0) as [E|NE]; [exfalso; apply Hc0, N_zero_iff, E|lra]. }
    lra. }
  (* the operator bound on z *)
  destruct HB as [HM HBd]. specialize (HBd 1%nat z). unfold normF in HBd. rewrite NZ in HBd.
  assert (Q1 : sqrt ((s i * s i) * frob2 r 1 ct) <= sqrt (frob2 m 1 (qmm n (qmsub A (qmm i G Wr)) z))).
  { apply sqrt_le_1; [nra|apply frob2_nonneg|exact L]. }
  rewrite sqrt_mult in Q1 by nra. rewrite sqrt_square in Q1 by exact Hsi.
  assert (SP : 0 < sqrt (frob2 r 1 ct)) by (apply sqrt_lt_R0; exact P).
  assert (s i * sqrt (frob2 r 1 ct) <= M * sqrt (frob2 r 1 ct)) by lra.
  apply (Rmult_le_reg_r (sqrt (frob2 r 1 ct))); assumption.
Qed.
End MM.

(* any bound of the moduli of the values is an operator bound (the values need not be sorted) *)
Theorem value_bound_is_op_bound m n r (U V : qmat RR) (t : nat -> R) (M : R) : 0 <= M ->
  meq r r (qmm m (qherm U) U) qmid -> meq r r (qmm n (qherm V) V) qmid ->
  (forall k, (k < r)%nat -> t k * t k <= M * M) -> op_bound m n (@usv RR r U t V) M.
Proof.
  intros HM HU HV Ht. split; [exact HM|]. intros p X. unfold normF.
  replace (M * sqrt (frob2 n p X)) with (sqrt ((M * M) * frob2 n p X)).
  - apply sqrt_le_1; [apply frob2_nonneg|apply Rmult_le_pos; [nra|apply frob2_nonneg]|].
    rewrite (AX_split m n r U V t HU p X), frob2_DY.
    eapply Rle_trans; [|apply Rmult_le_compat_l; [nra|apply (frob2_VhX_le n r V HV p X)]].
    unfold frob2 at 1.
    pose proof (sumR_mul_l RR r (M * M) (fun k => @sumR RR p (fun j => qnorm2 (qmm n (qherm V) X k j)))) as E. cbn [car cmul RR] in E.
    rewrite <- E. apply sumRR_le. intros k Hk.
    assert (0 <= @sumR RR p (fun j => N (qmm n (qherm V) X k j))) by (apply sumRR_nonneg; intros; apply N_nonneg).
    specialize (Ht k Hk). unfold N in *. nra.
  - rewrite sqrt_mult; [|nra|apply frob2_nonneg]. rewrite sqrt_square by exact HM. reflexivity.
Qed.

(* interlacing: every singular value of a compression Q^H A is at most the corresponding singular value of A *)
Theorem compression_interlacing m n k ra rb i (Qm Ua Va Ub Vb : qmat RR) (sa sb : nat -> R) :
  (i < ra)%nat -> (i < rb)%nat -> meq k k (qmm m (qherm Qm) Qm) qmid ->
  meq ra ra (qmm m (qherm Ua) Ua) qmid -> meq ra ra (qmm n (qherm Va) Va) qmid ->
  meq rb rb (qmm k (qherm Ub) Ub) qmid -> meq rb rb (qmm n (qherm Vb) Vb) qmid ->
  (forall j, (j < ra)%nat -> 0 <= sa j) -> (forall a b, (a <= b)%nat -> (b < ra)%nat -> sa b <= sa a) ->
  (forall j, (j < rb)%nat -> 0 <= sb j) -> (forall a b, (a <= b)%nat -> (b < rb)%nat -> sb b <= sb a) ->
  meq k n (qmm m (qherm Qm) (@usv RR ra Ua sa Va)) (@usv RR rb Ub sb Vb) ->
  sb i <= sa i.
Proof.
  intros Hia Hib HQ HUa HVa HUb HVb Ha0 Ham Hb0 Hbm E.
  set (A := @usv RR ra Ua sa Va). set (Ai := @usv RR i Ua sa Va).
  (* A - A_i has operator bound sa i *)
  assert (BT : op_bound m n (qmsub A Ai) (sa i)).
  { assert (T : meq m n (qmsub A Ai) (@usv RR ra Ua (@tailv RR i sa) Va)) by (apply (truncation_error_is_tail RR m n ra i Ua Va sa); lia).
    destruct (value_bound_is_op_bound m n ra Ua Va (@tailv RR i sa) (sa i) (Ha0 i Hia) HUa HVa) as [H0 HB].
    - intros j Hj. unfold tailv. destruct (Nat.ltb_spec j i).
      + cbn [c0 RR]. pose proof (Ha0 i Hia). nra.
      + assert (sa j <= sa i) by (apply Ham; lia). pose proof (Ha0 j Hj). pose proof (Ha0 i Hia). apply Rmult_le_compat; lra.
    - split; [exact H0|]. intros p X.
      assert (E2 : meq m p (qmm n (qmsub A Ai) X) (qmm n (@usv RR ra Ua (@tailv RR i sa) Va) X)) by (rewrite T; reflexivity).
      rewrite (normF_meq m p _ _ E2). apply HB. }
  (* compress: Q^H (A - A_i) = B - G W with W = Va^H restricted to i rows *)
  pose proof (op_bound_compress_left k m n Qm _ _ HQ BT) as BC.
  set (G := qmm m (qherm Qm) (qmm i Ua (@rdiag RR sa))).
  assert (EX : meq k n (qmm m (qherm Qm) (qmsub A Ai)) (qmsub (@usv RR rb Ub sb Vb) (qmm i G (qherm Va)))).
  { rewrite (qmm_sub_r RR k m n (qherm Qm) A Ai). unfold A at 1. rewrite E.
    assert (E3 : meq k n (qmm m (qherm Qm) Ai) (qmm i G (qherm Va))).
    { unfold Ai, usv, G. rewrite <- (qmm_assoc RR k m i n (qherm Qm) (qmm i Ua (@rdiag RR sa)) (qherm Va)). reflexivity. }
    rewrite E3. reflexivity. }
  assert (BB : op_bound k n (qmsub (@usv RR rb Ub sb Vb) (qmm i G (qherm Va))) (sa i)).
  { destruct BC as [H0 HB]. split; [exact H0|]. intros p X.
    assert (E4 : meq k p (qmm n (qmsub (@usv RR rb Ub sb Vb) (qmm i G (qherm Va))) X) (qmm n (qmm m (qherm Qm) (qmsub A Ai)) X)) by (rewrite EX; reflexivity).
    rewrite (normF_meq k p _ _ E4). apply HB. }
  exact (low_rank_competitor_bound k n rb i Ub Vb G (qherm Va) sb (sa i) Hib HUb HVb Hb0 Hbm BB).
Qed.

(* the same for a compression from the right, A Q' (odd last pass of the pass-efficient variant): conjugate-transpose the statement *)
From QVT Require Import Penrose.
Theorem compression_interlacing_right m n k ra rb i (Qm Ua Va Ub Vb : qmat RR) (sa sb : nat -> R) :
  (i < ra)%nat -> (i < rb)%nat -> meq k k (qmm n (qherm Qm) Qm) qmid ->
  meq ra ra (qmm m (qherm Ua) Ua) qmid -> meq ra ra (qmm n (qherm Va) Va) qmid ->
  meq rb rb (qmm m (qherm Ub) Ub) qmid -> meq rb rb (qmm k (qherm Vb) Vb) qmid ->
  (forall j, (j < ra)%nat -> 0 <= sa j) -> (forall a b, (a <= b)%nat -> (b < ra)%nat -> sa b <= sa a) ->
  (forall j, (j < rb)%nat -> 0 <= sb j) -> (forall a b, (a <= b)%nat -> (b < rb)%nat -> sb b <= sb a) ->
  meq m k (qmm n (@usv RR ra Ua sa Va) Qm) (@usv RR rb Ub sb Vb) ->
  sb i <= sa i.
Proof.
  intros Hia Hib HQ HUa HVa HUb HVb Ha0 Ham Hb0 Hbm E.
  apply (compression_interlacing n m k ra rb i Qm Va Ua Vb Ub sa sb Hia Hib HQ HVa HUa HVb HUb Ha0 Ham Hb0 Hbm).
  rewrite <- (usv_herm RR m n ra Ua Va sa), <- (usv_herm RR m k rb Ub Vb sb).
  rewrite <- E. rewrite (qherm_mm_meq RR m n k (@usv RR ra Ua sa Va) Qm). reflexivity.
Qed.
