(* The executable Newton-Schulz model performs exactly the updates of the chain theorems. *)
From Coq Require Import Arith Lia Bool.
From QV Require Import CRing Sums Quat Mat QMat.
From QVM Require Import NS.
From QVT Require Import NSthm.

Section M.
Variable C : CRing.
Notation qmat := (qmat C).
Variable retab : nat -> nat -> qmat -> qmat.
Hypothesis retab_ok : forall p q M, meq p q (retab p q M) M.

Lemma qscalem_is_scaleq g (M : qmat) i j : qscalem C g M i j = qmscaleq (qreal g) M i j.
Proof. unfold qscalem, qmscaleq. symmetry. apply qreal_scale. Qed.

Theorem damped_step_left m n g (A X : qmat) : n <= m ->
  meq n m (snd (damped_step C retab m n g A X)) (ns_left C m n A X (qreal g)).
Proof.
  intros H. unfold damped_step. replace (n <=? m) with true by (symmetry; apply Nat.leb_le; exact H). cbn [snd].
  rewrite (retab_ok n m). unfold ns_left.
  intros i j Hi Hj. unfold qmsub. f_equal. rewrite qscalem_is_scaleq. unfold qmscaleq. f_equal.
  unfold qmm. apply sumQ_ext. intros l Hl. f_equal. now apply (retab_ok n n).
Qed.
Theorem damped_step_right m n g (A X : qmat) : m < n ->
  meq n m (snd (damped_step C retab m n g A X)) (ns_right C m n A X (qreal g)).
Proof.
  intros H. unfold damped_step. replace (n <=? m) with false by (symmetry; apply Nat.leb_gt; exact H). cbn [snd].
  rewrite (retab_ok n m). unfold ns_right.
  intros i j Hi Hj. unfold qmsub. f_equal. rewrite qscalem_is_scaleq. unfold qmscaleq. f_equal.
  unfold qmm. apply sumQ_ext. intros l Hl. f_equal. now apply (retab_ok m m).
Qed.
End M.
