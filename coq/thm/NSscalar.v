(* C03: the scalar recurrences of Newton-Schulz on a singular value, over R. *)
From Coq Require Import Reals Lra Psatz Arith Lia.
Local Open Scope R_scope.

Definition phi (g t : R) : R := t * (1 + g * (1 - t)).          (* damped:  t <- t (1 + gamma (1 - t)) *)
Definition psi (t : R) : R := 1 - (1 - t) ^ 3.                  (* third order: t <- 1 - (1 - t)^3 *)

Lemma phi_error g t : 1 - phi g t = (1 - t) * (1 - g * t). Proof. unfold phi. ring. Qed.
Lemma phi_range g t : 0 < t <= 1 -> 0 < g <= 1 -> t <= phi g t <= 1.
Proof. intros [Ht0 Ht1] [Hg0 Hg1]. unfold phi.
  assert (0 <= g * (1 - t)) by nra. assert (0 <= t * (g * (1 - t))) by nra.
  assert (0 <= 1 - g * t) by nra. assert (0 <= (1 - t) * (1 - g * t)) by nra. split; nra. Qed.
Lemma phi_error_decreases g t : 0 < t <= 1 -> 0 < g <= 1 -> 0 <= 1 - phi g t <= 1 - t.
Proof. intros Ht Hg. rewrite phi_error. destruct Ht, Hg.
  assert (0 <= 1 - g * t <= 1) by nra. assert (0 <= 1 - t) by lra. split; nra. Qed.
Lemma phi_sq_error_decreases g t : 0 < t <= 1 -> 0 < g <= 1 -> (1 - phi g t) ^ 2 <= (1 - t) ^ 2.
Proof. intros Ht Hg. pose proof (phi_error_decreases g t Ht Hg). destruct Ht. nra. Qed.
Lemma psi_expand t : psi t = 3 * t - 3 * t ^ 2 + t ^ 3. Proof. unfold psi. ring. Qed.
Lemma psi_range t : 0 < t <= 1 -> t <= psi t <= 1.
Proof. intros [H0 H1]. unfold psi. set (u := 1 - t). assert (Hu : 0 <= u <= 1) by (unfold u; lra).
  assert (0 <= u * u <= 1) by nra. assert (0 <= u * (u * u) <= u) by nra.
  replace (u ^ 3) with (u * (u * u)) by ring. unfold u in *. split; lra. Qed.
Lemma psi_sq_error_decreases t : 0 < t <= 1 -> (1 - psi t) ^ 2 <= (1 - t) ^ 2.
Proof. intros [H0 H1]. unfold psi. set (u := 1 - t). assert (Hu : 0 <= u <= 1) by (unfold u; lra).
  assert (0 <= u * u <= 1) by nra. assert (0 <= u * (u * u) <= u) by nra.
  replace (1 - (1 - u ^ 3)) with (u * (u * u)) by ring. nra. Qed.

Fixpoint iter (f : R -> R) (k : nat) (t : R) : R := match k with O => t | S k' => f (iter f k' t) end.
Lemma iter_phi_range g k t : 0 < t <= 1 -> 0 < g <= 1 -> t <= iter (phi g) k t <= 1.
Proof. intros Ht Hg. induction k; cbn [iter]; [lra|].
  pose proof (phi_range g (iter (phi g) k t) ltac:(lra) Hg). lra. Qed.
(* geometric convergence: 1 - t_k <= (1 - gamma t_0)^k (1 - t_0) *)
Theorem damped_geometric g k t : 0 < t <= 1 -> 0 < g <= 1 ->
  0 <= 1 - iter (phi g) k t <= (1 - g * t) ^ k * (1 - t).
Proof.
  intros Ht Hg. induction k; cbn [iter pow]; [lra|].
  pose proof (iter_phi_range g k t Ht Hg) as Hr. set (tk := iter (phi g) k t) in *.
  rewrite phi_error. destruct Ht, Hg.
  assert (0 <= 1 - g * tk <= 1 - g * t) by nra.
  assert (0 <= (1 - g * t) ^ k) by (apply pow_le; nra).
  split; [nra|].
  apply Rle_trans with ((1 - tk) * (1 - g * t)); [nra|]. nra.
Qed.
Theorem third_order_cubic k t : 1 - iter psi k t = (1 - t) ^ (3 ^ k).
Proof. induction k; cbn [iter]; [simpl; ring|]. unfold psi at 1.
  replace (1 - (1 - (1 - iter psi k t) ^ 3)) with ((1 - iter psi k t) ^ 3) by ring.
  rewrite IHk, <- pow_mult. f_equal. simpl. lia. Qed.
(* the initial scaling alpha = 1/||A||_F^2 puts every t_i = s_i^2 / sum_j s_j^2 in (0, 1] *)
Theorem initial_scaling_in_unit_interval (si rest : R) : 0 < si -> 0 <= rest -> 0 < si ^ 2 / (si ^ 2 + rest) <= 1.
Proof. intros Hs Hr. assert (0 < si ^ 2) by nra. split.
  - apply Rdiv_lt_0_compat; lra.
  - apply (Rmult_le_reg_r (si ^ 2 + rest)); [lra|]. unfold Rdiv. rewrite Rmult_assoc, Rinv_l by lra. lra. Qed.
(* stop bound: if s^2 (1 - t)^2 <= tol^2 for the reached t, the error of t/s against 1/s is at most tol / s^2 *)
Theorem stop_bound (s t tol : R) : 0 < s -> 0 <= tol -> (s * (1 - t)) ^ 2 <= tol ^ 2 -> Rabs (t / s - 1 / s) <= tol / s ^ 2.
Proof.
  intros Hs Ht H. replace (t / s - 1 / s) with (- (s * (1 - t)) / s ^ 2) by (field; lra).
  unfold Rdiv. rewrite Rabs_mult, Rabs_Ropp, (Rabs_right (/ s ^ 2)) by (apply Rle_ge, Rlt_le, Rinv_0_lt_compat; nra).
  apply Rmult_le_compat_r; [apply Rlt_le, Rinv_0_lt_compat; nra|].
  apply Rsqr_le_abs_0 in H || idtac.
  destruct (Rcase_abs (s * (1 - t))) as [Hn|Hp]; [rewrite Rabs_left by exact Hn|rewrite Rabs_right by exact Hp]; nra.
Qed.
