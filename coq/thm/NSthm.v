(* C03: spectral recurrences of the Newton-Schulz iterations, as chains over quaternion matrices.
   A == U diag(s) V^H (thin, any rank r >= 0), U^H U == I_r, V^H V == I_r, X == V diag(d) U^H. *)
From Coq Require Import Arith Lia Bool Setoid Morphisms Ring.
From QV Require Import CRing Sums Quat Mat QMat.

Section NS.
Variable C : CRing.
Add Ring Cr : (cr_th C).
Notation quat := (quat C).
Notation qmat := (qmat C).
Variables (m n r : nat) (A U V X : qmat) (s d : nat -> quat) (gamma : quat).
Hypothesis gamma_central : forall a, qmul gamma a = qmul a gamma.
Hypothesis HU : meq r r (qmm m (qherm U) U) qmid.
Hypothesis HV : meq r r (qmm n (qherm V) V) qmid.
Hypothesis HA : meq m n A (qmm r (qmm r U (qdiag s)) (qherm V)).
Hypothesis HX : meq n m X (qmm r (qmm r V (qdiag d)) (qherm U)).

Lemma diag_ext (a b : nat -> quat) : (forall i, a i = b i) -> meq r r (qdiag a) (qdiag b).
Proof. intros H i j _ _. unfold qdiag. now rewrite H. Qed.

(* X A == V diag(d s) V^H   and   A X == U diag(s d) U^H *)
Lemma XA_spec : meq n n (qmm m X A) (qmm r (qmm r V (qdiag (fun i => qmul (d i) (s i)))) (qherm V)).
Proof.
  rewrite HX, HA.
  rewrite (qmm_assoc C n r m n (qmm r V (qdiag d)) (qherm U)).
  rewrite <- (qmm_assoc C r m r n (qherm U) (qmm r U (qdiag s)) (qherm V)).
  rewrite <- (qmm_assoc C r m r r (qherm U) U (qdiag s)).
  rewrite HU, (qmm_id_l C r r (qdiag s)).
  rewrite <- (qmm_assoc C n r r n (qmm r V (qdiag d)) (qdiag s) (qherm V)).
  rewrite (qmm_assoc C n r r r V (qdiag d) (qdiag s)).
  rewrite (qmm_diag_diag C r d s). reflexivity.
Qed.
Lemma AX_spec : meq m m (qmm n A X) (qmm r (qmm r U (qdiag (fun i => qmul (s i) (d i)))) (qherm U)).
Proof.
  rewrite HX, HA.
  rewrite (qmm_assoc C m r n m (qmm r U (qdiag s)) (qherm V)).
  rewrite <- (qmm_assoc C r n r m (qherm V) (qmm r V (qdiag d)) (qherm U)).
  rewrite <- (qmm_assoc C r n r r (qherm V) V (qdiag d)).
  rewrite HV, (qmm_id_l C r r (qdiag d)).
  rewrite <- (qmm_assoc C m r r m (qmm r U (qdiag s)) (qdiag d) (qherm U)).
  rewrite (qmm_assoc C m r r r U (qdiag s) (qdiag d)).
  rewrite (qmm_diag_diag C r s d). reflexivity.
Qed.
(* (V D1 V^H)(V D2 U^H) == V (D1 D2) U^H *)
Lemma VV_VU (a b : nat -> quat) : meq n m (qmm n (qmm r (qmm r V (qdiag a)) (qherm V)) (qmm r (qmm r V (qdiag b)) (qherm U)))
                          (qmm r (qmm r V (qdiag (fun i => qmul (a i) (b i)))) (qherm U)).
Proof.
  rewrite (qmm_assoc C n r n m (qmm r V (qdiag a)) (qherm V)).
  rewrite <- (qmm_assoc C r n r m (qherm V) (qmm r V (qdiag b)) (qherm U)).
  rewrite <- (qmm_assoc C r n r r (qherm V) V (qdiag b)).
  rewrite HV, (qmm_id_l C r r (qdiag b)).
  rewrite <- (qmm_assoc C n r r m (qmm r V (qdiag a)) (qdiag b) (qherm U)).
  rewrite (qmm_assoc C n r r r V (qdiag a) (qdiag b)).
  rewrite (qmm_diag_diag C r a b). reflexivity.
Qed.
(* (V D1 U^H)(U D2 U^H) == V (D1 D2) U^H *)
Lemma VU_UU (a b : nat -> quat) : meq n m (qmm m (qmm r (qmm r V (qdiag a)) (qherm U)) (qmm r (qmm r U (qdiag b)) (qherm U)))
                          (qmm r (qmm r V (qdiag (fun i => qmul (a i) (b i)))) (qherm U)).
Proof.
  rewrite (qmm_assoc C n r m m (qmm r V (qdiag a)) (qherm U)).
  rewrite <- (qmm_assoc C r m r m (qherm U) (qmm r U (qdiag b)) (qherm U)).
  rewrite <- (qmm_assoc C r m r r (qherm U) U (qdiag b)).
  rewrite HU, (qmm_id_l C r r (qdiag b)).
  rewrite <- (qmm_assoc C n r r m (qmm r V (qdiag a)) (qdiag b) (qherm U)).
  rewrite (qmm_assoc C n r r r V (qdiag a) (qdiag b)).
  rewrite (qmm_diag_diag C r a b). reflexivity.
Qed.
(* linear combinations in the middle factor *)
Lemma mid_sub (a b : nat -> quat) : meq n m (qmsub (qmm r (qmm r V (qdiag a)) (qherm U)) (qmm r (qmm r V (qdiag b)) (qherm U)))
                           (qmm r (qmm r V (qdiag (fun i => qsub (a i) (b i)))) (qherm U)).
Proof.
  rewrite <- (qmm_sub_l C n r m (qmm r V (qdiag a)) (qmm r V (qdiag b)) (qherm U)).
  rewrite <- (qmm_sub_r C n r r V (qdiag a) (qdiag b)).
  rewrite (qmsub_diag C r a b). reflexivity.
Qed.
Lemma mid_scale (c : quat) (a : nat -> quat) : (forall x, qmul c x = qmul x c) ->
  meq n m (qmscaleq c (qmm r (qmm r V (qdiag a)) (qherm U))) (qmm r (qmm r V (qdiag (fun i => qmul c (a i)))) (qherm U)).
Proof.
  intros Hc.
  rewrite <- (qmm_scale_l C n r m c (qmm r V (qdiag a)) (qherm U)).
  rewrite <- (qmm_scale_r C n r r c V (qdiag a) Hc).
  rewrite (qmscale_diag C r c a). reflexivity.
Qed.

(* damped Newton-Schulz, left update (m >= n):  X' = X - gamma ((X A - I_n) X) *)
Definition ns_left : qmat := qmsub X (qmscaleq gamma (qmm n (qmsub (qmm m X A) qmid) X)).
Definition d_left (i : nat) : quat := qsub (d i) (qmul gamma (qsub (qmul (qmul (d i) (s i)) (d i)) (d i))).
Theorem ns_left_recurrence : meq n m ns_left (qmm r (qmm r V (qdiag d_left)) (qherm U)).
Proof.
  unfold ns_left.
  rewrite (qmm_sub_l C n n m (qmm m X A) qmid X), (qmm_id_l C n m X).
  rewrite XA_spec. rewrite HX at 1 2 3.
  rewrite (VV_VU (fun i => qmul (d i) (s i)) d).
  rewrite (mid_sub (fun i => qmul (qmul (d i) (s i)) (d i)) d).
  rewrite (mid_scale gamma _ gamma_central).
  rewrite (mid_sub d _). reflexivity.
Qed.
(* right update (m < n):  X' = X - gamma (X (A X - I_m)) *)
Definition ns_right : qmat := qmsub X (qmscaleq gamma (qmm m X (qmsub (qmm n A X) qmid))).
Definition d_right (i : nat) : quat := qsub (d i) (qmul gamma (qsub (qmul (d i) (qmul (s i) (d i))) (d i))).
Theorem ns_right_recurrence : meq n m ns_right (qmm r (qmm r V (qdiag d_right)) (qherm U)).
Proof.
  unfold ns_right.
  rewrite (qmm_sub_r C n m m X (qmm n A X) qmid), (qmm_id_r C n m X).
  rewrite AX_spec. rewrite HX at 1 2 3.
  rewrite (VU_UU d (fun i => qmul (s i) (d i))).
  rewrite (mid_sub (fun i => qmul (d i) (qmul (s i) (d i))) d).
  rewrite (mid_scale gamma _ gamma_central).
  rewrite (mid_sub d _). reflexivity.
Qed.

(* third-order update  T' = 3 T - 3 (T A) T + T (A T)(A T) *)
Lemma UU_UU (a b : nat -> quat) : meq m m (qmm m (qmm r (qmm r U (qdiag a)) (qherm U)) (qmm r (qmm r U (qdiag b)) (qherm U)))
                          (qmm r (qmm r U (qdiag (fun i => qmul (a i) (b i)))) (qherm U)).
Proof.
  rewrite (qmm_assoc C m r m m (qmm r U (qdiag a)) (qherm U)).
  rewrite <- (qmm_assoc C r m r m (qherm U) (qmm r U (qdiag b)) (qherm U)).
  rewrite <- (qmm_assoc C r m r r (qherm U) U (qdiag b)).
  rewrite HU, (qmm_id_l C r r (qdiag b)).
  rewrite <- (qmm_assoc C m r r m (qmm r U (qdiag a)) (qdiag b) (qherm U)).
  rewrite (qmm_assoc C m r r r U (qdiag a) (qdiag b)).
  rewrite (qmm_diag_diag C r a b). reflexivity.
Qed.
Lemma mid_add (a b : nat -> quat) : meq n m (qmadd (qmm r (qmm r V (qdiag a)) (qherm U)) (qmm r (qmm r V (qdiag b)) (qherm U)))
                           (qmm r (qmm r V (qdiag (fun i => qadd (a i) (b i)))) (qherm U)).
Proof.
  rewrite <- (qmm_add_l C n r m (qmm r V (qdiag a)) (qmm r V (qdiag b)) (qherm U)).
  rewrite <- (qmm_add_r C n r r V (qdiag a) (qdiag b)).
  assert (E : meq r r (qmadd (qdiag a) (qdiag b)) (qdiag (fun i => qadd (a i) (b i)))).
  { intros i j _ _. unfold qmadd, qdiag. destruct (Nat.eqb i j); qr. }
  rewrite E. reflexivity.
Qed.
Variable three : quat.
Hypothesis three_central : forall a, qmul three a = qmul a three.
Definition ns_third : qmat :=
  qmadd (qmsub (qmscaleq three X) (qmscaleq three (qmm n (qmm m X A) X))) (qmm m X (qmm m (qmm n A X) (qmm n A X))).
Definition d_third (i : nat) : quat :=
  qadd (qsub (qmul three (d i)) (qmul three (qmul (qmul (d i) (s i)) (d i))))
       (qmul (d i) (qmul (qmul (s i) (d i)) (qmul (s i) (d i)))).
Theorem ns_third_recurrence : meq n m ns_third (qmm r (qmm r V (qdiag d_third)) (qherm U)).
Proof.
  unfold ns_third.
  rewrite XA_spec, AX_spec. rewrite HX at 1 2 3.
  rewrite (VV_VU (fun i => qmul (d i) (s i)) d).
  rewrite (UU_UU (fun i => qmul (s i) (d i)) (fun i => qmul (s i) (d i))).
  rewrite (VU_UU d (fun i => qmul (qmul (s i) (d i)) (qmul (s i) (d i)))).
  rewrite (mid_scale three d three_central), (mid_scale three _ three_central).
  rewrite (mid_sub _ _), (mid_add _ _). reflexivity.
Qed.

(* the first Penrose residual  A X A - A == U diag(s d s - s) V^H  and its Frobenius norm *)
Lemma UU_UV (a b : nat -> quat) : meq m n (qmm m (qmm r (qmm r U (qdiag a)) (qherm U)) (qmm r (qmm r U (qdiag b)) (qherm V)))
                          (qmm r (qmm r U (qdiag (fun i => qmul (a i) (b i)))) (qherm V)).
Proof.
  rewrite (qmm_assoc C m r m n (qmm r U (qdiag a)) (qherm U)).
  rewrite <- (qmm_assoc C r m r n (qherm U) (qmm r U (qdiag b)) (qherm V)).
  rewrite <- (qmm_assoc C r m r r (qherm U) U (qdiag b)).
  rewrite HU, (qmm_id_l C r r (qdiag b)).
  rewrite <- (qmm_assoc C m r r n (qmm r U (qdiag a)) (qdiag b) (qherm V)).
  rewrite (qmm_assoc C m r r r U (qdiag a) (qdiag b)).
  rewrite (qmm_diag_diag C r a b). reflexivity.
Qed.
Theorem AXA_minus_A : meq m n (qmsub (qmm m (qmm n A X) A) A)
  (qmm r (qmm r U (qdiag (fun i => qsub (qmul (qmul (s i) (d i)) (s i)) (s i)))) (qherm V)).
Proof.
  rewrite AX_spec. rewrite HA at 1 2.
  rewrite (UU_UV (fun i => qmul (s i) (d i)) s).
  rewrite <- (qmm_sub_l C m r n (qmm r U (qdiag _)) (qmm r U (qdiag s)) (qherm V)).
  rewrite <- (qmm_sub_r C m r r U (qdiag _) (qdiag s)).
  rewrite (qmsub_diag C r _ s). reflexivity.
Qed.
Lemma frob2_diag (e : nat -> quat) : frob2 r r (qdiag e) = sumR r (fun i => qnorm2 (e i)).
Proof. unfold frob2. apply sumR_ext. intros i Hi.
  rewrite <- (sumR_delta C r i (fun j => qnorm2 (e j))) by exact Hi.
  apply sumR_ext. intros j Hj. unfold qdiag. rewrite Nat.eqb_sym.
  destruct (Nat.eqb_spec j i) as [->|]; [reflexivity|]. unfold qnorm2, qzero; cbn [qw qx qy qz]. ring. Qed.
Theorem frob2_spectral (e : nat -> quat) :
  frob2 m n (qmm r (qmm r U (qdiag e)) (qherm V)) = sumR r (fun i => qnorm2 (e i)).
Proof.
  rewrite (frob2_meq C m n _ _ (qmm_assoc C m r r n U (qdiag e) (qherm V))).
  rewrite (frob2_unitary_left C m r n U (qmm r (qdiag e) (qherm V)) HU).
  rewrite (frob2_unitary_right C r r n (qdiag e) (qherm V)).
  - apply frob2_diag.
  - rewrite (qherm_herm C n r V). exact HV.
Qed.
Theorem residual_AXA_formula :
  frob2 m n (qmsub (qmm m (qmm n A X) A) A) = sumR r (fun i => qnorm2 (qsub (qmul (qmul (s i) (d i)) (s i)) (s i))).
Proof. rewrite (frob2_meq C m n _ _ AXA_minus_A). apply frob2_spectral. Qed.
End NS.
