(* Matrix norms of quaternion matrices over R: modulus, induced 1- and infinity-norm, Frobenius norm;
   homogeneity, triangle inequality, sub-multiplicativity; spectral-vs-Frobenius bounds on singular values. *)
From Coq Require Import Reals Lra Psatz Arith Lia List.
From QV Require Import CRing CRingR Sums Quat Mat.
From QVT Require Import CauchySchwarz.
Import ListNotations.
Local Open Scope R_scope.

Definition qabs (p : quatR) : R := sqrt (N p).
Lemma qabs_nonneg p : 0 <= qabs p. Proof. apply sqrt_pos. Qed.
Lemma qabs_sq p : qabs p * qabs p = N p. Proof. apply sqrt_sqrt, N_nonneg. Qed.
Lemma qabs_mul p q : qabs (qmul p q) = qabs p * qabs q.
Proof. unfold qabs. rewrite N_mul. apply sqrt_mult; apply N_nonneg. Qed.
Lemma le_of_sq a b : 0 <= a -> 0 <= b -> a * a <= b * b -> a <= b.
Proof. intros Ha Hb H. destruct (Rle_dec a b) as [|Hn]; [assumption|exfalso]. assert (b < a) by lra. nra. Qed.
Lemma dot_le p q : dot p q <= qabs p * qabs q.
Proof.
  pose proof (dot_sq p q) as H. pose proof (qabs_nonneg p). pose proof (qabs_nonneg q).
  destruct (Rle_dec (dot p q) 0) as [Hd|Hd]; [nra|].
  apply le_of_sq; [lra|nra|].
  replace (qabs p * qabs q * (qabs p * qabs q)) with ((qabs p * qabs p) * (qabs q * qabs q)) by ring.
  rewrite !qabs_sq. exact H.
Qed.
Lemma qabs_triangle p q : qabs (qadd p q) <= qabs p + qabs q.
Proof.
  pose proof (qabs_nonneg p). pose proof (qabs_nonneg q). pose proof (qabs_nonneg (qadd p q)).
  apply le_of_sq; [assumption|lra|]. rewrite qabs_sq, N_add. rr.
  pose proof (dot_le p q). pose proof (qabs_sq p). pose proof (qabs_sq q). nra.
Qed.
Lemma qabs_zero : qabs (@qzero RR) = 0.
Proof. unfold qabs, N, qnorm2, qzero; cbn [qw qx qy qz]. rr. replace (0*0+0*0+0*0+0*0) with 0 by ring. apply sqrt_0. Qed.
Lemma qabs_scale (c : R) p : qabs (@qscale RR c p) = Rabs c * qabs p.
Proof.
  unfold qabs. replace (N (@qscale RR c p)) with ((c * c) * N p) by (unfold N, qnorm2, qscale; cbn [qw qx qy qz]; rr; ring).
  rewrite sqrt_mult; [|nra|apply N_nonneg]. f_equal. change (c * c) with (Rsqr c). apply sqrt_Rsqr_abs.
Qed.
Lemma qabs_sum_le n (f : nat -> quatR) : qabs (sumQ n f) <= @sumR RR n (fun k => qabs (f k)).
Proof. induction n; cbn [sumQ sumR]; [rewrite qabs_zero; rr; lra|].
  eapply Rle_trans; [apply qabs_triangle|]. rr. lra. Qed.

(* maximum over a finite index range, starting from 0 (as the loops of the implementation do) *)
Fixpoint maxR (n : nat) (f : nat -> R) : R := match n with O => 0 | S k => Rmax (maxR k f) (f k) end.
Lemma maxR_nonneg n f : 0 <= maxR n f.
Proof. induction n; cbn [maxR]; [lra|]. eapply Rle_trans; [exact IHn|apply Rmax_l]. Qed.
Lemma maxR_ge n f j : (j < n)%nat -> f j <= maxR n f.
Proof. induction n; intros H; [lia|]. cbn [maxR]. destruct (Nat.eq_dec j n) as [->|].
  - apply Rmax_r. - eapply Rle_trans; [apply IHn; lia|apply Rmax_l]. Qed.
Lemma maxR_le n f M : 0 <= M -> (forall j, (j < n)%nat -> f j <= M) -> maxR n f <= M.
Proof. intros HM H. induction n; cbn [maxR]; [assumption|]. apply Rmax_lub; [apply IHn; intros; apply H; lia|apply H; lia]. Qed.
Lemma maxR_scale n f c : 0 <= c -> maxR n (fun j => c * f j) = c * maxR n f.
Proof. intros Hc. induction n; cbn [maxR]; [ring|]. rewrite IHn. apply RmaxRmult. assumption. Qed.
Lemma maxR_ext n f g : (forall j, (j < n)%nat -> f j = g j) -> maxR n f = maxR n g.
Proof. intros H. induction n; cbn [maxR]; [reflexivity|]. rewrite IHn, H by (intros; try apply H; lia). reflexivity. Qed.

Lemma sumRR_le n (f g : nat -> R) : (forall k, (k < n)%nat -> f k <= g k) -> @sumR RR n f <= @sumR RR n g.
Proof. apply sumR_le. Qed.
Lemma sumRR_nonneg n (f : nat -> R) : (forall k, 0 <= f k) -> 0 <= @sumR RR n f.
Proof. apply sumR_nonneg. Qed.

(* column sums / row sums of moduli *)
Definition colsum (m : nat) (A : qmat RR) (j : nat) : R := @sumR RR m (fun i => qabs (A i j)).
Definition norm1 (m n : nat) (A : qmat RR) : R := maxR n (colsum m A).
Definition norminf (m n : nat) (A : qmat RR) : R := maxR m (fun i => @sumR RR n (fun j => qabs (A i j))).
Definition normF (m n : nat) (A : qmat RR) : R := sqrt (frob2 m n A).

Lemma colsum_nonneg m A j : 0 <= colsum m A j.
Proof. apply sumRR_nonneg. intros. apply qabs_nonneg. Qed.

Theorem norm1_homogeneous m n c A : norm1 m n (qmscale c A) = Rabs c * norm1 m n A.
Proof. unfold norm1. rewrite <- maxR_scale by apply Rabs_pos. apply maxR_ext. intros j _.
  unfold colsum, qmscale. change Rmult with (@cmul RR). rewrite <- (sumR_mul_l RR). apply (sumR_ext RR). intros. apply qabs_scale. Qed.
Theorem norm1_triangle m n A B : norm1 m n (qmadd A B) <= norm1 m n A + norm1 m n B.
Proof. unfold norm1. apply maxR_le; [pose proof (maxR_nonneg n (colsum m A)); pose proof (maxR_nonneg n (colsum m B)); lra|].
  intros j Hj. apply Rle_trans with (colsum m A j + colsum m B j).
  - unfold colsum, qmadd. change Rplus with (@cadd RR). rewrite <- (sumR_add RR). apply sumRR_le. intros. apply qabs_triangle.
  - pose proof (maxR_ge n (colsum m A) j Hj). pose proof (maxR_ge n (colsum m B) j Hj). lra. Qed.
Theorem norm1_submultiplicative m k n A B : norm1 m n (qmm k A B) <= norm1 m k A * norm1 k n B.
Proof.
  unfold norm1. apply maxR_le; [apply Rmult_le_pos; apply maxR_nonneg|]. intros j Hj.
  apply Rle_trans with (@sumR RR k (fun l => qabs (B l j) * colsum m A l)).
  - unfold colsum at 1, qmm.
    apply Rle_trans with (@sumR RR m (fun i => @sumR RR k (fun l => qabs (A i l) * qabs (B l j)))).
    + apply sumRR_le. intros i _. eapply Rle_trans; [apply qabs_sum_le|]. apply Req_le. apply (sumR_ext RR). intros. apply qabs_mul.
    + apply Req_le. rewrite (sumR_swap RR m k). apply (sumR_ext RR). intros l _. unfold colsum.
      change Rmult with (@cmul RR). rewrite <- (sumR_mul_l RR). apply (sumR_ext RR). intros. rr. ring.
  - apply Rle_trans with (@sumR RR k (fun l => qabs (B l j) * maxR k (colsum m A))).
    + apply sumRR_le. intros l Hl. apply Rmult_le_compat_l; [apply qabs_nonneg|apply maxR_ge; assumption].
    + change Rmult with (@cmul RR). rewrite (sumR_mul_r RR). rr. rewrite Rmult_comm.
      apply Rmult_le_compat_l; [apply maxR_nonneg|]. apply (maxR_ge n (colsum k B) j Hj).
Qed.

(* the infinity norm is the 1-norm of the entrywise-conjugate transpose *)
Lemma qabs_conj p : qabs (qconj p) = qabs p.
Proof. unfold qabs, N. now rewrite (qnorm2_conj RR). Qed.
Lemma norminf_is_norm1_herm m n A : norminf m n A = norm1 n m (qherm A).
Proof. unfold norminf, norm1, colsum, qherm. apply maxR_ext. intros. apply (sumR_ext RR). intros. now rewrite qabs_conj. Qed.
Theorem norminf_homogeneous m n c A : norminf m n (qmscale c A) = Rabs c * norminf m n A.
Proof. rewrite !norminf_is_norm1_herm. rewrite <- norm1_homogeneous. unfold norm1. apply maxR_ext. intros. unfold colsum.
  apply (sumR_ext RR). intros. unfold qherm, qmscale. rewrite !qabs_conj. rewrite qabs_scale.
  rewrite <- (qabs_conj (A j k)). rewrite <- qabs_scale. reflexivity. Qed.
Theorem norminf_triangle m n A B : norminf m n (qmadd A B) <= norminf m n A + norminf m n B.
Proof. rewrite !norminf_is_norm1_herm. eapply Rle_trans; [|apply norm1_triangle].
  apply Req_le. unfold norm1. apply maxR_ext. intros. unfold colsum. apply (sumR_ext RR). intros.
  unfold qherm, qmadd. now rewrite (qconj_add RR). Qed.
Theorem norminf_submultiplicative m k n A B : norminf m n (qmm k A B) <= norminf m k A * norminf k n B.
Proof. rewrite !norminf_is_norm1_herm. rewrite Rmult_comm. eapply Rle_trans; [|apply norm1_submultiplicative].
  apply Req_le. unfold norm1. apply maxR_ext. intros. unfold colsum. apply (sumR_ext RR). intros. now rewrite (qherm_mm RR). Qed.

(* Frobenius norm *)
Lemma frob2_nonneg m n (A : qmat RR) : 0 <= frob2 m n A.
Proof. unfold frob2. apply sumRR_nonneg. intros. apply sumRR_nonneg. intros. apply N_nonneg. Qed.
Theorem normF_homogeneous m n c A : normF m n (qmscale c A) = Rabs c * normF m n A.
Proof. unfold normF. replace (frob2 m n (qmscale c A)) with ((c * c) * frob2 m n A).
  - rewrite sqrt_mult; [|nra|apply frob2_nonneg]. f_equal. change (c * c) with (Rsqr c). apply sqrt_Rsqr_abs.
  - unfold frob2. change Rmult with (@cmul RR). rewrite <- (sumR_mul_l RR). apply (sumR_ext RR). intros.
    rewrite <- (sumR_mul_l RR). apply (sumR_ext RR). intros. unfold qmscale, qnorm2, qscale; cbn [qw qx qy qz]. rr. ring. Qed.
Theorem normF_submultiplicative m k n A B : normF m n (qmm k A B) <= normF m k A * normF k n B.
Proof. unfold normF. rewrite <- sqrt_mult by apply frob2_nonneg. apply sqrt_le_1; [apply frob2_nonneg|apply Rmult_le_pos; apply frob2_nonneg|].
  apply frob2_submult. Qed.

(* Cauchy-Schwarz for the real inner product sum_k dot(a_k, b_k), from the quaternion one *)
Lemma re_sq_le_N (x : quatR) : qw x * qw x <= N x.
Proof. unfold N, qnorm2. rr. nra. Qed.
Lemma dot_is_re p q : dot p q = qw (qmul (qconj p) q).
Proof. unfold dot. cbn [qmul qconj qw qx qy qz]. rr. ring. Qed.
Lemma sum_dot_cs n (a b : nat -> quatR) :
  @sumR RR n (fun k => dot (a k) (b k)) * @sumR RR n (fun k => dot (a k) (b k))
  <= @sumR RR n (fun k => N (a k)) * @sumR RR n (fun k => N (b k)).
Proof.
  pose proof (quat_cauchy_schwarz n (fun k => qconj (a k)) b) as H. cbv beta in H.
  rewrite (sumR_ext RR n (fun k => N (qconj (a k))) (fun k => N (a k))) in H by (intros; apply (qnorm2_conj RR)).
  eapply Rle_trans; [|exact H].
  replace (@sumR RR n (fun k => dot (a k) (b k))) with (qw (sumQ n (fun k => qmul (qconj (a k)) (b k)))).
  - apply re_sq_le_N.
  - rewrite (sumQ_w RR). apply (sumR_ext RR). intros. symmetry. apply dot_is_re.
Qed.
Lemma frob2_flat m n (A : qmat RR) : frob2 m n A = @sumR RR (m * n) (fun t => N (A (t / n)%nat (t mod n)%nat)).
Proof. unfold frob2. rewrite (sumR_prod RR). apply (sumR_ext RR). intros i _. apply (sumR_ext RR). intros j Hj.
  unfold N. f_equal. f_equal.
  - rewrite Nat.div_add_l by lia. rewrite Nat.div_small by lia. lia.
  - rewrite Nat.add_comm, Nat.mod_add by lia. symmetry. apply Nat.mod_small; lia. Qed.
Theorem normF_triangle m n A B : normF m n (qmadd A B) <= normF m n A + normF m n B.
Proof.
  unfold normF. pose proof (sqrt_pos (frob2 m n A)). pose proof (sqrt_pos (frob2 m n B)).
  apply le_of_sq; [apply sqrt_pos|lra|]. rewrite sqrt_sqrt by apply frob2_nonneg.
  pose proof (frob2_nonneg m n A) as HA. pose proof (frob2_nonneg m n B) as HB.
  pose proof (sqrt_sqrt _ HA) as SA. pose proof (sqrt_sqrt _ HB) as SB.
  set (a := fun t => A (t / n)%nat (t mod n)%nat). set (b := fun t => B (t / n)%nat (t mod n)%nat).
  assert (E : frob2 m n (qmadd A B) = frob2 m n A + 2 * @sumR RR (m * n) (fun t => dot (a t) (b t)) + frob2 m n B).
  { rewrite !frob2_flat. unfold qmadd. fold a b. change Rmult with (@cmul RR). rewrite <- (sumR_mul_l RR).
    change Rplus with (@cadd RR). rewrite <- !(sumR_add RR). apply (sumR_ext RR). intros. rewrite N_add. reflexivity. }
  rewrite E. pose proof (sum_dot_cs (m * n) a b) as CS.
  assert (FA : @sumR RR (m * n) (fun k => N (a k)) = frob2 m n A) by (symmetry; apply frob2_flat).
  assert (FB : @sumR RR (m * n) (fun k => N (b k)) = frob2 m n B) by (symmetry; apply frob2_flat).
  rewrite FA, FB in CS.
  set (D := @sumR RR (m * n) (fun t => dot (a t) (b t))) in *.
  assert (D <= sqrt (frob2 m n A) * sqrt (frob2 m n B)).
  { destruct (Rle_dec D 0); [nra|]. apply le_of_sq; [lra|nra|].
    replace (sqrt (frob2 m n A) * sqrt (frob2 m n B) * (sqrt (frob2 m n A) * sqrt (frob2 m n B)))
      with ((sqrt (frob2 m n A) * sqrt (frob2 m n A)) * (sqrt (frob2 m n B) * sqrt (frob2 m n B))) by ring.
    rewrite SA, SB. exact CS. }
  nra.
Qed.

(* spectral vs Frobenius norm, on the singular values: max s <= sqrt(sum s^2) <= sqrt r * max s *)
Theorem two_le_F_le_sqrt_rank_two (r : nat) (s : nat -> R) : (forall i, 0 <= s i) ->
  maxR r s <= sqrt (@sumR RR r (fun i => s i * s i)) /\
  sqrt (@sumR RR r (fun i => s i * s i)) <= sqrt (INR r) * maxR r s.
Proof.
  intros Hs. set (S2 := @sumR RR r (fun i => s i * s i)).
  assert (HS2 : 0 <= S2) by (apply sumRR_nonneg; intros; nra).
  split.
  - apply maxR_le; [apply sqrt_pos|]. intros j Hj. apply le_of_sq; [apply Hs|apply sqrt_pos|].
    rewrite sqrt_sqrt by assumption. unfold S2.
    assert (G : forall n, (j < n)%nat -> s j * s j <= @sumR RR n (fun i => s i * s i)).
    { induction n; intros H; [lia|]. cbn [sumR]. rr. destruct (Nat.eq_dec j n) as [->|].
      - assert (0 <= @sumR RR n (fun i => s i * s i)) by (apply sumRR_nonneg; intros; nra). lra.
      - specialize (IHn ltac:(lia)). pose proof (Hs n). nra. }
    apply G; assumption.
  - pose proof (maxR_nonneg r s) as HM.
    apply le_of_sq; [apply sqrt_pos|apply Rmult_le_pos; [apply sqrt_pos|assumption]|].
    rewrite sqrt_sqrt by assumption.
    replace (sqrt (INR r) * maxR r s * (sqrt (INR r) * maxR r s)) with ((sqrt (INR r) * sqrt (INR r)) * (maxR r s * maxR r s)) by ring.
    rewrite sqrt_sqrt by apply pos_INR. unfold S2.
    assert (G : forall n, (n <= r)%nat -> @sumR RR n (fun i => s i * s i) <= INR n * (maxR r s * maxR r s)).
    { induction n; intros H; [cbn; lra|]. cbn [sumR]. rr. rewrite S_INR. specialize (IHn ltac:(lia)).
      pose proof (maxR_ge r s n ltac:(lia)). pose proof (Hs n). nra. }
    apply G. lia.
Qed.

(* ------------------------------------------------------------------------------------------------
   Schur test: ||A x||_2^2 <= ||A||_inf ||A||_1 ||x||_2^2 for every vector x, i.e. the spectral norm (any bound of ||A x|| over unit x,
   in particular the largest singular value) is at most sqrt(||A||_1 ||A||_inf). *)
Lemma weighted_cs n (al xi : nat -> R) : (forall j, 0 <= al j) ->
  let S := @sumR RR n (fun j => al j * xi j) in let A := @sumR RR n al in let B := @sumR RR n (fun j => al j * (xi j * xi j)) in
  0 <= A /\ 0 <= B /\ S * S <= A * B.
Proof.
  intros Ha. induction n as [|n IH]; cbn [sumR]; rr; [repeat split; lra|].
  destruct IH as (HA & HB & HS). cbv zeta in *. rr in HA. rr in HB. rr in HS.
  set (S := @sumR RR n (fun j => al j * xi j)) in *. set (A := @sumR RR n al) in *. set (B := @sumR RR n (fun j => al j * (xi j * xi j))) in *.
  pose proof (Ha n) as Hn. set (a := al n) in *. set (x := xi n) in *.
  assert (Hx2 : 0 <= x * x) by nra.
  repeat split; [lra | nra |].
  assert (Hk : 2 * (x * S) <= A * (x * x) + B * 1).
  { apply amgm; try lra. nra. }
  nra.
Qed.
Definition matvec (n : nat) (A : qmat RR) (x : nat -> quatR) : nat -> quatR := fun i => sumQ n (fun j => qmul (A i j) (x j)).
Definition vnorm2 (n : nat) (x : nat -> quatR) : R := @sumR RR n (fun j => N (x j)).
Lemma rowsum_le_norminf m n (A : qmat RR) i : (i < m)%nat -> @sumR RR n (fun j => qabs (A i j)) <= norminf m n A.
Proof. intros Hi. unfold norminf. apply (maxR_ge m (fun i => @sumR RR n (fun j => qabs (A i j))) i Hi). Qed.
Lemma colsum_le_norm1 m n (A : qmat RR) j : (j < n)%nat -> colsum m A j <= norm1 m n A.
Proof. intros Hj. unfold norm1. now apply maxR_ge. Qed.
Theorem schur_test m n (A : qmat RR) (x : nat -> quatR) :
  vnorm2 m (matvec n A x) <= norminf m n A * norm1 m n A * vnorm2 n x.
Proof.
  unfold vnorm2.
  (* row by row *)
  assert (Hrow : forall i, (i < m)%nat -> N (matvec n A x i) <= norminf m n A * @sumR RR n (fun j => qabs (A i j) * N (x j))).
  { intros i Hi. unfold matvec.
    pose proof (qabs_sum_le n (fun j => qmul (A i j) (x j))) as H1. cbv beta in H1.
    rewrite (sumR_ext RR n (fun k => qabs (qmul (A i k) (x k))) (fun k => qabs (A i k) * qabs (x k))) in H1 by (intros; apply qabs_mul).
    destruct (weighted_cs n (fun j => qabs (A i j)) (fun j => qabs (x j)) (fun j => qabs_nonneg _)) as (HA & HB & HS). cbv zeta in *.
    set (S := @sumR RR n (fun j => qabs (A i j) * qabs (x j))) in *. set (Ar := @sumR RR n (fun j => qabs (A i j))) in *.
    rewrite (sumR_ext RR n (fun j => qabs (A i j) * (qabs (x j) * qabs (x j))) (fun j => qabs (A i j) * N (x j))) in HS, HB by (intros; now rewrite qabs_sq).
    set (B := @sumR RR n (fun j => qabs (A i j) * N (x j))) in *.
    pose proof (qabs_nonneg (sumQ n (fun j => qmul (A i j) (x j)))) as H0. rewrite <- qabs_sq.
    set (y := qabs (sumQ n (fun j => qmul (A i j) (x j)))) in *.
    assert (Hy : y * y <= S * S) by nra.
    pose proof (rowsum_le_norminf m n A i Hi) as Hr. fold Ar in Hr.
    apply Rle_trans with (Ar * B); [lra|]. apply Rmult_le_compat_r; assumption. }
  apply Rle_trans with (@sumR RR m (fun i => norminf m n A * @sumR RR n (fun j => qabs (A i j) * N (x j)))).
  { apply sumRR_le. exact Hrow. }
  rewrite sumR_mul_l. rr. rewrite Rmult_assoc. apply Rmult_le_compat_l; [apply maxR_nonneg|].
  rewrite sumR_swap.
  rewrite <- (sumR_mul_l RR n (norm1 m n A)). apply sumRR_le. intros j Hj. rr.
  assert (E : @sumR RR m (fun i => qabs (A i j) * N (x j)) = colsum m A j * N (x j))
    by (unfold colsum; apply (sumR_mul_r RR m (N (x j)) (fun i => qabs (A i j)))).
  rewrite E. apply Rmult_le_compat_r; [apply N_nonneg|]. now apply colsum_le_norm1.
Qed.

(* ------------------------------------------------------------------------------------------------
   The spectral norm as the least bound of ||A X||_F over ||X||_F (X any n x p block of vectors): the set of such bounds is closed under
   the operations of the norm axioms, so the least one (the spectral norm, the largest singular value) satisfies them. *)
From QV Require Import QMat.
Definition op_bound (m n : nat) (A : qmat RR) (M : R) : Prop :=
  0 <= M /\ forall p (X : qmat RR), normF m p (qmm n A X) <= M * normF n p X.
Lemma normF_meq m n (A B : qmat RR) : meq m n A B -> normF m n A = normF m n B.
Proof. intros E. unfold normF. now rewrite (frob2_meq RR m n A B E). Qed.
Lemma normF_nonneg m n (A : qmat RR) : 0 <= normF m n A. Proof. apply sqrt_pos. Qed.
Theorem op_bound_frobenius m n A : op_bound m n A (normF m n A).
Proof. split; [apply normF_nonneg|]. intros p X. apply normF_submultiplicative. Qed.
Theorem op_bound_triangle m n A B M K : op_bound m n A M -> op_bound m n B K -> op_bound m n (qmadd A B) (M + K).
Proof.
  intros [HM HA] [HK HB]. split; [lra|]. intros p X.
  rewrite (normF_meq m p _ _ (qmm_add_l RR m n p A B X)).
  eapply Rle_trans; [apply normF_triangle|]. specialize (HA p X). specialize (HB p X). lra.
Qed.
Theorem op_bound_submultiplicative m k n A B M K : op_bound m k A M -> op_bound k n B K -> op_bound m n (qmm k A B) (M * K).
Proof.
  intros [HM HA] [HK HB]. split; [now apply Rmult_le_pos|]. intros p X.
  rewrite (normF_meq m p _ _ (qmm_assoc RR m k n p A B X)).
  eapply Rle_trans; [apply HA|]. rewrite Rmult_assoc. apply Rmult_le_compat_l; [exact HM|]. apply HB.
Qed.
Lemma sumQ_qscale n (c : R) (f : nat -> quatR) : @qscale RR c (sumQ n f) = sumQ n (fun k => @qscale RR c (f k)).
Proof. induction n as [|n IH]; cbn [sumQ]; [apply qeq; cbn [qscale qzero qw qx qy qz]; rr; ring|]. rewrite <- IH. apply qeq; cbn [qscale qadd qw qx qy qz]; rr; ring. Qed.
Theorem op_bound_homogeneous m n A M c : op_bound m n A M -> op_bound m n (qmscale c A) (Rabs c * M).
Proof.
  intros [HM HA]. split; [apply Rmult_le_pos; [apply Rabs_pos | exact HM]|]. intros p X.
  assert (E : meq m p (qmm n (qmscale c A) X) (qmscale c (qmm n A X))).
  { intros i j _ _. unfold qmm, qmscale. rewrite sumQ_qscale. apply (sumQ_ext RR). intros l _. apply qeq; cbn [qmul qscale qw qx qy qz]; rr; ring. }
  rewrite (normF_meq m p _ _ E), normF_homogeneous, Rmult_assoc. apply Rmult_le_compat_l; [apply Rabs_pos | apply HA].
Qed.
