(* 2x2 block similarities: the matrix P = I except the block [[a,b],[c,d]] at rows/cols s, s+1;
   P M acts on rows s, s+1 only, M P^H on columns s, s+1 only; P is unitary when the block is. *)
From Coq Require Import Arith Lia Bool Setoid Morphisms Ring.
From QV Require Import CRing Sums Quat Mat QMat.
From QVT Require Import Reflector.

Section Pad.
Variable C : CRing.
Add Ring Cr6 : (cr_th C).
Notation quat := (quat C).
Notation qmat := (qmat C).
Definition pad2 (s : nat) (a b c d : quat) : qmat := fun i j =>
  if Nat.eqb i s then (if Nat.eqb j s then a else if Nat.eqb j (S s) then b else qzero)
  else if Nat.eqb i (S s) then (if Nat.eqb j s then c else if Nat.eqb j (S s) then d else qzero)
  else qmid i j.
Definition rows2q (s : nat) (a b c d : quat) (M : qmat) : qmat := fun i k =>
  if Nat.eqb i s then qadd (qmul a (M s k)) (qmul b (M (S s) k))
  else if Nat.eqb i (S s) then qadd (qmul c (M s k)) (qmul d (M (S s) k)) else M i k.
(* M [[a,b],[c,d]]^H on columns s, s+1 *)
Definition cols2q (s : nat) (a b c d : quat) (M : qmat) : qmat := fun i k =>
  if Nat.eqb k s then qadd (qmul (M i s) (qconj a)) (qmul (M i (S s)) (qconj b))
  else if Nat.eqb k (S s) then qadd (qmul (M i s) (qconj c)) (qmul (M i (S s)) (qconj d)) else M i k.
Lemma sumQ_two n s (f : nat -> quat) : S s < n -> (forall l, l < n -> l <> s -> l <> S s -> f l = qzero) ->
  sumQ n f = qadd (f s) (f (S s)).
Proof.
  intros Hs Hz. destruct (Nat.le_exists_sub (S (S s)) n Hs) as [r [Hn _]]. rewrite Hn, (Nat.add_comm r).
  replace (S (S s) + r) with (s + (2 + r)) by lia. rewrite (sumQ_app C s (2 + r)), (sumQ_app C 2 r).
  rewrite (sumQ_zero_ext C s) by (intros l Hl; apply Hz; lia).
  rewrite (sumQ_zero_ext C r) by (intros l Hl; apply Hz; lia).
  cbn [sumQ]. replace (s + 0) with s by lia. replace (s + 1) with (S s) by lia. qr.
Qed.
Lemma pad2_mm_l n p s a b c d (M : qmat) : S s < n -> meq n p (qmm n (pad2 s a b c d) M) (rows2q s a b c d M).
Proof.
  intros Hs i k Hi Hk. unfold qmm, rows2q.
  destruct (Nat.eqb_spec i s) as [->|H1]; [|destruct (Nat.eqb_spec i (S s)) as [->|H2]].
  - rewrite (sumQ_two n s) by (try assumption; intros l Hl L1 L2; unfold pad2; rewrite Nat.eqb_refl;
      apply Nat.eqb_neq in L1, L2; rewrite L1, L2; qr).
    unfold pad2. rewrite !Nat.eqb_refl. replace (S s =? s) with false by (symmetry; apply Nat.eqb_neq; lia). reflexivity.
  - rewrite (sumQ_two n s) by (try assumption; intros l Hl L1 L2; unfold pad2; replace (S s =? s) with false by (symmetry; apply Nat.eqb_neq; lia);
      rewrite Nat.eqb_refl; apply Nat.eqb_neq in L1, L2; rewrite L1, L2; qr).
    unfold pad2. rewrite !Nat.eqb_refl. replace (S s =? s) with false by (symmetry; apply Nat.eqb_neq; lia). reflexivity.
  - rewrite (sumQ_ext C n _ (fun l => qmul (if Nat.eqb i l then qone else qzero) (M l k))).
    + rewrite (sumQ_delta_l C n (fun l => M l k) (fun _ => qone) i Hi). qr.
    + intros l _. unfold pad2, qmid. apply Nat.eqb_neq in H1, H2. now rewrite H1, H2.
Qed.
Lemma pad2_herm s a b c d i j : qherm (pad2 s a b c d) i j = pad2 s (qconj a) (qconj c) (qconj b) (qconj d) i j.
Proof.
  unfold qherm, pad2, qmid.
  destruct (Nat.eqb_spec i s) as [->|H1]; destruct (Nat.eqb_spec j s) as [->|H3]; try rewrite Nat.eqb_refl;
  repeat match goal with |- context [Nat.eqb ?x ?y] => destruct (Nat.eqb_spec x y); try lia end; subst; try reflexivity; try qr.
Qed.
Lemma pad2_mm_r n p s a b c d (M : qmat) : S s < n -> meq p n (qmm n M (qherm (pad2 s a b c d))) (cols2q s a b c d M).
Proof.
  intros Hs i k Hi Hk. unfold qmm, cols2q.
  rewrite (sumQ_ext C n _ (fun l => qmul (M i l) (pad2 s (qconj a) (qconj c) (qconj b) (qconj d) l k))) by (intros l _; now rewrite pad2_herm).
  destruct (Nat.eqb_spec k s) as [->|H1]; [|destruct (Nat.eqb_spec k (S s)) as [->|H2]].
  - rewrite (sumQ_two n s) by (try assumption; intros l Hl L1 L2; unfold pad2, qmid; apply Nat.eqb_neq in L1, L2; rewrite L1, L2;
      replace (l =? s) with false by (symmetry; exact L1); qr).
    unfold pad2. rewrite !Nat.eqb_refl. replace (S s =? s) with false by (symmetry; apply Nat.eqb_neq; lia). reflexivity.
  - rewrite (sumQ_two n s) by (try assumption; intros l Hl L1 L2; unfold pad2, qmid; apply Nat.eqb_neq in L1, L2; rewrite L1, L2;
      replace (l =? S s) with false by (symmetry; exact L2); qr).
    unfold pad2. rewrite !Nat.eqb_refl. replace (S s =? s) with false by (symmetry; apply Nat.eqb_neq; lia). reflexivity.
  - rewrite (sumQ_ext C n _ (fun l => qmul (M i l) (if Nat.eqb l k then qone else qzero))).
    + rewrite (sumQ_delta_r C n (fun l => M i l) (fun _ => qone) k Hk). qr.
    + intros l _. unfold pad2, qmid. apply Nat.eqb_neq in H1, H2.
      destruct (Nat.eqb_spec l s) as [->|L1]; [rewrite H1, H2; replace (s =? k) with false by (symmetry; apply Nat.eqb_neq; intro; subst; now rewrite Nat.eqb_refl in H1); reflexivity|].
      destruct (Nat.eqb_spec l (S s)) as [->|L2]; [rewrite H1, H2; replace (S s =? k) with false by (symmetry; apply Nat.eqb_neq; intro; subst; now rewrite Nat.eqb_refl in H2); reflexivity|].
      reflexivity.
Qed.
(* the block is unitary: B^H B = I and B B^H = I *)
Definition unitary2 (a b c d : quat) : Prop :=
  qadd (qmul (qconj a) a) (qmul (qconj c) c) = qone /\ qadd (qmul (qconj a) b) (qmul (qconj c) d) = qzero /\
  qadd (qmul (qconj b) a) (qmul (qconj d) c) = qzero /\ qadd (qmul (qconj b) b) (qmul (qconj d) d) = qone /\
  qadd (qmul a (qconj a)) (qmul b (qconj b)) = qone /\ qadd (qmul a (qconj c)) (qmul b (qconj d)) = qzero /\
  qadd (qmul c (qconj a)) (qmul d (qconj b)) = qzero /\ qadd (qmul c (qconj c)) (qmul d (qconj d)) = qone.
Theorem pad2_unitary n s a b c d : S s < n -> unitary2 a b c d -> unitary C n (pad2 s a b c d).
Proof.
  intros Hs (U1 & U2 & U3 & U4 & U5 & U6 & U7 & U8). split.
  - assert (E : meq n n (qherm (pad2 s a b c d)) (pad2 s (qconj a) (qconj c) (qconj b) (qconj d))) by (intros i j _ _; apply pad2_herm).
    rewrite E, (pad2_mm_l n n s _ _ _ _ (pad2 s a b c d) Hs). intros i j Hi Hj. unfold rows2q, pad2, qmid.
    destruct (Nat.eqb_spec i s) as [->|H1]; [|destruct (Nat.eqb_spec i (S s)) as [->|H2]];
    rewrite ?Nat.eqb_refl; replace (S s =? s) with false by (symmetry; apply Nat.eqb_neq; lia);
    destruct (Nat.eqb_spec j s) as [->|J1]; try (destruct (Nat.eqb_spec j (S s)) as [->|J2]);
    rewrite ?Nat.eqb_refl; try (replace (s =? S s) with false by (symmetry; apply Nat.eqb_neq; lia));
    try (replace (S s =? s) with false by (symmetry; apply Nat.eqb_neq; lia));
    try assumption; try reflexivity;
    repeat match goal with |- context [Nat.eqb ?x ?y] => destruct (Nat.eqb_spec x y); try lia end; try reflexivity; try qr.
  - rewrite (pad2_mm_r n n s a b c d (pad2 s a b c d) Hs). intros i j Hi Hj. unfold cols2q, pad2, qmid.
    destruct (Nat.eqb_spec j s) as [->|J1]; [|destruct (Nat.eqb_spec j (S s)) as [->|J2]];
    rewrite ?Nat.eqb_refl; replace (S s =? s) with false by (symmetry; apply Nat.eqb_neq; lia);
    destruct (Nat.eqb_spec i s) as [->|H1]; try (destruct (Nat.eqb_spec i (S s)) as [->|H2]);
    rewrite ?Nat.eqb_refl; try (replace (s =? S s) with false by (symmetry; apply Nat.eqb_neq; lia));
    try (replace (S s =? s) with false by (symmetry; apply Nat.eqb_neq; lia));
    try assumption; try reflexivity;
    repeat match goal with |- context [Nat.eqb ?x ?y] => destruct (Nat.eqb_spec x y); try lia end; try reflexivity; try qr.
Qed.
End Pad.
