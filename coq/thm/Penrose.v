(* C03: the Moore-Penrose inverse.  (1) The four Penrose equations have at most one solution, over any commutative component ring
   (no division, no rank assumption).  (2) For A = U diag(s) V^H with orthonormal columns and a real vector d with s d s = s, d s d = d
   (d_k = 1/s_k where s_k <> 0, 0 elsewhere) the matrix V diag(d) U^H satisfies them -- it is THE pseudoinverse, the limit V diag(t/s) U^H
   (t -> 1 on the non-zero values) of the Newton-Schulz recurrences. *)
From Coq Require Import Arith Lia Bool Setoid Morphisms Ring.
From QV Require Import CRing Sums Quat Mat QMat.
From QVT Require Import EckartYoung.

Section Pen.
Variable C : CRing.
Add Ring Cr15 : (cr_th C).
Notation qmat := (qmat C).

Definition penrose (m n : nat) (A X : qmat) : Prop :=
  meq m n (qmm m (qmm n A X) A) A /\ meq n m (qmm n (qmm m X A) X) X /\
  meq m m (qherm (qmm n A X)) (qmm n A X) /\ meq n n (qherm (qmm m X A)) (qmm m X A).

(* X = X A Y for any two solutions (and, symmetrically, Y = X A Y) *)
Lemma penrose_left m n (A X Y : qmat) : penrose m n A X -> penrose m n A Y -> meq n m X (qmm n (qmm m X A) Y).
Proof.
  intros (X1 & X2 & X3 & X4) (Y1 & Y2 & Y3 & Y4).
  (* A^H = (A Y A)^H = A^H (A Y)^H = A^H (A Y) *)
  assert (E1 : meq n m (qherm A) (qmm m (qherm A) (qmm n A Y))).
  { rewrite <- Y1 at 1. rewrite (qherm_mm_meq C m m n (qmm n A Y) A). rewrite Y3. reflexivity. }
  assert (E2 : meq n m X (qmm m X (qmm n A X))).
  { rewrite <- (qmm_assoc C n m n m X A X). symmetry. exact X2. }
  assert (E3 : meq m m (qmm n A X) (qmm n (qherm X) (qherm A))).
  { rewrite <- X3. apply (qherm_mm_meq C m n m A X). }
  (* X = X (A X) = X X^H A^H = X X^H A^H (A Y) = X (A X) (A Y) = X (A Y) = (X A) Y *)
  rewrite E2 at 1. rewrite E3. rewrite E1.
  rewrite <- (qmm_assoc C m n m m (qherm X) (qherm A) (qmm n A Y)).
  rewrite <- E3.
  rewrite <- (qmm_assoc C n m m m X (qmm n A X) (qmm n A Y)).
  rewrite <- E2.
  rewrite <- (qmm_assoc C n m n m X A Y). reflexivity.
Qed.
Lemma penrose_right m n (A X Y : qmat) : penrose m n A X -> penrose m n A Y -> meq n m Y (qmm n (qmm m X A) Y).
Proof.
  intros (X1 & X2 & X3 & X4) (Y1 & Y2 & Y3 & Y4).
  (* A^H = (A (X A))^H = (X A)^H A^H = (X A) A^H *)
  assert (E1 : meq n m (qherm A) (qmm n (qmm m X A) (qherm A))).
  { rewrite <- X1 at 1. rewrite (qmm_assoc C m n m n A X A). rewrite (qherm_mm_meq C m n n A (qmm m X A)). rewrite X4. reflexivity. }
  assert (E3 : meq n n (qmm m Y A) (qmm m (qherm A) (qherm Y))).
  { rewrite <- Y4. apply (qherm_mm_meq C n m n Y A). }
  assert (E2 : meq n m Y (qmm n (qmm m Y A) Y)) by (symmetry; exact Y2).
  (* Y = (Y A) Y = A^H Y^H Y = (X A) A^H Y^H Y = (X A) (Y A) Y = (X A) Y *)
  rewrite E2 at 1. rewrite E3. rewrite E1.
  rewrite (qmm_assoc C n n m n (qmm m X A) (qherm A) (qherm Y)).
  rewrite <- E3.
  rewrite (qmm_assoc C n n n m (qmm m X A) (qmm m Y A) Y).
  rewrite <- E2. reflexivity.
Qed.
Theorem penrose_unique m n (A X Y : qmat) : penrose m n A X -> penrose m n A Y -> meq n m X Y.
Proof. intros HX HY. rewrite (penrose_left m n A X Y HX HY) at 1. symmetry. exact (penrose_right m n A X Y HX HY). Qed.

(* products and conjugate transposes of factorised matrices *)
Lemma usv_ext m n r (U V : qmat) (a b : nat -> C) : (forall k, k < r -> a k = b k) -> meq m n (usv r U a V) (usv r U b V).
Proof. intros E i j _ _. rewrite !usv_entry. apply (sumQ_ext C). intros k Hk. now rewrite (E k Hk). Qed.
Lemma usv_herm m n r (U V : qmat) (a : nat -> C) : meq n m (qherm (usv r U a V)) (usv r V a U).
Proof.
  intros i j _ _. unfold qherm. rewrite !usv_entry. rewrite (sumQ_conj C). apply (sumQ_ext C). intros k Hk.
  rewrite !(qconj_mul C), (qconj_conj C), (qconj_real C). rewrite <- (qmul_assoc C). rewrite (qreal_central C (a k) (qconj (U j k))).
  rewrite !(qmul_assoc C). reflexivity.
Qed.
Lemma usv_mul m n p r (U V W : qmat) (a b : nat -> C) : meq r r (qmm n (qherm V) V) qmid ->
  meq m p (qmm n (usv r U a V) (usv r V b W)) (usv r U (fun k => (a k * b k)%cr) W).
Proof.
  intros HV. unfold usv.
  rewrite (qmm_assoc C m r n p (qmm r U (rdiag a)) (qherm V) (qmm r (qmm r V (rdiag b)) (qherm W))).
  rewrite <- (qmm_assoc C r n r p (qherm V) (qmm r V (rdiag b)) (qherm W)).
  rewrite <- (qmm_assoc C r n r r (qherm V) V (rdiag b)), HV, (qmm_id_l C r r (rdiag b)).
  rewrite <- (qmm_assoc C m r r p (qmm r U (rdiag a)) (rdiag b) (qherm W)).
  rewrite (qmm_assoc C m r r r U (rdiag a) (rdiag b)).
  assert (D : meq r r (qmm r (rdiag a) (rdiag b)) (rdiag (fun k => (a k * b k)%cr))).
  { unfold rdiag. rewrite (qmm_diag_diag C r). intros i j _ _. unfold qdiag. destruct (Nat.eqb i j); [|reflexivity]. unfold qreal. qr. }
  rewrite D. reflexivity.
Qed.

Theorem factorised_pseudoinverse_is_penrose m n r (U V : qmat) (s d : nat -> C) :
  meq r r (qmm m (qherm U) U) qmid -> meq r r (qmm n (qherm V) V) qmid ->
  (forall k, k < r -> (s k * d k * s k = s k)%cr) -> (forall k, k < r -> (d k * s k * d k = d k)%cr) ->
  penrose m n (usv r U s V) (usv r V d U).
Proof.
  intros HU HV Hs Hd. repeat split.
  - rewrite (usv_mul m n m r U V U s d HV), (usv_mul m m n r U U V _ s HU). apply usv_ext. intros k Hk. apply Hs, Hk.
  - rewrite (usv_mul n m n r V U V d s HU), (usv_mul n n m r V V U _ d HV). apply usv_ext. intros k Hk. apply Hd, Hk.
  - rewrite (usv_mul m n m r U V U s d HV). apply usv_herm.
  - rewrite (usv_mul n m n r V U V d s HU). apply usv_herm.
Qed.
(* hence: whatever satisfies the Penrose equations for A = U diag(s) V^H IS V diag(d) U^H *)
Corollary pseudoinverse_is_the_factorised_one m n r (U V X : qmat) (s d : nat -> C) :
  meq r r (qmm m (qherm U) U) qmid -> meq r r (qmm n (qherm V) V) qmid ->
  (forall k, k < r -> (s k * d k * s k = s k)%cr) -> (forall k, k < r -> (d k * s k * d k = d k)%cr) ->
  penrose m n (usv r U s V) X -> meq n m X (usv r V d U).
Proof.
  intros HU HV Hs Hd HX. apply (penrose_unique m n (usv r U s V)); [exact HX|].
  apply factorised_pseudoinverse_is_penrose; assumption.
Qed.
(* full column rank: with G a two-sided inverse of the Gram matrix A^H A, the matrix G A^H satisfies the four equations *)
Theorem gram_inverse_is_penrose m n (A G : qmat) :
  meq n n (qmm n G (qmm m (qherm A) A)) qmid -> meq n n (qmm n (qmm m (qherm A) A) G) qmid ->
  penrose m n A (qmm n G (qherm A)).
Proof.
  intros GL GR. set (M := qmm m (qherm A) A) in *.
  assert (MH : meq n n (qherm M) M).
  { unfold M. rewrite (qherm_mm_meq C n m n (qherm A) A), (qherm_herm C m n A). reflexivity. }
  assert (GH : meq n n (qherm G) G).
  { rewrite <- (qmm_id_r C n n (qherm G)), <- GR.
    rewrite <- (qmm_assoc C n n n n (qherm G) M G).
    assert (E : meq n n (qmm n (qherm G) M) qmid).
    { rewrite <- MH at 1. rewrite <- (qherm_mm_meq C n n n M G), GR. apply (qherm_id C n). }
    rewrite E. apply (qmm_id_l C n n G). }
  assert (XA : meq n n (qmm m (qmm n G (qherm A)) A) qmid).
  { rewrite (qmm_assoc C n n m n G (qherm A) A). exact GL. }
  repeat split.
  - rewrite (qmm_assoc C m n m n A (qmm n G (qherm A)) A), XA. apply (qmm_id_r C m n A).
  - rewrite XA. apply (qmm_id_l C n m).
  - rewrite (qherm_mm_meq C m n m A (qmm n G (qherm A))), (qherm_mm_meq C n n m G (qherm A)), (qherm_herm C m n A), GH.
    rewrite (qmm_assoc C m n n m A G (qherm A)). reflexivity.
  - rewrite XA. apply (qherm_id C n).
Qed.
End Pen.
