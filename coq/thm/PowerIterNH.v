(* C19: the complex-adjoint variant (power_iteration_nonhermitian) returns a unit quaternion vector -- for every matrix, every budget,
   every pair of tolerances (res_tol = None included) and every start vector -- whenever the purified vector it maps back is not zero. *)
From Coq Require Import Reals Lra Arith Lia List Bool.
From QV Require Import FOps FOpsR.
From QVM Require Import Householder PowerIter.
From QVT Require Import HouseholderR PowerIterThm.
Local Open Scope R_scope.

Theorem nonherm_unit n (A : fmat ROps) eig_tol res_tol max_it (x0 : nat -> fq ROps) :
  let out := nonherm ROps n A eig_tol res_tol max_it x0 in
  vnorm ROps n (fst (fst out)) = 1 \/ vnorm ROps n (fst (fst out)) = 0.
Proof.
  cbv zeta. unfold nonherm. cbv zeta.
  match goal with |- context [fis0 ROps (vnorm ROps n ?q)] => set (qv := q) end.
  cbn [fst].
  destruct (fis0 ROps (vnorm ROps n qv)) eqn:E.
  - right. apply fis0_R in E. rewrite vnorm_R, vn2_vtab. rewrite vnorm_R in E. exact E.
  - left. apply fis0_R_false in E. exact (unit_step n qv E).
Qed.
