(* C19: the power iteration returns a unit vector whatever happens (breakdown, budget, either stopping
   test), its Rayleigh-quotient modulus is bounded by every bound of ||A x|| over unit x (the spectral
   norm), and in the eigenbasis of a Hermitian matrix the iterate's coordinates evolve as lambda_i^k
   (so the non-dominant part decays like |lambda_i / lambda_1|^k and the dominant coordinate flips sign
   with a negative dominant eigenvalue).  Over R. *)
From Coq Require Import Reals Lra Field Psatz Arith Lia Bool List Setoid Morphisms.
From QV Require Import CRing Sums Quat Mat QMat CRingR FOps FOpsR.
From QVT Require Import CauchySchwarz Reflector Norms HouseholderR SchurThm.
From QVM Require Import Householder PowerIter.
Import ListNotations.
Local Open Scope R_scope.

Notation fvecR := (nat -> fqR).
Definition vn2 (n : nat) (v : fvecR) : R := rsum n (fun i => NR (v i)).
Lemma vn2_nonneg n v : 0 <= vn2 n v. Proof. apply rsum_nonneg. intros; apply NR_nonneg. Qed.
Lemma vnorm_R n (v : fvecR) : vnorm ROps n v = sqrt (vn2 n v).
Proof. unfold vnorm. rewrite fsum_rsum. reflexivity. Qed.
Lemma vtab_in n (v : fvecR) i : (i < n)%nat -> vtab ROps n v i = v i.
Proof. intros H. unfold vtab. now apply nth_map_seq. Qed.
Lemma vn2_ext n (u v : fvecR) : (forall i, (i < n)%nat -> u i = v i) -> vn2 n u = vn2 n v.
Proof. intros H. unfold vn2. apply rsum_ext. intros i Hi. now rewrite H. Qed.
Lemma vn2_vtab n v : vn2 n (vtab ROps n v) = vn2 n v.
Proof. apply vn2_ext. intros. now apply vtab_in. Qed.
Lemma vn2_divr n (v : fvecR) c : c <> 0 -> vn2 n (vdivr ROps v c) = vn2 n v / (c * c).
Proof. intros Hc. unfold vn2, vdivr. rewrite <- rsum_div. apply rsum_ext. intros i _. now apply NR_divr. Qed.
Lemma unit_step n (w : fvecR) : vnorm ROps n w <> 0 -> vnorm ROps n (vtab ROps n (vdivr ROps w (vnorm ROps n w))) = 1.
Proof.
  intros H. rewrite vnorm_R in *. rewrite vnorm_R, vn2_vtab, vn2_divr by exact H.
  rewrite sqrt_sqrt by apply vn2_nonneg.
  assert (Hp : vn2 n w <> 0) by (intros E; apply H; rewrite E; apply sqrt_0).
  replace (vn2 n w / vn2 n w) with 1 by (field; exact Hp). apply sqrt_1.
Qed.
(* every exit of the loop returns a unit vector *)
Theorem pi_loop_unit n A tol fuel : forall v prev k, vnorm ROps n v = 1 -> vnorm ROps n (fst (pi_loop ROps n A tol fuel v prev k)) = 1.
Proof.
  induction fuel as [|f IH]; intros v prev k Hv; cbn [pi_loop]; [exact Hv|].
  set (Av := vtab ROps n (matvec ROps n A v)). destruct (fis0 ROps (vnorm ROps n Av)) eqn:E0; [exact Hv|].
  apply fis0_R_false in E0. pose proof (unit_step n Av E0) as Hu.
  destruct (fltb _ _); [exact Hu|]. destruct prev as [p|]; [destruct (fltb _ _); [exact Hu|]|]; now apply IH.
Qed.
Theorem power_iteration_unit n A tol max_it (x0 : fvecR) : vnorm ROps n x0 <> 0 ->
  vnorm ROps n (fst (fst (power_iteration ROps n A tol max_it x0))) = 1.
Proof.
  intros H0. unfold power_iteration. pose proof (pi_loop_unit n A tol max_it _ None 0%nat (unit_step n x0 H0)) as H.
  destruct (pi_loop _ _ _ _ _ _ _ _) as [v k]. exact H.
Qed.
(* Cauchy-Schwarz for u^H w *)
Lemma toq_inner n (u w : fvecR) : toq (inner ROps n u w) = sumQ n (fun i => qmul (qconj (toq (u i))) (toq (w i))).
Proof. unfold inner. rewrite toq_sum. apply (sumQ_ext RR). intros i _. now rewrite toq_mul, toq_conj. Qed.
Lemma fqabs_R (q : fqR) : fqabs q = sqrt (NR q). Proof. reflexivity. Qed.
Lemma inner_cs n (u w : fvecR) : fqabs (inner ROps n u w) <= sqrt (vn2 n u) * sqrt (vn2 n w).
Proof.
  rewrite fqabs_R, <- sqrt_mult by apply vn2_nonneg. apply sqrt_le_1; [apply NR_nonneg|apply Rmult_le_pos; apply vn2_nonneg|].
  change (NR (inner ROps n u w)) with (N (toq (inner ROps n u w))). rewrite toq_inner.
  eapply Rle_trans; [apply quat_cauchy_schwarz|]. rewrite !sumR_rsum. apply Req_le. f_equal.
  apply rsum_ext. intros i _. change (N (qconj (toq (u i)))) with (@qnorm2 RR (qconj (toq (u i)))). now rewrite (qnorm2_conj RR).
Qed.
Lemma inner_self n (u : fvecR) : inner ROps n u u = @fqreal ROps (vn2 n u).
Proof.
  unfold inner, vn2. rewrite <- fqsum_real. apply fqsum_ext. intros i _. unfold NR. apply fqeq; ro; ring.
Qed.
(* the Rayleigh-quotient modulus of a unit vector never exceeds a bound M of ||A x|| over unit x (i.e. ||A||_2) *)
Theorem rayleigh_le_spectral n A (v : fvecR) M : vnorm ROps n v = 1 ->
  (forall x : fvecR, vnorm ROps n x = 1 -> vnorm ROps n (matvec ROps n A x) <= M) ->
  rayleigh_abs ROps n A v <= M.
Proof.
  intros Hv HM. unfold rayleigh_abs. rewrite inner_self. rewrite vnorm_R in Hv.
  assert (E1 : vn2 n v = 1) by (rewrite <- (sqrt_sqrt (vn2 n v)) by apply vn2_nonneg; rewrite Hv; ring).
  rewrite E1. replace (fqabs (@fqreal ROps 1)) with 1 by (rewrite fqabs_R; unfold NR; ro; replace (1 * 1 + 0 * 0 + 0 * 0 + 0 * 0) with 1 by ring; symmetry; apply sqrt_1).
  ro. unfold Rdiv. rewrite Rinv_1, Rmult_1_r.
  eapply Rle_trans; [apply inner_cs|]. rewrite E1, sqrt_1, Rmult_1_l. rewrite <- vnorm_R. apply HM. rewrite vnorm_R, E1. apply sqrt_1.
Qed.

Add Ring RRr3 : (cr_th RR).
Ltac qR := apply qeq; qcomp; rr; first [ring | nra].
Section Conv.
Variables (n : nat) (A V : qmat RR) (lam : nat -> R).
Hypothesis HV : unitary n V.
Hypothesis HA : meq n n A (qmm n (qmm n V (qdiag (fun i => @qreal RR (lam i)))) (qherm V)).
Notation Lam := (qdiag (fun i => @qreal RR (lam i))).
Definition coords (x : qmat RR) : qmat RR := qmm n (qherm V) x.
(* coordinates of A x in the eigenbasis: lambda_i times the coordinates of x *)
Lemma coords_step (x : qmat RR) : meq n 1 (coords (qmm n A x)) (qmm n Lam (coords x)).
Proof.
  unfold coords. destruct HV as [V1 V2]. rewrite HA.
  rewrite <- (qmm_assoc RR n n n 1 (qherm V) (qmm n (qmm n V Lam) (qherm V)) x).
  rewrite <- (qmm_assoc RR n n n n (qherm V) (qmm n V Lam) (qherm V)).
  rewrite <- (qmm_assoc RR n n n n (qherm V) V Lam), V1, (qmm_id_l RR n n Lam).
  rewrite (qmm_assoc RR n n n 1 Lam (qherm V) x). reflexivity.
Qed.
(* the normalised iteration: x_{k+1} = (A x_k) s_k with real s_k (= 1 / ||A x_k||) *)
Variable s : nat -> R.
Fixpoint pseq (x0 : qmat RR) (k : nat) : qmat RR :=
  match k with O => x0 | S k' => qmscaler RR (qmm n A (pseq x0 k')) (@qreal RR (s k')) end.
Fixpoint prodS (k : nat) : R := match k with O => 1 | S k' => prodS k' * s k' end.
Lemma coords_scaler (x : qmat RR) c : meq n 1 (coords (qmscaler RR x c)) (qmscaler RR (coords x) c).
Proof. unfold coords. apply (qmm_scaler_r RR). Qed.
Theorem coords_power (x0 : qmat RR) k i : (i < n)%nat ->
  coords (pseq x0 k) i O = qmul (@qreal RR (prodS k * lam i ^ k)) (coords x0 i O).
Proof.
  intros Hi. induction k as [|k IH]; cbn [pseq prodS pow].
  - qR.
  - rewrite (coords_scaler _ _ i O Hi ltac:(lia)). unfold qmscaler. rewrite (coords_step _ i O Hi ltac:(lia)).
    rewrite (qmm_diag_l RR n 1 (fun i => @qreal RR (lam i)) (coords (pseq x0 k)) i O Hi ltac:(lia)), IH.
    qR.
Qed.
(* decay of the non-dominant coordinates relative to the dominant one: |lambda_i| <= rho |lambda_1| *)
Theorem nondominant_decay (x0 : qmat RR) k i d rho : (i < n)%nat -> (d < n)%nat -> 0 <= rho -> Rabs (lam i) <= rho * Rabs (lam d) ->
  N (coords (pseq x0 k) i O) * N (coords x0 d O) <= rho ^ (2 * k) * (N (coords (pseq x0 k) d O) * N (coords x0 i O)).
Proof.
  intros Hi Hd Hr Hl. rewrite (coords_power x0 k i Hi), (coords_power x0 k d Hd), !N_mul.
  replace (N (@qreal RR (prodS k * lam i ^ k))) with ((prodS k) ^ 2 * (lam i ^ k) ^ 2) by (unfold N, qnorm2; cbn [qreal qw qx qy qz]; rr; ring).
  replace (N (@qreal RR (prodS k * lam d ^ k))) with ((prodS k) ^ 2 * (lam d ^ k) ^ 2) by (unfold N, qnorm2; cbn [qreal qw qx qy qz]; rr; ring).
  assert (Hpow : (lam i ^ k) ^ 2 <= rho ^ (2 * k) * (lam d ^ k) ^ 2).
  { rewrite <- !pow_mult, (Nat.mul_comm k 2). rewrite !pow_mult. rewrite <- Rpow_mult_distr.
    apply pow_incr. split; [apply pow2_ge_0|]. rewrite <- (pow2_abs (lam i)), <- (pow2_abs (lam d)), <- Rpow_mult_distr.
    apply pow_incr. split; [apply Rabs_pos|exact Hl]. }
  pose proof (N_nonneg (coords x0 i O)). pose proof (N_nonneg (coords x0 d O)). pose proof (pow2_ge_0 (prodS k)).
  assert (H3 : 0 <= (prodS k) ^ 2 * N (coords x0 i O) * N (coords x0 d O)) by (apply Rmult_le_pos; [apply Rmult_le_pos|]; assumption).
  nra.
Qed.
(* with positive scalings the sign of the dominant coordinate follows sign(lambda_d)^k: it alternates for a negative dominant eigenvalue *)
Theorem dominant_sign (x0 : qmat RR) k d : (d < n)%nat -> (forall j, 0 < s j) ->
  exists c : R, 0 < c /\ coords (pseq x0 k) d O = qmul (@qreal RR (c * lam d ^ k)) (coords x0 d O).
Proof.
  intros Hd Hs. exists (prodS k). split; [|apply coords_power; exact Hd].
  induction k as [|k IH]; cbn [prodS]; [lra|]. apply Rmult_lt_0_compat; [exact IH|apply Hs].
Qed.
End Conv.

(* the Rayleigh quotient in the eigenbasis and its convergence rate *)
Section Ray.
Variables (n : nat) (A V : qmat RR) (lam : nat -> R).
Hypothesis HV : unitary n V.
Hypothesis HA : meq n n A (qmm n (qmm n V (qdiag (fun i => @qreal RR (lam i)))) (qherm V)).
Notation Lam := (qdiag (fun i => @qreal RR (lam i))).
Notation crd := (coords n V).
Definition wt (x : qmat RR) (i : nat) : R := N (crd x i O).
(* x^H A x = sum lambda_i |c_i|^2  and  x^H x = sum |c_i|^2  in the eigenbasis *)
Lemma quad_form (x : qmat RR) : qmm n (qherm x) (qmm n A x) O O = @qreal RR (@sumR RR n (fun i => lam i * wt x i)).
Proof.
  destruct HV as [V1 V2].
  assert (E : meq 1 1 (qmm n (qherm x) (qmm n A x)) (qmm n (qherm (crd x)) (qmm n Lam (crd x)))).
  { unfold coords. rewrite (qherm_mm_meq RR n n 1 (qherm V) x), (qherm_herm RR n n V).
    rewrite (qmm_assoc RR 1 n n 1 (qherm x) V (qmm n Lam (qmm n (qherm V) x))).
    rewrite <- (qmm_assoc RR n n n 1 V Lam (qmm n (qherm V) x)).
    rewrite <- (qmm_assoc RR n n n 1 (qmm n V Lam) (qherm V) x), <- HA. reflexivity. }
  rewrite (E O O ltac:(lia) ltac:(lia)). unfold qmm at 1. unfold qherm at 1.
  rewrite (sumQ_ext RR n _ (fun i => @qreal RR (lam i * wt x i))).
  - rewrite sumQ_real, <- sumR_rsum. reflexivity.
  - intros i Hi. rewrite (qmm_diag_l RR n 1 (fun i => @qreal RR (lam i)) (crd x) i O Hi ltac:(lia)). unfold wt, N, qnorm2.
    apply qeq; qcomp; rr; ring.
Qed.
Lemma norm_form (x : qmat RR) : qmm n (qherm x) x O O = @qreal RR (@sumR RR n (fun i => wt x i)).
Proof.
  destruct HV as [V1 V2].
  assert (E : meq 1 1 (qmm n (qherm x) x) (qmm n (qherm (crd x)) (crd x))).
  { unfold coords. rewrite (qherm_mm_meq RR n n 1 (qherm V) x), (qherm_herm RR n n V).
    rewrite (qmm_assoc RR 1 n n 1 (qherm x) V (qmm n (qherm V) x)).
    rewrite <- (qmm_assoc RR n n n 1 V (qherm V) x), V2, (qmm_id_l RR n 1 x). reflexivity. }
  rewrite (E O O ltac:(lia) ltac:(lia)). unfold qmm, qherm.
  rewrite (sumQ_ext RR n _ (fun i => @qreal RR (wt x i))); [rewrite sumQ_real, <- sumR_rsum; reflexivity|].
  intros i _. unfold wt, N, qnorm2. apply qeq; qcomp; rr; ring.
Qed.
(* distance of the Rayleigh numerator from lambda_d times the denominator, bounded by the non-dominant weight *)
Definition tailw (x : qmat RR) (d : nat) : R := @sumR RR n (fun i => if Nat.eqb i d then 0 else wt x i).
Lemma wt_nonneg x i : 0 <= wt x i. Proof. apply N_nonneg. Qed.
Lemma gap_bound (w : nat -> R) d m : (forall i, 0 <= w i) -> (forall i, (i < m)%nat -> Rabs (lam i) <= Rabs (lam d)) ->
  Rabs (@sumR RR m (fun i => lam i * w i) - lam d * @sumR RR m w) <= 2 * Rabs (lam d) * @sumR RR m (fun i => if Nat.eqb i d then 0 else w i).
Proof.
  intros Hw Hl. induction m as [|m IH]; cbn [sumR]; rr.
  - rewrite Rminus_0_l, Rmult_0_r, Ropp_0, Rabs_R0, Rmult_0_r. lra.
  - specialize (IH ltac:(intros; apply Hl; lia)).
    replace (@sumR RR m (fun i => lam i * w i) + lam m * w m - lam d * (@sumR RR m w + w m)) with
            ((@sumR RR m (fun i => lam i * w i) - lam d * @sumR RR m w) + (lam m - lam d) * w m) by ring.
    eapply Rle_trans; [apply Rabs_triang|]. rewrite Rabs_mult, (Rabs_right (w m)) by (apply Rle_ge, Hw).
    destruct (Nat.eqb_spec m d) as [->|Hne].
    + replace (lam d - lam d) with 0 by ring. rewrite Rabs_R0. rr in IH. lra.
    + pose proof (Hl m ltac:(lia)) as H1. pose proof (Rabs_triang (lam m) (- lam d)) as H2. rewrite Rabs_Ropp in H2.
      assert (H3 : Rabs (lam m - lam d) <= 2 * Rabs (lam d)) by (unfold Rminus; lra).
      pose proof (Hw m). rr in IH. nra.
Qed.
(* after k normalised steps: |x_k^H A x_k - lambda_d x_k^H x_k| * |c_d(0)|^2 <= 2 |lambda_d| rho^(2k) * (non-dominant start weight) * x_k^H x_k *)
Variable s : nat -> R.
Theorem rayleigh_converges (x0 : qmat RR) k d rho : (d < n)%nat -> 0 <= rho ->
  (forall i, (i < n)%nat -> i <> d -> Rabs (lam i) <= rho * Rabs (lam d)) -> rho <= 1 ->
  let xk := pseq n A s x0 k in
  Rabs (@sumR RR n (fun i => lam i * wt xk i) - lam d * @sumR RR n (wt xk)) * wt x0 d
    <= 2 * Rabs (lam d) * rho ^ (2 * k) * tailw x0 d * @sumR RR n (wt xk).
Proof.
  intros Hd Hr Hl Hr1 xk.
  assert (Hdom : forall i, (i < n)%nat -> Rabs (lam i) <= Rabs (lam d)).
  { intros i Hi. destruct (Nat.eq_dec i d) as [->|Hne]; [lra|]. pose proof (Hl i Hi Hne). pose proof (Rabs_pos (lam d)). nra. }
  pose proof (gap_bound (wt xk) d n (wt_nonneg xk) Hdom) as G.
  (* tail(k) * w_d(0) <= rho^(2k) * w_d(k) * tail(0) *)
  assert (T : tailw xk d * wt x0 d <= rho ^ (2 * k) * (wt xk d * tailw x0 d)).
  { unfold tailw. change Rmult with (@cmul RR). rewrite <- (sumR_mul_r RR), <- (sumR_mul_l RR), <- (sumR_mul_l RR). rr.
    apply sumRR_le. intros i Hi. destruct (Nat.eqb_spec i d) as [->|Hne].
    - rewrite Rmult_0_l, Rmult_0_r, Rmult_0_r. lra.
    - pose proof (nondominant_decay n A V lam HV HA s x0 k i d rho Hi Hd Hr (Hl i Hi Hne)) as D. unfold wt. fold xk in D. lra. }
  assert (Wd : wt xk d <= @sumR RR n (wt xk)) by (apply (sumRR_ge_term n (wt xk) d (wt_nonneg xk) Hd)).
  pose proof (wt_nonneg x0 d) as P0. pose proof (Rabs_pos (lam d)) as P1. pose proof (pow_le rho (2 * k) Hr) as P2.
  assert (P3 : 0 <= tailw x0 d) by (unfold tailw; apply sumRR_nonneg; intros i; destruct (Nat.eqb i d); [lra|apply wt_nonneg]).
  assert (P4 : 0 <= tailw xk d) by (unfold tailw; apply sumRR_nonneg; intros i; destruct (Nat.eqb i d); [lra|apply wt_nonneg]).
  fold (tailw xk d) in G.
  eapply Rle_trans; [apply Rmult_le_compat_r; [exact P0|exact G]|].
  replace (2 * Rabs (lam d) * tailw xk d * wt x0 d) with (2 * Rabs (lam d) * (tailw xk d * wt x0 d)) by ring.
  eapply Rle_trans; [apply Rmult_le_compat_l; [lra|exact T]|].
  assert (Q : rho ^ (2 * k) * (wt xk d * tailw x0 d) <= rho ^ (2 * k) * (@sumR RR n (wt xk) * tailw x0 d)) by (apply Rmult_le_compat_l; [exact P2|apply Rmult_le_compat_r; assumption]).
  nra.
Qed.
End Ray.
