(* C12: the projection step of the randomized Q-SVDs.  For Q with orthonormal columns and B = Q^H A:
   ||A||_F^2 = ||B||_F^2 + ||A - Q B||_F^2, so the error of A ~ Q B never exceeds ||A||_F. *)
From Coq Require Import Arith Lia Bool Setoid Morphisms Ring.
From QV Require Import CRing Sums Quat Mat QMat.

Section Proj.
Variable C : CRing.
Add Ring Cr7 : (cr_th C).
Notation qmat := (qmat C).
Lemma retr_sub n (A B : qmat) : retr n (qmsub A B) = (retr n A - retr n B)%cr.
Proof. unfold retr, qmsub. rewrite <- (sumR_sub C). apply (sumR_ext C). intros j _. unfold qre. cbn [qsub qw]. ring. Qed.
Lemma retr_add n (A B : qmat) : retr n (qmadd A B) = (retr n A + retr n B)%cr.
Proof. unfold retr, qmadd. rewrite <- (sumR_add C). apply (sumR_ext C). intros j _. unfold qre. cbn [qadd qw]. ring. Qed.
Theorem projection_pythagoras m k n (A Qm : qmat) : meq k k (qmm m (qherm Qm) Qm) qmid ->
  let B := qmm m (qherm Qm) A in
  frob2 m n A = (frob2 k n B + frob2 m n (qmsub A (qmm k Qm B)))%cr.
Proof.
  intros HQ B.
  assert (E : meq n n (qmm m (qherm (qmsub A (qmm k Qm B))) (qmsub A (qmm k Qm B)))
                     (qmsub (qmm m (qherm A) A) (qmm k (qherm B) B))).
  { rewrite (qherm_sub C m n A (qmm k Qm B)), (qherm_mm_meq C m k n Qm B).
    rewrite (qmm_sub_l C n m n (qherm A) (qmm k (qherm B) (qherm Qm)) (qmsub A (qmm k Qm B))).
    rewrite (qmm_sub_r C n m n (qherm A) A (qmm k Qm B)).
    rewrite (qmm_sub_r C n m n (qmm k (qherm B) (qherm Qm)) A (qmm k Qm B)).
    (* A^H Q B = B^H B ;  B^H Q^H A = B^H B ;  B^H Q^H Q B = B^H B *)
    assert (E1 : meq n n (qmm m (qherm A) (qmm k Qm B)) (qmm k (qherm B) B)).
    { rewrite <- (qmm_assoc C n m k n (qherm A) Qm B). unfold B at 2.
      rewrite (qherm_mm_meq C k m n (qherm Qm) A), (qherm_herm C m k Qm). reflexivity. }
    assert (E2 : meq n n (qmm m (qmm k (qherm B) (qherm Qm)) A) (qmm k (qherm B) B)).
    { rewrite (qmm_assoc C n k m n (qherm B) (qherm Qm) A). reflexivity. }
    assert (E3 : meq n n (qmm m (qmm k (qherm B) (qherm Qm)) (qmm k Qm B)) (qmm k (qherm B) B)).
    { rewrite (qmm_assoc C n k m n (qherm B) (qherm Qm) (qmm k Qm B)).
      rewrite <- (qmm_assoc C k m k n (qherm Qm) Qm B), HQ, (qmm_id_l C k n B). reflexivity. }
    rewrite E1, E2, E3. intros i j _ _. unfold qmsub. qr. }
  rewrite !(frob2_gram C). rewrite (retr_meq C n _ _ E), retr_sub. ring.
Qed.
End Proj.
