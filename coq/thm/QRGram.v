(* C06: what a QR factorisation preserves.  If A = Q R with Q^H Q = I (Q is m x k, R is k x n) then A^H A = R^H R -- R is a Cholesky-type
   factor of the Gram matrix of A -- hence ||A||_F = ||R||_F and every column of R has the norm of the corresponding column of A.
   Any commutative component ring. *)
From Coq Require Import Arith Lia Bool Setoid Morphisms Ring.
From QV Require Import CRing Sums Quat Mat QMat.

Section G.
Variable C : CRing.
Add Ring Cr_qrg : (cr_th C).
Notation qmat := (qmat C).

Theorem qr_gram m k n (A Qm Rm : qmat) :
  meq k k (qmm m (qherm Qm) Qm) qmid -> meq m n A (qmm k Qm Rm) ->
  meq n n (qmm m (qherm A) A) (qmm k (qherm Rm) Rm).
Proof.
  intros HQ HA.
  assert (HAh : meq n m (qherm A) (qmm k (qherm Rm) (qherm Qm))).
  { intros i j Hi Hj. unfold qherm at 1. rewrite (HA j i Hj Hi). exact (qherm_mm_meq C m k n Qm Rm i j Hi Hj). }
  rewrite HAh, HA.
  rewrite (qmm_assoc C n k m n (qherm Rm) (qherm Qm) (qmm k Qm Rm)).
  rewrite <- (qmm_assoc C k m k n (qherm Qm) Qm Rm).
  rewrite HQ, (qmm_id_l C k n Rm). reflexivity.
Qed.

Theorem qr_frobenius m k n (A Qm Rm : qmat) :
  meq k k (qmm m (qherm Qm) Qm) qmid -> meq m n A (qmm k Qm Rm) -> frob2 m n A = frob2 k n Rm.
Proof. intros HQ HA. rewrite (frob2_meq C m n _ _ HA). apply (frob2_unitary_left C m k n Qm Rm HQ). Qed.

(* column norms: the j-th diagonal entry of the Gram matrix is the squared norm of column j *)
Lemma gram_diag m (A : qmat) j : qre (qmm m (qherm A) A j j) = sumR m (fun i => qnorm2 (A i j)).
Proof.
  unfold qmm, qherm. rewrite (sumQ_re C). apply (sumR_ext C). intros i _.
  unfold qre, qnorm2. destruct (A i j) as [a b c d]. cbn [qmul qconj qw qx qy qz]. ring.
Qed.
Theorem qr_column_norms m k n (A Qm Rm : qmat) :
  meq k k (qmm m (qherm Qm) Qm) qmid -> meq m n A (qmm k Qm Rm) ->
  forall j, j < n -> sumR m (fun i => qnorm2 (A i j)) = sumR k (fun i => qnorm2 (Rm i j)).
Proof.
  intros HQ HA j Hj. rewrite <- !gram_diag. f_equal. exact (qr_gram m k n A Qm Rm HQ HA j j Hj Hj).
Qed.
End G.
