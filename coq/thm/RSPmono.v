(* C13: a sketch-and-project step never increases the Frobenius distance to ANY solution of the sketched equation -- in particular to the
   pseudoinverse (every left inverse Xs of A satisfies Xs (A Omega') = Omega').  With Y the sketched matrix, Z the micro-solver's answer with Z Y = I
   and Y Z Hermitian (Z = Y^+: both the QR answer R^-1 Q^H and the normal-equations answer (Y^H Y)^-1 Y^H), and X' = X + (Omega - X Y) Z:
       X' - Xs = (X - Xs) (I - Y Z)    and    ||X' - Xs||_F^2 = ||X - Xs||_F^2 - ||(X - Xs) Y Z||_F^2,
   for every sketch, every size, over any commutative component ring.  The monotone decrease for every random draw is thus deterministic. *)
From Coq Require Import Arith Lia Bool Setoid Morphisms Ring List.
From QV Require Import CRing Sums Quat Mat QMat.
From QVM Require Import CGNE.
From QVT Require Import CGNEthm Reflector CGNEmono.

Section RSP.
Variable C : CRing.
Add Ring Cr18 : (cr_th C).
Notation qmat := (qmat C).
Variables (m n r : nat) (X Xs Y Omega Z : qmat).
Hypothesis target : meq n r (qmm m Xs Y) Omega.                  (* X* solves the sketched equation *)
Hypothesis ZY : meq r r (qmm m Z Y) qmid.
Hypothesis PH : meq m m (qherm (qmm r Y Z)) (qmm r Y Z).          (* Y Z is Hermitian *)
Let E := qmsub X Xs.
Let P := qmm r Y Z.

Lemma P_idempotent : meq m m (qmm m P P) P.
Proof.
  unfold P. rewrite (qmm_assoc C m r m m Y Z (qmm r Y Z)). rewrite <- (qmm_assoc C r m r m Z Y Z), ZY, (qmm_id_l C r m Z). reflexivity.
Qed.
Theorem rsp_step_error : meq n m (qmsub (rsp_step C m n r X Y Omega Z) Xs) (qmsub E (qmm m E P)).
Proof.
  unfold rsp_step, E, P.
  rewrite <- (qmm_assoc C n m r m (qmsub X Xs) Y Z).
  rewrite (qmm_sub_l C n m r X Xs Y), target.
  rewrite (qmm_sub_l C n r m Omega (qmm m X Y) Z).
  rewrite (qmm_sub_l C n r m (qmm m X Y) Omega Z).
  intros i j _ _. unfold qmadd, qmsub. qr.
Qed.
Lemma cross_term_vanishes : rip n m (qmsub E (qmm m E P)) (qmm m E P) = c0.
Proof.
  rewrite (rip_trace C).
  assert (E1 : meq m m (qmm n (qherm (qmsub E (qmm m E P))) (qmm m E P))
                       (qmsub (qmm m (qmm n (qherm E) E) P) (qmm m P (qmm m (qmm n (qherm E) E) P)))).
  { assert (PH' : meq m m (qherm P) P) by exact PH.
    rewrite (qherm_sub C n m E (qmm m E P)), (qherm_mm_meq C n m m E P), PH'.
    rewrite (qmm_sub_l C m n m (qherm E) (qmm m P (qherm E)) (qmm m E P)).
    rewrite <- (qmm_assoc C m n m m (qherm E) E P).
    rewrite (qmm_assoc C m m n m P (qherm E) (qmm m E P)).
    rewrite <- (qmm_assoc C m n m m (qherm E) E P). reflexivity. }
  rewrite (retr_meq C m _ _ E1).
  set (M := qmm m (qmm n (qherm E) E) P).
  assert (E2 : retr m (qmsub M (qmm m P M)) = (retr m M - retr m (qmm m P M))%cr).
  { unfold retr, qmsub. rewrite <- (sumR_sub C). apply (sumR_ext C). intros j _. unfold qre. cbn [qsub qw]. ring. }
  rewrite E2, (retr_cyclic C m m P M).
  assert (E3 : meq m m (qmm m M P) M).
  { unfold M. rewrite (qmm_assoc C m m m m (qmm n (qherm E) E) P P), P_idempotent. reflexivity. }
  rewrite (retr_meq C m _ _ E3). ring.
Qed.
Theorem rsp_step_error_norm :
  frob2 n m (qmsub (rsp_step C m n r X Y Omega Z) Xs) = (frob2 n m E - frob2 n m (qmm m E P))%cr.
Proof.
  rewrite (frob2_meq C n m _ _ rsp_step_error).
  assert (S1 : meq n m (qmsub E (qmm m E P)) (qmsub E (qscalem C c1 (qmm m E P)))).
  { intros i j _ _. unfold qmsub, qscalem. apply qeq; cbn [qsub qscale qw qx qy qz]; ring. }
  rewrite (frob2_meq C n m _ _ S1), (frob2_sub_scaled C n m E (qmm m E P) c1).
  (* <E, E P> = <E - E P, E P> + ||E P||^2 = ||E P||^2 *)
  pose proof cross_term_vanishes as X0. rewrite (rip_meq C n m _ _ _ _ S1 (fun _ _ _ _ => eq_refl)) in X0.
  rewrite (rip_sub_scaled_l C n m E (qmm m E P) (qmm m E P) c1), (rip_self C) in X0.
  assert (R1 : rip n m E (qmm m E P) = frob2 n m (qmm m E P)).
  { transitivity (c1 * rip n m E (qmm m E P) + - c1 * frob2 n m (qmm m E P) + c0 * frob2 n m (qmm m E P) + frob2 n m (qmm m E P))%cr; [ring|]. rewrite X0. ring. }
  rewrite R1. ring.
Qed.
End RSP.
