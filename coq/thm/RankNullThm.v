(* C11: counting logic of rank / null space / determinant, and annihilation of the null-space basis
   given the Q-SVD contract. *)
From Coq Require Import QArith Qcanon List Bool Arith Lia Setoid Morphisms Ring.
From QV Require Import CRing Sums Quat Mat QMat.
From QVM Require Import RankNull.
Import ListNotations.
Close Scope Q_scope. Close Scope Qc_scope.

Lemma count_le tol s : count_above tol s <= length s.
Proof. unfold count_above. induction s as [|x t IH]; cbn [filter length]; [lia|]. destruct (gtQc x tol); cbn [length]; lia. Qed.
(* the real representation has every singular value four times: its count is four times the quaternion count *)
Fixpoint rep4 (s : list Qc) : list Qc := match s with [] => [] | x :: t => x :: x :: x :: x :: rep4 t end.
Theorem rank_quarter_real tol s : count_above tol (rep4 s) = 4 * count_above tol s.
Proof. unfold count_above. induction s as [|x t IH]; [reflexivity|]. cbn [rep4 filter].
  destruct (gtQc x tol); cbn [length]; rewrite IH; lia. Qed.
(* shapes of the null-space bases *)
Theorem null_shape dim rank : rank <= dim -> length (null_cols dim rank) = dim - rank.
Proof. intros. unfold null_cols. apply seq_length. Qed.
(* product of singular values is zero iff one of them is zero *)
Theorem det_zero_iff_singular (s : list Qc) : prodQc s = 0%Qc <-> In 0%Qc s.
Proof. induction s as [|x t IH]; cbn [prodQc fold_right In].
  - split; [intros H; discriminate H|tauto].
  - fold (prodQc t). split.
    + intros H. destruct (Qcmult_integral _ _ H) as [E|E]; [left; now symmetry|right; now apply IH].
    + intros [E|E]; [subst x; apply Qcmult_0_l|]. apply IH in E. rewrite E. apply Qcmult_0_r. Qed.
Theorem det_multiplicative_on_values (s t : list Qc) : prodQc (s ++ t) = (prodQc s * prodQc t)%Qc.
Proof. induction s as [|x s IH]; cbn [prodQc fold_right app]; [symmetry; apply Qcmult_1_l|].
  fold (prodQc (s ++ t)) (prodQc s). rewrite IH. apply Qcmult_assoc. Qed.

Section Ann.
Variable C : CRing.
Add Ring Cr : (cr_th C).
Notation qmat := (qmat C).
Variables (m n : nat) (A U V : qmat) (s : nat -> quat C).
Hypothesis HV : meq n n (qmm n (qherm V) V) qmid.
Hypothesis HA : meq m n A (qmm n (qmm n U (qdiag s)) (qherm V)).
(* A V = U diag(s): column j of A V is column j of U scaled by s_j, so null-space columns (s_j ~ 0) are annihilated *)
Theorem AV_is_US : meq m n (qmm n A V) (qmm n U (qdiag s)).
Proof. rewrite HA, (qmm_assoc C m n n n (qmm n U (qdiag s)) (qherm V) V), HV. apply (qmm_id_r C m n). Qed.
Theorem null_column_image j i : i < m -> j < n -> qmm n A V i j = qmul (U i j) (s j).
Proof. intros Hi Hj. rewrite (AV_is_US i j Hi Hj). apply (qmm_diag_r C m n s U i j Hi Hj). Qed.
End Ann.
