(* C11: multiplying by a matrix cannot increase the number of non-zero singular values, so multiplication by an INVERTIBLE matrix (not only a
   unitary one) keeps it: the exact rank is invariant.  Through the min-max theorem: if only the first r values of A are non-zero, P A factors
   through r rows, so the (r+1)-th value of any factorisation of P A is at most the operator norm of the zero matrix. *)
From Coq Require Import Reals Lra Psatz Arith Lia.
From QV Require Import CRing CRingR Sums Quat Mat QMat.
From QVT Require Import CauchySchwarz Norms Proj EckartYoung SpectralNorm Kernel Compress MinMax.
Local Open Scope R_scope.
Add Ring RRp : (cr_th RR).

Lemma op_bound_zero m n (Z : qmat RR) : meq m n Z (fun _ _ => qzero) -> op_bound m n Z 0.
Proof.
  intros HZ. split; [lra|]. intros p X.
  assert (E : meq m p (qmm n Z X) (fun _ _ => qzero)).
  { rewrite HZ. intros i j _ _. unfold qmm. rewrite (sumQ_ext RR n _ (fun _ => qzero)); [apply (sumQ_zero RR)|intros; qr]. }
  rewrite (normF_meq m p _ _ E). unfold normF.
  assert (F : frob2 m p (fun _ _ => @qzero RR) = 0).
  { unfold frob2. rewrite (sumR_ext RR m _ (fun _ => 0)); [apply (sumR_zero RR)|]. intros i _.
    rewrite (sumR_ext RR p _ (fun _ => 0)); [apply (sumR_zero RR)|]. intros j _. unfold qnorm2, qzero. cbn. ring. }
  rewrite F, sqrt_0. lra.
Qed.

Theorem left_factor_cannot_increase_rank p m n ra rb r (P Ua Va Ub Vb : qmat RR) (sa sb : nat -> R) :
  (r <= ra)%nat -> (r < rb)%nat ->
  meq rb rb (qmm p (qherm Ub) Ub) qmid -> meq rb rb (qmm n (qherm Vb) Vb) qmid ->
  (forall k, (k < rb)%nat -> 0 <= sb k) -> (forall a b, (a <= b)%nat -> (b < rb)%nat -> sb b <= sb a) ->
  (forall k, (r <= k)%nat -> (k < ra)%nat -> sa k = 0) ->
  meq p n (qmm m P (@usv RR ra Ua sa Va)) (@usv RR rb Ub sb Vb) ->
  sb r = 0.
Proof.
  intros Hr Hrb HUb HVb Hb0 Hbm Hz E.
  (* A = its leading r terms *)
  assert (EA : meq m n (@usv RR ra Ua sa Va) (@usv RR r Ua sa Va)).
  { intros i j Hi Hj. pose proof (truncation_error_is_tail RR m n ra r Ua Va sa Hr i j Hi Hj) as T.
    assert (Z : @usv RR ra Ua (@tailv RR r sa) Va i j = qzero).
    { rewrite (usv_entry RR). rewrite (sumQ_ext RR ra _ (fun _ => qzero)); [apply (sumQ_zero RR)|].
      intros k Hk. unfold tailv. destruct (Nat.ltb_spec k r); [|rewrite (Hz k) by lia]; apply qeq; cbn [qmul qreal qconj qzero qw qx qy qz]; first [ring | rr; ring | rr; nra]. }
    rewrite Z in T. unfold qmsub in T.
    apply qeq; assert (Ew := f_equal qw T); assert (Ex := f_equal qx T); assert (Ey := f_equal qy T); assert (Ez := f_equal qz T);
      cbn [qsub qzero qw qx qy qz] in Ew, Ex, Ey, Ez; cbn [car c0 csub RR] in Ew, Ex, Ey, Ez; lra. }
  set (G := qmm m P (qmm r Ua (@rdiag RR sa))).
  assert (EX : meq p n (qmsub (@usv RR rb Ub sb Vb) (qmm r G (qherm Va))) (fun _ _ => qzero)).
  { rewrite <- E, EA. unfold usv at 1, G.
    rewrite (qmm_assoc RR p m r n P (qmm r Ua (@rdiag RR sa)) (qherm Va)).
    intros i j _ _. unfold qmsub. qr. }
  pose proof (low_rank_competitor_bound p n rb r Ub Vb G (qherm Va) sb 0 Hrb HUb HVb Hb0 Hbm (op_bound_zero p n _ EX)) as L.
  specialize (Hb0 r Hrb). lra.
Qed.

(* invertible left factor: the zero pattern of the (sorted) singular values -- the exact rank -- is the same for A and P A *)
Theorem invertible_factor_keeps_rank m n q r (P Pinv Ua Va Ub Vb : qmat RR) (sa sb : nat -> R) :
  (r < q)%nat -> meq m m (qmm m Pinv P) qmid ->
  meq q q (qmm m (qherm Ua) Ua) qmid -> meq q q (qmm n (qherm Va) Va) qmid ->
  meq q q (qmm m (qherm Ub) Ub) qmid -> meq q q (qmm n (qherm Vb) Vb) qmid ->
  (forall k, (k < q)%nat -> 0 <= sa k) -> (forall a b, (a <= b)%nat -> (b < q)%nat -> sa b <= sa a) ->
  (forall k, (k < q)%nat -> 0 <= sb k) -> (forall a b, (a <= b)%nat -> (b < q)%nat -> sb b <= sb a) ->
  meq m n (qmm m P (@usv RR q Ua sa Va)) (@usv RR q Ub sb Vb) ->
  (sa r = 0 <-> sb r = 0).
Proof.
  intros Hr HP HUa HVa HUb HVb Ha0 Ham Hb0 Hbm E.
  assert (tailzero : forall (s : nat -> R), (forall k, (k < q)%nat -> 0 <= s k) -> (forall a b, (a <= b)%nat -> (b < q)%nat -> s b <= s a) ->
                     s r = 0 -> forall k, (r <= k)%nat -> (k < q)%nat -> s k = 0).
  { intros s H0 Hm Hs k Hk1 Hk2. pose proof (H0 k Hk2). pose proof (Hm r k Hk1 Hk2). lra. }
  split; intros Hs.
  - exact (left_factor_cannot_increase_rank m m n q q r P Ua Va Ub Vb sa sb ltac:(lia) Hr HUb HVb Hb0 Hbm (tailzero sa Ha0 Ham Hs) E).
  - assert (E' : meq m n (qmm m Pinv (@usv RR q Ub sb Vb)) (@usv RR q Ua sa Va)).
    { rewrite <- E. rewrite <- (qmm_assoc RR m m m n Pinv P (@usv RR q Ua sa Va)), HP. apply (qmm_id_l RR m n). }
    exact (left_factor_cannot_increase_rank m m n q q r Pinv Ub Vb Ua Va sb sa ltac:(lia) Hr HUa HVa Ha0 Ham (tailzero sb Hb0 Hbm Hs) E').
Qed.
