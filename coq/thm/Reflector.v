(* C08 / C09 / C10: quaternion Householder reflectors and unitary similarity steps, as matrix chains
   over any commutative component ring (square roots enter only through the hypotheses
   u^H u = 2, |zeta| = 1, which thm/HouseholderR.v discharges for the coded formulas over R). *)
From Coq Require Import Arith Lia Bool Setoid Morphisms Ring.
From QV Require Import CRing Sums Quat Mat QMat.

Section R.
Variable C : CRing.
Add Ring Cr : (cr_th C).
Notation quat := (quat C).
Notation qmat := (qmat C).

(* scaling on the right by a quaternion *)
Definition qmscaler (A : qmat) (c : quat) : qmat := fun i j => qmul (A i j) c.
Global Instance qmscaler_proper m n : Proper (meq m n ==> eq ==> meq m n) qmscaler.
Proof. intros A A' HA c c' <- i j Hi Hj. unfold qmscaler. now rewrite HA. Qed.
Lemma qherm_scaleq m n c (A : qmat) : meq n m (qherm (qmscaleq c A)) (qmscaler (qherm A) (qconj c)).
Proof. intros i j _ _. unfold qherm, qmscaleq, qmscaler. apply qconj_mul. Qed.
Lemma scaler_scaleq m k n (A B : qmat) (c d : quat) : qmul c d = qone ->
  meq m n (qmm k (qmscaler A c) (qmscaleq d B)) (qmm k A B).
Proof. intros H i j _ _. unfold qmm, qmscaler, qmscaleq. apply (sumQ_ext C). intros l _.
  transitivity (qmul (A i l) (qmul (qmul c d) (B l j))); [qr|rewrite H; qr]. Qed.
(* M = I - u u^H with u an n x 1 column and u^H u = two = 1 + 1 : M is Hermitian and M M = I *)
Variables (n : nat) (u : qmat) (two : quat).
Hypothesis two_def : two = qadd qone qone.
Hypothesis Hu : meq 1 1 (qmm n (qherm u) u) (fun _ _ => two).
Definition Pm : qmat := qmm 1 u (qherm u).
Definition Mref : qmat := qmsub qmid Pm.

Lemma Pm_herm : meq n n (qherm Pm) Pm.
Proof. unfold Pm. rewrite (qherm_mm_meq C n 1 n u (qherm u)), (qherm_herm C n 1 u). reflexivity. Qed.
Lemma Pm_sq : meq n n (qmm n Pm Pm) (qmadd Pm Pm).
Proof.
  unfold Pm.
  rewrite (qmm_assoc C n 1 n n u (qherm u) (qmm 1 u (qherm u))).
  rewrite <- (qmm_assoc C 1 n 1 n (qherm u) u (qherm u)), Hu.
  intros i j Hi Hj. unfold qmm, qmadd. cbn [sumQ]. rewrite two_def. qr.
Qed.
Lemma Mref_herm : meq n n (qherm Mref) Mref.
Proof. unfold Mref. rewrite (qherm_sub C n n qmid Pm), (qherm_id C n), Pm_herm. reflexivity. Qed.
Lemma Mref_sq : meq n n (qmm n Mref Mref) qmid.
Proof.
  unfold Mref.
  rewrite (qmm_sub_l C n n n qmid Pm (qmsub qmid Pm)), (qmm_id_l C n n (qmsub qmid Pm)).
  rewrite (qmm_sub_r C n n n Pm qmid Pm), (qmm_id_r C n n Pm), Pm_sq.
  intros i j _ _. unfold qmsub, qmadd. qr.
Qed.
(* H = conj(zeta) (I - u u^H), |zeta| = 1 : unitary on both sides *)
Variable zeta : quat.
Hypothesis Hz : qmul zeta (qconj zeta) = qone.
Hypothesis Hz' : qmul (qconj zeta) zeta = qone.
Definition Href : qmat := qmscaleq (qconj zeta) Mref.
Theorem reflector_unitary : meq n n (qmm n (qherm Href) Href) qmid.
Proof.
  unfold Href. rewrite (qherm_scaleq n n (qconj zeta) Mref), (qconj_conj C zeta), Mref_herm.
  rewrite (scaler_scaleq n n n Mref Mref zeta (qconj zeta) Hz). apply Mref_sq.
Qed.
Lemma qmm_scaleq_assoc m k p c (A B : qmat) : meq m p (qmm k (qmscaleq c A) B) (qmscaleq c (qmm k A B)).
Proof. apply qmm_scale_l. Qed.
Lemma qmm_scaler_r m k p c (A B : qmat) : meq m p (qmm k A (qmscaler B c)) (qmscaler (qmm k A B) c).
Proof. intros i j _ _. unfold qmm, qmscaler. rewrite (sumQ_mul_r C). apply (sumQ_ext C). intros. qr. Qed.
Theorem reflector_unitary_right : meq n n (qmm n Href (qherm Href)) qmid.
Proof.
  unfold Href. rewrite (qherm_scaleq n n (qconj zeta) Mref), (qconj_conj C zeta), Mref_herm.
  rewrite (qmm_scaleq_assoc n n n (qconj zeta) Mref (qmscaler Mref zeta)).
  rewrite (qmm_scaler_r n n n zeta Mref Mref), Mref_sq.
  intros i j _ _. unfold qmscaleq, qmscaler, qmid. destruct (Nat.eqb i j).
  - transitivity (qmul (qconj zeta) zeta); [qr|exact Hz'].
  - qr.
Qed.
End R.

(* a unitary similarity step keeps the invariant  T = Q^H A Q  (written  Q T Q^H = A) *)
Section Sim.
Variable C : CRing.
Notation qmat := (qmat C).
Theorem similarity_step n (Qm T G : qmat) :
  meq n n (qmm n (qherm G) G) qmid ->
  meq n n (qmm n (qmm n (qmm n Qm (qherm G)) (qmm n (qmm n G T) (qherm G))) (qherm (qmm n Qm (qherm G))))
          (qmm n (qmm n Qm T) (qherm Qm)).
Proof.
  intros HG.
  rewrite (qherm_mm_meq C n n n Qm (qherm G)), (qherm_herm C n n G).
  rewrite (qmm_assoc C n n n n Qm (qherm G)).
  rewrite <- (qmm_assoc C n n n n (qherm G) (qmm n G T) (qherm G)).
  rewrite <- (qmm_assoc C n n n n (qherm G) G T), HG, (qmm_id_l C n n T).
  rewrite (qmm_assoc C n n n n Qm (qmm n T (qherm G))).
  rewrite (qmm_assoc C n n n n T (qherm G)).
  rewrite <- (qmm_assoc C n n n n (qherm G) G (qherm Qm)), HG, (qmm_id_l C n n (qherm Qm)).
  rewrite <- (qmm_assoc C n n n n Qm T (qherm Qm)). reflexivity.
Qed.
Theorem unitary_product n (Qm G : qmat) :
  meq n n (qmm n (qherm Qm) Qm) qmid -> meq n n (qmm n G (qherm G)) qmid ->
  meq n n (qmm n (qherm (qmm n Qm (qherm G))) (qmm n Qm (qherm G))) qmid.
Proof.
  intros HQ HG.
  rewrite (qherm_mm_meq C n n n Qm (qherm G)), (qherm_herm C n n G).
  rewrite (qmm_assoc C n n n n G (qherm Qm)).
  rewrite <- (qmm_assoc C n n n n (qherm Qm) Qm (qherm G)), HQ, (qmm_id_l C n n (qherm G)). exact HG.
Qed.
(* a unitary similarity preserves Hermitian-ness *)
Theorem similarity_keeps_hermitian n (T G : qmat) :
  meq n n (qherm T) T -> meq n n (qherm (qmm n (qmm n G T) (qherm G))) (qmm n (qmm n G T) (qherm G)).
Proof.
  intros HT.
  rewrite (qherm_mm_meq C n n n (qmm n G T) (qherm G)), (qherm_herm C n n G).
  rewrite (qherm_mm_meq C n n n G T), HT.
  rewrite <- (qmm_assoc C n n n n G T (qherm G)). reflexivity.
Qed.
(* an upper-triangular Hermitian matrix is diagonal with real (self-conjugate) diagonal *)
Theorem triangular_hermitian_is_real_diagonal n (T : qmat) :
  meq n n (qherm T) T -> (forall i j, j < i -> i < n -> T i j = qzero) ->
  (forall i j, i < n -> j < n -> i <> j -> T i j = qzero) /\ (forall i, i < n -> qconj (T i i) = T i i).
Proof.
  intros HT Hlow. split.
  - intros i j Hi Hj Hij. destruct (Nat.lt_ge_cases j i) as [H|H]; [now apply Hlow|].
    assert (Hlt : i < j) by lia. rewrite <- (HT i j Hi Hj). unfold qherm. rewrite (Hlow j i Hlt Hj). apply qconj_0.
  - intros i Hi. exact (HT i i Hi Hi).
Qed.
End Sim.

(* block-diagonal embedding diag(I_k, M), the loop invariant of the two-sided reductions, and the
   zero structure they create *)
Section Embed.
Variable C : CRing.
Add Ring Cr2 : (cr_th C).
Notation quat := (quat C).
Notation qmat := (qmat C).
Definition unitary (m : nat) (G : qmat) : Prop := meq m m (qmm m (qherm G) G) qmid /\ meq m m (qmm m G (qherm G)) qmid.
Lemma unitary_id m : unitary m qmid.
Proof. split; rewrite (qherm_id C m); apply (qmm_id_l C). Qed.
Global Instance unitary_proper m : Proper (meq m m ==> iff) (unitary m).
Proof. intros A B E. unfold unitary. now rewrite E. Qed.
Lemma unitary_mm m (G P : qmat) : unitary m G -> unitary m P -> unitary m (qmm m G P).
Proof.
  intros [G1 G2] [P1 P2]. split; rewrite (qherm_mm_meq C m m m G P).
  - rewrite (qmm_assoc C m m m m (qherm P) (qherm G)), <- (qmm_assoc C m m m m (qherm G) G P), G1, (qmm_id_l C m m P). exact P1.
  - rewrite (qmm_assoc C m m m m G P), <- (qmm_assoc C m m m m P (qherm P) (qherm G)), P2, (qmm_id_l C m m (qherm G)). exact G2.
Qed.
(* block-diagonal embedding diag(I_k, M) *)
Definition qembed (k : nat) (M : qmat) : qmat := fun i j => if Nat.ltb i k || Nat.ltb j k then qmid i j else M (i - k) (j - k).
Lemma sumQ_app m n (f : nat -> quat) : sumQ (m + n) f = qadd (sumQ m f) (sumQ n (fun l => f (m + l))).
Proof. induction n as [|n IH]; [rewrite Nat.add_0_r; cbn [sumQ]; qr|]. rewrite Nat.add_succ_r. cbn [sumQ]. rewrite IH. qr. Qed.
Lemma sumQ_zero_ext n (f : nat -> quat) : (forall l, l < n -> f l = qzero) -> sumQ n f = qzero.
Proof. intros H. rewrite (sumQ_ext C n f (fun _ => qzero) H). apply sumQ_zero. Qed.
Lemma qembed_lo_l k M i j : i < k -> qembed k M i j = qmid i j.
Proof. intros H. unfold qembed. apply Nat.ltb_lt in H. now rewrite H. Qed.
Lemma qembed_lo_r k M i j : j < k -> qembed k M i j = qmid i j.
Proof. intros H. unfold qembed. apply Nat.ltb_lt in H. rewrite H. now rewrite orb_true_r. Qed.
Lemma qembed_hi k M i j : qembed k M (k + i) (k + j) = M i j.
Proof. unfold qembed. replace (k + i <? k) with false by (symmetry; apply Nat.ltb_ge; lia).
  replace (k + j <? k) with false by (symmetry; apply Nat.ltb_ge; lia). cbn [orb]. f_equal; lia. Qed.
Lemma qmid_ne i j : i <> j -> @qmid C i j = qzero.
Proof. intros H. unfold qmid. apply Nat.eqb_neq in H. now rewrite H. Qed.
(* row i < k of diag(I,A) X is row i of X *)
Lemma qembed_mm_row_lo k n A (X : qmat) i j : i < k -> i < n -> qmm n (qembed k A) X i j = X i j.
Proof. intros Hk Hn. unfold qmm.
  rewrite (sumQ_ext C n _ (fun l => qmul (if Nat.eqb i l then qone else qzero) (X l j))) by (intros l _; now rewrite qembed_lo_l).
  rewrite (sumQ_delta_l C n (fun l => X l j) (fun _ => qone) i Hn). qr. Qed.
(* column j < k of X diag(I,A) is column j of X *)
Lemma qembed_mm_col_lo k n A (X : qmat) i j : j < k -> j < n -> qmm n X (qembed k A) i j = X i j.
Proof. intros Hk Hn. unfold qmm.
  rewrite (sumQ_ext C n _ (fun l => qmul (X i l) (if Nat.eqb l j then qone else qzero))) by (intros l _; now rewrite qembed_lo_r).
  rewrite (sumQ_delta_r C n (fun l => X i l) (fun _ => qone) j Hn). qr. Qed.
(* rows >= k: only the trailing block contributes *)
Lemma qembed_mm_row_hi k m A (X : qmat) i j : qmm (k + m) (qembed k A) X (k + i) j = sumQ m (fun l => qmul (A i l) (X (k + l) j)).
Proof. unfold qmm. rewrite sumQ_app.
  rewrite (sumQ_zero_ext k) by (intros l Hl; rewrite qembed_lo_r by exact Hl; rewrite qmid_ne by lia; qr).
  rewrite (sumQ_ext C m _ (fun l => qmul (A i l) (X (k + l) j))) by (intros l _; now rewrite qembed_hi). qr. Qed.
Lemma qembed_mm_col_hi k m A (X : qmat) i j : qmm (k + m) X (qembed k A) i (k + j) = sumQ m (fun l => qmul (X i (k + l)) (A l j)).
Proof. unfold qmm. rewrite sumQ_app.
  rewrite (sumQ_zero_ext k) by (intros l Hl; rewrite qembed_lo_l by exact Hl; rewrite qmid_ne by lia; qr).
  rewrite (sumQ_ext C m _ (fun l => qmul (X i (k + l)) (A l j))) by (intros l _; now rewrite qembed_hi). qr. Qed.
Lemma qembed_herm k A i j : qherm (qembed k A) i j = qembed k (qherm A) i j.
Proof. unfold qherm, qembed. rewrite (orb_comm (j <? k)). destruct (_ || _); [|reflexivity].
  unfold qmid. rewrite (Nat.eqb_sym j i). destruct (Nat.eqb i j); qr. Qed.
Lemma qembed_id k i j : qembed k qmid i j = @qmid C i j.
Proof. unfold qembed. destruct (_ || _) eqn:E; [reflexivity|]. apply orb_false_iff in E. destruct E as [E1 E2].
  apply Nat.ltb_ge in E1, E2. unfold qmid. destruct (Nat.eqb_spec i j) as [->|Hne]; [now rewrite Nat.eqb_refl|].
  assert (H : i - k <> j - k) by lia. apply Nat.eqb_neq in H. now rewrite H. Qed.
Lemma qembed_mm k m A B : meq (k + m) (k + m) (qmm (k + m) (qembed k A) (qembed k B)) (qembed k (qmm m A B)).
Proof.
  intros i j Hi Hj. destruct (Nat.lt_ge_cases i k) as [Hik|Hik].
  - rewrite qembed_mm_row_lo by assumption. rewrite !qembed_lo_l by exact Hik. reflexivity.
  - destruct (Nat.lt_ge_cases j k) as [Hjk|Hjk].
    + rewrite qembed_mm_col_lo by assumption. now rewrite !qembed_lo_r by exact Hjk.
    + replace i with (k + (i - k)) by lia. replace j with (k + (j - k)) by lia. rewrite qembed_mm_row_hi, qembed_hi.
      unfold qmm. apply (sumQ_ext C). intros l _. now rewrite qembed_hi.
Qed.
Global Instance qembed_proper k m : Proper (meq m m ==> meq (k + m) (k + m)) (qembed k).
Proof. intros A B E i j Hi Hj. unfold qembed. destruct (_ || _) eqn:F; [reflexivity|]. apply orb_false_iff in F. destruct F as [F1 F2].
  apply Nat.ltb_ge in F1, F2. apply E; lia. Qed.
Theorem qembed_unitary k m G : unitary m G -> unitary (k + m) (qembed k G).
Proof.
  intros [G1 G2].
  assert (EH : meq (k + m) (k + m) (qherm (qembed k G)) (qembed k (qherm G))) by (intros i j _ _; apply qembed_herm).
  assert (EI : meq (k + m) (k + m) (qembed k qmid) qmid) by (intros i j _ _; apply qembed_id).
  split; rewrite EH, qembed_mm; [rewrite G1|rewrite G2]; exact EI.
Qed.
End Embed.

Section Loop.
Variable C : CRing.
Add Ring Cr3 : (cr_th C).
Notation quat := (quat C).
Notation qmat := (qmat C).
(* P unitary and P A P^H = B, kept by  P <- G P,  B <- (G B) G^H  for unitary G *)
Definition sim_inv (n : nat) (A P B : qmat) : Prop := unitary C n P /\ meq n n (qmm n (qmm n P A) (qherm P)) B.
Theorem sim_step_inv n (A P B G : qmat) : unitary C n G -> sim_inv n A P B ->
  sim_inv n A (qmm n G P) (qmm n (qmm n G B) (qherm G)).
Proof.
  intros HG [HP HB]. split; [now apply unitary_mm|].
  rewrite <- HB, (qherm_mm_meq C n n n G P).
  rewrite <- (qmm_assoc C n n n n (qmm n (qmm n G P) A) (qherm P) (qherm G)).
  rewrite (qmm_assoc C n n n n G P A).
  rewrite (qmm_assoc C n n n n G (qmm n P A) (qherm P)). reflexivity.
Qed.
Lemma sim_inv_init n (A : qmat) : sim_inv n A qmid A.
Proof. split; [apply unitary_id|]. rewrite (qherm_id C n), (qmm_id_l C n n A), (qmm_id_r C n n A). reflexivity. Qed.
(* structure: columns < k are zero below the sub-diagonal, and the sub-diagonal entries are self-conjugate *)
Definition below_zero (n k : nat) (B : qmat) : Prop := forall i j, j < k -> j + 1 < i -> i < n -> B i j = qzero.
Definition sub_real (n k : nat) (B : qmat) : Prop := forall j, j < k -> j + 1 < n -> qconj (B (j + 1) j) = B (j + 1) j.
Section Step.
Variables (k m : nat) (Hs B : qmat) (c : quat).
Let n := k + 1 + m.
Let Ek := qembed C (k + 1) Hs.
Let B' := qmm n (qmm n Ek B) (qherm Ek).
Hypothesis Hmap : forall i, i < m -> sumQ m (fun l => qmul (Hs i l) (B (k + 1 + l) k)) = if Nat.eqb i 0 then c else qzero.
Lemma step_col_lo i j : i < n -> j < k + 1 -> B' i j = qmm n Ek B i j.
Proof.
  intros Hi Hj. assert (Hjn : j < n) by (unfold n; lia).
  assert (E : meq n n (qherm Ek) (qembed C (k + 1) (qherm Hs))) by (intros a b _ _; apply qembed_herm).
  assert (M1 : meq n n B' (qmm n (qmm n Ek B) (qembed C (k + 1) (qherm Hs)))) by (unfold B'; rewrite E; reflexivity).
  rewrite (M1 i j Hi Hjn). now apply qembed_mm_col_lo.
Qed.
Theorem hess_step : below_zero n k B -> below_zero n (k + 1) B'.
Proof.
  intros Hb i j Hj Hij Hi. rewrite step_col_lo by assumption.
  destruct (Nat.lt_ge_cases i (k + 1)) as [Hlo|Hhi].
  - unfold Ek. rewrite qembed_mm_row_lo by assumption. apply Hb; lia.
  - destruct (Nat.le_exists_sub (k + 1) i Hhi) as [i' [Ei _]]. subst i. rewrite (Nat.add_comm i' (k + 1)) in *.
    unfold Ek, n. rewrite qembed_mm_row_hi.
    destruct (Nat.eq_dec j k) as [->|Hne].
    + rewrite Hmap by (unfold n in Hi; lia). replace (i' =? 0) with false by (symmetry; apply Nat.eqb_neq; lia). reflexivity.
    + apply sumQ_zero_ext. intros l Hl. rewrite (Hb (k + 1 + l) j) by (unfold n; lia). qr.
Qed.
Theorem subreal_step : qconj c = c -> sub_real n k B -> sub_real n (k + 1) B'.
Proof.
  intros Hc Hs' j Hj Hjn. rewrite step_col_lo by (unfold n in *; lia).
  destruct (Nat.eq_dec j k) as [->|Hne].
  - pose proof (qembed_mm_row_hi C (k + 1) m Hs B 0 k) as E0. rewrite Nat.add_0_r in E0.
    unfold Ek, n. rewrite E0, Hmap by (unfold n in Hjn; lia). exact Hc.
  - unfold Ek. rewrite qembed_mm_row_lo by (unfold n in *; lia). apply Hs'; lia.
Qed.
End Step.
(* a Hermitian matrix that is zero below the sub-diagonal in every column is tridiagonal *)
Theorem hess_hermitian_tridiagonal n (B : qmat) : meq n n (qherm B) B -> below_zero n n B ->
  forall i j, i < n -> j < n -> (j + 1 < i \/ i + 1 < j) -> B i j = qzero.
Proof.
  intros HB Hz i j Hi Hj [H|H]; [now apply Hz|].
  rewrite <- (HB i j Hi Hj). unfold qherm. rewrite (Hz j i) by assumption. apply qconj_0.
Qed.
Lemma below_zero_mono n k k' B : k' <= k -> below_zero n k B -> below_zero n k' B.
Proof. intros H Hb i j Hj. apply Hb. lia. Qed.
(* columns n-1 and beyond have nothing below the sub-diagonal *)
Lemma below_zero_all n B : below_zero n (n - 1) B -> below_zero n n B.
Proof. intros Hb i j Hj Hij Hi. apply Hb; lia. Qed.
End Loop.

Section Back.
Variable C : CRing.
Add Ring Cr4 : (cr_th C).
Notation qmat := (qmat C).
(* eigen.py step 5: V = P^H V_B diagonalises A when V_B diagonalises B = P A P^H *)
Theorem eigen_backtransform n (A P B VB D : qmat) :
  unitary C n P -> meq n n (qmm n (qmm n P A) (qherm P)) B ->
  unitary C n VB -> meq n n (qmm n B VB) (qmm n VB D) ->
  unitary C n (qmm n (qherm P) VB) /\ meq n n (qmm n A (qmm n (qherm P) VB)) (qmm n (qmm n (qherm P) VB) D).
Proof.
  intros [P1 P2] HB HV HE. split.
  - apply unitary_mm; [|exact HV]. split; rewrite (qherm_herm C n n P); assumption.
  - assert (E : meq n n (qmm n (qherm P) B) (qmm n A (qherm P))).
    { rewrite <- HB. rewrite <- (qmm_assoc C n n n n (qherm P) (qmm n P A) (qherm P)).
      rewrite <- (qmm_assoc C n n n n (qherm P) P A), P1, (qmm_id_l C n n A). reflexivity. }
    rewrite <- (qmm_assoc C n n n n A (qherm P) VB), <- E.
    rewrite (qmm_assoc C n n n n (qherm P) B VB), HE.
    rewrite <- (qmm_assoc C n n n n (qherm P) VB D). reflexivity.
Qed.
(* ... hence A = V D V^H *)
Theorem eigen_reconstruct n (A V D : qmat) : unitary C n V -> meq n n (qmm n A V) (qmm n V D) ->
  meq n n (qmm n (qmm n V D) (qherm V)) A.
Proof.
  intros [V1 V2] HE. rewrite <- HE, (qmm_assoc C n n n n A V (qherm V)), V2. apply (qmm_id_r C).
Qed.
End Back.

Section Fro.
Variable C : CRing.
Notation qmat := (qmat C).
(* a unitary similarity keeps the Frobenius norm *)
Theorem similarity_frob2 n (A P B : qmat) : sim_inv C n A P B -> frob2 n n B = frob2 n n A.
Proof.
  intros [[P1 P2] HS]. rewrite <- (frob2_meq C n n _ _ HS).
  rewrite (frob2_unitary_right C n n n (qmm n P A) (qherm P)) by (rewrite (qherm_herm C n n P); exact P1).
  apply frob2_unitary_left. exact P1.
Qed.
(* the real part of the trace is cyclic (the trace itself is not, over the quaternions) ... *)
Lemma retr_cyclic m n (A B : qmat) : retr m (qmm n A B) = retr n (qmm m B A).
Proof.
  unfold retr, qmm. rewrite (sumR_ext C m _ (fun i => sumR n (fun l => qre (qmul (A i l) (B l i))))) by (intros; apply sumQ_re).
  rewrite (sumR_ext C n _ (fun l => sumR m (fun i => qre (qmul (B l i) (A i l))))) by (intros; apply sumQ_re).
  rewrite sumR_swap. apply sumR_ext; intros l _. apply sumR_ext; intros i _. apply qre_mul_comm.
Qed.
(* ... hence a unitary similarity keeps the real part of the trace *)
Theorem similarity_retr n (A P B : qmat) : sim_inv C n A P B -> retr n B = retr n A.
Proof.
  intros [[P1 P2] HS]. rewrite <- (retr_meq C n _ _ HS). rewrite retr_cyclic.
  apply retr_meq. rewrite <- (qmm_assoc C n n n n (qherm P) P A), P1. apply qmm_id_l.
Qed.
(* ... and the Gram matrix B^H B is the same unitary similarity of A^H A: the singular values are those of A *)
Theorem similarity_gram n (A P B : qmat) : sim_inv C n A P B ->
  meq n n (qmm n (qherm B) B) (qmm n (qmm n P (qmm n (qherm A) A)) (qherm P)).
Proof.
  intros [[P1 P2] HS]. rewrite <- HS.
  rewrite (qherm_mm_meq C n n n (qmm n P A) (qherm P)), (qherm_herm C n n P), (qherm_mm_meq C n n n P A).
  rewrite (qmm_assoc C n n n n P (qmm n (qherm A) (qherm P)) (qmm n (qmm n P A) (qherm P))).
  rewrite (qmm_assoc C n n n n (qherm A) (qherm P) (qmm n (qmm n P A) (qherm P))).
  rewrite <- (qmm_assoc C n n n n (qherm P) (qmm n P A) (qherm P)).
  rewrite <- (qmm_assoc C n n n n (qherm P) P A), P1, (qmm_id_l C n n A).
  rewrite <- (qmm_assoc C n n n n (qherm A) A (qherm P)).
  rewrite <- (qmm_assoc C n n n n P (qmm n (qherm A) A) (qherm P)). reflexivity.
Qed.
End Fro.
