(* C11 / C05: the singular values -- hence the rank as the number of values above a threshold -- do not change under conjugate transposition and
   under multiplication by matrices with orthonormal columns (unitary factors): the transformed matrix has a factorisation with the SAME value
   vector, and by SVUnique.singular_values_unique every factorisation of it has these values. *)
From Coq Require Import Arith Lia Bool Setoid Morphisms Ring.
From QV Require Import CRing Sums Quat Mat QMat.
From QVT Require Import EckartYoung Penrose.

Section Inv.
Variable C : CRing.
Add Ring Cr17 : (cr_th C).
Notation qmat := (qmat C).

Theorem herm_has_same_values m n r (U V : qmat) (s : nat -> C) : meq n m (qherm (usv r U s V)) (usv r V s U).
Proof. exact (usv_herm C m n r U V s). Qed.

Theorem left_factor_keeps_values p m n r (P U V : qmat) (s : nat -> C) :
  meq m m (qmm p (qherm P) P) qmid -> meq r r (qmm m (qherm U) U) qmid ->
  meq p n (qmm m P (usv r U s V)) (usv r (qmm m P U) s V) /\ meq r r (qmm p (qherm (qmm m P U)) (qmm m P U)) qmid.
Proof.
  intros HP HU. split.
  - unfold usv. rewrite <- (qmm_assoc C p m r n P (qmm r U (rdiag s)) (qherm V)).
    rewrite <- (qmm_assoc C p m r r P U (rdiag s)). reflexivity.
  - rewrite (qherm_mm_meq C p m r P U).
    rewrite (qmm_assoc C r m p r (qherm U) (qherm P) (qmm m P U)).
    rewrite <- (qmm_assoc C m p m r (qherm P) P U), HP, (qmm_id_l C m r U). exact HU.
Qed.
Theorem right_factor_keeps_values m n p r (U V W : qmat) (s : nat -> C) :
  meq n n (qmm p (qherm W) W) qmid -> meq r r (qmm n (qherm V) V) qmid ->
  meq m p (qmm n (usv r U s V) (qherm W)) (usv r U s (qmm n W V)) /\ meq r r (qmm p (qherm (qmm n W V)) (qmm n W V)) qmid.
Proof.
  intros HW HV. split.
  - unfold usv. rewrite (qmm_assoc C m r n p (qmm r U (rdiag s)) (qherm V) (qherm W)).
    rewrite <- (qherm_mm_meq C p n r W V). reflexivity.
  - rewrite (qherm_mm_meq C p n r W V).
    rewrite (qmm_assoc C r n p r (qherm V) (qherm W) (qmm n W V)).
    rewrite <- (qmm_assoc C n p n r (qherm W) W V), HW, (qmm_id_l C n r V). exact HV.
Qed.
(* columns taken from a matrix with orthonormal columns are linearly independent over the quaternions (right coefficients):
   N c = 0 forces c = 0 -- the null-space bases of C11 are such column blocks of V (resp. U) *)
Theorem orthonormal_columns_are_independent n r (Nb c : qmat) :
  meq r r (qmm n (qherm Nb) Nb) qmid -> meq n 1 (qmm r Nb c) (fun _ _ => qzero) -> meq r 1 c (fun _ _ => qzero).
Proof.
  intros HN Hc. rewrite <- (qmm_id_l C r 1 c), <- HN, (qmm_assoc C r n r 1 (qherm Nb) Nb c), Hc.
  intros i j _ _. unfold qmm. rewrite (sumQ_ext C n _ (fun _ => qzero)); [apply (sumQ_zero C)|intros; qr].
Qed.
(* a block of columns k0 .. k0 + d - 1 of a matrix with orthonormal columns has orthonormal columns *)
Theorem column_block_is_orthonormal n r k0 d (V : qmat) : k0 + d <= r ->
  meq r r (qmm n (qherm V) V) qmid -> meq d d (qmm n (qherm (fun i j => V i (k0 + j))) (fun i j => V i (k0 + j))) qmid.
Proof.
  intros Hd HV a b Ha Hb. specialize (HV (k0 + a) (k0 + b) ltac:(lia) ltac:(lia)).
  unfold qmm, qherm, qmid in *. rewrite HV. destruct (Nat.eqb_spec a b) as [->|NE].
  - now rewrite Nat.eqb_refl.
  - replace (Nat.eqb (k0 + a) (k0 + b)) with false by (symmetry; apply Nat.eqb_neq; lia). reflexivity.
Qed.
End Inv.
