(* C05: the singular values are determined by the matrix.  If A = U diag(s) V^H = U' diag(s') V'^H with orthonormal columns
   on all four factors and both value vectors non-negative and non-increasing, then s = s'.  (Through Eckart-Young: each
   truncation of one factorisation is a competitor for the other, so all tail sums agree.) *)
From Coq Require Import Reals Lra Psatz Arith Lia.
From QV Require Import CRing CRingR Sums Quat Mat QMat.
From QVT Require Import CauchySchwarz Norms Proj EckartYoung EckartYoungR.
Local Open Scope R_scope.

Definition tail2 (r p : nat) (s : nat -> R) : R := @sumR RR r (fun k => @tailv RR p s k * @tailv RR p s k).

Lemma tail2_step r p s : (p < r)%nat -> tail2 r p s = s p * s p + tail2 r (S p) s.
Proof.
  intros Hp. unfold tail2.
  rewrite (sumR_ext RR r _ (fun k => (if Nat.eqb k p then s p * s p else 0) + @tailv RR (S p) s k * @tailv RR (S p) s k)).
  - pose proof (sumR_add RR r (fun k => if Nat.eqb k p then s p * s p else 0) (fun k => @tailv RR (S p) s k * @tailv RR (S p) s k)) as E.
    rr in E. rewrite E. f_equal. exact (sumR_delta RR r p (fun _ => s p * s p) Hp).
  - intros k Hk. unfold tailv. destruct (Nat.eqb_spec k p) as [->|NE].
    + destruct (Nat.ltb_spec p p); [lia|]. destruct (Nat.ltb_spec p (S p)); [|lia]. rr. ring.
    + destruct (Nat.ltb_spec k p); destruct (Nat.ltb_spec k (S p)); try lia; rr; ring.
Qed.

Lemma tail2_le m n r p (U V U' V' : qmat RR) (s s' : nat -> R) : (p <= r)%nat ->
  meq r r (qmm m (qherm U) U) qmid -> meq r r (qmm n (qherm V) V) qmid ->
  meq r r (qmm m (qherm U') U') qmid -> meq r r (qmm n (qherm V') V') qmid ->
  (forall k, (k < r)%nat -> 0 <= s k) -> (forall k l, (k <= l)%nat -> (l < r)%nat -> s l <= s k) ->
  meq m n (@usv RR r U s V) (@usv RR r U' s' V') ->
  tail2 r p s <= tail2 r p s'.
Proof.
  intros Hp HU HV HU' HV' H0 Hm E.
  assert (HQ : meq p p (qmm m (qherm U') U') qmid) by (intros i j Hi Hj; apply HU'; lia).
  pose proof (eckart_young_optimal m n r p U V U' (qmm p (@rdiag RR s') (qherm V')) s Hp HU HV HQ H0 Hm) as O.
  assert (F : meq m n (qmsub (@usv RR r U s V) (qmm p U' (qmm p (@rdiag RR s') (qherm V'))))
                      (qmsub (@usv RR r U' s' V') (@usv RR p U' s' V'))).
  { rewrite E. unfold usv at 3. rewrite (qmm_assoc RR m p p n U' (@rdiag RR s') (qherm V')). reflexivity. }
  rewrite (frob2_meq RR m n _ _ F) in O.
  rewrite (eckart_young_value RR m n r p U' V' s' Hp HU' HV') in O. exact O.
Qed.

Theorem singular_values_unique m n r (U V U' V' : qmat RR) (s s' : nat -> R) :
  meq r r (qmm m (qherm U) U) qmid -> meq r r (qmm n (qherm V) V) qmid ->
  meq r r (qmm m (qherm U') U') qmid -> meq r r (qmm n (qherm V') V') qmid ->
  (forall k, (k < r)%nat -> 0 <= s k) -> (forall k l, (k <= l)%nat -> (l < r)%nat -> s l <= s k) ->
  (forall k, (k < r)%nat -> 0 <= s' k) -> (forall k l, (k <= l)%nat -> (l < r)%nat -> s' l <= s' k) ->
  meq m n (@usv RR r U s V) (@usv RR r U' s' V') ->
  forall k, (k < r)%nat -> s k = s' k.
Proof.
  intros HU HV HU' HV' H0 Hm H0' Hm' E k Hk.
  assert (E' : meq m n (@usv RR r U' s' V') (@usv RR r U s V)) by (symmetry; exact E).
  assert (T : forall p, (p <= r)%nat -> tail2 r p s = tail2 r p s').
  { intros p Hp. apply Rle_antisym.
    - exact (tail2_le m n r p U V U' V' s s' Hp HU HV HU' HV' H0 Hm E).
    - exact (tail2_le m n r p U' V' U V s' s Hp HU' HV' HU HV H0' Hm' E'). }
  pose proof (tail2_step r k s Hk) as S1. pose proof (tail2_step r k s' Hk) as S2.
  rewrite (T k ltac:(lia)), (T (S k) ltac:(lia)) in S1.
  assert (Q : s k * s k = s' k * s' k) by lra.
  specialize (H0 k Hk). specialize (H0' k Hk). nra.
Qed.
