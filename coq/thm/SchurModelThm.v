(* C10: the model of every Schur variant (model/Schur.v) at the real instance keeps, through every loop,
   Q unitary and Q^H H0 Q = T + D with ||D||_F <= the budget it reports; each entry point therefore returns
   Q unitary with Q^H A Q = T + D, ||D||_F <= budget, and a truthful convergence flag.  Over R. *)
From Coq Require Import Reals Lra Field Psatz Arith Lia Bool List Setoid Morphisms.
From QV Require Import CRing Sums Quat Mat QMat CRingR FOps FOpsR.
From QVT Require Import CauchySchwarz Reflector Norms HouseholderR SchurThm GivensThm Pad2.
From QVM Require Import Householder Givens Schur.
Import ListNotations.
Local Open Scope R_scope.

Notation sstR := (sst ROps).
Definition bq (B : blk ROps) : quat RR * quat RR * quat RR * quat RR := let '(a, b, c, d) := B in (toq a, toq b, toq c, toq d).
Definition padB (s : nat) (B : blk ROps) : qmat RR := let '(a, b, c, d) := B in pad2 RR s (toq a) (toq b) (toq c) (toq d).
Definition unitaryB (B : blk ROps) : Prop := let '(a, b, c, d) := B in unitary2 RR (toq a) (toq b) (toq c) (toq d).
Lemma tom_rows2 n s B (M : fmat ROps) : (S s < n)%nat -> meq n n (tom (rows2 ROps s B M)) (qmm n (padB s B) (tom M)).
Proof.
  intros Hs. destruct B as [[[a b] c] d]. unfold padB. rewrite (pad2_mm_l RR n n s _ _ _ _ (tom M) Hs).
  intros i k _ _. unfold tom, rows2, rows2q. destruct (Nat.eqb i s); [now rewrite toq_add, !toq_mul|].
  destruct (Nat.eqb i (S s)); [now rewrite toq_add, !toq_mul|reflexivity].
Qed.
Lemma tom_cols2 n s B (M : fmat ROps) : (S s < n)%nat -> meq n n (tom (cols2 ROps s B M)) (qmm n (tom M) (qherm (padB s B))).
Proof.
  intros Hs. destruct B as [[[a b] c] d]. unfold padB. rewrite (pad2_mm_r RR n n s _ _ _ _ (tom M) Hs).
  intros i k _ _. unfold tom, cols2, cols2q. destruct (Nat.eqb k s); [now rewrite toq_add, !toq_mul, !toq_conj|].
  destruct (Nat.eqb k (S s)); [now rewrite toq_add, !toq_mul, !toq_conj|reflexivity].
Qed.
Lemma padB_unitary n s B : (S s < n)%nat -> unitaryB B -> unitary n (padB s B).
Proof. intros Hs HB. destruct B as [[[a b] c] d]. now apply pad2_unitary. Qed.

(* the model invariant: Q unitary, Q^H H0 Q = H + D with ||D||_F <= budget *)
Definition MInv (n : nat) (H0 : qmat RR) (st : sstR) : Prop :=
  exists D : qmat RR, schur_inv RR n H0 (tom (sQ _ st)) (tom (sH _ st)) D /\ normF n n D <= sBud _ st.
Theorem sim2_inv n H0 s B st : (S s < n)%nat -> unitaryB B -> MInv n H0 st -> MInv n H0 (sim2 ROps n s B st).
Proof.
  intros Hs HB [D [Hi Hb]]. pose proof (padB_unitary n s B Hs HB) as HU.
  exists (qmm n (qmm n (padB s B) D) (qherm (padB s B))). split.
  - unfold sim2. cbn [sQ sH].
    assert (EQ : meq n n (tom (fretab n n (cols2 ROps s B (sQ _ st)))) (qmm n (tom (sQ _ st)) (qherm (padB s B)))) by (rewrite tom_retab; now apply tom_cols2).
    assert (EH : meq n n (tom (fretab n n (cols2 ROps s B (fretab n n (rows2 ROps s B (sH _ st)))))) (qmm n (qmm n (padB s B) (tom (sH _ st))) (qherm (padB s B)))).
    { rewrite tom_retab, (tom_cols2 n s B _ Hs), tom_retab, (tom_rows2 n s B _ Hs). reflexivity. }
    rewrite EQ, EH. now apply schur_sim.
  - cbn [sBud sim2]. now rewrite (normF_unitary_sim n (padB s B) D HU).
Qed.
Theorem simG_inv n H0 (G : fmat ROps) st : unitary n (tom G) -> MInv n H0 st -> MInv n H0 (simG ROps n G st).
Proof.
  intros HU [D [Hi Hb]]. exists (qmm n (qmm n (tom G) D) (qherm (tom G))). split.
  - unfold simG. cbn [sQ sH].
    assert (EQ : meq n n (tom (fretab n n (fmm n (sQ _ st) (fherm G)))) (qmm n (tom (sQ _ st)) (qherm (tom G)))) by (rewrite tom_retab, tom_mm_meq, tom_herm_meq; reflexivity).
    assert (EH : meq n n (tom (fretab n n (fmm n (fretab n n (fmm n G (sH _ st))) (fherm G)))) (qmm n (qmm n (tom G) (tom (sH _ st))) (qherm (tom G)))).
    { rewrite tom_retab, tom_mm_meq, tom_retab, tom_mm_meq, tom_herm_meq. reflexivity. }
    rewrite EQ, EH. now apply schur_sim.
  - cbn [sBud simG]. now rewrite (normF_unitary_sim n (tom G) D HU).
Qed.
(* a single-entry matrix and its Frobenius norm *)
Definition single (i j : nat) (q : quat RR) : qmat RR := fun a b => if Nat.eqb a i && Nat.eqb b j then q else qzero.
Lemma sumRR_single n (f : nat -> R) i : (i < n)%nat -> (forall k, (k < n)%nat -> k <> i -> f k = 0) -> @sumR RR n f = f i.
Proof.
  intros Hi Hz. induction n as [|n IH]; [lia|]. cbn [sumR]. rr. destruct (Nat.eq_dec i n) as [->|Hne].
  - rewrite (sumR_ext RR n f (fun _ => 0)) by (intros k Hk; apply Hz; lia). rewrite (sumR_zero RR). rr. ring.
  - rewrite IH by (try lia; intros k Hk Hki; apply Hz; lia). rewrite (Hz n) by lia. ring.
Qed.
Lemma qn0 : @qnorm2 RR qzero = 0. Proof. unfold qnorm2. cbn [qzero qw qx qy qz]. rr. ring. Qed.
Lemma normF_single n i j q : (i < n)%nat -> (j < n)%nat -> normF n n (single i j q) = qabs q.
Proof.
  intros Hi Hj. unfold normF, qabs. f_equal. unfold frob2.
  rewrite (sumRR_single n _ i Hi).
  - rewrite (sumRR_single n _ j Hj); [unfold single; now rewrite !Nat.eqb_refl|].
    intros k _ Hk. unfold single. rewrite Nat.eqb_refl. apply Nat.eqb_neq in Hk. rewrite Hk. apply qn0.
  - intros k _ Hk. rewrite (sumR_ext RR n _ (fun _ => 0)); [apply (sumR_zero RR)|].
    intros l _. unfold single. apply Nat.eqb_neq in Hk. rewrite Hk. apply qn0.
Qed.
Theorem defl_inv n H0 i j st : (i < n)%nat -> (j < n)%nat -> MInv n H0 st -> MInv n H0 (defl ROps n i j st).
Proof.
  intros Hi Hj [D [Hv Hb]]. exists (qmadd D (single i j (tom (sH _ st) i j))). split.
  - unfold defl. cbn [sQ sH].
    assert (EH : meq n n (tom (fretab n n (fun a b => if Nat.eqb a i && Nat.eqb b j then fq0 else sH _ st a b))) (qmsub (tom (sH _ st)) (single i j (tom (sH _ st) i j)))).
    { rewrite tom_retab. intros a b _ _. unfold tom, qmsub, single. destruct (Nat.eqb_spec a i) as [->|]; destruct (Nat.eqb_spec b j) as [->|]; cbn [andb];
      try (rewrite toq_0); apply qeq; qcomp; rr; lra. }
    rewrite EH. now apply schur_defl.
  - cbn [sBud defl]. eapply Rle_trans; [apply normF_triangle|]. rewrite (normF_single n i j _ Hi Hj).
    change (normF n n D + qabs (tom (sH ROps st) i j) <= sBud ROps st + qabs (tom (sH ROps st) i j)). lra.
Qed.


Ltac qrr := apply qeq; qcomp; rr; first [ring | lra].
Local Close Scope R_scope.
(* a 2 x 2 unitary function-matrix gives a unitary block *)
Lemma unitary_2x2 (M : qmat RR) : unitary 2 M -> unitary2 RR (M 0 0) (M 0 1) (M 1 0) (M 1 1).
Proof.
  intros [U1 U2].
  assert (L : forall i j, i < 2 -> j < 2 -> qadd (qmul (qconj (M 0 i)) (M 0 j)) (qmul (qconj (M 1 i)) (M 1 j)) = @qmid RR i j).
  { intros i j Hi Hj. rewrite <- (U1 i j Hi Hj). unfold qmm, qherm. cbn [sumQ]. qrr. }
  assert (Rr : forall i j, i < 2 -> j < 2 -> qadd (qmul (M i 0) (qconj (M j 0))) (qmul (M i 1) (qconj (M j 1))) = @qmid RR i j).
  { intros i j Hi Hj. rewrite <- (U2 i j Hi Hj). unfold qmm, qherm. cbn [sumQ]. qrr. }
  unfold unitary2. repeat split.
  - exact (L 0 0 ltac:(lia) ltac:(lia)).
  - exact (L 0 1 ltac:(lia) ltac:(lia)).
  - exact (L 1 0 ltac:(lia) ltac:(lia)).
  - exact (L 1 1 ltac:(lia) ltac:(lia)).
  - exact (Rr 0 0 ltac:(lia) ltac:(lia)).
  - exact (Rr 0 1 ltac:(lia) ltac:(lia)).
  - exact (Rr 1 0 ltac:(lia) ltac:(lia)).
  - exact (Rr 1 1 ltac:(lia) ltac:(lia)).
Qed.
Local Open Scope R_scope.
Theorem hh2_unitary (v0 v1 : fqR) : unitaryB (hh2 ROps v0 v1).
Proof.
  unfold hh2, unitaryB. set (a := fun i : nat => if Nat.eqb i 0 then v0 else v1).
  exact (unitary_2x2 (tom (hh_matrix ROps 2 a)) (hh_unitary 2 a)).
Qed.
Theorem gblk_unitary (g : fqR * fqR * fqR * fqR) : is_unitary2 g -> unitaryB (gblk ROps g).
Proof.
  destruct g as [[[q1 q2] q3] q4]. intros (E1 & E2 & E3 & E4 & E5 & E6 & E7). unfold gblk, unitaryB, unitary2.
  apply (f_equal toq) in E1, E2, E3, E4, E5, E6, E7.
  rewrite ?toq_add, ?toq_mul, ?toq_conj, ?toq_0, ?toq_1 in *.
  rewrite ?(qconj_conj RR).
  assert (E6' := f_equal (@qconj RR) E6). rewrite (qconj_add RR), !(qconj_mul RR), !(qconj_conj RR) in E6'. rewrite (qconj_0 RR) in E6'.
  repeat split; assumption.
Qed.
(* the generated rotation is always unitary: above eps by the rotation theorem, below it is the identity *)
Theorem ggivens_block_unitary (x1 x2 : fqR) : unitaryB (gblk ROps (ggivens ROps (eps52 ROps) x1 x2)).
Proof.
  assert (He : 0 <= eps52 ROps) by (unfold eps52; cbn [fdyad ROps]; apply Rmult_le_pos; [lra|apply powerRZ_le; lra]).
  destruct (Rle_lt_dec (sqrt (NR x1 + NR x2)) (eps52 ROps)) as [Hle|Hlt].
  - rewrite (ggivens_degenerate _ x1 x2 Hle). unfold gblk, unitaryB, unitary2. rewrite !toq_conj, !toq_1, !toq_0. repeat split; qrr.
  - apply gblk_unitary. exact (proj1 (ggivens_is_rotation _ x1 x2 He Hlt)).
Qed.

Local Close Scope R_scope.

Section Loops.
Variables (n : nat) (H0 : qmat RR).
Notation Inv := (MInv n H0).
Lemma sweep_hh_inv skip sigma ss : (forall s, In s ss -> S s < n) -> forall st, Inv st -> Inv (sweep_hh ROps n skip sigma ss st).
Proof.
  induction ss as [|s t IH]; intros Hss st Hi; cbn [sweep_hh]; [exact Hi|].
  assert (Ht : forall s', In s' t -> S s' < n) by (intros; apply Hss; now right).
  destruct (skip _); apply IH; try assumption. apply sim2_inv; [apply Hss; now left|apply hh2_unitary|exact Hi].
Qed.
Lemma fold_sweeps_inv skip ss sig : (forall s, In s ss -> S s < n) -> forall st, Inv st ->
  Inv (fold_left (fun s' sigma => sweep_hh ROps n skip sigma ss s') sig st).
Proof. intros Hss. induction sig as [|x t IH]; intros st Hi; cbn [fold_left]; [exact Hi|]. apply IH. now apply sweep_hh_inv. Qed.
Lemma seq_lt a len s : In s (seq a len) -> a <= s < a + len. Proof. intros H. apply in_seq in H. lia. Qed.
Lemma defl_pass_inv tol is : (forall i, In i is -> 1 <= i < n) -> forall acc, Inv (fst acc) -> Inv (fst (defl_pass ROps n tol is acc)).
Proof.
  induction is as [|i t IH]; intros His [st mx] Hi; cbn [defl_pass fst] in *; [exact Hi|].
  apply IH; [intros; apply His; now right|]. cbn [fst]. destruct (fleb _ _); [|exact Hi].
  pose proof (His i (or_introl eq_refl)). apply defl_inv; [lia|lia|exact Hi].
Qed.
Lemma aed_pass_inv tol aedf is : (forall i, In i is -> 1 <= i < n) -> forall acc, Inv (fst acc) -> Inv (fst (aed_pass ROps n tol aedf is acc)).
Proof.
  induction is as [|i t IH]; intros His [st mx] Hi; cbn [aed_pass fst] in *; [exact Hi|].
  apply IH; [intros; apply His; now right|]. cbn [fst]. destruct (fleb _ _); [|exact Hi].
  pose proof (His i (or_introl eq_refl)). apply defl_inv; [lia|lia|exact Hi].
Qed.
(* quaternion_schur_pure_implicit: every budget, every tolerance, either shift mode *)
Theorem implicit_loop_inv tol ray fuel : forall k st, Inv st -> Inv (rst _ (implicit_loop ROps n tol ray fuel k st)).
Proof.
  induction fuel as [|f IH]; intros k st Hi; cbn [implicit_loop rst]; [exact Hi|].
  set (st1 := sweep_hh ROps n _ _ _ st).
  assert (H1 : Inv st1) by (apply sweep_hh_inv; [intros s Hs; apply seq_lt in Hs; lia|exact Hi]).
  pose proof (defl_pass_inv tol (seq 1 (n - 1)) ltac:(intros i Hs; apply seq_lt in Hs; lia) (st1, f0) H1) as H2.
  destruct (defl_pass ROps n tol (seq 1 (n - 1)) (st1, f0)) as [st2 mx]. cbn [fst] in H2.
  destruct (fleb mx tol); [exact H2|now apply IH].
Qed.
(* unified aed / ds: every recorded schedule and eigvals list *)
Theorem unified_loop_inv tol aedf ds istart fuel : (1 <= istart) -> forall schedule eigs k st, Inv st ->
  Inv (rst _ (unified_loop ROps n tol aedf ds istart fuel schedule eigs k st)).
Proof.
  intros Hs1. induction fuel as [|f IH]; intros schedule eigs k st Hi; cbn [unified_loop rst]; [exact Hi|].
  destruct (if ds && Nat.leb 2 n then _ else _) as [[sig sch'] eigs'].
  set (st1 := fold_left _ sig st).
  assert (H1 : Inv st1) by (apply fold_sweeps_inv; [intros s Hs; apply seq_lt in Hs; lia|exact Hi]).
  pose proof (aed_pass_inv tol aedf (seq istart (n - istart)) ltac:(intros i Hs; apply seq_lt in Hs; lia) (st1, f0) H1) as H2.
  destruct (aed_pass ROps n tol aedf (seq istart (n - istart)) (st1, f0)) as [st2 mx]. cbn [fst] in H2.
  destruct (fleb mx tol); [exact H2|now apply IH].
Qed.
Lemma scan_defl_range tol H hi i : scan_defl ROps tol H hi = Some i -> 1 <= i <= hi.
Proof.
  induction hi as [|h IH]; cbn [scan_defl]; [discriminate|]. destruct (fleb _ _).
  - intros E; injection E as <-. lia.
  - intros E. specialize (IH E). lia.
Qed.
(* experimental windowed variants *)
Theorem exper_loop_inv tol window ds fuel : forall eigs k hi st, hi < n -> Inv st ->
  Inv (rst _ (exper_loop ROps n tol window ds fuel eigs k hi st)).
Proof.
  induction fuel as [|f IH]; intros eigs k hi st Hhi Hi; cbn [exper_loop rst]; [exact Hi|].
  destruct (Nat.leb hi 0); [exact Hi|].
  assert (G : forall X : sst ROps * nat * list (list ROps), Inv (fst (fst X)) -> snd (fst X) < n ->
     Inv (rst _ (let '(st1, hi1, eigs1) := X in
        if Nat.leb hi1 0 || fleb (max_sub_upto ROps hi1 (sH _ st1)) tol then mkR ROps st1 (fleb (max_below ROps n (sH _ st1)) tol) (S k)
        else exper_loop ROps n tol window ds f eigs1 (S k) hi1 st1))).
  { intros [[st1 hi1] eigs1] Hx Hh. cbn [fst snd] in *. destruct (_ || _); [exact Hx|now apply IH]. }
  apply G.
  - destruct (scan_defl ROps tol (sH _ st) hi) as [i|] eqn:E; cbn [fst].
    + apply scan_defl_range in E. apply defl_inv; [lia|lia|exact Hi].
    + destruct (ds && _).
      * destruct eigs as [|e er]; cbn [fst]; [exact Hi|]. apply fold_sweeps_inv; [intros s Hs; apply seq_lt in Hs; lia|exact Hi].
      * cbn [fst]. apply sweep_hh_inv; [intros s Hs; apply seq_lt in Hs; lia|exact Hi].
  - destruct (scan_defl ROps tol (sH _ st) hi) as [i|] eqn:E; cbn [fst snd].
    + apply scan_defl_range in E. lia.
    + destruct (ds && _); [destruct eigs; cbn [fst snd]; exact Hhi|cbn [fst snd]; exact Hhi].
Qed.
End Loops.

Local Open Scope R_scope.

Local Close Scope R_scope.

Section Loops2.
Variables (n : nat) (H0 : qmat RR).
Notation Inv := (MInv n H0).
Lemma sweep_giv_inv Hst ss : (forall s, In s ss -> S s < n) -> forall st, Inv st -> Inv (sweep_giv ROps n Hst ss st).
Proof.
  induction ss as [|s t IH]; intros Hss st Hi; cbn [sweep_giv]; [exact Hi|].
  apply IH; [intros; apply Hss; now right|]. apply sim2_inv; [apply Hss; now left|apply ggivens_block_unitary|exact Hi].
Qed.
Lemma fold_giv_inv ss sig : (forall s, In s ss -> S s < n) -> forall st, Inv st ->
  Inv (fold_left (fun s' sigma => sweep_giv ROps n (shifted ROps n (sH _ s') sigma) ss s') sig st).
Proof. intros Hss. induction sig as [|x t IH]; intros st Hi; cbn [fold_left]; [exact Hi|]. apply IH. now apply sweep_giv_inv. Qed.
Lemma defl1_inv tol is : (forall i, In i is -> 1 <= i < n) -> forall st, Inv st -> Inv (defl1 ROps n tol is st).
Proof.
  induction is as [|i t IH]; intros His st Hi; cbn [defl1]; [exact Hi|]. apply IH; [intros; apply His; now right|].
  destruct (fleb _ _); [|exact Hi]. pose proof (His i (or_introl eq_refl)). apply defl_inv; [lia|lia|exact Hi].
Qed.
Lemma defl2_inv tol is : (forall i, In i is -> 1 <= i < n) -> forall st, Inv st -> Inv (defl2 ROps n tol is st).
Proof.
  induction is as [|i t IH]; intros His st Hi; cbn [defl2]; [exact Hi|]. apply IH; [intros; apply His; now right|].
  destruct (fleb _ _); [|exact Hi]. pose proof (His i (or_introl eq_refl)). apply defl_inv; [lia|lia|exact Hi].
Qed.
Lemma fold_defl_inv (P : sst ROps -> nat -> bool) i js : i < n -> (forall j, In j js -> j < n) -> forall st, Inv st ->
  Inv (fold_left (fun s'' j => if P s'' j then defl ROps n i j s'' else s'') js st).
Proof.
  intros Hi. induction js as [|j t IH]; intros Hjs st Hs; cbn [fold_left]; [exact Hs|]. apply IH; [intros; apply Hjs; now right|].
  destruct (P st j); [|exact Hs]. apply defl_inv; [exact Hi|apply Hjs; now left|exact Hs].
Qed.
Lemma hess_clean_inv st : Inv st -> Inv (hess_clean ROps n st).
Proof.
  unfold hess_clean. assert (G : forall is, (forall i, In i is -> i < n) -> forall st, Inv st ->
    Inv (fold_left (fun s' i => fold_left (fun s'' j => if Nat.ltb (j + 1) i && small4 ROps (atol12 ROps) (sH _ s'' i j) then defl ROps n i j s'' else s'') (seq 0 n) s') is st)).
  { induction is as [|i t IH]; intros His s0 Hs; cbn [fold_left]; [exact Hs|]. apply IH; [intros; apply His; now right|].
    apply (fold_defl_inv (fun s'' j => Nat.ltb (j + 1) i && small4 ROps (atol12 ROps) (sH _ s'' i j))); [apply His; now left|intros j Hj; apply seq_lt in Hj; lia|exact Hs]. }
  apply G. intros i Hi. apply seq_lt in Hi. lia.
Qed.
Lemma final_clean_inv tol st : Inv st -> Inv (final_clean ROps n tol st).
Proof.
  unfold final_clean. assert (G : forall is, (forall i, In i is -> i < n) -> forall st, Inv st ->
    Inv (fold_left (fun s' i => fold_left (fun s'' j => if fleb (fqabs (sH _ s'' i j)) tol then defl ROps n i j s'' else s'') (seq 0 i) s') is st)).
  { induction is as [|i t IH]; intros His s0 Hs; cbn [fold_left]; [exact Hs|]. apply IH; [intros; apply His; now right|].
    assert (Hin : i < n) by (apply His; now left).
    apply (fold_defl_inv (fun s'' j => fleb (fqabs (sH _ s'' i j)) tol)); [exact Hin|intros j Hj; apply seq_lt in Hj; lia|exact Hs]. }
  apply G. intros i Hi. apply seq_lt in Hi. lia.
Qed.
Lemma shrink_le tol H m : shrink ROps tol H m <= m.
Proof. induction m as [|m IH]; [cbn [shrink]; lia|]. destruct m as [|m']; [cbn [shrink]; lia|].
  change (shrink ROps tol H (S (S m'))) with (if fleb (fqabs (H (S m') m')) tol then shrink ROps tol H (S m') else S (S m')). destruct (fleb _ _); lia. Qed.
(* quaternion_schur: every shift mode, every recorded eigvals list, every budget *)
Theorem giv_loop_inv tol mode fuel : forall eigs k m prev stag st, m <= n -> Inv st ->
  Inv (rst _ (giv_loop ROps n tol mode fuel eigs k m prev stag st)).
Proof.
  induction fuel as [|f IH]; intros eigs k m prev stag st Hm Hi; cbn [giv_loop rst]; [exact Hi|].
  destruct (Nat.leb m 1); [exact Hi|].
  set (st1 := defl1 ROps n tol (seq 1 (m - 1)) st).
  assert (H1 : Inv st1) by (apply defl1_inv; [intros i Hs; apply seq_lt in Hs; lia|exact Hi]).
  set (m1 := shrink ROps tol (sH _ st1) m). assert (Hm1 : m1 <= n) by (pose proof (shrink_le tol (sH _ st1) m); unfold m1; lia).
  destruct (fleb _ tol); [exact H1|].
  destruct (if Nat.leb 50 _ then _ else _) as [mode1 stag2]. destruct (if Nat.leb 20 stag2 && _ then _ else _) as [mode2 stag3].
  destruct (if (Nat.eqb mode2 0 || Nat.eqb mode2 2) && _ then _ else _) as [sig eigs1].
  apply IH; [exact Hm1|]. apply defl2_inv; [intros i Hs; apply seq_lt in Hs; lia|]. apply hess_clean_inv.
  apply fold_giv_inv; [intros s Hs; apply seq_lt in Hs; lia|exact H1].
Qed.
End Loops2.

Local Open Scope R_scope.


(* any state change that is a unitary similarity in the real-number reading keeps the invariant *)
Lemma sim_like_inv n H0 (G : qmat RR) (st st' : sst ROps) : unitary n G ->
  meq n n (tom (sQ _ st')) (qmm n (tom (sQ _ st)) (qherm G)) ->
  meq n n (tom (sH _ st')) (qmm n (qmm n G (tom (sH _ st))) (qherm G)) -> sBud _ st' = sBud _ st ->
  MInv n H0 st -> MInv n H0 st'.
Proof.
  intros HU EQ EH EB [D [Hi Hb]]. exists (qmm n (qmm n G D) (qherm G)). split.
  - rewrite EQ, EH. now apply schur_sim.
  - rewrite EB. now rewrite (normF_unitary_sim n G D HU).
Qed.
(* the Householder triangularisation loop of the explicit QR step: R = Qi R0 with Qi unitary *)
Lemma qr_cols_inv n (R0 : fmat ROps) js : (forall j, In j js -> (j <= n)%nat) -> forall R Qi,
  unitary n (tom Qi) -> meq n n (tom R) (qmm n (tom Qi) (tom R0)) ->
  let '(R', Qi') := qr_cols ROps n js (R, Qi) in unitary n (tom Qi') /\ meq n n (tom R') (qmm n (tom Qi') (tom R0)).
Proof.
  induction js as [|j t IH]; intros Hjs R Qi HU HR; cbn [qr_cols]; [split; assumption|].
  assert (Ht : forall j', In j' t -> (j' <= n)%nat) by (intros; apply Hjs; now right).
  destruct (col_zero_below ROps n j R); [now apply IH|].
  set (Hj := fretab n n (embed ROps j (hh_matrix ROps (n - j) (fun i => R (j + i)%nat j)))).
  assert (HjU : unitary n (tom Hj)).
  { assert (E : meq n n (tom Hj) (qembed RR j (tom (hh_matrix ROps (n - j) (fun i => R (j + i)%nat j))))) by (unfold Hj; rewrite tom_retab; apply tom_embed_meq).
    rewrite E. pose proof (Hjs j (or_introl eq_refl)). replace n with (j + (n - j))%nat at 1 by lia. apply qembed_unitary, hh_unitary. }
  apply IH; [exact Ht| |].
  - assert (E : meq n n (tom (fretab n n (fmm n Hj Qi))) (qmm n (tom Hj) (tom Qi))) by (rewrite tom_retab; apply tom_mm_meq).
    rewrite E. now apply unitary_mm.
  - rewrite tom_retab, tom_mm_meq, HR. rewrite tom_retab, tom_mm_meq. rewrite (qmm_assoc RR n n n n (tom Hj) (tom Qi) (tom R0)). reflexivity.
Qed.
Lemma tom_shiftI n sigma : meq n n (tom (shiftI ROps sigma)) (qdiag (fun _ => @qreal RR sigma)).
Proof. intros i j _ _. unfold tom, shiftI, qdiag. destruct (Nat.eqb i j); [apply toq_real|apply toq_0]. Qed.
Lemma scalar_commutes n (X : qmat RR) c : meq n n (qmm n X (qdiag (fun _ => @qreal RR c))) (qmm n (qdiag (fun _ => @qreal RR c)) X).
Proof. rewrite (qmm_diag_r RR n n), (qmm_diag_l RR n n). intros i j _ _. symmetry. apply (qreal_central RR). Qed.
Theorem pure_step_inv n H0 sigma st : MInv n H0 st -> MInv n H0 (pure_step ROps n sigma st).
Proof.
  intros Hi. unfold pure_step.
  set (R0 := if fis0 ROps sigma then sH _ st else fretab n n (fun i j => fqsub (sH _ st i j) (shiftI ROps sigma i j))).
  pose proof (qr_cols_inv n R0 (seq 0 (n - 1)) ltac:(intros j Hj; apply seq_lt in Hj; lia) R0 feye) as HQ.
  assert (HI : unitary n (tom (@feye ROps))) by (assert (E : meq n n (tom (@feye ROps)) qmid) by (intros i j _ _; apply tom_eye); rewrite E; apply unitary_id).
  assert (HR0 : meq n n (tom R0) (qmm n (tom (@feye ROps)) (tom R0))).
  { assert (E : meq n n (tom (@feye ROps)) qmid) by (intros i j _ _; apply tom_eye). rewrite E, (qmm_id_l RR n n (tom R0)). reflexivity. }
  specialize (HQ HI HR0). destruct (qr_cols ROps n (seq 0 (n - 1)) (R0, feye)) as [R Qi]. destruct HQ as [HU HR].
  apply (sim_like_inv n H0 (tom Qi) st); cbn [sQ sH sBud]; [exact HU| | |reflexivity|exact Hi].
  - rewrite tom_retab, tom_mm_meq, tom_herm_meq. reflexivity.
  - destruct (fis0 ROps sigma) eqn:Es.
    + rewrite tom_retab, tom_mm_meq, tom_herm_meq, HR. reflexivity.
    + assert (E0 : meq n n (tom R0) (qmsub (tom (sH _ st)) (qdiag (fun _ => @qreal RR sigma)))).
      { unfold R0. rewrite tom_retab. intros i j Hi' Hj. unfold tom at 1. rewrite toq_sub. unfold qmsub. f_equal. exact (tom_shiftI n sigma i j Hi' Hj). }
      assert (E1 : meq n n (tom (fretab n n (fun i j => fqadd (fretab n n (fmm n R (fherm Qi)) i j) (shiftI ROps sigma i j))))
                        (qmadd (qmm n (qmm n (tom Qi) (qmsub (tom (sH _ st)) (qdiag (fun _ => @qreal RR sigma)))) (qherm (tom Qi))) (qdiag (fun _ => @qreal RR sigma)))).
      { rewrite tom_retab. intros i j Hi' Hj. unfold tom at 1. rewrite toq_add. unfold qmadd. f_equal; [|exact (tom_shiftI n sigma i j Hi' Hj)].
        change (toq (fretab n n (fmm n R (fherm Qi)) i j)) with (tom (fretab n n (fmm n R (fherm Qi))) i j).
        assert (E2 : meq n n (tom (fretab n n (fmm n R (fherm Qi)))) (qmm n (qmm n (tom Qi) (qmsub (tom (sH _ st)) (qdiag (fun _ => @qreal RR sigma)))) (qherm (tom Qi))))
          by (rewrite tom_retab, tom_mm_meq, tom_herm_meq, HR, E0; reflexivity).
        exact (E2 i j Hi' Hj). }
      rewrite E1. apply explicit_qr_step; [exact HU|apply scalar_commutes].
Qed.
Theorem pure_loop_inv n H0 tol ray fuel : forall k st, MInv n H0 st -> MInv n H0 (rst _ (pure_loop ROps n tol ray fuel k st)).
Proof.
  induction fuel as [|f IH]; intros k st Hi; cbn [pure_loop rst]; [exact Hi|].
  set (st1 := pure_step ROps n _ st). assert (H1 : MInv n H0 st1) by now apply pure_step_inv.
  pose proof (defl_pass_inv n H0 tol (seq 1 (n - 1)) ltac:(intros i Hs; apply seq_lt in Hs; lia) (st1, f0) H1) as H2.
  destruct (defl_pass ROps n tol (seq 1 (n - 1)) (st1, f0)) as [st2 mx]. cbn [fst] in H2.
  destruct (fleb mx tol); [exact H2|now apply IH].
Qed.


(* what every entry point guarantees: Q unitary, Q^H A Q = T + D, ||D||_F <= reported budget *)
Definition schur_sound (n : nat) (A : fmat ROps) (o : sout ROps) : Prop :=
  unitary n (tom (oQ _ o)) /\
  exists D : qmat RR, meq n n (qmm n (qmm n (qherm (tom (oQ _ o))) (tom A)) (tom (oQ _ o))) (qmadd (tom (oT _ o)) D) /\ normF n n D <= obud _ o.
Lemma start_inv n (A : fmat ROps) : let '(P0, st0) := start ROps n A in
  sim_inv RR n (tom A) (tom P0) (tom (sH _ st0)) /\ MInv n (tom (sH _ st0)) st0.
Proof.
  unfold start. pose proof (hessenbergize_full n (atol12 ROps) A) as H. destruct (hessenbergize_model ROps (atol12 ROps) n A) as [P0 Hm].
  destruct H as [HU [HS [HZ _]]]. cbn [sH sQ].
  assert (HZ' : below_zero RR n (n - 2) (tom Hm)) by (intros i j Hj Hij Hi; apply HZ; [exact Hi|exact Hij]).
  assert (EC : meq n n (tom (fretab n n (clean_hess ROps (atol12 ROps) Hm))) (tom Hm)) by (rewrite tom_retab; now apply clean_hess_exact).
  split.
  - split; [exact HU|]. now rewrite EC.
  - exists (fun _ _ => qzero). cbn [sQ sH sBud]. split.
    + assert (E : meq n n (tom (@feye ROps)) qmid) by (intros i j _ _; apply tom_eye).
      rewrite E. split; [apply unitary_id|]. rewrite (qherm_id RR n), (qmm_id_l RR n n), (qmm_id_r RR n n). intros i j _ _. unfold qmadd. apply qeq; qcomp; rr; lra.
    + rewrite normF_zero. ro. lra.
Qed.
Lemma finish_sound n (A P0 : fmat ROps) (H0 : qmat RR) (r : sres ROps) :
  sim_inv RR n (tom A) (tom P0) H0 -> MInv n H0 (rst _ r) -> schur_sound n A (finish ROps n P0 r).
Proof.
  intros [[P1 P2] HS] [D [[HQ HI] Hb]]. unfold schur_sound, finish. cbn [oQ oT obud].
  assert (EQ : meq n n (tom (fretab n n (fmm n (fherm P0) (sQ _ (rst _ r))))) (qmm n (qherm (tom P0)) (tom (sQ _ (rst _ r))))) by (rewrite tom_retab, tom_mm_meq, tom_herm_meq; reflexivity).
  split.
  - rewrite EQ. apply unitary_mm; [|exact HQ]. split; rewrite (qherm_herm RR n n (tom P0)); assumption.
  - exists D. split; [|exact Hb]. rewrite EQ, <- HI, <- HS.
    set (Qa := tom (sQ _ (rst _ r))). set (P := tom P0). set (Am := tom A).
    rewrite (qherm_mm_meq RR n n n (qherm P) Qa), (qherm_herm RR n n P).
    rewrite (qmm_assoc RR n n n n (qherm Qa) P Am).
    rewrite (qmm_assoc RR n n n n (qherm Qa) (qmm n P Am) (qmm n (qherm P) Qa)).
    rewrite <- (qmm_assoc RR n n n n (qmm n P Am) (qherm P) Qa).
    rewrite <- (qmm_assoc RR n n n n (qherm Qa) (qmm n (qmm n P Am) (qherm P)) Qa). reflexivity.
Qed.
Ltac entry loopinv :=
  match goal with |- schur_sound ?n ?A _ =>
    pose proof (start_inv n A) as Hs; destruct (start ROps n A) as [P0 st0]; destruct Hs as [Hs Hm];
    apply (finish_sound n A P0 _ _ Hs); cbn [rst]; loopinv end.
(* every variant, every tolerance, budget, shift mode, window, recorded schedule / eigvals *)
Theorem schur_pure_sound n tol ray mi A : schur_sound n A (schur_pure ROps n tol ray mi A).
Proof. unfold schur_pure. entry ltac:(now apply pure_loop_inv). Qed.
Theorem schur_implicit_sound n tol ray mi A : schur_sound n A (schur_implicit ROps n tol ray mi A).
Proof. unfold schur_implicit. entry ltac:(now apply implicit_loop_inv). Qed.
Theorem schur_unified_sound n tol aedf ds istart mi schedule eigs A : (1 <= istart)%nat -> schur_sound n A (schur_unified ROps n tol aedf ds istart mi schedule eigs A).
Proof. intros Hi. unfold schur_unified. entry ltac:(now apply unified_loop_inv). Qed.
Theorem schur_exper_sound n tol window ds mi eigs A : (1 <= n)%nat -> schur_sound n A (schur_exper ROps n tol window ds mi eigs A).
Proof. intros Hn. unfold schur_exper. entry ltac:(apply exper_loop_inv; [lia|exact Hm]). Qed.
Theorem schur_givens_sound n tol mode mi eigs A : schur_sound n A (schur_givens ROps n tol mode mi eigs A).
Proof. unfold schur_givens. entry ltac:(apply final_clean_inv; apply giv_loop_inv; [lia|exact Hm]). Qed.
(* the reported flag is truthful: converged = true means the strictly lower triangle is within tol *)
Lemma fmaxf_ge_l (a b : R) : a <= fmaxf ROps a b. Proof. unfold fmaxf. ro. unfold Rleb. destruct (Rle_dec a b); lra. Qed.
Lemma fmaxf_ge_r (a b : R) : b <= fmaxf ROps a b. Proof. unfold fmaxf. ro. unfold Rleb. destruct (Rle_dec a b); lra. Qed.
Lemma fold_max_init {X} (g : X -> R) l m0 : m0 <= fold_left (fun m x => fmaxf ROps m (g x)) l m0.
Proof. revert m0. induction l as [|x t IH]; intros m0; cbn [fold_left]; [lra|]. eapply Rle_trans; [apply (fmaxf_ge_l m0 (g x))|apply IH]. Qed.
Lemma fold_max_elem {X} (g : X -> R) l m0 x : In x l -> g x <= fold_left (fun m x => fmaxf ROps m (g x)) l m0.
Proof.
  revert m0. induction l as [|y t IH]; intros m0 Hin; [destruct Hin|]. cbn [fold_left]. destruct Hin as [->|Hin]; [|now apply IH].
  eapply Rle_trans; [apply (fmaxf_ge_r m0 (g x))|apply fold_max_init].
Qed.
Lemma max_below_ge n (H : fmat ROps) i j : (j < i)%nat -> (i < n)%nat -> fqabs (H i j) <= max_below ROps n H.
Proof.
  intros Hji Hin. unfold max_below.
  assert (G : forall l m0, In i l -> fqabs (H i j) <= fold_left (fun m i => fold_left (fun m' j => fmaxf ROps m' (fqabs (H i j))) (seq 0 i) m) l m0).
  { induction l as [|y t IH]; intros m0 Hl; [destruct Hl|]. cbn [fold_left]. destruct Hl as [->|Hl]; [|now apply IH].
    eapply Rle_trans; [apply (fold_max_elem (fun j => fqabs (H i j)) (seq 0 i) m0 j); apply in_seq; lia|].
    set (m1 := fold_left _ (seq 0 i) m0). clearbody m1. clear. revert m1. induction t as [|z t IH]; intros m1; cbn [fold_left]; [lra|].
    eapply Rle_trans; [apply (fold_max_init (fun j => fqabs (H z j)) (seq 0 z) m1)|apply IH]. }
  apply G. apply in_seq. lia.
Qed.
Definition flag_ok (n : nat) (tol : R) (r : sres ROps) : Prop :=
  rconv _ r = true -> forall i j, (j < i)%nat -> (i < n)%nat -> fqabs (sH _ (rst _ r) i j) <= tol.
Lemma flag_from_max n tol (st : sst ROps) k : flag_ok n tol (mkR ROps st (fleb (max_below ROps n (sH _ st)) tol) k).
Proof. intros Hc i j Hji Hin. cbn [rconv rst] in *. ro in Hc. apply Rleb_true in Hc. eapply Rle_trans; [apply max_below_ge; eassumption|exact Hc]. Qed.
Lemma flag_false n tol (st : sst ROps) k : flag_ok n tol (mkR ROps st false k).
Proof. intros Hc. discriminate. Qed.
Theorem implicit_flag n tol ray fuel : forall k st, flag_ok n tol (implicit_loop ROps n tol ray fuel k st).
Proof.
  induction fuel as [|f IH]; intros k st; cbn [implicit_loop]; [apply flag_false|].
  destruct (defl_pass _ _ _ _ _) as [st2 mx]. destruct (fleb mx tol); [apply flag_from_max|apply IH].
Qed.
Theorem pure_flag n tol ray fuel : forall k st, flag_ok n tol (pure_loop ROps n tol ray fuel k st).
Proof.
  induction fuel as [|f IH]; intros k st; cbn [pure_loop]; [apply flag_false|].
  destruct (defl_pass _ _ _ _ _) as [st2 mx]. destruct (fleb mx tol); [apply flag_from_max|apply IH].
Qed.
Theorem unified_flag n tol aedf ds istart fuel : forall schedule eigs k st, flag_ok n tol (unified_loop ROps n tol aedf ds istart fuel schedule eigs k st).
Proof.
  induction fuel as [|f IH]; intros schedule eigs k st; cbn [unified_loop]; [apply flag_false|].
  destruct (if ds && Nat.leb 2 n then _ else _) as [[sig sch'] eigs']. destruct (aed_pass _ _ _ _ _ _) as [st2 mx].
  destruct (fleb mx tol); [apply flag_from_max|apply IH].
Qed.
Theorem exper_flag n tol window ds fuel : forall eigs k hi st, flag_ok n tol (exper_loop ROps n tol window ds fuel eigs k hi st).
Proof.
  induction fuel as [|f IH]; intros eigs k hi st; cbn [exper_loop]; [apply flag_false|].
  destruct (Nat.leb hi 0); [apply flag_false|].
  destruct (match scan_defl ROps tol (sH _ st) hi with Some _ => _ | None => _ end) as [[st1 hi1] eigs1].
  destruct (_ || _); [apply flag_from_max|apply IH].
Qed.
Theorem giv_flag n tol mode fuel : forall eigs k m prev stag st, flag_ok n tol (giv_loop ROps n tol mode fuel eigs k m prev stag st).
Proof.
  induction fuel as [|f IH]; intros eigs k m prev stag st; cbn [giv_loop]; [apply flag_false|].
  destruct (Nat.leb m 1); [apply flag_false|]. destruct (@fleb ROps _ tol); [apply flag_from_max|].
  destruct (if Nat.leb 50 _ then _ else _) as [mode1 stag2]. destruct (if Nat.leb 20 stag2 && _ then _ else _) as [mode2 stag3].
  destruct (if (Nat.eqb mode2 0 || Nat.eqb mode2 2) && _ then _ else _) as [sig eigs1]. apply IH.
Qed.
(* the final clean-up of quaternion_schur only sets entries to zero *)
Lemma defl_entry n i j (st : sst ROps) a b : (a < n)%nat -> (b < n)%nat ->
  sH _ (defl ROps n i j st) a b = sH _ st a b \/ sH _ (defl ROps n i j st) a b = fq0.
Proof. intros Ha Hb. unfold defl. cbn [sH]. rewrite fretab_in by assumption. destruct (_ && _); [now right|now left]. Qed.
Definition only_zeroed (n : nat) (st st' : sst ROps) : Prop :=
  forall a b, (a < n)%nat -> (b < n)%nat -> sH _ st' a b = sH _ st a b \/ sH _ st' a b = fq0.
Lemma only_zeroed_refl n st : only_zeroed n st st. Proof. intros a b _ _. now left. Qed.
Lemma only_zeroed_defl n i j st st' : only_zeroed n st st' -> only_zeroed n st (defl ROps n i j st').
Proof. intros H a b Ha Hb. destruct (defl_entry n i j st' a b Ha Hb) as [E|E]; [rewrite E; now apply H|now right]. Qed.
Lemma final_clean_only_zeroes n tol st : only_zeroed n st (final_clean ROps n tol st).
Proof.
  unfold final_clean.
  assert (G : forall is st', only_zeroed n st st' ->
    only_zeroed n st (fold_left (fun s' i => fold_left (fun s'' j => if fleb (fqabs (sH _ s'' i j)) tol then defl ROps n i j s'' else s'') (seq 0 i) s') is st')).
  { induction is as [|i t IH]; intros st' Hs; cbn [fold_left]; [exact Hs|]. apply IH.
    generalize (seq 0 i). intros js. revert st' Hs. induction js as [|j u IHj]; intros st' Hs; cbn [fold_left]; [exact Hs|].
    apply IHj. destruct (fleb _ _); [now apply only_zeroed_defl|exact Hs]. }
  apply G, only_zeroed_refl.
Qed.
