(* C10: every Schur variant is a sequence of unitary similarity steps and deflations (entries set to zero).
   Whatever the sequence - any shifts, any deflation decisions, any early exit - Q stays unitary and
   Q^H A Q = T + D where D collects the deflated entries; ||D||_F <= sum of the norms of what was zeroed. *)
From Coq Require Import Reals Lra Arith Lia Bool List Setoid Morphisms Ring.
From QV Require Import CRing Sums Quat Mat QMat CRingR.
From QVT Require Import Reflector Norms.
Import ListNotations.

Section Inv.
Variable C : CRing.
Add Ring Cr5 : (cr_th C).
Notation qmat := (qmat C).
Definition schur_inv (n : nat) (A Qm H D : qmat) : Prop :=
  unitary C n Qm /\ meq n n (qmm n (qmm n (qherm Qm) A) Qm) (qmadd H D).
Global Instance schur_inv_proper n A : Proper (meq n n ==> meq n n ==> meq n n ==> iff) (schur_inv n A).
Proof. intros Q Q' EQ H H' EH D D' ED. unfold schur_inv. now rewrite EQ, EH, ED. Qed.
Lemma qmm_add_dist_l m k n (A B D : qmat) : meq m n (qmm k A (qmadd B D)) (qmadd (qmm k A B) (qmm k A D)).
Proof. apply qmm_add_r. Qed.
(* similarity step  H <- G H G^H,  Q <- Q G^H *)
Theorem schur_sim n (A Qm H D G : qmat) : unitary C n G -> schur_inv n A Qm H D ->
  schur_inv n A (qmm n Qm (qherm G)) (qmm n (qmm n G H) (qherm G)) (qmm n (qmm n G D) (qherm G)).
Proof.
  intros [G1 G2] [HQ HS]. split.
  - apply unitary_mm; [exact HQ|]. split; rewrite (qherm_herm C n n G); assumption.
  - rewrite (qherm_mm_meq C n n n Qm (qherm G)), (qherm_herm C n n G).
    rewrite (qmm_assoc C n n n n G (qherm Qm) A).
    rewrite (qmm_assoc C n n n n G (qmm n (qherm Qm) A) (qmm n Qm (qherm G))).
    rewrite <- (qmm_assoc C n n n n (qmm n (qherm Qm) A) Qm (qherm G)), HS.
    rewrite <- (qmm_assoc C n n n n G (qmadd H D) (qherm G)).
    rewrite (qmm_add_r C n n n G H D), (qmm_add_l C n n n (qmm n G H) (qmm n G D) (qherm G)). reflexivity.
Qed.
(* deflation  H <- H - E  (E = the entries that are set to zero) *)
Theorem schur_defl n (A Qm H D E : qmat) : schur_inv n A Qm H D -> schur_inv n A Qm (qmsub H E) (qmadd D E).
Proof. intros [HQ HS]. split; [exact HQ|]. rewrite HS. intros i j _ _. unfold qmadd, qmsub. qr. Qed.
(* start: Q = P0^H from the Hessenberg reduction P0 A P0^H = H0 *)
Theorem schur_init n (A P0 H0 : qmat) : sim_inv C n A P0 H0 -> schur_inv n A (qherm P0) H0 (fun _ _ => qzero).
Proof.
  intros [[P1 P2] HS]. split.
  - split; rewrite (qherm_herm C n n P0); assumption.
  - rewrite (qherm_herm C n n P0), HS. intros i j _ _. unfold qmadd. qr.
Qed.
(* A = Q (T + D) Q^H *)
Theorem schur_reconstruct n (A Qm H D : qmat) : schur_inv n A Qm H D ->
  meq n n (qmm n (qmm n Qm (qmadd H D)) (qherm Qm)) A.
Proof.
  intros [[Q1 Q2] HS]. rewrite <- HS.
  rewrite <- (qmm_assoc C n n n n Qm (qmm n (qherm Qm) A) Qm).
  rewrite <- (qmm_assoc C n n n n Qm (qherm Qm) A), Q2, (qmm_id_l C n n A).
  rewrite (qmm_assoc C n n n n A Qm (qherm Qm)), Q2. apply (qmm_id_r C).
Qed.
(* the explicit QR step of quaternion_schur_pure:  R = Qi (H - sigma I),  H' = R Qi^H + sigma I  is the
   similarity Qi H Qi^H when sigma is central (a real scalar) and Qi is unitary *)
Theorem explicit_qr_step n (H Qi Sg : qmat) :
  unitary C n Qi -> meq n n (qmm n Qi Sg) (qmm n Sg Qi) ->
  meq n n (qmadd (qmm n (qmm n Qi (qmsub H Sg)) (qherm Qi)) Sg) (qmm n (qmm n Qi H) (qherm Qi)).
Proof.
  intros [Q1 Q2] Hc.
  rewrite (qmm_sub_r C n n n Qi H Sg), (qmm_sub_l C n n n (qmm n Qi H) (qmm n Qi Sg) (qherm Qi)).
  rewrite Hc, (qmm_assoc C n n n n Sg Qi (qherm Qi)), Q2, (qmm_id_r C n n Sg).
  intros i j _ _. unfold qmadd, qmsub. qr.
Qed.
End Inv.

From QVT Require Import CauchySchwarz.
Local Open Scope R_scope.

Add Ring RRr : (cr_th RR).
Ltac qR := apply qeq; qcomp; ring.
Notation qmatR := (qmat RR).
Notation unitaryR := (unitary RR).
Lemma normF_meq m n (A B : qmatR) : meq m n A B -> normF m n A = normF m n B.
Proof. intros E. unfold normF. now rewrite (frob2_meq RR m n A B E). Qed.
Lemma normF_unitary_sim n (G D : qmatR) : unitaryR n G -> normF n n (qmm n (qmm n G D) (qherm G)) = normF n n D.
Proof.
  intros [G1 G2]. unfold normF. f_equal.
  rewrite (frob2_unitary_right RR n n n (qmm n G D) (qherm G)) by (rewrite (qherm_herm RR n n G); exact G1).
  apply frob2_unitary_left. exact G1.
Qed.
Lemma normF_zero n : normF n n (fun _ _ => @qzero RR) = 0.
Proof. unfold normF. replace (frob2 n n (fun _ _ => @qzero RR)) with 0; [apply sqrt_0|].
  unfold frob2. symmetry. induction n as [|k IH] in |- *; [reflexivity|].
  transitivity (@sumR RR (S k) (fun _ => 0)); [apply (sumR_ext RR); intros; transitivity (@sumR RR (S k) (fun _ => 0)); [apply (sumR_ext RR); intros; unfold qnorm2; cbn; ring|apply (sumR_zero RR)]|apply (sumR_zero RR)]. Qed.
(* operations of a Schur iteration *)
Inductive sop : Type := SimOp (G : qmatR) | DeflOp (E : qmatR).
Definition sstate : Type := (qmatR * qmatR * qmatR)%type.      (* Q, T, accumulated defect D *)
Definition sstep (n : nat) (st : sstate) (o : sop) : sstate :=
  let '(Qm, H, D) := st in
  match o with
  | SimOp G => (qmm n Qm (qherm G), qmm n (qmm n G H) (qherm G), qmm n (qmm n G D) (qherm G))
  | DeflOp E => (Qm, qmsub H E, qmadd D E)
  end.
Definition srun (n : nat) (ops : list sop) (st : sstate) : sstate := fold_left (sstep n) ops st.
Fixpoint budget (n : nat) (ops : list sop) : R :=
  match ops with [] => 0 | SimOp _ :: t => budget n t | DeflOp E :: t => normF n n E + budget n t end.
Definition ops_ok (n : nat) (ops : list sop) : Prop := forall G, In (SimOp G) ops -> unitaryR n G.
(* every schedule: Q unitary, Q^H A Q = T + D, ||D||_F <= ||D0||_F + sum of the norms of the deflated entries *)
Theorem any_schedule n (A : qmatR) ops : forall Qm H D, ops_ok n ops -> schur_inv RR n A Qm H D ->
  let '(Q', H', D') := srun n ops (Qm, H, D) in
  schur_inv RR n A Q' H' D' /\ normF n n D' <= normF n n D + budget n ops.
Proof.
  induction ops as [|o ops IH]; intros Qm H D Hok Hinv; cbn [srun fold_left budget].
  - split; [exact Hinv|lra].
  - assert (Hok' : ops_ok n ops) by (intros G HG; apply Hok; now right).
    destruct o as [G|E]; cbn [sstep].
    + assert (HG : unitaryR n G) by (apply Hok; now left).
      specialize (IH _ _ _ Hok' (schur_sim RR n A Qm H D G HG Hinv)). unfold srun in IH.
      destruct (fold_left _ ops _) as [[Q' H'] D']. rewrite (normF_unitary_sim n G D HG) in IH. exact IH.
    + specialize (IH _ _ _ Hok' (schur_defl RR n A Qm H D E Hinv)). unfold srun in IH.
      destruct (fold_left _ ops _) as [[Q' H'] D']. destruct IH as [I1 I2]. split; [exact I1|].
      pose proof (normF_triangle n n D E). lra.
Qed.
(* from the Hessenberg reduction: ||Q T Q^H - A||_F = ||D||_F <= budget *)
Theorem schur_error_bound n (A P0 H0 : qmatR) ops : sim_inv RR n A P0 H0 -> ops_ok n ops ->
  let '(Qm, T, D) := srun n ops (qherm P0, H0, fun _ _ => qzero) in
  unitaryR n Qm /\ meq n n (qmm n (qmm n Qm (qmadd T D)) (qherm Qm)) A /\ normF n n D <= budget n ops.
Proof.
  intros Hs Hok. pose proof (any_schedule n A ops _ _ _ Hok (schur_init RR n A P0 H0 Hs)) as H.
  destruct (srun n ops _) as [[Qm T] D]. destruct H as [Hi Hb]. rewrite normF_zero in Hb.
  split; [exact (proj1 Hi)|]. split; [exact (schur_reconstruct RR n A Qm T D Hi)|lra].
Qed.

Lemma sumRR_ge_term n (f : nat -> R) k : (forall i, 0 <= f i) -> (k < n)%nat -> f k <= @sumR RR n f.
Proof.
  intros Hp Hk. induction n as [|n IH]; [lia|]. cbn [sumR]. rr.
  pose proof (sumRR_nonneg n f Hp). destruct (Nat.eq_dec k n) as [->|Hne]; [lra|].
  pose proof (Hp n). specialize (IH ltac:(lia)). lra.
Qed.
Lemma entry_le_normF m n (A : qmatR) i j : (i < m)%nat -> (j < n)%nat -> qabs (A i j) <= normF m n A.
Proof.
  intros Hi Hj. unfold qabs, normF. apply sqrt_le_1; [apply N_nonneg|apply frob2_nonneg|].
  unfold frob2. eapply Rle_trans; [|apply (sumRR_ge_term m _ i); [intros; apply sumRR_nonneg; intros; apply N_nonneg|exact Hi]].
  apply (sumRR_ge_term n (fun j => N (A i j)) j); [intros; apply N_nonneg|exact Hj].
Qed.
(* reported convergence (strictly lower triangle within tol) on a Hermitian matrix: T is diagonal up to
   tol + 2 ||D||_F and its diagonal is real up to 2 ||D||_F *)
Theorem hermitian_converged_is_nearly_real_diagonal n (A Qm T D : qmatR) tol :
  meq n n (qherm A) A -> schur_inv RR n A Qm T D ->
  (forall i j, (j < i)%nat -> (i < n)%nat -> qabs (T i j) <= tol) ->
  (forall i j, (i < j)%nat -> (j < n)%nat -> qabs (T i j) <= tol + 2 * normF n n D) /\
  (forall i, (i < n)%nat -> qabs (qsub (T i i) (qconj (T i i))) <= 2 * normF n n D).
Proof.
  intros HA [HQ HS] Hlow.
  set (M := qmm n (qmm n (qherm Qm) A) Qm) in *.
  assert (HM : meq n n (qherm M) M).
  { unfold M. rewrite (qherm_mm_meq RR n n n (qmm n (qherm Qm) A) Qm), (qherm_mm_meq RR n n n (qherm Qm) A), (qherm_herm RR n n Qm), HA.
    rewrite (qmm_assoc RR n n n n (qherm Qm) A Qm). reflexivity. }
  assert (E : forall i j, (i < n)%nat -> (j < n)%nat -> T i j = qadd (qconj (T j i)) (qsub (qconj (D j i)) (D i j))).
  { intros i j Hi Hj. pose proof (HS i j Hi Hj) as E1. pose proof (HS j i Hj Hi) as E2. pose proof (HM i j Hi Hj) as E3.
    unfold qherm in E3. rewrite E1, E2 in E3. unfold qmadd in E3.
    apply (f_equal (fun q => qsub q (D i j))) in E3.
    transitivity (qsub (qadd (T i j) (D i j)) (D i j)); [qR|]. rewrite <- E3. qR. }
  assert (B : forall i j, (i < n)%nat -> (j < n)%nat -> qabs (qsub (qconj (D j i)) (D i j)) <= 2 * normF n n D).
  { intros i j Hi Hj. replace (qsub (qconj (D j i)) (D i j)) with (qadd (qconj (D j i)) (qopp (D i j))) by (qR).
    eapply Rle_trans; [apply qabs_triangle|]. rewrite qabs_conj.
    replace (qabs (qopp (D i j))) with (qabs (D i j)) by (unfold qabs; f_equal; unfold N, qnorm2; cbn [qopp qw qx qy qz]; rr; ring).
    pose proof (entry_le_normF n n D j i Hj Hi). pose proof (entry_le_normF n n D i j Hi Hj). lra. }
  split.
  - intros i j Hij Hj. assert (Hi : (i < n)%nat) by lia. rewrite (E i j Hi Hj).
    eapply Rle_trans; [apply qabs_triangle|]. rewrite qabs_conj. pose proof (Hlow j i Hij Hj). pose proof (B i j Hi Hj). lra.
  - intros i Hi. rewrite (E i i Hi Hi) at 1.
    replace (qsub (qadd (qconj (T i i)) (qsub (qconj (D i i)) (D i i))) (qconj (T i i))) with (qsub (qconj (D i i)) (D i i)) by (qR).
    apply B; assumption.
Qed.
