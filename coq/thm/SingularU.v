(* C07: why a zero pivot is reported and not answered.  An upper-triangular quaternion matrix with a zero on its diagonal has a
   non-trivial right null vector (elimination on the leading k x (k+1) block, thm/Kernel.v); hence if  A(IP i, .) = (L U)(i, .)  for a
   permutation IP and U has a zero diagonal entry, then A itself annihilates a non-zero vector: A is singular, whatever L is. *)
From Coq Require Import Reals Lra Arith Lia List.
From QV Require Import CRing CRingR Sums Quat Mat QMat.
From QVT Require Import CauchySchwarz Reflector Arnoldi Kernel.
Import ListNotations.
Add Ring RRsu : (cr_th RR).

Notation qM := (qmat RR).

Theorem zero_diagonal_gives_null_vector : forall n (U : qM) k,
  (forall i j, (i < n)%nat -> (j < i)%nat -> U i j = qzero) -> (k < n)%nat -> U k k = qzero ->
  exists z : nat -> qR, (exists j, (j < n)%nat /\ z j <> qzero) /\
    forall r, (r < n)%nat -> sumQ n (fun j => qmul (U r j) (z j)) = qzero.
Proof.
  intros n U k Hup Hk Hz.
  destruct (kernel_vector k U) as [z' [[j0 [Hj0 Hn0]] Hrows]].
  exists (fun j => if Nat.ltb j (S k) then z' j else qzero). split.
  - exists j0. split; [lia|]. destruct (Nat.ltb_spec j0 (S k)); [exact Hn0|lia].
  - intros r Hr.
    rewrite (sumQ_extend_zero RR (S k) n); [|lia|intros i Hi _; cbv beta; destruct (Nat.ltb_spec i (S k)); [lia|qr]].
    destruct (Nat.lt_ge_cases r k) as [Hlt|Hge].
    + rewrite <- (Hrows r Hlt). apply (sumQ_ext RR). intros j Hj. destruct (Nat.ltb_spec j (S k)); [reflexivity|lia].
    + apply (sumQ_zero_ext RR). intros j Hj.
      assert (E : U r j = qzero).
      { destruct (Nat.eq_dec j r) as [->|NE]; [assert (r = k) by lia; subst; exact Hz|apply Hup; lia]. }
      rewrite E. qr.
Qed.

(* an injective map of {0..n-1} into itself hits every index *)
Lemma NoDup_map_inj_on (f : nat -> nat) (l : list nat) :
  NoDup l -> (forall x y, In x l -> In y l -> f x = f y -> x = y) -> NoDup (map f l).
Proof.
  induction 1 as [|a l Ha Hl IH]; intros Hinj; cbn [map]; constructor.
  - intros Hin. apply in_map_iff in Hin. destruct Hin as [x [E Hx]].
    assert (x = a) by (apply Hinj; [right; exact Hx|left; reflexivity|exact E]). subst. contradiction.
  - apply IH. intros x y Hx Hy. apply Hinj; right; assumption.
Qed.
Lemma perm_surjective n (IP : nat -> nat) :
  (forall i, (i < n)%nat -> (IP i < n)%nat) -> (forall i i', (i < n)%nat -> (i' < n)%nat -> IP i = IP i' -> i = i') ->
  forall r, (r < n)%nat -> exists i, (i < n)%nat /\ IP i = r.
Proof.
  intros Hr Hi r Hlt.
  assert (ND : NoDup (map IP (seq 0 n))).
  { apply NoDup_map_inj_on; [apply seq_NoDup|]. intros x y Hx Hy. apply in_seq in Hx, Hy. apply Hi; lia. }
  assert (IN : incl (map IP (seq 0 n)) (seq 0 n)).
  { intros y Hy. apply in_map_iff in Hy. destruct Hy as [x [<- Hx]]. apply in_seq in Hx. apply in_seq. specialize (Hr x). lia. }
  assert (LE : (length (seq 0 n) <= length (map IP (seq 0 n)))%nat) by (rewrite map_length; lia).
  pose proof (NoDup_length_incl ND LE IN) as Hincl.
  assert (Hin : In r (map IP (seq 0 n))) by (apply Hincl, in_seq; lia).
  apply in_map_iff in Hin. destruct Hin as [i [E Hi']]. apply in_seq in Hi'. exists i. split; [lia|exact E].
Qed.

Theorem zero_pivot_means_singular : forall n (A L U : qM) (IP : nat -> nat) k,
  (forall i, (i < n)%nat -> (IP i < n)%nat) -> (forall i i', (i < n)%nat -> (i' < n)%nat -> IP i = IP i' -> i = i') ->
  (forall i c, (i < n)%nat -> (c < n)%nat -> A (IP i) c = qmm n L U i c) ->
  (forall i j, (i < n)%nat -> (j < i)%nat -> U i j = qzero) -> (k < n)%nat -> U k k = qzero ->
  exists z : nat -> qR, (exists j, (j < n)%nat /\ z j <> qzero) /\
    forall r, (r < n)%nat -> sumQ n (fun c => qmul (A r c) (z c)) = qzero.
Proof.
  intros n A L U IP k Hr Hi HA Hup Hk Hz.
  destruct (zero_diagonal_gives_null_vector n U k Hup Hk Hz) as [z [Hnz HU]].
  exists z. split; [exact Hnz|]. intros r Hlt.
  destruct (perm_surjective n IP Hr Hi r Hlt) as [i [Hil <-]].
  rewrite (sumQ_ext RR n _ (fun c => sumQ n (fun l => qmul (L i l) (qmul (U l c) (z c))))).
  - rewrite (sumQ_swap RR).
    apply (sumQ_zero_ext RR). intros l Hl.
    rewrite <- (sumQ_mul_l RR). rewrite (HU l Hl). qr.
  - intros c Hc. rewrite (HA i c Hil Hc). unfold qmm. rewrite (sumQ_mul_r RR). apply (sumQ_ext RR). intros l _. qr.
Qed.
