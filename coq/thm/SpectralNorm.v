(* C15: the largest singular value IS the operator 2-norm.  For A = U diag(s) V^H with U^H U = I_r, V^H V = I_r and
   0 <= s_k <= s_0: ||A X||_F <= s_0 ||X||_F for every X (so s_0 is an operator bound in the sense of Norms.op_bound), the bound
   is attained on the first right singular vector, hence s_0 is the LEAST operator bound.  With the closure properties of
   op_bound this gives the norm axioms of the spectral norm (triangle inequality, sub-multiplicativity, homogeneity). *)
From Coq Require Import Reals Lra Psatz Arith Lia.
From QV Require Import CRing CRingR Sums Quat Mat QMat.
From QVT Require Import CauchySchwarz Norms Proj EckartYoung.
Local Open Scope R_scope.

Section SN.
Variables (m n r : nat) (U V : qmat RR) (s : nat -> R).
Hypothesis Hr : (0 < r)%nat.
Hypothesis HU : meq r r (qmm m (qherm U) U) qmid.
Hypothesis HV : meq r r (qmm n (qherm V) V) qmid.
Hypothesis Hs0 : forall k, (k < r)%nat -> 0 <= s k.
Hypothesis Htop : forall k, (k < r)%nat -> s k <= s 0%nat.
Let A := @usv RR r U s V.

Lemma AX_split p (X : qmat RR) : frob2 m p (qmm n A X) = frob2 r p (qmm r (@rdiag RR s) (qmm n (qherm V) X)).
Proof.
  assert (E : meq m p (qmm n A X) (qmm r U (qmm r (@rdiag RR s) (qmm n (qherm V) X)))).
  { unfold A, usv.
    rewrite (qmm_assoc RR m r n p (qmm r U (@rdiag RR s)) (qherm V) X).
    rewrite (qmm_assoc RR m r r p U (@rdiag RR s) (qmm n (qherm V) X)). reflexivity. }
  rewrite (frob2_meq RR m p _ _ E). apply (frob2_unitary_left RR m r p U _ HU).
Qed.
Lemma frob2_DY p (Y : qmat RR) :
  frob2 r p (qmm r (@rdiag RR s) Y) = @sumR RR r (fun k => (s k * s k) * @sumR RR p (fun j => N (Y k j))).
Proof.
  unfold rdiag. rewrite (frob2_meq RR r p _ _ (qmm_diag_l RR r p (fun l => @qreal RR (s l)) Y)).
  unfold frob2. apply (sumR_ext RR). intros k Hk.
  etransitivity; [|exact (sumR_mul_l RR p (s k * s k) (fun j => N (Y k j)))]. apply (sumR_ext RR). intros j Hj.
  change (qnorm2 (qmul (@qreal RR (s k)) (Y k j))) with (N (qmul (@qreal RR (s k)) (Y k j))).
  rewrite N_mul. unfold N at 1, qnorm2, qreal. cbn [qw qx qy qz]. rr. ring.
Qed.
Lemma frob2_VhX_le p (X : qmat RR) : frob2 r p (qmm n (qherm V) X) <= frob2 n p X.
Proof.
  pose proof (projection_pythagoras RR n r p X V HV) as P. cbv zeta in P. rr in P.
  pose proof (frob2_nonneg n p (qmsub X (qmm r V (qmm n (qherm V) X)))). lra.
Qed.

Theorem largest_value_bounds_square p (X : qmat RR) : frob2 m p (qmm n A X) <= (s 0%nat * s 0%nat) * frob2 n p X.
Proof.
  rewrite AX_split, frob2_DY.
  eapply Rle_trans; [|apply Rmult_le_compat_l; [nra|apply (frob2_VhX_le p X)]].
  unfold frob2 at 1.
  pose proof (sumR_mul_l RR r (s 0%nat * s 0%nat) (fun k => @sumR RR p (fun j => qnorm2 (qmm n (qherm V) X k j)))) as E. rr in E.
  rewrite <- E. apply sumRR_le. intros k Hk.
  assert (0 <= @sumR RR p (fun j => N (qmm n (qherm V) X k j))) by (apply sumRR_nonneg; intros; apply N_nonneg).
  assert (s k * s k <= s 0%nat * s 0%nat) by (specialize (Hs0 k Hk); specialize (Htop k Hk); nra).
  unfold N in *. nra.
Qed.

Theorem largest_value_is_op_bound : op_bound m n A (s 0%nat).
Proof.
  split; [apply Hs0; exact Hr|]. intros p X. unfold normF.
  assert (H0 : 0 <= s 0%nat) by (apply Hs0; exact Hr).
  replace (s 0%nat * sqrt (frob2 n p X)) with (sqrt ((s 0%nat * s 0%nat) * frob2 n p X)).
  - apply sqrt_le_1; [apply frob2_nonneg| |apply largest_value_bounds_square].
    apply Rmult_le_pos; [nra|apply frob2_nonneg].
  - rewrite sqrt_mult; [|nra|apply frob2_nonneg]. rewrite sqrt_square by exact H0. reflexivity.
Qed.

(* attained on the first right singular vector *)
Let v0 : qmat RR := fun i _ => V i 0%nat.
Lemma v0_unit : frob2 n 1 v0 = 1.
Proof.
  rewrite (frob2_gram RR). unfold retr. cbn [sumR]. rr.
  assert (E : qmm n (qherm v0) v0 0%nat 0%nat = qmm n (qherm V) V 0%nat 0%nat) by reflexivity.
  rewrite E, (HV 0%nat 0%nat Hr Hr). unfold qmid, qre, qone. cbn [Nat.eqb qw]. rr. ring.
Qed.
Lemma Av0_value : frob2 m 1 (qmm n A v0) = s 0%nat * s 0%nat.
Proof.
  rewrite AX_split, frob2_DY.
  assert (D : forall k, (k < r)%nat -> @sumR RR 1 (fun j => N (qmm n (qherm V) v0 k j)) = if Nat.eqb k 0 then 1 else 0).
  { intros k Hk. cbn [sumR]. rr.
    assert (E : qmm n (qherm V) v0 k 0%nat = qmm n (qherm V) V k 0%nat) by reflexivity.
    rewrite E, (HV k 0%nat Hk Hr). unfold qmid. destruct (Nat.eqb k 0); unfold N, qnorm2, qone, qzero; cbn [qw qx qy qz]; rr; ring. }
  rewrite (sumR_ext RR r _ (fun k => if Nat.eqb k 0 then s 0%nat * s 0%nat else 0)).
  - exact (sumR_delta RR r 0%nat (fun _ => s 0%nat * s 0%nat) Hr).
  - intros k Hk. rewrite (D k Hk). destruct (Nat.eqb_spec k 0) as [->|]; rr; ring.
Qed.

Theorem largest_value_is_least_bound M : op_bound m n A M -> s 0%nat <= M.
Proof.
  intros [HM HB]. specialize (HB 1%nat v0). unfold normF in HB. rewrite Av0_value, v0_unit, sqrt_1 in HB.
  rewrite sqrt_square in HB by (apply Hs0; exact Hr). lra.
Qed.
End SN.

(* consequences: the norm axioms for the largest singular value, for matrices given with their decompositions *)
Section NormLaws.
Variables (m k n ra rb rc : nat).
Variables (Ua Va Ub Vb Uc Vc : qmat RR) (sa sb sc : nat -> R).
Hypothesis Hra : (0 < ra)%nat. Hypothesis Hrb : (0 < rb)%nat. Hypothesis Hrc : (0 < rc)%nat.
Hypothesis HsA : forall j, (j < ra)%nat -> 0 <= sa j <= sa 0%nat.
Hypothesis HsB : forall j, (j < rb)%nat -> 0 <= sb j <= sb 0%nat.
Hypothesis HsC : forall j, (j < rc)%nat -> 0 <= sc j <= sc 0%nat.

(* C = A + B (all m x n) *)
Theorem spectral_triangle :
  meq ra ra (qmm m (qherm Ua) Ua) qmid -> meq ra ra (qmm n (qherm Va) Va) qmid ->
  meq rb rb (qmm m (qherm Ub) Ub) qmid -> meq rb rb (qmm n (qherm Vb) Vb) qmid ->
  meq rc rc (qmm m (qherm Uc) Uc) qmid -> meq rc rc (qmm n (qherm Vc) Vc) qmid ->
  meq m n (@usv RR rc Uc sc Vc) (qmadd (@usv RR ra Ua sa Va) (@usv RR rb Ub sb Vb)) ->
  sc 0%nat <= sa 0%nat + sb 0%nat.
Proof.
  intros HUa HVa HUb HVb HUc HVc E.
  apply (largest_value_is_least_bound m n rc Uc Vc sc Hrc HUc HVc (fun j Hj => proj1 (HsC j Hj))).
  pose proof (largest_value_is_op_bound m n ra Ua Va sa Hra HUa HVa (fun j Hj => proj1 (HsA j Hj)) (fun j Hj => proj2 (HsA j Hj))) as BA.
  pose proof (largest_value_is_op_bound m n rb Ub Vb sb Hrb HUb HVb (fun j Hj => proj1 (HsB j Hj)) (fun j Hj => proj2 (HsB j Hj))) as BB.
  pose proof (op_bound_triangle m n _ _ _ _ BA BB) as [H0 HB].
  split; [exact H0|]. intros p X.
  assert (E2 : meq m p (qmm n (@usv RR rc Uc sc Vc) X) (qmm n (qmadd (@usv RR ra Ua sa Va) (@usv RR rb Ub sb Vb)) X)) by (rewrite E; reflexivity).
  rewrite (normF_meq m p _ _ E2). apply HB.
Qed.
(* C = A B (A m x k, B k x n) *)
Theorem spectral_submultiplicative :
  meq ra ra (qmm m (qherm Ua) Ua) qmid -> meq ra ra (qmm k (qherm Va) Va) qmid ->
  meq rb rb (qmm k (qherm Ub) Ub) qmid -> meq rb rb (qmm n (qherm Vb) Vb) qmid ->
  meq rc rc (qmm m (qherm Uc) Uc) qmid -> meq rc rc (qmm n (qherm Vc) Vc) qmid ->
  meq m n (@usv RR rc Uc sc Vc) (qmm k (@usv RR ra Ua sa Va) (@usv RR rb Ub sb Vb)) ->
  sc 0%nat <= sa 0%nat * sb 0%nat.
Proof.
  intros HUa HVa HUb HVb HUc HVc E.
  apply (largest_value_is_least_bound m n rc Uc Vc sc Hrc HUc HVc (fun j Hj => proj1 (HsC j Hj))).
  pose proof (largest_value_is_op_bound m k ra Ua Va sa Hra HUa HVa (fun j Hj => proj1 (HsA j Hj)) (fun j Hj => proj2 (HsA j Hj))) as BA.
  pose proof (largest_value_is_op_bound k n rb Ub Vb sb Hrb HUb HVb (fun j Hj => proj1 (HsB j Hj)) (fun j Hj => proj2 (HsB j Hj))) as BB.
  pose proof (op_bound_submultiplicative m k n _ _ _ _ BA BB) as [H0 HB].
  split; [exact H0|]. intros p X.
  assert (E2 : meq m p (qmm n (@usv RR rc Uc sc Vc) X) (qmm n (qmm k (@usv RR ra Ua sa Va) (@usv RR rb Ub sb Vb)) X)) by (rewrite E; reflexivity).
  rewrite (normF_meq m p _ _ E2). apply HB.
Qed.
End NormLaws.

(* the classical comparisons, for the largest singular value itself *)
Section Compare.
Variables (m n r : nat) (U V : qmat RR) (s : nat -> R).
Hypothesis Hr : (0 < r)%nat.
Hypothesis HU : meq r r (qmm m (qherm U) U) qmid.
Hypothesis HV : meq r r (qmm n (qherm V) V) qmid.
Hypothesis Hs0 : forall k, (k < r)%nat -> 0 <= s k.
Hypothesis Htop : forall k, (k < r)%nat -> s k <= s 0%nat.
Let A := @usv RR r U s V.

Lemma frob2_col p (M : qmat RR) : frob2 p 1 M = vnorm2 p (fun i => M i 0%nat).
Proof. unfold frob2, vnorm2. apply (sumR_ext RR). intros i Hi. cbn [sumR]. rr. unfold N. ring. Qed.

(* sigma_max^2 <= ||A||_1 ||A||_inf *)
Theorem top_value_sq_le_norm1_norminf : s 0%nat * s 0%nat <= norminf m n A * norm1 m n A.
Proof.
  pose proof (schur_test m n A (fun i => V i 0%nat)) as T.
  assert (E1 : vnorm2 m (matvec n A (fun i => V i 0%nat)) = s 0%nat * s 0%nat).
  { rewrite <- (Av0_value m n r U V s Hr HU HV). rewrite frob2_col. reflexivity. }
  assert (E2 : vnorm2 n (fun i => V i 0%nat) = 1).
  { rewrite <- (v0_unit n r V Hr HV). rewrite frob2_col. reflexivity. }
  rewrite E1, E2 in T. lra.
Qed.
(* sigma_max <= ||A||_F  and  ||A||_F^2 <= r sigma_max^2 *)
Theorem top_value_le_frobenius : s 0%nat <= normF m n A.
Proof. apply (largest_value_is_least_bound m n r U V s Hr HU HV Hs0). apply op_bound_frobenius. Qed.
Theorem frobenius_sq_le_r_top_value_sq : frob2 m n A <= @sumR RR r (fun _ => 1) * (s 0%nat * s 0%nat).
Proof.
  unfold A. rewrite (frob2_usv RR m n r U V s HU HV).
  pose proof (sumR_mul_r RR r (s 0%nat * s 0%nat) (fun _ => 1)) as X. rr in X. rewrite <- X.
  apply sumRR_le. intros k Hk. specialize (Hs0 k Hk). specialize (Htop k Hk). rr.
  assert (s k * s k <= s 0%nat * s 0%nat) by (apply Rmult_le_compat; lra). lra.
Qed.
End Compare.
