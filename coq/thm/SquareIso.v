(* Square quaternion matrices: injective implies surjective, and a square matrix with orthonormal columns is unitary (V^H V = I implies V V^H = I).
   Both from the kernel-vector lemma: n + 1 vectors in dimension n are (right-)linearly dependent. *)
From Coq Require Import Reals Lra Psatz Arith Lia.
From QV Require Import CRing CRingR Sums Quat Mat QMat.
From QVT Require Import CauchySchwarz Kernel.
Local Open Scope R_scope.
Add Ring RRs : (cr_th RR).

Definition zcol : qmat RR := fun _ _ => qzero.

Theorem square_injective_is_surjective n (M : qmat RR) :
  (forall z : qmat RR, meq n 1 (qmm n M z) zcol -> meq n 1 z zcol) ->
  forall b : qmat RR, exists x : qmat RR, meq n 1 (qmm n M x) b.
Proof.
  intros Hinj b.
  destruct (kernel_vector n (fun r j => if Nat.ltb j n then M r j else b r 0%nat)) as [c [[j0 [Hj0 Hc0]] Hrows]].
  set (beta := c n).
  assert (Hsplit : forall r, (r < n)%nat -> qadd (sumQ n (fun j => qmul (M r j) (c j))) (qmul (b r 0%nat) beta) = qzero).
  { intros r Hr. rewrite <- (Hrows r Hr). cbn [sumQ]. destruct (Nat.ltb_spec n n); [lia|]. f_equal.
    apply (sumQ_ext RR). intros j Hj. destruct (Nat.ltb_spec j n); [reflexivity|lia]. }
  destruct (quat_eq_dec beta qzero) as [B0|Bn].
  - (* beta = 0 contradicts injectivity *)
    exfalso.
    assert (Z : meq n 1 (qmm n M (fun j _ => c j)) zcol).
    { intros r k Hr Hk. unfold qmm, zcol. specialize (Hsplit r Hr). rewrite B0 in Hsplit.
      transitivity (qadd (sumQ n (fun j => qmul (M r j) (c j))) (qmul (b r 0%nat) qzero)); [qr|exact Hsplit]. }
    pose proof (Hinj _ Z) as Zc.
    destruct (Nat.eq_dec j0 n) as [->|NE]; [apply Hc0; exact B0|].
    apply Hc0. exact (Zc j0 0%nat ltac:(lia) ltac:(lia)).
  - exists (fun j _ => qopp (qmul (c j) (qinv beta))).
    intros r k Hr Hk. assert (k = 0)%nat by lia. subst k. unfold qmm.
    assert (E : sumQ n (fun j => qmul (M r j) (qopp (qmul (c j) (qinv beta)))) = qopp (qmul (sumQ n (fun j => qmul (M r j) (c j))) (qinv beta))).
    { rewrite (sumQ_mul_r RR). induction n as [|n' IH]; [cbn [sumQ]; qr|].
      clear IH. assert (G : forall t (f g : nat -> quat RR), (forall j, f j = qopp (g j)) -> sumQ t f = qopp (sumQ t g)).
      { intros t f g Hfg. induction t as [|t IHt]; cbn [sumQ]; [qr|]. rewrite IHt, Hfg. qr. }
      apply G. intros j. qr. }
    rewrite E. specialize (Hsplit r Hr).
    assert (S1 : sumQ n (fun j => qmul (M r j) (c j)) = qopp (qmul (b r 0%nat) beta)).
    { apply qeq; assert (Ew := f_equal qw Hsplit); assert (Ex := f_equal qx Hsplit); assert (Ey := f_equal qy Hsplit); assert (Ez := f_equal qz Hsplit);
        cbn [qadd qopp qzero qw qx qy qz] in *; cbn [car c0 cadd copp RR] in *; lra. }
    rewrite S1. pose proof (qinv_r beta Bn) as Hi.
    transitivity (qmul (b r 0%nat) (qmul beta (qinv beta))); [qr|]. rewrite Hi. qr.
Qed.

Theorem orthonormal_square_is_unitary n (V : qmat RR) : meq n n (qmm n (qherm V) V) qmid -> meq n n (qmm n V (qherm V)) qmid.
Proof.
  intros HV.
  assert (Hinj : forall z : qmat RR, meq n 1 (qmm n V z) zcol -> meq n 1 z zcol).
  { intros z Hz. rewrite <- (qmm_id_l RR n 1 z), <- HV, (qmm_assoc RR n n n 1 (qherm V) V z), Hz.
    intros i j _ _. unfold qmm, zcol. rewrite (sumQ_ext RR n _ (fun _ => qzero)); [apply (sumQ_zero RR)|intros; qr]. }
  intros i k Hi Hk.
  destruct (square_injective_is_surjective n V Hinj (fun r _ => qmid r k)) as [x Hx].
  (* (V V^H) e_k = V V^H V x = V x = e_k *)
  assert (E : meq n 1 (qmm n (qmm n V (qherm V)) (fun r _ => qmid r k)) (fun r _ => qmid r k)).
  { rewrite <- Hx at 1. rewrite (qmm_assoc RR n n n 1 V (qherm V) (qmm n V x)).
    rewrite <- (qmm_assoc RR n n n 1 (qherm V) V x), HV, (qmm_id_l RR n 1 x). exact Hx. }
  specialize (E i 0%nat Hi ltac:(lia)). cbv beta in E. rewrite <- E. symmetry.
  unfold qmm at 1. unfold qmid.
  rewrite (sumQ_delta_r RR n (fun l => qmm n V (qherm V) i l) (fun _ => qone) k Hk). qr.
Qed.

(* a left inverse of a square quaternion matrix is a right inverse *)
Theorem left_inverse_is_right_inverse n (A Ainv : qmat RR) : meq n n (qmm n Ainv A) qmid -> meq n n (qmm n A Ainv) qmid.
Proof.
  intros HA.
  assert (Hinj : forall z : qmat RR, meq n 1 (qmm n A z) zcol -> meq n 1 z zcol).
  { intros z Hz. rewrite <- (qmm_id_l RR n 1 z), <- HA, (qmm_assoc RR n n n 1 Ainv A z), Hz.
    intros i j _ _. unfold qmm, zcol. rewrite (sumQ_ext RR n _ (fun _ => qzero)); [apply (sumQ_zero RR)|intros; qr]. }
  intros i k Hi Hk.
  destruct (square_injective_is_surjective n A Hinj (fun r _ => qmid r k)) as [x Hx].
  assert (E : meq n 1 (qmm n (qmm n A Ainv) (fun r _ => qmid r k)) (fun r _ => qmid r k)).
  { rewrite <- Hx at 1. rewrite (qmm_assoc RR n n n 1 A Ainv (qmm n A x)).
    rewrite <- (qmm_assoc RR n n n 1 Ainv A x), HA, (qmm_id_l RR n 1 x). exact Hx. }
  specialize (E i 0%nat Hi ltac:(lia)). cbv beta in E. rewrite <- E. symmetry.
  unfold qmm at 1. unfold qmid.
  rewrite (sumQ_delta_r RR n (fun l => qmm n A Ainv i l) (fun _ => qone) k Hk). qr.
Qed.
