(* Tikhonov restoration (QSLST): the transpose of periodic convolution, the frequency-domain filter
   conj(H) B / (|H|^2 + lambda) under the contract of a discrete Fourier transform, and the matrix form. *)
From Coq Require Import Arith Lia Ring Bool.
From QV Require Import CRing Sums Quat Mat.
From QVT Require Import Conv.
Local Open Scope cr_scope.

Lemma mod_add_sub u a H : (u < H)%nat -> (a < H)%nat -> (((u + a) mod H + H - a) mod H = u)%nat.
Proof.
  intros Hu Ha. rewrite (modH_add u a H Hu ltac:(lia)). destruct (Nat.ltb_spec (u + a) H).
  - replace (u + a + H - a)%nat with (u + 1 * H)%nat by lia. rewrite Nat.mod_add by lia. now apply Nat.mod_small.
  - replace (u + a - H + H - a)%nat with u by lia. now apply Nat.mod_small.
Qed.

Section T.
Variable K : CRing.
Add Ring Kr : (cr_th K).
Notation rmat := (rmat K).

(* equality on the H x W window *)
Definition weq (H W : nat) (x y : rmat) : Prop := forall i j, (i < H)%nat -> (j < W)%nat -> x i j = y i j.
Lemma weq_refl H W x : weq H W x x. Proof. intros i j _ _. reflexivity. Qed.
Lemma weq_sym H W x y : weq H W x y -> weq H W y x. Proof. intros E i j Hi Hj. symmetry. now apply E. Qed.
Lemma weq_trans H W x y z : weq H W x y -> weq H W y z -> weq H W x z.
Proof. intros E1 E2 i j Hi Hj. rewrite E1 by assumption. now apply E2. Qed.

(* correlation with the kernel: the transpose of cconv H W h *)
Definition ccorr (H W : nat) (h y : rmat) : rmat := fun i j =>
  sumR H (fun a => sumR W (fun b => h a b * y ((i + a) mod H)%nat ((j + b) mod W)%nat)).

Lemma cconv_weq H W h x y : weq H W x y -> weq H W (cconv H W h x) (cconv H W h y).
Proof. intros E i j Hi Hj. unfold cconv. apply sumR_ext; intros a Ha. apply sumR_ext; intros b Hb.
  rewrite E; [reflexivity| apply Nat.mod_upper_bound; lia | apply Nat.mod_upper_bound; lia]. Qed.
Lemma ccorr_weq H W h x y : weq H W x y -> weq H W (ccorr H W h x) (ccorr H W h y).
Proof. intros E i j Hi Hj. unfold ccorr. apply sumR_ext; intros a Ha. apply sumR_ext; intros b Hb.
  rewrite E; [reflexivity| apply Nat.mod_upper_bound; lia | apply Nat.mod_upper_bound; lia]. Qed.
Lemma cconv_weq_h H W h h' x : weq H W h h' -> weq H W (cconv H W h x) (cconv H W h' x).
Proof. intros E i j Hi Hj. unfold cconv. apply sumR_ext; intros a Ha. apply sumR_ext; intros b Hb. now rewrite E. Qed.
Lemma ccorr_weq_h H W h h' x : weq H W h h' -> weq H W (ccorr H W h x) (ccorr H W h' x).
Proof. intros E i j Hi Hj. unfold ccorr. apply sumR_ext; intros a Ha. apply sumR_ext; intros b Hb. now rewrite E. Qed.

Definition dot2 (H W : nat) (x y : rmat) : K := sumR H (fun i => sumR W (fun j => x i j * y i j)).

(* <y, h * x> = <h (corr) y, x> : correlation is the transpose of convolution *)
Theorem ccorr_is_transpose H W h x y : dot2 H W y (cconv H W h x) = dot2 H W (ccorr H W h y) x.
Proof.
  unfold dot2, cconv, ccorr.
  transitivity (sumR H (fun a => sumR W (fun b => sumR H (fun i => sumR W (fun j =>
      h a b * (y i j * x ((i + H - a) mod H)%nat ((j + W - b) mod W)%nat)))))).
  { transitivity (sumR H (fun i => sumR H (fun a => sumR W (fun j => sumR W (fun b =>
        h a b * (y i j * x ((i + H - a) mod H)%nat ((j + W - b) mod W)%nat)))))).
    - apply sumR_ext; intros i _.
      transitivity (sumR W (fun j => sumR H (fun a => sumR W (fun b => h a b * (y i j * x ((i + H - a) mod H)%nat ((j + W - b) mod W)%nat))))).
      + apply sumR_ext; intros j _. rewrite <- sumR_mul_l. apply sumR_ext; intros a _. rewrite <- sumR_mul_l. apply sumR_ext; intros b _. ring.
      + rewrite sumR_swap. apply sumR_ext; intros a _. reflexivity.
    - rewrite sumR_swap. apply sumR_ext; intros a _.
      transitivity (sumR H (fun i => sumR W (fun b => sumR W (fun j =>
         h a b * (y i j * x ((i + H - a) mod H)%nat ((j + W - b) mod W)%nat))))).
      + apply sumR_ext; intros i _. apply sumR_swap.
      + apply sumR_swap. }
  transitivity (sumR H (fun a => sumR W (fun b => sumR H (fun i => sumR W (fun j =>
      h a b * (y ((i + a) mod H)%nat ((j + b) mod W)%nat * x i j)))))).
  { apply sumR_ext; intros a Ha. apply sumR_ext; intros b Hb.
    rewrite <- (sumR_rot K H a (fun i => sumR W (fun j => h a b * (y i j * x ((i + H - a) mod H)%nat ((j + W - b) mod W)%nat)))) by lia.
    apply sumR_ext; intros i Hi. cbn beta. rewrite (mod_add_sub i a H Hi Ha).
    rewrite <- (sumR_rot K W b (fun j => h a b * (y ((i + a) mod H)%nat j * x i ((j + W - b) mod W)%nat))) by lia.
    apply sumR_ext; intros j Hj. cbn beta. rewrite (mod_add_sub j b W Hj Hb). reflexivity. }
  symmetry.
  transitivity (sumR H (fun i => sumR H (fun a => sumR W (fun j => sumR W (fun b =>
      h a b * (y ((i + a) mod H)%nat ((j + b) mod W)%nat * x i j)))))).
  - apply sumR_ext; intros i _.
    transitivity (sumR W (fun j => sumR H (fun a => sumR W (fun b => h a b * (y ((i + a) mod H)%nat ((j + b) mod W)%nat * x i j))))).
    + apply sumR_ext; intros j _. rewrite <- sumR_mul_r. apply sumR_ext; intros a _. rewrite <- sumR_mul_r. apply sumR_ext; intros b _. ring.
    + rewrite sumR_swap. apply sumR_ext; intros a _. reflexivity.
  - rewrite sumR_swap. apply sumR_ext; intros a _.
    transitivity (sumR H (fun i => sumR W (fun b => sumR W (fun j =>
       h a b * (y ((i + a) mod H)%nat ((j + b) mod W)%nat * x i j))))).
    + apply sumR_ext; intros i _. apply sumR_swap.
    + apply sumR_swap.
Qed.

(* ------------------------------------------------------------------------------------------------
   The frequency-domain filter.  K plays the role of the complex numbers; F / Fi are fft2 / ifft2 on
   H x W arrays.  Everything NumPy's FFT is relied upon for is a hypothesis of this section. *)
Section Filter.
Variables (kconj kre kabs2 : K -> K) (kdiv : K -> K -> K).
Variables (H W : nat).
Variables (F Fi : rmat -> rmat).
Notation "x =w y" := (weq H W x y) (at level 70).
Definition pmul (s t : rmat) : rmat := fun u v => s u v * t u v.
Definition pconj (s : rmat) : rmat := fun u v => kconj (s u v).
Definition isreal (x : rmat) : Prop := forall i j, (i < H)%nat -> (j < W)%nat -> kre (x i j) = x i j.

Hypothesis F_w : forall x y, x =w y -> F x =w F y.
Hypothesis Fi_w : forall s t, s =w t -> Fi s =w Fi t.
Hypothesis Fi_F : forall x, Fi (F x) =w x.
Hypothesis F_Fi : forall s, F (Fi s) =w s.
Hypothesis F_add : forall x y, F (rmadd x y) =w rmadd (F x) (F y).
Hypothesis F_scale : forall c x, F (rmscale c x) =w rmscale c (F x).
Hypothesis F_conv : forall h x, F (cconv H W h x) =w pmul (F h) (F x).                        (* convolution theorem *)
Hypothesis F_corr : forall h x, isreal h -> F (ccorr H W h x) =w pmul (pconj (F h)) (F x).     (* correlation theorem, real kernel *)
Hypothesis kabs2_def : forall z, kabs2 z = z * kconj z.
Hypothesis kdiv_mul : forall a d, d <> c0 -> kdiv a d * d = a.
Hypothesis kdiv_cancel : forall a d, d <> c0 -> kdiv (a * d) d = a.
Hypothesis kre_0 : kre c0 = c0.
Hypothesis kre_add : forall a b, kre (a + b) = kre a + kre b.
Hypothesis kre_scale : forall r a, kre r = r -> kre (r * a) = r * kre a.

Lemma kre_sumR n f : kre (sumR n f) = sumR n (fun k => kre (f k)).
Proof. induction n as [|n IH]; cbn; [exact kre_0|]. now rewrite kre_add, IH. Qed.
Definition pre (x : rmat) : rmat := fun i j => kre (x i j).
Lemma kre_cconv h x : isreal h -> pre (cconv H W h x) =w cconv H W h (pre x).
Proof. intros Rh i j Hi Hj. unfold pre, cconv. rewrite kre_sumR. apply sumR_ext; intros a Ha.
  rewrite kre_sumR. apply sumR_ext; intros b Hb. apply kre_scale. now apply Rh. Qed.
Lemma kre_ccorr h x : isreal h -> pre (ccorr H W h x) =w ccorr H W h (pre x).
Proof. intros Rh i j Hi Hj. unfold pre, ccorr. rewrite kre_sumR. apply sumR_ext; intros a Ha.
  rewrite kre_sumR. apply sumR_ext; intros b Hb. apply kre_scale. now apply Rh. Qed.
Lemma isreal_pre_id x : isreal x -> pre x =w x.
Proof. intros R i j Hi Hj. now apply R. Qed.

Lemma F_inj x y : F x =w F y -> x =w y.
Proof. intros E. apply (weq_trans _ _ _ (Fi (F x))); [apply weq_sym, Fi_F|]. apply (weq_trans _ _ _ (Fi (F y))); [now apply Fi_w | apply Fi_F]. Qed.

(* the spectrum written by qslst_restore_fft and the image it returns *)
Definition tik_spectrum (h B : rmat) (lam : K) : rmat :=
  fun u v => kdiv (kconj (F h u v) * F B u v) (kabs2 (F h u v) + lam).
Definition tik_restore (h B : rmat) (lam : K) : rmat := pre (Fi (tik_spectrum h B lam)).
Definition fft_blur (h x : rmat) : rmat := pre (Fi (pmul (F x) (F h))).

(* the FFT blur is the periodic convolution with the kernel *)
Theorem fft_blur_is_cconv h x : isreal h -> isreal x -> fft_blur h x =w cconv H W h x.
Proof.
  intros Rh Rx. unfold fft_blur.
  assert (E : Fi (pmul (F x) (F h)) =w cconv H W h x).
  { apply F_inj. apply (weq_trans _ _ _ _ _ (F_Fi _)). apply weq_sym. apply (weq_trans _ _ _ _ _ (F_conv h x)).
    intros u v Hu Hv. unfold pmul. ring. }
  intros i j Hi Hj. unfold pre. rewrite E by assumption.
  pose proof (kre_cconv h x Rh i j Hi Hj) as P. unfold pre in P at 1. rewrite P.
  apply cconv_weq; [|assumption|assumption]. now apply isreal_pre_id.
Qed.

(* the restored image solves the normal equations (A^T A + lambda I) X = A^T B of A = cconv H W h,
   wherever |H_hat|^2 + lambda does not vanish *)
Theorem tik_restore_normal_equations h B lam : isreal h -> isreal B -> kre lam = lam ->
  (forall u v, (u < H)%nat -> (v < W)%nat -> kabs2 (F h u v) + lam <> c0) ->
  rmadd (ccorr H W h (cconv H W h (tik_restore h B lam))) (rmscale lam (tik_restore h B lam)) =w ccorr H W h B.
Proof.
  intros Rh RB Rl Hd. set (S := tik_spectrum h B lam). set (Xc := Fi S).
  assert (E : rmadd (ccorr H W h (cconv H W h Xc)) (rmscale lam Xc) =w ccorr H W h B).
  { apply F_inj. apply (weq_trans _ _ _ _ _ (F_add _ _)).
    intros u v Hu Hv. unfold rmadd.
    rewrite (F_corr h (cconv H W h Xc) Rh u v Hu Hv), (F_scale lam Xc u v Hu Hv), (F_corr h B Rh u v Hu Hv).
    unfold pmul, pconj, rmscale. rewrite (F_conv h Xc u v Hu Hv). unfold pmul. unfold Xc. rewrite (F_Fi S u v Hu Hv).
    unfold S, tik_spectrum.
    transitivity (kdiv (kconj (F h u v) * F B u v) (kabs2 (F h u v) + lam) * (kabs2 (F h u v) + lam)).
    - rewrite kabs2_def. ring.
    - apply kdiv_mul. now apply Hd. }
  intros i j Hi Hj. unfold rmadd, rmscale, tik_restore. fold S. fold Xc.
  pose proof (kre_ccorr h (cconv H W h Xc) Rh i j Hi Hj) as P1. unfold pre in P1 at 1.
  assert (P2 : ccorr H W h (pre (cconv H W h Xc)) i j = ccorr H W h (cconv H W h (pre Xc)) i j).
  { apply ccorr_weq; [|assumption|assumption]. now apply kre_cconv. }
  rewrite <- P2, <- P1.
  change (pre Xc i j) with (kre (Xc i j)). rewrite <- (kre_scale lam (Xc i j) Rl), <- kre_add.
  specialize (E i j Hi Hj). unfold rmadd, rmscale in E. rewrite E.
  pose proof (kre_ccorr h B Rh i j Hi Hj) as P3. unfold pre in P3 at 1. rewrite P3.
  apply ccorr_weq; [|assumption|assumption]. now apply isreal_pre_id.
Qed.

(* with lambda = 0 and an invertible blur the restoration inverts the blur *)
Theorem tik_restore_inverts_blur h x : isreal x ->
  (forall u v, (u < H)%nat -> (v < W)%nat -> kabs2 (F h u v) + c0 <> c0) ->
  tik_restore h (cconv H W h x) c0 =w x.
Proof.
  intros Rx Hd. unfold tik_restore.
  assert (E : Fi (tik_spectrum h (cconv H W h x) c0) =w x).
  { apply F_inj. apply (weq_trans _ _ _ _ _ (F_Fi _)). intros u v Hu Hv. unfold tik_spectrum.
    rewrite (F_conv h x u v Hu Hv). unfold pmul.
    replace (kconj (F h u v) * (F h u v * F x u v)) with (F x u v * (kabs2 (F h u v) + c0)) by (rewrite kabs2_def; ring).
    apply kdiv_cancel. now apply Hd. }
  intros i j Hi Hj. unfold pre. rewrite E by assumption. now apply Rx.
Qed.
(* the restoration is linear in B (real scalars), given that the inverse transform and the division are *)
Hypothesis Fi_add : forall s t, Fi (rmadd s t) =w rmadd (Fi s) (Fi t).
Hypothesis Fi_scale : forall c s, Fi (rmscale c s) =w rmscale c (Fi s).
Hypothesis kdiv_add : forall a b d, kdiv (a + b) d = kdiv a d + kdiv b d.
Hypothesis kdiv_scale : forall c a d, kdiv (c * a) d = c * kdiv a d.
Theorem tik_restore_linear h B1 B2 c lam : kre c = c ->
  tik_restore h (rmadd (rmscale c B1) B2) lam =w rmadd (rmscale c (tik_restore h B1 lam)) (tik_restore h B2 lam).
Proof.
  intros Rc i j Hi Hj. unfold tik_restore, pre, rmadd, rmscale.
  assert (E : tik_spectrum h (fun i j => c * B1 i j + B2 i j) lam =w rmadd (rmscale c (tik_spectrum h B1 lam)) (tik_spectrum h B2 lam)).
  { intros u v Hu Hv. unfold tik_spectrum, rmadd, rmscale.
    pose proof (F_add (rmscale c B1) B2 u v Hu Hv) as P. unfold rmadd, rmscale in P. rewrite P.
    pose proof (F_scale c B1 u v Hu Hv) as P2. unfold rmscale in P2. rewrite P2.
    replace (kconj (F h u v) * (c * F B1 u v + F B2 u v)) with (c * (kconj (F h u v) * F B1 u v) + kconj (F h u v) * F B2 u v) by ring.
    now rewrite kdiv_add, kdiv_scale. }
  rewrite (Fi_w _ _ E i j Hi Hj), (Fi_add _ _ i j Hi Hj). unfold rmadd. rewrite (Fi_scale _ _ i j Hi Hj). unfold rmscale.
  rewrite kre_add, (kre_scale c _ Rc). reflexivity.
Qed.
End Filter.

(* ------------------------------------------------------------------------------------------------
   The matrix form: T = A^T A (+ lambda I), X = T^+ A^T b *)
Definition rmv (k : nat) (A : rmat) (v : nat -> K) : nat -> K := fun i => sumR k (fun l => A i l * v l).
Lemma rmv_rmm n A B v i : rmv n (rmm n A B) v i = rmv n A (rmv n B v) i.
Proof.
  unfold rmv, rmm.
  transitivity (sumR n (fun l => sumR n (fun l0 => A i l0 * B l0 l * v l))).
  - apply sumR_ext; intros l _. now rewrite sumR_mul_r.
  - rewrite sumR_swap. apply sumR_ext; intros l0 _. rewrite <- sumR_mul_l. apply sumR_ext; intros l _. ring.
Qed.
Lemma rmv_id n v i : (i < n)%nat -> rmv n rmid v i = v i.
Proof. intros Hi. unfold rmv, rmid. rewrite <- (sumR_delta K n i v Hi). apply sumR_ext; intros l _.
  rewrite Nat.eqb_sym. destruct (Nat.eqb l i); ring. Qed.
Lemma rmv_ext n A B v i : (forall l, (l < n)%nat -> A i l = B i l) -> rmv n A v i = rmv n B v i.
Proof. intros E. unfold rmv. apply sumR_ext; intros l Hl. now rewrite E. Qed.
Lemma rmv_ext_v n A v w i : (forall l, (l < n)%nat -> v l = w l) -> rmv n A v i = rmv n A w i.
Proof. intros E. unfold rmv. apply sumR_ext; intros l Hl. now rewrite E. Qed.

Theorem matrix_path_normal_equations n (T Tp : rmat) (e : nat -> K) :
  (forall i j, (i < n)%nat -> (j < n)%nat -> rmm n T Tp i j = rmid i j) ->
  forall r, (r < n)%nat -> rmv n T (rmv n Tp e) r = e r.
Proof. intros Hinv r Hr. rewrite <- rmv_rmm. rewrite (rmv_ext n _ rmid) by (intros; now apply Hinv). now apply rmv_id. Qed.
End T.
Arguments weq {K}. Arguments ccorr {K}. Arguments dot2 {K}. Arguments rmv {K}.
Arguments pmul {K}. Arguments pconj {K}. Arguments isreal {K}. Arguments pre {K}.
Arguments tik_spectrum {K}. Arguments tik_restore {K}. Arguments fft_blur {K}.
