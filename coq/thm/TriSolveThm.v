(* C16: the substitutions solve T X = B row by row, for any number of right-hand sides; with the
   regularised inverse  d * dinv d = rho(d) (real), the exact defect of every row is explicit. *)
From Coq Require Import Arith Lia Bool Ring.
From QV Require Import CRing Sums Quat Mat QMat.
From QVM Require Import TriSolve.

Section T.
Variable C : CRing.
Add Ring Cr : (cr_th C).
Notation quat := (quat C).
Notation qmat := (qmat C).
Variable dinv : quat -> quat.
Variable tiny : quat -> bool.
Variable rho : quat -> C.
Variable retab : nat -> nat -> qmat -> qmat.
Variables (n kk : nat).
Hypothesis retab_ok : forall M i c, i < n -> c < kk -> retab n kk M i c = M i c.
Hypothesis dinv_r : forall d, qmul d (dinv d) = qreal (rho d).
Notation fwd := (fwd C dinv retab n kk).
Notation bwd := (bwd C dinv tiny retab n kk).

Lemma fwd_stable L B : forall i k r c, r < i -> r < n -> c < kk -> fwd L B (i + k) r c = fwd L B i r c.
Proof. intros i k. induction k as [|k IH]; intros r c Hr Hn Hc; [now rewrite Nat.add_0_r|].
  rewrite Nat.add_succ_r. cbn [TriSolve.fwd]. replace (r =? i + k) with false by (symmetry; apply Nat.eqb_neq; lia).
  rewrite retab_ok by assumption. now apply IH. Qed.

Lemma fwd_at L B k r c : r < k -> k <= n -> c < kk -> fwd L B n r c = fwd L B k r c.
Proof. intros Hr Hk Hc. rewrite <- (fwd_stable L B k (n - k) r c Hr ltac:(lia) Hc). f_equal. lia. Qed.

(* row i of  L X : the strictly-lower part plus the diagonal term *)
Theorem forward_row L B i c : i < n -> c < kk ->
  let X := solve_lower C dinv retab n kk n L B in
  let S := sumQ i (fun j => qmul (L i j) (X j c)) in
  qadd S (qmul (L i i) (X i c)) = qadd S (qscale (rho (L i i)) (qsub (B i c) S)).
Proof.
  intros Hi Hc. cbv zeta. unfold solve_lower. f_equal.
  rewrite (fwd_at L B (S i) i c) by lia. cbn [TriSolve.fwd]. rewrite Nat.eqb_refl.
  rewrite (qmul_assoc C), dinv_r, (qreal_scale C). f_equal. f_equal.
  apply (sumQ_ext C). intros j Hj. f_equal. rewrite retab_ok by lia.
  symmetry. apply (fwd_at L B i j c); lia.
Qed.
Corollary forward_solves L B i c : i < n -> c < kk -> rho (L i i) = c1 ->
  let X := solve_lower C dinv retab n kk n L B in
  qadd (sumQ i (fun j => qmul (L i j) (X j c))) (qmul (L i i) (X i c)) = B i c.
Proof. intros Hi Hc Hr. cbv zeta. rewrite (forward_row L B i c Hi Hc). rewrite Hr. apply qeq; qcomp; ring. Qed.

Lemma bwd_stable U B : forall k k' r c, n - k <= r -> r < n -> c < kk -> k <= n -> k + k' <= n ->
  bwd n U B (k + k') r c = bwd n U B k r c.
Proof. intros k k'. induction k' as [|k' IH]; intros r c Hr Hrn Hc Hk Hkk; [now rewrite Nat.add_0_r|].
  rewrite Nat.add_succ_r. cbn [TriSolve.bwd]. replace (r =? n - S (k + k')) with false by (symmetry; apply Nat.eqb_neq; lia).
  rewrite retab_ok by assumption. apply IH; lia. Qed.
Lemma bwd_at U B k r c : n - k <= r -> r < n -> c < kk -> k <= n -> bwd n U B n r c = bwd n U B k r c.
Proof. intros Hr Hrn Hc Hk. rewrite <- (bwd_stable U B k (n - k) r c Hr Hrn Hc Hk ltac:(lia)). f_equal. lia. Qed.

Theorem backward_row U B i c : i < n -> c < kk -> tiny (U i i) = false ->
  let X := solve_upper C dinv tiny retab n kk n U B in
  let S := sumQ (n - 1 - i) (fun t => qmul (U i (i + 1 + t)) (X (i + 1 + t) c)) in
  qadd (qmul (U i i) (X i c)) S = qadd (qscale (rho (U i i)) (qsub (B i c) S)) S.
Proof.
  intros Hi Hc Ht. cbv zeta. unfold solve_upper. f_equal.
  set (k := n - 1 - i).
  rewrite (bwd_at U B (S k) i c) by lia. cbn [TriSolve.bwd].
  replace (n - S k) with i by lia. rewrite Nat.eqb_refl, Ht.
  rewrite (qmul_assoc C), dinv_r, (qreal_scale C). f_equal. f_equal.
  apply (sumQ_ext C). intros t Htk. f_equal. rewrite retab_ok by lia.
  symmetry. apply (bwd_at U B k (i + 1 + t) c); lia.
Qed.
Corollary backward_solves U B i c : i < n -> c < kk -> tiny (U i i) = false -> rho (U i i) = c1 ->
  let X := solve_upper C dinv tiny retab n kk n U B in
  qadd (qmul (U i i) (X i c)) (sumQ (n - 1 - i) (fun t => qmul (U i (i + 1 + t)) (X (i + 1 + t) c))) = B i c.
Proof. intros Hi Hc Ht Hr. cbv zeta. rewrite (backward_row U B i c Hi Hc Ht). rewrite Hr. apply qeq; qcomp; ring. Qed.
(* zero-diagonal branch of UtriangleQsparse: the row of the solution is set to 0 *)
Theorem backward_zero_row U B i c : i < n -> c < kk -> tiny (U i i) = true -> solve_upper C dinv tiny retab n kk n U B i c = qzero.
Proof. intros Hi Hc Ht. unfold solve_upper. set (k := n - 1 - i).
  rewrite (bwd_at U B (S k) i c) by lia.
  cbn [TriSolve.bwd]. replace (n - S k) with i by lia. now rewrite Nat.eqb_refl, Ht. Qed.
End T.
