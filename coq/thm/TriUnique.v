(* C16: a triangular quaternion system with non-zero diagonal entries has AT MOST one solution (over the real quaternions): an upper-triangular U
   with U x = 0 forces x = 0, by back substitution in the division ring; hence whatever satisfies U X = B is the matrix the solver must return. *)
From Coq Require Import Reals Lra Arith Lia.
From QV Require Import CRing CRingR Sums Quat Mat QMat.
From QVT Require Import CauchySchwarz Reflector Kernel.
Add Ring RRtu : (cr_th RR).

Lemma qinv_l (q : qR) : q <> qzero -> qmul (qinv q) q = qone.
Proof.
  intros H. assert (Hn : N q <> 0%R) by (intros E; apply H, N_zero_iff, E).
  unfold qinv. destruct q as [a b c d]. unfold N, qnorm2 in *. cbn [qw qx qy qz car cadd cmul RR] in Hn.
  apply qeq; cbn [qmul qscale qconj qone qw qx qy qz car c0 c1 cadd cmul csub copp RR]; field; exact Hn.
Qed.
Lemma sumQ_single n (f : nat -> qR) i : (i < n)%nat -> (forall j, (j < n)%nat -> j <> i -> f j = qzero) -> sumQ n f = f i.
Proof.
  intros Hi Hz. destruct n as [|n']; [lia|].
  rewrite (sumQ_remove n' i f ltac:(lia)).
  rewrite (sumQ_zero_ext RR n' (fun j => f (skip i j))); [qr|].
  intros j Hj. apply Hz; unfold skip; destruct (Nat.ltb_spec j i); lia.
Qed.

Theorem upper_triangular_kernel_is_zero : forall n (U : qmat RR) (x : nat -> qR),
  (forall i j, (i < n)%nat -> (j < i)%nat -> U i j = qzero) -> (forall i, (i < n)%nat -> U i i <> qzero) ->
  (forall r, (r < n)%nat -> sumQ n (fun j => qmul (U r j) (x j)) = qzero) ->
  forall i, (i < n)%nat -> x i = qzero.
Proof.
  intros n U x Hup Hd Hx.
  assert (P : forall k i, (i < n)%nat -> (n - i <= k)%nat -> x i = qzero).
  { induction k as [|k IH]; intros i Hi Hk; [lia|].
    pose proof (Hx i Hi) as E.
    rewrite (sumQ_single n _ i Hi) in E.
    - transitivity (qmul (qmul (qinv (U i i)) (U i i)) (x i)); [rewrite (qinv_l _ (Hd i Hi)); qr|].
      rewrite <- (qmul_assoc RR), E. qr.
    - intros j Hj Hne. destruct (Nat.lt_ge_cases j i) as [Hlt|Hge].
      + rewrite (Hup i j Hi Hlt). qr.
      + rewrite (IH j Hj ltac:(lia)). qr. }
  intros i Hi. apply (P n i Hi). lia.
Qed.

Theorem upper_triangular_solution_is_unique : forall n p (U X Y B : qmat RR),
  (forall i j, (i < n)%nat -> (j < i)%nat -> U i j = qzero) -> (forall i, (i < n)%nat -> U i i <> qzero) ->
  meq n p (qmm n U X) B -> meq n p (qmm n U Y) B -> meq n p X Y.
Proof.
  intros n p U X Y B Hup Hd HX HY i c Hi Hc.
  assert (Z : qsub (X i c) (Y i c) = qzero).
  { apply (upper_triangular_kernel_is_zero n U (fun j => qsub (X j c) (Y j c)) Hup Hd); [|exact Hi].
    intros r Hr.
    rewrite (sumQ_ext RR n _ (fun j => qsub (qmul (U r j) (X j c)) (qmul (U r j) (Y j c)))) by (intros; qr).
    rewrite (sumQ_sub RR). pose proof (HX r c Hr Hc) as E1. pose proof (HY r c Hr Hc) as E2. unfold qmm in E1, E2.
    rewrite E1, E2. qr. }
  transitivity (qadd (qsub (X i c) (Y i c)) (Y i c)); [qr|]. rewrite Z. qr.
Qed.
