(* C05 / C15: Weyl's inequality for quaternion singular values, sigma_{i+j}(A + B) <= sigma_i(A) + sigma_j(B), for matrices given with their
   factorisations; with j = 0: |sigma_i(A + E) - sigma_i(A)| <= sigma_0(E) -- the singular values are 1-Lipschitz in the spectral norm. *)
From Coq Require Import Reals Lra Psatz Arith Lia.
From QV Require Import CRing CRingR Sums Quat Mat QMat.
From QVT Require Import CauchySchwarz Norms Proj EckartYoung SpectralNorm Kernel Compress MinMax.
Local Open Scope R_scope.
Add Ring RRw : (cr_th RR).

Lemma sumQ_app i j (f : nat -> quat RR) : sumQ (i + j) f = qadd (sumQ i f) (sumQ j (fun k => f (i + k)%nat)).
Proof.
  induction j as [|j IH]; [rewrite Nat.add_0_r; cbn [sumQ]; qr|].
  rewrite Nat.add_succ_r. cbn [sumQ]. rewrite IH. qr.
Qed.

(* the truncation error A - A_i has operator bound s_i *)
Lemma tail_op_bound m n r i (U V : qmat RR) (s : nat -> R) : (i < r)%nat ->
  meq r r (qmm m (qherm U) U) qmid -> meq r r (qmm n (qherm V) V) qmid ->
  (forall k, (k < r)%nat -> 0 <= s k) -> (forall a b, (a <= b)%nat -> (b < r)%nat -> s b <= s a) ->
  op_bound m n (qmsub (@usv RR r U s V) (@usv RR i U s V)) (s i).
Proof.
  intros Hi HU HV H0 Hm.
  assert (T : meq m n (qmsub (@usv RR r U s V) (@usv RR i U s V)) (@usv RR r U (@tailv RR i s) V)) by (apply (truncation_error_is_tail RR m n r i U V s); lia).
  destruct (value_bound_is_op_bound m n r U V (@tailv RR i s) (s i) (H0 i Hi) HU HV) as [P0 PB].
  - intros k Hk. unfold tailv. destruct (Nat.ltb_spec k i).
    + cbn [c0 RR]. pose proof (H0 i Hi). nra.
    + assert (s k <= s i) by (apply Hm; lia). pose proof (H0 k Hk). pose proof (H0 i Hi). apply Rmult_le_compat; lra.
  - split; [exact P0|]. intros p X.
    assert (E2 : meq m p (qmm n (qmsub (@usv RR r U s V) (@usv RR i U s V)) X) (qmm n (@usv RR r U (@tailv RR i s) V) X)) by (rewrite T; reflexivity).
    rewrite (normF_meq m p _ _ E2). apply PB.
Qed.

Theorem weyl_inequality m n ra rb rc i j (Ua Va Ub Vb Uc Vc : qmat RR) (sa sb sc : nat -> R) :
  (i < ra)%nat -> (j < rb)%nat -> (i + j < rc)%nat ->
  meq ra ra (qmm m (qherm Ua) Ua) qmid -> meq ra ra (qmm n (qherm Va) Va) qmid ->
  meq rb rb (qmm m (qherm Ub) Ub) qmid -> meq rb rb (qmm n (qherm Vb) Vb) qmid ->
  meq rc rc (qmm m (qherm Uc) Uc) qmid -> meq rc rc (qmm n (qherm Vc) Vc) qmid ->
  (forall k, (k < ra)%nat -> 0 <= sa k) -> (forall a b, (a <= b)%nat -> (b < ra)%nat -> sa b <= sa a) ->
  (forall k, (k < rb)%nat -> 0 <= sb k) -> (forall a b, (a <= b)%nat -> (b < rb)%nat -> sb b <= sb a) ->
  (forall k, (k < rc)%nat -> 0 <= sc k) -> (forall a b, (a <= b)%nat -> (b < rc)%nat -> sc b <= sc a) ->
  meq m n (@usv RR rc Uc sc Vc) (qmadd (@usv RR ra Ua sa Va) (@usv RR rb Ub sb Vb)) ->
  sc (i + j)%nat <= sa i + sb j.
Proof.
  intros Hi Hj Hij HUa HVa HUb HVb HUc HVc Ha0 Ham Hb0 Hbm Hc0 Hcm E.
  set (A := @usv RR ra Ua sa Va). set (B := @usv RR rb Ub sb Vb).
  set (Ai := @usv RR i Ua sa Va). set (Bj := @usv RR j Ub sb Vb).
  pose proof (tail_op_bound m n ra i Ua Va sa Hi HUa HVa Ha0 Ham) as TA. fold A Ai in TA.
  pose proof (tail_op_bound m n rb j Ub Vb sb Hj HUb HVb Hb0 Hbm) as TB. fold B Bj in TB.
  pose proof (op_bound_triangle m n _ _ _ _ TA TB) as [T0 TT].
  (* A_i + B_j factors through i + j rows *)
  set (G1 := qmm i Ua (@rdiag RR sa)). set (G2 := qmm j Ub (@rdiag RR sb)).
  set (G := (fun l k => if Nat.ltb k i then G1 l k else G2 l (k - i)%nat) : qmat RR).
  set (W := (fun k c => if Nat.ltb k i then qherm Va k c else qherm Vb (k - i)%nat c) : qmat RR).
  assert (EX : meq m n (qmm (i + j) G W) (qmadd Ai Bj)).
  { intros l c Hl Hc. unfold qmm at 1. rewrite sumQ_app. unfold qmadd, Ai, Bj, usv. fold G1 G2.
    change (qmm i G1 (qherm Va) l c) with (sumQ i (fun k => qmul (G1 l k) (qherm Va k c))).
    change (qmm j G2 (qherm Vb) l c) with (sumQ j (fun k => qmul (G2 l k) (qherm Vb k c))). f_equal.
    - apply (sumQ_ext RR). intros k Hk. unfold G, W. destruct (Nat.ltb_spec k i); [reflexivity|lia].
    - apply (sumQ_ext RR). intros k Hk. unfold G, W. destruct (Nat.ltb_spec (i + k) i); [lia|]. replace (i + k - i)%nat with k by lia. reflexivity. }
  assert (BB : op_bound m n (qmsub (@usv RR rc Uc sc Vc) (qmm (i + j) G W)) (sa i + sb j)).
  { split; [exact T0|]. intros p X.
    assert (E4 : meq m p (qmm n (qmsub (@usv RR rc Uc sc Vc) (qmm (i + j) G W)) X) (qmm n (qmadd (qmsub A Ai) (qmsub B Bj)) X)).
    { rewrite E, EX. fold A B. assert (E5 : meq m n (qmsub (qmadd A B) (qmadd Ai Bj)) (qmadd (qmsub A Ai) (qmsub B Bj))) by (intros a b _ _; unfold qmsub, qmadd; qr).
      rewrite E5. reflexivity. }
    rewrite (normF_meq m p _ _ E4). apply TT. }
  exact (low_rank_competitor_bound m n rc (i + j) Uc Vc G W sc (sa i + sb j) Hij HUc HVc Hc0 Hcm BB).
Qed.
