(* C01: property theorems over the definitions generated from quatica/utils.py.
   Nothing but Theorem / proof / Print Assumptions in this file. *)
From Coq Require Import Arith Lia Ring Reals.
From QV Require Import CRing CRingR Sums Quat Mat QMat.
From QVT Require Import CauchySchwarz.
From B Require Import Gen_C01.
Local Open Scope cr_scope.

Section P.
Variable C : CRing.
Add Ring Cr : (cr_th C).

Ltac ham := intros; unfold pack, qmm; apply qeq; cbn [qw qx qy qz]; sumQ_comp;
  autounfold with gen; unfold rmsub, rmadd, rmm, rmscale, rmopp, rmT;
  cbn [qmul qconj qw qx qy qz]; sum_push; rewrite <- ?sumR_mul_l; try ring.

(* every storage path computes the Hamilton product  C_ij = sum_l A_il * B_lj *)
Theorem C01_dense_dense_is_hamilton m k n Aw Ax Ay Az Bw Bx By Bz i j :
  pack (gen_mm_dd_w C m k n Aw Ax Ay Az Bw Bx By Bz) (gen_mm_dd_x C m k n Aw Ax Ay Az Bw Bx By Bz)
       (gen_mm_dd_y C m k n Aw Ax Ay Az Bw Bx By Bz) (gen_mm_dd_z C m k n Aw Ax Ay Az Bw Bx By Bz) i j
  = qmm k (pack Aw Ax Ay Az) (pack Bw Bx By Bz) i j.
Proof. ham. Qed.
Theorem C01_sparse_dense_is_hamilton m k n Aw Ax Ay Az Bw Bx By Bz i j :
  pack (gen_mm_sd_w C m k n Aw Ax Ay Az Bw Bx By Bz) (gen_mm_sd_x C m k n Aw Ax Ay Az Bw Bx By Bz)
       (gen_mm_sd_y C m k n Aw Ax Ay Az Bw Bx By Bz) (gen_mm_sd_z C m k n Aw Ax Ay Az Bw Bx By Bz) i j
  = qmm k (pack Aw Ax Ay Az) (pack Bw Bx By Bz) i j.
Proof. ham. Qed.
Theorem C01_dense_sparse_is_hamilton m k n Aw Ax Ay Az Bw Bx By Bz i j :
  pack (gen_mm_ds_w C m k n Aw Ax Ay Az Bw Bx By Bz) (gen_mm_ds_x C m k n Aw Ax Ay Az Bw Bx By Bz)
       (gen_mm_ds_y C m k n Aw Ax Ay Az Bw Bx By Bz) (gen_mm_ds_z C m k n Aw Ax Ay Az Bw Bx By Bz) i j
  = qmm k (pack Aw Ax Ay Az) (pack Bw Bx By Bz) i j.
Proof. ham. Qed.
Theorem C01_sparse_sparse_is_hamilton m k n Aw Ax Ay Az Bw Bx By Bz i j :
  pack (gen_mm_ss_w C m k n Aw Ax Ay Az Bw Bx By Bz) (gen_mm_ss_x C m k n Aw Ax Ay Az Bw Bx By Bz)
       (gen_mm_ss_y C m k n Aw Ax Ay Az Bw Bx By Bz) (gen_mm_ss_z C m k n Aw Ax Ay Az Bw Bx By Bz) i j
  = qmm k (pack Aw Ax Ay Az) (pack Bw Bx By Bz) i j.
Proof. ham. Qed.
(* the split four-component kernel of the Krylov solver (argument and return order 0,1,2,3 = w,x,y,z) *)
Theorem C01_component_kernel_is_hamilton m k n Aw Ax Ay Az Bw Bx By Bz i j :
  pack (gen_tq_w C m k n Aw Ax Ay Az Bw Bx By Bz) (gen_tq_x C m k n Aw Ax Ay Az Bw Bx By Bz)
       (gen_tq_y C m k n Aw Ax Ay Az Bw Bx By Bz) (gen_tq_z C m k n Aw Ax Ay Az Bw Bx By Bz) i j
  = qmm k (pack Aw Ax Ay Az) (pack Bw Bx By Bz) i j.
Proof. ham. Qed.
Theorem C01_component_kernel_sparse_is_hamilton m k n Aw Ax Ay Az Bw Bx By Bz i j :
  pack (gen_tqs_w C m k n Aw Ax Ay Az Bw Bx By Bz) (gen_tqs_x C m k n Aw Ax Ay Az Bw Bx By Bz)
       (gen_tqs_y C m k n Aw Ax Ay Az Bw Bx By Bz) (gen_tqs_z C m k n Aw Ax Ay Az Bw Bx By Bz) i j
  = qmm k (pack Aw Ax Ay Az) (pack Bw Bx By Bz) i j.
Proof. ham. Qed.
(* scalar quaternion times matrix, and matrix times scalar quaternion, through the same kernel *)
Theorem C01_component_kernel_scalar_left m n pw px py pz Bw Bx By Bz i j :
  pack (gen_tq_sm_w C m n pw px py pz Bw Bx By Bz) (gen_tq_sm_x C m n pw px py pz Bw Bx By Bz)
       (gen_tq_sm_y C m n pw px py pz Bw Bx By Bz) (gen_tq_sm_z C m n pw px py pz Bw Bx By Bz) i j
  = qmul (mkQ pw px py pz) (pack Bw Bx By Bz i j).
Proof. ham. Qed.
Theorem C01_component_kernel_scalar_right m n pw px py pz Bw Bx By Bz i j :
  pack (gen_tq_ms_w C m n pw px py pz Bw Bx By Bz) (gen_tq_ms_x C m n pw px py pz Bw Bx By Bz)
       (gen_tq_ms_y C m n pw px py pz Bw Bx By Bz) (gen_tq_ms_z C m n pw px py pz Bw Bx By Bz) i j
  = qmul (pack Bw Bx By Bz i j) (mkQ pw px py pz).
Proof. ham. Qed.

Theorem C01_all_paths_agree m k n Aw Ax Ay Az Bw Bx By Bz i j :
  let dd := pack (gen_mm_dd_w C m k n Aw Ax Ay Az Bw Bx By Bz) (gen_mm_dd_x C m k n Aw Ax Ay Az Bw Bx By Bz)
       (gen_mm_dd_y C m k n Aw Ax Ay Az Bw Bx By Bz) (gen_mm_dd_z C m k n Aw Ax Ay Az Bw Bx By Bz) i j in
  dd = pack (gen_mm_sd_w C m k n Aw Ax Ay Az Bw Bx By Bz) (gen_mm_sd_x C m k n Aw Ax Ay Az Bw Bx By Bz)
       (gen_mm_sd_y C m k n Aw Ax Ay Az Bw Bx By Bz) (gen_mm_sd_z C m k n Aw Ax Ay Az Bw Bx By Bz) i j /\
  dd = pack (gen_mm_ds_w C m k n Aw Ax Ay Az Bw Bx By Bz) (gen_mm_ds_x C m k n Aw Ax Ay Az Bw Bx By Bz)
       (gen_mm_ds_y C m k n Aw Ax Ay Az Bw Bx By Bz) (gen_mm_ds_z C m k n Aw Ax Ay Az Bw Bx By Bz) i j /\
  dd = pack (gen_mm_ss_w C m k n Aw Ax Ay Az Bw Bx By Bz) (gen_mm_ss_x C m k n Aw Ax Ay Az Bw Bx By Bz)
       (gen_mm_ss_y C m k n Aw Ax Ay Az Bw Bx By Bz) (gen_mm_ss_z C m k n Aw Ax Ay Az Bw Bx By Bz) i j /\
  dd = pack (gen_tq_w C m k n Aw Ax Ay Az Bw Bx By Bz) (gen_tq_x C m k n Aw Ax Ay Az Bw Bx By Bz)
       (gen_tq_y C m k n Aw Ax Ay Az Bw Bx By Bz) (gen_tq_z C m k n Aw Ax Ay Az Bw Bx By Bz) i j.
Proof.
  cbv zeta. rewrite C01_dense_dense_is_hamilton, C01_sparse_dense_is_hamilton,
    C01_dense_sparse_is_hamilton, C01_sparse_sparse_is_hamilton, C01_component_kernel_is_hamilton.
  repeat split; reflexivity.
Qed.

(* conjugate transpose, dense and sparse *)
Theorem C01_herm_dense_is_conj_transpose m n Aw Ax Ay Az i j :
  pack (gen_herm_d_w C m n Aw Ax Ay Az) (gen_herm_d_x C m n Aw Ax Ay Az)
       (gen_herm_d_y C m n Aw Ax Ay Az) (gen_herm_d_z C m n Aw Ax Ay Az) i j
  = qherm (pack Aw Ax Ay Az) i j.
Proof. intros; unfold pack, qherm; autounfold with gen; unfold rmT, rmopp; reflexivity. Qed.
Theorem C01_herm_sparse_is_conj_transpose m n Aw Ax Ay Az i j :
  pack (gen_herm_s_w C m n Aw Ax Ay Az) (gen_herm_s_x C m n Aw Ax Ay Az)
       (gen_herm_s_y C m n Aw Ax Ay Az) (gen_herm_s_z C m n Aw Ax Ay Az) i j
  = qherm (pack Aw Ax Ay Az) i j.
Proof. intros; unfold pack, qherm; autounfold with gen; unfold rmT, rmopp; reflexivity. Qed.
Theorem C01_herm_involutive (A : qmat C) i j : qherm (qherm A) i j = A i j.
Proof. exact (qherm_invol C A i j). Qed.
Theorem C01_herm_reverses_products k (A B : qmat C) i j :
  qherm (qmm k A B) i j = qmm k (qherm B) (qherm A) i j.
Proof. exact (qherm_mm C k A B i j). Qed.

(* Frobenius norm (squared: np.sqrt is applied last in both branches) *)
Theorem C01_frob_dense_is_def m n Aw Ax Ay Az :
  gen_frob2_d C m n Aw Ax Ay Az = frob2 m n (pack Aw Ax Ay Az).
Proof. autounfold with gen. rewrite frob2_pack. ring. Qed.
Theorem C01_frob_same_across_storage m n Aw Ax Ay Az :
  gen_frob2_s C m n Aw Ax Ay Az = gen_frob2_d C m n Aw Ax Ay Az.
Proof. autounfold with gen. ring. Qed.
Theorem C01_frob_herm_invariant m n (A : qmat C) : frob2 n m (qherm A) = frob2 m n A.
Proof. exact (frob2_herm C m n A). Qed.
Theorem C01_frob_unitary_invariant_left p m n (U A : qmat C) :
  meq m m (qmm p (qherm U) U) qmid -> frob2 p n (qmm m U A) = frob2 m n A.
Proof. exact (frob2_unitary_left C p m n U A). Qed.
Theorem C01_frob_unitary_invariant_right m n p (A U : qmat C) :
  meq n n (qmm p U (qherm U)) qmid -> frob2 m p (qmm n A U) = frob2 m n A.
Proof. exact (frob2_unitary_right C m n p A U). Qed.
End P.

(* sub-multiplicativity needs an order: over the reals (every binary64 value is a real) *)
Theorem C01_frob_submultiplicative m k n (A B : qmat RR) :
  (frob2 m n (qmm k A B) <= frob2 m k A * frob2 k n B)%R.
Proof. exact (frob2_submult m k n A B). Qed.

(* non-vacuity of the unitary hypothesis: the identity is unitary *)
Example C01_unitary_hyp_inhabited : meq 2 2 (qmm 2 (qherm (@qmid ZR)) qmid) qmid.
Proof. intros i j Hi Hj. destruct i as [|[|]]; destruct j as [|[|]]; try lia; vm_compute; reflexivity. Qed.

Print Assumptions C01_dense_dense_is_hamilton.
Print Assumptions C01_sparse_dense_is_hamilton.
Print Assumptions C01_dense_sparse_is_hamilton.
Print Assumptions C01_sparse_sparse_is_hamilton.
Print Assumptions C01_component_kernel_is_hamilton.
Print Assumptions C01_component_kernel_sparse_is_hamilton.
Print Assumptions C01_component_kernel_scalar_left.
Print Assumptions C01_component_kernel_scalar_right.
Print Assumptions C01_all_paths_agree.
Print Assumptions C01_herm_dense_is_conj_transpose.
Print Assumptions C01_herm_sparse_is_conj_transpose.
Print Assumptions C01_herm_involutive.
Print Assumptions C01_herm_reverses_products.
Print Assumptions C01_frob_dense_is_def.
Print Assumptions C01_frob_same_across_storage.
Print Assumptions C01_frob_herm_invariant.
Print Assumptions C01_frob_unitary_invariant_left.
Print Assumptions C01_frob_unitary_invariant_right.
Print Assumptions C01_frob_submultiplicative.
