(* C02: the real and complex embeddings generated from the source are faithful *-homomorphisms. *)
From Coq Require Import Arith Lia Ring Bool List.
From QV Require Import CRing Sums Quat Mat NumpySem.
From QVT Require Import Embed.
From B Require Import Gen_C02.
Import ListNotations.
Local Open Scope cr_scope.

Section P.
Variable C : CRing.
Add Ring Cr : (cr_th C).
Notation qmat := (qmat C).
Notation rmat := (rmat C).

Definition RE (m n : nat) (A : qmat) : rmat := gen_real_expand C m n (cw A) (cx A) (cy A) (cz A).
Definition RP (m n : nat) (A : qmat) : rmat := gen_Realp C m n (cw A) (cx A) (cy A) (cz A).
Definition ADre (n : nat) (A : qmat) : rmat := gen_adjoint_re C n (cw A) (cx A) (cy A) (cz A).
Definition ADim (n : nat) (A : qmat) : rmat := gen_adjoint_im C n (cw A) (cx A) (cy A) (cz A).
Definition RC (m n : nat) (R : rmat) : qmat :=
  pack (gen_real_contract_w C m n R) (gen_real_contract_x C m n R) (gen_real_contract_y C m n R) (gen_real_contract_z C m n R).

(* ---- interleaved layout: real_expand / real_contract ---- *)
Theorem C02_real_expand_is_interleaved_blocks m n A I J : RE m n A I J = rexp A I J.
Proof.
  unfold RE, gen_real_expand, rexp, cw, cx, cy, cz.
  pose proof (Nat.mod_upper_bound I 4 ltac:(lia)) as Ha. pose proof (Nat.mod_upper_bound J 4 ltac:(lia)) as Hb.
  destruct (I mod 4)%nat as [|[|[|[|?]]]]; try lia; destruct (J mod 4)%nat as [|[|[|[|?]]]]; try lia; reflexivity.
Qed.
Theorem C02_contract_expand_roundtrip m n A i j : RC m n (RE m n A) i j = A i j.
Proof.
  pose proof (C02_real_expand_is_interleaved_blocks m n A) as E.
  unfold RC, pack, gen_real_contract_w, gen_real_contract_x, gen_real_contract_y, gen_real_contract_z.
  set (R := RE m n A) in *. clearbody R. rewrite !E. clear E R.
  rexp_norm C A i j. cbn [blk]. apply qeq; cbn [qw qx qy qz]; ring.
Qed.
Theorem C02_real_expand_injective m n A B :
  (forall I J, RE m n A I J = RE m n B I J) -> forall i j, A i j = B i j.
Proof. intros H. apply (rexp_injective C). intros I J. rewrite <- 2 (C02_real_expand_is_interleaved_blocks m n). apply H. Qed.
Theorem C02_real_expand_additive m n A B I J : RE m n (qmadd A B) I J = RE m n A I J + RE m n B I J.
Proof. rewrite 3 (C02_real_expand_is_interleaved_blocks m n). apply rexp_additive. Qed.
Theorem C02_real_expand_real_homogeneous m n c A I J : RE m n (qmscale c A) I J = c * RE m n A I J.
Proof. rewrite 2 (C02_real_expand_is_interleaved_blocks m n). apply rexp_homogeneous. Qed.
Theorem C02_real_expand_multiplicative m k n A B I J :
  rmm (4*k) (RE m k A) (RE k n B) I J = RE m n (qmm k A B) I J.
Proof. rewrite (C02_real_expand_is_interleaved_blocks m n), <- rexp_multiplicative. unfold rmm.
  apply sumR_ext. intros. now rewrite (C02_real_expand_is_interleaved_blocks m k), (C02_real_expand_is_interleaved_blocks k n). Qed.
Theorem C02_real_expand_herm_is_transpose m n A I J : RE n m (qherm A) I J = RE m n A J I.
Proof. rewrite (C02_real_expand_is_interleaved_blocks n m), (C02_real_expand_is_interleaved_blocks m n). apply rexp_herm. Qed.
Theorem C02_real_expand_frob2 m n A :
  rfrob2 (4*m) (4*n) (RE m n A) = (c1 + c1 + c1 + c1) * frob2 m n A.
Proof. rewrite <- rexp_frob2. unfold rfrob2. apply sumR_ext; intros. apply sumR_ext; intros.
  now rewrite (C02_real_expand_is_interleaved_blocks m n). Qed.

(* ---- component-blocked layout: Realp ---- *)
Theorem C02_Realp_is_blocked m n A : is_blocked m n (RP m n A) A.
Proof.
  intros a b i j Ha Hb Hi Hj. unfold RP.
  destruct a as [|[|[|[|?]]]]; try lia; destruct b as [|[|[|[|?]]]]; try lia;
  unfold gen_Realp, inwin, blk, rmopp, cw, cx, cy, cz; nb;
  repeat match goal with |- context [(?x - ?y)%nat] =>
      (replace (x - y)%nat with i by lia) || (replace (x - y)%nat with j by lia) end; reflexivity.
Qed.
Theorem C02_Realp_scalar_is_block a1 a2 a3 a4 I J : (I < 4)%nat -> (J < 4)%nat ->
  gen_Realp_scalar C a1 a2 a3 a4 I J = blk (mkQ a1 a2 a3 a4) I J.
Proof. intros HI HJ. destruct I as [|[|[|[|?]]]]; try lia; destruct J as [|[|[|[|?]]]]; try lia; reflexivity. Qed.
Theorem C02_Realp_injective m n A B : (forall I J, RP m n A I J = RP m n B I J) ->
  forall i j, (i < m)%nat -> (j < n)%nat -> A i j = B i j.
Proof. intros H. apply (blocked_injective C m n (RP m n A)); [apply C02_Realp_is_blocked|].
  intros a b i j Ha Hb Hi Hj. rewrite H. now apply C02_Realp_is_blocked. Qed.
Theorem C02_Realp_additive m n A B : is_blocked m n (rmadd (RP m n A) (RP m n B)) (qmadd A B).
Proof. apply blocked_additive; apply C02_Realp_is_blocked. Qed.
Theorem C02_Realp_real_homogeneous m n c A : is_blocked m n (rmscale c (RP m n A)) (qmscale c A).
Proof. apply blocked_homogeneous; apply C02_Realp_is_blocked. Qed.
Theorem C02_Realp_multiplicative m k n A B :
  is_blocked m n (rmm (4*k) (RP m k A) (RP k n B)) (qmm k A B).
Proof. apply blocked_multiplicative; apply C02_Realp_is_blocked. Qed.
Theorem C02_Realp_herm_is_transpose m n A : is_blocked n m (rmT (RP m n A)) (qherm A).
Proof. apply blocked_herm; apply C02_Realp_is_blocked. Qed.
Theorem C02_Realp_frob2 m n A : rfrob2 (4*m) (4*n) (RP m n A) = (c1 + c1 + c1 + c1) * frob2 m n A.
Proof. apply blocked_frob2; apply C02_Realp_is_blocked. Qed.
Theorem C02_layouts_conjugate m n A a b i j : (a < 4)%nat -> (b < 4)%nat -> (i < m)%nat -> (j < n)%nat ->
  RE m n A (4*i+a)%nat (4*j+b)%nat = RP m n A (a*m+i)%nat (b*n+j)%nat.
Proof. intros. rewrite (C02_real_expand_is_interleaved_blocks m n).
  apply (layouts_conjugate C m n (RP m n A) A (C02_Realp_is_blocked m n A)); assumption. Qed.

(* ---- complex adjoint ---- *)
Theorem C02_adjoint_is_adjoint n A : is_adjoint n n (ADre n A) (ADim n A) A.
Proof.
  intros a b i j Ha Hb Hi Hj. unfold ADre, ADim.
  destruct a as [|[|?]]; try lia; destruct b as [|[|?]]; try lia;
  unfold gen_adjoint_re, gen_adjoint_im, inwin, cblk_re, cblk_im, rmopp, cw, cx, cy, cz; nb;
  repeat match goal with |- context [(?x - ?y)%nat] =>
      (replace (x - y)%nat with i by lia) || (replace (x - y)%nat with j by lia) end; split; try reflexivity; ring.
Qed.
Theorem C02_adjoint_injective n A B :
  (forall I J, ADre n A I J = ADre n B I J /\ ADim n A I J = ADim n B I J) ->
  forall i j, (i < n)%nat -> (j < n)%nat -> A i j = B i j.
Proof. intros H. apply (adjoint_injective C n n (ADre n A) (ADim n A)); [apply C02_adjoint_is_adjoint|].
  intros a b i j Ha Hb Hi Hj. destruct (H (a*n+i)%nat (b*n+j)%nat) as [-> ->]. now apply C02_adjoint_is_adjoint. Qed.
Theorem C02_adjoint_additive n A B :
  is_adjoint n n (rmadd (ADre n A) (ADre n B)) (rmadd (ADim n A) (ADim n B)) (qmadd A B).
Proof. apply adjoint_additive; apply C02_adjoint_is_adjoint. Qed.
Theorem C02_adjoint_real_homogeneous n c A :
  is_adjoint n n (rmscale c (ADre n A)) (rmscale c (ADim n A)) (qmscale c A).
Proof. apply adjoint_homogeneous; apply C02_adjoint_is_adjoint. Qed.
Theorem C02_adjoint_multiplicative n A B :
  is_adjoint n n (cmm_re (2*n) (ADre n A) (ADim n A) (ADre n B) (ADim n B))
                 (cmm_im (2*n) (ADre n A) (ADim n A) (ADre n B) (ADim n B)) (qmm n A B).
Proof. apply adjoint_multiplicative; apply C02_adjoint_is_adjoint. Qed.
Theorem C02_adjoint_herm_is_conj_transpose n A :
  is_adjoint n n (rmT (ADre n A)) (rmopp (rmT (ADim n A))) (qherm A).
Proof. apply adjoint_herm; apply C02_adjoint_is_adjoint. Qed.
Theorem C02_adjoint_frob2 n A :
  rfrob2 (2*n) (2*n) (ADre n A) + rfrob2 (2*n) (2*n) (ADim n A) = (c1 + c1) * frob2 n n A.
Proof. apply adjoint_frob2; apply C02_adjoint_is_adjoint. Qed.

(* ---- splitting / merging the component planes ---- *)
Definition hstack4 (n : nat) (B0 B1 B2 B3 : rmat) : rmat := fun i J =>
  if (J <? n)%nat then B0 i J else if (J <? 2*n)%nat then B1 i (J - n)%nat
  else if (J <? 3*n)%nat then B2 i (J - 2*n)%nat else B3 i (J - 3*n)%nat.
Theorem C02_split_merge_lossless m n (A0 A1 A2 A3 : rmat) i j : (j < n)%nat ->
  let S := hstack4 n A0 A2 A1 A3 in
  gen_A2A0123_0 C m n S i j = A0 i j /\ gen_A2A0123_1 C m n S i j = A1 i j /\
  gen_A2A0123_2 C m n S i j = A2 i j /\ gen_A2A0123_3 C m n S i j = A3 i j.
Proof.
  intros Hj. cbv zeta. unfold gen_A2A0123_0, gen_A2A0123_1, gen_A2A0123_2, gen_A2A0123_3, hstack4.
  rewrite !Nat.add_0_r. nb. repeat split; f_equal; lia.
Qed.
Theorem C02_components_roundtrip (A : qmat) i j :
  pack (gen_c2q_w C (gen_q2c_0 C (cw A) (cx A) (cy A) (cz A)) (gen_q2c_1 C (cw A) (cx A) (cy A) (cz A))
                    (gen_q2c_2 C (cw A) (cx A) (cy A) (cz A)) (gen_q2c_3 C (cw A) (cx A) (cy A) (cz A)))
       (gen_c2q_x C (gen_q2c_0 C (cw A) (cx A) (cy A) (cz A)) (gen_q2c_1 C (cw A) (cx A) (cy A) (cz A))
                    (gen_q2c_2 C (cw A) (cx A) (cy A) (cz A)) (gen_q2c_3 C (cw A) (cx A) (cy A) (cz A)))
       (gen_c2q_y C (gen_q2c_0 C (cw A) (cx A) (cy A) (cz A)) (gen_q2c_1 C (cw A) (cx A) (cy A) (cz A))
                    (gen_q2c_2 C (cw A) (cx A) (cy A) (cz A)) (gen_q2c_3 C (cw A) (cx A) (cy A) (cz A)))
       (gen_c2q_z C (gen_q2c_0 C (cw A) (cx A) (cy A) (cz A)) (gen_q2c_1 C (cw A) (cx A) (cy A) (cz A))
                    (gen_q2c_2 C (cw A) (cx A) (cy A) (cz A)) (gen_q2c_3 C (cw A) (cx A) (cy A) (cz A))) i j
  = A i j.
Proof. autounfold with gen. apply pack_eta. Qed.
Theorem C02_components_sparse_same (Aw Ax Ay Az : rmat) :
  gen_q2c_sparse_0 C Aw Ax Ay Az = gen_q2c_0 C Aw Ax Ay Az /\ gen_q2c_sparse_1 C Aw Ax Ay Az = gen_q2c_1 C Aw Ax Ay Az /\
  gen_q2c_sparse_2 C Aw Ax Ay Az = gen_q2c_2 C Aw Ax Ay Az /\ gen_q2c_sparse_3 C Aw Ax Ay Az = gen_q2c_3 C Aw Ax Ay Az.
Proof. repeat split; reflexivity. Qed.
(* planes that are handed over already split come back unchanged and in the same order *)
Theorem C02_components_presplit_identity (A0 A1 A2 A3 : rmat) :
  gen_q2c_tuple_0 C A0 A1 A2 A3 = A0 /\ gen_q2c_tuple_1 C A0 A1 A2 A3 = A1 /\ gen_q2c_tuple_2 C A0 A1 A2 A3 = A2 /\ gen_q2c_tuple_3 C A0 A1 A2 A3 = A3.
Proof. repeat split; reflexivity. Qed.
End P.

Print Assumptions C02_real_expand_is_interleaved_blocks.
Print Assumptions C02_contract_expand_roundtrip.
Print Assumptions C02_real_expand_injective.
Print Assumptions C02_real_expand_additive.
Print Assumptions C02_real_expand_real_homogeneous.
Print Assumptions C02_real_expand_multiplicative.
Print Assumptions C02_real_expand_herm_is_transpose.
Print Assumptions C02_real_expand_frob2.
Print Assumptions C02_Realp_is_blocked.
Print Assumptions C02_Realp_scalar_is_block.
Print Assumptions C02_Realp_injective.
Print Assumptions C02_Realp_multiplicative.
Print Assumptions C02_Realp_herm_is_transpose.
Print Assumptions C02_Realp_frob2.
Print Assumptions C02_layouts_conjugate.
Print Assumptions C02_adjoint_is_adjoint.
Print Assumptions C02_adjoint_injective.
Print Assumptions C02_adjoint_multiplicative.
Print Assumptions C02_adjoint_herm_is_conj_transpose.
Print Assumptions C02_adjoint_frob2.
Print Assumptions C02_split_merge_lossless.
Print Assumptions C02_components_roundtrip.
Print Assumptions C02_components_presplit_identity.
