(* C03: Newton-Schulz pseudoinverse solvers follow the documented spectral recurrence. *)
From Coq Require Import Reals Lra Arith Lia Ring.
From QV Require Import CRing CRingR Sums Quat Mat QMat.
From QVM Require Import NS.
From QVT Require Import NSthm NSmodel NSscalar.
Close Scope R_scope.

Section P.
Variable C : CRing.
Add Ring Cr : (cr_th C).
Notation qmat := (qmat C).
Variable retab : nat -> nat -> qmat -> qmat.
Hypothesis retab_ok : forall p q M, meq p q (retab p q M) M.

(* the modelled step is the documented covariance update, left for m >= n and right for m < n *)
Theorem C03_model_step_is_documented_update m n g (A X : qmat) :
  (n <= m -> meq n m (snd (damped_step C retab m n g A X)) (ns_left C m n A X (qreal g))) /\
  (m < n -> meq n m (snd (damped_step C retab m n g A X)) (ns_right C m n A X (qreal g))).
Proof. split; [exact (damped_step_left C retab retab_ok m n g A X)|exact (damped_step_right C retab retab_ok m n g A X)]. Qed.

Section Spectral.
Variables (m n r : nat) (A U V X : qmat) (s d : nat -> quat C) (gamma three : quat C).
Hypothesis gamma_central : forall a, qmul gamma a = qmul a gamma.
Hypothesis three_central : forall a, qmul three a = qmul a three.
Hypothesis HU : meq r r (qmm m (qherm U) U) qmid.
Hypothesis HV : meq r r (qmm n (qherm V) V) qmid.
Hypothesis HA : meq m n A (qmm r (qmm r U (qdiag s)) (qherm V)).
Hypothesis HX : meq n m X (qmm r (qmm r V (qdiag d)) (qherm U)).
(* every shape (rectangular, any rank r): the update acts on the spectral coefficients only *)
Theorem C03_recurrence_damped_left : meq n m (ns_left C m n A X gamma) (qmm r (qmm r V (qdiag (d_left C s d gamma))) (qherm U)).
Proof. exact (ns_left_recurrence C m n r A U V X s d gamma gamma_central HU HV HA HX). Qed.
Theorem C03_recurrence_damped_right : meq n m (ns_right C m n A X gamma) (qmm r (qmm r V (qdiag (d_right C s d gamma))) (qherm U)).
Proof. exact (ns_right_recurrence C m n r A U V X s d gamma gamma_central HU HV HA HX). Qed.
Theorem C03_recurrence_third : meq n m (ns_third C m n A X three) (qmm r (qmm r V (qdiag (d_third C s d three))) (qherm U)).
Proof. exact (ns_third_recurrence C m n r A U V X s d HU HV HA HX three three_central). Qed.
(* ||A X A - A||_F^2 in terms of the spectral coefficients *)
Theorem C03_residual_formula :
  frob2 m n (qmsub (qmm m (qmm n A X) A) A) = sumR r (fun i => qnorm2 (qsub (qmul (qmul (s i) (d i)) (s i)) (s i))).
Proof. exact (residual_AXA_formula C m n r A U V X s d HU HV HA HX). Qed.
End Spectral.

(* with real singular values s and real coefficients d = t/s the recurrences are the scalar maps on t = d s *)
Theorem C03_real_coefficients (sr dr g : C) :
  let t := cmul dr sr in
  qmul (d_left C (fun _ => qreal sr) (fun _ => qreal dr) (qreal g) 0) (qreal sr) = qreal (cmul t (cadd c1 (cmul g (csub c1 t)))) /\
  qmul (d_right C (fun _ => qreal sr) (fun _ => qreal dr) (qreal g) 0) (qreal sr) = qreal (cmul t (cadd c1 (cmul g (csub c1 t)))) /\
  qmul (d_third C (fun _ => qreal sr) (fun _ => qreal dr) (qreal (cadd (cadd c1 c1) c1)) 0) (qreal sr)
    = qreal (csub c1 (cmul (cmul (csub c1 t) (csub c1 t)) (csub c1 t))).
Proof. cbv zeta. unfold d_left, d_right, d_third. repeat split; apply qeq; qcomp; ring. Qed.
End P.

Open Scope R_scope.
(* scalar facts (over R): t stays in (0,1], never moves away from 1, converges geometrically / cubically *)
Theorem C03_scalar_damped g t : 0 < t <= 1 -> 0 < g <= 1 ->
  t <= phi g t <= 1 /\ 1 - phi g t = (1 - t) * (1 - g * t) /\ (1 - phi g t) ^ 2 <= (1 - t) ^ 2.
Proof. intros Ht Hg. repeat split; [apply (phi_range g t Ht Hg)|apply (phi_range g t Ht Hg)|apply phi_error|apply (phi_sq_error_decreases g t Ht Hg)]. Qed.
Theorem C03_scalar_third t : 0 < t <= 1 -> t <= psi t <= 1 /\ (1 - psi t) ^ 2 <= (1 - t) ^ 2.
Proof. intros Ht. split; [apply (psi_range t Ht)|apply (psi_sq_error_decreases t Ht)]. Qed.
Theorem C03_damped_geometric g k t : 0 < t <= 1 -> 0 < g <= 1 -> 0 <= 1 - iter (phi g) k t <= (1 - g * t) ^ k * (1 - t).
Proof. exact (damped_geometric g k t). Qed.
Theorem C03_third_order_cubic k t : 1 - iter psi k t = (1 - t) ^ (3 ^ k).
Proof. exact (third_order_cubic k t). Qed.
Theorem C03_initial_scaling si rest : 0 < si -> 0 <= rest -> 0 < si ^ 2 / (si ^ 2 + rest) <= 1.
Proof. exact (initial_scaling_in_unit_interval si rest). Qed.
Theorem C03_stop_bound s t tol : 0 < s -> 0 <= tol -> (s * (1 - t)) ^ 2 <= tol ^ 2 -> Rabs (t / s - 1 / s) <= tol / s ^ 2.
Proof. exact (stop_bound s t tol). Qed.

(* non-vacuity of the spectral hypotheses: the 1x1 matrix A = (2), U = V = (1), s = 2, X = (1/4) *)
Example C03_spectral_hyps_inhabited :
  let one : qmat RR := fun _ _ => qone in
  meq 1 1 (qmm 1 (qherm one) one) qmid /\
  meq 1 1 (fun _ _ => @qreal RR 2) (qmm 1 (qmm 1 one (qdiag (fun _ => @qreal RR 2))) (qherm one)).
Proof. cbv zeta. split; intros i j Hi Hj; assert (i = 0%nat) by lia; assert (j = 0%nat) by lia; subst;
  apply qeq; cbn; rr; ring. Qed.

Print Assumptions C03_model_step_is_documented_update.
Print Assumptions C03_recurrence_damped_left.
Print Assumptions C03_recurrence_damped_right.
Print Assumptions C03_recurrence_third.
Print Assumptions C03_residual_formula.
Print Assumptions C03_real_coefficients.
Print Assumptions C03_damped_geometric.
Print Assumptions C03_stop_bound.

From QVT Require Import EckartYoung Penrose.
From QV Require Import NumpySem.
Close Scope R_scope.

Section Pinv.
Variable C : CRing.
Notation qmat := (qmat C).
(* "the unique matrix satisfying the four Penrose equations": at most one matrix does, for every A of every shape and rank, over any
   commutative component ring (no division) *)
Theorem C03_penrose_solution_is_unique m n (A X Y : qmat) : penrose C m n A X -> penrose C m n A Y -> meq n m X Y.
Proof. exact (penrose_unique C m n A X Y). Qed.
(* ... and for A = U diag(s) V^H it is V diag(d) U^H with d the reciprocals of the non-zero values (s d s = s, d s d = d): the limit of the
   iterates V diag(t_k / s) U^H of both recurrences (t_k -> 1 on the non-zero values, C03_damped_geometric / C03_third_order_cubic) *)
Theorem C03_limit_satisfies_penrose m n r (U V : qmat) (s d : nat -> C) :
  meq r r (qmm m (qherm U) U) qmid -> meq r r (qmm n (qherm V) V) qmid ->
  (forall k, k < r -> (s k * d k * s k = s k)%cr) -> (forall k, k < r -> (d k * s k * d k = d k)%cr) ->
  penrose C m n (usv r U s V) (usv r V d U).
Proof. exact (factorised_pseudoinverse_is_penrose C m n r U V s d). Qed.
Theorem C03_pseudoinverse_is_the_limit m n r (U V X : qmat) (s d : nat -> C) :
  meq r r (qmm m (qherm U) U) qmid -> meq r r (qmm n (qherm V) V) qmid ->
  (forall k, k < r -> (s k * d k * s k = s k)%cr) -> (forall k, k < r -> (d k * s k * d k = d k)%cr) ->
  penrose C m n (usv r U s V) X -> meq n m X (usv r V d U).
Proof. exact (pseudoinverse_is_the_factorised_one C m n r U V X s d). Qed.
End Pinv.
(* the hypotheses are satisfiable with a zero value: U = V = I_2, s = (1, 0), d = (1, 0) over the integers *)
Example C03_penrose_hypotheses_hold :
  let s : nat -> ZR := fun k => if Nat.eqb k 0 then 1%Z else 0%Z in
  meq 2 2 (qmm 2 (qherm (@qmid ZR)) qmid) qmid /\ (forall k, k < 2 -> (s k * s k * s k = s k)%cr).
Proof.
  cbv zeta. split.
  - rewrite (qherm_id ZR 2). apply (qmm_id_l ZR 2 2).
  - intros k Hk. destruct k as [|[|k]]; [reflexivity|reflexivity|lia].
Qed.
Print Assumptions C03_penrose_solution_is_unique.
Print Assumptions C03_limit_satisfies_penrose.
