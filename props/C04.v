(* C04: Q-GMRES tells the truth about the iterate it returns; the minimal-residual specification. *)
From Coq Require Import QArith Reals Lra List Bool Arith Lia Setoid.
From QV Require Import CRing CRingR Sums Quat Mat QMat.
From QVM Require Import GmresCtl.
From QVT Require Import GmresCtlThm LeastSq.
Import ListNotations.
Close Scope Q_scope. Close Scope R_scope.

(* for EVERY sequence of cycle outcomes (any residuals, any lucky-breakdown dimensions), every tolerance and cap:
   residual, iteration count, history and converged all describe the cycle whose iterate is returned, and
   converged is reported exactly when that cycle's residual is below the tolerance *)
Theorem C04_info_truthful tol maxit cs : let i := solve tol maxit false cs in
  ret_cycle i >= 1 ->
  exists c, nth_error cs (ret_cycle i - 1) = Some c /\ res_core i = c_res c /\ iterations i = c_meff c /\
            (converged i = true <-> (c_res c < tol)%Q) /\ history i = map c_res (firstn (ret_cycle i) cs).
Proof. exact (info_truthful tol maxit cs). Qed.
Theorem C04_stops_at_first_success tol maxit cs k hist last c rest :
  cs = c :: rest -> (ltQ (c_res c) tol || Nat.ltb maxit (c_meff c) = true) -> ret_cycle (run tol maxit k cs hist last) = k.
Proof. exact (stops_at_first tol maxit cs k hist last c rest). Qed.
Theorem C04_zero_rhs tol maxit cs : (0 < tol)%Q -> let i := solve tol maxit true cs in
  ret_cycle i = 0 /\ iterations i = 0 /\ converged i = true /\ history i = [] /\ (res_core i == 0)%Q.
Proof. exact (zero_rhs_info tol maxit cs). Qed.

(* the minimal-residual specification: a coefficient vector satisfying the normal equations of the (real
   embedding of the) Krylov least-squares problem has the smallest residual among ALL coefficient vectors *)
Theorem C04_spec_minimises p q (M : nat -> nat -> R) (b y z : nat -> R) :
  normal_eq p q M b y -> (nrm2 p (resid q M b y) <= nrm2 p (resid q M b z))%R.
Proof. exact (normal_equations_minimise p q M b y z). Qed.

(* the residual history never increases: each cycle minimises over a space that contains the previous iterate (restart: q = 0, the
   right-hand side of the cycle is the previous residual) and, inside a cycle, the Krylov bases are nested *)
Theorem C04_history_never_increases p q q' (M M' : nat -> nat -> R) (b y y' : nat -> R) :
  (q <= q')%nat -> (forall i j, (j < q)%nat -> M' i j = M i j) ->
  normal_eq p q' M' b y' -> (nrm2 p (resid q' M' b y') <= nrm2 p (resid q M b y))%R.
Proof. exact (nested_spaces_monotone p q q' M M' b y y'). Qed.

Section Alg.
Variable C : CRing.
Notation qmat := (qmat C).
(* left preconditioning changes the iteration, never the solution: with M Minv = I,
   (Minv A) x = Minv b  implies  A x = b *)
Theorem C04_precond_same_solution n (A M Minv x b : qmat) :
  meq n n (qmm n M Minv) qmid -> meq n 1 (qmm n (qmm n Minv A) x) (qmm n Minv b) -> meq n 1 (qmm n A x) b.
Proof.
  intros HM H.
  rewrite <- (qmm_id_l C n 1 (qmm n A x)), <- HM.
  rewrite (qmm_assoc C n n n 1 M Minv (qmm n A x)), <- (qmm_assoc C n n n 1 Minv A x), H.
  rewrite <- (qmm_assoc C n n n 1 M Minv b), HM. apply (qmm_id_l C n 1 b).
Qed.
(* uniform real scaling does not change the solution set: (cA) x = c b  implies  A x = b  (c invertible) *)
Lemma qmm_scale_real k (A x : qmat) (c : C) i j : qmm k (qmscale c A) x i j = qscale c (qmm k A x i j).
Proof. unfold qmm, qmscale. rewrite <- (qreal_scale C), (sumQ_mul_l C). apply (sumQ_ext C). intros.
  rewrite <- (qreal_scale C). symmetry. apply (qmul_assoc C). Qed.
Theorem C04_scaling_same_solution n (A x b : qmat) (c cinv : C) : cmul cinv c = c1 ->
  meq n 1 (qmm n (qmscale c A) x) (qmscale c b) -> meq n 1 (qmm n A x) b.
Proof.
  intros Hc H i j Hi Hj. specialize (H i j Hi Hj). rewrite qmm_scale_real in H. unfold qmscale in H.
  assert (E : forall p : quat C, qscale cinv (qscale c p) = p).
  { intros p. destruct p as [pw px py pz]. unfold qscale; simpl. pose proof (cr_th C) as T.
    rewrite !(Rmul_assoc T), !Hc, !(Rmul_1_l T). reflexivity. }
  rewrite <- (E (qmm n A x i j)), <- (E (b i j)). now rewrite H.
Qed.
End Alg.

Print Assumptions C04_info_truthful.
Print Assumptions C04_zero_rhs.
Print Assumptions C04_spec_minimises.
Print Assumptions C04_precond_same_solution.
Print Assumptions C04_scaling_same_solution.

Print Assumptions C04_history_never_increases.
