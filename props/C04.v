(* C04: Q-GMRES tells the truth about the iterate it returns; the minimal-residual specification. *)
From Coq Require Import QArith Reals Lra List Bool Arith Lia Setoid.
From QV Require Import CRing CRingR Sums Quat Mat QMat.
From QVM Require Import GmresCtl.
From QVT Require Import GmresCtlThm LeastSq.
Import ListNotations.
Close Scope Q_scope. Close Scope R_scope.

(* for EVERY sequence of cycle outcomes (any residuals, any lucky-breakdown dimensions), every tolerance and cap:
   residual, iteration count, history and converged all describe the cycle whose iterate is returned, and
   converged is reported exactly when that cycle's residual is below the tolerance *)
Theorem C04_info_truthful tol maxit cs : let i := solve tol maxit false cs in
  ret_cycle i >= 1 ->
  exists c, nth_error cs (ret_cycle i - 1) = Some c /\ res_core i = c_res c /\ iterations i = c_meff c /\
            (converged i = true <-> (c_res c < tol)%Q) /\ history i = map c_res (firstn (ret_cycle i) cs).
Proof. exact (info_truthful tol maxit cs). Qed.
Theorem C04_stops_at_first_success tol maxit cs k hist last c rest :
  cs = c :: rest -> (ltQ (c_res c) tol || Nat.ltb maxit (c_meff c) = true) -> ret_cycle (run tol maxit k cs hist last) = k.
Proof. exact (stops_at_first tol maxit cs k hist last c rest). Qed.
Theorem C04_zero_rhs tol maxit cs : (0 < tol)%Q -> let i := solve tol maxit true cs in
  ret_cycle i = 0 /\ iterations i = 0 /\ converged i = true /\ history i = [] /\ (res_core i == 0)%Q.
Proof. exact (zero_rhs_info tol maxit cs). Qed.

(* the minimal-residual specification: a coefficient vector satisfying the normal equations of the (real
   embedding of the) Krylov least-squares problem has the smallest residual among ALL coefficient vectors *)
Theorem C04_spec_minimises p q (M : nat -> nat -> R) (b y z : nat -> R) :
  normal_eq p q M b y -> (nrm2 p (resid q M b y) <= nrm2 p (resid q M b z))%R.
Proof. exact (normal_equations_minimise p q M b y z). Qed.

(* the residual history never increases: each cycle minimises over a space that contains the previous iterate (restart: q = 0, the
   right-hand side of the cycle is the previous residual) and, inside a cycle, the Krylov bases are nested *)
Theorem C04_history_never_increases p q q' (M M' : nat -> nat -> R) (b y y' : nat -> R) :
  (q <= q')%nat -> (forall i j, (j < q)%nat -> M' i j = M i j) ->
  normal_eq p q' M' b y' -> (nrm2 p (resid q' M' b y') <= nrm2 p (resid q M b y))%R.
Proof. exact (nested_spaces_monotone p q q' M M' b y y'). Qed.

Section Alg.
Variable C : CRing.
Notation qmat := (qmat C).
(* left preconditioning changes the iteration, never the solution: with M Minv = I,
   (Minv A) x = Minv b  implies  A x = b *)
Theorem C04_precond_same_solution n (A M Minv x b : qmat) :
  meq n n (qmm n M Minv) qmid -> meq n 1 (qmm n (qmm n Minv A) x) (qmm n Minv b) -> meq n 1 (qmm n A x) b.
Proof.
  intros HM H.
  rewrite <- (qmm_id_l C n 1 (qmm n A x)), <- HM.
  rewrite (qmm_assoc C n n n 1 M Minv (qmm n A x)), <- (qmm_assoc C n n n 1 Minv A x), H.
  rewrite <- (qmm_assoc C n n n 1 M Minv b), HM. apply (qmm_id_l C n 1 b).
Qed.
(* uniform real scaling does not change the solution set: (cA) x = c b  implies  A x = b  (c invertible) *)
Lemma qmm_scale_real k (A x : qmat) (c : C) i j : qmm k (qmscale c A) x i j = qscale c (qmm k A x i j).
Proof. unfold qmm, qmscale. rewrite <- (qreal_scale C), (sumQ_mul_l C). apply (sumQ_ext C). intros.
  rewrite <- (qreal_scale C). symmetry. apply (qmul_assoc C). Qed.
Theorem C04_scaling_same_solution n (A x b : qmat) (c cinv : C) : cmul cinv c = c1 ->
  meq n 1 (qmm n (qmscale c A) x) (qmscale c b) -> meq n 1 (qmm n A x) b.
Proof.
  intros Hc H i j Hi Hj. specialize (H i j Hi Hj). rewrite qmm_scale_real in H. unfold qmscale in H.
  assert (E : forall p : quat C, qscale cinv (qscale c p) = p).
  { intros p. destruct p as [pw px py pz]. unfold qscale; simpl. pose proof (cr_th C) as T.
    rewrite !(Rmul_assoc T), !Hc, !(Rmul_1_l T). reflexivity. }
  rewrite <- (E (qmm n A x i j)), <- (E (b i j)). now rewrite H.
Qed.
End Alg.

From QV Require Import NumpySem.
From QVT Require Import CauchySchwarz Arnoldi ArnoldiR MGS.

Section Cyc.
Variable C : CRing.
Notation qmat := (qmat C).
(* what the Arnoldi loop stores, whatever the values of its coefficients (w_j = A v_j - sum_{i<=j} v_i h_ij, v_{j+1} h_{j+1,j} = w_j), is the
   relation A V_m = V_{m+1} H -- for every size and every cycle length *)
Theorem C04_arnoldi_relation N m (A V H : qmat) :
  (forall j l, j < m -> l < N -> qmul (V l (S j)) (H (S j) j) = qsub (qmm N A V l j) (sumQ (S j) (fun i => qmul (V l i) (H i j)))) ->
  (forall i j, j < m -> S j < i -> H i j = qzero) ->
  meq N m (qmm N A V) (qmm (S m) V H).
Proof. exact (arnoldi_relation C N m A V H). Qed.
(* hence the residual of every x0 + V_m y is V_{m+1} (beta e1 - H y), of norm ||beta e1 - H y|| when the basis is orthonormal *)
Theorem C04_cycle_residual_is_small_residual N m (A V H b x0 y e1b : qmat) :
  (forall j l, j < m -> l < N -> qmul (V l (S j)) (H (S j) j) = qsub (qmm N A V l j) (sumQ (S j) (fun i => qmul (V l i) (H i j)))) ->
  (forall i j, j < m -> S j < i -> H i j = qzero) ->
  meq N 1 (qmsub b (qmm N A x0)) (qmm (S m) V e1b) -> meq (S m) (S m) (qmm N (qherm V) V) qmid ->
  frob2 N 1 (qmsub b (qmm N A (qmadd x0 (qmm m V y)))) = frob2 (S m) 1 (qmsub e1b (qmm m H y)).
Proof. intros L Hs St Or. exact (residual_norm_is_small_problem C N m A V H L Hs b x0 y e1b St Or). Qed.
End Cyc.

(* the cycle's iterate minimises the residual over x0 + range(V_m): y from the triangular system R_m y = (W^H beta e1)[:m], with W R = H the
   Givens factorisation of C16 (W unitary, last row of R zero) *)
Theorem C04_cycle_minimises_over_krylov_space N m (A V H W Rm b x0 e1b y y' : qmat RR) :
  (forall j l, j < m -> l < N -> qmul (V l (S j)) (H (S j) j) = qsub (qmm N A V l j) (sumQ (S j) (fun i => qmul (V l i) (H i j)))) ->
  (forall i j, j < m -> S j < i -> H i j = qzero) ->
  meq N 1 (qmsub b (qmm N A x0)) (qmm (S m) V e1b) -> meq (S m) (S m) (qmm N (qherm V) V) qmid ->
  meq (S m) (S m) (qmm (S m) W (qherm W)) qmid -> meq (S m) (S m) (qmm (S m) (qherm W) W) qmid ->
  meq (S m) m (qmm (S m) W Rm) H -> (forall j, j < m -> Rm m j = qzero) ->
  meq m 1 (qmm m Rm y) (qmm (S m) (qherm W) e1b) ->
  (cycle_residual2 N m A V b x0 y <= cycle_residual2 N m A V b x0 y')%R.
Proof.
  intros L Hs St Or W1 W2 WR LR Hy.
  exact (gmres_cycle_minimises N m A V H W Rm b x0 e1b L Hs St Or W1 W2 WR LR y y' Hy).
Qed.
(* the hypotheses of the relation are met by an actual run: A = [[0, 1], [1, 0]], b = e1, x0 = 0: v0 = e1, h00 = 0, w = e2, h10 = 1, v1 = e2 *)
Example C04_arnoldi_hypotheses_hold :
  let A : qmat ZR := fun i j => if Nat.eqb (i + j) 1 then qone else qzero in
  let V : qmat ZR := qmid in
  let H : qmat ZR := fun i j => if Nat.eqb i 1 && Nat.eqb j 0 then qone else qzero in
  (forall j l, j < 1 -> l < 2 -> qmul (V l (S j)) (H (S j) j) = qsub (qmm 2 A V l j) (sumQ (S j) (fun i => qmul (V l i) (H i j)))) /\
  (forall i j, j < 1 -> S j < i -> H i j = qzero).
Proof.
  cbv zeta. split.
  - intros j l Hj Hl. assert (j = 0) by lia. subst j. destruct l as [|[|l]]; [vm_compute; reflexivity|vm_compute; reflexivity|lia].
  - intros i j Hj Hi. assert (j = 0) by lia. subst j. destruct i as [|[|i]]; [lia|lia|reflexivity].
Qed.

(* the modified Gram-Schmidt loop of the Arnoldi process, as the code runs it (h_ij = v_i^H w, w <- w - v_i h_ij for i = 0..j, then
   v_{j+1} = w / ||w||), in exact arithmetic and without breakdown: the basis stays orthonormal and the Arnoldi equations hold *)
Theorem C04_mgs_basis_is_orthonormal n m (A V H : qmat RR) (Wk : nat -> nat -> nat -> quat RR) (rho : nat -> R) :
  (forall j l, j < m -> l < n -> Wk j 0 l = qmm n A V l j) ->
  (forall j i, j < m -> i <= j -> H i j = ip n (fun l => V l i) (Wk j i)) ->
  (forall j i l, j < m -> i <= j -> l < n -> Wk j (S i) l = qsub (Wk j i l) (qmul (V l i) (H i j))) ->
  (forall j, j < m -> H (S j) j = @qreal RR (rho j)) -> (forall j, j < m -> rho j <> 0%R) ->
  (forall j, j < m -> (rho j * rho j)%R = @sumR RR n (fun l => N (Wk j (S j) l))) ->
  (forall j l, j < m -> l < n -> qmul (V l (S j)) (H (S j) j) = Wk j (S j) l) ->
  @sumR RR n (fun l => N (V l 0)) = 1%R ->
  meq (S m) (S m) (qmm n (qherm V) V) qmid /\
  (forall j l, j < m -> l < n -> qmul (V l (S j)) (H (S j) j) = qsub (qmm n A V l j) (sumQ (S j) (fun i => qmul (V l i) (H i j)))).
Proof.
  intros w0 hdef wstep hsub rne rsq vnext v0. split.
  - exact (mgs_gram_is_identity n m V H Wk rho hdef wstep hsub rne rsq vnext v0).
  - intros j l Hj Hl. exact (mgs_gives_arnoldi_equations n m A V H Wk w0 wstep vnext j l Hj Hl).
Qed.
Example C04_mgs_hypotheses_hold :
  let A : qmat RR := fun i j => if Nat.eqb (i + j) 1 then qone else qzero in
  let V : qmat RR := qmid in
  let H : qmat RR := fun i j => if Nat.eqb i 1 && Nat.eqb j 0 then qone else qzero in
  let Wk : nat -> nat -> nat -> quat RR := fun _ _ l => if Nat.eqb l 1 then qone else qzero in
  (forall j l, j < 1 -> l < 2 -> Wk j 0 l = qmm 2 A V l j) /\
  (forall j i, j < 1 -> i <= j -> H i j = ip 2 (fun l => V l i) (Wk j i)) /\
  (forall j i l, j < 1 -> i <= j -> l < 2 -> Wk j (S i) l = qsub (Wk j i l) (qmul (V l i) (H i j))) /\
  (forall j, j < 1 -> H (S j) j = @qreal RR 1%R) /\
  (forall j, j < 1 -> (1 * 1)%R = @sumR RR 2 (fun l => N (Wk j (S j) l))) /\
  (forall j l, j < 1 -> l < 2 -> qmul (V l (S j)) (H (S j) j) = Wk j (S j) l) /\
  @sumR RR 2 (fun l => N (V l 0)) = 1%R.
Proof.
  cbv zeta. repeat split.
  - intros j l Hj Hl. assert (j = 0) by lia. subst. destruct l as [|[|l]]; [| |lia]; cbv [qmm sumQ qmid Nat.eqb Nat.add]; qr.
  - intros j i Hj Hi. assert (j = 0) by lia. assert (i = 0) by lia. subst. cbv [ip sumQ qmid Nat.eqb andb]. qr.
  - intros j i l Hj Hi Hl. assert (j = 0) by lia. assert (i = 0) by lia. subst. destruct l as [|[|l]]; [| |lia]; cbv [qmid Nat.eqb andb]; qr.
  - intros j Hj. assert (j = 0) by lia. subst. reflexivity.
  - intros j Hj. cbv [sumR Nat.eqb N qnorm2 qone qzero qw qx qy qz]. cbn [car c0 c1 cadd cmul RR]. ring.
  - intros j l Hj Hl. assert (j = 0) by lia. subst. destruct l as [|[|l]]; [| |lia]; cbv [qmid Nat.eqb andb]; qr.
  - cbv [sumR qmid Nat.eqb N qnorm2 qone qzero qw qx qy qz]. cbn [car c0 c1 cadd cmul RR]. ring.
Qed.
Print Assumptions C04_info_truthful.
Print Assumptions C04_zero_rhs.
Print Assumptions C04_spec_minimises.
Print Assumptions C04_precond_same_solution.
Print Assumptions C04_scaling_same_solution.

Print Assumptions C04_history_never_increases.
Print Assumptions C04_arnoldi_relation.
Print Assumptions C04_cycle_residual_is_small_residual.
Print Assumptions C04_cycle_minimises_over_krylov_space.
Print Assumptions C04_mgs_basis_is_orthonormal.

From QVT Require Import ArnoldiExact.
Section X.
Variable C : CRing.
Notation qmat := (qmat C).
(* a cycle whose small system is solved exactly (lucky breakdown: the last row of H vanishes and H y = beta e1 is square; the cycle of full
   dimension) returns the exact solution of A x = b -- no orthonormality needed *)
Theorem C04_exact_small_solution_solves_the_system N m (A V H b x0 y e1b : qmat) :
  (forall j l, j < m -> l < N -> qmul (V l (S j)) (H (S j) j) = qsub (qmm N A V l j) (sumQ (S j) (fun i => qmul (V l i) (H i j)))) ->
  (forall i j, j < m -> S j < i -> H i j = qzero) ->
  meq N 1 (qmsub b (qmm N A x0)) (qmm (S m) V e1b) ->
  meq (S m) 1 (qmm m H y) e1b -> meq N 1 (qmm N A (qmadd x0 (qmm m V y))) b.
Proof. exact (small_solution_is_exact_solution C N m A V H b x0 y e1b). Qed.
(* at a breakdown the Krylov space is invariant (A V_m = V_m H_m) and the square part of H is injective whenever A is: the small system then
   determines y *)
Theorem C04_breakdown_square_part_is_injective N m (A V H Ainv z : qmat) :
  (forall j l, j < m -> l < N -> qmul (V l (S j)) (H (S j) j) = qsub (qmm N A V l j) (sumQ (S j) (fun i => qmul (V l i) (H i j)))) ->
  (forall i j, j < m -> S j < i -> H i j = qzero) -> (forall j, j < m -> H m j = qzero) ->
  meq m m (qmm N (qherm V) V) qmid -> meq N N (qmm N Ainv A) qmid ->
  meq N m (qmm N A V) (qmm m V H) /\ (meq m 1 (qmm m H z) (fun _ _ => qzero) -> meq m 1 z (fun _ _ => qzero)).
Proof.
  intros L Hs Br Or Ai. split.
  - exact (breakdown_invariant_subspace C N m A V H L Hs Br).
  - exact (breakdown_square_part_injective C N m A V H L Hs Br Or Ainv Ai z).
Qed.
End X.
Print Assumptions C04_exact_small_solution_solves_the_system.

From QVT Require Import SquareIso ArnoldiFinite.
(* finite termination: at a lucky breakdown (at the latest when the basis has N vectors) the small square system has a solution and x0 + V_m y solves
   A x = b exactly -- "x solves the system after at most n cycles, also when the Krylov space becomes invariant early" in exact arithmetic *)
Theorem C04_breakdown_reaches_the_exact_solution N m (A V H Ainv b x0 e1b : qmat RR) :
  (forall j l, j < m -> l < N -> qmul (V l (S j)) (H (S j) j) = qsub (qmm N A V l j) (sumQ (S j) (fun i => qmul (V l i) (H i j)))) ->
  (forall i j, j < m -> S j < i -> H i j = qzero) -> (forall j, j < m -> H m j = qzero) ->
  meq m m (qmm N (qherm V) V) qmid -> meq N N (qmm N Ainv A) qmid ->
  meq N 1 (qmsub b (qmm N A x0)) (qmm (S m) V e1b) -> e1b m 0 = qzero ->
  exists y : qmat RR, meq N 1 (qmm N A (qmadd x0 (qmm m V y))) b.
Proof. exact (breakdown_reaches_the_exact_solution N m A V H Ainv b x0 e1b). Qed.
Print Assumptions C04_breakdown_reaches_the_exact_solution.
