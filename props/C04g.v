(* C04, generated part: the restart cycle of QGMRESSolver._GMRESQsparse as regenerated from quatica/solver.py on every run (qtrans/gen_c04.py). *)
From Coq Require Import Reals Lra Arith Lia.
From QV Require Import CRing CRingR Sums Quat Mat QMat.
From QVT Require Import CauchySchwarz Arnoldi ArnoldiR ArnoldiExact MGS.
From B Require Import Gen_C04.
Close Scope R_scope.

(* the equations the regenerated loop maintains give an orthonormal basis and the Arnoldi relation, for every size and cycle length *)
Theorem C04_generated_cycle_is_an_arnoldi_process N m (A V H : qmat RR) Wk rho (b x0 e1b : qmat RR) :
  gen_cycle_equations N m A V H Wk rho b x0 e1b ->
  meq (S m) (S m) (qmm N (qherm V) V) qmid /\ meq N m (qmm N A V) (qmm (S m) V H).
Proof.
  intros (St & U0 & W0 & Hd & Ws & Hs & Rs & Rn & Vn & Hz). split.
  - exact (mgs_gram_is_identity N m V H Wk rho Hd Ws Hs Rn Rs Vn U0).
  - apply (arnoldi_relation RR N m A V H); [|exact Hz].
    intros j l Hj Hl. exact (mgs_gives_arnoldi_equations N m A V H Wk W0 Ws Vn j l Hj Hl).
Qed.
(* hence, with the Givens factorisation W R = H of C16 and y from the triangular solve, the cycle's iterate x0 + V_m y has the smallest residual of
   all x in x0 + range(V_m) -- "each cycle's iterate minimises the residual over its Krylov space" for the regenerated loop *)
Theorem C04_generated_cycle_minimises N m (A V H : qmat RR) Wk rho (b x0 e1b W Rm y y' : qmat RR) :
  gen_cycle_equations N m A V H Wk rho b x0 e1b ->
  meq (S m) (S m) (qmm (S m) W (qherm W)) qmid -> meq (S m) (S m) (qmm (S m) (qherm W) W) qmid ->
  meq (S m) m (qmm (S m) W Rm) H -> (forall j, j < m -> Rm m j = qzero) ->
  meq m 1 (qmm m Rm y) (qmm (S m) (qherm W) e1b) ->
  (cycle_residual2 N m A V b x0 y <= cycle_residual2 N m A V b x0 y')%R.
Proof.
  intros G W1 W2 WR LR Hy.
  destruct (C04_generated_cycle_is_an_arnoldi_process N m A V H Wk rho b x0 e1b G) as [Or _].
  destruct G as (St & U0 & W0 & Hd & Ws & Hs & Rs & Rn & Vn & Hz).
  assert (L : forall j l, j < m -> l < N -> qmul (V l (S j)) (H (S j) j) = qsub (qmm N A V l j) (sumQ (S j) (fun i => qmul (V l i) (H i j)))).
  { intros j l Hj Hl. exact (mgs_gives_arnoldi_equations N m A V H Wk W0 Ws Vn j l Hj Hl). }
  exact (gmres_cycle_minimises N m A V H W Rm b x0 e1b L Hz St Or W1 W2 WR LR y y' Hy).
Qed.
(* ... in particular a cycle never increases the residual: y' = 0 is a competitor, x0 + V_m 0 = x0 (the restart residual is the previous one) *)
Theorem C04_generated_cycle_does_not_increase_the_residual N m (A V H : qmat RR) Wk rho (b x0 e1b W Rm y : qmat RR) :
  gen_cycle_equations N m A V H Wk rho b x0 e1b ->
  meq (S m) (S m) (qmm (S m) W (qherm W)) qmid -> meq (S m) (S m) (qmm (S m) (qherm W) W) qmid ->
  meq (S m) m (qmm (S m) W Rm) H -> (forall j, j < m -> Rm m j = qzero) ->
  meq m 1 (qmm m Rm y) (qmm (S m) (qherm W) e1b) ->
  (cycle_residual2 N m A V b x0 y <= frob2 N 1 (qmsub b (qmm N A x0)))%R.
Proof.
  intros G W1 W2 WR LR Hy.
  pose proof (C04_generated_cycle_minimises N m A V H Wk rho b x0 e1b W Rm y (fun _ _ => qzero) G W1 W2 WR LR Hy) as M.
  assert (E : meq N 1 (qmsub b (qmm N A (qmadd x0 (qmm m V (fun _ _ => qzero))))) (qmsub b (qmm N A x0))).
  { assert (Z : meq N 1 (qmadd x0 (qmm m V (fun _ _ => qzero))) x0).
    { intros i j _ _. unfold qmadd, qmm. rewrite (sumQ_ext RR m _ (fun _ => qzero)); [rewrite (sumQ_zero RR)|intros]; apply qeq; cbn [qadd qmul qzero qw qx qy qz]; cbn [car c0 cadd cmul csub RR]; ring. }
    rewrite Z. reflexivity. }
  unfold cycle_residual2 in M at 2. rewrite (frob2_meq RR N 1 _ _ E) in M. exact M.
Qed.
Print Assumptions C04_generated_cycle_is_an_arnoldi_process.
Print Assumptions C04_generated_cycle_minimises.
Print Assumptions C04_generated_cycle_does_not_increase_the_residual.
