(* C05: Q-SVD glue around the real SVD oracle. *)
From Coq Require Import Arith Lia Ring ZArith List.
From QV Require Import CRing Sums Quat Mat QMat NumpySem.
From QVT Require Import Embed Glue.
From QVM Require Import QsvdGlue.
From Coq Require Import Reals Lra.
From QV Require Import CRingR.
From QVT Require Import EckartYoung EckartYoungR SVUnique.
Close Scope R_scope.
Import ListNotations.

Section P.
Variable C : CRing.
Notation qmat := (qmat C).
(* the contraction used by the glue IS rcontract (reads the first column of each 4x4 block) *)
Theorem C05_glue_is_first_column_contraction (R : rmat C) i j :
  let '(w, x, y, z) := contract C R i j in mkQ w x y z = rcontract R i j.
Proof. reflexivity. Qed.
(* structured orthogonal oracle factors give unitary quaternion factors and an exact factorisation *)
Theorem C05_structured_factor_is_unitary m p (U : qmat) :
  (forall I J, I < 4 * p -> J < 4 * p -> rmm (4 * m) (rmT (rexp U)) (rexp U) I J = rmid I J) ->
  forall i j, i < p -> j < p -> qmm m (qherm U) U i j = qmid i j.
Proof. exact (structured_orthogonal_gives_unitary C m p U). Qed.
Theorem C05_structured_factors_reconstruct m k n (A X Y : qmat) :
  (forall I J, I < 4 * m -> J < 4 * n -> rexp A I J = rmm (4 * k) (rexp X) (rexp Y) I J) ->
  forall i j, i < m -> j < n -> A i j = qmm k X Y i j.
Proof. exact (structured_product_gives_product C m k n A X Y). Qed.
Theorem C05_contraction_recovers_structured_factor (U : qmat) i j : rcontract (rexp U) i j = U i j.
Proof. exact (rcontract_rexp C U i j). Qed.
Theorem C05_every4_picks (sr sigma : nat -> C) : (forall i c, c < 4 -> sr (4 * i + c) = sigma i) -> forall i, sr (4 * i) = sigma i.
Proof. exact (every4_picks C sr sigma). Qed.
End P.


Section V.
Variable C : CRing.
Notation qmat := (qmat C).
(* the value of the truncation error, for every size, every number r of retained columns and every R <= r: the truncated triple
   (leading R columns of U and V, leading R values) misses A = U diag(s) V^H by exactly the discarded values *)
Theorem C05_truncation_error_value m n r R (U V : qmat) (s : nat -> C) : R <= r ->
  meq r r (qmm m (qherm U) U) qmid -> meq r r (qmm n (qherm V) V) qmid ->
  frob2 m n (qmsub (usv r U s V) (usv R U s V)) = sumR (r - R) (fun k => (s (R + k)%nat * s (R + k)%nat)%cr).
Proof. intros HR HU HV. rewrite (eckart_young_value C m n r R U V s HR HU HV). exact (tail_sum C r R s HR). Qed.
End V.

(* ... and no matrix Q W with Q having p orthonormal columns (no matrix of rank <= p) is closer to A *)
Theorem C05_truncation_is_optimal m n r p (U V Qm W : qmat RR) (s : nat -> R) : p <= r ->
  meq r r (qmm m (qherm U) U) qmid -> meq r r (qmm n (qherm V) V) qmid -> meq p p (qmm m (qherm Qm) Qm) qmid ->
  (forall k, k < r -> (0 <= s k)%R) -> (forall k l, k <= l -> l < r -> (s l <= s k)%R) ->
  (frob2 m n (qmsub (@usv RR r U s V) (@usv RR p U s V)) <= frob2 m n (qmsub (@usv RR r U s V) (qmm p Qm W)))%R.
Proof.
  intros HR HU HV HQ H0 Hm. rewrite (eckart_young_value RR m n r p U V s HR HU HV).
  exact (eckart_young_optimal m n r p U V Qm W s HR HU HV HQ H0 Hm).
Qed.
(* the hypotheses are satisfiable: U = V = I_3, s = (3, 2, 1), Q = the first column of the identity *)
Example C05_optimality_hypotheses_hold :
  meq 3 3 (qmm 3 (qherm (@qmid RR)) qmid) qmid /\ meq 1 1 (qmm 3 (qherm (@qmid RR)) qmid) qmid /\
  (forall k, k < 3 -> (0 <= INR (3 - k))%R) /\ (forall k l, k <= l -> l < 3 -> (INR (3 - l) <= INR (3 - k))%R).
Proof.
  split; [|split; [|split]].
  - rewrite (qherm_id RR 3). apply (qmm_id_l RR 3 3).
  - intros i j Hi Hj. assert (i = 0) by lia. assert (j = 0) by lia. subst. vm_compute. f_equal; ring.
  - intros. apply pos_INR.
  - intros. apply le_INR. lia.
Qed.
(* the singular values are determined by the matrix: two factorisations with orthonormal columns and sorted non-negative values agree *)
Theorem C05_singular_values_are_determined m n r (U V U' V' : qmat RR) (s s' : nat -> R) :
  meq r r (qmm m (qherm U) U) qmid -> meq r r (qmm n (qherm V) V) qmid ->
  meq r r (qmm m (qherm U') U') qmid -> meq r r (qmm n (qherm V') V') qmid ->
  (forall k, (k < r)%nat -> (0 <= s k)%R) -> (forall k l, (k <= l)%nat -> (l < r)%nat -> (s l <= s k)%R) ->
  (forall k, (k < r)%nat -> (0 <= s' k)%R) -> (forall k l, (k <= l)%nat -> (l < r)%nat -> (s' l <= s' k)%R) ->
  meq m n (@usv RR r U s V) (@usv RR r U' s' V') ->
  forall k, (k < r)%nat -> s k = s' k.
Proof. exact (singular_values_unique m n r U V U' V' s s'). Qed.

(* ... but the oracle's documented contract (orthogonal factors, A_r = U_r Sigma V_r^T) does not imply
   structure: for A = I_2 the answer U_r = V_r = P (rows 1 and 4 exchanged), Sigma = I_8 is a valid real
   SVD, and the contracted U = [[1, i], [0, 0]] is not unitary *)
Open Scope Z_scope.
Definition Pr : rmat ZR := fun I J =>
  let s x := if Nat.eqb x 1 then 4%nat else if Nat.eqb x 4 then 1%nat else x in if Nat.eqb (s I) J then 1 else 0.
Theorem C05_unstructured_oracle_refuted :
  (* valid real SVD of the embedding of I_2 ... *)
  (forall I J, (I < 8)%nat -> (J < 8)%nat -> rmm 8 (rmT Pr) Pr I J = rmid I J) /\
  (forall I J, (I < 8)%nat -> (J < 8)%nat -> rmm 8 (rmm 8 Pr rmid) (rmT Pr) I J = rexp (@qmid ZR) I J) /\
  (* ... whose contraction is not unitary *)
  qmm 2 (qherm (rcontract Pr)) (rcontract Pr) 0%nat 1%nat <> qmid 0%nat 1%nat.
Proof.
  split; [|split].
  - intros I J HI HJ. do 8 (destruct I as [|I]; [do 8 (destruct J as [|J]; [vm_compute; reflexivity|]); lia|]). lia.
  - intros I J HI HJ. do 8 (destruct I as [|I]; [do 8 (destruct J as [|J]; [vm_compute; reflexivity|]); lia|]). lia.
  - vm_compute. discriminate.
Qed.

(* the operator-norm version: a matrix that factors through i rows (X = G W, W with i rows: every matrix of rank <= i) leaves a residual whose
   every operator bound is at least s_i *)
From QVT Require Import Norms SpectralNorm Kernel MinMax.
Theorem C05_no_low_rank_matrix_is_closer_in_operator_norm m n r i (U V G Wr : qmat RR) (s : nat -> R) (M : R) : (i < r)%nat ->
  meq r r (qmm m (qherm U) U) qmid -> meq r r (qmm n (qherm V) V) qmid ->
  (forall k, (k < r)%nat -> (0 <= s k)%R) -> (forall k l, (k <= l)%nat -> (l < r)%nat -> (s l <= s k)%R) ->
  op_bound m n (qmsub (@usv RR r U s V) (qmm i G Wr)) M -> (s i <= M)%R.
Proof. exact (low_rank_competitor_bound m n r i U V G Wr s M). Qed.
Print Assumptions C05_structured_factor_is_unitary.
Print Assumptions C05_structured_factors_reconstruct.
Print Assumptions C05_unstructured_oracle_refuted.
Print Assumptions C05_truncation_error_value.
Print Assumptions C05_truncation_is_optimal.
Print Assumptions C05_singular_values_are_determined.
Print Assumptions C05_no_low_rank_matrix_is_closer_in_operator_norm.

From QVT Require Import Weyl EckartYoungGeneral.
Close Scope Z_scope.
(* Weyl's inequality: sigma_{i+j}(A + B) <= sigma_i(A) + sigma_j(B); with j = 0 the singular values move by at most the spectral norm of a
   perturbation (they are 1-Lipschitz), which is what "to rounding" means for the values returned by the Q-SVD *)
Theorem C05_weyl_inequality m n ra rb rc i j (Ua Va Ub Vb Uc Vc : qmat RR) (sa sb sc : nat -> R) :
  i < ra -> j < rb -> i + j < rc ->
  meq ra ra (qmm m (qherm Ua) Ua) qmid -> meq ra ra (qmm n (qherm Va) Va) qmid ->
  meq rb rb (qmm m (qherm Ub) Ub) qmid -> meq rb rb (qmm n (qherm Vb) Vb) qmid ->
  meq rc rc (qmm m (qherm Uc) Uc) qmid -> meq rc rc (qmm n (qherm Vc) Vc) qmid ->
  (forall k, k < ra -> (0 <= sa k)%R) -> (forall a b, a <= b -> b < ra -> (sa b <= sa a)%R) ->
  (forall k, k < rb -> (0 <= sb k)%R) -> (forall a b, a <= b -> b < rb -> (sb b <= sb a)%R) ->
  (forall k, k < rc -> (0 <= sc k)%R) -> (forall a b, a <= b -> b < rc -> (sc b <= sc a)%R) ->
  meq m n (@usv RR rc Uc sc Vc) (qmadd (@usv RR ra Ua sa Va) (@usv RR rb Ub sb Vb)) ->
  (sc (i + j)%nat <= sa i + sb j)%R.
Proof. exact (weyl_inequality m n ra rb rc i j Ua Va Ub Vb Uc Vc sa sb sc). Qed.
(* Eckart-Young against EVERY matrix of rank <= R (X = G W with W of R rows), no orthonormal factor asked for: the discarded values bound the
   Frobenius distance from below -- together with C05_truncation_error_value the truncation attains the optimum *)
Theorem C05_truncation_is_optimal_against_every_low_rank_matrix m n q p (Ua Va Ux Vx Ue Ve G W : qmat RR) (sa sx se : nat -> R) :
  p < q ->
  meq q q (qmm m (qherm Ua) Ua) qmid -> meq q q (qmm n (qherm Va) Va) qmid ->
  meq q q (qmm m (qherm Ux) Ux) qmid -> meq q q (qmm n (qherm Vx) Vx) qmid ->
  meq q q (qmm m (qherm Ue) Ue) qmid -> meq q q (qmm n (qherm Ve) Ve) qmid ->
  (forall k, k < q -> (0 <= sa k)%R) -> (forall a b, a <= b -> b < q -> (sa b <= sa a)%R) ->
  (forall k, k < q -> (0 <= sx k)%R) -> (forall a b, a <= b -> b < q -> (sx b <= sx a)%R) ->
  (forall k, k < q -> (0 <= se k)%R) -> (forall a b, a <= b -> b < q -> (se b <= se a)%R) ->
  meq m n (qmm p G W) (@usv RR q Ux sx Vx) ->
  meq m n (qmsub (@usv RR q Ua sa Va) (qmm p G W)) (@usv RR q Ue se Ve) ->
  (@sumR RR (q - p) (fun k => sa (p + k)%nat * sa (p + k)%nat) <= frob2 m n (qmsub (@usv RR q Ua sa Va) (qmm p G W)))%R.
Proof. exact (eckart_young_frobenius_general m n q p Ua Va Ux Vx Ue Ve G W sa sx se). Qed.
Print Assumptions C05_weyl_inequality.
Print Assumptions C05_truncation_is_optimal_against_every_low_rank_matrix.
