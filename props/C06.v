(* C06: quaternion QR glue around the real QR oracle. *)
From Coq Require Import Arith Lia Ring ZArith List.
From QV Require Import CRing Sums Quat Mat QMat NumpySem.
From QVT Require Import Embed Glue QRGram.
From QVM Require Import QsvdGlue.
Import ListNotations.

Section P.
Variable C : CRing.
Notation qmat := (qmat C).
(* structured real factors Q_r = rexp Q (orthonormal columns), R_r = rexp R, A_r = Q_r R_r, R_r upper triangular
   give A = Q R, Q^H Q = I and an upper-triangular (trapezoidal) quaternion R *)
Theorem C06_structured_Q_is_orthonormal m p (Qm : qmat) :
  (forall I J, I < 4 * p -> J < 4 * p -> rmm (4 * m) (rmT (rexp Qm)) (rexp Qm) I J = rmid I J) ->
  forall i j, i < p -> j < p -> qmm m (qherm Qm) Qm i j = qmid i j.
Proof. exact (structured_orthogonal_gives_unitary C m p Qm). Qed.
Theorem C06_structured_factors_reconstruct m k n (A Qm Rm : qmat) :
  (forall I J, I < 4 * m -> J < 4 * n -> rexp A I J = rmm (4 * k) (rexp Qm) (rexp Rm) I J) ->
  forall i j, i < m -> j < n -> A i j = qmm k Qm Rm i j.
Proof. exact (structured_product_gives_product C m k n A Qm Rm). Qed.
Theorem C06_contract_of_triangular (R : rmat C) :
  (forall I J, J < I -> R I J = c0) -> forall i j, j < i -> rcontract R i j = qzero.
Proof. exact (contract_of_upper_triangular C R). Qed.
(* wide case (as repaired): with Q unitary (Q Q^H = I) and R := [R1, Q^H A2], A = Q R column block by column block *)
Theorem C06_wide_completion m p (Qm A2 : qmat) :
  meq m m (qmm m Qm (qherm Qm)) qmid -> meq m p (qmm m Qm (qmm m (qherm Qm) A2)) A2.
Proof. intros H. rewrite <- (qmm_assoc C m m m p Qm (qherm Qm) A2), H. apply (qmm_id_l C m p A2). Qed.
(* R is recomputed as Q^H A: if Q has orthonormal columns and A = Q R' for SOME R' (the structured factorisation),
   then Q^H A = R', so A = Q (Q^H A) *)
Theorem C06_R_recomputed m n (A Qm R' : qmat) :
  meq n n (qmm m (qherm Qm) Qm) qmid -> meq m n A (qmm n Qm R') -> meq n n (qmm m (qherm Qm) A) R'.
Proof. intros HQ HA. rewrite HA, <- (qmm_assoc C n m n n (qherm Qm) Qm R'), HQ. apply (qmm_id_l C n n R'). Qed.
(* what any QR factorisation preserves: A = Q R with Q^H Q = I gives A^H A = R^H R (R is a Cholesky-type factor of the Gram matrix),
   ||A||_F = ||R||_F, and column j of R has the norm of column j of A *)
Theorem C06_gram_of_A_is_gram_of_R m k n (A Qm Rm : qmat) :
  meq k k (qmm m (qherm Qm) Qm) qmid -> meq m n A (qmm k Qm Rm) -> meq n n (qmm m (qherm A) A) (qmm k (qherm Rm) Rm).
Proof. exact (qr_gram C m k n A Qm Rm). Qed.
Theorem C06_frobenius_norm_of_R m k n (A Qm Rm : qmat) :
  meq k k (qmm m (qherm Qm) Qm) qmid -> meq m n A (qmm k Qm Rm) -> frob2 m n A = frob2 k n Rm.
Proof. exact (qr_frobenius C m k n A Qm Rm). Qed.
Theorem C06_column_norms_of_R m k n (A Qm Rm : qmat) :
  meq k k (qmm m (qherm Qm) Qm) qmid -> meq m n A (qmm k Qm Rm) ->
  forall j, j < n -> sumR m (fun i => qnorm2 (A i j)) = sumR k (fun i => qnorm2 (Rm i j)).
Proof. exact (qr_column_norms C m k n A Qm Rm). Qed.
End P.

(* the QR contract alone does not give structure: A = 0 (2x2), Q_r = P (rows 1 and 4 exchanged), R_r = 0
   is a valid real QR, and the contracted Q is not unitary *)
Open Scope Z_scope.
Definition Pr : rmat ZR := fun I J =>
  let s x := if Nat.eqb x 1 then 4%nat else if Nat.eqb x 4 then 1%nat else x in if Nat.eqb (s I) J then 1 else 0.
Theorem C06_rank_deficient_oracle_refuted :
  (forall I J, (I < 8)%nat -> (J < 8)%nat -> rmm 8 (rmT Pr) Pr I J = rmid I J) /\
  (forall I J, (I < 8)%nat -> (J < 8)%nat -> rmm 8 Pr (@rmzero ZR) I J = rexp (fun _ _ => @qzero ZR) I J) /\
  qmm 2 (qherm (rcontract Pr)) (rcontract Pr) 0%nat 1%nat <> qmid 0%nat 1%nat.
Proof.
  split; [|split].
  - intros I J HI HJ. do 8 (destruct I as [|I]; [do 8 (destruct J as [|J]; [vm_compute; reflexivity|]); lia|]). lia.
  - intros I J HI HJ. do 8 (destruct I as [|I]; [do 8 (destruct J as [|J]; [vm_compute; reflexivity|]); lia|]). lia.
  - vm_compute. discriminate.
Qed.
Print Assumptions C06_structured_Q_is_orthonormal.
Print Assumptions C06_structured_factors_reconstruct.
Print Assumptions C06_contract_of_triangular.
(* ------------------------------------------------------------------------------------------------
   qr_qua, data flow regenerated from the source (qtrans/gen_c06.py) *)
From B Require Import Gen_C06.
Section Gen.
Variable C : CRing.
Notation qmat := (qmat C).
(* wide input [X1 X2]: with (Q, R_lead) the factors of the leading square block and Q unitary, Q [R_lead, R_rest] = [X1, X2] *)
Theorem C06_gen_wide_reconstructs m p (Qm R1 X1 X2 : qmat) :
  meq m m (qmm m Qm (qherm Qm)) qmid -> meq m m X1 (qmm m Qm R1) ->
  meq m m (qmm m Qm R1) X1 /\ meq m p (qmm m Qm (gen_qr_wide_R_rest C m p Qm X2)) X2.
Proof. intros HQ H1. split; [symmetry; exact H1|]. unfold gen_qr_wide_R_rest.
  rewrite <- (qmm_assoc C m m m p Qm (qherm Qm) X2), HQ. apply (qmm_id_l C m p X2). Qed.
(* tall / square input: if X = Q R' for an upper-triangular R' (what the structured real QR provides) and Q^H Q = I,
   then the recomputed and cleaned R is R' and X = Q R; R is upper triangular whatever Q is *)
Theorem C06_gen_tall_R_upper_triangular m n (Qm X : qmat) (i j : nat) : (j < i)%nat -> gen_qr_tall_R C m n Qm X i j = qzero.
Proof. intros H. unfold gen_qr_tall_R. now replace (Nat.ltb j i) with true by (symmetry; apply Nat.ltb_lt; exact H). Qed.
Theorem C06_gen_tall_reconstructs m n (Qm X R' : qmat) :
  meq n n (qmm m (qherm Qm) Qm) qmid -> meq m n X (qmm n Qm R') -> (forall i j : nat, (i < n)%nat -> (j < i)%nat -> R' i j = qzero) ->
  meq n n (gen_qr_tall_R C m n Qm X) R' /\ meq m n X (qmm n Qm (gen_qr_tall_R C m n Qm X)).
Proof.
  intros HQ HX HT.
  assert (E : meq n n (gen_qr_tall_R C m n Qm X) R').
  { intros i j Hi Hj. unfold gen_qr_tall_R. destruct (Nat.ltb_spec j i) as [L|L]; [symmetry; now apply HT|].
    assert (P : meq n n (qmm m (qherm Qm) X) R').
    { rewrite HX, <- (qmm_assoc C n m n n (qherm Qm) Qm R'), HQ. apply (qmm_id_l C n n R'). }
    now apply P. }
  split; [exact E|]. rewrite E. exact HX.
Qed.
End Gen.

Print Assumptions C06_wide_completion.
Print Assumptions C06_gen_wide_reconstructs.
Print Assumptions C06_gen_tall_reconstructs.
Print Assumptions C06_R_recomputed.
Print Assumptions C06_rank_deficient_oracle_refuted.
Print Assumptions C06_gram_of_A_is_gram_of_R.
Print Assumptions C06_frobenius_norm_of_R.
Print Assumptions C06_column_norms_of_R.
