(* C07: LU with partial pivoting.  Theorems about the hand model (coq/model/LU.v), which the
   correspondence run ties to quatica/decomp/LU.py on every check. *)
From Coq Require Import Arith Lia Bool List ZArith QArith Qcanon.
From QV Require Import CRing Sums Quat Mat QMat.
From QVM Require Import LU LUexec.
From QVT Require Import LUthm LUinst LUmult.
Import ListNotations.
Close Scope Q_scope. Open Scope nat_scope.

Section P.
Variable C : CRing.
Variable inv : quat C -> quat C.
Variable small : quat C -> bool.
Variable pivot : nat -> qmat C -> nat -> nat.
Variable retab : nat -> nat -> qmat C -> qmat C.
Variable retabp : nat -> (nat -> nat) -> (nat -> nat).
Hypothesis inv_l : forall p, small p = false -> qmul (inv p) p = qone.
Hypothesis pivot_range : forall m W j, j < m -> j <= pivot m W j < m.
Hypothesis retab_ok : forall m n W i c, i < m -> c < n -> retab m n W i c = W i c.
Hypothesis retabp_ok : forall m IP i, i < m -> retabp m IP i = IP i.

(* every shape, every entry, EVERY pivot rule that picks a row in [j, m): returns => P A = L U *)
Theorem C07_PA_eq_LU m n A Wf IPf : lu C inv small pivot retab retabp m n A = Some (Wf, IPf) ->
  forall i c, i < m -> c < n -> A (IPf i) c = qmm (Nat.min m n) (Lof C Wf) (Uof C Wf) i c.
Proof. exact (lu_PA_eq_LU C inv small pivot retab retabp inv_l pivot_range retab_ok retabp_ok m n A Wf IPf). Qed.
Theorem C07_one_step_invariant m n A j W IP W' IP' : j < m -> Inv C m n A j W IP ->
  step C inv small pivot m j W IP = Some (W', IP') -> Inv C m n A (S j) W' IP'.
Proof. exact (step_preserves C inv small pivot inv_l pivot_range m n A j W IP W' IP'). Qed.
Theorem C07_IP_is_perm m n A Wf IPf : lu C inv small pivot retab retabp m n A = Some (Wf, IPf) -> is_perm m IPf.
Proof. exact (lu_IP_is_perm C inv small pivot retab retabp pivot_range retabp_ok m n A Wf IPf). Qed.
Theorem C07_two_output_A_eq_LU m n A Wf IPf : lu C inv small pivot retab retabp m n A = Some (Wf, IPf) ->
  forall i c, i < m -> c < n -> A (IPf i) c = qmm (Nat.min m n) (Lperm C m Wf IPf) (Uof C Wf) (IPf i) c.
Proof. exact (lu_two_output C inv small pivot retab retabp inv_l pivot_range retab_ok retabp_ok m n A Wf IPf). Qed.
Theorem C07_L_unit_lower (W : qmat C) i k : (i < k -> Lof C W i k = qzero) /\ Lof C W i i = qone.
Proof. exact (L_unit_lower C W i k). Qed.
Theorem C07_U_upper (W : qmat C) k c : c < k -> Uof C W k c = qzero.
Proof. exact (U_upper C W k c). Qed.
Theorem C07_P_is_permutation_matrix IP i r : Pof C IP i r = if r =? IP i then qone else qzero.
Proof. exact (P_is_permutation_matrix C IP i r). Qed.
(* raise-or-reproduce: the model never returns factors that do not reproduce A *)
Theorem C07_raises_or_reproduces m n A :
  lu C inv small pivot retab retabp m n A = None \/
  exists Wf IPf, lu C inv small pivot retab retabp m n A = Some (Wf, IPf) /\
    forall i c, i < m -> c < n -> A (IPf i) c = qmm (Nat.min m n) (Lof C Wf) (Uof C Wf) i c.
Proof. destruct (lu C inv small pivot retab retabp m n A) as [[Wf IPf]|] eqn:E; [right|left; reflexivity].
  exists Wf, IPf. split; [reflexivity|]. exact (C07_PA_eq_LU m n A Wf IPf E). Qed.
End P.

(* the executed instance (Qc, first arg-max of the squared modulus, |pivot|^2 < 1e-30 guard) *)
Theorem C07_exec_PA_eq_LU m n A Wf IPf : luQ m n A = Some (Wf, IPf) ->
  forall i c, i < m -> c < n -> A (IPf i) c = qmm (Nat.min m n) (Lof QcR Wf) (Uof QcR Wf) i c.
Proof. exact (luQ_PA_eq_LU m n A Wf IPf). Qed.
(* every multiplier of the executed instance has modulus at most 1 (partial pivoting picks the arg-max of the
   squared modulus and the quotient is formed with a non-small pivot) *)
Theorem C07_exec_multipliers_at_most_one m n A Wf IPf : luQ m n A = Some (Wf, IPf) ->
  forall i k, k < i < m -> k < n -> (qn2Q (Lof QcR Wf i k) <= 1)%Qc.
Proof. exact (luQ_multipliers_le_1 m n A Wf IPf). Qed.
Theorem C07_exec_two_output m n A Wf IPf : luQ m n A = Some (Wf, IPf) ->
  forall i c, i < m -> c < n -> A (IPf i) c = qmm (Nat.min m n) (Lperm QcR m Wf IPf) (Uof QcR Wf) (IPf i) c.
Proof. exact (luQ_two_output m n A Wf IPf). Qed.

(* non-vacuity: the model returns on a concrete 3x3 input whose pivot order is a 3-cycle *)
Definition zq (a b c d : Z) : quat QcR := @mkQ QcR (Q2Qc (inject_Z a)) (Q2Qc (inject_Z b)) (Q2Qc (inject_Z c)) (Q2Qc (inject_Z d)).
Definition A3 : qmat QcR := qof_listQ [[zq 1 0 0 0; zq 2 0 0 0; zq 3 0 0 0]; [zq 4 0 0 0; zq 1 0 0 0; zq 1 0 0 0]; [zq 2 0 0 0; zq 5 0 0 0; zq 1 0 0 0]].
Example C07_model_returns_on_3cycle :
  match luQ 3 3 A3 with Some (_, IP) => map IP [0;1;2] = [1;2;0] | None => False end.
Proof. vm_compute. reflexivity. Qed.

Print Assumptions C07_PA_eq_LU.
Print Assumptions C07_one_step_invariant.
Print Assumptions C07_IP_is_perm.
Print Assumptions C07_two_output_A_eq_LU.
Print Assumptions C07_raises_or_reproduces.
Print Assumptions C07_exec_PA_eq_LU.
Print Assumptions C07_exec_two_output.
Print Assumptions C07_exec_multipliers_at_most_one.

(* why a zero pivot is reported: an upper-triangular factor with a zero diagonal entry makes A singular (over the real quaternions) *)
From Coq Require Import Reals.
From QV Require Import CRingR.
From QVT Require Import Kernel SingularU.
Theorem C07_zero_diagonal_gives_null_vector : forall n (U : qmat RR) k,
  (forall i j, (i < n)%nat -> (j < i)%nat -> U i j = qzero) -> (k < n)%nat -> U k k = qzero ->
  exists z : nat -> quat RR, (exists j, (j < n)%nat /\ z j <> qzero) /\
    forall r, (r < n)%nat -> sumQ n (fun j => qmul (U r j) (z j)) = qzero.
Proof. exact zero_diagonal_gives_null_vector. Qed.
Theorem C07_zero_pivot_means_singular : forall n (A L U : qmat RR) (IP : nat -> nat) k,
  (forall i, (i < n)%nat -> (IP i < n)%nat) -> (forall i i', (i < n)%nat -> (i' < n)%nat -> IP i = IP i' -> i = i') ->
  (forall i c, (i < n)%nat -> (c < n)%nat -> A (IP i) c = qmm n L U i c) ->
  (forall i j, (i < n)%nat -> (j < i)%nat -> U i j = qzero) -> (k < n)%nat -> U k k = qzero ->
  exists z : nat -> quat RR, (exists j, (j < n)%nat /\ z j <> qzero) /\
    forall r, (r < n)%nat -> sumQ n (fun c => qmul (A r c) (z c)) = qzero.
Proof. exact zero_pivot_means_singular. Qed.
(* non-vacuity: the 2 x 2 matrix with rows (1 1), (0 0) is upper triangular with a zero second pivot *)
Example C07_zero_pivot_hypotheses_met :
  let U : qmat RR := fun i j => if Nat.eqb i 0 then qone else qzero in
  (forall i j, (i < 2)%nat -> (j < i)%nat -> U i j = qzero) /\ (1 < 2)%nat /\ U 1%nat 1%nat = qzero.
Proof. cbv zeta. split; [|split; [lia|reflexivity]]. intros i j Hi Hj. destruct i as [|i]; [lia|reflexivity]. Qed.
Print Assumptions C07_zero_diagonal_gives_null_vector.
Print Assumptions C07_zero_pivot_means_singular.
