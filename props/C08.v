(* C08: Hermitian eigendecomposition and tridiagonalisation are exact unitary reductions. *)
From Coq Require Import Reals Arith Lia List.
From QV Require Import CRing Sums Quat Mat QMat CRingR FOps FOpsR.
From QVM Require Import Householder.
From QVT Require Import Reflector HouseholderR.
Close Scope R_scope. Open Scope nat_scope.

(* the coded reflector (householder_matrix(a, e1), any length, zero column or not) is unitary on both sides *)
Theorem C08_reflector_unitary (m : nat) (a : nat -> fq ROps) : unitary m (tom (hh_matrix ROps m a)).
Proof. exact (hh_unitary m a). Qed.
(* ... and sends the column it was built from to (||a||, 0, ..., 0), with a real non-negative first entry *)
Theorem C08_reflector_maps (m : nat) (a : nat -> fq ROps) (i : nat) : i < m ->
  sumQ m (fun j => qmul (tom (hh_matrix ROps m a) i j) (toq (a j))) = if Nat.eqb i 0 then @qreal RR (hm_alpha m a) else qzero.
Proof. exact (hh_maps m a i). Qed.
(* any sequence of unitary similarity steps keeps  P unitary  and  P A P^H = B *)
Theorem C08_similarity_step (C : CRing) (n : nat) (A P B G : qmat C) : Reflector.unitary C n G -> sim_inv C n A P B ->
  sim_inv C n A (qmm n G P) (qmm n (qmm n G B) (qherm G)).
Proof. exact (sim_step_inv C n A P B G). Qed.
(* tridiagonalize (reduction loop followed by check_tridiagonal) on a Hermitian matrix, every n:
   P is unitary, P A P^H = B exactly, B is tridiagonal, every entry of B is real and B is symmetric *)
Theorem C08_tridiagonalize (n : nat) (A : fmat ROps) : meq n n (qherm (tom A)) (tom A) ->
  let '(P, B) := tridiagonalize_model ROps n A in
  unitary n (tom P) /\ meq n n (qmm n (qmm n (tom P) (tom A)) (qherm (tom P))) (tom B) /\
  (forall i j, i < n -> j < n -> (j + 1 < i \/ i + 1 < j) -> tom B i j = qzero) /\
  (forall i j, i < n -> j < n -> tom B i j = @qreal RR (fw (B i j)) /\ fw (B i j) = fw (B j i)).
Proof. exact (tridiagonalize_full n A). Qed.
(* the clean-up discards nothing when the reduction was exact *)
Theorem C08_cleanup_is_identity_on_real_tridiagonal (n : nat) (B : fmat ROps) :
  (forall i j, i < n -> j < n -> (j + 1 < i \/ i + 1 < j) -> tom B i j = qzero) ->
  (forall i j, i < n -> j < n -> real_entry (tom B i j)) ->
  meq n n (tom (clean_tridiag ROps B)) (tom B).
Proof. exact (clean_tridiag_id n B). Qed.
(* back-transformation V = P^H V_B (eigen.py step 5): if the symmetric eigen-solver returns a unitary V_B with
   B V_B = V_B D, then V is unitary and A V = V D, hence A = V D V^H - repeated or zero eigenvalues included,
   since nothing is assumed about D *)
Theorem C08_backtransform (C : CRing) (n : nat) (A P B VB D : qmat C) :
  Reflector.unitary C n P -> meq n n (qmm n (qmm n P A) (qherm P)) B ->
  Reflector.unitary C n VB -> meq n n (qmm n B VB) (qmm n VB D) ->
  Reflector.unitary C n (qmm n (qherm P) VB) /\ meq n n (qmm n A (qmm n (qherm P) VB)) (qmm n (qmm n (qherm P) VB) D).
Proof. exact (eigen_backtransform C n A P B VB D). Qed.
Theorem C08_reconstruct (C : CRing) (n : nat) (A V D : qmat C) : Reflector.unitary C n V -> meq n n (qmm n A V) (qmm n V D) ->
  meq n n (qmm n (qmm n V D) (qherm V)) A.
Proof. exact (eigen_reconstruct C n A V D). Qed.
(* 1 x 1 (eigen.py l.79-84): the eigenpair (Re a, 1) is exact for a Hermitian (self-conjugate) entry *)
Theorem C08_one_by_one (a : quat RR) : qconj a = a -> qmul a qone = qmul qone (@qreal RR (qw a)).
Proof. exact (eigen_1x1 a). Qed.
(* the hypothesis of C08_tridiagonalize is satisfiable (a real diagonal matrix is Hermitian) *)
Example C08_hermitian_hypothesis_satisfiable : meq 3 3 (qherm (tom (fun i j => if Nat.eqb i j then fq1 else fq0))) (tom (fun i j => if Nat.eqb i j then fq1 else fq0)).
Proof.
  intros i j Hi Hj. unfold qherm, tom. rewrite (Nat.eqb_sym j i). destruct (Nat.eqb i j); [rewrite toq_1; apply (qconj_1 RR)|rewrite toq_0; apply (qconj_0 RR)].
Qed.

Print Assumptions C08_reflector_unitary.
Print Assumptions C08_reflector_maps.
Print Assumptions C08_similarity_step.
Print Assumptions C08_tridiagonalize.
Print Assumptions C08_cleanup_is_identity_on_real_tridiagonal.
Print Assumptions C08_backtransform.
Print Assumptions C08_reconstruct.
Print Assumptions C08_one_by_one.

From Coq Require Import Reals.
From QV Require Import CRingR.
From QVT Require Import EckartYoung EigUnique.
Close Scope R_scope.
(* "real eigenvalues equal to the spectrum of A": the spectrum is determined by the matrix -- two unitary diagonalisations A = V diag(lam) V^H =
   V' diag(lam') V'^H with non-increasing real vectors have lam = lam' (also when eigenvalues repeat, vanish or are negative) *)
Theorem C08_eigenvalues_are_determined_by_the_matrix n (V V' : qmat RR) (lam lam' : nat -> R) :
  meq n n (qmm n (qherm V) V) qmid -> meq n n (qmm n V (qherm V)) qmid ->
  meq n n (qmm n (qherm V') V') qmid -> meq n n (qmm n V' (qherm V')) qmid ->
  (forall k l, k <= l -> l < n -> (lam l <= lam k)%R) -> (forall k l, k <= l -> l < n -> (lam' l <= lam' k)%R) ->
  meq n n (@usv RR n V lam V) (@usv RR n V' lam' V') -> forall k, k < n -> lam k = lam' k.
Proof. exact (eigenvalues_unique n V V' lam lam'). Qed.
Print Assumptions C08_eigenvalues_are_determined_by_the_matrix.

From QVT Require Import SquareIso.
(* "a unitary V": for a square quaternion matrix orthonormal columns are enough -- V^H V = I implies V V^H = I (n + 1 vectors in dimension n are
   dependent: thm/Kernel.v), so the one-sided residual the harness measures certifies unitarity *)
Theorem C08_square_orthonormal_is_unitary n (V : qmat RR) : meq n n (qmm n (qherm V) V) qmid -> meq n n (qmm n V (qherm V)) qmid.
Proof. exact (orthonormal_square_is_unitary n V). Qed.
Print Assumptions C08_square_orthonormal_is_unitary.
