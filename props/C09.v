(* C09: Hessenberg reduction is a unitary similarity to upper Hessenberg form. *)
From Coq Require Import Reals Arith Lia List.
From QV Require Import CRing Sums Quat Mat QMat CRingR FOps FOpsR.
From QVM Require Import Householder.
From QVT Require Import Reflector HouseholderR.
Close Scope R_scope. Open Scope nat_scope.

(* hessenbergize (loop k = 0 .. n-3 followed by check_hessenberg), every n (n <= 2 returns (I, A)), every atol:
   P is unitary, H = P A P^H exactly, H is zero below the first sub-diagonal, ||H||_F = ||A||_F *)
Theorem C09_hessenbergize (n : nat) (atol : R) (A : fmat ROps) :
  let '(P, Hm) := hessenbergize_model ROps atol n A in
  unitary n (tom P) /\ meq n n (qmm n (qmm n (tom P) (tom A)) (qherm (tom P))) (tom Hm) /\
  (forall i j, i < n -> j + 1 < i -> tom Hm i j = qzero) /\ frob2 n n (tom Hm) = frob2 n n (tom A).
Proof. exact (hessenbergize_full n atol A). Qed.
(* one column step creates the zeros of column k and keeps those of the columns before it *)
Theorem C09_column_step (C : CRing) (k m : nat) (Hs B : qmat C) (c : quat C) :
  (forall i, i < m -> sumQ m (fun l => qmul (Hs i l) (B (k + 1 + l) k)) = if Nat.eqb i 0 then c else qzero) ->
  below_zero C (k + 1 + m) k B ->
  below_zero C (k + 1 + m) (k + 1) (qmm (k + 1 + m) (qmm (k + 1 + m) (qembed C (k + 1) Hs) B) (qherm (qembed C (k + 1) Hs))).
Proof. exact (hess_step C k m Hs B c). Qed.
(* the embedded reflector diag(I, H_sub) is unitary when H_sub is *)
Theorem C09_embedding_unitary (C : CRing) (k m : nat) (G : qmat C) : Reflector.unitary C m G -> Reflector.unitary C (k + m) (qembed C k G).
Proof. exact (qembed_unitary C k m G). Qed.
(* a unitary similarity keeps the Frobenius norm *)
Theorem C09_similarity_keeps_frobenius (C : CRing) (n : nat) (A P B : qmat C) : sim_inv C n A P B -> frob2 n n B = frob2 n n A.
Proof. exact (similarity_frob2 C n A P B). Qed.
(* ... the real part of the trace (the trace itself is not similarity-invariant over the quaternions) ... *)
Theorem C09_similarity_keeps_real_trace (C : CRing) (n : nat) (A P B : qmat C) : sim_inv C n A P B -> retr n B = retr n A.
Proof. exact (similarity_retr C n A P B). Qed.
(* ... and turns the Gram matrix A^H A into the same unitary similarity of itself: H has the singular values of A *)
Theorem C09_similarity_keeps_gram (C : CRing) (n : nat) (A P B : qmat C) : sim_inv C n A P B ->
  meq n n (qmm n (qherm B) B) (qmm n (qmm n P (qmm n (qherm A) A)) (qherm P)).
Proof. exact (similarity_gram C n A P B). Qed.
(* the tolerance clean-up: never touches the Hessenberg part, moves no component by more than atol *)
Theorem C09_cleanup_keeps_hessenberg_part (Ops : FOps) (atol : Ops) (H : fmat Ops) (i j : nat) : i <= j + 1 -> clean_hess Ops atol H i j = H i j.
Proof. exact (clean_hess_keeps Ops atol H i j). Qed.
Theorem C09_cleanup_moves_at_most_atol (atol : R) (H : fmat ROps) (i j : nat) :
  let d := fqsub (clean_hess ROps atol H i j) (H i j) in
  (0 <= atol)%R -> (Rabs (fw d) <= atol /\ Rabs (fx d) <= atol /\ Rabs (fy d) <= atol /\ Rabs (fz d) <= atol)%R.
Proof. exact (clean_hess_close atol H i j). Qed.

Print Assumptions C09_hessenbergize.
Print Assumptions C09_column_step.
Print Assumptions C09_embedding_unitary.
Print Assumptions C09_similarity_keeps_frobenius.
Print Assumptions C09_similarity_keeps_real_trace.
Print Assumptions C09_similarity_keeps_gram.
Print Assumptions C09_cleanup_keeps_hessenberg_part.
Print Assumptions C09_cleanup_moves_at_most_atol.

From Coq Require Import Reals.
From QV Require Import CRingR.
From QVT Require Import EckartYoung Penrose SVUnique SVInvariance.
Close Scope R_scope.
(* "the same spectrum-determining invariants": a unitary similarity keeps the singular values.  If A = U diag(s) V^H then P A P^H = (P U) diag(s) (P V)^H
   with orthonormal columns again, and EVERY factorisation of H = P A P^H with orthonormal columns and sorted non-negative values has the values s *)
Theorem C09_similarity_keeps_singular_values n r (P U V U' V' : qmat RR) (s s' : nat -> R) :
  meq n n (qmm n (qherm P) P) qmid ->
  meq r r (qmm n (qherm U) U) qmid -> meq r r (qmm n (qherm V) V) qmid ->
  meq r r (qmm n (qherm U') U') qmid -> meq r r (qmm n (qherm V') V') qmid ->
  (forall k, k < r -> (0 <= s k)%R) -> (forall k l, k <= l -> l < r -> (s l <= s k)%R) ->
  (forall k, k < r -> (0 <= s' k)%R) -> (forall k l, k <= l -> l < r -> (s' l <= s' k)%R) ->
  meq n n (qmm n (qmm n P (@usv RR r U s V)) (qherm P)) (@usv RR r U' s' V') -> forall k, k < r -> s k = s' k.
Proof.
  intros HP HU HV HU' HV' H0 Hm H0' Hm' E k Hk.
  destruct (left_factor_keeps_values RR n n n r P U V s HP HU) as [F1 O1].
  destruct (right_factor_keeps_values RR n n n r (qmm n P U) V P s HP HV) as [F2 O2].
  apply (singular_values_unique n n r (qmm n P U) (qmm n P V) U' V' s s' O1 O2 HU' HV' H0 Hm H0' Hm'); [|exact Hk].
  rewrite <- F2, <- F1. exact E.
Qed.
Print Assumptions C09_similarity_keeps_singular_values.
