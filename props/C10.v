(* C10: every Schur variant preserves the unitary similarity A = Q T Q^H. *)
From Coq Require Import Reals Arith Lia List.
From QV Require Import CRing Sums Quat Mat QMat CRingR.
From QVT Require Import Reflector Norms SchurThm.
Import ListNotations.
Close Scope R_scope. Open Scope nat_scope.

(* one similarity step and one deflation keep  Q unitary  and  Q^H A Q = T + D  (D = everything set to zero so far) *)
Theorem C10_similarity_step (C : CRing) (n : nat) (A Qm H D G : qmat C) : unitary C n G -> schur_inv C n A Qm H D ->
  schur_inv C n A (qmm n Qm (qherm G)) (qmm n (qmm n G H) (qherm G)) (qmm n (qmm n G D) (qherm G)).
Proof. exact (schur_sim C n A Qm H D G). Qed.
Theorem C10_deflation_step (C : CRing) (n : nat) (A Qm H D E : qmat C) : schur_inv C n A Qm H D -> schur_inv C n A Qm (qmsub H E) (qmadd D E).
Proof. exact (schur_defl C n A Qm H D E). Qed.
(* every schedule of similarity steps and deflations - any shifts, any deflation decisions, any budget, any early exit:
   Q is unitary, A = Q (T + D) Q^H and ||D||_F is at most the sum of the norms of what was set to zero *)
Theorem C10_every_schedule (n : nat) (A P0 H0 : qmat RR) (ops : list sop) : sim_inv RR n A P0 H0 -> ops_ok n ops ->
  let '(Qm, T, D) := srun n ops (qherm P0, H0, fun _ _ => qzero) in
  unitary RR n Qm /\ meq n n (qmm n (qmm n Qm (qmadd T D)) (qherm Qm)) A /\ (normF n n D <= budget n ops)%R.
Proof. exact (schur_error_bound n A P0 H0 ops). Qed.
(* the explicit QR step R = Qi (H - sigma I), H' = R Qi^H + sigma I is the similarity Qi H Qi^H *)
Theorem C10_explicit_qr_step (C : CRing) (n : nat) (H Qi Sg : qmat C) : unitary C n Qi -> meq n n (qmm n Qi Sg) (qmm n Sg Qi) ->
  meq n n (qmadd (qmm n (qmm n Qi (qmsub H Sg)) (qherm Qi)) Sg) (qmm n (qmm n Qi H) (qherm Qi)).
Proof. exact (explicit_qr_step C n H Qi Sg). Qed.
(* reported convergence on a Hermitian matrix: T is diagonal up to tol + 2 ||D||_F with a diagonal real up to 2 ||D||_F *)
Theorem C10_hermitian_converged (n : nat) (A Qm T D : qmat RR) (tol : R) :
  meq n n (qherm A) A -> schur_inv RR n A Qm T D ->
  (forall i j, j < i -> i < n -> (qabs (T i j) <= tol)%R) ->
  (forall i j, i < j -> j < n -> (qabs (T i j) <= tol + 2 * normF n n D)%R) /\
  (forall i, i < n -> (qabs (qsub (T i i) (qconj (T i i))) <= 2 * normF n n D)%R).
Proof. exact (hermitian_converged_is_nearly_real_diagonal n A Qm T D tol). Qed.

Print Assumptions C10_similarity_step.
Print Assumptions C10_deflation_step.
Print Assumptions C10_every_schedule.
Print Assumptions C10_explicit_qr_step.
Print Assumptions C10_hermitian_converged.
