(* C10: every Schur variant preserves the unitary similarity A = Q T Q^H. *)
From Coq Require Import Reals Arith Lia List.
From QV Require Import CRing Sums Quat Mat QMat CRingR.
From QV Require Import FOps FOpsR.
From QVM Require Import Householder Givens Schur.
From QVT Require Import Reflector Norms HouseholderR SchurThm SchurModelThm.
Import ListNotations.
Close Scope R_scope. Open Scope nat_scope.

(* one similarity step and one deflation keep  Q unitary  and  Q^H A Q = T + D  (D = everything set to zero so far) *)
Theorem C10_similarity_step (C : CRing) (n : nat) (A Qm H D G : qmat C) : Reflector.unitary C n G -> schur_inv C n A Qm H D ->
  schur_inv C n A (qmm n Qm (qherm G)) (qmm n (qmm n G H) (qherm G)) (qmm n (qmm n G D) (qherm G)).
Proof. exact (schur_sim C n A Qm H D G). Qed.
Theorem C10_deflation_step (C : CRing) (n : nat) (A Qm H D E : qmat C) : schur_inv C n A Qm H D -> schur_inv C n A Qm (qmsub H E) (qmadd D E).
Proof. exact (schur_defl C n A Qm H D E). Qed.
(* every schedule of similarity steps and deflations - any shifts, any deflation decisions, any budget, any early exit:
   Q is unitary, A = Q (T + D) Q^H and ||D||_F is at most the sum of the norms of what was set to zero *)
Theorem C10_every_schedule (n : nat) (A P0 H0 : qmat RR) (ops : list sop) : sim_inv RR n A P0 H0 -> ops_ok n ops ->
  let '(Qm, T, D) := srun n ops (qherm P0, H0, fun _ _ => qzero) in
  Reflector.unitary RR n Qm /\ meq n n (qmm n (qmm n Qm (qmadd T D)) (qherm Qm)) A /\ (normF n n D <= budget n ops)%R.
Proof. exact (schur_error_bound n A P0 H0 ops). Qed.
(* the explicit QR step R = Qi (H - sigma I), H' = R Qi^H + sigma I is the similarity Qi H Qi^H *)
Theorem C10_explicit_qr_step (C : CRing) (n : nat) (H Qi Sg : qmat C) : Reflector.unitary C n Qi -> meq n n (qmm n Qi Sg) (qmm n Sg Qi) ->
  meq n n (qmadd (qmm n (qmm n Qi (qmsub H Sg)) (qherm Qi)) Sg) (qmm n (qmm n Qi H) (qherm Qi)).
Proof. exact (explicit_qr_step C n H Qi Sg). Qed.
(* reported convergence on a Hermitian matrix: T is diagonal up to tol + 2 ||D||_F with a diagonal real up to 2 ||D||_F *)
Theorem C10_hermitian_converged (n : nat) (A Qm T D : qmat RR) (tol : R) :
  meq n n (qherm A) A -> schur_inv RR n A Qm T D ->
  (forall i j, j < i -> i < n -> (qabs (T i j) <= tol)%R) ->
  (forall i j, i < j -> j < n -> (qabs (T i j) <= tol + 2 * normF n n D)%R) /\
  (forall i, i < n -> (qabs (qsub (T i i) (qconj (T i i))) <= 2 * normF n n D)%R).
Proof. exact (hermitian_converged_is_nearly_real_diagonal n A Qm T D tol). Qed.

(* ---- the model of schur.py at the real instance.  Every entry point, for every input, tolerance, budget,
   shift mode, window and every recorded shift schedule / eigvals list: Q is unitary, Q^H A Q = T + D and
   ||D||_F is at most the budget the model reports (the sum of the moduli of all entries it set to zero) *)
Theorem C10_pure_variants (n : nat) (tol : R) (rayleigh : bool) (max_iter : nat) (A : fmat ROps) :
  schur_sound n A (schur_pure ROps n tol rayleigh max_iter A).
Proof. exact (schur_pure_sound n tol rayleigh max_iter A). Qed.
Theorem C10_implicit_variant (n : nat) (tol : R) (rayleigh : bool) (max_iter : nat) (A : fmat ROps) :
  schur_sound n A (schur_implicit ROps n tol rayleigh max_iter A).
Proof. exact (schur_implicit_sound n tol rayleigh max_iter A). Qed.
Theorem C10_unified_aed_ds (n : nat) (tol aedf : R) (ds : bool) (istart max_iter : nat) (schedule : list R) (eigs : list (list R)) (A : fmat ROps) :
  1 <= istart -> schur_sound n A (schur_unified ROps n tol aedf ds istart max_iter schedule eigs A).
Proof. exact (schur_unified_sound n tol aedf ds istart max_iter schedule eigs A). Qed.
Theorem C10_experimental_windowed (n : nat) (tol : R) (window : nat) (ds : bool) (max_iter : nat) (eigs : list (list R)) (A : fmat ROps) :
  1 <= n -> schur_sound n A (schur_exper ROps n tol window ds max_iter eigs A).
Proof. exact (schur_exper_sound n tol window ds max_iter eigs A). Qed.
Theorem C10_real_expansion_givens (n : nat) (tol : R) (mode max_iter : nat) (eigs : list (list R)) (A : fmat ROps) :
  schur_sound n A (schur_givens ROps n tol mode max_iter eigs A).
Proof. exact (schur_givens_sound n tol mode max_iter eigs A). Qed.
(* the convergence flag is truthful in every loop: converged = true implies every entry below the diagonal is within tol
   (quaternion_schur's final clean-up afterwards only sets entries to zero) *)
Theorem C10_flag_pure (n : nat) (tol : R) (ray : bool) (fuel k : nat) (st : sst ROps) : flag_ok n tol (pure_loop ROps n tol ray fuel k st).
Proof. exact (pure_flag n tol ray fuel k st). Qed.
Theorem C10_flag_implicit (n : nat) (tol : R) (ray : bool) (fuel k : nat) (st : sst ROps) : flag_ok n tol (implicit_loop ROps n tol ray fuel k st).
Proof. exact (implicit_flag n tol ray fuel k st). Qed.
Theorem C10_flag_unified (n : nat) (tol aedf : R) (ds : bool) (istart fuel : nat) (schedule : list R) (eigs : list (list R)) (k : nat) (st : sst ROps) :
  flag_ok n tol (unified_loop ROps n tol aedf ds istart fuel schedule eigs k st).
Proof. exact (unified_flag n tol aedf ds istart fuel schedule eigs k st). Qed.
Theorem C10_flag_experimental (n : nat) (tol : R) (window : nat) (ds : bool) (fuel : nat) (eigs : list (list R)) (k hi : nat) (st : sst ROps) :
  flag_ok n tol (exper_loop ROps n tol window ds fuel eigs k hi st).
Proof. exact (exper_flag n tol window ds fuel eigs k hi st). Qed.
Theorem C10_flag_givens (n : nat) (tol : R) (mode fuel : nat) (eigs : list (list R)) (k m : nat) (prev : option R) (stag : nat) (st : sst ROps) :
  flag_ok n tol (giv_loop ROps n tol mode fuel eigs k m prev stag st).
Proof. exact (giv_flag n tol mode fuel eigs k m prev stag st). Qed.
Theorem C10_final_cleanup_only_zeroes (n : nat) (tol : R) (st : sst ROps) : only_zeroed n st (final_clean ROps n tol st).
Proof. exact (final_clean_only_zeroes n tol st). Qed.

Print Assumptions C10_similarity_step.
Print Assumptions C10_deflation_step.
Print Assumptions C10_every_schedule.
Print Assumptions C10_explicit_qr_step.
Print Assumptions C10_hermitian_converged.
Print Assumptions C10_pure_variants.
Print Assumptions C10_implicit_variant.
Print Assumptions C10_unified_aed_ds.
Print Assumptions C10_experimental_windowed.
Print Assumptions C10_real_expansion_givens.
Print Assumptions C10_flag_givens.

From QVT Require Import EigResidual.
Section E.
Variable C : CRing.
Notation qmat := (qmat C).
(* "carrying the eigenvalues of A": with Q unitary and Q^H A Q = B (B = T + D of the similarity theorems), column i of Q is a right eigenvector
   for the diagonal entry b_ii up to EXACTLY the rest of column i of B, ||A q_i - q_i b_ii||^2 = sum_{k <> i} |b_ki|^2; when B is diagonal
   (converged Hermitian case with nothing discarded) A q_i = q_i b_ii holds exactly -- for every size *)
Theorem C10_diagonal_carries_eigenvalues n (A Q B : qmat) :
  meq n n (qmm n (qherm Q) Q) qmid -> meq n n (qmm n Q (qherm Q)) qmid -> meq n n (qmm n (qmm n (qherm Q) A) Q) B ->
  (forall i, i < n -> frob2 n 1 (fun l _ => qsub (qmm n A Q l i) (qmul (Q l i) (B i i))) = sumR n (fun k => if Nat.eqb k i then c0 else qnorm2 (B k i))) /\
  ((forall k i, k < n -> i < n -> k <> i -> B k i = qzero) -> forall l i, l < n -> i < n -> qmm n A Q l i = qmul (Q l i) (B i i)).
Proof.
  intros H1 H2 H3. split.
  - intros i Hi. exact (eigen_residual_is_offdiagonal_column C n A Q B H1 H2 H3 i Hi).
  - exact (diagonal_form_gives_eigenvectors C n A Q B H2 H3).
Qed.
End E.
Print Assumptions C10_diagonal_carries_eigenvalues.
