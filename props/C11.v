(* C11: rank, null spaces and determinants on top of the Q-SVD contract. *)
From Coq Require Import QArith Qcanon List Bool Arith Lia.
From QV Require Import CRing Sums Quat Mat QMat.
From QVM Require Import RankNull.
From QVT Require Import RankNullThm.
From B Require Import Gen_C11.
Import ListNotations.
Close Scope Q_scope. Close Scope Qc_scope.

Theorem C11_rank_at_most_number_of_values tol s : count_above tol s <= length s.
Proof. exact (count_le tol s). Qed.
Theorem C11_rank_quarter_of_real_rank tol s : count_above tol (rep4 s) = 4 * count_above tol s.
Proof. exact (rank_quarter_real tol s). Qed.
Theorem C11_null_shapes dim rank : rank <= dim -> length (null_cols dim rank) = dim - rank.
Proof. exact (null_shape dim rank). Qed.
Theorem C11_det_zero_iff_singular (s : list Qc) : prodQc s = 0%Qc <-> In 0%Qc s.
Proof. exact (det_zero_iff_singular s). Qed.
Theorem C11_det_of_concatenated_spectra (s t : list Qc) : prodQc (s ++ t) = (prodQc s * prodQc t)%Qc.
Proof. exact (det_multiplicative_on_values s t). Qed.
(* --- the definitions regenerated from utils.py (rank, quat_null_space, det) as functions of the oracle's singular values --- *)
Theorem C11_gen_rank_explicit_tolerance eps m n s t : gen_rank eps m n s (Some t) = count_above t s.
Proof. reflexivity. Qed.
Theorem C11_gen_rank_default_tolerance eps m n s : s <> [] ->
  gen_rank eps m n s None = count_above (Qcmult (Qcmult eps (ofnatQc (Nat.max m n))) (npmax s)) s.
Proof. intros Hs. destruct s as [|a s]; [contradiction|]. reflexivity. Qed.
Theorem C11_gen_rank_at_most_number_of_values eps m n s tol : gen_rank eps m n s tol <= length s.
Proof. unfold gen_rank. apply count_le. Qed.
(* the returned null-space basis is made of the columns rank .. dim-1 of V (right) / U (left), rank = #{s_i > rtol s_0} *)
Theorem C11_gen_null_right_columns m n s rtol : gen_null_right m n s rtol = null_cols n (null_rank rtol s).
Proof.
  unfold gen_null_right, null_cols, null_rank. destruct s as [|a s]; cbn [length Nat.eqb hd].
  - destruct n; reflexivity.
  - destruct (Nat.eqb_spec (count_above (Qcmult rtol a) (a :: s)) n) as [E|]; [|reflexivity]. rewrite E, Nat.sub_diag. reflexivity.
Qed.
Theorem C11_gen_null_left_columns m n s rtol : gen_null_left m n s rtol = null_cols m (null_rank rtol s).
Proof.
  unfold gen_null_left, null_cols, null_rank. destruct s as [|a s]; cbn [length Nat.eqb hd].
  - destruct m; reflexivity.
  - destruct (Nat.eqb_spec (count_above (Qcmult rtol a) (a :: s)) m) as [E|]; [|reflexivity]. rewrite E, Nat.sub_diag. reflexivity.
Qed.
Theorem C11_gen_null_right_size m n s rtol : null_rank rtol s <= n -> length (gen_null_right m n s rtol) = n - null_rank rtol s.
Proof. intros H. rewrite C11_gen_null_right_columns. now apply null_shape. Qed.
Theorem C11_gen_det_is_product s : gen_det_dieudonne s = prodQc s /\ gen_det_dieudonne_accent s = prodQc s /\ gen_det_moore s = prodQc s.
Proof. repeat split. Qed.
Section Ann.
Variable C : CRing.
Variables (m n : nat) (A U V : qmat C) (s : nat -> quat C).
Hypothesis HV : meq n n (qmm n (qherm V) V) qmid.
Hypothesis HA : meq m n A (qmm n (qmm n U (qdiag s)) (qherm V)).
(* given the Q-SVD contract, column j of A V is s_j times column j of U: the trailing columns of V
   (s_j below the threshold) are mapped to vectors of norm s_j *)
Theorem C11_null_annihilated j i : i < m -> j < n -> qmm n A V i j = qmul (U i j) (s j).
Proof. exact (null_column_image C m n A U V s HV HA j i). Qed.
End Ann.
Print Assumptions C11_rank_quarter_of_real_rank.
Print Assumptions C11_gen_null_right_columns.
Print Assumptions C11_gen_rank_default_tolerance.
Print Assumptions C11_det_zero_iff_singular.
Print Assumptions C11_null_annihilated.

From Coq Require Import Reals.
From QV Require Import CRingR.
From QVT Require Import EckartYoung Penrose SVUnique SVInvariance.
Close Scope R_scope.
(* rank is invariant under conjugate transposition and under unitary factors: the singular values are.  For A = U diag(s) V^H (orthonormal
   columns, s non-negative and non-increasing), EVERY such factorisation of A^H, of P A (P^H P = I) and of A W^H (W^H W = I) has the value
   vector s -- so the number of values above any threshold, which is what `rank` returns, is the same *)
Theorem C11_values_invariant_under_conjugate_transpose m n r (U V U' V' : qmat RR) (s s' : nat -> R) :
  meq r r (qmm m (qherm U) U) qmid -> meq r r (qmm n (qherm V) V) qmid ->
  meq r r (qmm n (qherm U') U') qmid -> meq r r (qmm m (qherm V') V') qmid ->
  (forall k, k < r -> (0 <= s k)%R) -> (forall k l, k <= l -> l < r -> (s l <= s k)%R) ->
  (forall k, k < r -> (0 <= s' k)%R) -> (forall k l, k <= l -> l < r -> (s' l <= s' k)%R) ->
  meq n m (qherm (@usv RR r U s V)) (@usv RR r U' s' V') -> forall k, k < r -> s k = s' k.
Proof.
  intros HU HV HU' HV' H0 Hm H0' Hm' E k Hk.
  apply (singular_values_unique n m r V U U' V' s s' HV HU HU' HV' H0 Hm H0' Hm'); [|exact Hk].
  rewrite <- (herm_has_same_values RR m n r U V s). exact E.
Qed.
Theorem C11_values_invariant_under_unitary_left p m n r (P U V U' V' : qmat RR) (s s' : nat -> R) :
  meq m m (qmm p (qherm P) P) qmid ->
  meq r r (qmm m (qherm U) U) qmid -> meq r r (qmm n (qherm V) V) qmid ->
  meq r r (qmm p (qherm U') U') qmid -> meq r r (qmm n (qherm V') V') qmid ->
  (forall k, k < r -> (0 <= s k)%R) -> (forall k l, k <= l -> l < r -> (s l <= s k)%R) ->
  (forall k, k < r -> (0 <= s' k)%R) -> (forall k l, k <= l -> l < r -> (s' l <= s' k)%R) ->
  meq p n (qmm m P (@usv RR r U s V)) (@usv RR r U' s' V') -> forall k, k < r -> s k = s' k.
Proof.
  intros HP HU HV HU' HV' H0 Hm H0' Hm' E k Hk.
  destruct (left_factor_keeps_values RR p m n r P U V s HP HU) as [F O].
  apply (singular_values_unique p n r (qmm m P U) V U' V' s s' O HV HU' HV' H0 Hm H0' Hm'); [|exact Hk].
  rewrite <- F. exact E.
Qed.
Section Indep.
Variable C : CRing.
Notation qmat := (qmat C).
(* "linearly independent columns": the null-space basis is a block of columns rank .. dim-1 of V (resp. U), whose columns are orthonormal, so
   N c = 0 forces c = 0 *)
Theorem C11_null_basis_columns_are_independent n r k0 d (V c : qmat) : k0 + d <= r ->
  meq r r (qmm n (qherm V) V) qmid ->
  meq n 1 (qmm d (fun i j => V i (k0 + j)) c) (fun _ _ => qzero) -> meq d 1 c (fun _ _ => qzero).
Proof.
  intros Hd HV Hc.
  exact (orthonormal_columns_are_independent C n d _ c (column_block_is_orthonormal C n r k0 d V Hd HV) Hc).
Qed.
End Indep.
Print Assumptions C11_values_invariant_under_conjugate_transpose.
Print Assumptions C11_null_basis_columns_are_independent.

From QVT Require Import RankProduct.
(* "rank is invariant under multiplication by invertible matrices": the zero pattern of the sorted singular values -- the exact rank -- of P A is that
   of A for every P with a left inverse; and no factor at all can increase the number of non-zero singular values *)
Theorem C11_rank_invariant_under_invertible_factor m n q r (P Pinv Ua Va Ub Vb : qmat RR) (sa sb : nat -> R) :
  r < q -> meq m m (qmm m Pinv P) qmid ->
  meq q q (qmm m (qherm Ua) Ua) qmid -> meq q q (qmm n (qherm Va) Va) qmid ->
  meq q q (qmm m (qherm Ub) Ub) qmid -> meq q q (qmm n (qherm Vb) Vb) qmid ->
  (forall k, k < q -> (0 <= sa k)%R) -> (forall a b, a <= b -> b < q -> (sa b <= sa a)%R) ->
  (forall k, k < q -> (0 <= sb k)%R) -> (forall a b, a <= b -> b < q -> (sb b <= sb a)%R) ->
  meq m n (qmm m P (@usv RR q Ua sa Va)) (@usv RR q Ub sb Vb) ->
  (sa r = 0%R <-> sb r = 0%R).
Proof. exact (invertible_factor_keeps_rank m n q r P Pinv Ua Va Ub Vb sa sb). Qed.
Theorem C11_no_factor_increases_the_rank p m n ra rb r (P Ua Va Ub Vb : qmat RR) (sa sb : nat -> R) :
  r <= ra -> r < rb ->
  meq rb rb (qmm p (qherm Ub) Ub) qmid -> meq rb rb (qmm n (qherm Vb) Vb) qmid ->
  (forall k, k < rb -> (0 <= sb k)%R) -> (forall a b, a <= b -> b < rb -> (sb b <= sb a)%R) ->
  (forall k, r <= k -> k < ra -> sa k = 0%R) ->
  meq p n (qmm m P (@usv RR ra Ua sa Va)) (@usv RR rb Ub sb Vb) -> sb r = 0%R.
Proof. exact (left_factor_cannot_increase_rank p m n ra rb r P Ua Va Ub Vb sa sb). Qed.
Print Assumptions C11_rank_invariant_under_invertible_factor.

From QVT Require Import SquareIso.
(* "invertible": for a square quaternion matrix a one-sided inverse is two-sided (the hypothesis `Pinv P = I` of the rank theorem is the full one) *)
Theorem C11_left_inverse_is_right_inverse n (A Ainv : qmat RR) : meq n n (qmm n Ainv A) qmid -> meq n n (qmm n A Ainv) qmid.
Proof. exact (left_inverse_is_right_inverse n A Ainv). Qed.
Print Assumptions C11_left_inverse_is_right_inverse.
