(* C11: rank, null spaces and determinants on top of the Q-SVD contract. *)
From Coq Require Import QArith Qcanon List Bool Arith Lia.
From QV Require Import CRing Sums Quat Mat QMat.
From QVM Require Import RankNull.
From QVT Require Import RankNullThm.
Import ListNotations.
Close Scope Q_scope. Close Scope Qc_scope.

Theorem C11_rank_at_most_number_of_values tol s : count_above tol s <= length s.
Proof. exact (count_le tol s). Qed.
Theorem C11_rank_quarter_of_real_rank tol s : count_above tol (rep4 s) = 4 * count_above tol s.
Proof. exact (rank_quarter_real tol s). Qed.
Theorem C11_null_shapes dim rank : rank <= dim -> length (null_cols dim rank) = dim - rank.
Proof. exact (null_shape dim rank). Qed.
Theorem C11_det_zero_iff_singular (s : list Qc) : prodQc s = 0%Qc <-> In 0%Qc s.
Proof. exact (det_zero_iff_singular s). Qed.
Theorem C11_det_of_concatenated_spectra (s t : list Qc) : prodQc (s ++ t) = (prodQc s * prodQc t)%Qc.
Proof. exact (det_multiplicative_on_values s t). Qed.
Section Ann.
Variable C : CRing.
Variables (m n : nat) (A U V : qmat C) (s : nat -> quat C).
Hypothesis HV : meq n n (qmm n (qherm V) V) qmid.
Hypothesis HA : meq m n A (qmm n (qmm n U (qdiag s)) (qherm V)).
(* given the Q-SVD contract, column j of A V is s_j times column j of U: the trailing columns of V
   (s_j below the threshold) are mapped to vectors of norm s_j *)
Theorem C11_null_annihilated j i : i < m -> j < n -> qmm n A V i j = qmul (U i j) (s j).
Proof. exact (null_column_image C m n A U V s HV HA j i). Qed.
End Ann.
Print Assumptions C11_rank_quarter_of_real_rank.
Print Assumptions C11_det_zero_iff_singular.
Print Assumptions C11_null_annihilated.
