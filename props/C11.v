(* C11: rank, null spaces and determinants on top of the Q-SVD contract. *)
From Coq Require Import QArith Qcanon List Bool Arith Lia.
From QV Require Import CRing Sums Quat Mat QMat.
From QVM Require Import RankNull.
From QVT Require Import RankNullThm.
From B Require Import Gen_C11.
Import ListNotations.
Close Scope Q_scope. Close Scope Qc_scope.

Theorem C11_rank_at_most_number_of_values tol s : count_above tol s <= length s.
Proof. exact (count_le tol s). Qed.
Theorem C11_rank_quarter_of_real_rank tol s : count_above tol (rep4 s) = 4 * count_above tol s.
Proof. exact (rank_quarter_real tol s). Qed.
Theorem C11_null_shapes dim rank : rank <= dim -> length (null_cols dim rank) = dim - rank.
Proof. exact (null_shape dim rank). Qed.
Theorem C11_det_zero_iff_singular (s : list Qc) : prodQc s = 0%Qc <-> In 0%Qc s.
Proof. exact (det_zero_iff_singular s). Qed.
Theorem C11_det_of_concatenated_spectra (s t : list Qc) : prodQc (s ++ t) = (prodQc s * prodQc t)%Qc.
Proof. exact (det_multiplicative_on_values s t). Qed.
(* --- the definitions regenerated from utils.py (rank, quat_null_space, det) as functions of the oracle's singular values --- *)
Theorem C11_gen_rank_explicit_tolerance eps m n s t : gen_rank eps m n s (Some t) = count_above t s.
Proof. reflexivity. Qed.
Theorem C11_gen_rank_default_tolerance eps m n s : s <> [] ->
  gen_rank eps m n s None = count_above (Qcmult (Qcmult eps (ofnatQc (Nat.max m n))) (npmax s)) s.
Proof. intros Hs. destruct s as [|a s]; [contradiction|]. reflexivity. Qed.
Theorem C11_gen_rank_at_most_number_of_values eps m n s tol : gen_rank eps m n s tol <= length s.
Proof. unfold gen_rank. apply count_le. Qed.
(* the returned null-space basis is made of the columns rank .. dim-1 of V (right) / U (left), rank = #{s_i > rtol s_0} *)
Theorem C11_gen_null_right_columns m n s rtol : gen_null_right m n s rtol = null_cols n (null_rank rtol s).
Proof.
  unfold gen_null_right, null_cols, null_rank. destruct s as [|a s]; cbn [length Nat.eqb hd].
  - destruct n; reflexivity.
  - destruct (Nat.eqb_spec (count_above (Qcmult rtol a) (a :: s)) n) as [E|]; [|reflexivity]. rewrite E, Nat.sub_diag. reflexivity.
Qed.
Theorem C11_gen_null_left_columns m n s rtol : gen_null_left m n s rtol = null_cols m (null_rank rtol s).
Proof.
  unfold gen_null_left, null_cols, null_rank. destruct s as [|a s]; cbn [length Nat.eqb hd].
  - destruct m; reflexivity.
  - destruct (Nat.eqb_spec (count_above (Qcmult rtol a) (a :: s)) m) as [E|]; [|reflexivity]. rewrite E, Nat.sub_diag. reflexivity.
Qed.
Theorem C11_gen_null_right_size m n s rtol : null_rank rtol s <= n -> length (gen_null_right m n s rtol) = n - null_rank rtol s.
Proof. intros H. rewrite C11_gen_null_right_columns. now apply null_shape. Qed.
Theorem C11_gen_det_is_product s : gen_det_dieudonne s = prodQc s /\ gen_det_dieudonne_accent s = prodQc s /\ gen_det_moore s = prodQc s.
Proof. repeat split. Qed.
Section Ann.
Variable C : CRing.
Variables (m n : nat) (A U V : qmat C) (s : nat -> quat C).
Hypothesis HV : meq n n (qmm n (qherm V) V) qmid.
Hypothesis HA : meq m n A (qmm n (qmm n U (qdiag s)) (qherm V)).
(* given the Q-SVD contract, column j of A V is s_j times column j of U: the trailing columns of V
   (s_j below the threshold) are mapped to vectors of norm s_j *)
Theorem C11_null_annihilated j i : i < m -> j < n -> qmm n A V i j = qmul (U i j) (s j).
Proof. exact (null_column_image C m n A U V s HV HA j i). Qed.
End Ann.
Print Assumptions C11_rank_quarter_of_real_rank.
Print Assumptions C11_gen_null_right_columns.
Print Assumptions C11_gen_rank_default_tolerance.
Print Assumptions C11_det_zero_iff_singular.
Print Assumptions C11_null_annihilated.
