(* C12: randomized Q-SVDs: composition of orthonormal factors. *)
From Coq Require Import Arith Lia.
From QV Require Import CRing Sums Quat Mat QMat.
From QVT Require Import Glue Proj.
Section P.
Variable C : CRing.
Notation qmat := (qmat C).
(* U = Q1 * U_small, V = Q2 * V_small: orthonormal columns are preserved by the lift-back, for all shapes *)
Theorem C12_orthonormal_composition m k r (Qm W : qmat) :
  meq k k (qmm m (qherm Qm) Qm) qmid -> meq r r (qmm k (qherm W) W) qmid ->
  meq r r (qmm m (qherm (qmm k Qm W)) (qmm k Qm W)) qmid.
Proof. exact (orthonormal_composition C m k r Qm W). Qed.
(* exactness on the range: if the columns of A lie in the span of an orthonormal Q (A = Q C0 for some C0),
   then Q Q^H A = A, so the projected problem loses nothing *)
Theorem C12_exact_on_captured_range m k n (Qm A C0 : qmat) :
  meq k k (qmm m (qherm Qm) Qm) qmid -> meq m n A (qmm k Qm C0) -> meq m n (qmm k Qm (qmm m (qherm Qm) A)) A.
Proof.
  intros HQ HA. rewrite HA at 1.
  rewrite <- (qmm_assoc C k m k n (qherm Qm) Qm C0), HQ, (qmm_id_l C k n C0). symmetry. exact HA.
Qed.
(* Pythagoras for the projection onto an orthonormal Q: ||A||_F^2 = ||Q^H A||_F^2 + ||A - Q Q^H A||_F^2 (any commutative
   component ring, all shapes); the approximation A ~ Q (Q^H A) that both randomized routines factor further *)
Theorem C12_projection_pythagoras m k n (A Qm : qmat) : meq k k (qmm m (qherm Qm) Qm) qmid ->
  frob2 m n A = (frob2 k n (qmm m (qherm Qm) A) + frob2 m n (qmsub A (qmm k Qm (qmm m (qherm Qm) A))))%cr.
Proof. exact (projection_pythagoras C m k n A Qm). Qed.
End P.
(* over the reals: the error of the projected approximation never exceeds ||A||_F *)
From Coq Require Import Reals Lra.
From QV Require Import CRingR.
From QVT Require Import CauchySchwarz Norms.
Theorem C12_error_at_most_norm m k n (A Qm : Mat.qmat RR) : meq k k (qmm m (qherm Qm) Qm) qmid ->
  (frob2 m n (qmsub A (qmm k Qm (qmm m (qherm Qm) A))) <= frob2 m n A)%R.
Proof.
  intros HQ. pose proof (projection_pythagoras RR m k n A Qm HQ) as E. cbv zeta in E.
  pose proof (frob2_nonneg k n (qmm m (qherm Qm) A)) as Hp.
  assert (E' : frob2 m n A = (frob2 k n (qmm m (qherm Qm) A) + frob2 m n (qmsub A (qmm k Qm (qmm m (qherm Qm) A))))%R) by exact E. lra.
Qed.
Print Assumptions C12_orthonormal_composition.
Print Assumptions C12_exact_on_captured_range.
Print Assumptions C12_projection_pythagoras.
Print Assumptions C12_error_at_most_norm.

(* ------------------------------------------------------------------------------------------------
   pass_eff_qsvd, data flow regenerated from the source for n_passes = 2 .. 5 (qtrans/gen_c12.py).  qr_qua and the structured SVD of the
   small factor are section variables; what is assumed about them is stated as hypotheses:
     qr_ok     A = Q R for both outputs of qr_qua (C06),
     the lifted small factorisation is exact on the small factor (true when rank(A) <= R; C05). *)
From B Require Import Gen_C12.
Section Pass.
Variable C : CRing.
Notation qmat := (qmat C).
Variables (qrQ qrR svdL svdR : qmat -> qmat).
Variables (m n k r : nat).
Hypothesis qr_ok : forall p (M : qmat), meq p k M (qmm k (qrQ M) (qrR M)).

(* lifting: (Qa L) S (Qb Rg)^H = Qa (L S Rg^H) Qb^H *)
Lemma lift_product (Qa Qb L Rg S : qmat) :
  meq m n (qmm r (qmm r (qmm k Qa L) S) (qherm (qmm k Qb Rg))) (qmm k (qmm k Qa (qmm r (qmm r L S) (qherm Rg))) (qherm Qb)).
Proof.
  rewrite (qherm_mm_meq C n k r Qb Rg).
  rewrite (qmm_assoc C m k r r Qa L S).
  rewrite (qmm_assoc C m k r n Qa (qmm r L S) (qmm k (qherm Rg) (qherm Qb))).
  rewrite <- (qmm_assoc C k r k n (qmm r L S) (qherm Rg) (qherm Qb)).
  rewrite <- (qmm_assoc C m k k n Qa (qmm r (qmm r L S) (qherm Rg)) (qherm Qb)). reflexivity.
Qed.
(* last pass odd: X Qb = Qa T was factored; if the lifted factorisation reproduces T, the result is X projected on range(Qb) from the right *)
Lemma odd_last_exact (X Qb S : qmat) :
  let T := qrR (qmm n X Qb) in
  meq k k T (qmm r (qmm r (svdL T) S) (qherm (svdR T))) ->
  meq m n (qmm r (qmm r (qmm k (qrQ (qmm n X Qb)) (svdL T)) S) (qherm (qmm k Qb (svdR T)))) (qmm k (qmm n X Qb) (qherm Qb)).
Proof.
  intros T HT. rewrite lift_product, <- HT. unfold T. now rewrite <- (qr_ok m (qmm n X Qb)).
Qed.
(* last pass even: X^H Qa = Qb T was factored; the result is Qa Qa^H X, the projection of X on range(Qa) *)
Lemma even_last_exact (X Qa S : qmat) :
  let T := qrR (qmm m (qherm X) Qa) in
  meq k k (qherm T) (qmm r (qmm r (svdR T) S) (qherm (svdL T))) ->
  meq m n (qmm r (qmm r (qmm k Qa (svdR T)) S) (qherm (qmm k (qrQ (qmm m (qherm X) Qa)) (svdL T)))) (qmm k Qa (qmm m (qherm Qa) X)).
Proof.
  intros T HT. rewrite lift_product, <- HT. unfold T.
  rewrite (qmm_assoc C m k k n Qa (qherm (qrR (qmm m (qherm X) Qa))) (qherm (qrQ (qmm m (qherm X) Qa)))).
  rewrite <- (qherm_mm_meq C n k k (qrQ (qmm m (qherm X) Qa)) (qrR (qmm m (qherm X) Qa))).
  rewrite <- (qr_ok n (qmm m (qherm X) Qa)).
  rewrite (qherm_mm_meq C n m k (qherm X) Qa), (qherm_herm C m n X). reflexivity.
Qed.

Variables (X G S : qmat).

(* two passes: U S V^H = Q2 Q2^H X with Q2 the orthonormal basis of the first pass *)
Theorem C12_pass2_is_projection : let T := gen_pass_small_2 C qrQ qrR m n k X G in
  meq k k (qherm T) (qmm r (qmm r (svdR T) S) (qherm (svdL T))) ->
  meq m n (qmm r (qmm r (gen_pass_U_2 C qrQ qrR svdR m n k X G) S) (qherm (gen_pass_V_2 C qrQ qrR svdL m n k X G)))
          (let Q2 := qrQ (qmm n X G) in qmm k Q2 (qmm m (qherm Q2) X)).
Proof. intros T HT. exact (even_last_exact X (qrQ (qmm n X G)) S HT). Qed.
Theorem C12_pass3_is_projection : let T := gen_pass_small_3 C qrQ qrR m n k X G in
  meq k k T (qmm r (qmm r (svdL T) S) (qherm (svdR T))) ->
  meq m n (qmm r (qmm r (gen_pass_U_3 C qrQ qrR svdL m n k X G) S) (qherm (gen_pass_V_3 C qrQ qrR svdR m n k X G)))
          (let Q1 := qrQ (qmm m (qherm X) (qrQ (qmm n X G))) in qmm k (qmm n X Q1) (qherm Q1)).
Proof. intros T HT. exact (odd_last_exact X (qrQ (qmm m (qherm X) (qrQ (qmm n X G)))) S HT). Qed.
Theorem C12_pass4_is_projection : let T := gen_pass_small_4 C qrQ qrR m n k X G in
  meq k k (qherm T) (qmm r (qmm r (svdR T) S) (qherm (svdL T))) ->
  meq m n (qmm r (qmm r (gen_pass_U_4 C qrQ qrR svdR m n k X G) S) (qherm (gen_pass_V_4 C qrQ qrR svdL m n k X G)))
          (let Q2 := qrQ (qmm n X (qrQ (qmm m (qherm X) (qrQ (qmm n X G))))) in qmm k Q2 (qmm m (qherm Q2) X)).
Proof. intros T HT. exact (even_last_exact X (qrQ (qmm n X (qrQ (qmm m (qherm X) (qrQ (qmm n X G)))))) S HT). Qed.
Theorem C12_pass5_is_projection : let T := gen_pass_small_5 C qrQ qrR m n k X G in
  meq k k T (qmm r (qmm r (svdL T) S) (qherm (svdR T))) ->
  meq m n (qmm r (qmm r (gen_pass_U_5 C qrQ qrR svdL m n k X G) S) (qherm (gen_pass_V_5 C qrQ qrR svdR m n k X G)))
          (let Q1 := qrQ (qmm m (qherm X) (qrQ (qmm n X (qrQ (qmm m (qherm X) (qrQ (qmm n X G))))))) in qmm k (qmm n X Q1) (qherm Q1)).
Proof. intros T HT. exact (odd_last_exact X (qrQ (qmm m (qherm X) (qrQ (qmm n X (qrQ (qmm m (qherm X) (qrQ (qmm n X G)))))))) S HT). Qed.
(* rand_qsvd (sketch no wider than the matrix), n_iter = 0 .. 3: the last factorisation is always X^H Q1 = Q2 RR, so U S V^H = Q1 Q1^H X *)
Theorem C12_rand0_is_projection : let T := gen_rand_small_0 C qrQ qrR m n k X G in
  meq k k (qherm T) (qmm r (qmm r (svdR T) S) (qherm (svdL T))) ->
  exists Q1, meq m n (qmm r (qmm r (gen_rand_U_0 C qrQ qrR svdR m n k X G) S) (qherm (gen_rand_V_0 C qrQ qrR svdL m n k X G))) (qmm k Q1 (qmm m (qherm Q1) X))
             /\ Q1 = qrQ (qmm n X G).
Proof. intros T HT. eexists. split; [exact (even_last_exact X _ S HT) | reflexivity]. Qed.
Theorem C12_rand1_is_projection : let T := gen_rand_small_1 C qrQ qrR m n k X G in
  meq k k (qherm T) (qmm r (qmm r (svdR T) S) (qherm (svdL T))) ->
  exists M, let Q1 := qrQ M in meq m n (qmm r (qmm r (gen_rand_U_1 C qrQ qrR svdR m n k X G) S) (qherm (gen_rand_V_1 C qrQ qrR svdL m n k X G))) (qmm k Q1 (qmm m (qherm Q1) X)).
Proof. intros T HT. eexists. exact (even_last_exact X (qrQ _) S HT). Qed.
Theorem C12_rand2_is_projection : let T := gen_rand_small_2 C qrQ qrR m n k X G in
  meq k k (qherm T) (qmm r (qmm r (svdR T) S) (qherm (svdL T))) ->
  exists M, let Q1 := qrQ M in meq m n (qmm r (qmm r (gen_rand_U_2 C qrQ qrR svdR m n k X G) S) (qherm (gen_rand_V_2 C qrQ qrR svdL m n k X G))) (qmm k Q1 (qmm m (qherm Q1) X)).
Proof. intros T HT. eexists. exact (even_last_exact X (qrQ _) S HT). Qed.
Theorem C12_rand3_is_projection : let T := gen_rand_small_3 C qrQ qrR m n k X G in
  meq k k (qherm T) (qmm r (qmm r (svdR T) S) (qherm (svdL T))) ->
  exists M, let Q1 := qrQ M in meq m n (qmm r (qmm r (gen_rand_U_3 C qrQ qrR svdR m n k X G) S) (qherm (gen_rand_V_3 C qrQ qrR svdL m n k X G))) (qmm k Q1 (qmm m (qherm Q1) X)).
Proof. intros T HT. eexists. exact (even_last_exact X (qrQ _) S HT). Qed.

(* orthonormal columns: every returned factor is (an orthonormal Q of qr_qua) times (an orthonormal singular-vector block) *)
Hypothesis qrQ_orth : forall p (M : qmat), meq k k (qmm p (qherm (qrQ M)) (qrQ M)) qmid.
Hypothesis svdL_orth : forall T : qmat, meq r r (qmm k (qherm (svdL T)) (svdL T)) qmid.
Hypothesis svdR_orth : forall T : qmat, meq r r (qmm k (qherm (svdR T)) (svdR T)) qmid.
Lemma lifted_orth p (M W : qmat) : meq r r (qmm k (qherm W) W) qmid -> meq r r (qmm p (qherm (qmm k (qrQ M) W)) (qmm k (qrQ M) W)) qmid.
Proof. intros HW. apply (orthonormal_composition C p k r (qrQ M) W); [apply qrQ_orth | exact HW]. Qed.
Theorem C12_pass_factors_orthonormal :
  meq r r (qmm m (qherm (gen_pass_U_2 C qrQ qrR svdR m n k X G)) (gen_pass_U_2 C qrQ qrR svdR m n k X G)) qmid /\
  meq r r (qmm n (qherm (gen_pass_V_2 C qrQ qrR svdL m n k X G)) (gen_pass_V_2 C qrQ qrR svdL m n k X G)) qmid /\
  meq r r (qmm m (qherm (gen_pass_U_3 C qrQ qrR svdL m n k X G)) (gen_pass_U_3 C qrQ qrR svdL m n k X G)) qmid /\
  meq r r (qmm n (qherm (gen_pass_V_3 C qrQ qrR svdR m n k X G)) (gen_pass_V_3 C qrQ qrR svdR m n k X G)) qmid /\
  meq r r (qmm m (qherm (gen_pass_U_4 C qrQ qrR svdR m n k X G)) (gen_pass_U_4 C qrQ qrR svdR m n k X G)) qmid /\
  meq r r (qmm n (qherm (gen_pass_V_4 C qrQ qrR svdL m n k X G)) (gen_pass_V_4 C qrQ qrR svdL m n k X G)) qmid /\
  meq r r (qmm m (qherm (gen_pass_U_5 C qrQ qrR svdL m n k X G)) (gen_pass_U_5 C qrQ qrR svdL m n k X G)) qmid /\
  meq r r (qmm n (qherm (gen_pass_V_5 C qrQ qrR svdR m n k X G)) (gen_pass_V_5 C qrQ qrR svdR m n k X G)) qmid.
Proof. repeat split; apply lifted_orth; first [apply svdL_orth | apply svdR_orth]. Qed.
Theorem C12_rand_factors_orthonormal :
  meq r r (qmm m (qherm (gen_rand_U_0 C qrQ qrR svdR m n k X G)) (gen_rand_U_0 C qrQ qrR svdR m n k X G)) qmid /\
  meq r r (qmm n (qherm (gen_rand_V_0 C qrQ qrR svdL m n k X G)) (gen_rand_V_0 C qrQ qrR svdL m n k X G)) qmid /\
  meq r r (qmm m (qherm (gen_rand_U_1 C qrQ qrR svdR m n k X G)) (gen_rand_U_1 C qrQ qrR svdR m n k X G)) qmid /\
  meq r r (qmm n (qherm (gen_rand_V_1 C qrQ qrR svdL m n k X G)) (gen_rand_V_1 C qrQ qrR svdL m n k X G)) qmid /\
  meq r r (qmm m (qherm (gen_rand_U_2 C qrQ qrR svdR m n k X G)) (gen_rand_U_2 C qrQ qrR svdR m n k X G)) qmid /\
  meq r r (qmm n (qherm (gen_rand_V_2 C qrQ qrR svdL m n k X G)) (gen_rand_V_2 C qrQ qrR svdL m n k X G)) qmid /\
  meq r r (qmm m (qherm (gen_rand_U_3 C qrQ qrR svdR m n k X G)) (gen_rand_U_3 C qrQ qrR svdR m n k X G)) qmid /\
  meq r r (qmm n (qherm (gen_rand_V_3 C qrQ qrR svdL m n k X G)) (gen_rand_V_3 C qrQ qrR svdL m n k X G)) qmid.
Proof. repeat split; apply lifted_orth; first [apply svdL_orth | apply svdR_orth]. Qed.
End Pass.
Print Assumptions C12_pass2_is_projection.
Print Assumptions C12_pass3_is_projection.
Print Assumptions C12_pass5_is_projection.
Print Assumptions C12_rand2_is_projection.
Print Assumptions C12_pass_factors_orthonormal.
Print Assumptions C12_rand_factors_orthonormal.

From Coq Require Import Reals Lra.
From QV Require Import CRingR.
From QVT Require Import EckartYoung EckartYoungR.
Close Scope R_scope.

(* the error of ANY returned triple whose U has p orthonormal columns is at least the Eckart-Young optimum of A: for every singular
   value decomposition A = Ua diag(sa) Va^H (r columns, values non-negative and non-increasing), every s and every V *)
Theorem C12_error_at_least_eckart_young m n r p (Ua Va U V : qmat RR) (sa s : nat -> R) : p <= r ->
  meq r r (qmm m (qherm Ua) Ua) qmid -> meq r r (qmm n (qherm Va) Va) qmid -> meq p p (qmm m (qherm U) U) qmid ->
  (forall k, k < r -> (0 <= sa k)%R) -> (forall k l, k <= l -> l < r -> (sa l <= sa k)%R) ->
  (@sumR RR (r - p) (fun k => sa (p + k)%nat * sa (p + k)%nat) <= frob2 m n (qmsub (@usv RR r Ua sa Va) (@usv RR p U s V)))%R.
Proof.
  intros HR HU HV HQ H0 Hm.
  pose proof (eckart_young_optimal m n r p Ua Va U (qmm p (@rdiag RR s) (qherm V)) sa HR HU HV HQ H0 Hm) as E.
  pose proof (tail_sum RR r p sa HR) as T. cbn [car cmul RR] in T.
  assert (F : meq m n (qmsub (@usv RR r Ua sa Va) (@usv RR p U s V)) (qmsub (@usv RR r Ua sa Va) (qmm p U (qmm p (@rdiag RR s) (qherm V))))).
  { unfold usv at 2. rewrite (qmm_assoc RR m p p n U (@rdiag RR s) (qherm V)). reflexivity. }
  rewrite (frob2_meq RR m n _ _ F). eapply Rle_trans; [|exact E]. apply Req_le. symmetry. exact T.
Qed.
(* the first interlacing inequality s_0 <= sigma_0(A): the returned values are the singular values of a compression Q^H A of A by a matrix with
   orthonormal columns, and a compression does not increase operator bounds *)
From QVT Require Import SpectralNorm Compress.
Theorem C12_largest_value_at_most_largest_singular_value m n k ra rb (Qm Ua Va Ub Vb : qmat RR) (sa sb : nat -> R) :
  0 < ra -> 0 < rb -> meq k k (qmm m (qherm Qm) Qm) qmid ->
  meq ra ra (qmm m (qherm Ua) Ua) qmid -> meq ra ra (qmm n (qherm Va) Va) qmid ->
  meq rb rb (qmm k (qherm Ub) Ub) qmid -> meq rb rb (qmm n (qherm Vb) Vb) qmid ->
  (forall j, j < ra -> (0 <= sa j <= sa 0%nat)%R) -> (forall j, j < rb -> (0 <= sb j)%R) ->
  meq k n (qmm m (qherm Qm) (@usv RR ra Ua sa Va)) (@usv RR rb Ub sb Vb) ->
  (sb 0%nat <= sa 0%nat)%R.
Proof. exact (compressed_top_value_le m n k ra rb Qm Ua Va Ub Vb sa sb). Qed.
(* INTERLACING, every index: the returned values are the singular values of a compression Q^H A (even last pass, rand_qsvd) or A Q' (odd last
   pass) of A by a matrix with orthonormal columns, and every singular value of a compression is at most the corresponding singular value of A.
   (Min-max side: a matrix that factors through i rows leaves an operator residual of at least sigma_i -- thm/MinMax.v, with the existence of
   a non-trivial solution of an i x (i+1) homogeneous quaternion system, thm/Kernel.v.) *)
From QVT Require Import Kernel MinMax.
Theorem C12_interlacing m n k ra rb i (Qm Ua Va Ub Vb : qmat RR) (sa sb : nat -> R) :
  i < ra -> i < rb -> meq k k (qmm m (qherm Qm) Qm) qmid ->
  meq ra ra (qmm m (qherm Ua) Ua) qmid -> meq ra ra (qmm n (qherm Va) Va) qmid ->
  meq rb rb (qmm k (qherm Ub) Ub) qmid -> meq rb rb (qmm n (qherm Vb) Vb) qmid ->
  (forall j, j < ra -> (0 <= sa j)%R) -> (forall a b, a <= b -> b < ra -> (sa b <= sa a)%R) ->
  (forall j, j < rb -> (0 <= sb j)%R) -> (forall a b, a <= b -> b < rb -> (sb b <= sb a)%R) ->
  meq k n (qmm m (qherm Qm) (@usv RR ra Ua sa Va)) (@usv RR rb Ub sb Vb) ->
  (sb i <= sa i)%R.
Proof. exact (compression_interlacing m n k ra rb i Qm Ua Va Ub Vb sa sb). Qed.
Theorem C12_interlacing_right_compression m n k ra rb i (Qm Ua Va Ub Vb : qmat RR) (sa sb : nat -> R) :
  i < ra -> i < rb -> meq k k (qmm n (qherm Qm) Qm) qmid ->
  meq ra ra (qmm m (qherm Ua) Ua) qmid -> meq ra ra (qmm n (qherm Va) Va) qmid ->
  meq rb rb (qmm m (qherm Ub) Ub) qmid -> meq rb rb (qmm k (qherm Vb) Vb) qmid ->
  (forall j, j < ra -> (0 <= sa j)%R) -> (forall a b, a <= b -> b < ra -> (sa b <= sa a)%R) ->
  (forall j, j < rb -> (0 <= sb j)%R) -> (forall a b, a <= b -> b < rb -> (sb b <= sb a)%R) ->
  meq m k (qmm n (@usv RR ra Ua sa Va) Qm) (@usv RR rb Ub sb Vb) ->
  (sb i <= sa i)%R.
Proof. exact (compression_interlacing_right m n k ra rb i Qm Ua Va Ub Vb sa sb). Qed.
Print Assumptions C12_error_at_least_eckart_young.
Print Assumptions C12_largest_value_at_most_largest_singular_value.
Print Assumptions C12_interlacing.
Print Assumptions C12_interlacing_right_compression.
