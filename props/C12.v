(* C12: randomized Q-SVDs: composition of orthonormal factors. *)
From Coq Require Import Arith Lia.
From QV Require Import CRing Sums Quat Mat QMat.
From QVT Require Import Glue Proj.
Section P.
Variable C : CRing.
Notation qmat := (qmat C).
(* U = Q1 * U_small, V = Q2 * V_small: orthonormal columns are preserved by the lift-back, for all shapes *)
Theorem C12_orthonormal_composition m k r (Qm W : qmat) :
  meq k k (qmm m (qherm Qm) Qm) qmid -> meq r r (qmm k (qherm W) W) qmid ->
  meq r r (qmm m (qherm (qmm k Qm W)) (qmm k Qm W)) qmid.
Proof. exact (orthonormal_composition C m k r Qm W). Qed.
(* exactness on the range: if the columns of A lie in the span of an orthonormal Q (A = Q C0 for some C0),
   then Q Q^H A = A, so the projected problem loses nothing *)
Theorem C12_exact_on_captured_range m k n (Qm A C0 : qmat) :
  meq k k (qmm m (qherm Qm) Qm) qmid -> meq m n A (qmm k Qm C0) -> meq m n (qmm k Qm (qmm m (qherm Qm) A)) A.
Proof.
  intros HQ HA. rewrite HA at 1.
  rewrite <- (qmm_assoc C k m k n (qherm Qm) Qm C0), HQ, (qmm_id_l C k n C0). symmetry. exact HA.
Qed.
(* Pythagoras for the projection onto an orthonormal Q: ||A||_F^2 = ||Q^H A||_F^2 + ||A - Q Q^H A||_F^2 (any commutative
   component ring, all shapes); the approximation A ~ Q (Q^H A) that both randomized routines factor further *)
Theorem C12_projection_pythagoras m k n (A Qm : qmat) : meq k k (qmm m (qherm Qm) Qm) qmid ->
  frob2 m n A = (frob2 k n (qmm m (qherm Qm) A) + frob2 m n (qmsub A (qmm k Qm (qmm m (qherm Qm) A))))%cr.
Proof. exact (projection_pythagoras C m k n A Qm). Qed.
End P.
(* over the reals: the error of the projected approximation never exceeds ||A||_F *)
From Coq Require Import Reals Lra.
From QV Require Import CRingR.
From QVT Require Import CauchySchwarz Norms.
Theorem C12_error_at_most_norm m k n (A Qm : Mat.qmat RR) : meq k k (qmm m (qherm Qm) Qm) qmid ->
  (frob2 m n (qmsub A (qmm k Qm (qmm m (qherm Qm) A))) <= frob2 m n A)%R.
Proof.
  intros HQ. pose proof (projection_pythagoras RR m k n A Qm HQ) as E. cbv zeta in E.
  pose proof (frob2_nonneg k n (qmm m (qherm Qm) A)) as Hp.
  assert (E' : frob2 m n A = (frob2 k n (qmm m (qherm Qm) A) + frob2 m n (qmsub A (qmm k Qm (qmm m (qherm Qm) A))))%R) by exact E. lra.
Qed.
Print Assumptions C12_orthonormal_composition.
Print Assumptions C12_exact_on_captured_range.
Print Assumptions C12_projection_pythagoras.
Print Assumptions C12_error_at_most_norm.
