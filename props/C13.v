(* C13: CGNE / sketch-and-project / hyper-power: what the recorded numbers mean and which exact
   identities the updates satisfy.  Models in coq/model/CGNE.v. *)
From Coq Require Import Arith Lia Bool List.
From QV Require Import CRing Sums Quat Mat QMat.
From QVM Require Import CGNE.
From QVT Require Import CGNEthm.
Import ListNotations.

Section P.
Variable C : CRing.
Notation qmat := (qmat C).
Variable retab : nat -> nat -> qmat -> qmat.
Variable cdiv : C -> C -> C.
Variable small : C -> bool.
Hypothesis retab_ok : forall p q M, meq p q (retab p q M) M.
Variables (m n : nat) (A : qmat).

(* for every input, every tolerance predicate and every iteration budget: the residual matrix of the
   returned state is the true residual I - X A *)
Theorem C13_cgne_residual_recurrence alpha0 stop k sf hf :
  cg_run C retab cdiv small m n A stop k (cg_init C retab m n alpha0 A) [] = (sf, hf) ->
  meq n n (cgR C sf) (qmsub qmid (qmm m (cgX C sf) A)).
Proof. intros H. exact (cgne_residual_is_true C retab cdiv small retab_ok m n A stop k _ [] sf hf (init_Rinv C retab retab_ok m n A alpha0) H). Qed.
(* the last recorded residual is the (squared) residual norm of the RETURNED iterate, hence
   converged = (last <= tol) is never reported for an X whose true residual is larger *)
Theorem C13_cgne_flag_sound alpha0 stop k sf hf :
  cg_run C retab cdiv small m n A stop k (cg_init C retab m n alpha0 A) [] = (sf, hf) ->
  hf = [] \/ last hf c0 = frob2 n n (qmsub qmid (qmm m (cgX C sf) A)).
Proof.
  intros H. destruct (cgne_last_history_is_returned C retab cdiv small m n A stop k _ [] sf hf (or_introl eq_refl) H) as [E|E]; [now left|right].
  rewrite E. apply frob2_meq. exact (C13_cgne_residual_recurrence alpha0 stop k sf hf H).
Qed.
(* projection step: after X' = X + (Omega - X Y) Z with Z Y = I the sketched equation X' Y = Omega holds exactly *)
Theorem C13_projection_step r (X Y Omega Z : qmat) : meq r r (qmm m Z Y) qmid ->
  meq n r (qmm m (rsp_step C m n r X Y Omega Z) Y) Omega.
Proof. exact (rsp_step_satisfies_sketch C m n r X Y Omega Z). Qed.
(* hyper-power of order p:  I - X' A = (I - X A)^p *)
Theorem C13_hyperpower p (X : qmat) :
  meq n n (qmsub qmid (qmm m (hyperpower C retab m n p A X) A))
          (snd (hp_sum C retab n (retab n n (qmsub qmid (qmm m X A))) p)).
Proof. exact (hyperpower_residual C retab retab_ok m n A p X). Qed.
(* ---- the iterates stay in the row space of A^H, and a left inverse in that row space is THE pseudoinverse ---- *)
Definition rowspace (X : qmat) : Prop := exists Z : qmat, meq n m X (qmm n Z (qherm A)).
(* the start alpha A^H *)
Theorem C13_start_in_rowspace (W : qmat) : rowspace (qmm n W (qherm A)).
Proof. exists W. reflexivity. Qed.
(* sketch-and-project step with a micro-solver answer of the form Zk = Wk A^H (for Y = A Omega: Y^+ = (Y^H Y)^-1 Omega^H A^H) *)
Theorem C13_projection_step_keeps_rowspace r (X Y Omega Zk Wk : qmat) :
  rowspace X -> meq r m Zk (qmm n Wk (qherm A)) -> rowspace (rsp_step C m n r X Y Omega Zk).
Proof.
  intros [Z HZ] HW. exists (qmadd Z (qmm r (qmsub Omega (qmm m X Y)) Wk)). unfold rsp_step.
  rewrite (qmm_add_l C n n m Z (qmm r (qmsub Omega (qmm m X Y)) Wk) (qherm A)).
  rewrite (qmm_assoc C n r n m (qmsub Omega (qmm m X Y)) Wk (qherm A)), <- HW, <- HZ. reflexivity.
Qed.
(* any left multiplication (the hyper-power step X' = (I + F + ... + F^(p-1)) X) *)
Theorem C13_left_multiplication_keeps_rowspace (S X : qmat) : rowspace X -> rowspace (qmm n S X).
Proof. intros [Z HZ]. exists (qmm n S Z). rewrite HZ. symmetry. apply (qmm_assoc C n n n m S Z (qherm A)). Qed.
(* with G a right inverse of the Gram matrix A^H A (A of full column rank): X A = I and X in the row space force X = G A^H = A^+ *)
Theorem C13_left_inverse_in_rowspace_is_pseudoinverse (X G : qmat) :
  meq n n (qmm n (qmm m (qherm A) A) G) qmid -> rowspace X -> meq n n (qmm m X A) qmid -> meq n m X (qmm n G (qherm A)).
Proof.
  intros HG [Z HZ] HX.
  assert (E : meq n n Z G).
  { rewrite <- (qmm_id_r C n n Z), <- HG.
    rewrite <- (qmm_assoc C n n n n Z (qmm m (qherm A) A) G).
    rewrite <- (qmm_assoc C n n m n Z (qherm A) A), <- HZ, HX. apply (qmm_id_l C n n G). }
  rewrite HZ, E. reflexivity.
Qed.
End P.

(* the deterministic CGNE solver "with non-increasing residuals": for the executed model, every matrix, every budget, every stopping
   predicate and every break threshold that excludes ||W|| = 0, the recorded squared residuals never increase, starting from the
   residual of the initial iterate alpha0 A^H.  (Exact arithmetic: exact line search keeps <R, D A> = ||Z||^2 for any beta, so one
   step subtracts ||Z||^4 / ||W||^2.) *)
From Coq Require Import Reals.
From QV Require Import CRingR.
From QVT Require Import CGNEmono CGNEmonoR.
Theorem C13_cgne_history_never_increases (retab : nat -> nat -> qmat RR -> qmat RR) (small : R -> bool) m n (A : qmat RR) alpha0 stop k sf hf :
  (forall p q M, meq p q (retab p q M) M) -> (forall b, small b = false -> b <> 0%R) ->
  cg_run RR retab Rdiv small m n A stop k (cg_init RR retab m n alpha0 A) [] = (sf, hf) ->
  nonincr (frob2 n n (cgR RR (cg_init RR retab m n alpha0 A)) :: hf).
Proof. intros Hr Hs. exact (cgne_run_history_nonincreasing retab small Hr Hs m n A alpha0 stop k sf hf). Qed.
(* the one-step identity behind it, over any commutative component ring *)
Theorem C13_cgne_step_value (C : CRing) (retab : nat -> nat -> qmat C -> qmat C) (cdiv : C -> C -> C) (small : C -> bool) m n (A : qmat C) s s1 r2 :
  (forall p q M, meq p q (retab p q M) M) -> (forall a b, small b = false -> cmul (cdiv a b) b = a) ->
  Cinv C m n A s -> cg_update C retab cdiv small m n A s = Some (s1, r2) ->
  cmul r2 (frob2 n n (qmm m (cgD C s) A)) =
  csub (cmul (frob2 n n (cgR C s)) (frob2 n n (qmm m (cgD C s) A))) (cmul (frob2 n m (cgZ C s)) (frob2 n m (cgZ C s))).
Proof. intros Hr Hd HC E. exact (proj1 (proj2 (update_value C retab cdiv small Hr Hd m n A s s1 r2 HC E))). Qed.

Print Assumptions C13_cgne_residual_recurrence.
Print Assumptions C13_cgne_flag_sound.
Print Assumptions C13_projection_step.
Print Assumptions C13_hyperpower.

Print Assumptions C13_projection_step_keeps_rowspace.
Print Assumptions C13_left_inverse_in_rowspace_is_pseudoinverse.
Print Assumptions C13_cgne_history_never_increases.
Print Assumptions C13_cgne_step_value.

From QVT Require Import EckartYoung Penrose.
Section P2.
Variable C : CRing.
Notation qmat := (qmat C).
(* "equals the Moore-Penrose inverse": for a matrix of full column rank (the Gram matrix A^H A has a two-sided inverse G) the matrix G A^H --
   the one C13_left_inverse_in_rowspace_is_pseudoinverse identifies -- satisfies the four Penrose equations, and nothing else does *)
Theorem C13_gram_form_is_the_moore_penrose_inverse m n (A G X : qmat) :
  meq n n (qmm n G (qmm m (qherm A) A)) qmid -> meq n n (qmm n (qmm m (qherm A) A) G) qmid ->
  penrose C m n A (qmm n G (qherm A)) /\ (penrose C m n A X -> meq n m X (qmm n G (qherm A))).
Proof.
  intros GL GR. pose proof (gram_inverse_is_penrose C m n A G GL GR) as P. split; [exact P|].
  intros HX. exact (penrose_unique C m n A X _ HX P).
Qed.
End P2.
Print Assumptions C13_gram_form_is_the_moore_penrose_inverse.

From Coq Require Import Lra.
From QVT Require Import Norms RSPmono.
(* the deterministic core of "expected decrease": a sketch-and-project step never increases the Frobenius distance to ANY matrix that solves the sketched
   equation -- to the pseudoinverse in particular, whatever the random sketch: with Z Y = I and Y Z Hermitian (Z = Y^+, the QR answer and the
   normal-equations answer alike),  ||X' - Xs||_F^2 = ||X - Xs||_F^2 - ||(X - Xs) Y Z||_F^2 *)
Theorem C13_projection_step_error_identity (C : CRing) m n r (X Xs Y Omega Z : qmat C) :
  meq n r (qmm m Xs Y) Omega -> meq r r (qmm m Z Y) qmid -> meq m m (qherm (qmm r Y Z)) (qmm r Y Z) ->
  frob2 n m (qmsub (rsp_step C m n r X Y Omega Z) Xs) =
  csub (frob2 n m (qmsub X Xs)) (frob2 n m (qmm m (qmsub X Xs) (qmm r Y Z))).
Proof. exact (rsp_step_error_norm C m n r X Xs Y Omega Z). Qed.
Theorem C13_projection_step_never_increases_the_error m n r (X Xs Y Omega Z : qmat RR) :
  meq n r (qmm m Xs Y) Omega -> meq r r (qmm m Z Y) qmid -> meq m m (qherm (qmm r Y Z)) (qmm r Y Z) ->
  (frob2 n m (qmsub (rsp_step RR m n r X Y Omega Z) Xs) <= frob2 n m (qmsub X Xs))%R.
Proof.
  intros H1 H2 H3. rewrite (rsp_step_error_norm RR m n r X Xs Y Omega Z H1 H2 H3). cbn [car csub RR].
  pose proof (frob2_nonneg n m (qmm m (qmsub X Xs) (qmm r Y Z))). lra.
Qed.
Print Assumptions C13_projection_step_error_identity.
Print Assumptions C13_projection_step_never_increases_the_error.
