(* C13: CGNE / sketch-and-project / hyper-power: what the recorded numbers mean and which exact
   identities the updates satisfy.  Models in coq/model/CGNE.v. *)
From Coq Require Import Arith Lia Bool List.
From QV Require Import CRing Sums Quat Mat QMat.
From QVM Require Import CGNE.
From QVT Require Import CGNEthm.
Import ListNotations.

Section P.
Variable C : CRing.
Notation qmat := (qmat C).
Variable retab : nat -> nat -> qmat -> qmat.
Variable cdiv : C -> C -> C.
Variable small : C -> bool.
Hypothesis retab_ok : forall p q M, meq p q (retab p q M) M.
Variables (m n : nat) (A : qmat).

(* for every input, every tolerance predicate and every iteration budget: the residual matrix of the
   returned state is the true residual I - X A *)
Theorem C13_cgne_residual_recurrence alpha0 stop k sf hf :
  cg_run C retab cdiv small m n A stop k (cg_init C retab m n alpha0 A) [] = (sf, hf) ->
  meq n n (cgR C sf) (qmsub qmid (qmm m (cgX C sf) A)).
Proof. intros H. exact (cgne_residual_is_true C retab cdiv small retab_ok m n A stop k _ [] sf hf (init_Rinv C retab retab_ok m n A alpha0) H). Qed.
(* the last recorded residual is the (squared) residual norm of the RETURNED iterate, hence
   converged = (last <= tol) is never reported for an X whose true residual is larger *)
Theorem C13_cgne_flag_sound alpha0 stop k sf hf :
  cg_run C retab cdiv small m n A stop k (cg_init C retab m n alpha0 A) [] = (sf, hf) ->
  hf = [] \/ last hf c0 = frob2 n n (qmsub qmid (qmm m (cgX C sf) A)).
Proof.
  intros H. destruct (cgne_last_history_is_returned C retab cdiv small m n A stop k _ [] sf hf (or_introl eq_refl) H) as [E|E]; [now left|right].
  rewrite E. apply frob2_meq. exact (C13_cgne_residual_recurrence alpha0 stop k sf hf H).
Qed.
(* projection step: after X' = X + (Omega - X Y) Z with Z Y = I the sketched equation X' Y = Omega holds exactly *)
Theorem C13_projection_step r (X Y Omega Z : qmat) : meq r r (qmm m Z Y) qmid ->
  meq n r (qmm m (rsp_step C m n r X Y Omega Z) Y) Omega.
Proof. exact (rsp_step_satisfies_sketch C m n r X Y Omega Z). Qed.
(* hyper-power of order p:  I - X' A = (I - X A)^p *)
Theorem C13_hyperpower p (X : qmat) :
  meq n n (qmsub qmid (qmm m (hyperpower C retab m n p A X) A))
          (snd (hp_sum C retab n (retab n n (qmsub qmid (qmm m X A))) p)).
Proof. exact (hyperpower_residual C retab retab_ok m n A p X). Qed.
End P.

Print Assumptions C13_cgne_residual_recurrence.
Print Assumptions C13_cgne_flag_sound.
Print Assumptions C13_projection_step.
Print Assumptions C13_hyperpower.
