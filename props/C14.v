(* C14: no method of a solver class leaves a trace in the object's fields, hence a reused object
   behaves like a fresh one for every call history.  post_<Class>_<method> are regenerated from
   the `self.<attr> = ...` statements of quatica/solver.py on every run. *)
From Coq Require Import ZArith String List Bool.
From B Require Import Gen_C14.
Import ListNotations.
Open Scope string_scope.

Ltac upd_solve := intros; cbv zeta beta;
  repeat (unfold upd; match goal with |- context [String.eqb ?a ?b] => destruct (String.eqb_spec a b); subst end);
  try reflexivity; try congruence.

(* every method of every class: the state after the call equals the state before, field by field,
   for every entry state and every problem shape *)
Theorem C14_no_method_writes_fields :
  Forall (fun p => forall (s : state) (m n : Z) (k : string), snd p s m n k = s k) all_posts.
Proof. unfold all_posts. repeat constructor; cbn [snd]; match goal with |- forall _ _ _ _, ?f _ _ _ _ = _ => unfold f end; upd_solve. Qed.

Section History.
(* an object: its fields; a call: (method index into all_posts, problem shape); the value returned
   depends on the fields (read extensionally), the arguments and the RNG state at entry *)
Variable result arg rng : Type.
Variable out : string -> state -> arg -> rng -> result.
Hypothesis out_ext : forall mth s s' a r, (forall k, s k = s' k) -> out mth s a r = out mth s' a r.
Definition call := (nat * Z * Z)%type.
Definition post_of (c : call) (s : state) : state :=
  let '(i, m, n) := c in match nth_error all_posts i with Some p => snd p s m n | None => s end.
Lemma post_of_id c s k : post_of c s k = s k.
Proof. destruct c as [[i m] n]. unfold post_of. destruct (nth_error all_posts i) as [p|] eqn:E; [|reflexivity].
  pose proof C14_no_method_writes_fields as H. rewrite Forall_forall in H. apply H. eapply nth_error_In; eauto. Qed.
Definition after (h : list call) (s : state) : state := fold_left (fun s c => post_of c s) h s.
Lemma after_id h : forall s k, after h s k = s k.
Proof. induction h as [|c h IH]; intros s k; cbn [after fold_left]; [reflexivity|].
  unfold after in IH. rewrite IH. apply post_of_id. Qed.
(* reuse = fresh, for every history of any length *)
Theorem C14_reuse_equals_fresh (h : list call) (s : state) mth a r :
  out mth (after h s) a r = out mth s a r.
Proof. apply out_ext. intros k. apply after_id. Qed.
Theorem C14_repeat_is_idempotent (c : call) (s : state) mth a r :
  out mth (post_of c s) a r = out mth s a r.
Proof. apply out_ext. intros k. apply post_of_id. Qed.
End History.

(* constructors with a seed= parameter reseed the global generator for every seed that is given (0 included) and for none otherwise:
   with a seed in the configuration the first result of a fresh object does not depend on the state of the global generator *)
Theorem C14_given_seed_reseeds (z : Z) :
  reseeds_RandomizedSketchProjectPseudoinverse (Some z) = true /\ reseeds_HybridRSPNewtonSchulz (Some z) = true /\ reseeds_CGNEQSolver (Some z) = true.
Proof. repeat split. Qed.
Theorem C14_no_seed_no_reseed :
  reseeds_RandomizedSketchProjectPseudoinverse None = false /\ reseeds_HybridRSPNewtonSchulz None = false /\ reseeds_CGNEQSolver None = false.
Proof. repeat split. Qed.

Print Assumptions C14_no_method_writes_fields.
Print Assumptions C14_reuse_equals_fresh.
Print Assumptions C14_repeat_is_idempotent.
Print Assumptions C14_given_seed_reseeds.
