(* C15: matrix norms.  Frobenius entry points are generated from utils.py; the induced norms are
   modelled by norm1 / norminf of coq/thm/Norms.v (tied to the code by the correspondence run). *)
From Coq Require Import Reals Lra Arith Lia Ring List.
From QV Require Import CRing CRingR Sums Quat Mat QMat.
From QVT Require Import CauchySchwarz Norms.
From B Require Import Gen_C15.
Local Open Scope cr_scope.

Section P.
Variable C : CRing.
Add Ring Cr : (cr_th C).
(* all Frobenius entry points compute the same radicand: the sum of squared moduli *)
Theorem C15_frobenius_is_definition m n Aw Ax Ay Az :
  gen_frob2_unified C m n Aw Ax Ay Az = frob2 m n (pack Aw Ax Ay Az).
Proof. autounfold with gen. rewrite frob2_pack. ring. Qed.
Theorem C15_entry_points_agree m n Aw Ax Ay Az :
  gen_frob2_unified_none C m n Aw Ax Ay Az = gen_frob2_unified C m n Aw Ax Ay Az /\
  gen_frob2_unified_sparse C m n Aw Ax Ay Az = gen_frob2_unified C m n Aw Ax Ay Az /\
  gen_frob2_normQ C m n Aw Ax Ay Az = gen_frob2_unified C m n Aw Ax Ay Az /\
  gen_frob2_normQsparse C m n Aw Ax Ay Az = gen_frob2_unified C m n Aw Ax Ay Az /\
  gen_frob2_normQsparse_sparse C m n Aw Ax Ay Az = gen_frob2_unified C m n Aw Ax Ay Az.
Proof. autounfold with gen. repeat split; ring. Qed.
End P.

Local Open Scope R_scope.
(* genuine norms: absolute homogeneity, triangle inequality, sub-multiplicativity *)
Theorem C15_frobenius_homogeneous m n c (A : qmat RR) : normF m n (qmscale c A) = Rabs c * normF m n A.
Proof. exact (normF_homogeneous m n c A). Qed.
Theorem C15_frobenius_triangle m n (A B : qmat RR) : normF m n (qmadd A B) <= normF m n A + normF m n B.
Proof. exact (normF_triangle m n A B). Qed.
Theorem C15_frobenius_submultiplicative m k n (A B : qmat RR) : normF m n (qmm k A B) <= normF m k A * normF k n B.
Proof. exact (normF_submultiplicative m k n A B). Qed.
Theorem C15_norm1_homogeneous m n c (A : qmat RR) : norm1 m n (qmscale c A) = Rabs c * norm1 m n A.
Proof. exact (norm1_homogeneous m n c A). Qed.
Theorem C15_norm1_triangle m n (A B : qmat RR) : norm1 m n (qmadd A B) <= norm1 m n A + norm1 m n B.
Proof. exact (norm1_triangle m n A B). Qed.
Theorem C15_norm1_submultiplicative m k n (A B : qmat RR) : norm1 m n (qmm k A B) <= norm1 m k A * norm1 k n B.
Proof. exact (norm1_submultiplicative m k n A B). Qed.
Theorem C15_norminf_homogeneous m n c (A : qmat RR) : norminf m n (qmscale c A) = Rabs c * norminf m n A.
Proof. exact (norminf_homogeneous m n c A). Qed.
Theorem C15_norminf_triangle m n (A B : qmat RR) : norminf m n (qmadd A B) <= norminf m n A + norminf m n B.
Proof. exact (norminf_triangle m n A B). Qed.
Theorem C15_norminf_submultiplicative m k n (A B : qmat RR) : norminf m n (qmm k A B) <= norminf m k A * norminf k n B.
Proof. exact (norminf_submultiplicative m k n A B). Qed.
Theorem C15_norminf_is_norm1_of_conjugate_transpose m n (A : qmat RR) : norminf m n A = norm1 n m (qherm A).
Proof. exact (norminf_is_norm1_herm m n A). Qed.
(* ||A||_2 <= ||A||_F <= sqrt(rank) ||A||_2 in terms of the singular values (||A||_F^2 = sum s_i^2 by unitary invariance, C01) *)
Theorem C15_2_le_F_le_sqrt_rank_2 (r : nat) (s : nat -> R) : (forall i, 0 <= s i) ->
  maxR r s <= sqrt (@sumR RR r (fun i => s i * s i)) /\ sqrt (@sumR RR r (fun i => s i * s i)) <= sqrt (INR r) * maxR r s.
Proof. exact (two_le_F_le_sqrt_rank_two r s). Qed.

(* ||A x||_2^2 <= ||A||_inf ||A||_1 ||x||_2^2 for every vector x: every bound-attaining quantity of ||A x|| over unit vectors -- the spectral
   norm, the largest singular value -- is at most sqrt(||A||_1 ||A||_inf)  (the clause ||A||_2^2 <= ||A||_1 ||A||_inf without defining a supremum) *)
Theorem C15_norm2_squared_le_norm1_norminf m n (A : qmat RR) (x : nat -> quat RR) :
  vnorm2 m (matvec n A x) <= norminf m n A * norm1 m n A * vnorm2 n x.
Proof. exact (schur_test m n A x). Qed.
(* the spectral norm as the least M with ||A X||_F <= M ||X||_F: the bounds are closed under the operations of the norm axioms, and the
   Frobenius norm is one of them (||A||_2 <= ||A||_F) *)
Theorem C15_norm2_bounds_triangle m n (A B : qmat RR) M K : op_bound m n A M -> op_bound m n B K -> op_bound m n (qmadd A B) (M + K).
Proof. exact (op_bound_triangle m n A B M K). Qed.
Theorem C15_norm2_bounds_submultiplicative m k n (A B : qmat RR) M K : op_bound m k A M -> op_bound k n B K -> op_bound m n (qmm k A B) (M * K).
Proof. exact (op_bound_submultiplicative m k n A B M K). Qed.
Theorem C15_norm2_bounds_homogeneous m n (A : qmat RR) M c : op_bound m n A M -> op_bound m n (qmscale c A) (Rabs c * M).
Proof. exact (op_bound_homogeneous m n A M c). Qed.
Theorem C15_norm2_le_frobenius m n (A : qmat RR) : op_bound m n A (normF m n A).
Proof. exact (op_bound_frobenius m n A). Qed.
(* spectral_norm_2 / matrix_norm(A, 2), generated from the source: the largest entry of the singular-value vector of classical_qsvd_full(A)
   (that this vector holds the singular values is C05's contract), 0 for an empty one *)
Lemma lmax_ub (s : list R) x : In x s -> x <= lmax s.
Proof. unfold lmax. generalize (hd 0 s) as d. induction s as [|a s IH]; intros d Hx; [destruct Hx|].
  destruct Hx as [->|Hx]; cbn [fold_right]; [apply Rmax_l|]. eapply Rle_trans; [apply (IH d Hx) | apply Rmax_r]. Qed.
Lemma lmax_in_aux (s : list R) d : In (fold_right Rmax d s) (d :: s).
Proof. induction s as [|a s IH]; cbn [fold_right]; [left; reflexivity|]. unfold Rmax at 1. destruct (Rle_dec a (fold_right Rmax d s)).
  - destruct IH as [E|E]; [left; exact E | right; right; exact E].
  - right; left; reflexivity. Qed.
Theorem C15_norm2_is_largest_singular_value (s : list R) : s <> nil ->
  In (gen_spectral_norm_2 s) s /\ forall x, In x s -> x <= gen_spectral_norm_2 s.
Proof.
  intros Hs. destruct s as [|a s]; [contradiction|]. unfold gen_spectral_norm_2. cbn [length Nat.eqb]. split; [|apply lmax_ub].
  unfold lmax. cbn [hd]. destruct (lmax_in_aux (a :: s) a) as [E|E]; [left; exact E | exact E].
Qed.
Theorem C15_norm2_of_nothing : gen_spectral_norm_2 nil = 0.
Proof. reflexivity. Qed.

From QVT Require Import EckartYoung SpectralNorm.
Close Scope R_scope.

(* the largest singular value IS the spectral norm: for A = U diag(s) V^H (orthonormal columns, 0 <= s_k <= s_0) the value s_0 bounds
   ||A X||_F / ||X||_F for every X and no smaller number does -- so what spectral_norm_2 returns (the largest entry of the value
   vector, C15_norm2_is_largest_singular_value) is the least operator bound whenever the factorisation satisfies C05's contract *)
Theorem C15_largest_singular_value_is_operator_norm m n r (U V : qmat RR) (s : nat -> R) : 0 < r ->
  meq r r (qmm m (qherm U) U) qmid -> meq r r (qmm n (qherm V) V) qmid ->
  (forall k, k < r -> (0 <= s k)%R) -> (forall k, k < r -> (s k <= s 0%nat)%R) ->
  op_bound m n (@usv RR r U s V) (s 0%nat) /\ forall M, op_bound m n (@usv RR r U s V) M -> (s 0%nat <= M)%R.
Proof.
  intros Hr HU HV H0 Ht. split.
  - exact (largest_value_is_op_bound m n r U V s Hr HU HV H0 Ht).
  - exact (largest_value_is_least_bound m n r U V s Hr HU HV H0).
Qed.
(* hence the norm axioms for the largest singular value itself: sigma_max(A + B) <= sigma_max(A) + sigma_max(B), sigma_max(A B) <= sigma_max(A) sigma_max(B) *)
Theorem C15_norm2_triangle m n ra rb rc (Ua Va Ub Vb Uc Vc : qmat RR) (sa sb sc : nat -> R) :
  0 < ra -> 0 < rb -> 0 < rc ->
  (forall j, j < ra -> (0 <= sa j <= sa 0%nat)%R) -> (forall j, j < rb -> (0 <= sb j <= sb 0%nat)%R) -> (forall j, j < rc -> (0 <= sc j <= sc 0%nat)%R) ->
  meq ra ra (qmm m (qherm Ua) Ua) qmid -> meq ra ra (qmm n (qherm Va) Va) qmid ->
  meq rb rb (qmm m (qherm Ub) Ub) qmid -> meq rb rb (qmm n (qherm Vb) Vb) qmid ->
  meq rc rc (qmm m (qherm Uc) Uc) qmid -> meq rc rc (qmm n (qherm Vc) Vc) qmid ->
  meq m n (@usv RR rc Uc sc Vc) (qmadd (@usv RR ra Ua sa Va) (@usv RR rb Ub sb Vb)) ->
  (sc 0%nat <= sa 0%nat + sb 0%nat)%R.
Proof. exact (spectral_triangle m n ra rb rc Ua Va Ub Vb Uc Vc sa sb sc). Qed.
Theorem C15_norm2_submultiplicative m k n ra rb rc (Ua Va Ub Vb Uc Vc : qmat RR) (sa sb sc : nat -> R) :
  0 < ra -> 0 < rb -> 0 < rc ->
  (forall j, j < ra -> (0 <= sa j <= sa 0%nat)%R) -> (forall j, j < rb -> (0 <= sb j <= sb 0%nat)%R) -> (forall j, j < rc -> (0 <= sc j <= sc 0%nat)%R) ->
  meq ra ra (qmm m (qherm Ua) Ua) qmid -> meq ra ra (qmm k (qherm Va) Va) qmid ->
  meq rb rb (qmm k (qherm Ub) Ub) qmid -> meq rb rb (qmm n (qherm Vb) Vb) qmid ->
  meq rc rc (qmm m (qherm Uc) Uc) qmid -> meq rc rc (qmm n (qherm Vc) Vc) qmid ->
  meq m n (@usv RR rc Uc sc Vc) (qmm k (@usv RR ra Ua sa Va) (@usv RR rb Ub sb Vb)) ->
  (sc 0%nat <= sa 0%nat * sb 0%nat)%R.
Proof. exact (spectral_submultiplicative m k n ra rb rc Ua Va Ub Vb Uc Vc sa sb sc). Qed.
(* the classical comparisons for the largest singular value of A = U diag(s) V^H itself: sigma_max^2 <= ||A||_1 ||A||_inf,
   sigma_max <= ||A||_F, ||A||_F^2 <= r sigma_max^2 (r = number of values) *)
Theorem C15_sigma_max_squared_le_norm1_norminf m n r (U V : qmat RR) (s : nat -> R) : 0 < r ->
  meq r r (qmm m (qherm U) U) qmid -> meq r r (qmm n (qherm V) V) qmid -> (forall k, k < r -> (0 <= s k)%R) ->
  (s 0%nat * s 0%nat <= norminf m n (@usv RR r U s V) * norm1 m n (@usv RR r U s V))%R.
Proof. intros Hr HU HV H0. exact (top_value_sq_le_norm1_norminf m n r U V s Hr HU HV). Qed.
Theorem C15_sigma_max_le_frobenius_le_sqrt_r_sigma_max m n r (U V : qmat RR) (s : nat -> R) : 0 < r ->
  meq r r (qmm m (qherm U) U) qmid -> meq r r (qmm n (qherm V) V) qmid ->
  (forall k, k < r -> (0 <= s k)%R) -> (forall k, k < r -> (s k <= s 0%nat)%R) ->
  (s 0%nat <= normF m n (@usv RR r U s V))%R /\ (frob2 m n (@usv RR r U s V) <= @sumR RR r (fun _ => 1%R) * (s 0%nat * s 0%nat))%R.
Proof.
  intros Hr HU HV H0 Ht. split.
  - exact (top_value_le_frobenius m n r U V s Hr HU HV H0).
  - exact (frobenius_sq_le_r_top_value_sq m n r U V s HU HV H0 Ht).
Qed.
Open Scope R_scope.
Print Assumptions C15_frobenius_is_definition.
Print Assumptions C15_entry_points_agree.
Print Assumptions C15_frobenius_triangle.
Print Assumptions C15_norm1_submultiplicative.
Print Assumptions C15_norminf_submultiplicative.
Print Assumptions C15_2_le_F_le_sqrt_rank_2.
Print Assumptions C15_norm2_is_largest_singular_value.
Print Assumptions C15_norm2_squared_le_norm1_norminf.
Print Assumptions C15_norm2_bounds_submultiplicative.
Print Assumptions C15_largest_singular_value_is_operator_norm.
Print Assumptions C15_norm2_triangle.
Print Assumptions C15_sigma_max_squared_le_norm1_norminf.
Print Assumptions C15_sigma_max_le_frobenius_le_sqrt_r_sigma_max.
