(* C16: Givens rotations, Hessenberg QR building blocks and triangular solves. *)
From Coq Require Import Reals Lra Arith Lia ZArith QArith Qcanon Field List.
From QV Require Import CRing Sums Quat Mat QMat FOps FOpsR.
From QVM Require Import Givens TriSolve LUexec TriExec.
From QVT Require Import GivensThm TriSolveThm Reflector HouseholderR HessQRThm.
Close Scope Qc_scope. Close Scope Q_scope. Close Scope R_scope. Open Scope nat_scope.

(* the generated rotation is unitary (G^H G = I and G G^H = I) and maps (x1, x2) to (||x||, 0),
   in both ordering branches, for every pair whose norm exceeds eps *)
Theorem C16_ggivens_unitary_and_maps (eps : R) (x1 x2 : fq ROps) :
  (0 <= eps)%R -> (eps < sqrt (NR x1 + NR x2))%R ->
  is_unitary2 (ggivens ROps eps x1 x2) /\ maps_to (ggivens ROps eps x1 x2) x1 x2 (sqrt (NR x1 + NR x2)).
Proof. exact (ggivens_is_rotation eps x1 x2). Qed.
Theorem C16_ggivens_degenerate_is_identity (eps : R) (x1 x2 : fq ROps) :
  (sqrt (NR x1 + NR x2) <= eps)%R -> ggivens ROps eps x1 x2 = (fq1, fq0, fq0, fq1).
Proof. exact (ggivens_degenerate eps x1 x2). Qed.

(* the whole sweep of Hess_QR_ggivens (before the final phase normalisation) on an upper Hessenberg m x n matrix
   (m - 1 <= n, e.g. the (k+1) x k matrices of Q-GMRES) on which no degenerate pair (norm <= eps) is met:
   W is unitary, W R = H and R is upper triangular - every size, every entry *)
Theorem C16_hessenberg_sweep (eps : R) (m n : nat) (H : fmat ROps) : (0 <= eps)%R -> 1 <= m -> m - 1 <= n ->
  (forall i c, i < m -> c < n -> c + 1 < i -> H i c = fq0) ->
  sweep_nondeg eps m n (seq 0 (m - 1)) feye (fretab m n H) ->
  let '(W, Rm) := sweep ROps eps m n (seq 0 (m - 1)) feye (fretab m n H) in
  unitary m (tom W) /\ meq m n (qmm m (tom W) (tom Rm)) (tom H) /\ (forall i c, i < m -> c < n -> c < i -> Rm i c = fq0).
Proof. intros He Hm Hmn Hh Hnd. exact (hess_sweep_correct eps m n (tom H) He H Hm Hmn Hh (fun i j _ _ => eq_refl) Hnd). Qed.

Section Tri.
Variable C : CRing.
Variable dinv : quat C -> quat C.
Variable tiny : quat C -> bool.
Variable rho : quat C -> C.
Variable retab : nat -> nat -> qmat C -> qmat C.
Variables (n kk : nat).       (* n x n triangular matrix, kk right-hand sides *)
Hypothesis retab_ok : forall M i c, i < n -> c < kk -> retab n kk M i c = M i c.
Hypothesis dinv_r : forall d, qmul d (dinv d) = qreal (rho d).
(* forward substitution: row i of L X, any number kk of right-hand sides *)
Theorem C16_forward_row_defect L B i c : i < n -> c < kk ->
  let X := solve_lower C dinv retab n kk n L B in
  let S := sumQ i (fun j => qmul (L i j) (X j c)) in
  qadd S (qmul (L i i) (X i c)) = qadd S (qscale (rho (L i i)) (qsub (B i c) S)).
Proof. exact (forward_row C dinv rho retab n kk retab_ok dinv_r L B i c). Qed.
Theorem C16_forward_solves L B i c : i < n -> c < kk -> rho (L i i) = c1 ->
  let X := solve_lower C dinv retab n kk n L B in
  qadd (sumQ i (fun j => qmul (L i j) (X j c))) (qmul (L i i) (X i c)) = B i c.
Proof. exact (forward_solves C dinv rho retab n kk retab_ok dinv_r L B i c). Qed.
Theorem C16_backward_row_defect U B i c : i < n -> c < kk -> tiny (U i i) = false ->
  let X := solve_upper C dinv tiny retab n kk n U B in
  let S := sumQ (n - 1 - i) (fun t => qmul (U i (i + 1 + t)) (X (i + 1 + t) c)) in
  qadd (qmul (U i i) (X i c)) S = qadd (qscale (rho (U i i)) (qsub (B i c) S)) S.
Proof. exact (backward_row C dinv tiny rho retab n kk retab_ok dinv_r U B i c). Qed.
Theorem C16_backward_solves U B i c : i < n -> c < kk -> tiny (U i i) = false -> rho (U i i) = c1 ->
  let X := solve_upper C dinv tiny retab n kk n U B in
  qadd (qmul (U i i) (X i c)) (sumQ (n - 1 - i) (fun t => qmul (U i (i + 1 + t)) (X (i + 1 + t) c))) = B i c.
Proof. exact (backward_solves C dinv tiny rho retab n kk retab_ok dinv_r U B i c). Qed.
Theorem C16_zero_diagonal_row_is_zero U B i c : i < n -> c < kk -> tiny (U i i) = true ->
  solve_upper C dinv tiny retab n kk n U B i c = qzero.
Proof. exact (backward_zero_row C dinv tiny retab n kk retab_ok U B i c). Qed.
End Tri.

(* the executed regularised inverse satisfies d * dinv d = |d|^2 / (|d|^2 + delta) whenever the denominator is non-zero *)
Theorem C16_regularised_inverse (delta : Qc) (d : quatQ) : (qn2Q d + delta <> 0)%Qc ->
  qmul d (dinvQ delta d) = @qreal QcR (rhoQ delta d).
Proof.
  intros H. unfold dinvQ, rhoQ, qn2Q, qnorm2 in *. destruct d as [w x y z].
  cbn [qw qx qy qz cadd cmul QcR car] in *.
  apply qeq; cbn [qmul qreal qw qx qy qz cadd cmul csub copp c0 c1 QcR car]; field; exact H.
Qed.

Print Assumptions C16_ggivens_unitary_and_maps.
Print Assumptions C16_forward_row_defect.
Print Assumptions C16_backward_row_defect.
Print Assumptions C16_backward_solves.
Print Assumptions C16_regularised_inverse.
Print Assumptions C16_hessenberg_sweep.

From QVT Require Import HessQRDegen.
(* ... and also when degenerate pairs ARE met, as long as their sub-diagonal entry is exactly zero (a zero column that is not the last, a
   triangular column of tiny norm): the identity rotation is applied there and the conclusion is the same *)
Theorem C16_hessenberg_sweep_with_zero_pairs (eps : R) (m n : nat) (H : fmat ROps) : (0 <= eps)%R -> 1 <= m -> m - 1 <= n ->
  (forall i c, i < m -> c < n -> c + 1 < i -> H i c = fq0) ->
  sweep_ok eps m n (seq 0 (m - 1)) feye (fretab m n H) ->
  let '(W, Rm) := sweep ROps eps m n (seq 0 (m - 1)) feye (fretab m n H) in
  unitary m (tom W) /\ meq m n (qmm m (tom W) (tom Rm)) (tom H) /\ (forall i c, i < m -> c < n -> c < i -> Rm i c = fq0).
Proof. intros He Hm Hmn Hh Hok. exact (hess_sweep_correct_with_zero_pairs eps m n (tom H) He H Hm Hmn Hh (fun i j _ _ => eq_refl) Hok). Qed.
(* the premise is satisfiable with a degenerate position: the 3 x 2 matrix [[0, 1], [0, 1], [0, 1]] has a zero first column (degenerate pair
   with zero sub-diagonal at position 0) and a non-degenerate pair at position 1 *)
Example C16_zero_pair_premise_holds : sweep_ok 0%R 2 1 (seq 0 1) feye (fretab 2 1 (fun _ _ => @fq0 ROps)).
Proof.
  cbn [seq sweep_ok]. split; [|exact I]. right. split; [|reflexivity].
  cbn. assert (E : GivensThm.NR (@fq0 ROps) = 0%R) by (unfold GivensThm.NR; cbn; ring). rewrite E, Rplus_0_r, sqrt_0. apply Rle_refl.
Qed.
Print Assumptions C16_hessenberg_sweep_with_zero_pairs.

(* the solution of a triangular system with non-zero diagonal entries is unique (over the real quaternions): what the solvers return, once it
   satisfies U X = B, is THE solution *)
From QV Require Import CRingR.
From QVT Require Import Kernel TriUnique.
Theorem C16_upper_triangular_kernel_is_zero : forall n (U : qmat RR) (x : nat -> quat RR),
  (forall i j, i < n -> j < i -> U i j = qzero) -> (forall i, i < n -> U i i <> qzero) ->
  (forall r, r < n -> sumQ n (fun j => qmul (U r j) (x j)) = qzero) -> forall i, i < n -> x i = qzero.
Proof. exact upper_triangular_kernel_is_zero. Qed.
Theorem C16_upper_triangular_solution_is_unique : forall n p (U X Y B : qmat RR),
  (forall i j, i < n -> j < i -> U i j = qzero) -> (forall i, i < n -> U i i <> qzero) ->
  meq n p (qmm n U X) B -> meq n p (qmm n U Y) B -> meq n p X Y.
Proof. exact upper_triangular_solution_is_unique. Qed.
Print Assumptions C16_upper_triangular_kernel_is_zero.
Print Assumptions C16_upper_triangular_solution_is_unique.
