(* C17: kernel centring generated from qslst.py:_pad_psf; periodic convolution laws. *)
From Coq Require Import Arith Lia Ring Bool.
From QV Require Import CRing Sums Quat Mat NumpySem.
From QVT Require Import Conv.
From B Require Import Gen_C17.
Local Open Scope cr_scope.

Lemma mod_roundtrip u k H : (u < H)%nat -> (k <= H)%nat -> (((u + H - k) mod H + k) mod H = u)%nat.
Proof.
  intros Hu Hk. destruct (Nat.eq_dec k H) as [->|Hne].
  - replace (u + H - H)%nat with u by lia. rewrite (Nat.mod_small u H Hu).
    replace (u + H)%nat with (u + 1 * H)%nat by lia. rewrite Nat.mod_add by lia. now apply Nat.mod_small.
  - rewrite (modH_sub u k H Hu ltac:(lia)). destruct (Nat.leb_spec k u).
    + replace (u - k + k)%nat with u by lia. now apply Nat.mod_small.
    + replace (u + H - k + k)%nat with (u + 1 * H)%nat by lia. rewrite Nat.mod_add by lia. now apply Nat.mod_small.
Qed.

Section P.
Variable C : CRing.
Add Ring Cr : (cr_th C).
Notation rmat := (rmat C).
Definition PAD (H W kH kW : nat) (psf : rmat) : rmat := gen_pad_psf C H W kH kW psf.

(* tap (u, v) of the kernel lands at offset (u - kH/2, v - kW/2) from the origin, wrapped periodically *)
Theorem C17_pad_places_taps H W kH kW psf u v : (kH <= H)%nat -> (kW <= W)%nat -> (u < kH)%nat -> (v < kW)%nat ->
  PAD H W kH kW psf ((u + H - kH / 2) mod H)%nat ((v + W - kW / 2) mod W)%nat = psf u v.
Proof.
  intros HH HW Hu Hv. unfold PAD, gen_pad_psf.
  assert (kH / 2 <= kH)%nat by (apply Nat.div_le_upper_bound; lia).
  assert (kW / 2 <= kW)%nat by (apply Nat.div_le_upper_bound; lia).
  rewrite (mod_roundtrip u (kH / 2) H) by lia. rewrite (mod_roundtrip v (kW / 2) W) by lia.
  unfold inwin. nb. f_equal; lia.
Qed.
(* ... and nothing else is written *)
Theorem C17_pad_zero_elsewhere H W kH kW psf I J :
  (kH <= (I + kH / 2) mod H)%nat \/ (kW <= (J + kW / 2) mod W)%nat -> PAD H W kH kW psf I J = c0.
Proof. intros Hz. unfold PAD, gen_pad_psf, inwin. destruct Hz; nb; reflexivity. Qed.

Lemma sumR_window n k (f : nat -> C) : (k <= n)%nat ->
  sumR n (fun i => if (i <? k)%nat then f i else c0) = sumR k f.
Proof. intros Hk. replace n with (k + (n - k))%nat by lia. rewrite sumR_app.
  rewrite (sumR_ext C k _ f) by (intros i Hi; replace (i <? k)%nat with true by (symmetry; apply Nat.ltb_lt; lia); reflexivity).
  erewrite (sumR_ext C (n - k)), sumR_zero; [ring|].
  intros i Hi. cbn beta. replace (k + i <? k)%nat with false by (symmetry; apply Nat.ltb_ge; lia). reflexivity. Qed.

(* the total mass of the kernel is preserved by centring / padding *)
Theorem C17_pad_mass_preserved H W kH kW psf : (kH <= H)%nat -> (kW <= W)%nat ->
  total H W (PAD H W kH kW psf) = total kH kW psf.
Proof.
  intros HH HW. unfold total, PAD, gen_pad_psf.
  assert (kH / 2 <= H)%nat by (transitivity kH; [apply Nat.div_le_upper_bound; lia|lia]).
  assert (kW / 2 <= W)%nat by (transitivity kW; [apply Nat.div_le_upper_bound; lia|lia]).
  rewrite (sumR_rot C H (kH / 2) (fun I => sumR W (fun J =>
     if inwin I ((J + kW / 2) mod W) 0 kH 0 kW then psf (I - 0 + 0)%nat (((J + kW / 2) mod W) - 0 + 0)%nat else c0))) by lia.
  rewrite <- (sumR_window H kH (fun I => sumR kW (fun J => psf I J))) by lia.
  apply sumR_ext. intros I HI.
  rewrite (sumR_rot C W (kW / 2) (fun J => if inwin I J 0 kH 0 kW then psf (I - 0 + 0)%nat (J - 0 + 0)%nat else c0)) by lia.
  destruct (Nat.ltb_spec I kH).
  - rewrite <- (sumR_window W kW (fun J => psf I J)) by lia. apply sumR_ext. intros J HJ.
    unfold inwin. destruct (Nat.ltb_spec J kW); nb; [f_equal; lia|reflexivity].
  - erewrite sumR_ext, sumR_zero; [reflexivity|]. intros J HJ. cbn beta. unfold inwin. nb. reflexivity.
Qed.

(* the documented blur operator: periodic convolution with the centred kernel *)
Definition BLUR (H W kH kW : nat) (psf x : rmat) : rmat := cconv H W (PAD H W kH kW psf) x.
Theorem C17_impulse_is_centred_psf H W kH kW psf p q u v :
  (kH <= H)%nat -> (kW <= W)%nat -> (u < kH)%nat -> (v < kW)%nat -> (p < H)%nat -> (q < W)%nat ->
  (* the image point at offset (u - kH/2, v - kW/2) from the impulse receives tap (u, v) *)
  forall i j, (i < H)%nat -> (j < W)%nat ->
    ((i + H - p) mod H = (u + H - kH / 2) mod H)%nat -> ((j + W - q) mod W = (v + W - kW / 2) mod W)%nat ->
    BLUR H W kH kW psf (delta2 p q) i j = psf u v.
Proof.
  intros HH HW Hu Hv Hp Hq i j Hi Hj Ei Ej. unfold BLUR.
  rewrite cconv_impulse by assumption. rewrite Ei, Ej. now apply C17_pad_places_taps.
Qed.
Theorem C17_mass_preserved H W kH kW psf x : (kH <= H)%nat -> (kW <= W)%nat ->
  total H W (BLUR H W kH kW psf x) = total kH kW psf * total H W x.
Proof. intros. unfold BLUR. rewrite cconv_mass. f_equal. now apply C17_pad_mass_preserved. Qed.
Theorem C17_blur_linear H W kH kW psf c x y i j :
  BLUR H W kH kW psf (rmadd (rmscale c x) y) i j = c * BLUR H W kH kW psf x i j + BLUR H W kH kW psf y i j.
Proof. unfold BLUR. rewrite cconv_additive, cconv_homogeneous. reflexivity. Qed.
End P.

(* non-vacuity: a 3x3 kernel on a 5x6 image *)
Example C17_hyps_inhabited : (3 <= 5 /\ 3 <= 6 /\ 2 < 3 /\ 0 < 3)%nat. Proof. lia. Qed.

Print Assumptions C17_pad_places_taps.
Print Assumptions C17_pad_zero_elsewhere.
Print Assumptions C17_pad_mass_preserved.
Print Assumptions C17_impulse_is_centred_psf.
Print Assumptions C17_mass_preserved.
Print Assumptions C17_blur_linear.
