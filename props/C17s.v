(* C17 (restoration): theorems about the definitions generated from quatica/qslst.py (apply_blur_fft, qslst_restore_fft,
   qslst_restore_matrix) by qtrans/gen_c17s.py.  K stands for the complex numbers; numpy.fft.fft2 / ifft2 and
   numpy.linalg.pinv are section variables and everything that is relied upon about them is a hypothesis of the section
   (the discrete-Fourier-transform contract: mutually inverse, linear, convolution and correlation theorems). *)
From Coq Require Import Arith Lia Ring Bool ZArith.
From QV Require Import CRing Sums Quat Mat NumpySem.
From QVT Require Import Conv Tikhonov Bccb.
From B Require Import Gen_C17 Gen_C17s.
Local Open Scope cr_scope.

Section S.
Variable K : CRing.
Add Ring Kr2 : (cr_th K).
Notation rmat := (rmat K).
Variables (kconj kre kabs2 : K -> K) (kdiv : K -> K -> K) (keq0 : K -> bool).
Variables (fft2 ifft2 : nat -> nat -> rmat -> rmat).
Variable pinv : nat -> rmat -> rmat.
Variables (H W kH kW : nat).
Notation F := (fft2 H W).
Notation Fi := (ifft2 H W).
Notation "x =w y" := (weq H W x y) (at level 70).
Notation real := (isreal kre H W).

(* --- contract of the discrete Fourier transform on H x W arrays --- *)
Hypothesis Fi_w : forall s t, s =w t -> Fi s =w Fi t.
Hypothesis Fi_F : forall x, Fi (F x) =w x.
Hypothesis F_Fi : forall s, F (Fi s) =w s.
Hypothesis F_add : forall x y, F (rmadd x y) =w rmadd (F x) (F y).
Hypothesis F_scale : forall c x, F (rmscale c x) =w rmscale c (F x).
Hypothesis F_conv : forall h x, F (cconv H W h x) =w pmul (F h) (F x).
Hypothesis F_corr : forall h x, real h -> F (ccorr H W h x) =w pmul (pconj kconj (F h)) (F x).
(* --- scalar operations of the complex numbers --- *)
Hypothesis kabs2_def : forall z, kabs2 z = z * kconj z.
Hypothesis kdiv_mul : forall a d, d <> c0 -> kdiv a d * d = a.
Hypothesis kdiv_cancel : forall a d, d <> c0 -> kdiv (a * d) d = a.
Hypothesis kre_0 : kre c0 = c0.
Hypothesis kre_add : forall a b, kre (a + b) = kre a + kre b.
Hypothesis kre_scale : forall r a, kre r = r -> kre (r * a) = r * kre a.

Definition PADK (psf : rmat) : rmat := gen_pad_psf K H W kH kW psf.
(* the documented operator A (periodic convolution with the centred kernel) and its transpose *)
Definition Aop (psf x : rmat) : rmat := cconv H W (PADK psf) x.
Definition ATop (psf y : rmat) : rmat := ccorr H W (PADK psf) y.

Lemma pad_real psf : (forall u v, kre (psf u v) = psf u v) -> real (PADK psf).
Proof. intros R i j _ _. unfold PADK, gen_pad_psf. destruct (inwin _ _ _ _ _ _); [apply R | exact kre_0]. Qed.

(* A^T is the transpose of A for the Euclidean inner product of H x W images *)
Theorem C17_ATop_is_transpose psf x y : dot2 H W y (Aop psf x) = dot2 H W (ATop psf y) x.
Proof. exact (ccorr_is_transpose K H W (PADK psf) x y). Qed.

(* apply_blur_fft applies, to every channel, the periodic convolution with the centred kernel *)
Theorem C17_blur_fft_is_documented_operator Q psf c : (forall u v, kre (psf u v) = psf u v) -> real (Q c) ->
  gen_apply_blur_fft K kre fft2 ifft2 H W kH kW Q psf c =w Aop psf (Q c).
Proof.
  intros Rp Rq.
  exact (fft_blur_is_cconv K kre H W F Fi Fi_w Fi_F F_Fi F_conv kre_0 kre_add kre_scale (PADK psf) (Q c) (pad_real psf Rp) Rq).
Qed.

(* qslst_restore_fft returns, in every channel, the X with (A^T A + lambda I) X = A^T B for exactly that operator *)
Theorem C17_restore_fft_solves_normal_equations Bq psf lam c :
  (forall u v, kre (psf u v) = psf u v) -> real (Bq c) -> kre lam = lam ->
  (forall u v, (u < H)%nat -> (v < W)%nat -> kabs2 (F (PADK psf) u v) + lam <> c0) ->
  let X := gen_restore_fft K kconj kre kabs2 kdiv fft2 ifft2 H W kH kW Bq psf lam c in
  rmadd (ATop psf (Aop psf X)) (rmscale lam X) =w ATop psf (Bq c).
Proof.
  intros Rp Rb Rl Hd.
  exact (tik_restore_normal_equations K kconj kre kabs2 kdiv H W F Fi Fi_w Fi_F F_Fi F_add F_scale F_conv F_corr
           kabs2_def kdiv_mul kre_0 kre_add kre_scale (PADK psf) (Bq c) lam (pad_real psf Rp) Rb Rl Hd).
Qed.

(* lambda = 0: the blur is inverted wherever it is invertible *)
Theorem C17_restore_fft_inverts_blur X psf c :
  real (X c) -> (forall u v, (u < H)%nat -> (v < W)%nat -> kabs2 (F (PADK psf) u v) + c0 <> c0) ->
  gen_restore_fft K kconj kre kabs2 kdiv fft2 ifft2 H W kH kW (fun c => Aop psf (X c)) psf c0 c =w X c.
Proof.
  intros Rx Hd.
  exact (tik_restore_inverts_blur K kconj kre kabs2 kdiv H W F Fi Fi_w Fi_F F_Fi F_conv kabs2_def kdiv_cancel (PADK psf) (X c) Rx Hd).
Qed.

(* the four channels are restored independently *)
Theorem C17_restore_fft_channelwise Bq Bq' psf lam c : Bq c = Bq' c ->
  gen_restore_fft K kconj kre kabs2 kdiv fft2 ifft2 H W kH kW Bq psf lam c = gen_restore_fft K kconj kre kabs2 kdiv fft2 ifft2 H W kH kW Bq' psf lam c.
Proof. intros E. unfold gen_restore_fft. now rewrite E. Qed.

(* --- the matrix form (Algorithm 2 on an explicit N x N matrix, N = H W) --- *)
Definition vec (x : rmat) : nat -> K := fun r => x (r / W)%nat (r mod W)%nat.
Definition Tmat (A : rmat) (lam : K) : rmat := rmadd (rmm (H * W) (rmT A) A) (rmscale lam rmid).
Hypothesis keq0_spec : forall x, keq0 x = true -> x = c0.

Theorem C17_restore_matrix_solves_normal_equations Bq A lam c :
  let T' := if keq0 lam then rmm (H * W) (rmT A) A else Tmat A lam in
  (forall i j, (i < H * W)%nat -> (j < H * W)%nat -> rmm (H * W) T' (pinv (H * W)%nat T') i j = rmid i j) ->
  forall r, (r < H * W)%nat ->
    rmv (H * W) (Tmat A lam) (vec (gen_restore_matrix K keq0 pinv H W Bq A lam c)) r = rmv (H * W) (rmT A) (vec (Bq c)) r.
Proof.
  intros T' Hinv r Hr.
  assert (W0 : W <> 0%nat) by (intros ->; lia).
  set (e := rmv (H * W) (rmT A) (fun r_ => Bq c (r_ / W)%nat (r_ mod W)%nat)).
  set (x := rmv (H * W) (pinv (H * W)%nat T') e).
  rewrite (rmv_ext_v K (H * W) _ (vec (gen_restore_matrix K keq0 pinv H W Bq A lam c)) x).
  2:{ intros l Hl. unfold vec, gen_restore_matrix. replace (l / W * W + l mod W)%nat with l; [reflexivity|].
      rewrite (Nat.mul_comm (l / W) W). apply Nat.div_mod. exact W0. }
  rewrite (rmv_ext K (H * W) (Tmat A lam) T').
  - unfold x. apply matrix_path_normal_equations; assumption.
  - intros l Hl. unfold T'. destruct (keq0 lam) eqn:E; [|reflexivity].
    apply keq0_spec in E. subst lam. unfold Tmat, rmadd, rmscale. ring.
Qed.
(* --- the dense builder of the deblurring application: column i W + j is the flattened kernel rolled by (i, j) --- *)
Theorem C17_dense_builder_is_bccb psf r s : gen_build_bccb_matrix K H W kH kW psf r s = bccb H W (PADK psf) r s.
Proof. reflexivity. Qed.
(* ... and it represents the documented operator: A vec(x) = vec(A x) for every image x *)
Theorem C17_dense_builder_represents_operator psf x r : (r < H * W)%nat ->
  rmv (H * W) (gen_build_bccb_matrix K H W kH kW psf) (vecW W x) r = Aop psf x (r / W)%nat (r mod W)%nat.
Proof. intros Hr. exact (bccb_is_cconv K H W (PADK psf) x r Hr). Qed.
(* the matrix path run on the matrix of the dense builder solves the normal equations of the documented operator *)
Theorem C17_restore_matrix_on_dense_builder Bq psf lam c :
  let A := gen_build_bccb_matrix K H W kH kW psf in
  let T' := if keq0 lam then rmm (H * W) (rmT A) A else Tmat A lam in
  (forall i j, (i < H * W)%nat -> (j < H * W)%nat -> rmm (H * W) T' (pinv (H * W)%nat T') i j = rmid i j) ->
  forall r, (r < H * W)%nat ->
    rmv (H * W) (Tmat A lam) (vec (gen_restore_matrix K keq0 pinv H W Bq A lam c)) r = rmv (H * W) (rmT A) (vec (Bq c)) r.
Proof. intros A T' Hinv r Hr. exact (C17_restore_matrix_solves_normal_equations Bq A lam c Hinv r Hr). Qed.
(* --- the sparse builder: one (row, column, tap) triple per pixel and non-zero tap, duplicates summed --- *)
Lemma pad_is_padc psf I J : PADK psf I J = padc H W kH kW psf I J.
Proof. unfold PADK, gen_pad_psf, padc. rewrite !Nat.add_0_r, !Nat.sub_0_r. reflexivity. Qed.
Theorem C17_csr_builder_is_coo psf r s : gen_build_bccb_csr K keq0 H W kH kW psf r s = coo H W kH kW keq0 psf r s.
Proof. reflexivity. Qed.
(* for a kernel no larger than the image the sparse builder has the entries of the dense builder ... *)
Theorem C17_builders_agree psf r s : (kH <= H)%nat -> (kW <= W)%nat -> (r < H * W)%nat -> (s < H * W)%nat ->
  gen_build_bccb_csr K keq0 H W kH kW psf r s = gen_build_bccb_matrix K H W kH kW psf r s.
Proof.
  intros HkH HkW Hr Hs. rewrite C17_csr_builder_is_coo, (coo_is_bccb K H W kH kW keq0 psf r s keq0_spec HkH HkW Hr Hs).
  unfold gen_build_bccb_matrix, bccb. now rewrite pad_is_padc.
Qed.
(* ... hence represents the same operator *)
Theorem C17_csr_builder_represents_operator psf x r : (kH <= H)%nat -> (kW <= W)%nat -> (r < H * W)%nat ->
  rmv (H * W) (gen_build_bccb_csr K keq0 H W kH kW psf) (vecW W x) r = Aop psf x (r / W)%nat (r mod W)%nat.
Proof.
  intros HkH HkW Hr. rewrite <- (C17_dense_builder_represents_operator psf x r Hr).
  apply rmv_ext. intros l Hl. now apply C17_builders_agree.
Qed.
(* --- the matrix path run on the explicit matrix and the FFT path give the same restoration --- *)
Theorem C17_matrix_path_equals_fft_path Bq psf lam c :
  (forall u v, kre (psf u v) = psf u v) -> real (Bq c) -> kre lam = lam ->
  (forall u v, (u < H)%nat -> (v < W)%nat -> kabs2 (F (PADK psf) u v) + lam <> c0) ->
  let A := gen_build_bccb_matrix K H W kH kW psf in
  let T' := if keq0 lam then rmm (H * W) (rmT A) A else Tmat A lam in
  (forall i j, (i < H * W)%nat -> (j < H * W)%nat -> rmm (H * W) T' (pinv (H * W)%nat T') i j = rmid i j) ->
  (forall i j, (i < H * W)%nat -> (j < H * W)%nat -> rmm (H * W) (pinv (H * W)%nat T') T' i j = rmid i j) ->
  gen_restore_matrix K keq0 pinv H W Bq A lam c =w gen_restore_fft K kconj kre kabs2 kdiv fft2 ifft2 H W kH kW Bq psf lam c.
Proof.
  intros Rp Rb Rl Hd A T' Hr Hl.
  set (Xm := gen_restore_matrix K keq0 pinv H W Bq A lam c). set (Xf := gen_restore_fft K kconj kre kabs2 kdiv fft2 ifft2 H W kH kW Bq psf lam c).
  assert (ET : forall i j, T' i j = Tmat A lam i j).
  { intros i j. unfold T'. destruct (keq0 lam) eqn:E; [|reflexivity]. apply keq0_spec in E. rewrite E. unfold Tmat, rmadd, rmscale. ring. }
  assert (Em : forall r, (r < H * W)%nat -> rmv (H * W) (Tmat A lam) (vec Xm) r = rmv (H * W) (rmT A) (vec (Bq c)) r).
  { intros r Hr'. exact (C17_restore_matrix_solves_normal_equations Bq A lam c Hr r Hr'). }
  assert (Ef : forall r, (r < H * W)%nat -> rmv (H * W) (Tmat A lam) (vec Xf) r = rmv (H * W) (rmT A) (vec (Bq c)) r).
  { intros r Hr'. destruct (divmod_lt r H W Hr') as (Hi & Hj & W0).
    unfold Tmat. rewrite rmv_add, rmv_scale_id by exact Hr'. rewrite rmv_rmm.
    rewrite (rmv_ext_v K (H * W) (rmT A) _ (vecW W (Aop psf Xf)) r) by (intros l Hl'; exact (C17_dense_builder_represents_operator psf Xf l Hl')).
    change A with (bccb H W (PADK psf)). rewrite (bccbT_is_ccorr K H W (PADK psf) (Aop psf Xf) r Hr').
    change (vec (Bq c)) with (vecW W (Bq c)). rewrite (bccbT_is_ccorr K H W (PADK psf) (Bq c) r Hr').
    pose proof (C17_restore_fft_solves_normal_equations Bq psf lam c Rp Rb Rl Hd (r / W)%nat (r mod W)%nat Hi Hj) as P.
    unfold rmadd, rmscale, ATop in P. exact P. }
  assert (Ex : forall r, (r < H * W)%nat -> vec Xm r = vec Xf r).
  { apply (left_inverse_unique K (H * W) (Tmat A lam) (pinv (H * W)%nat T')).
    - intros i j Hi Hj. rewrite <- (Hl i j Hi Hj). unfold rmm. apply sumR_ext; intros l _. now rewrite ET.
    - intros r Hr'. now rewrite Em, Ef. }
  intros i j Hi Hj. assert (Hrr : (i * W + j < H * W)%nat) by nia.
  specialize (Ex (i * W + j)%nat Hrr). unfold vec in Ex. rewrite (dm_div' i W j Hj), (dm_mod' i W j Hj) in Ex. exact Ex.
Qed.
(* the restoration is linear in B (real coefficients) *)
Hypothesis Fi_add : forall s t, Fi (rmadd s t) =w rmadd (Fi s) (Fi t).
Hypothesis Fi_scale : forall c s, Fi (rmscale c s) =w rmscale c (Fi s).
Hypothesis kdiv_add : forall a b d, kdiv (a + b) d = kdiv a d + kdiv b d.
Hypothesis kdiv_scale : forall c a d, kdiv (c * a) d = c * kdiv a d.
Theorem C17_restore_fft_linear B1 B2 psf lam c0' ch : kre c0' = c0' ->
  gen_restore_fft K kconj kre kabs2 kdiv fft2 ifft2 H W kH kW (fun ch => rmadd (rmscale c0' (B1 ch)) (B2 ch)) psf lam ch
  =w rmadd (rmscale c0' (gen_restore_fft K kconj kre kabs2 kdiv fft2 ifft2 H W kH kW B1 psf lam ch)) (gen_restore_fft K kconj kre kabs2 kdiv fft2 ifft2 H W kH kW B2 psf lam ch).
Proof.
  intros Rc.
  exact (tik_restore_linear K kconj kre kabs2 kdiv H W F Fi Fi_w F_add F_scale kre_add kre_scale Fi_add Fi_scale kdiv_add kdiv_scale (PADK psf) (B1 ch) (B2 ch) c0' lam Rc).
Qed.

End S.

Print Assumptions C17_ATop_is_transpose.
Print Assumptions C17_blur_fft_is_documented_operator.
Print Assumptions C17_restore_fft_solves_normal_equations.
Print Assumptions C17_restore_fft_inverts_blur.
Print Assumptions C17_restore_fft_channelwise.
Print Assumptions C17_restore_fft_linear.
Print Assumptions C17_restore_matrix_solves_normal_equations.
Print Assumptions C17_dense_builder_represents_operator.
Print Assumptions C17_builders_agree.
Print Assumptions C17_csr_builder_represents_operator.
Print Assumptions C17_matrix_path_equals_fft_path.

(* ------------------------------------------------------------------------------------------------
   The contract is satisfiable, and by the transform NumPy documents: with K the complex numbers (pairs of reals) and
   fft2 / ifft2 the two-dimensional discrete Fourier transform and its inverse (thm/DFT.v: inversion from the
   orthogonality of the roots of unity, convolution and correlation theorems), every hypothesis of section S is a theorem. *)
From Coq Require Import Reals Lra.
From QVT Require Import DFT.

Section Inst.
Variables (H W kH kW : nat).
Notation gen_restore := (gen_restore_fft CxR xconj xre xabs2 xdiv (fun H W => dft H W) (fun H W => idft H W) H W kH kW).
Notation gen_blur := (gen_apply_blur_fft CxR xre (fun H W => dft H W) (fun H W => idft H W) H W kH kW).
Notation realimg := (@isreal CxR xre H W).

Lemma xabs2_plus_pos z l : (0 < l)%R -> xadd (xabs2 z) (ofR l) <> x0.
Proof. destruct z as [p q]. unfold xabs2, xmul, xconj, xadd, ofR, x0. cbn [fst snd]. intros Hl E. injection E as E1 _. nra. Qed.

Theorem C17_blur_fft_is_documented_operator_DFT Q psf c : (forall u v, xre (psf u v) = psf u v) -> realimg (Q c) ->
  weq H W (gen_blur Q psf c) (Aop CxR H W kH kW psf (Q c)).
Proof.
  intros Rp Rq.
  apply (C17_blur_fft_is_documented_operator CxR xre (fun H W => dft H W) (fun H W => idft H W) H W kH kW
           (idft_w H W) (idft_dft H W) (dft_idft H W) (dft_conv H W) xre_0 xre_add xre_scale); assumption.
Qed.

Theorem C17_restore_fft_solves_normal_equations_DFT Bq psf l c :
  (forall u v, xre (psf u v) = psf u v) -> realimg (Bq c) -> (0 < l)%R ->
  let X := gen_restore Bq psf (ofR l) c in
  weq H W (rmadd (ATop CxR H W kH kW psf (Aop CxR H W kH kW psf X)) (rmscale (ofR l : CxR) X)) (ATop CxR H W kH kW psf (Bq c)).
Proof.
  intros Rp Rb Hl.
  apply (C17_restore_fft_solves_normal_equations CxR xconj xre xabs2 xdiv (fun H W => dft H W) (fun H W => idft H W) H W kH kW
           (idft_w H W) (idft_dft H W) (dft_idft H W) (dft_add H W) (dft_scale H W) (dft_conv H W) (dft_corr H W)
           (fun z => eq_refl) xdiv_mul xre_0 xre_add xre_scale); try assumption.
  - reflexivity.
  - intros u v _ _. now apply xabs2_plus_pos.
Qed.

Theorem C17_restore_fft_inverts_blur_DFT X psf c : realimg (X c) ->
  (forall u v, (u < H)%nat -> (v < W)%nat -> dft H W (PADK CxR H W kH kW psf) u v <> x0) ->
  weq H W (gen_restore (fun c => Aop CxR H W kH kW psf (X c)) psf x0 c) (X c).
Proof.
  intros Rx Hn.
  apply (C17_restore_fft_inverts_blur CxR xconj xre xabs2 xdiv (fun H W => dft H W) (fun H W => idft H W) H W kH kW
           (idft_w H W) (idft_dft H W) (dft_idft H W) (dft_conv H W) (fun z => eq_refl) xdiv_cancel); [assumption|].
  intros u v Hu Hv E. specialize (Hn u v Hu Hv).
  assert (E2 : xabs2 (dft H W (PADK CxR H W kH kW psf) u v) = x0).
  { transitivity (xadd (xabs2 (dft H W (PADK CxR H W kH kW psf) u v)) x0); [|exact E]. destruct (xabs2 _). unfold xadd, x0. cbn [fst snd]. f_equal; lra. }
  unfold xabs2 in E2. apply xmul_integral in E2; [|exact Hn]. apply Hn.
  rewrite <- (xconj_invol (dft H W (PADK CxR H W kH kW psf) u v)), E2. unfold xconj, x0. cbn [fst snd]. f_equal. lra.
Qed.
Theorem C17_restore_fft_linear_DFT B1 B2 psf lam c ch : xre c = c ->
  weq H W (gen_restore (fun ch => rmadd (rmscale (c : CxR) (B1 ch)) (B2 ch)) psf lam ch) (rmadd (rmscale (c : CxR) (gen_restore B1 psf lam ch)) (gen_restore B2 psf lam ch)).
Proof.
  intros Rc.
  exact (C17_restore_fft_linear CxR xconj xre xabs2 xdiv (fun H W => dft H W) (fun H W => idft H W) H W kH kW
           (idft_w H W) (dft_add H W) (dft_scale H W) xre_add xre_scale (idft_add H W) (idft_scale H W) xdiv_add xdiv_scale B1 B2 psf lam c ch Rc).
Qed.
Definition xeq0 (z : Cx) : bool := if Req_EM_T (fst z) 0 then (if Req_EM_T (snd z) 0 then true else false) else false.
Lemma xeq0_spec z : xeq0 z = true -> z = x0.
Proof. destruct z as [p q]. unfold xeq0, x0. cbn [fst snd]. destruct (Req_EM_T p 0), (Req_EM_T q 0); intros E; try discriminate. now subst. Qed.
(* matrix path on the dense builder's matrix = FFT path, for the transform itself, any pseudo-inverse routine that inverts the
   (positive definite) matrix A^T A + l I on both sides *)
Theorem C17_matrix_path_equals_fft_path_DFT (pinv : nat -> rmat CxR -> rmat CxR) Bq psf l c :
  (forall u v, xre (psf u v) = psf u v) -> realimg (Bq c) -> (0 < l)%R ->
  let A := gen_build_bccb_matrix CxR H W kH kW psf in
  let T' := if xeq0 (ofR l) then rmm (H * W) (rmT A) A else Tmat CxR H W A (ofR l) in
  (forall i j, (i < H * W)%nat -> (j < H * W)%nat -> rmm (H * W) T' (pinv (H * W)%nat T') i j = rmid i j) ->
  (forall i j, (i < H * W)%nat -> (j < H * W)%nat -> rmm (H * W) (pinv (H * W)%nat T') T' i j = rmid i j) ->
  weq H W (gen_restore_matrix CxR xeq0 pinv H W Bq A (ofR l) c) (gen_restore Bq psf (ofR l) c).
Proof.
  intros Rp Rb Hl A T' Hr Hli.
  apply (C17_matrix_path_equals_fft_path CxR xconj xre xabs2 xdiv xeq0 (fun H W => dft H W) (fun H W => idft H W) pinv H W kH kW
           (idft_w H W) (idft_dft H W) (dft_idft H W) (dft_add H W) (dft_scale H W) (dft_conv H W) (dft_corr H W)
           (fun z => eq_refl) xdiv_mul xre_0 xre_add xre_scale xeq0_spec); try assumption.
  - reflexivity.
  - intros u v _ _. now apply xabs2_plus_pos.
Qed.
End Inst.

Print Assumptions C17_blur_fft_is_documented_operator_DFT.
Print Assumptions C17_restore_fft_solves_normal_equations_DFT.
Print Assumptions C17_restore_fft_inverts_blur_DFT.
Print Assumptions C17_matrix_path_equals_fft_path_DFT.
Print Assumptions C17_restore_fft_linear_DFT.
