(* C18: tensor unfold/fold and colour <-> quaternion mappings, generated from tensor.py / qslst.py. *)
From Coq Require Import Arith Lia List.
From QV Require Import CRing Sums Quat Mat.
From B Require Import Gen_C18.

Lemma dm_div j K k : k < K -> (j * K + k) / K = j.
Proof. intros H. rewrite Nat.div_add_l by lia. rewrite Nat.div_small by lia. lia. Qed.
Lemma dm_mod j K k : k < K -> (j * K + k) mod K = k.
Proof. intros H. rewrite Nat.add_comm, Nat.mod_add by lia. apply Nat.mod_small; lia. Qed.
Lemma dm_eq c K : K <> 0 -> (c / K) * K + c mod K = c.
Proof. intros H. pose proof (Nat.div_mod c K H). lia. Qed.

Section P.
Variable X : Type.
Notation T3 := (nat -> nat -> nat -> X).

(* the mode-n fibres are the columns of the mode-n unfolding *)
Theorem C18_unfold0_fibres I J K (T : T3) i j k : k < K -> gen_unfold0 X I J K T i (j * K + k) = T i j k.
Proof. intros. unfold gen_unfold0. now rewrite dm_div, dm_mod. Qed.
Theorem C18_unfold1_fibres I J K (T : T3) i j k : k < K -> gen_unfold1 X I J K T j (i * K + k) = T i j k.
Proof. intros. unfold gen_unfold1. now rewrite dm_div, dm_mod. Qed.
Theorem C18_unfold2_fibres I J K (T : T3) i j k : j < J -> gen_unfold2 X I J K T k (i * J + j) = T i j k.
Proof. intros. unfold gen_unfold2. now rewrite dm_div, dm_mod. Qed.
Theorem C18_unfold_shape I J K :
  (gen_unfold0_rows I J K, gen_unfold0_cols I J K) = (I, J * K) /\
  (gen_unfold1_rows I J K, gen_unfold1_cols I J K) = (J, I * K) /\
  (gen_unfold2_rows I J K, gen_unfold2_cols I J K) = (K, I * J).
Proof. repeat split. Qed.

(* fold o unfold = id, all modes, all I J K >= 1 (bounds as hypotheses) *)
Theorem C18_fold_unfold_id0 I J K (T : T3) i j k : i < I -> j < J -> k < K ->
  gen_fold0 X I J K (gen_unfold0 X I J K T) i j k = T i j k.
Proof. intros. unfold gen_fold0. now apply C18_unfold0_fibres. Qed.
Theorem C18_fold_unfold_id1 I J K (T : T3) i j k : i < I -> j < J -> k < K ->
  gen_fold1 X I J K (gen_unfold1 X I J K T) i j k = T i j k.
Proof. intros. unfold gen_fold1. now apply C18_unfold1_fibres. Qed.
Theorem C18_fold_unfold_id2 I J K (T : T3) i j k : i < I -> j < J -> k < K ->
  gen_fold2 X I J K (gen_unfold2 X I J K T) i j k = T i j k.
Proof. intros. unfold gen_fold2. now apply C18_unfold2_fibres. Qed.
(* unfold o fold = id *)
Theorem C18_unfold_fold_id0 I J K (M : nat -> nat -> X) r c : K <> 0 ->
  gen_unfold0 X I J K (gen_fold0 X I J K M) r c = M r c.
Proof. intros. unfold gen_unfold0, gen_fold0. now rewrite dm_eq. Qed.
Theorem C18_unfold_fold_id1 I J K (M : nat -> nat -> X) r c : K <> 0 ->
  gen_unfold1 X I J K (gen_fold1 X I J K M) r c = M r c.
Proof. intros. unfold gen_unfold1, gen_fold1. now rewrite dm_eq. Qed.
Theorem C18_unfold_fold_id2 I J K (M : nat -> nat -> X) r c : J <> 0 ->
  gen_unfold2 X I J K (gen_fold2 X I J K M) r c = M r c.
Proof. intros. unfold gen_unfold2, gen_fold2. now rewrite dm_eq. Qed.
(* entrywise maps commute with unfolding: the unfolding only moves entries (moduli preserved) *)
Theorem C18_unfold_moves_entries (Y : Type) (f : X -> Y) I J K (T : T3) r c :
  f (gen_unfold0 X I J K T r c) = gen_unfold0 Y I J K (fun a b d => f (T a b d)) r c /\
  f (gen_unfold1 X I J K T r c) = gen_unfold1 Y I J K (fun a b d => f (T a b d)) r c /\
  f (gen_unfold2 X I J K T r c) = gen_unfold2 Y I J K (fun a b d => f (T a b d)) r c.
Proof. repeat split. Qed.

(* colour <-> quaternion image, channel split / stack *)
Theorem C18_rgb_roundtrip H W dflt rp (rgb : T3) h w c :
  gen_quat_to_rgb_noclip X H W (gen_rgb_to_quat X H W dflt rp rgb) h w c = rgb h w c.
Proof. unfold gen_quat_to_rgb_noclip, gen_rgb_to_quat.
  replace (1 <=? c + 1) with true by (symmetry; apply Nat.leb_le; lia). f_equal. lia. Qed.
Theorem C18_rgb_real_part H W dflt rp (rgb : T3) h w : gen_rgb_to_quat X H W dflt rp rgb h w 0 = rp.
Proof. reflexivity. Qed.
Theorem C18_split_stack_inverse H W (q0 q1 q2 q3 : nat -> nat -> X) h w :
  gen_split_0 X H W (gen_stack X H W q0 q1 q2 q3) h w = q0 h w /\
  gen_split_1 X H W (gen_stack X H W q0 q1 q2 q3) h w = q1 h w /\
  gen_split_2 X H W (gen_stack X H W q0 q1 q2 q3) h w = q2 h w /\
  gen_split_3 X H W (gen_stack X H W q0 q1 q2 q3) h w = q3 h w.
Proof. repeat split. Qed.
Theorem C18_stack_split_inverse H W (q : T3) h w c : c < 4 ->
  gen_stack X H W (gen_split_0 X H W q) (gen_split_1 X H W q) (gen_split_2 X H W q) (gen_split_3 X H W q) h w c = q h w c.
Proof. intros Hc. destruct c as [|[|[|[|?]]]]; try lia; reflexivity. Qed.
End P.

(* Frobenius norm (squared) is preserved by every unfolding *)
Section F.
Variable C : CRing.
Definition frob3 (I J K : nat) (T : nat -> nat -> nat -> quat C) : C :=
  sumR I (fun i => sumR J (fun j => sumR K (fun k => qnorm2 (T i j k)))).
Theorem C18_frob_preserved0 I J K T :
  frob2 I (J * K) (gen_unfold0 (quat C) I J K T) = frob3 I J K T.
Proof. unfold frob2, frob3. apply sumR_ext; intros i _. rewrite sumR_prod.
  apply sumR_ext; intros j _. apply sumR_ext; intros k Hk. now rewrite C18_unfold0_fibres. Qed.
Theorem C18_frob_preserved1 I J K T :
  frob2 J (I * K) (gen_unfold1 (quat C) I J K T) = frob3 I J K T.
Proof. unfold frob2, frob3. rewrite (sumR_swap C I J).
  apply sumR_ext; intros j _. rewrite sumR_prod.
  apply sumR_ext; intros i _. apply sumR_ext; intros k Hk. now rewrite C18_unfold1_fibres. Qed.
Theorem C18_frob_preserved2 I J K T :
  frob2 K (I * J) (gen_unfold2 (quat C) I J K T) = frob3 I J K T.
Proof. unfold frob2, frob3.
  transitivity (sumR K (fun k => sumR I (fun i => sumR J (fun j => qnorm2 (T i j k))))).
  - apply sumR_ext; intros k _. rewrite sumR_prod.
    apply sumR_ext; intros i _. apply sumR_ext; intros j Hj. now rewrite C18_unfold2_fibres.
  - rewrite (sumR_swap C K I). apply sumR_ext; intros i _. apply (sumR_swap C K J). Qed.
End F.

Print Assumptions C18_unfold0_fibres.
Print Assumptions C18_unfold1_fibres.
Print Assumptions C18_unfold2_fibres.
Print Assumptions C18_fold_unfold_id0.
Print Assumptions C18_fold_unfold_id1.
Print Assumptions C18_fold_unfold_id2.
Print Assumptions C18_unfold_fold_id0.
Print Assumptions C18_unfold_fold_id1.
Print Assumptions C18_unfold_fold_id2.
Print Assumptions C18_rgb_roundtrip.
Print Assumptions C18_split_stack_inverse.
Print Assumptions C18_stack_split_inverse.
Print Assumptions C18_frob_preserved0.
Print Assumptions C18_frob_preserved1.
Print Assumptions C18_frob_preserved2.
