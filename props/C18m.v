(* C18 (metrics and noise): theorems about the definitions generated from quatica/qslst.py
   (add_awgn_snr, psnr, relative_error) by qtrans/gen_c18m.py, instantiated with the reals. *)
From Coq Require Import Reals Lra Lia List Arith.
From QV Require Import MetricOps.
From B Require Import Gen_C18m.
Open Scope R_scope.

Notation sumsq N f := (msum MR N (fun i => f i * f i)).

Lemma meq0_R x : meq0 MR x = true <-> x = 0.
Proof. cbn. destruct (Req_EM_T x 0); split; intros; try assumption; try reflexivity; try discriminate; contradiction. Qed.
Lemma meq0_R_false x : meq0 MR x = false <-> x <> 0.
Proof. cbn. destruct (Req_EM_T x 0); split; intros; try assumption; try reflexivity; try discriminate; contradiction. Qed.
Lemma sumsq_nonneg N (f : nat -> R) : 0 <= sumsq N f.
Proof. induction N as [|n IH]; cbn in *; [lra|]. pose proof (Rle_0_sqr (f n)) as Hs. unfold Rsqr in Hs. lra. Qed.
Lemma sumsq_zero N (f : nat -> R) : sumsq N f = 0 <-> forall i, (i < N)%nat -> f i = 0.
Proof.
  induction N as [|n IH]; cbn in *.
  - split; [intros _ i Hi; lia | reflexivity].
  - pose proof (sumsq_nonneg n f) as Hn. cbn in Hn. pose proof (Rle_0_sqr (f n)) as Hs. unfold Rsqr in Hs. split.
    + intros H i Hi. assert (Hf : f n * f n = 0) by lra. assert (H0 : msum MR n (fun i => f i * f i) = 0) by (cbn; lra).
      destruct (Nat.eq_dec i n) as [->|Hne]; [apply Rmult_integral in Hf; tauto | apply IH; [exact H0 | lia]].
    + intros H. assert (H0 : msum MR n (fun i => f i * f i) = 0) by (apply IH; intros; apply H; lia).
      cbn in H0. rewrite H0, (H n) by lia. lra.
Qed.
Lemma sumsq_diff_zero N (x y : nat -> R) : sumsq N (fun i => x i - y i) = 0 <-> forall i, (i < N)%nat -> x i = y i.
Proof. rewrite (sumsq_zero N (fun i => x i - y i)). split; intros H i Hi; specialize (H i Hi); cbn in *; lra. Qed.
Lemma ln10_pos : 0 < ln 10.
Proof. rewrite <- ln_1. apply ln_increasing; lra. Qed.
Lemma sqrt_zero_iff s : 0 <= s -> (sqrt s = 0 <-> s = 0).
Proof. intros Hs. split; [apply sqrt_eq_0; exact Hs | intros ->; apply sqrt_0]. Qed.

Section Awgn.
Variable N : nat.
Variable draw : R -> R -> nat -> R.           (* rng.normal(loc, scale, size=Q.shape), flattened *)
Variables (Q : nat -> R) (snr_db : R).

(* a zero image is returned unchanged *)
Theorem C18_awgn_zero_signal : (forall i, (i < N)%nat -> Q i = 0) -> forall i, gen_add_awgn_snr MR N draw Q snr_db i = Q i.
Proof. intros H i. unfold gen_add_awgn_snr. apply (sumsq_zero N Q) in H. apply meq0_R in H. cbn in H |- *. rewrite H. reflexivity. Qed.

(* otherwise every sample receives a draw of the same centred distribution whose scale sigma makes the expected noise energy
   N sigma^2 equal to ||Q||^2 / 10^(snr_db/10): the ratio of signal energy to expected noise energy is the requested SNR *)
Theorem C18_awgn_hits_requested_snr : (0 < N)%nat -> sumsq N Q <> 0 ->
  let sigma := sqrt (sumsq N Q / Rpower 10 (snr_db / 10) / INR N) in
  (forall i, gen_add_awgn_snr MR N draw Q snr_db i = Q i + draw 0 sigma i)
  /\ INR N * (sigma * sigma) = sumsq N Q / Rpower 10 (snr_db / 10)
  /\ 10 * (ln (sumsq N Q / (INR N * (sigma * sigma))) / ln 10) = snr_db.
Proof.
  intros HN Hs sigma.
  assert (Hn : 0 < INR N) by (apply lt_0_INR; exact HN).
  assert (Hp : 0 < Rpower 10 (snr_db / 10)) by (unfold Rpower; apply exp_pos).
  pose proof (sumsq_nonneg N Q) as H0.
  assert (Hsq : sigma * sigma = sumsq N Q / Rpower 10 (snr_db / 10) / INR N).
  { unfold sigma. apply sqrt_sqrt. apply Rmult_le_pos; [apply Rmult_le_pos; [exact H0 | left; apply Rinv_0_lt_compat; exact Hp] | left; apply Rinv_0_lt_compat; exact Hn]. }
  split; [|split].
  - intros i. unfold gen_add_awgn_snr. apply meq0_R_false in Hs. cbn in Hs |- *. rewrite Hs. reflexivity.
  - rewrite Hsq. field. split; lra.
  - rewrite Hsq. replace (sumsq N Q / (INR N * (sumsq N Q / Rpower 10 (snr_db / 10) / INR N))) with (Rpower 10 (snr_db / 10)) by (field; repeat split; lra).
    unfold Rpower. rewrite ln_exp. pose proof ln10_pos. field. lra.
Qed.
End Awgn.

Section Metrics.
Variable N : nat.
Variables x x_ref : nat -> R.
Notation mse := (sumsq N (fun i => x i - x_ref i) / INR N).

(* PSNR is infinite exactly when the arrays are equal *)
Theorem C18_psnr_inf_iff_equal dr : (0 < N)%nat -> (gen_psnr MR N x x_ref dr = None <-> forall i, (i < N)%nat -> x i = x_ref i).
Proof.
  intros HN. assert (Hn : 0 < INR N) by (apply lt_0_INR; exact HN).
  unfold gen_psnr. cbn zeta. rewrite <- sumsq_diff_zero.
  destruct (meq0 MR (mdiv MR (msum MR N (fun i_ => mmul MR (msub MR (x i_) (x_ref i_)) (msub MR (x i_) (x_ref i_)))) (mofnat MR N))) eqn:E.
  - apply meq0_R in E. cbn in E. split; [intros _|reflexivity].
    apply Rmult_integral in E. destruct E as [E|E]; [exact E|]. exfalso. pose proof (Rinv_0_lt_compat _ Hn). lra.
  - apply meq0_R_false in E. cbn in E. split; [discriminate|]. intros H. exfalso. apply E. cbn in H. rewrite H. unfold Rdiv. apply Rmult_0_l.
Qed.
(* and otherwise it is 10 log10(range^2 / MSE) for the range given *)
Theorem C18_psnr_value d : (0 < N)%nat -> ~ (forall i, (i < N)%nat -> x i = x_ref i) ->
  gen_psnr MR N x x_ref (Some d) = Some (10 * (ln (d * d / mse) / ln 10)).
Proof.
  intros HN Hne. destruct (gen_psnr MR N x x_ref (Some d)) eqn:E.
  - unfold gen_psnr in E. cbn zeta in E. destruct (meq0 MR _) in E; [discriminate|]. injection E as E. rewrite <- E. reflexivity.
  - exfalso. apply Hne. apply (proj1 (C18_psnr_inf_iff_equal (Some d) HN)). exact E.
Qed.

(* the relative error is 0 exactly when the arrays are equal, infinite exactly when the reference is zero and the estimate is not *)
Theorem C18_relerr_zero_iff_equal : gen_relative_error MR N x x_ref = Some 0 <-> forall i, (i < N)%nat -> x i = x_ref i.
Proof.
  pose proof (sumsq_nonneg N (fun i => x i - x_ref i)) as Hd. pose proof (sumsq_nonneg N x_ref) as Hr.
  rewrite <- sumsq_diff_zero. unfold gen_relative_error. cbn zeta.
  change (msqrt MR (msum MR N (fun i_ => mmul MR (msub MR (x i_) (x_ref i_)) (msub MR (x i_) (x_ref i_))))) with (sqrt (sumsq N (fun i => x i - x_ref i))).
  change (msqrt MR (msum MR N (fun i_ => mmul MR (x_ref i_) (x_ref i_)))) with (sqrt (sumsq N x_ref)).
  destruct (meq0 MR (sqrt (sumsq N x_ref))) eqn:E2; [apply meq0_R in E2 | apply meq0_R_false in E2];
    (destruct (meq0 MR (sqrt (sumsq N (fun i => x i - x_ref i)))) eqn:E1; [apply meq0_R in E1 | apply meq0_R_false in E1]).
  - apply (proj1 (sqrt_zero_iff _ Hd)) in E1. split; [intros _; exact E1 | reflexivity].
  - split; [discriminate|]. intros H. exfalso. apply E1. apply sqrt_zero_iff; assumption.
  - pose proof E1 as E1s. apply (proj1 (sqrt_zero_iff _ Hd)) in E1. split; [intros _; exact E1|]. intros _. f_equal.
    change (sqrt (sumsq N (fun i => x i - x_ref i)) / sqrt (sumsq N x_ref) = 0). transitivity (0 / sqrt (sumsq N x_ref)); [f_equal; exact E1s | unfold Rdiv; apply Rmult_0_l].
  - split.
    + intros H. exfalso. injection H as H. change (sqrt (sumsq N (fun i => x i - x_ref i)) / sqrt (sumsq N x_ref) = 0) in H.
      apply Rmult_integral in H. destruct H as [H|H]; [contradiction|]. apply E2.
      pose proof (sqrt_pos (sumsq N x_ref)) as Hp. destruct Hp as [Hp|Hp]; [|symmetry; exact Hp].
      pose proof (Rinv_0_lt_compat _ Hp). lra.
    + intros H. exfalso. apply E1. apply sqrt_zero_iff; assumption.
Qed.
Theorem C18_relerr_inf_iff : gen_relative_error MR N x x_ref = None <->
  (forall i, (i < N)%nat -> x_ref i = 0) /\ ~ (forall i, (i < N)%nat -> x i = x_ref i).
Proof.
  pose proof (sumsq_nonneg N (fun i => x i - x_ref i)) as Hd. pose proof (sumsq_nonneg N x_ref) as Hr.
  rewrite <- (sumsq_zero N x_ref), <- (sumsq_diff_zero N x x_ref). unfold gen_relative_error. cbn zeta.
  change (msqrt MR (msum MR N (fun i_ => mmul MR (msub MR (x i_) (x_ref i_)) (msub MR (x i_) (x_ref i_))))) with (sqrt (sumsq N (fun i => x i - x_ref i))).
  change (msqrt MR (msum MR N (fun i_ => mmul MR (x_ref i_) (x_ref i_)))) with (sqrt (sumsq N x_ref)).
  destruct (meq0 MR (sqrt (sumsq N x_ref))) eqn:E2; [apply meq0_R in E2 | apply meq0_R_false in E2];
    (destruct (meq0 MR (sqrt (sumsq N (fun i => x i - x_ref i)))) eqn:E1; [apply meq0_R in E1 | apply meq0_R_false in E1]).
  - apply (proj1 (sqrt_zero_iff _ Hd)) in E1. split; [discriminate | intros [_ H]; contradiction].
  - apply (proj1 (sqrt_zero_iff _ Hr)) in E2. split; [intros _; split; [exact E2|] | reflexivity]. intros H. apply E1. apply sqrt_zero_iff; assumption.
  - apply (proj1 (sqrt_zero_iff _ Hd)) in E1. split; [discriminate | intros [_ H]; contradiction].
  - split; [discriminate|]. intros [H _]. exfalso. apply E2. apply sqrt_zero_iff; assumption.
Qed.
End Metrics.

(* the hypotheses are satisfiable: a 2-sample image with energy 5, and two unequal arrays *)
Example C18_awgn_nonvacuous : (0 < 2)%nat /\ sumsq 2 (fun i => match i with O => 1 | _ => 2 end) <> 0.
Proof. split; [lia | cbn; lra]. Qed.

Print Assumptions C18_awgn_zero_signal.
Print Assumptions C18_awgn_hits_requested_snr.
Print Assumptions C18_psnr_inf_iff_equal.
Print Assumptions C18_psnr_value.
Print Assumptions C18_relerr_zero_iff_equal.
Print Assumptions C18_relerr_inf_iff.
