(* C19: power iteration returns a unit vector and converges to the dominant eigenpair. *)
From Coq Require Import Reals Arith Lia List.
From QV Require Import CRing Sums Quat Mat QMat CRingR FOps FOpsR.
From QVM Require Import Householder PowerIter.
From QVT Require Import CauchySchwarz Reflector HouseholderR PowerIterThm.
Close Scope R_scope. Open Scope nat_scope.

(* whatever the matrix, tolerance, budget and (non-zero) start vector, and whichever way the loop is left
   (breakdown, budget, difference test, stagnation test), the returned vector has unit norm *)
Theorem C19_unit_vector (n : nat) (A : fmat ROps) (tol : R) (max_it : nat) (x0 : nat -> fq ROps) :
  vnorm ROps n x0 <> 0%R -> vnorm ROps n (fst (fst (power_iteration ROps n A tol max_it x0))) = 1%R.
Proof. exact (power_iteration_unit n A tol max_it x0). Qed.
(* the returned estimate |v^H A v| / |v^H v| of a unit vector is bounded by every bound of ||A x|| over unit x,
   i.e. by the spectral norm; no assumption on A (non-Hermitian included) *)
Theorem C19_estimate_le_spectral_norm (n : nat) (A : fmat ROps) (v : nat -> fq ROps) (M : R) : vnorm ROps n v = 1%R ->
  (forall x : nat -> fq ROps, vnorm ROps n x = 1%R -> (vnorm ROps n (matvec ROps n A x) <= M)%R) ->
  (rayleigh_abs ROps n A v <= M)%R.
Proof. exact (rayleigh_le_spectral n A v M). Qed.
(* Hermitian A = V diag(lambda) V^H: after k normalised steps the coordinates in the eigenbasis are
   (product of the scalings) * lambda_i^k * (initial coordinate), for every start vector *)
Theorem C19_coordinates_after_k_steps (n : nat) (A V : qmat RR) (lam : nat -> R) (s : nat -> R) (x0 : qmat RR) (k i : nat) :
  unitary n V -> meq n n A (qmm n (qmm n V (qdiag (fun i => @qreal RR (lam i)))) (qherm V)) -> i < n ->
  coords n V (pseq n A s x0 k) i 0 = qmul (@qreal RR (prodS s k * lam i ^ k)%R) (coords n V x0 i 0).
Proof. intros HV HA. exact (coords_power n A V lam HV HA s x0 k i). Qed.
(* hence the non-dominant coordinates decay like rho^k relative to the dominant one when |lambda_i| <= rho |lambda_d| *)
Theorem C19_nondominant_decay (n : nat) (A V : qmat RR) (lam : nat -> R) (s : nat -> R) (x0 : qmat RR) (k i d : nat) (rho : R) :
  unitary n V -> meq n n A (qmm n (qmm n V (qdiag (fun i => @qreal RR (lam i)))) (qherm V)) ->
  i < n -> d < n -> (0 <= rho)%R -> (Rabs (lam i) <= rho * Rabs (lam d))%R ->
  (N (coords n V (pseq n A s x0 k) i O) * N (coords n V x0 d O) <= rho ^ (2 * k)%nat * (N (coords n V (pseq n A s x0 k) d O) * N (coords n V x0 i O)))%R.
Proof. intros HV HA. exact (nondominant_decay n A V lam HV HA s x0 k i d rho). Qed.
(* and the dominant coordinate is a positive multiple of lambda_d^k times its start value: it alternates in sign
   when the dominant eigenvalue is negative (so ||v_k - v_{k-1}|| tends to 2 and only the stagnation test can stop) *)
Theorem C19_dominant_coordinate_sign (n : nat) (A V : qmat RR) (lam : nat -> R) (s : nat -> R) (x0 : qmat RR) (k d : nat) :
  unitary n V -> meq n n A (qmm n (qmm n V (qdiag (fun i => @qreal RR (lam i)))) (qherm V)) -> d < n -> (forall j, (0 < s j)%R) ->
  exists c : R, (0 < c)%R /\ coords n V (pseq n A s x0 k) d 0 = qmul (@qreal RR (c * lam d ^ k)%R) (coords n V x0 d 0).
Proof. intros HV HA. exact (dominant_sign n A V lam HV HA s x0 k d). Qed.
(* the Rayleigh quotient of any vector in the eigenbasis: x^H A x = sum lambda_i |c_i|^2 and x^H x = sum |c_i|^2 *)
Theorem C19_rayleigh_in_eigenbasis (n : nat) (A V : qmat RR) (lam : nat -> R) (x : qmat RR) :
  unitary n V -> meq n n A (qmm n (qmm n V (qdiag (fun i => @qreal RR (lam i)))) (qherm V)) ->
  qmm n (qherm x) (qmm n A x) 0 0 = @qreal RR (@sumR RR n (fun i => (lam i * wt n V x i)%R)) /\
  qmm n (qherm x) x 0 0 = @qreal RR (@sumR RR n (fun i => wt n V x i)).
Proof. intros HV HA. split; [exact (quad_form n A V lam HV HA x)|exact (norm_form n V HV x)]. Qed.
(* convergence of the estimate, with its rate: after k normalised steps from ANY start vector,
   |x_k^H A x_k - lambda_d x_k^H x_k| |c_d(0)|^2 <= 2 |lambda_d| rho^(2k) (non-dominant start weight) x_k^H x_k
   whenever |lambda_i| <= rho |lambda_d| for i <> d and rho <= 1 (gap ratio 0.8 in the property) *)
Theorem C19_estimate_converges (n : nat) (A V : qmat RR) (lam : nat -> R) (s : nat -> R) (x0 : qmat RR) (k d : nat) (rho : R) :
  unitary n V -> meq n n A (qmm n (qmm n V (qdiag (fun i => @qreal RR (lam i)))) (qherm V)) ->
  d < n -> (0 <= rho)%R -> (forall i, i < n -> i <> d -> (Rabs (lam i) <= rho * Rabs (lam d))%R) -> (rho <= 1)%R ->
  let xk := pseq n A s x0 k in
  (Rabs (@sumR RR n (fun i => (lam i * wt n V xk i)%R) - lam d * @sumR RR n (wt n V xk)) * wt n V x0 d
     <= 2 * Rabs (lam d) * rho ^ (2 * k)%nat * tailw n V x0 d * @sumR RR n (wt n V xk))%R.
Proof. intros HV HA. exact (rayleigh_converges n A V lam HV HA s x0 k d rho). Qed.

Print Assumptions C19_unit_vector.
Print Assumptions C19_estimate_le_spectral_norm.
Print Assumptions C19_coordinates_after_k_steps.
Print Assumptions C19_nondominant_decay.
Print Assumptions C19_dominant_coordinate_sign.
Print Assumptions C19_rayleigh_in_eigenbasis.
Print Assumptions C19_estimate_converges.

From QVT Require Import PowerIterNH.
(* the complex-adjoint variant returns a unit quaternion vector, for every matrix, budget, pair of tolerances (res_tol = None included) and
   start vector; the only other possibility is the zero vector, when the purified vector it maps back is zero *)
Theorem C19_nonhermitian_variant_unit_vector n (A : fmat ROps) eig_tol res_tol max_it (x0 : nat -> fq ROps) :
  vnorm ROps n (fst (fst (nonherm ROps n A eig_tol res_tol max_it x0))) = 1%R \/
  vnorm ROps n (fst (fst (nonherm ROps n A eig_tol res_tol max_it x0))) = 0%R.
Proof. exact (nonherm_unit n A eig_tol res_tol max_it x0). Qed.
Print Assumptions C19_nonhermitian_variant_unit_vector.
