(* C20: explicit guards generated from the source reject exactly the complement of the documented
   (explicitly guarded) domain, for every shape and option value.  The domain predicates below are
   written from the documentation; the guard functions are regenerated from /repo on every run. *)
From Coq Require Import Arith Bool String List Btauto Lia.
From B Require Import Gen_C20.
Open Scope string_scope.

Ltac gd := intros d; repeat match goal with |- context [?f d] => progress unfold f end;
  unfold shape2, shape3; rewrite ?Nat.ltb_antisym; btauto.

Ltac str_contra := match goal with
  | H1 : String.eqb ?s ?a = true, H2 : String.eqb ?s ?b = true |- _ =>
      apply String.eqb_eq in H1; apply String.eqb_eq in H2; rewrite H1 in H2; discriminate H2 end.

Definition quat_nd (x : arr) : bool := a_nd x && is_quat (a_dt x).
Definition is2 (x : arr) : bool := Nat.eqb (a_ndim x) 2.
Definition square (x : arr) : bool := Nat.eqb (a_s0 x) (a_s1 x).

(* --- norms --- *)
Definition domain_induced_norm (d : argd) := quat_nd (A d) && is2 (A d).
Theorem C20_induced_matrix_norm_1 : forall d, guard_induced_matrix_norm_1 d = negb (domain_induced_norm d).
Proof. unfold domain_induced_norm, quat_nd, is2. gd. Qed.
Theorem C20_induced_matrix_norm_inf : forall d, guard_induced_matrix_norm_inf d = negb (domain_induced_norm d).
Proof. unfold domain_induced_norm, quat_nd, is2. gd. Qed.
Theorem C20_spectral_norm_2 : forall d, guard_spectral_norm_2 d = negb (quat_nd (A d)).
Proof. unfold quat_nd. gd. Qed.
Definition known_ord (s : string) : bool :=
  String.eqb s "None" || String.eqb s "fro" || String.eqb s "F" || String.eqb s "1" || String.eqb s "2" || String.eqb s "np.inf" || String.eqb s "inf".
Theorem C20_matrix_norm_unknown_ord : forall d, guard_matrix_norm d = negb (known_ord (opt d)).
Proof. unfold known_ord. gd. Qed.
(* --- embeddings --- *)
Theorem C20_real_expand : forall d, guard_real_expand d = negb (quat_nd (A d) && is2 (A d)).
Proof. unfold quat_nd, is2. gd. Qed.
Theorem C20_real_contract : forall d, guard_real_contract d = negb (shape2 (A d) (4 * n1 d) (4 * n2 d)).
Proof. gd. Qed.
Theorem C20_complex_adjoint : forall d, guard_quaternion_to_complex_adjoint d =
  negb (is2 (A d) && square (A d) && is_quat (a_dt (A d)) && String.eqb (opt d) "x").
Proof. unfold is2, square. gd. Qed.
(* --- determinants, Hermitian test, null space, power iteration --- *)
Theorem C20_ishermitian : forall d, guard_ishermitian d = negb (is2 (A d) && square (A d)).
Proof. unfold is2, square. gd. Qed.
Definition domain_det (d : argd) : bool := is2 (A d) && square (A d) &&
  (String.eqb (opt d) "Dieudonne" || (String.eqb (opt d) "Moore" && herm d)).
Theorem C20_det : forall d, guard_det d = negb (domain_det d).
Proof. unfold domain_det, is2, square. intros d. unfold guard_det.
  destruct (String.eqb (opt d) "Dieudonne") eqn:E1; destruct (String.eqb (opt d) "Study") eqn:E2;
  destruct (String.eqb (opt d) "Moore") eqn:E3; try str_contra; btauto.
Qed.
Theorem C20_quat_null_space : forall d, guard_quat_null_space d = negb (String.eqb (opt d) "right" || String.eqb (opt d) "left").
Proof. gd. Qed.
Theorem C20_power_iteration : forall d, guard_power_iteration d = negb (square (A d) && negb (Nat.eqb (a_s0 (A d)) 0)).
Proof. unfold square. gd. Qed.
Theorem C20_UtriangleQsparse : forall d, guard_UtriangleQsparse d =
  negb (is2 (A d) && square (A d) && Nat.eqb (a_s0 (A d)) (a_s0 (B d))).
Proof. unfold is2, square. gd. Qed.
(* truncated Q-SVD: a 2-D array and a truncation rank no larger than both dimensions *)
Theorem C20_classical_qsvd : forall d, guard_classical_qsvd d = negb (is2 (A d) && Nat.leb (n1 d) (Nat.min (a_s0 (A d)) (a_s1 (A d)))).
Proof. unfold is2. intros d. unfold guard_classical_qsvd. change (Nat.leb 0 (n1 d)) with true. btauto. Qed.
(* complex-adjoint power iteration: both enumerated options are validated, whatever the matrix *)
Theorem C20_power_iteration_nonhermitian : forall d, guard_power_iteration_nonhermitian d =
  negb ((String.eqb (opt d) "complex" || String.eqb (opt d) "quaternion") && String.eqb (opt2 d) "x").
Proof. gd. Qed.
(* Q-GMRES: square matrix, right-hand side with as many rows -- checked before the preconditioner and before the b = 0 shortcut *)
Theorem C20_qgmres_solve : forall d, guard_qgmres_solve d = negb (square (A d) && Nat.eqb (a_s0 (B d)) (a_s0 (A d))).
Proof. unfold square. gd. Qed.
(* --- shape-coupled argument pair of the reflector builders: same shape (1-D against 1-D, column against column ...), real target --- *)
Definition same_shape (x y : arr) : bool := Nat.eqb (a_ndim x) (a_ndim y) && Nat.eqb (a_s0 x) (a_s0 y) && Nat.eqb (a_s1 x) (a_s1 y).
Theorem C20_householder_vector : forall d, guard_householder_vector d = negb (same_shape (A d) (B d) && is_realdt (a_dt (B d))).
Proof. unfold same_shape. intros d. unfold guard_householder_vector. destruct (a_dt (B d)); cbn [is_quat is_realdt]; btauto. Qed.
Theorem C20_householder_matrix : forall d, guard_householder_matrix d = negb (same_shape (A d) (B d)).
Proof. unfold same_shape. gd. Qed.
(* --- orientation guards of the pseudoinverse solvers --- *)
Definition tall (x : arr) : bool := Nat.leb (a_s1 x) (a_s0 x).
Definition wide (x : arr) : bool := Nat.leb (a_s0 x) (a_s1 x).
Theorem C20_rsp_column : forall d, guard_rsp_column d = negb (is2 (A d) && tall (A d)).
Proof. unfold is2, tall. gd. Qed.
Theorem C20_rsp_row : forall d, guard_rsp_row d = negb (is2 (A d) && wide (A d)).
Proof. unfold is2, wide. gd. Qed.
Theorem C20_hybrid : forall d, guard_hybrid_compute d = negb (is2 (A d) && tall (A d)).
Proof. unfold is2, tall. gd. Qed.
Theorem C20_cgne : forall d, guard_cgne_compute d = negb (is2 (A d) && tall (A d)).
Proof. unfold is2, tall. gd. Qed.
Theorem C20_deep_linear : forall d, guard_deep_linear_compute d = negb (is2 (A d) && Nat.eqb (n1 d) (a_s1 (A d))).
Proof. unfold is2. gd. Qed.
(* --- LU helpers --- *)
Theorem C20_quaternion_modulus : forall d, guard_quaternion_modulus d = negb (quat_nd (A d)).
Proof. unfold quat_nd. gd. Qed.
Theorem C20_quaternion_triu : forall d, guard_quaternion_triu d = negb (quat_nd (A d) && is2 (A d)).
Proof. unfold quat_nd, is2. gd. Qed.
Theorem C20_quaternion_tril : forall d, guard_quaternion_tril d = negb (quat_nd (A d) && is2 (A d)).
Proof. unfold quat_nd, is2. gd. Qed.
Theorem C20_quaternion_lu : forall d, guard_quaternion_lu d = negb (quat_nd (A d) && is2 (A d)).
Proof. unfold quat_nd, is2. gd. Qed.
(* --- eigen / tridiagonal / Hessenberg / Schur --- *)
Theorem C20_eigendecomposition : forall d, guard_quaternion_eigendecomposition d = negb (is2 (A d) && square (A d) && herm d).
Proof. unfold is2, square. gd. Qed.
Theorem C20_tridiagonalize : forall d, guard_tridiagonalize d =
  negb (is2 (A d) && square (A d) && Nat.leb 2 (a_s0 (A d)) && herm d).
Proof. unfold is2, square. gd. Qed.
Theorem C20_hessenbergize : forall d, guard_hessenbergize d = negb (is2 (A d) && square (A d)).
Proof. unfold is2, square. gd. Qed.
Theorem C20_schur_all : forall d,
  guard_quaternion_schur d = negb (is2 (A d) && square (A d)) /\
  guard_quaternion_schur_pure d = negb (is2 (A d) && square (A d)) /\
  guard_quaternion_schur_pure_implicit d = negb (is2 (A d) && square (A d)) /\
  guard_quaternion_schur_unified d = negb (is2 (A d) && square (A d)) /\
  guard_quaternion_schur_experimental d = negb (is2 (A d) && square (A d)).
Proof. unfold is2, square. intros d. repeat split; revert d; gd. Qed.
(* --- tensors --- *)
Theorem C20_tensor_unfold : forall d, guard_tensor_unfold d =
  negb (Nat.eqb (a_ndim (A d)) 3 && is_quat (a_dt (A d)) && (Nat.eqb (n1 d) 0 || Nat.eqb (n1 d) 1 || Nat.eqb (n1 d) 2)).
Proof. gd. Qed.
Definition domain_tensor_fold (d : argd) : bool :=
  (String.eqb (opt d) "0" && shape2 (A d) (n1 d) (n2 d * n3 d)) ||
  (String.eqb (opt d) "1" && shape2 (A d) (n2 d) (n1 d * n3 d)) ||
  (String.eqb (opt d) "2" && shape2 (A d) (n3 d) (n1 d * n2 d)).
Theorem C20_tensor_fold : forall d, guard_tensor_fold d = negb (domain_tensor_fold d).
Proof. unfold domain_tensor_fold. intros d. unfold guard_tensor_fold.
  destruct (String.eqb (opt d) "0") eqn:E0; destruct (String.eqb (opt d) "1") eqn:E1; destruct (String.eqb (opt d) "2") eqn:E2; try str_contra; btauto.
Qed.
(* --- image helpers --- *)
Theorem C20_rgb_to_quat : forall d, guard_rgb_to_quat d = negb (Nat.eqb (a_ndim (A d)) 3 && Nat.eqb (a_s2 (A d)) 3).
Proof. gd. Qed.
Theorem C20_quat_to_rgb : forall d, guard_quat_to_rgb d = negb (Nat.eqb (a_ndim (A d)) 3 && Nat.eqb (a_s2 (A d)) 4).
Proof. gd. Qed.
Theorem C20_apply_blur_fft : forall d, guard_apply_blur_fft d = negb (String.eqb (opt d) "periodic" && Nat.eqb (a_ndim (A d)) 3).
Proof. gd. Qed.
Theorem C20_qslst_restore_fft : forall d, guard_qslst_restore_fft d = negb (String.eqb (opt d) "periodic" && Nat.eqb (a_ndim (A d)) 3).
Proof. gd. Qed.
Theorem C20_qslst_restore_matrix : forall d, guard_qslst_restore_matrix d =
  negb (Nat.eqb (a_ndim (A d)) 3 && shape2 (B d) (a_s0 (A d) * a_s1 (A d)) (a_s0 (A d) * a_s1 (A d))).
Proof. gd. Qed.

(* in-domain boundary arguments are never rejected: 1x1, 1xn, nx1 *)
Definition mkarr nd dt k s0 s1 s2 := {| a_nd := nd; a_dt := dt; a_ndim := k; a_s0 := s0; a_s1 := s1; a_s2 := s2 |}.
Definition mkd a b o h x y z := {| A := a; B := b; opt := o; opt2 := "None"; herm := h; n1 := x; n2 := y; n3 := z |}.
Theorem C20_boundary_shapes_accepted : forall n,
  let q r c := mkd (mkarr true DQuat 2 r c 0) (mkarr true DQuat 2 r 1 0) "None" true r c 0 in
  guard_induced_matrix_norm_1 (q 1 n) = false /\ guard_induced_matrix_norm_inf (q n 1) = false /\
  guard_quaternion_lu (q 1 n) = false /\ guard_quaternion_lu (q n 1) = false /\ guard_real_expand (q 1 1) = false /\
  guard_rsp_column (q (S n) 1) = false /\ guard_rsp_row (q 1 (S n)) = false /\ guard_cgne_compute (q (S n) 1) = false /\
  guard_hessenbergize (q 1 1) = false /\ guard_quaternion_schur (q 1 1) = false /\ guard_quaternion_eigendecomposition (q 1 1) = false.
Proof. intros n. cbv zeta.
  rewrite C20_induced_matrix_norm_1, C20_induced_matrix_norm_inf, !C20_quaternion_lu, C20_real_expand, C20_rsp_column, C20_rsp_row, C20_cgne,
    C20_hessenbergize, C20_eigendecomposition. destruct (C20_schur_all (mkd (mkarr true DQuat 2 1 1 0) (mkarr true DQuat 2 1 1 0) "None" true 1 1 0)) as [-> _].
  unfold domain_induced_norm, quat_nd, is2, square, tall, wide, mkd, mkarr; cbn.
  repeat split; reflexivity.
Qed.

Print Assumptions C20_det.
Print Assumptions C20_tensor_fold.
Print Assumptions C20_tridiagonalize.
Print Assumptions C20_schur_all.
Print Assumptions C20_matrix_norm_unknown_ord.
Print Assumptions C20_boundary_shapes_accepted.
