"""qtrans core: fail-closed symbolic evaluation of straight-line NumPy kernels into Gallina terms.

Parameters are bound to symbolic values, statements are executed symbolically, and the returned
symbolic value is printed as a Gallina term over the combinators of QV.Mat / QV.NumpySem.
Anything the evaluator does not recognise raises Unsupported (never a silent skip).
"""
import ast

KW_SEEN = set()
# keyword arguments whose meaning the evaluators model (everything else fails closed); binary64 / complex128 buffers only
KW_ALLOWED = {('np.empty', 'dtype', 'np.float64'), ('np.zeros', 'dtype', 'np.float64'), ('np.zeros', 'dtype', 'float'), ('np.zeros', 'dtype', 'complex'),
              ('np.roll', 'axis', '0'), ('np.roll', 'axis', '1'), ('np.stack', 'axis', '-1')}
def check_keywords(fn, kw):
    for k, v in kw.items():
        item = (fn.split('.')[-1] if not fn.startswith('np.') else fn, k, ast.unparse(v))
        KW_SEEN.add(item)
        if KW_ALLOWED is not None and item not in KW_ALLOWED and (item[0], item[1], '*') not in KW_ALLOWED:
            raise Unsupported(f'keyword {k}={ast.unparse(v)} of {fn} has no modelled meaning')

class Unsupported(Exception):
    pass

# ------------------------------------------------------------------ affine nat expressions
class Aff:
    """affine expression  const + sum coeff*sym  over shape symbols / loop variables (ints)."""
    def __init__(s, const=0, terms=None):
        s.c = const
        s.t = {k: v for k, v in (terms or {}).items() if v != 0}
    @staticmethod
    def sym(name): return Aff(0, {name: 1})
    def __add__(s, o):
        o = aff(o); t = dict(s.t)
        for k, v in o.t.items(): t[k] = t.get(k, 0) + v
        return Aff(s.c + o.c, t)
    __radd__ = __add__
    def __neg__(s): return Aff(-s.c, {k: -v for k, v in s.t.items()})
    def __sub__(s, o): return s + (-aff(o))
    def __rsub__(s, o): return aff(o) - s
    def __mul__(s, o):
        o = aff(o)
        if not o.t: return Aff(s.c * o.c, {k: v * o.c for k, v in s.t.items()})
        if not s.t: return Aff(s.c * o.c, {k: v * s.c for k, v in o.t.items()})
        # product of two symbols: allow monomials as compound symbols
        t = {}
        for k1, v1 in list(s.t.items()) + ([('', s.c)] if s.c else []):
            for k2, v2 in list(o.t.items()) + ([('', o.c)] if o.c else []):
                k = '*'.join(sorted(x for x in (k1.split('*') + k2.split('*')) if x))
                t[k] = t.get(k, 0) + v1 * v2
        c = t.pop('', 0)
        return Aff(c, t)
    __rmul__ = __mul__
    def is_const(s): return not s.t
    def __eq__(s, o):
        o = aff(o); return s.c == o.c and s.t == o.t
    def __hash__(s): return hash((s.c, tuple(sorted(s.t.items()))))
    def coeff(s, k): return s.t.get(k, 0)
    def without(s, k): return Aff(s.c, {a: b for a, b in s.t.items() if a != k})
    def syms(s):
        r = set()
        for k in s.t: r.update(k.split('*'))
        return r
    def coq(s):
        """Gallina nat term (subtraction only if a coefficient is negative: truncated, caller's duty)."""
        pos = []; neg = []
        for k, v in sorted(s.t.items()):
            body = '(' + ' * '.join(k.split('*')) + ')' if '*' in k else k
            (pos if v > 0 else neg).append(body if abs(v) == 1 else f'({abs(v)} * {body})')
        if s.c > 0: pos.append(str(s.c))
        if s.c < 0: neg.append(str(-s.c))
        r = ' + '.join(pos) if pos else '0'
        if neg: r = f'({r}) - (' + ' + '.join(neg) + ')'
        return '(' + r + ')%nat' if (' ' in r) else (r if not r.isdigit() else r + '%nat')
    def __repr__(s): return 'Aff<' + s.coq() + '>'

def aff(x):
    if isinstance(x, Aff): return x
    if isinstance(x, int): return Aff(x)
    raise Unsupported(f'not affine: {x!r}')

# ------------------------------------------------------------------ symbolic values
class V: pass
class RM(V):
    """real matrix: Gallina term of type `rmat C`, with symbolic dims (Aff)."""
    def __init__(s, t, rows=None, cols=None): s.t = t; s.rows = rows; s.cols = cols
class RV(V):
    """real vector (1-D): term of type nat -> C, length."""
    def __init__(s, t, n=None): s.t = t; s.n = n
class Scal(V):
    """ring element term"""
    def __init__(s, t): s.t = t
class QArr(V):
    def __init__(s, c): s.c = list(c)          # 4 RM (2-D) ; shape from c[0]
class F4(V):
    def __init__(s, c): s.c = list(c)
class SparseQ(V):
    def __init__(s, c): s.c = list(c)
class Tup(V):
    def __init__(s, xs): s.xs = list(xs)
class Const(V):
    def __init__(s, v): s.v = v
class Sqrt(V):
    def __init__(s, of): s.of = of
class Kind(V):
    """python type object used in isinstance tests"""
    def __init__(s, name): s.name = name

def rm_bin(op, a, b):
    if op == '@':
        if a.cols is None: raise Unsupported('matmul without inner dimension')
        return RM(f'(rmm {a.cols.coq()} {a.t} {b.t})', a.rows, b.cols)
    f = {'+': 'rmadd', '-': 'rmsub'}[op]
    return RM(f'({f} {a.t} {b.t})', a.rows, a.cols)

class Ev:
    """symbolic evaluator for one function body"""
    def __init__(s, module, env, classes=None):
        s.mod = module            # ast.Module, for inter-procedural calls
        s.env = {'np': Const('module:np')}; s.env.update(env); s.ret = None
        s.trace = []              # which functions / branches were entered (dispatch evidence)
    # -- lookup helpers
    def find_func(s, name):
        for n in s.mod.body:
            if isinstance(n, ast.FunctionDef) and n.name == name: return n
        return None
    def find_method(s, cls, name):
        for n in s.mod.body:
            if isinstance(n, ast.ClassDef) and n.name == cls:
                for m in n.body:
                    if isinstance(m, ast.FunctionDef) and m.name == name: return m
        return None
    def call_def(s, fdef, args, selfv=None):
        params = [a.arg for a in fdef.args.args]
        env = {}
        if selfv is not None:
            env[params[0]] = selfv; params = params[1:]
        defaults = fdef.args.defaults
        ndef = len(defaults)
        for i, p in enumerate(params):
            if i < len(args): env[p] = args[i]
            else:
                j = i - (len(params) - ndef)
                if j < 0: raise Unsupported(f'missing argument {p} for {fdef.name}')
                env[p] = Ev(s.mod, {}).expr(defaults[j])
        sub = type(s)(s.mod, env)
        sub.trace = s.trace
        s.trace.append(fdef.name)
        sub.block(fdef.body)
        return sub.ret
    # -- conditions evaluated on symbolic kinds
    def cond(s, e):
        if isinstance(e, ast.Call) and ast.unparse(e.func) == 'isinstance':
            v = s.expr(e.args[0]); k = e.args[1]
            names = [ast.unparse(x) for x in (k.elts if isinstance(k, ast.Tuple) else [k])]
            return s.kind_of(v) in names
        if isinstance(e, ast.Call) and ast.unparse(e.func) == 'hasattr' and isinstance(e.args[1], ast.Constant):
            v = s.expr(e.args[0])
            if isinstance(v, Tup): return False                      # a plain tuple / list has none of the attributes asked for
            if e.args[1].value == 'toarray': return isinstance(v, RM) and getattr(v, 'sparse', False)
            if e.args[1].value == 'real' and isinstance(v, (QArr, SparseQ, RM)): return True
            if e.args[1].value in ('i', 'j', 'k') and isinstance(v, (QArr, SparseQ, RM)): return isinstance(v, SparseQ)
            if e.args[1].value == 'dtype' and isinstance(v, (QArr, RM)): return True
            raise Unsupported('hasattr ' + e.args[1].value)
        if isinstance(e, ast.Call) and ast.unparse(e.func) == 'np.isscalar':
            v = s.expr(e.args[0]); return isinstance(v, Scal)
        if isinstance(e, ast.UnaryOp) and isinstance(e.op, ast.Not): return not s.cond(e.operand)
        if isinstance(e, ast.BoolOp):
            for x in e.values:                                        # short-circuit, as Python does
                v = s.cond(x)
                if isinstance(e.op, ast.And) and not v: return False
                if isinstance(e.op, ast.Or) and v: return True
            return isinstance(e.op, ast.And)
        if isinstance(e, ast.Compare) and len(e.ops) == 1:
            l = s.expr(e.left); r = s.expr(e.comparators[0])
            if isinstance(e.ops[0], (ast.Is, ast.Eq)) and isinstance(l, Const) and isinstance(r, Const): return l.v == r.v
            if isinstance(e.ops[0], (ast.IsNot, ast.NotEq)) and isinstance(l, Const) and isinstance(r, Const): return l.v != r.v
            if isinstance(e.ops[0], (ast.Is, ast.IsNot)) and isinstance(r, Const) and r.v is None:
                return isinstance(e.ops[0], ast.IsNot)
            if isinstance(e.ops[0], ast.Eq) and isinstance(l, Aff) and isinstance(r, Aff) and (l - r).is_const():
                return (l - r).c == 0
            if isinstance(l, Kind) and isinstance(r, Kind) and isinstance(e.ops[0], (ast.Eq, ast.NotEq)):
                return (l.name == r.name) == isinstance(e.ops[0], ast.Eq)
            if isinstance(l, Tup) and isinstance(r, Tup) and isinstance(e.ops[0], (ast.Eq, ast.NotEq)) \
               and all(isinstance(x, Aff) for x in l.xs + r.xs) and len(l.xs) == len(r.xs):
                same = all(a == b for a, b in zip(l.xs, r.xs))
                if same or all((a - b).is_const() for a, b in zip(l.xs, r.xs)):
                    return same == isinstance(e.ops[0], ast.Eq)
        if isinstance(e, ast.Name) and isinstance(s.env.get(e.id), Const) and isinstance(s.env[e.id].v, bool): return s.env[e.id].v
        raise Unsupported('condition ' + ast.unparse(e))
    def kind_of(s, v):
        if isinstance(v, SparseQ): return 'SparseQuaternionMatrix'
        if isinstance(v, (QArr, RM, F4)): return 'np.ndarray'
        raise Unsupported('kind of ' + type(v).__name__)
    # -- expressions
    def expr(s, e):
        if isinstance(e, ast.Name):
            if e.id not in s.env: raise Unsupported('free name ' + e.id)
            return s.env[e.id]
        if isinstance(e, ast.Constant):
            if isinstance(e.value, bool) or e.value is None or isinstance(e.value, str): return Const(e.value)
            if isinstance(e.value, int): return Aff(e.value)
            if e.value is Ellipsis: return Const(Ellipsis)
            raise Unsupported('constant ' + repr(e.value))
        if isinstance(e, ast.Tuple): return Tup([s.expr(x) for x in e.elts])
        if isinstance(e, ast.BinOp): return s.binop(e)
        if isinstance(e, ast.UnaryOp) and isinstance(e.op, ast.USub):
            return s.neg(s.expr(e.operand))
        if isinstance(e, ast.Attribute): return s.attr(e)
        if isinstance(e, ast.Subscript): return s.subscript(e)
        if isinstance(e, ast.Call):
            check_keywords(ast.unparse(e.func), {k.arg: k.value for k in e.keywords})
            return s.call(e)
        raise Unsupported('expr ' + ast.dump(e)[:80])
    def neg(s, v):
        if isinstance(v, RM): r = RM(f'(rmopp {v.t})', v.rows, v.cols); r.sparse = getattr(v, 'sparse', False); return r
        if isinstance(v, Scal): return Scal(f'(- {v.t})')
        if isinstance(v, Aff): return -v
        raise Unsupported('neg of ' + type(v).__name__)
    def binop(s, e):
        op = {ast.MatMult: '@', ast.Add: '+', ast.Sub: '-', ast.Mult: '*', ast.FloorDiv: '//', ast.Pow: '**'}.get(type(e.op))
        if op is None: raise Unsupported('operator ' + ast.dump(e.op))
        a = s.expr(e.left); b = s.expr(e.right)
        if isinstance(a, RM) and isinstance(b, RM) and op in '@+-':
            r = rm_bin(op, a, b)
            r.sparse = getattr(a, 'sparse', False) and getattr(b, 'sparse', False)
            return r
        if isinstance(a, Aff) and isinstance(b, Aff):
            if op == '+': return a + b
            if op == '-': return a - b
            if op == '*': return a * b
            if op == '//' and b.is_const() and a.is_const(): return Aff(a.c // b.c)
            if op == '//' and b.is_const() and all(v % b.c == 0 for v in a.t.values()) and a.c % b.c == 0:
                return Aff(a.c // b.c, {k: v // b.c for k, v in a.t.items()})
            if op == '//' and b.is_const() and b.c > 0:
                return Aff.sym(f'({a.coq()} / {b.c})')
        if isinstance(a, Scal) and isinstance(b, Scal) and op in '+-*':
            return Scal(f'({a.t} {op} {b.t})')
        if isinstance(a, Scal) and isinstance(b, RM) and op == '*':
            return RM(f'(rmscale {a.t} {b.t})', b.rows, b.cols)
        if isinstance(a, RM) and isinstance(b, Scal) and op == '*':
            return RM(f'(rmscale {b.t} {a.t})', a.rows, a.cols)
        if isinstance(a, Scal) and isinstance(b, Aff) and op == '**' and b == Aff(2):
            return Scal(f'({a.t} * {a.t})')
        if isinstance(a, F4) and isinstance(b, Aff) and op == '**' and b == Aff(2):
            r = F4(a.c); r.squared = True; return r
        if isinstance(a, QArr) and isinstance(b, QArr) and op in '+-':
            return QArr([rm_bin(op, x, y) for x, y in zip(a.c, b.c)])
        raise Unsupported(f'binop {op} on {type(a).__name__},{type(b).__name__}: {ast.unparse(e)[:60]}')
    def attr(s, e):
        v = s.expr(e.value)
        if isinstance(v, SparseQ):
            if e.attr in ('real', 'i', 'j', 'k'): return v.c['real i j k'.split().index(e.attr)]
            if e.attr == 'shape': return Tup([v.c[0].rows, v.c[0].cols])
        if isinstance(v, (RM,)) and e.attr == 'shape': return Tup([v.rows, v.cols])
        if isinstance(v, (RM,)) and e.attr == 'T': return s.transpose(v)
        if isinstance(v, QArr) and e.attr == 'shape': return Tup([v.c[0].rows, v.c[0].cols])
        if isinstance(v, QArr) and e.attr == 'dtype': return Kind('np.quaternion')
        if isinstance(v, RM) and e.attr == 'dtype': return Kind('np.float64')
        if isinstance(v, Const) and v.v == 'module:np' and e.attr in ('quaternion', 'ndarray', 'float64', 'complex128', 'inf'): return Kind('np.' + e.attr)
        raise Unsupported('attribute ' + ast.unparse(e))
    def transpose(s, v):
        if isinstance(v, RM):
            r = RM(f'(rmT {v.t})', v.cols, v.rows); r.sparse = getattr(v, 'sparse', False); return r
        if isinstance(v, QArr): return QArr([s.transpose(x) for x in v.c])
        raise Unsupported('transpose of ' + type(v).__name__)
    def subscript(s, e):
        v = s.expr(e.value); sl = e.slice
        if isinstance(v, F4) and isinstance(sl, ast.Tuple) and len(sl.elts) == 2 \
           and isinstance(sl.elts[0], ast.Constant) and sl.elts[0].value is Ellipsis \
           and isinstance(sl.elts[1], ast.Constant) and sl.elts[1].value in (0, 1, 2, 3):
            return v.c[sl.elts[1].value]
        if isinstance(v, Tup) and isinstance(sl, ast.Constant) and isinstance(sl.value, int):
            return v.xs[sl.value]
        return s.subscript_ext(v, e)
    def subscript_ext(s, v, e):
        raise Unsupported('subscript ' + ast.unparse(e))
    def call(s, e):
        fn = ast.unparse(e.func)
        kw = {k.arg: k.value for k in e.keywords}
        if fn == 'np.stack' and isinstance(e.args[0], ast.List) and 'axis' in kw and ast.unparse(kw['axis']) == '-1':
            xs = [s.expr(x) for x in e.args[0].elts]
            if len(xs) == 4 and all(isinstance(x, RM) for x in xs): return F4(xs)
            raise Unsupported('np.stack shape')
        # method calls on symbolic objects
        if isinstance(e.func, ast.Attribute):
            recv_ast = e.func.value; m = e.func.attr
            rtxt = ast.unparse(recv_ast)
            if rtxt not in ('np', 'quaternion', 'sparse', 'np.linalg'):
                recv = s.expr(recv_ast)
                args = [s.expr(a) for a in e.args]
                return s.method(recv, m, args, e)
        args = [s.expr(a) for a in e.args]
        if fn == 'quaternion.as_float_array' and isinstance(args[0], QArr): return F4(args[0].c)
        if fn == 'quaternion.as_quat_array' and isinstance(args[0], F4): return QArr(args[0].c)
        if fn == 'sparse.csr_matrix' and isinstance(args[0], RM):
            r = RM(args[0].t, args[0].rows, args[0].cols); r.sparse = True; return r
        if fn == 'np.conjugate' and isinstance(args[0], QArr):
            c = args[0].c; return QArr([c[0], s.neg(c[1]), s.neg(c[2]), s.neg(c[3])])
        if fn == 'np.transpose' and len(args) == 1: return s.transpose(args[0])
        if fn == 'np.sqrt' and isinstance(args[0], Scal): return Sqrt(args[0])
        if fn == 'np.sum' and isinstance(args[0], F4) and getattr(args[0], 'squared', False):
            c = args[0].c
            t = ' + '.join(f'rfrob2 {x.rows.coq()} {x.cols.coq()} {x.t}' for x in c)
            return Scal(f'({t})')
        if fn == 'SparseQuaternionMatrix' and len(args) == 5: return SparseQ(args[:4])
        if fn in s.env and isinstance(s.env[fn], tuple) and s.env[fn][0] == 'localdef':
            return s.call_def(s.env[fn][1], args)
        fdef = s.find_func(fn)
        if fdef is not None: return s.call_def(fdef, args)
        return s.call_ext(fn, args, e)
    def call_ext(s, fn, args, e):
        raise Unsupported('call ' + fn)
    def method(s, recv, m, args, e):
        if isinstance(recv, SparseQ):
            if m == '__matmul__' or m in ('dense_multiply', 'sparse_multiply', 'left_multiply', 'conjugate', 'transpose'):
                fdef = s.find_method('SparseQuaternionMatrix', m)
                if fdef is None: raise Unsupported('no method ' + m)
                return s.call_def(fdef, args, selfv=recv)
        if isinstance(recv, RM):
            sp = getattr(recv, 'sparse', False)
            if m in ('tocsr', 'toarray', 'copy') and not args:
                r = RM(recv.t, recv.rows, recv.cols); r.sparse = (m == 'tocsr') or (sp and m == 'copy'); return r
            if m == 'conjugate' and not args: return recv           # real data
            if m == 'transpose' and not args: return s.transpose(recv)
            if m == 'power' and len(args) == 1 and args[0] == Aff(2):
                r = RM(recv.t, recv.rows, recv.cols); r.squared = True; return r
            if m == 'sum' and not args and getattr(recv, 'squared', False):
                return Scal(f'(rfrob2 {recv.rows.coq()} {recv.cols.coq()} {recv.t})')
        raise Unsupported(f'method {m} on {type(recv).__name__}')
    # -- statements
    def assign(s, tgt, val):
        if isinstance(tgt, ast.Name): s.env[tgt.id] = val
        elif isinstance(tgt, ast.Tuple) and isinstance(val, Tup) and len(tgt.elts) == len(val.xs):
            for t, v in zip(tgt.elts, val.xs): s.assign(t, v)
        else: s.assign_ext(tgt, val)
    def assign_ext(s, tgt, val):
        raise Unsupported('assign target ' + ast.unparse(tgt))
    def block(s, stmts):
        for st in stmts:
            if s.ret is not None: return
            s.stmt(st)
    def stmt(s, st):
        if isinstance(st, ast.Expr) and isinstance(st.value, ast.Constant): return      # docstring
        if isinstance(st, ast.Assign) and len(st.targets) == 1:
            s.assign(st.targets[0], s.expr(st.value)); return
        if isinstance(st, ast.Return):
            s.ret = s.expr(st.value); return
        if isinstance(st, ast.If):
            c = s.cond(st.test)
            s.trace.append(('if', ast.unparse(st.test)[:50], c))
            s.block(st.body if c else st.orelse); return
        if isinstance(st, ast.Raise):
            s.ret = Const('raise:' + ast.unparse(st.exc)[:60]); return
        if isinstance(st, ast.FunctionDef):
            s.env[st.name] = ('localdef', st); return
        s.stmt_ext(st)
    def stmt_ext(s, st):
        raise Unsupported('statement ' + ast.unparse(st)[:70])

# binary operator dispatch:  A @ B  on SparseQ goes through __matmul__
_orig_binop = Ev.binop
def _binop(s, e):
    if isinstance(e.op, ast.MatMult):
        a = s.expr(e.left)
        if isinstance(a, SparseQ):
            b = s.expr(e.right)
            return s.method(a, '__matmul__', [b], e)
    return _orig_binop(s, e)
Ev.binop = _binop

def alpha_canon(fdef):
    """a copy of the function definition in which every local name (a name that is assigned, bound by a loop, a comprehension or an
    import inside the function; parameters excluded) is renamed L0, L1, ... in order of first binding: pattern-based translators compare
    this canonical text, so that renaming a local variable is not reported as a change of the code"""
    import copy
    f = copy.deepcopy(fdef)
    params = {a.arg for a in f.args.args + f.args.kwonlyargs} | ({f.args.vararg.arg} if f.args.vararg else set()) | ({f.args.kwarg.arg} if f.args.kwarg else set())
    order = []
    for n in ast.walk(f):
        if isinstance(n, ast.Name) and isinstance(n.ctx, ast.Store) and n.id not in params and n.id not in order: order.append(n.id)
    # first-binding order must follow the source order, ast.walk is breadth-first: sort by position
    pos = {}
    for n in ast.walk(f):
        if isinstance(n, ast.Name) and isinstance(n.ctx, ast.Store) and n.id in order:
            key = (n.lineno, n.col_offset)
            if n.id not in pos or key < pos[n.id]: pos[n.id] = key
    ren = {name: f'L{i}' for i, name in enumerate(sorted(order, key=lambda x: pos[x]))}
    for n in ast.walk(f):
        if isinstance(n, ast.Name) and n.id in ren: n.id = ren[n.id]
    return f, ren

def parse(path):
    return ast.parse(open(path).read())

# =====================================================================================
# Arrays under construction: np.zeros + slice / element writes, loops over range(...)
# =====================================================================================
class Arr2(V):
    """2-D real array being filled by slice writes"""
    def __init__(s, rows, cols): s.rows = rows; s.cols = cols; s.writes = []
class Arr3(V):
    """(m, n, 4) float array being filled by element writes  Q[i, j] = [w, x, y, z]"""
    def __init__(s, rows, cols): s.rows = rows; s.cols = cols; s.writes = []
class Lit(V):
    """np.array([[...]]) literal of scalars"""
    def __init__(s, rows): s.rows = rows           # list of list of Scal
class View(V):
    """slice view  M[r0:r1, c0:c1] of a real matrix"""
    def __init__(s, base, r0, c0, rows, cols): s.base = base; s.r0 = r0; s.c0 = c0; s.rows = rows; s.cols = cols
class ScalList(V):
    def __init__(s, xs): s.xs = xs

def aff_idx(a):
    """Gallina nat term for an affine index that may mention lambda-bound loop variables"""
    return a.coq()

class Ev2(Ev):
    def __init__(s, module, env):
        super().__init__(module, env)
        s.loops = []        # [(var, bound Aff)]
    def call_def(s, fdef, args, selfv=None):
        return super().call_def(fdef, args, selfv)
    def slice_bounds(s, sl, dim):
        lo = s.expr(sl.lower) if sl.lower is not None else Aff(0)
        hi = s.expr(sl.upper) if sl.upper is not None else dim
        if sl.step is not None: raise Unsupported('slice step')
        return aff(lo), aff(hi)
    def subscript_ext(s, v, e):
        sl = e.slice
        if isinstance(v, F4) and isinstance(sl, ast.Tuple) and len(sl.elts) == 2 and not any(isinstance(x, ast.Slice) for x in sl.elts):
            i = s.expr(sl.elts[0]); j = s.expr(sl.elts[1])
            if isinstance(i, Aff) and isinstance(j, Aff):
                return ScalList([Scal(f'({c.t} {aff_idx(i)} {aff_idx(j)})') for c in v.c])
        if isinstance(v, (RM, View)) and isinstance(sl, ast.Tuple) and len(sl.elts) == 2:
            a, b = sl.elts
            base = v if isinstance(v, RM) else None
            if isinstance(a, ast.Slice) and isinstance(b, ast.Slice) and isinstance(v, RM):
                r0, r1 = s.slice_bounds(a, v.rows); c0, c1 = s.slice_bounds(b, v.cols)
                return View(v, r0, c0, r1 - r0, c1 - c0)
            if not isinstance(a, ast.Slice) and not isinstance(b, ast.Slice):
                i = aff(s.expr(a)); j = aff(s.expr(b))
                if isinstance(v, View):
                    return Scal(f'({v.base.t} {aff_idx(v.r0 + i)} {aff_idx(v.c0 + j)})')
                return Scal(f'({v.t} {aff_idx(i)} {aff_idx(j)})')
        raise Unsupported('subscript ' + ast.unparse(e))
    def view_to_rm(s, v):
        if isinstance(v, View):
            r0, c0 = aff_idx(v.r0), aff_idx(v.c0)
            return RM(f'(fun i_ j_ => {v.base.t} (i_ + {r0})%nat (j_ + {c0})%nat)', v.rows, v.cols)
        return v
    def call(s, e):
        fn = ast.unparse(e.func)
        if fn == 'np.zeros' and isinstance(e.args[0], ast.Tuple):
            dims = [aff(s.expr(x)) for x in e.args[0].elts]
            if len(dims) == 2: return Arr2(dims[0], dims[1])
            if len(dims) == 3 and dims[2] == Aff(4): return Arr3(dims[0], dims[1])
            raise Unsupported('np.zeros shape')
        if fn == 'np.array' and isinstance(e.args[0], ast.List) and all(isinstance(r, ast.List) for r in e.args[0].elts):
            rows = [[s.expr(x) for x in r.elts] for r in e.args[0].elts]
            if all(isinstance(x, Scal) for r in rows for x in r): return Lit(rows)
            raise Unsupported('np.array literal of non-scalars')
        return super().call(e)
    def expr(s, e):
        if isinstance(e, ast.List):
            xs = [s.expr(x) for x in e.elts]
            if all(isinstance(x, Scal) for x in xs): return ScalList(xs)
            raise Unsupported('list literal')
        r = super().expr(e)
        return r
    def assign(s, tgt, val):
        if isinstance(tgt, ast.Tuple) and isinstance(val, ScalList) and len(tgt.elts) == len(val.xs):
            for t, v in zip(tgt.elts, val.xs): s.assign(t, v)
            return
        if isinstance(tgt, ast.Subscript):
            arr = s.expr(tgt.value); sl = tgt.slice
            if isinstance(arr, Arr2) and isinstance(sl, ast.Tuple) and len(sl.elts) == 2 and all(isinstance(x, ast.Slice) for x in sl.elts):
                r0, r1 = s.slice_bounds(sl.elts[0], arr.rows); c0, c1 = s.slice_bounds(sl.elts[1], arr.cols)
                if isinstance(val, View): val = s.view_to_rm(val)
                if not isinstance(val, (RM, Lit)): raise Unsupported('slice write of ' + type(val).__name__)
                arr.writes.append((list(s.loops), r0, r1, c0, c1, val)); return
            if isinstance(arr, Arr3) and isinstance(sl, ast.Tuple) and len(sl.elts) == 2 and isinstance(val, ScalList) and len(val.xs) == 4:
                i = aff(s.expr(sl.elts[0])); j = aff(s.expr(sl.elts[1]))
                arr.writes.append((list(s.loops), i, j, val)); return
        super().assign(tgt, val)
    def stmt_ext(s, st):
        if isinstance(st, ast.For) and isinstance(st.target, ast.Name) and isinstance(st.iter, ast.Call) \
           and ast.unparse(st.iter.func) == 'range' and len(st.iter.args) == 1 and not st.orelse:
            bound = aff(s.expr(st.iter.args[0]))
            var = st.target.id
            if any(var == v for v, _ in s.loops): raise Unsupported('nested loop reuses variable')
            s.loops.append((var, bound)); s.env[var] = Aff.sym(var)
            s.block(st.body)
            s.loops.pop()
            return
        super().stmt_ext(st)
    # -- finalisation
    def finalize(s, v):
        if isinstance(v, Arr2): return s.fin_arr2(v)
        if isinstance(v, Arr3): return s.fin_arr3(v)
        if isinstance(v, Lit):
            lit = '[' + '; '.join('[' + '; '.join(x.t for x in r) + ']' for r in v.rows) + ']'
            return RM(f'(fun I_ J_ => sel2 I_ J_ {lit})', Aff(len(v.rows)), Aff(len(v.rows[0])))
        if isinstance(v, View): return s.view_to_rm(v)
        return v
    def fin_arr2(s, a):
        if all(not w[0] for w in a.writes):
            term = 'c0'
            for (_, r0, r1, c0, c1, val) in a.writes:          # later writes override earlier ones
                if not isinstance(val, RM): raise Unsupported('window write of a literal')
                body = f'{val.t} (I_ - {aff_idx(r0)})%nat (J_ - {aff_idx(c0)})%nat'
                term = f'if inwin I_ J_ {aff_idx(r0)} {aff_idx(r1)} {aff_idx(c0)} {aff_idx(c1)} then {body} else ({term})'
            return RM(f'(fun I_ J_ => {term})', a.rows, a.cols)
        if len(a.writes) == 1 and len(a.writes[0][0]) == 2:
            (loops, r0, r1, c0, c1, val) = a.writes[0]
            (vi, bi), (vj, bj) = loops
            if not isinstance(val, Lit): raise Unsupported('tile write of non-literal')
            sr, sc = len(val.rows), len(val.rows[0])
            if r0 == Aff(0, {vi: sr}) and r1 == r0 + sr and c0 == Aff(0, {vj: sc}) and c1 == c0 + sc \
               and a.rows == bi * sr and a.cols == bj * sc:
                lit = '[' + '; '.join('[' + '; '.join(x.t for x in r) + ']' for r in val.rows) + ']'
                return RM(f'(fun I_ J_ => (fun {vi} {vj} => sel2 (I_ mod {sr})%nat (J_ mod {sc})%nat {lit}) (I_ / {sr})%nat (J_ / {sc})%nat)', a.rows, a.cols)
        raise Unsupported('unrecognised write pattern for a 2-D array')
    def fin_arr3(s, a):
        if len(a.writes) == 1 and len(a.writes[0][0]) == 2:
            (loops, i, j, val) = a.writes[0]
            (vi, bi), (vj, bj) = loops
            if i == Aff.sym(vi) and j == Aff.sym(vj) and bi == a.rows and bj == a.cols:
                return F4([RM(f'(fun {vi} {vj} => {x.t})', a.rows, a.cols) for x in val.xs])
        raise Unsupported('unrecognised write pattern for an (m,n,4) array')
    def stmt(s, st):
        if isinstance(st, ast.Return) and st.value is not None:
            v = s.expr(st.value)
            if isinstance(v, Tup): v = Tup([s.finalize(x) for x in v.xs])
            else: v = s.finalize(v)
            s.ret = v; return
        super().stmt(st)

# as_quat_array on a finalised (m,n,4) array
_orig_call2 = Ev2.call
def _call2(s, e):
    fn = ast.unparse(e.func)
    if fn == 'quaternion.as_quat_array' and len(e.args) == 1:
        v = s.expr(e.args[0])
        if isinstance(v, Arr3): return QArr(s.fin_arr3(v).c)
        if isinstance(v, F4): return QArr(v.c)
        raise Unsupported('as_quat_array of ' + type(v).__name__)
    return _orig_call2(s, e)
Ev2.call = _call2
