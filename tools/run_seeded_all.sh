#!/bin/bash
# Regression run of the machinery itself: every seeded change under seeded/<dir>/patch.diff is applied to a scratch worktree of /repo
# (under /tmp, removed afterwards) and the quick check of its property is run against that worktree (QUATICA_REPO).  One line per
# change: CAUGHT / MISSED.  Evidence and replay files written during these runs are discarded (the evidence directory is restored).
cd /verif
# (redirect the output to seeded/REGRESSION.txt to keep it)
cp -r evidence /tmp/_evidence_backup
run_one() {
  d=$1; P=${d%%_*}; W=/tmp/wtreg_$d
  git -C /repo worktree add --detach $W HEAD >/dev/null 2>&1
  if git -C $W apply /verif/seeded/$d/patch.diff 2>/dev/null; then
    out=$(QUATICA_REPO=$W bin/check $P 2>&1 | grep -c "^VIOLATION")
    if [ "$out" -gt 0 ]; then echo "$d CAUGHT ($out violation line(s))"; else echo "$d MISSED"; fi
  else echo "$d PATCH-DOES-NOT-APPLY"; fi
  git -C /repo worktree remove --force $W >/dev/null 2>&1
}
export -f run_one
# one property at a time per slot: changes of the same property never run concurrently (they share evidence/<id>.json)
# optional arguments: the property ids to restrict the run to
ALL=$(ls seeded | grep -v "\." | sed 's/_r[0-9]*$//' | sort -u)
for P in ${@:-$ALL}; do
  ( for d in $(ls seeded | grep "^$P\(_r[0-9]*\)\?$"); do run_one $d; done ) &
  while [ $(jobs -r | wc -l) -ge 8 ]; do sleep 2; done
done
wait
git -C /repo worktree prune
rm -rf evidence; mv /tmp/_evidence_backup evidence; rm -f replays/*
