#!/bin/bash
# usage: tools/take_mutant.sh <property id> <round number>   -- stores /tmp/wt<r>_<id>/_mutant as seeded/<id>_r<r>, removes the worktree, tests it
P=$1; R=$2; D=${P}_r$R
cd /verif
if [ -d /tmp/wt${R}_$P/_mutant ]; then mkdir -p seeded/$D && cp /tmp/wt${R}_$P/_mutant/* seeded/$D/ && git -C /repo worktree remove --force /tmp/wt${R}_$P; fi
python3 -c "import json;m=json.load(open('/verif/seeded/$D/meta.json'));print('SUMMARY:', m.get('summary','')[:400]);print('NEEDS:', str(m.get('needs_to_manifest',''))[:300])"
tools/try_seeded.sh $D $P 2>/dev/null | grep -v conda | cut -c1-260
cp evidence/$P.json /tmp/_ev_take_$P.json
git -C /repo apply /verif/seeded/$D/patch.diff; bin/check $P >/dev/null 2>&1
python3 -c "
import json
e=json.load(open('/verif/evidence/$P.json'));c=e['coverage'];print('OBLIGATIONS',c['obligations'],c['discharged'],[b[:150] for b in c['broken_obligations_or_correspondences']])"
git -C /repo checkout -- .; rm -f replays/${P}_*; mv /tmp/_ev_take_$P.json evidence/$P.json
