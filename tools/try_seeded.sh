#!/bin/bash
# usage: tools/try_seeded.sh <seeded-dir-name> <check-id> [<check-id> ...]
# applies seeded/<dir>/patch.diff to /repo (uncommitted), runs the quick checks, prints the violation signatures, reverts.
D=$1; shift
cd /verif
rm -rf /tmp/_ev_try; cp -r evidence /tmp/_ev_try        # the evidence of a run on a changed tree is discarded afterwards
git -C /repo apply /verif/seeded/$D/patch.diff || { echo "patch does not apply"; exit 2; }
for P in "$@"; do
  rm -f replays/${P}_*
  echo "== $P on $D"; bin/check $P 2>/dev/null | grep -v KNOWN | head -2
  python3 - <<PY
import json,glob
for f in sorted(glob.glob('/verif/replays/${P}_quick_*.json'))[:4]:
    d=json.load(open(f)); print('   ', d.get('sig'), str(d.get('what') or d.get('theorem_or_correspondence'))[:170])
PY
  rm -f replays/${P}_*
done
git -C /repo checkout -- .
cp /tmp/_ev_try/*.json evidence/; rm -rf /tmp/_ev_try
