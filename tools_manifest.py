#!/usr/bin/env python3
"""Regenerate MANIFEST.json from the table below (kept in one place so it always validates)."""
import json, os
ROOT = os.path.dirname(os.path.abspath(__file__))
props = [json.loads(l) for l in open(os.path.join(ROOT, 'properties.jsonl'))]
CLAIMED = {
 'C01': dict(technique='Coq proof over definitions translated from the source (qtrans) + bit-exact vm_compute correspondence',
             text='Theorems (all shapes, all entries, any commutative component ring) that each of the six product paths translated from utils.py equals the Hamilton product, conjugate-transpose laws, Frobenius identities, unitary invariance and sub-multiplicativity (over R); the Gallina text is regenerated from /repo on every run and executed against the implementation bit-for-bit.',
             note='Trusted: Coq kernel, qtrans and its NumPy semantics (cross-checked by execution), exact arithmetic standing for binary64; sub-multiplicativity uses the stdlib real axioms.', ref='7/C01'),
 'C02': dict(technique='Coq proof over definitions translated from the source (qtrans) + bit-exact vm_compute correspondence',
             text='Theorems for all shapes and entries over any commutative ring: real_expand, Realp and the complex adjoint as generated from utils.py are additive, real-homogeneous, injective, multiplicative, map conjugate transpose to (conjugate) transpose and scale the squared Frobenius norm by 4 resp. 2; contract(expand(A)) = A; the two layouts are conjugate by the perfect shuffle; component split/merge is lossless.',
             note='Trusted: Coq kernel, qtrans (tile-write / slice-write / complex-pair semantics, cross-checked by executing the generated definitions), exact arithmetic for binary64.', ref='7/C02'),
 'C07': dict(technique='Coq proof of the elimination invariant over a hand model + vm_compute correspondence on all m! forced pivot orders',
             text='Theorem: for every shape, every entry and every pivot rule choosing a row in [j,m), whenever the model of quaternion_lu returns, PA = LU, IP is a permutation, L is unit lower, U upper, and the two-output mode gives A = (P^T L) U; the executed Qc instance (first arg-max, 1e-15 guard) inherits them. The model is run against LU.py on every interchange sequence for m <= 4 (5 thorough), tall/square/wide, singular inputs, both output modes.',
             note='Trusted: Coq kernel, the hand model (tied by correspondence: pivot rows exactly, factors within 1e-9, raise <-> None), exact rationals for binary64. Multipliers <= 1 is checked by the exact oracle on outputs, not proved.', ref='7/C07'),
 'C18': dict(technique='Coq proof over definitions translated from the source (qtrans) + bit-exact vm_compute correspondence over memory layouts',
             text='Theorems for all I,J,K and all modes over an arbitrary entry type: the generated unfold has the mode-n fibres as columns, fold(unfold T) = T and unfold(fold M) = M pointwise, shapes, entrywise maps commute with unfolding, squared Frobenius norm preserved; rgb->quaternion->rgb (no clipping) and split/stack are inverse. Metrics and noise level are checked on the implementation (not theorems).',
             note='Trusted: Coq kernel, qtrans (row-major reshape / axis permutation semantics, cross-checked on C, Fortran, transposed and strided layouts). Known findings: clip window of quat_to_rgb, underflow in psnr/relative_error.', ref='7/C18'),
 'C17': dict(technique='Coq proof over the _pad_psf definition translated from the source + periodic-convolution theorems; exact-oracle correspondence for the FFT and matrix paths',
             text='Theorems for all image and kernel sizes (kernel no larger than the image) over any commutative ring: the generated padding places tap (u,v) at offset (u-kH/2, v-kW/2) wrapped periodically and writes nothing else, preserves the total mass; periodic convolution maps an impulse to the re-centred kernel, multiplies masses, is linear. The FFT blur/restoration, the normal equations, both matrix builders, linearity and channel independence are compared with the exact operator on every size pair.',
             note='Trusted: Coq kernel, qtrans (np.roll / slice-write semantics, cross-checked by execution); the FFT and pinv are oracles compared numerically (1e-9 / 1e-8), not proved.', ref='7/C17'),
 'C20': dict(technique='Coq proof over guard functions translated from the raise/assert statements of 37 entry points + exhaustive execution of the (entry point x argument class) table',
             text='For each modelled entry point the boolean guard is regenerated from the source (explicit raise/assert statements and the implicit shape-unpack guard) and proved equal to the negation of the documented domain predicate for every descriptor (all shapes, option strings, dtypes); in-domain boundary shapes (1x1, 1xn, nx1) are proved accepted. The full table of ~400 cells is executed and compared with the domain table and with the guard evaluated in Coq.',
             note='Trusted: Coq kernel, qtrans guard translator (condition forms; fail-closed), my reading of the documented domains. Implicit rejections raised inside NumPy are observed, not modelled. Known findings: unknown Schur option strings, PSF larger than the image.', ref='7/C20'),
 'C14': dict(technique='Coq proof over the field-write model translated from solver.py (induction over call histories) + exhaustive dynamic history / hash comparison',
             text='The net effect of every method of every solver class on the object fields is regenerated from the self.<attr> = ... statements (including try/finally) and proved to be the identity for every entry state and problem shape; hence, by induction over histories of any length, a reused object returns what a fresh one returns and repeating a call repeats the result. All histories of length <= 2 (3 thorough) over pools of problems of different shapes are executed for 11 class/configuration pairs and compared bit-for-bit with fresh objects; 46 public functions are checked for argument mutation and repeatability; both import styles are compared in fresh interpreters.',
             note='Trusted: Coq kernel, qtrans field-write translator (fail-closed on writes in loops/handlers/unmodelled conditions), the assumption that methods communicate only through fields and the global generator. Aliasing/mutation of caller arrays is observed by hashing, not proved. Known finding: Hess_QR_ggivens works in place.', ref='7/C14'),
 'C15': dict(technique='Coq proofs over R of the norm axioms for the modelled norms + generated Frobenius entry points + exact correspondence on integer-modulus inputs',
             text='Theorems for all shapes over R: the quaternion modulus is multiplicative and sub-additive; the induced 1- and infinity-norms (maximum column/row sum of moduli) and the Frobenius norm are absolutely homogeneous, satisfy the triangle inequality and are sub-multiplicative; max s <= sqrt(sum s^2) <= sqrt(r) max s. All Frobenius entry points generated from utils.py (unified, sparse, legacy quaternion form, legacy component form) have the same radicand = sum of squared moduli. Each definition is compared exactly with the implementation on matrices whose entries have integer moduli.',
             note='Trusted: Coq kernel + stdlib real axioms, qtrans, the hand model of the two induced-norm loops (tied by exact comparison). Axioms of the spectral norm and ||A||_2^2 <= ||A||_1 ||A||_inf are validated numerically only.', ref='7/C15'),
 'C16': dict(technique='Coq proofs over R (rotation) and over any commutative ring (substitutions) about hand models + vm_compute correspondence (fixed point 2^-160 / Qc)',
             text='Theorems: for every pair of quaternions with norm above eps the modelled ggivens rotation [[q1,q3],[q2,q4]] satisfies G^H G = I, G G^H = I and maps (x1,x2) to (norm,0), in both ordering branches; below eps it is the identity. For every n, every number of right-hand sides and every regularisation, forward and backward substitution satisfy the row equation with explicit defect rho(d) = |d|^2/(|d|^2+delta), hence T X = B exactly when delta = 0; the zero-diagonal branch returns a zero row. The models are executed against ggivens, GRSGivens, Hess_QR_ggivens, the two dense solves and UtriangleQsparse.',
             note='Trusted: Coq kernel + stdlib real axioms (rotation), the hand models (tied by correspondence within 2^-36 / 1e-9, near-tie branches discarded). W R = H / unitarity / triangularity of the whole Hessenberg sweep are checked by the oracle on outputs and by correspondence, not proved. Known finding: eps-regularised inverse of UtriangleQsparse.', ref='7/C16'),
}
checks = []
for pid, c in sorted(CLAIMED.items()):
    checks.append({'property_id': pid, 'quick_cmd': f'bin/check {pid} --tier quick', 'thorough_cmd': f'bin/check {pid} --tier thorough',
                   'evidence_file': f'evidence/{pid}.json', 'replay_cmd_template': f'bin/check {pid} --replay {{path}}',
                   'engine': 'coq-qtrans-corr', 'level_claimed': {'category': 'proof', 'text': c['text'], 'design_ref': c['ref']},
                   'level_note': c['note'], 'technique': c['technique']})
na = [{'property_id': p['id'], 'reason': 'check not built yet in this round (planned: see DESIGN.md section 7); not a statement that the technique cannot apply'}
      for p in props if p['id'] not in CLAIMED]
man = {'version': 1,
       'setup_cmd': 'cd coq && coq_makefile -f _CoqProject -o Makefile >/dev/null 2>&1 && timeout 3000 make -j16 >/dev/null 2>&1 && echo coq-library-built',
       'hooks': {'guard': 'QUATICA_VERIF', 'enable': 'no source hooks: observation is through public return values and harness-side wrappers',
                 'baseline_off_cmd': 'cd /repo && /venv/bin/python -m pytest -ra -q -p no:cacheprovider --timeout=900 --continue-on-collection-errors',
                 'source_commits': [], 'add_only': True},
       'engines': [{'name': 'coq-qtrans-corr', 'path': 'bin/check', 'serves_properties': sorted(CLAIMED),
                    'kind_free_text': 'Coq 8.16 theorems over models translated from the Python source (qtrans) or hand-written and tied by vm_compute correspondence runs'}],
       'checks': checks, 'not_applicable': na,
       'notes': 'See DESIGN.md. Known findings: known_findings.json.'}
json.dump(man, open(os.path.join(ROOT, 'MANIFEST.json'), 'w'), indent=1)
print('claimed', sorted(CLAIMED), 'unclaimed', len(na))
