"""C01: Hamilton product in every storage format; conjugate transpose; Frobenius norm."""
import os, sys, math, itertools
from fractions import Fraction
from . import common as cm
from . import qexact as qx
from .qexact import Q

PATHS = ['dd', 'sd', 'ds', 'ss', 'tq', 'tqs']
HEADER = """From Coq Require Import ZArith List Bool. Import ListNotations.
From QV Require Import CRing Sums Quat Mat Exec.
From B Require Import Gen_C01.
Open Scope Z_scope.
Definition Q4 := (zmat * zmat * zmat * zmat)%type.
Definition q4 (a : Q4) : qmat ZR := let '(w, x, y, z) := a in qof_list w x y z.
Definition model (p : nat) (m k n : nat) (A B : Q4) : qmat ZR :=
  let '(Aw0, Ax0, Ay0, Az0) := A in let '(Bw0, Bx0, By0, Bz0) := B in
  let Aw := of_list Aw0 in let Ax := of_list Ax0 in let Ay := of_list Ay0 in let Az := of_list Az0 in
  let Bw := of_list Bw0 in let Bx := of_list Bx0 in let By := of_list By0 in let Bz := of_list Bz0 in
  match p with
  | 0%nat => pack (gen_mm_dd_w ZR m k n Aw Ax Ay Az Bw Bx By Bz) (gen_mm_dd_x ZR m k n Aw Ax Ay Az Bw Bx By Bz) (gen_mm_dd_y ZR m k n Aw Ax Ay Az Bw Bx By Bz) (gen_mm_dd_z ZR m k n Aw Ax Ay Az Bw Bx By Bz)
  | 1%nat => pack (gen_mm_sd_w ZR m k n Aw Ax Ay Az Bw Bx By Bz) (gen_mm_sd_x ZR m k n Aw Ax Ay Az Bw Bx By Bz) (gen_mm_sd_y ZR m k n Aw Ax Ay Az Bw Bx By Bz) (gen_mm_sd_z ZR m k n Aw Ax Ay Az Bw Bx By Bz)
  | 2%nat => pack (gen_mm_ds_w ZR m k n Aw Ax Ay Az Bw Bx By Bz) (gen_mm_ds_x ZR m k n Aw Ax Ay Az Bw Bx By Bz) (gen_mm_ds_y ZR m k n Aw Ax Ay Az Bw Bx By Bz) (gen_mm_ds_z ZR m k n Aw Ax Ay Az Bw Bx By Bz)
  | 3%nat => pack (gen_mm_ss_w ZR m k n Aw Ax Ay Az Bw Bx By Bz) (gen_mm_ss_x ZR m k n Aw Ax Ay Az Bw Bx By Bz) (gen_mm_ss_y ZR m k n Aw Ax Ay Az Bw Bx By Bz) (gen_mm_ss_z ZR m k n Aw Ax Ay Az Bw Bx By Bz)
  | 4%nat => pack (gen_tq_w ZR m k n Aw Ax Ay Az Bw Bx By Bz) (gen_tq_x ZR m k n Aw Ax Ay Az Bw Bx By Bz) (gen_tq_y ZR m k n Aw Ax Ay Az Bw Bx By Bz) (gen_tq_z ZR m k n Aw Ax Ay Az Bw Bx By Bz)
  | _ => pack (gen_tqs_w ZR m k n Aw Ax Ay Az Bw Bx By Bz) (gen_tqs_x ZR m k n Aw Ax Ay Az Bw Bx By Bz) (gen_tqs_y ZR m k n Aw Ax Ay Az Bw Bx By Bz) (gen_tqs_z ZR m k n Aw Ax Ay Az Bw Bx By Bz)
  end.
Definition q4_eqb (m n : nat) (M : qmat ZR) (o : Q4) : bool := let '(w, x, y, z) := o in q_eqb m n M w x y z.
(* a product case: every path of the implementation equals the generated model of that path *)
Definition check_prod (c : nat * nat * nat * Q4 * Q4 * list Q4) : bool :=
  let '(m, k, n, A, B, outs) := c in
  forallb (fun po => q4_eqb m n (model (fst po) m k n A B) (snd po)) (combine (seq 0 (length outs)) outs).
(* hermitian + frobenius case: (m, n, A, herm_dense, herm_sparse, frob2_dense, frob2_sparse) *)
Definition check_hf (c : nat * nat * Q4 * Q4 * Q4 * Z * Z) : bool :=
  let '(m, n, A, hd, hs, fd, fs) := c in
  let '(Aw0, Ax0, Ay0, Az0) := A in
  let Aw := of_list Aw0 in let Ax := of_list Ax0 in let Ay := of_list Ay0 in let Az := of_list Az0 in
  q4_eqb n m (pack (gen_herm_d_w ZR m n Aw Ax Ay Az) (gen_herm_d_x ZR m n Aw Ax Ay Az) (gen_herm_d_y ZR m n Aw Ax Ay Az) (gen_herm_d_z ZR m n Aw Ax Ay Az)) hd
  && q4_eqb n m (pack (gen_herm_s_w ZR m n Aw Ax Ay Az) (gen_herm_s_x ZR m n Aw Ax Ay Az) (gen_herm_s_y ZR m n Aw Ax Ay Az) (gen_herm_s_z ZR m n Aw Ax Ay Az)) hs
  && Z.eqb (gen_frob2_d ZR m n Aw Ax Ay Az) fd && Z.eqb (gen_frob2_s ZR m n Aw Ax Ay Az) fs.
"""

def q4_lit(A):
    return '(' + ', '.join(cm.zmat_lit(c) for c in qx.comps(A)) + ')'

def mk_sparse(utils, A):
    from scipy import sparse
    import numpy as np
    W, X, Y, Z = [np.array(c, dtype=float).reshape(len(A), len(A[0])) for c in qx.comps(A)]
    return utils.SparseQuaternionMatrix(sparse.csr_matrix(W), sparse.csr_matrix(X), sparse.csr_matrix(Y),
                                        sparse.csr_matrix(Z), W.shape)
def mk_sparse_arrays(utils, A, fmt='csr'):
    """the same matrix with its four component planes stored as scipy sparse ARRAYS (csr_array / coo_array): for these
    containers `*` is the element-wise product, unlike the legacy sparse matrices"""
    from scipy import sparse
    import numpy as np
    mk = {'csr': sparse.csr_array, 'coo': sparse.coo_array, 'csc': sparse.csc_array}[fmt]
    W, X, Y, Z = [np.array(c, dtype=float).reshape(len(A), len(A[0])) for c in qx.comps(A)]
    return utils.SparseQuaternionMatrix(mk(W), mk(X), mk(Y), mk(Z), W.shape)
def sparse_to_exact(S):
    import numpy as np
    arrs = [np.asarray(c.toarray(), dtype=float) for c in (S.real, S.i, S.j, S.k)]
    m, n = arrs[0].shape
    return [[Q(*[Fraction(float(a[i, j])) for a in arrs]) for j in range(n)] for i in range(m)]

def impl_products(utils, A, B, exact_in=True):
    """run all six paths; returns dict path -> exact matrix, and result kinds"""
    import numpy as np, quaternion
    from scipy import sparse
    An, Bn = qx.to_np(A), qx.to_np(B)
    As, Bs = mk_sparse(utils, A), mk_sparse(utils, B)
    out = {}; kinds = {}
    for p, (a, b) in (('dd', (An, Bn)), ('sd', (As, Bn)), ('ds', (An, Bs)), ('ss', (As, Bs))):
        r = utils.quat_matmat(a, b)
        if isinstance(r, utils.SparseQuaternionMatrix):
            kinds[p] = 'sparse'; out[p] = sparse_to_exact(r)
        else:
            kinds[p] = 'dense'; out[p] = qx.from_np(r)
    if hasattr(sparse, 'csr_array'):
        for fmt in ('csr', 'coo'):
            Aa, Ba = mk_sparse_arrays(utils, A, fmt), mk_sparse_arrays(utils, B, fmt)
            for p, (a, b) in ((f'ss[{fmt}_array]', (Aa, Ba)), (f'sd[{fmt}_array]', (Aa, Bn)), (f'ds[{fmt}_array]', (An, Ba)), (f's[{fmt}_array]s[csr_matrix]', (Aa, Bs))):
                try: r = utils.quat_matmat(a, b)
                except Exception as e: out[p] = 'raised ' + repr(e)[:80]; kinds[p] = 'raised'; continue
                if isinstance(r, utils.SparseQuaternionMatrix): kinds[p] = 'sparse'; out[p] = sparse_to_exact(r)
                else: kinds[p] = 'dense'; out[p] = qx.from_np(r)
    ca = [np.array(c, dtype=float) for c in qx.comps(A)]; cb = [np.array(c, dtype=float) for c in qx.comps(B)]
    r = utils.timesQsparse(*ca, *cb)
    out['tq'] = qx.from_comps(*[qx.real_from_np(x) for x in r])
    r = utils.timesQsparse(*[sparse.csr_matrix(c) for c in ca], *[sparse.csr_matrix(c) for c in cb])
    out['tqs'] = qx.from_comps(*[qx.real_from_np(x) for x in r])
    return out, kinds

def gen_cases(ctx):
    rng = ctx.rng
    cases = []     # (class, A, B)
    top = 2 if ctx.quick() else 3
    shapes = list(itertools.product(range(1, top + 1), repeat=3))
    for (m, k, n) in shapes:
        for ui, u in enumerate(qx.UNITS):
            for vi, v in enumerate(qx.UNITS):
                for (i, l) in itertools.product(range(m), range(k)):
                    for (l2, j) in itertools.product(range(k), range(n)):
                        A = qx.zeros(m, k); B = qx.zeros(k, n); A[i][l] = u; B[l2][j] = v
                        cases.append((f'unit:{m}x{k}x{n}', A, B))
    if ctx.quick():   # a sample of 3-dimensional shapes as well
        for (m, k, n) in [(3, 3, 3), (1, 3, 2), (3, 1, 3), (2, 3, 1)]:
            for _ in range(40):
                A = qx.zeros(m, k); B = qx.zeros(k, n)
                A[rng.randrange(m)][rng.randrange(k)] = qx.UNITS[rng.randrange(4)]
                B[rng.randrange(k)][rng.randrange(n)] = qx.UNITS[rng.randrange(4)]
                cases.append((f'unit-sample:{m}x{k}x{n}', A, B))
    # long inner dimensions (sums over more than a cache panel of columns / rows): every term of the sum counts
    for (m, k, n) in ([(2, 129, 1), (1, 200, 2), (2, 257, 2)] if ctx.quick() else [(2, 129, 1), (1, 200, 2), (2, 257, 2), (3, 385, 1), (1, 513, 1), (2, 65, 2), (1, 1000, 1)]):
        cases.append((f'long-inner:{m}x{k}x{n}', qx.rand_int(rng, m, k, -3, 3), qx.rand_int(rng, k, n, -3, 3)))
    nrand = 300 if ctx.quick() else 5000
    for t in range(nrand):
        m, k, n = rng.randint(1, 4), rng.randint(1, 4), rng.randint(1, 4)
        cls = rng.choice(['int', 'int', 'sparse', 'pure', 'axis', 'zero', 'big'])
        if cls == 'int': A, B = qx.rand_int(rng, m, k), qx.rand_int(rng, k, n)
        elif cls == 'sparse': A, B = qx.rand_int(rng, m, k, density=0.4), qx.rand_int(rng, k, n, density=0.4)
        elif cls == 'pure':
            A, B = qx.rand_int(rng, m, k), qx.rand_int(rng, k, n)
            for r in A:
                for a in r: a.w = 0
            for r in B:
                for a in r: a.w = 0
        elif cls == 'axis':
            ax = rng.choice('wxyz'); A, B = qx.zeros(m, k), qx.zeros(k, n)
            for r in A:
                for a in r: setattr(a, ax, rng.randint(-3, 3))
            ax2 = rng.choice('wxyz')
            for r in B:
                for a in r: setattr(a, ax2, rng.randint(-3, 3))
        elif cls == 'zero': A, B = qx.zeros(m, k), qx.rand_int(rng, k, n)
        else: A, B = qx.rand_int(rng, m, k, -2**20, 2**20), qx.rand_int(rng, k, n, -2**20, 2**20)
        cases.append((cls + f':{m}x{k}x{n}', A, B))
    return cases

def run(ctx):
    cm.setup_impl_path()
    sys.path.insert(0, os.path.join(cm.ROOT, 'qtrans'))
    bad = cm.audit(cm.coq_sources() + [os.path.join(cm.ROOT, 'props', 'C01.v')])
    for b in bad: ctx.broken.append('audit: ' + b)
    # translate
    info = None
    try:
        import gen_c01
        txt, info = gen_c01.generate(cm.REPO)
        open(os.path.join(ctx.build, 'Gen_C01.v'), 'w').write(txt)
        ctx.obligations.append(('translate:quatica/utils.py(products,hermitian,frobenius)', True, ''))
    except Exception as e:
        ctx.obligations.append(('translate:quatica/utils.py', False, repr(e)))
        ctx.broken.append(f'qtrans cannot translate quatica/utils.py any more: {e!r}')
    proved = info is not None and cm.prove(ctx, 'C01.v', ['Gen_C01.v'])
    # implementation
    try:
        import utils, numpy as np, quaternion
    except Exception as e:
        ctx.broken.append(f'implementation does not import: {e!r}')
        return cm.finish(ctx, 'proof', '', ASSUME)
    cases = gen_cases(ctx)
    prod_terms = []; term_case = []
    def viol(sig, what, A, B, obs, exp):
        ctx.violations.append({'sig': sig, 'what': what,
                               'input': {'A': [[a.t() for a in r] for r in A], 'B': [[b.t() for b in r] for r in B] if B else None},
                               'observed': str(obs)[:400], 'expected': str(exp)[:400], 'oracle': 'exact Hamilton product (Python integers)'})
    # one and the SAME object as both operands (squares, powers by repeated squaring): every storage form and the @ operator
    for nsq in (2, 3, 4) if ctx.quick() else (2, 3, 4, 5, 7):
        for rep in range(3):
            Sq = qx.rand_int(ctx.rng, nsq, nsq, -3, 3) if rep else [[(Q(0, 1, 0, 0) if (i, j) == (0, 1) else (Q(0, 0, 1, 0) if (i, j) == (1, 0) else Q())) for j in range(nsq)] for i in range(nsq)]
            want2 = qx.mm(Sq, Sq); Sd = qx.to_np(Sq); Ss = mk_sparse(utils, Sq)
            def _dense(P):
                if isinstance(P, np.ndarray): return qx.from_np(P)
                return qx.from_np(quaternion.as_quat_array(np.stack([np.asarray(c.toarray(), dtype=float) for c in (P.real, P.i, P.j, P.k)], axis=-1)))
            for nm, f in (('quat_matmat(dense, same object)', lambda: utils.quat_matmat(Sd, Sd)), ('quat_matmat(sparse, same object)', lambda: utils.quat_matmat(Ss, Ss)), ('sparse @ same object', lambda: Ss @ Ss)):
                try: got = _dense(f())
                except Exception as e: viol('C01:product:same-object:raises', f'{nm} raised {e!r}', Sq, Sq, repr(e), 'a product'); continue
                if not qx.eq(got, want2): viol('C01:product:same-object', f'{nm}: the product of a matrix with itself (one object as both operands) differs from the Hamilton product', Sq, Sq, [[a.t() for a in r] for r in got], [[a.t() for a in r] for r in want2])
            ctx.count(('same-object', nsq, rep, [a.t() for r in Sq for a in r]), True)
    for cls, A, B in cases:
        m, k = qx.shape(A); n = qx.shape(B)[1]
        want = qx.mm(A, B)
        try:
            outs, kinds = impl_products(utils, A, B)
        except Exception as e:
            viol('C01:product:raises', f'product raised {e!r}', A, B, repr(e), 'a product'); continue
        for p in PATHS:
            if not qx.eq(outs[p], want):
                viol(f'C01:product:{p}', f'path {p} differs from the Hamilton product on {cls}', A, B,
                     [[a.t() for a in r] for r in outs[p]], [[a.t() for a in r] for r in want])
        for p in [q for q in outs if q not in PATHS]:
            if isinstance(outs[p], str) or not qx.eq(outs[p], want):
                viol(f'C01:product:storage:{p}', f'product with sparse-ARRAY component storage ({p}) differs from the Hamilton product on {cls}', A, B, outs[p] if isinstance(outs[p], str) else [[a.t() for a in r] for r in outs[p]], [[a.t() for a in r] for r in want])
        if info and any(kinds[p] != info['dispatch'][p]['result'] for p in kinds if p in info['dispatch']):
            ctx.broken.append(f'storage kind of a product differs from the translated dispatch: {kinds} vs {info["dispatch"]}')
        nontriv = cls.startswith('unit') or (sum(not a.is_zero() for r in A for a in r) >= 2 and sum(not b.is_zero() for r in B for b in r) >= 2)
        ctx.count(('prod', [a.t() for r in A for a in r], [b.t() for r in B for b in r], (m, k, n)), nontriv,
                  sample={'class': cls, 'A': [[a.t() for a in r] for r in A], 'B': [[b.t() for b in r] for r in B]} if ctx.cov['evaluations'] % 997 == 0 else None)
        ints = [qx.to_int(outs[p]) for p in PATHS]
        if all(x is not None for x in ints):
            prod_terms.append(f'({m}%nat, {k}%nat, {n}%nat, {q4_lit(A)}, {q4_lit(B)}, [' + '; '.join(q4_lit(x) for x in ints) + '])')
    # scalar paths of the component kernel, hermitian, frobenius, laws (implementation level)
    hf_terms = []
    nlaw = 120 if ctx.quick() else 1500
    rng = ctx.rng
    for t in range(nlaw):
        m, k, n = rng.randint(1, 4), rng.randint(1, 4), rng.randint(1, 4)
        A, B = qx.rand_int(rng, m, k), qx.rand_int(rng, k, n)
        An = qx.to_np(A); As = mk_sparse(utils, A)
        hd = qx.from_np(utils.quat_hermitian(An)); hs = sparse_to_exact(utils.quat_hermitian(As))
        if not qx.eq(hd, qx.herm(A)): viol('C01:herm:dense', 'dense conjugate transpose wrong', A, None, hd, qx.herm(A))
        if not qx.eq(hs, qx.herm(A)): viol('C01:herm:sparse', 'sparse conjugate transpose wrong', A, None, hs, qx.herm(A))
        # (AB)^H = B^H A^H  and involution, on the implementation
        Bn = qx.to_np(B)
        lhs = qx.from_np(utils.quat_hermitian(utils.quat_matmat(An, Bn)))
        rhs = qx.from_np(utils.quat_matmat(utils.quat_hermitian(Bn), utils.quat_hermitian(An)))
        if not qx.eq(lhs, rhs): viol('C01:herm:reverses', '(AB)^H != B^H A^H', A, B, lhs, rhs)
        if not qx.eq(qx.from_np(utils.quat_hermitian(utils.quat_hermitian(An))), A): viol('C01:herm:involution', '(A^H)^H != A', A, None, '', '')
        # the same law in sparse storage, dimensions included: a sparse result must REPORT the shape of the matrix it holds (.shape feeds the shape of
        # every later product), and (A B)^H and B^H A^H must be the same k x m ... n x m matrix
        Bs = mk_sparse(utils, B); Hs_ = utils.quat_hermitian(As); HBs = utils.quat_hermitian(Bs)
        def _shape_ok(S, want):
            return tuple(S.shape) == tuple(want) and all(tuple(c.shape) == tuple(want) for c in (S.real, S.i, S.j, S.k))
        if not _shape_ok(Hs_, (k, m)): viol('C01:herm:sparse:shape', f'the sparse conjugate transpose of a {m} x {k} matrix reports shape {tuple(Hs_.shape)} and holds components of shape {tuple(Hs_.real.shape)} (expected {(k, m)})', A, None, tuple(Hs_.shape), (k, m))
        try:
            L_ = utils.quat_hermitian(utils.quat_matmat(As, Bs)); R_ = utils.quat_matmat(HBs, Hs_)
            if not (_shape_ok(L_, (n, m)) and _shape_ok(R_, (n, m))): viol('C01:herm:sparse:reverses:shape', f'(A B)^H reports shape {tuple(L_.shape)} and B^H A^H reports shape {tuple(R_.shape)} in sparse storage (expected {(n, m)})', A, B, (tuple(L_.shape), tuple(R_.shape)), (n, m))
            elif not qx.eq(sparse_to_exact(L_), sparse_to_exact(R_)): viol('C01:herm:sparse:reverses', '(AB)^H != B^H A^H in sparse storage', A, B, '', '')
            G_ = utils.quat_matmat(Hs_, As)
            if not _shape_ok(G_, (k, k)): viol('C01:herm:sparse:gram:shape', f'A^H A reports shape {tuple(G_.shape)} in sparse storage (expected {(k, k)})', A, None, tuple(G_.shape), (k, k))
        except Exception as e: viol('C01:herm:sparse:reverses:raises', f'sparse (AB)^H / B^H A^H raised {e!r}', A, B, repr(e), '')
        # Frobenius: exact on integers (radicand), identical across storage, invariant under ^H and unitary factors
        f2 = qx.frob2(A)
        fd = float(utils.quat_frobenius_norm(An)); fs = float(utils.quat_frobenius_norm(As))
        exact_root = math.isqrt(f2) ** 2 == f2
        for tag, fv in (('dense', fd), ('sparse', fs)):
            ok = (fv == math.isqrt(f2)) if exact_root else abs(fv * fv - f2) <= 4e-15 * max(f2, 1)
            if not ok: viol(f'C01:frob:{tag}', 'Frobenius norm differs from root-sum-of-squares', A, None, fv, f'sqrt({f2})')
        if fd != fs: viol('C01:frob:storage', 'dense and sparse Frobenius norms differ on integer data', A, None, (fd, fs), 'equal')
        if float(utils.quat_frobenius_norm(utils.quat_hermitian(An))) != fd: viol('C01:frob:herm', '||A^H|| != ||A||', A, None, '', '')
        # the component-form norm on every scipy.sparse container of the planes, including those whose raw data buffer is NOT one value per entry:
        # COO with repeated coordinates (each entry stored as two pieces), DIA (padding slots), BSR, LIL, DOK
        from scipy import sparse as _sp
        planes = [np.array(c, dtype=float).reshape(len(A), len(A[0])) for c in qx.comps(A)]
        def _coo_dup(P):
            r, c = np.nonzero(P); v = P[r, c]
            return _sp.coo_matrix((np.concatenate([v - 1.0, np.ones_like(v)]), (np.concatenate([r, r]), np.concatenate([c, c]))), shape=P.shape)
        for fmt, mk in (('csr', _sp.csr_matrix), ('csc', _sp.csc_matrix), ('coo-duplicates', _coo_dup), ('dia', _sp.dia_matrix), ('lil', _sp.lil_matrix), ('bsr', _sp.bsr_matrix)):
            try: fc = float(utils.normQsparse(*[mk(P) for P in planes]))
            except Exception as e: viol(f'C01:frob:components:{fmt}:raises', f'normQsparse raised {e!r} for {fmt} component planes', A, None, '', ''); continue
            if abs(fc - fd) > 4e-15 * max(fd, 1.0): viol(f'C01:frob:components:{fmt}', f'component-form Frobenius norm of {fmt} planes differs from the dense norm', A, None, (fc, fd), 'equal')
        fcd = float(utils.normQsparse(*planes))
        if abs(fcd - fd) > 4e-15 * max(fd, 1.0): viol('C01:frob:components:dense', 'component-form Frobenius norm of dense planes differs from the quaternion-array norm', A, None, (fcd, fd), 'equal')
        U = qx.signed_perm(rng, m); V = qx.signed_perm(rng, k)
        fu = float(utils.quat_frobenius_norm(utils.quat_matmat(qx.to_np(U), An)))
        fv_ = float(utils.quat_frobenius_norm(utils.quat_matmat(An, qx.to_np(V))))
        if fu != fd or fv_ != fd: viol('C01:frob:unitary', 'Frobenius norm not invariant under an exactly unitary factor', A, U, (fu, fv_, fd), 'equal')
        fab = float(utils.quat_frobenius_norm(utils.quat_matmat(An, Bn))); fb = float(utils.quat_frobenius_norm(Bn))
        if fab > fd * fb * (1 + 1e-12): viol('C01:frob:submult', '||AB|| > ||A|| ||B||', A, B, fab, fd * fb)
        ctx.count(('law', [a.t() for r in A for a in r], [b.t() for r in B for b in r]), True)
        # squared norms for the model (exact when the float square is an integer)
        hf_terms.append(f'({m}%nat, {k}%nat, {q4_lit(A)}, {q4_lit(hd)}, {q4_lit(hs)}, {cm.zlit(f2 if abs(fd*fd-f2) <= 4e-15*max(f2,1) else -1)}, {cm.zlit(f2 if abs(fs*fs-f2) <= 4e-15*max(f2,1) else -1)})'
                        if qx.to_int(hd) and qx.to_int(hs) else None)
        # scalar paths
        p = Q(*[rng.randint(-3, 3) for _ in range(4)])
        cb = [np.array(c, dtype=float) for c in qx.comps(B)]
        r1 = utils.timesQsparse(*[float(c) for c in p.t()], *cb)
        r2 = utils.timesQsparse(*cb, *[float(c) for c in p.t()])
        e1 = qx.from_comps(*[qx.real_from_np(x) for x in r1]); e2 = qx.from_comps(*[qx.real_from_np(x) for x in r2])
        if not qx.eq(e1, [[p * b for b in r] for r in B]): viol('C01:product:tq_scalar_left', 'scalar*matrix through the component kernel wrong', B, None, '', '')
        if not qx.eq(e2, [[b * p for b in r] for r in B]): viol('C01:product:tq_scalar_right', 'matrix*scalar through the component kernel wrong', B, None, '', '')
    # rounding-level and huge/tiny magnitude cases (Python oracle, tolerance from exact arithmetic)
    nfl = 100 if ctx.quick() else 1500
    for t in range(nfl):
        m, k, n = rng.randint(1, 4), rng.randint(1, 4), rng.randint(1, 4)
        sc = rng.choice([0, 0, 400, -400, 60, -60])
        Af = [[Q(*[Fraction(rng.uniform(-1, 1)) for _ in range(4)]) for _ in range(k)] for _ in range(m)]
        Bf = [[Q(*[Fraction(rng.uniform(-1, 1)) * Fraction(2) ** sc for _ in range(4)]) for _ in range(n)] for _ in range(k)]
        want = qx.mm(Af, Bf)
        try: outs, _ = impl_products(utils, Af, Bf)
        except Exception as e:
            viol('C01:product:raises', f'product raised {e!r}', Af, Bf, repr(e), ''); continue
        bound = Fraction(2) ** sc * 16 * k * Fraction(1, 2 ** 50)
        for p in PATHS:
            d = qx.maxabs(qx.sub(outs[p], want))
            if d > bound: viol(f'C01:product:{p}:float', f'path {p} off by more than rounding (scale 2^{sc})', Af, Bf, float(d), float(bound))
        ctx.count(('float', t, sc), True)
    # model correspondence
    if info is not None and prod_terms:
        res = cm.run_cases(ctx, 'cases_prod', HEADER, prod_terms, 'check_prod')
        if res is not None:
            ctx.cov['traces_validated_against_impl'] += len(res)
            bad = [i for i, r in enumerate(res) if not r]
            if bad: ctx.broken.append(f'generated model and implementation disagree on {len(bad)} product case(s), first: {prod_terms[bad[0]][:300]}')
        hf = [t for t in hf_terms if t]
        res = cm.run_cases(ctx, 'cases_hf', HEADER, hf, 'check_hf')
        if res is not None:
            ctx.cov['traces_validated_against_impl'] += len(res)
            bad = [i for i, r in enumerate(res) if not r]
            if bad: ctx.broken.append(f'generated model and implementation disagree on {len(bad)} hermitian/frobenius case(s), first: {hf[bad[0]][:300]}')
    # memory-layout independence of the dense entry points (same values, other strides)
    import utils as _u
    _L = qx.to_np(qx.rand_int(ctx.rng, 3, 4, -3, 3)); _Rm = qx.to_np(qx.rand_int(ctx.rng, 4, 2, -3, 3))
    cm.layout_sweep(ctx, qx, 'C01', 'quat_matmat(left)', lambda X: _u.quat_matmat(X, _Rm), _L, {'shape': [3, 4]})
    cm.layout_sweep(ctx, qx, 'C01', 'quat_matmat(right)', lambda X: _u.quat_matmat(_L, X), _Rm, {'shape': [4, 2]})
    cm.layout_sweep(ctx, qx, 'C01', 'quat_hermitian', lambda X: _u.quat_hermitian(X), _L, {'shape': [3, 4]})
    cm.layout_sweep(ctx, qx, 'C01', 'quat_frobenius_norm', lambda X: _u.quat_frobenius_norm(X), _L, {'shape': [3, 4]})
    ctx.cov['rule'] = ('products: all 16 basis-unit pairs at every (position, position) of every shape up to '
                       f'{2 if ctx.quick() else 3}^3 (exhaustive) + random integer/sparse/pure-imaginary/single-axis/zero/2^20-magnitude cases, six storage paths each, '
                       'compared bit-for-bit with the exact Hamilton product and with the generated Gallina model; float cases incl. 2^+-400 scaling within a rounding bound; '
                       'hermitian/frobenius laws on random integer matrices. Distinct = new canonical input; non-trivial = unit case or >= 2 non-zero entries per operand.')
    ctx.cov['exhaustive'] = False
    ctx.cov['dispatch'] = info['dispatch'] if info else None
    return cm.finish(ctx, 'proof', 'theorems over generated definitions', ASSUME)

ASSUME = ['binary64 products/sums are exact on the integer inputs used for bit-exact comparison (|values| < 2^53)',
          'scipy.sparse matmul and numpy @ compute the real matrix product (modelled as rmm)',
          'numpy-quaternion component order (w,x,y,z) and conjugate as given in NumpySem (cross-checked by execution)']
