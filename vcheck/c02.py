"""C02: real / complex embeddings are faithful *-homomorphisms with exact round trip."""
import os, sys, itertools
from fractions import Fraction
from . import common as cm
from . import qexact as qx
from .qexact import Q

HEADER = """From Coq Require Import ZArith List Bool. Import ListNotations.
From QV Require Import CRing Sums Quat Mat NumpySem Exec.
From B Require Import Gen_C02.
Open Scope Z_scope.
Definition Q4 := (zmat * zmat * zmat * zmat)%type.
(* (m, n, A, real_expand A, Realp A, contract(expand A)) *)
Definition check_emb (c : nat * nat * Q4 * zmat * zmat * Q4) : bool :=
  let '(m, n, A, re, rp, rc) := c in
  let '(Aw0, Ax0, Ay0, Az0) := A in
  let Aw := of_list Aw0 in let Ax := of_list Ax0 in let Ay := of_list Ay0 in let Az := of_list Az0 in
  let '(cw0, cx0, cy0, cz0) := rc in
  let R := of_list re in
  rm_eqb (4*m) (4*n) (gen_real_expand ZR m n Aw Ax Ay Az) re
  && rm_eqb (4*m) (4*n) (gen_Realp ZR m n Aw Ax Ay Az) rp
  && rm_eqb m n (gen_real_contract_w ZR m n R) cw0 && rm_eqb m n (gen_real_contract_x ZR m n R) cx0
  && rm_eqb m n (gen_real_contract_y ZR m n R) cy0 && rm_eqb m n (gen_real_contract_z ZR m n R) cz0.
(* (n, A, adjoint_re, adjoint_im) *)
Definition check_adj (c : nat * Q4 * zmat * zmat) : bool :=
  let '(n, A, are, aim) := c in
  let '(Aw0, Ax0, Ay0, Az0) := A in
  let Aw := of_list Aw0 in let Ax := of_list Ax0 in let Ay := of_list Ay0 in let Az := of_list Az0 in
  rm_eqb (2*n) (2*n) (gen_adjoint_re ZR n Aw Ax Ay Az) are && rm_eqb (2*n) (2*n) (gen_adjoint_im ZR n Aw Ax Ay Az) aim.
(* (m, n, S, A0, A1, A2, A3) : A2A0123 S *)
Definition check_split (c : nat * nat * zmat * zmat * zmat * zmat * zmat) : bool :=
  let '(m, n, Sm, a0, a1, a2, a3) := c in
  let M := of_list Sm in
  rm_eqb m n (gen_A2A0123_0 ZR m n M) a0 && rm_eqb m n (gen_A2A0123_1 ZR m n M) a1
  && rm_eqb m n (gen_A2A0123_2 ZR m n M) a2 && rm_eqb m n (gen_A2A0123_3 ZR m n M) a3.
(* scalar Realp: (a1,a2,a3,a4, out) *)
Definition check_rps (c : Z * Z * Z * Z * zmat) : bool :=
  let '(a1, a2, a3, a4, o) := c in rm_eqb 4 4 (gen_Realp_scalar ZR a1 a2 a3 a4) o.
"""

BLK = [[('w', 1), ('x', -1), ('y', -1), ('z', -1)], [('x', 1), ('w', 1), ('z', -1), ('y', 1)],
       [('y', 1), ('z', 1), ('w', 1), ('x', -1)], [('z', 1), ('y', -1), ('x', 1), ('w', 1)]]
def blk(q, a, b):
    c, s = BLK[a][b]; return s * getattr(q, c)
def rexp_ref(A):
    m, n = qx.shape(A)
    return [[blk(A[I // 4][J // 4], I % 4, J % 4) for J in range(4 * n)] for I in range(4 * m)]
def realp_ref(A):
    m, n = qx.shape(A)
    return [[blk(A[I % m][J % n], I // m, J // n) for J in range(4 * n)] for I in range(4 * m)]
def adj_ref(A):
    n = len(A)
    re = [[0] * (2 * n) for _ in range(2 * n)]; im = [[0] * (2 * n) for _ in range(2 * n)]
    for i in range(n):
        for j in range(n):
            q = A[i][j]
            re[i][j] = q.w; im[i][j] = q.x; re[i][n + j] = q.y; im[i][n + j] = q.z
            re[n + i][j] = -q.y; im[n + i][j] = q.z; re[n + i][n + j] = q.w; im[n + i][n + j] = -q.x
    return re, im
def rmul(A, B): return [[sum(a * b for a, b in zip(r, c)) for c in zip(*B)] for r in A]
def rT(A): return [list(r) for r in zip(*A)]
def fr(M): return [[Fraction(float(v)) for v in r] for r in M]

def gen_inputs(ctx):
    rng = ctx.rng; out = []
    top = 3 if ctx.quick() else 5
    for m in range(1, top + 1):
        for n in range(1, top + 1):
            if ctx.quick() or m * n <= 9:
                for i in range(m):
                    for j in range(n):
                        for u in qx.UNITS:
                            A = qx.zeros(m, n); A[i][j] = u; out.append(('unit', A))
            # tagged: every component a distinct integer, so each cell's origin is visible
            A = [[Q(*[1 + 4 * (i * n + j) + c for c in range(4)]) for j in range(n)] for i in range(m)]
            out.append(('tagged', A))
    for _ in range(60 if ctx.quick() else 1200):
        m, n = rng.randint(1, 5), rng.randint(1, 5)
        out.append(('int', qx.rand_int(rng, m, n, -9, 9, density=rng.choice([1.0, 0.5]))))
    return out

def run(ctx):
    cm.setup_impl_path(); sys.path.insert(0, os.path.join(cm.ROOT, 'qtrans'))
    for b in cm.audit(cm.coq_sources() + [os.path.join(cm.ROOT, 'props', 'C02.v')]): ctx.broken.append('audit: ' + b)
    info = None
    try:
        import gen_c02
        txt, info = gen_c02.generate(cm.REPO)
        open(os.path.join(ctx.build, 'Gen_C02.v'), 'w').write(txt)
        ctx.obligations.append(('translate:utils.py(real_expand,real_contract,Realp,A2A0123,adjoint)+solver.py(component conversions)', True, ''))
    except Exception as e:
        ctx.obligations.append(('translate', False, repr(e)))
        ctx.broken.append(f'qtrans cannot translate the embedding routines any more: {e!r}')
    if info is not None: cm.prove(ctx, 'C02.v', ['Gen_C02.v'])
    try:
        import utils, solver, numpy as np, quaternion
    except Exception as e:
        ctx.broken.append(f'implementation does not import: {e!r}'); return cm.finish(ctx, 'proof', '', ASSUME)
    def viol(sig, what, A, obs='', exp=''):
        ctx.violations.append({'sig': sig, 'what': what, 'input': {'A': [[a.t() for a in r] for r in A]},
                               'observed': str(obs)[:300], 'expected': str(exp)[:300], 'oracle': 'independent definition of the embedding, exact integers'})
    emb_terms, adj_terms, split_terms, rps_terms = [], [], [], []
    gs = solver.QGMRESSolver()
    rng = ctx.rng
    def one(cls, A):
        m, n = qx.shape(A); An = qx.to_np(A)
        try:
            RE = fr(utils.real_expand(An)); cA = [np.array(c, dtype=float) for c in qx.comps(A)]
            RP = fr(utils.Realp(*cA)); RC = qx.from_np(utils.real_contract(utils.real_expand(An), m, n))
        except Exception as e:
            viol('C02:raises', f'embedding raised {e!r}', A); return
        if m * n <= 6:
            for lname, Al in qx.layouts(An):
                try:
                    if fr(utils.real_expand(Al)) != RE: viol('C02:real_expand:memory-layout', f'real_expand depends on the memory layout of its argument ({lname})', A, lname)
                    if m == n and not np.array_equal(utils.quaternion_to_complex_adjoint(Al), utils.quaternion_to_complex_adjoint(An)): viol('C02:adjoint:memory-layout', f'complex adjoint depends on the memory layout of its argument ({lname})', A, lname)
                except Exception as e: viol('C02:memory-layout:raises', f'an embedding raised {type(e).__name__} for a {lname} argument: {e}', A, lname)
        # the component-blocked embedding must not depend on the storage dtype of one plane (integer-typed real plane, fractional others)
        try:
            halves = [np.array(cA[0]).astype(np.int64)] + [np.array(c, dtype=float) / 2 for c in cA[1:]]
            ref_planes = [halves[0].astype(float)] + halves[1:]
            if fr(utils.Realp(*halves)) != fr(utils.Realp(*ref_planes)): viol('C02:Realp:storage-dtype', 'Realp depends on the storage dtype of the real plane (integer-typed plane with fractional imaginary planes)', A)
        except Exception as e: viol('C02:Realp:storage-dtype:raises', f'Realp raised {e!r} for an integer-typed real plane', A)
        if RE != rexp_ref(A): viol('C02:real_expand:layout', 'real_expand differs from the interleaved 4x4-block definition', A, RE, rexp_ref(A))
        if RP != realp_ref(A): viol('C02:Realp:layout', 'Realp differs from the component-blocked definition', A, RP, realp_ref(A))
        if not qx.eq(RC, A): viol('C02:roundtrip', 'real_contract(real_expand(A)) != A', A, RC)
        # homomorphism laws on the implementation (integers: exact)
        k = rng.randint(1, 4); B = qx.rand_int(rng, n, k, -5, 5); Bn = qx.to_np(B)
        AB = qx.mm(A, B)
        if rmul(RE, fr(utils.real_expand(Bn))) != rexp_ref(AB): viol('C02:real_expand:multiplicative', 'expand(A) expand(B) != expand(AB)', A)
        # ... and for the library's own product in every storage combination of the factors (the embedding of the product it returns)
        from .c01 import mk_sparse as _mks
        for combo, (Xa, Xb) in (('dense@dense', (An, Bn)), ('dense@sparse', (An, _mks(utils, B))), ('sparse@dense', (_mks(utils, A), Bn)), ('sparse@sparse', (_mks(utils, A), _mks(utils, B)))):
            try:
                Pn = utils.quat_matmat(Xa, Xb)
                if hasattr(Pn, 'real') and hasattr(Pn, 'i') and not isinstance(Pn, np.ndarray):
                    Pn = quaternion.as_quat_array(np.stack([np.asarray(c.toarray(), dtype=float) for c in (Pn.real, Pn.i, Pn.j, Pn.k)], axis=-1))
                if fr(utils.real_expand(np.asarray(Pn))) != rmul(RE, fr(utils.real_expand(Bn))): viol(f'C02:real_expand:multiplicative:{combo}', f'expand(A B) != expand(A) expand(B) for the library product {combo}', A)
            except Exception as e: viol(f'C02:real_expand:multiplicative:{combo}:raises', f'product {combo} raised {e!r}', A)
        cB = [np.array(c, dtype=float) for c in qx.comps(B)]
        if rmul(RP, fr(utils.Realp(*cB))) != realp_ref(AB): viol('C02:Realp:multiplicative', 'Realp(A) Realp(B) != Realp(AB)', A)
        if fr(utils.real_expand(qx.to_np(qx.herm(A)))) != rT(RE): viol('C02:real_expand:herm', 'expand(A^H) != expand(A)^T', A)
        cH = [np.array(c, dtype=float) for c in qx.comps(qx.herm(A))]
        if fr(utils.Realp(*cH)) != rT(RP): viol('C02:Realp:herm', 'Realp(A^H) != Realp(A)^T', A)
        f2 = qx.frob2(A)
        if sum(v * v for r in RE for v in r) != 4 * f2 or sum(v * v for r in RP for v in r) != 4 * f2:
            viol('C02:frob', 'Frobenius norm of the real representation is not 2 ||A||_F', A)
        A2 = qx.rand_int(rng, m, n, -5, 5)
        if fr(utils.real_expand(qx.to_np(qx.add(A, A2)))) != [[a + b for a, b in zip(r, s)] for r, s in zip(RE, rexp_ref(A2))]:
            viol('C02:real_expand:additive', 'expand(A+B) != expand(A)+expand(B)', A)
        # split / merge
        S = np.hstack([cA[0], cA[2], cA[1], cA[3]])
        parts = utils.A2A0123(S)
        if any(fr(p) != fr(c) for p, c in zip(parts, cA)): viol('C02:A2A0123', 'A2A0123(hstack[A0,A2,A1,A3]) != (A0,A1,A2,A3)', A)
        c4 = gs._quat_to_components(An)
        back = qx.from_np(gs._components_to_quat(*c4))
        if not qx.eq(back, A) or any(fr(p) != fr(c) for p, c in zip(c4, cA)): viol('C02:components', 'component conversion of the Krylov solver is lossy', A)
        for cont in (tuple, list):
            c4t = gs._quat_to_components(cont(np.array(c, dtype=float) for c in cA))
            if any(fr(p) != fr(c) for p, c in zip(c4t, cA)): viol('C02:components:presplit', f'planes handed over already split (as a {cont.__name__}) come back changed or reordered', A)
        from .c01 import mk_sparse
        c4s = gs._quat_to_components(mk_sparse(utils, A))
        if any(fr(p) != fr(c) for p, c in zip(c4s, cA)): viol('C02:components:sparse', 'sparse component conversion differs', A)
        ctx.count(('emb', [a.t() for r in A for a in r], m, n), True,
                  sample={'class': cls, 'A': [[a.t() for a in r] for r in A]} if cls == 'tagged' and m == 2 and n == 3 else None)
        z = lambda M: cm.zmat_lit([[int(v) for v in r] for r in M])
        emb_terms.append(f'({m}%nat, {n}%nat, ({", ".join(cm.zmat_lit(c) for c in qx.comps(A))}), {z(RE)}, {z(RP)}, ({", ".join(cm.zmat_lit(c) for c in qx.comps(qx.to_int(RC) or A))}))')
        split_terms.append(f'({m}%nat, {n}%nat, {z(fr(S))}, ' + ', '.join(z(fr(p)) for p in parts) + ')')
        if m == n:
            try: M = utils.quaternion_to_complex_adjoint(An)
            except Exception as e: viol('C02:adjoint:raises', f'adjoint raised {e!r}', A); return
            are, aim = fr(M.real), fr(M.imag); rre, rim = adj_ref(A)
            if are != rre or aim != rim: viol('C02:adjoint:layout', 'complex adjoint differs from [[C, D], [-conj D, conj C]]', A, (are, aim), (rre, rim))
            B = qx.rand_int(rng, n, n, -5, 5); MB = utils.quaternion_to_complex_adjoint(qx.to_np(B))
            P = M @ MB; pre, pim = adj_ref(qx.mm(A, B))
            if fr(P.real) != pre or fr(P.imag) != pim: viol('C02:adjoint:multiplicative', 'Adj(A) Adj(B) != Adj(AB)', A)
            Hm = utils.quaternion_to_complex_adjoint(qx.to_np(qx.herm(A)))
            if fr(Hm.real) != rT(are) or fr(Hm.imag) != [[-v for v in r] for r in rT(aim)]: viol('C02:adjoint:herm', 'Adj(A^H) != Adj(A)^H', A)
            if sum(v * v for r in are for v in r) + sum(v * v for r in aim for v in r) != 2 * f2: viol('C02:adjoint:frob', '||Adj(A)||_F^2 != 2 ||A||_F^2', A)
            adj_terms.append(f'({n}%nat, ({", ".join(cm.zmat_lit(c) for c in qx.comps(A))}), {z(are)}, {z(aim)})')
            # every value of the axis option that the routine ACCEPTS must give a multiplicative, *-preserving embedding (the pinned tree
            # rejects everything but 'x': NotImplementedError / ValueError = no claim)
            for ax in ('y', 'z', 'w', 'X'):
                try: Ma = utils.quaternion_to_complex_adjoint(An, axis=ax); Mb = utils.quaternion_to_complex_adjoint(qx.to_np(B), axis=ax); Mab = utils.quaternion_to_complex_adjoint(qx.to_np(qx.mm(A, B)), axis=ax)
                except (NotImplementedError, ValueError): continue
                Pa = Ma @ Mb
                if fr(Pa.real) != fr(Mab.real) or fr(Pa.imag) != fr(Mab.imag): viol(f'C02:adjoint:axis={ax}:multiplicative', f'the complex adjoint accepts axis={ax!r} but Adj(A) Adj(B) != Adj(AB)', A)
                Mh = utils.quaternion_to_complex_adjoint(qx.to_np(qx.herm(A)), axis=ax)
                if fr(Mh.real) != rT(fr(Ma.real)) or fr(Mh.imag) != [[-v for v in r] for r in rT(fr(Ma.imag))]: viol(f'C02:adjoint:axis={ax}:herm', f'the complex adjoint accepts axis={ax!r} but Adj(A^H) != Adj(A)^H', A)
    for cls, A in gen_inputs(ctx):
        try: one(cls, A)
        except Exception as e: viol('C02:raises:' + type(e).__name__, f'an embedding, its inverse or a law check raised {e!r} on a {len(A)}x{len(A[0])} integer matrix', A)
    # scalar Realp and non-integer bit-for-bit round trip
    for _ in range(40 if ctx.quick() else 400):
        a = [rng.randint(-9, 9) for _ in range(4)]
        o = fr(utils.Realp(*[float(x) for x in a]))
        if o != [[blk(Q(*a), i, j) for j in range(4)] for i in range(4)]: viol('C02:Realp:scalar', 'scalar Realp differs from the 4x4 block', [[Q(*a)]])
        rps_terms.append('(' + ', '.join(cm.zlit(x) for x in a) + ', ' + cm.zmat_lit([[int(v) for v in r] for r in o]) + ')')
        m, n = rng.randint(1, 4), rng.randint(1, 4)
        arr = np.array([[[rng.uniform(-1, 1) * 10.0 ** rng.randint(-300, 300) for _ in range(4)] for _ in range(n)] for _ in range(m)])
        Af = quaternion.as_quat_array(arr)
        back = utils.real_contract(utils.real_expand(Af), m, n)
        if quaternion.as_float_array(back).tobytes() != arr.tobytes():
            viol('C02:roundtrip:bits', 'contract(expand(A)) is not bit-identical to A on float data', qx.from_np(Af))
        ctx.count(('bits', arr.tobytes()), True)
    if info is not None:
        for name, terms, fn in (('emb', emb_terms, 'check_emb'), ('adj', adj_terms, 'check_adj'), ('split', split_terms, 'check_split'), ('rps', rps_terms, 'check_rps')):
            res = cm.run_cases(ctx, 'cases_' + name, HEADER, terms, fn, shard=150)
            if res is not None:
                ctx.cov['traces_validated_against_impl'] += len(res)
                bad = [i for i, r in enumerate(res) if not r]
                if bad: ctx.broken.append(f'generated model and implementation disagree on {len(bad)} {name} case(s), first: {terms[bad[0]][:300]}')
    ctx.cov['rule'] = ('basis units at every position of every shape up to 3x3 (5x5 thorough, units for m*n<=9), tagged matrices with pairwise distinct integer components, random integer matrices; '
                       'each compared bit-for-bit with an independent definition of the embedding, with the generated Gallina model, and through the homomorphism laws on the implementation itself; '
                       'float matrices over 600 decades for the bit-for-bit round trip. Distinct = new canonical input.')
    return cm.finish(ctx, 'proof', '', ASSUME)

ASSUME = ['integer inputs keep binary64 arithmetic exact', 'NumPy slicing / stacking semantics as given in NumpySem (cross-checked by execution)']
