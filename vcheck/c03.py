"""C03: Newton-Schulz solvers follow the spectral recurrence and converge monotonically."""
import os, sys, math, itertools, io, contextlib, warnings
from fractions import Fraction
from . import common as cm
from . import qexact as qx
from .qexact import Q

HEADER = """From Coq Require Import ZArith QArith Qabs Qcanon List Bool Arith. Import ListNotations.
From QV Require Import CRing Sums Quat Mat.
From QVM Require Import NS LUexec.
Definition qq (a b c d : Q) : quat QcR := @mkQ QcR (Q2Qc a) (Q2Qc b) (Q2Qc c) (Q2Qc d).
Definition closeQ (x y : Q) : bool := Qle_bool (Qabs (x - y)) ((1 # 100000000) * Qabs y + (1 # 1000000000000000000)).
Definition closeq (a b : quat QcR) : bool :=
  let t x y := Qle_bool (Qabs (this x - this y)) ((1 # 1000000000) * (1 + Qabs (this y))) in
  t (qw a) (qw b) && t (qx a) (qx b) && t (qy a) (qy b) && t (qz a) (qz b).
Definition close_mat (r c : nat) (M : qmat QcR) (L : list (list (quat QcR))) : bool :=
  forallb (fun i => forallb (fun j => closeq (nth j (nth i L []) q0Q) (M i j)) (seq 0 c)) (seq 0 r).
Definition alphaQ (m n : nat) (A : qmat QcR) : Qc := let f := frob2 m n A in if Qc_eq_dec f 0 then 0%Qc else (1 / f)%Qc.
Fixpoint hist_ok (model : list (Qc * (Qc * Qc * Qc * Qc))) (impl : list (Q * Q * Q * Q * Q)) : bool :=
  match model, impl with
  | [], [] => true
  | (c, (e1, e2, e3, e4)) :: m', (ic, i1, i2, i3, i4) :: i' =>
      closeQ ic (this c) && closeQ i1 (this e1) && closeQ i2 (this e2) && closeQ i3 (this e3) && closeQ i4 (this e4) && hist_ok m' i'
  | _, _ => false
  end.
Fixpoint hist3_ok (model : list (Qc * Qc * Qc * Qc)) (impl : list (Q * Q * Q * Q)) : bool :=
  match model, impl with
  | [], [] => true
  | (e1, e2, e3, e4) :: m', (i1, i2, i3, i4) :: i' => closeQ i1 (this e1) && closeQ i2 (this e2) && closeQ i3 (this e3) && closeQ i4 (this e4) && hist3_ok m' i'
  | _, _ => false
  end.
(* damped: (m, n, gamma, K, A, implementation history (cov^2, E1^2..E4^2), implementation X) *)
Definition check_damped (c : nat * nat * Q * nat * list (list (quat QcR)) * list (Q * Q * Q * Q * Q) * list (list (quat QcR))) : bool :=
  let '(m, n, g, k, A, h, X) := c in
  let Am := qof_listQ A in
  let '(hist, Xf) := damped QcR retabQ m n (Q2Qc g) (alphaQ m n Am) Am k in
  hist_ok hist h && close_mat n m Xf X.
Definition check_third (c : nat * nat * nat * list (list (quat QcR)) * list (Q * Q * Q * Q) * list (list (quat QcR))) : bool :=
  let '(m, n, k, A, h, X) := c in
  let Am := qof_listQ A in
  let '(hist, Xf) := third QcR retabQ m n (Q2Qc 3) (alphaQ m n Am) Am k in
  hist3_ok hist h && close_mat n m Xf X.
"""
def ql(q): return '(qq ' + ' '.join((f'({Fraction(c).numerator} # {Fraction(c).denominator})' if Fraction(c).numerator >= 0 else f'(({Fraction(c).numerator}) # {Fraction(c).denominator})') for c in q.t()) + ')'
def qmat_lit(A): return '[' + '; '.join('[' + '; '.join(ql(a) for a in r) + ']' for r in A) + ']'
def Ql(x):
    x = Fraction(x); return f'({x.numerator} # {x.denominator})' if x >= 0 else f'(({x.numerator}) # {x.denominator})'
def sq(v): return Fraction(float(v)) ** 2

def spectral_problem(rng, m, n, svals):
    """A = U diag(s) V^H with exactly unitary rational U (m x m), V (n x n); returns A, U_r, V_r"""
    r = len(svals); U = qx.rand_unitary(rng, m, 1); V = qx.rand_unitary(rng, n, 1)
    S = qx.zeros(m, n)
    for i, s in enumerate(svals): S[i][i] = Q(Fraction(s))
    return qx.mm(qx.mm(U, S), qx.herm(V)), U, V

def run(ctx):
    cm.setup_impl_path()
    for b in cm.audit(cm.coq_sources() + [os.path.join(cm.ROOT, 'props', 'C03.v')]): ctx.broken.append('audit: ' + b)
    cm.prove(ctx, 'C03.v')
    try:
        import numpy as np, quaternion, utils, solver
        from .c01 import mk_sparse
    except Exception as e:
        ctx.broken.append(f'implementation does not import: {e!r}'); return cm.finish(ctx, 'proof', '', ASSUME)
    warnings.simplefilter('ignore')
    def viol(sig, what, inp, obs='', exp=''):
        ctx.violations.append({'sig': sig, 'what': what, 'input': inp, 'observed': str(obs)[:300], 'expected': str(exp)[:300], 'oracle': 'exact spectral model t <- phi(t) in rational arithmetic'})
    rng = ctx.rng
    dterms, tterms = [], []
    problems = []
    shapes = [(1, 1), (2, 2), (3, 2), (2, 3), (1, 3), (3, 1), (3, 3)] + ([] if ctx.quick() else [(4, 3), (3, 4), (4, 4), (2, 4), (4, 1)])
    for (m, n) in shapes:
        r = min(m, n)
        specs = [[2, 1, Fraction(1, 2)][:r], [3] * r, ([5, 1] + [0] * r)[:r] if r >= 2 else [2], [0] * r]
        if not ctx.quick(): specs += [[1000, 1, Fraction(1, 100)][:r], [2, 2, 1][:r]]
        for sv in specs:
            sv = sorted([Fraction(s) for s in sv], reverse=True)
            A, U, V = spectral_problem(rng, m, n, [s for s in sv])
            problems.append(('spectral', m, n, A, sv, U, V))
        problems.append(('integer', m, n, qx.rand_int(rng, m, n, -2, 2), None, None, None))
        if (m, n) in ((2, 2), (3, 2), (2, 3)) or not ctx.quick():
            for e in (-40, 40):          # tiny and huge overall scale (exact powers of two)
                sv = [Fraction(2) ** e * v for v in [2, 1, Fraction(1, 2)][:r]]
                A, U, V = spectral_problem(rng, m, n, sv); problems.append((f'spectral-scaled-2^{e}', m, n, A, sv, U, V))
    gammas = [Fraction(1, 2), Fraction(1)] if ctx.quick() else [Fraction(1, 4), Fraction(1, 2), Fraction(3, 4), Fraction(1)]
    for (cls, m, n, A, sv, U, V) in problems:
        An = qx.to_np(A); f2 = qx.frob2(A); nfl = 1e-12 * float(utils.quat_frobenius_norm(An))        # rounding-noise floor, relative to ||A||_F
        inp0 = {'class': cls, 'shape': [m, n], 'A': [[[str(c) for c in a.t()] for a in r] for r in A], 'singular_values': [str(s) for s in sv] if sv else None}
        for g in gammas:
            K = 3 if ctx.quick() else 4
            for variant in (['dense', 'sparse'] if (m, n) in ((3, 2), (2, 3), (2, 2)) else ['dense']):
                inp = dict(inp0, gamma=str(g), K=K, storage=variant)
                arg = An if variant == 'dense' else mk_sparse(utils, A)
                try:
                    X, res, cov = solver.NewtonSchulzPseudoinverse(gamma=float(g), max_iter=K, tol=0.0).compute(arg)
                except Exception as e:
                    viol('C03:damped:raises', f'damped Newton-Schulz raised {e!r}', inp); continue
                Xf = quaternion.as_float_array(X)
                if not np.all(np.isfinite(Xf)): viol('C03:damped:nonfinite' + (':zero' if f2 == 0 else ''), 'damped Newton-Schulz returned NaN/inf', inp); continue
                Xe = qx.from_np(X)
                E1 = [float(v) for v in res['AXA-A']]
                if any(E1[i + 1] > E1[i] * (1 + 1e-9) + 1e-13 + nfl for i in range(len(E1) - 1)): viol('C03:damped:monotone', '||A X A - A||_F increases', inp, E1)
                if len(E1) != K or len(cov) != K: viol('C03:damped:history-length' + (':zero' if f2 == 0 else ''), 'history length differs from the iteration budget (tol = 0)', inp, (len(E1), len(cov)))
                if X.shape != (n, m): viol('C03:damped:shape' + (':zero' if f2 == 0 else ''), f'the returned matrix is {X.shape[0]} x {X.shape[1]}, the pseudoinverse of a {m} x {n} matrix is {n} x {m}', inp, X.shape, (n, m)); continue
                if not E1: continue
                # histories are the true values of the returned iterate
                AX = qx.mm(A, Xe); XA = qx.mm(Xe, A)
                true_last = [qx.frob2(qx.sub(qx.mm(AX, A), A)), qx.frob2(qx.sub(qx.mm(XA, Xe), Xe)), qx.frob2(qx.sub(AX, qx.herm(AX))), qx.frob2(qx.sub(XA, qx.herm(XA)))]
                nX = float(utils.quat_frobenius_norm(X))
                for key, tv, floor in zip(('AXA-A', 'XAX-X', 'AX-herm', 'XA-herm'), true_last, (nfl, 1e-12 * nX, 1e-12, 1e-12)):
                    if res[key] and abs(sq(res[key][-1]) - tv) > Fraction(1, 10 ** 8) * tv + Fraction(1, 10 ** 20) + Fraction(floor) ** 2: viol(f'C03:damped:history:{key}', 'last reported residual is not the residual of the returned X', inp, float(res[key][-1]) ** 2, float(tv))
                # spectral model
                if sv is not None:
                    r = len(sv); tot = sum(s * s for s in sv)
                    ts = [(s * s / tot if tot else Fraction(0)) for s in sv]
                    for _ in range(K): ts = [t * (1 + g * (1 - t)) for t in ts]
                    D = qx.zeros(n, m)
                    for i, (s, t) in enumerate(zip(sv, ts)):
                        if s != 0: D[i][i] = Q(t / s)
                    Xs = qx.mm(qx.mm(V, D), qx.herm(U))
                    if qx.maxabs(qx.sub(Xs, Xe)) > Fraction(1, 10 ** 8) * max(1, qx.maxabs(Xs)): viol('C03:damped:recurrence', f'X_{K} is not V diag(t_k/s) U^H with t <- t(1+gamma(1-t))', inp, float(qx.maxabs(qx.sub(Xs, Xe))))
                    e1 = sum(s * s * (1 - t) ** 2 for s, t in zip(sv, ts))
                    if abs(sq(E1[-1]) - e1) > Fraction(1, 10 ** 7) * e1 + Fraction(1, 10 ** 18) * min(1, tot) + Fraction(nfl) ** 2: viol('C03:damped:residual-formula', '||AXA-A||^2 != sum s^2 (1-t)^2', inp, E1[-1] ** 2, float(e1))
                ctx.count(('damped', cls, m, n, str(g), variant, [a.t() for row in A for a in row]), K >= 2, sample=dict(inp0, gamma=str(g), K=K) if cls == 'spectral' and (m, n) == (3, 2) and len(ctx.cov['samples']) < 2 else None)
                if variant == 'dense' and m * n <= 9 and cls != 'spectral' + '-scaled' and not cls.startswith('spectral-scaled') and (f2 == 0 or max(len(str(Fraction(c).denominator)) for row in A for a in row for c in a.t()) < 12):
                    h = '[' + '; '.join('(' + ', '.join(Ql(sq(x)) for x in (cov[i], res['AXA-A'][i], res['XAX-X'][i], res['AX-herm'][i], res['XA-herm'][i])) + ')' for i in range(K)) + ']'
                    dterms.append(f'({m}%nat, {n}%nat, {Ql(g)}, {K}%nat, {qmat_lit(A)}, {h}, {qmat_lit(Xe)})')
        # tracking off: same iterates
        X1, _, c1 = solver.NewtonSchulzPseudoinverse(gamma=0.5, max_iter=3, tol=0.0, compute_residuals=False).compute(An)
        X2, _, c2 = solver.NewtonSchulzPseudoinverse(gamma=0.5, max_iter=3, tol=0.0, compute_residuals=True).compute(An)
        if quaternion.as_float_array(X1).tobytes() != quaternion.as_float_array(X2).tobytes() and f2 != 0: viol('C03:damped:tracking', 'iterates depend on residual tracking', inp0)
        # third order
        K3 = 2 if ctx.quick() else 3
        try: T, res3, _ = solver.HigherOrderNewtonSchulzPseudoinverse(max_iter=K3, tol=0.0).compute(An)
        except Exception as e: viol('C03:third:raises', f'third-order Newton-Schulz raised {e!r}', inp0); continue
        Te = qx.from_np(T) if np.all(np.isfinite(quaternion.as_float_array(T))) else None
        if Te is None: viol('C03:third:nonfinite', 'third-order Newton-Schulz returned NaN/inf', inp0); continue
        if T.shape != (n, m): viol('C03:third:shape' + (':zero' if f2 == 0 else ''), f'the returned matrix is {T.shape[0]} x {T.shape[1]}, the pseudoinverse of a {m} x {n} matrix is {n} x {m}', inp0, T.shape, (n, m)); continue
        if len(res3['AXA-A']) != K3: viol('C03:third:history-length' + (':zero' if f2 == 0 else ''), 'history length differs from the iteration budget (tol = 0)', inp0, len(res3['AXA-A']))
        E1 = [float(v) for v in res3['AXA-A']]
        if any(E1[i + 1] > E1[i] * (1 + 1e-9) + 1e-13 + nfl for i in range(len(E1) - 1)): viol('C03:third:monotone', '||A X A - A||_F increases (third order)', inp0, E1)
        if sv is not None:
            tot = sum(s * s for s in sv); ts = [(s * s / tot if tot else Fraction(0)) for s in sv]
            for _ in range(K3): ts = [1 - (1 - t) ** 3 for t in ts]
            D = qx.zeros(n, m)
            for i, (s, t) in enumerate(zip(sv, ts)):
                if s != 0: D[i][i] = Q(t / s)
            Xs = qx.mm(qx.mm(V, D), qx.herm(U))
            if qx.maxabs(qx.sub(Xs, Te)) > Fraction(1, 10 ** 8) * max(1, qx.maxabs(Xs)): viol('C03:third:recurrence', 'third-order iterate is not V diag(t_k/s) U^H with t <- 1-(1-t)^3', inp0, float(qx.maxabs(qx.sub(Xs, Te))))
        ctx.count(('third', cls, m, n, [a.t() for row in A for a in row]), True)
        # the iteration budget is the number of steps taken, 0 included: with tol = 0 the histories have exactly that many entries and
        # budget 0 returns the starting matrix A^H / ||A||_F^2 itself
        if f2 != 0:
            X0 = [[Q(*[Fraction(c) / f2 for c in a.t()]) for a in r] for r in qx.herm(A)]
            for nm, mk in (('third', lambda kb: solver.HigherOrderNewtonSchulzPseudoinverse(max_iter=kb, tol=0.0)), ('damped', lambda kb: solver.NewtonSchulzPseudoinverse(gamma=1.0, max_iter=kb, tol=0.0))):
                for kb in (0, 1):
                    try: Xb, resb, covb = mk(kb).compute(An)
                    except Exception as e: viol(f'C03:{nm}:budget:raises', f'{nm} solver raised {e!r} for an iteration budget of {kb}', dict(inp0, max_iter=kb)); continue
                    if len(resb['AXA-A']) != kb or len(covb) != kb: viol(f'C03:{nm}:budget:{kb}', f'an iteration budget of {kb} (tol = 0) produced {len(resb["AXA-A"])} residual entries and {len(covb)} step entries', dict(inp0, max_iter=kb), (len(resb['AXA-A']), len(covb)))
                    elif kb == 0 and np.all(np.isfinite(quaternion.as_float_array(Xb))) and qx.maxabs(qx.sub(qx.from_np(Xb), X0)) > Fraction(1, 10 ** 9) * max(Fraction(1, 10 ** 300), qx.maxabs(X0)):
                        viol(f'C03:{nm}:budget:0:start', f'budget 0 does not return the starting matrix A^H / ||A||_F^2', dict(inp0, max_iter=0), float(qx.maxabs(qx.sub(qx.from_np(Xb), X0))))
        if m * n <= 9 and not cls.startswith('spectral-scaled') and (f2 == 0 or max(len(str(Fraction(c).denominator)) for row in A for a in row for c in a.t()) < 12):
            h = '[' + '; '.join('(' + ', '.join(Ql(sq(res3[k][i])) for k in ('AXA-A', 'XAX-X', 'AX-herm', 'XA-herm')) + ')' for i in range(K3)) + ']'
            tterms.append(f'({m}%nat, {n}%nat, {K3}%nat, {qmat_lit(A)}, {h}, {qmat_lit(Te)})')
        # stop rule: stops at the first k whose maximal residual is below tol, returns that iterate, bound on the distance to A^+
        if sv is not None and all(s != 0 for s in sv) and cls == 'spectral':
            tol = 1e-3
            X, res, cov = solver.NewtonSchulzPseudoinverse(gamma=1.0, max_iter=200, tol=tol).compute(An)
            k = len(res['AXA-A']); mx = [max(res[key][i] for key in res) for i in range(k)]
            if not (mx[-1] < tol and all(v >= tol for v in mx[:-1])): viol('C03:damped:stop-rule', 'does not stop at the first iterate whose residuals are below tol', inp0, mx[-3:])
            D = qx.zeros(n, m)
            for i, s in enumerate(sv): D[i][i] = Q(1 / s)
            Ap = qx.mm(qx.mm(V, D), qx.herm(U)); err2 = qx.frob2(qx.sub(qx.from_np(X), Ap)); smin = min(sv)
            if err2 > (Fraction(tol) / (smin * smin)) ** 2 * Fraction(101, 100): viol('C03:damped:stop-bound', '||X - A^+||_F > tol / s_min^2 after stopping on tol', inp0, float(err2) ** 0.5, float(Fraction(tol) / (smin * smin)))
            ctx.count(('stop', m, n, [str(s) for s in sv]), True)
    for name, terms, fn in (('damped', dterms, 'check_damped'), ('third', tterms, 'check_third')):
        res = cm.run_cases(ctx, 'cases_' + name, HEADER, terms, fn, shard=6, timeout=900)
        if res is not None:
            ctx.cov['traces_validated_against_impl'] += len(res)
            bad = [i for i, r in enumerate(res) if not r]
            if bad: ctx.broken.append(f'{name} Newton-Schulz model and implementation disagree on {len(bad)} of {len(res)} trajectory(ies), first: {terms[bad[0]][:400]}')
    for (m, n, sv) in ((3, 2, [Fraction(2), Fraction(1)]), (3, 3, [Fraction(3), Fraction(2), Fraction(1)]), (2, 4, [Fraction(5), Fraction(4)]), (4, 4, [Fraction(2), Fraction(1), Fraction(0), Fraction(0)])):
        At, _, _ = spectral_problem(rng, m, n, sv); Atn = qx.to_np(At); nrm = float(utils.quat_frobenius_norm(Atn))
        for tolv in (1e-4, 1e-9):
            for nm, mk in (('third', lambda: solver.HigherOrderNewtonSchulzPseudoinverse(max_iter=60, tol=tolv)), ('damped', lambda: solver.NewtonSchulzPseudoinverse(gamma=1.0, max_iter=400, tol=tolv))):
                inp = {'solver': nm, 'shape': [m, n], 'singular_values': [str(x) for x in sv], 'tol': tolv}
                try: Xt, rest, _ = mk().compute(Atn)
                except Exception as e: viol(f'C03:{nm}:tolerance-stop:raises', f'{nm} solver raised {e!r} with tol > 0', inp); continue
                tr = float(utils.quat_frobenius_norm(utils.quat_matmat(utils.quat_matmat(Atn, Xt), Atn) - Atn))
                hist = [float(v) for v in rest['AXA-A']]
                if hist and abs(tr - hist[-1]) > 1e-9 * nrm + 1e-6 * hist[-1]: viol(f'C03:{nm}:tolerance-stop:history', f'after a tolerance stop the last reported ||AXA-A|| ({hist[-1]:.3e}) is not the residual of the returned X ({tr:.3e})', inp, hist[-1], tr)
                ctx.count(('tolstop', nm, m, n, tolv), True)
    # late entries of the step (covariance) history: entry k is ||X_k A - I||_F (resp. ||A X_k - I||_F) of the iterate it was taken from, also
    # when that value is far below sqrt(machine epsilon); and a tolerance stop without residual tracking returns X within tol / s_min^2
    for (m, n, sv) in ((3, 2, [Fraction(2), Fraction(1)]), (4, 7, [Fraction(3), Fraction(2), Fraction(3, 2), Fraction(1)]), (5, 5, [Fraction(2), Fraction(3, 2), Fraction(1), Fraction(1), Fraction(1, 2)])):
        At, Ut, Vt = spectral_problem(rng, m, n, sv); Atn = qx.to_np(At)
        Dp = qx.zeros(n, m)
        for i, s_ in enumerate(sv): Dp[i][i] = Q(1 / s_)
        Apn = qx.to_np(qx.mm(qx.mm(Vt, Dp), qx.herm(Ut)))
        eye = np.zeros((min(m, n), min(m, n), 4)); eye[:, :, 0] = np.eye(min(m, n)); eye = quaternion.as_quat_array(eye)
        for gam in (0.5, 0.7):
            for K in ((24, 34) if ctx.quick() else (18, 24, 30, 36, 44)):
                inp = {'solver': 'damped', 'shape': [m, n], 'singular_values': [str(x) for x in sv], 'gamma': gam, 'max_iter': K, 'tol': 0.0}
                try:
                    _, _, covK = solver.NewtonSchulzPseudoinverse(gamma=gam, max_iter=K, tol=0.0, compute_residuals=False).compute(Atn)
                    Xp, _, _ = solver.NewtonSchulzPseudoinverse(gamma=gam, max_iter=K - 1, tol=0.0, compute_residuals=False).compute(Atn)
                except Exception as e: viol('C03:damped:late-history:raises', f'damped solver raised {e!r}', inp); continue
                if len(covK) != K: viol('C03:damped:late-history:length', 'history length differs from the iteration budget (tol = 0)', inp, len(covK)); continue
                prod = utils.quat_matmat(Xp, Atn) if m >= n else utils.quat_matmat(Atn, Xp)
                tv = float(np.linalg.norm(quaternion.as_float_array(prod - eye)))
                if abs(float(covK[-1]) - tv) > 1e-6 * tv + 1e-14: viol('C03:damped:late-history', f'step-history entry {K} ({float(covK[-1]):.3e}) is not the deviation of the iterate it was taken from ({tv:.3e})', inp, float(covK[-1]), tv)
                ctx.count(('late-history', m, n, gam, K), True)
            for tolv in (1e-9, 1e-11):
                inp = {'solver': 'damped', 'shape': [m, n], 'singular_values': [str(x) for x in sv], 'gamma': gam, 'tol': tolv, 'compute_residuals': False}
                try: Xs_, _, covs = solver.NewtonSchulzPseudoinverse(gamma=gam, max_iter=400, tol=tolv, compute_residuals=False).compute(Atn)
                except Exception as e: viol('C03:damped:tolerance-stop:untracked:raises', f'damped solver raised {e!r}', inp); continue
                err = float(np.linalg.norm(quaternion.as_float_array(Xs_ - Apn))); smin = float(min(sv))
                if len(covs) < 400 and err > 1.01 * tolv / smin ** 2 + 1e-13: viol('C03:damped:tolerance-stop:untracked', f'stopped on its tolerance after {len(covs)} steps with ||X - A^+||_F = {err:.3e} > tol / s_min^2 = {tolv / smin ** 2:.3e}', inp, err, tolv / smin ** 2)
                ctx.count(('tolstop-untracked', m, n, gam, tolv), True)
    _A, _, _ = spectral_problem(rng, 3, 2, [Fraction(2), Fraction(1)]); _A = qx.to_np(_A)
    cm.layout_sweep(ctx, qx, 'C03', 'NewtonSchulzPseudoinverse', lambda X: solver.NewtonSchulzPseudoinverse(gamma=0.5, max_iter=4, tol=0.0).compute(X)[0], _A, {'shape': [3, 2]})
    cm.layout_sweep(ctx, qx, 'C03', 'HigherOrderNewtonSchulzPseudoinverse', lambda X: solver.HigherOrderNewtonSchulzPseudoinverse(max_iter=3, tol=0.0).compute(X)[0], _A, {'shape': [3, 2]})
    ctx.cov['rule'] = ('matrices U diag(s) V^H with exactly unitary rational U, V and prescribed spectra (distinct, repeated, rank-deficient, zero' + ('' if ctx.quick() else ', wide dynamic range') + ') plus integer matrices, shapes '
                       + str(shapes) + f'; gamma in {[str(g) for g in gammas]}; every history entry (squared) and the final iterate compared with the exact Qc trajectory model and with the closed-form spectral recurrence; '
                       'monotonicity, truthfulness of the last history entry, stop rule and stop bound on the implementation. Non-trivial = at least two iterations.')
    return cm.finish(ctx, 'proof', '', ASSUME)

ASSUME = ['existence of the quaternion SVD is a hypothesis of the recurrence theorems (inputs are built from prescribed factorisations)',
          'binary64 rounding: trajectories compared with the exact rational model within 1e-8 (histories) / 1e-9 (iterates)', 'scalar theorems use the stdlib real axioms']
