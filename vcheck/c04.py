"""C04: Q-GMRES returns a true solution and truthful convergence information."""
import os, sys, math, io, contextlib, warnings
from fractions import Fraction
from . import common as cm
from . import qexact as qx
from .qexact import Q

HEADER = """From Coq Require Import QArith List Bool Arith. Import ListNotations.
From QVM Require Import GmresCtl.
Definition mk (r : Q) (k : nat) : cycle := {| c_res := r; c_meff := k |}.
(* (tol, maxit, b_is_zero, cycles, observed: returned cycle, iterations, history length, converged) *)
Definition check_ctl (c : Q * nat * bool * list cycle * nat * nat * nat * bool) : bool :=
  let '(tol, maxit, bz, cs, rc, it, hl, cv) := c in
  let i := solve tol maxit bz cs in
  Nat.eqb (ret_cycle i) rc && Nat.eqb (iterations i) it && Nat.eqb (length (history i)) hl && Bool.eqb (converged i) cv.
"""
def Ql(x):
    x = Fraction(x); return f'({x.numerator} # {x.denominator})' if x >= 0 else f'(({x.numerator}) # {x.denominator})'

def run(ctx):
    cm.setup_impl_path()
    for b in cm.audit(cm.coq_sources() + [os.path.join(cm.ROOT, 'props', 'C04.v'), os.path.join(cm.ROOT, 'props', 'C04g.v')]): ctx.broken.append('audit: ' + b)
    cm.prove(ctx, 'C04.v')
    # the restart cycle of _GMRESQsparse, regenerated from the source (one accepted statement structure, fail-closed)
    sys.path.insert(0, os.path.join(cm.ROOT, 'qtrans'))
    try:
        import gen_c04
        txt, _ = gen_c04.generate(cm.REPO)
        open(os.path.join(ctx.build, 'Gen_C04.v'), 'w').write(txt)
        ctx.obligations.append(('translate:solver.py(QGMRESSolver._GMRESQsparse: restart cycle)', True, ''))
        cm.prove(ctx, 'C04g.v', ['Gen_C04.v'])
    except Exception as e:
        ctx.obligations.append(('translate:solver.py(_GMRESQsparse)', False, repr(e)))
        ctx.broken.append(f'qtrans cannot translate the restart cycle of _GMRESQsparse any more: {e!r}')
    try:
        import numpy as np, quaternion, utils, solver
        from .c01 import mk_sparse
    except Exception as e:
        ctx.broken.append(f'implementation does not import: {e!r}'); return cm.finish(ctx, 'proof', '', ASSUME)
    warnings.simplefilter('ignore')
    def viol(sig, what, inp, obs='', exp=''):
        ctx.violations.append({'sig': sig, 'what': what, 'input': inp, 'observed': str(obs)[:300], 'expected': str(exp)[:300], 'oracle': 'true residual in float64 and exact rational minimal residual over the Krylov space (normal equations in the real embedding)'})
    rng = ctx.rng
    fro = utils.quat_frobenius_norm
    def solve(A, b, **kw):
        with contextlib.redirect_stdout(io.StringIO()): return solver.QGMRESSolver(**kw).solve(A, b)
    def relres(A, x, b):
        nb = fro(b); return fro(utils.quat_matmat(A, x) - b) / nb if nb else fro(x)
    # ---- exact minimal residual over x0 + K_m(A, r0) (right quaternion span), Fractions -------------------
    def rblock(v):      # N x 1 exact quaternion column -> 4N x 4 real matrix whose column space is v * H (right multiples)
        N = len(v); M = [[Fraction(0)] * 4 for _ in range(4 * N)]
        units = [Q(1), Q(0, 1), Q(0, 0, 1), Q(0, 0, 0, 1)]
        for c, u in enumerate(units):
            for i in range(N):
                t = (v[i][0] * u).t()
                for k in range(4): M[4 * i + k][c] = Fraction(t[k])
        return M
    def rvec(v): return [Fraction(c) for q in v for c in q[0].t()]
    def lstsq_min(Mcols, rhs):
        """min ||rhs - M y||^2 by exact normal equations with Gaussian elimination (rank-revealing)"""
        p = len(rhs); qn = len(Mcols[0]) if Mcols else 0
        G = [[sum(Mcols[i][a] * Mcols[i][b] for i in range(p)) for b in range(qn)] + [sum(Mcols[i][a] * rhs[i] for i in range(p))] for a in range(qn)]
        piv = []; r = 0
        for c in range(qn):
            pr = next((i for i in range(r, qn) if G[i][c] != 0), None)
            if pr is None: continue
            G[r], G[pr] = G[pr], G[r]; d = G[r][c]; G[r] = [v / d for v in G[r]]
            for i in range(qn):
                if i != r and G[i][c] != 0: f = G[i][c]; G[i] = [a - f * b for a, b in zip(G[i], G[r])]
            piv.append(c); r += 1
        y = [Fraction(0)] * qn
        for i, c in enumerate(piv): y[c] = G[i][qn]
        res = [rhs[i] - sum(Mcols[i][a] * y[a] for a in range(qn)) for i in range(p)]
        return sum(v * v for v in res)
    def krylov_min(A, b, x0, m):
        r0 = qx.sub(b, qx.mm(A, x0)); cols = None; v = r0
        M = [[] for _ in range(4 * len(b))]
        for j in range(m):
            v = qx.mm(A, v)                  # residual of x0 + sum_j (A^j r0) y_j  is  r0 - sum_j (A^(j+1) r0) y_j
            blk = rblock(v)
            for i in range(len(M)): M[i] += blk[i]
        return lstsq_min(M, rvec(r0))
    # ---- system classes ----------------------------------------------------------------------------------------
    def systems(n):
        out = []
        I = qx.eye(n)
        out.append(('identity', I)); out.append(('scaled-identity', qx.scale(Fraction(5, 2), I)))
        if n >= 2:
            u = qx.rand_int(rng, n, 1, -1, 1); v = qx.rand_int(rng, 1, n, -1, 1); out.append(('identity+rank1', qx.add(qx.scale(3, I), qx.mm(u, v))))
            D = qx.eye(n)
            for i in range(n): D[i][i] = Q([2, 2, 5, 5, 7][i % 5])
            out.append(('repeated-diagonal', D))
            U = qx.rand_unitary(rng, n, 1); out.append(('unitary', U))
            Hm = qx.rand_int(rng, n, n, -2, 2); Hm = qx.add(qx.add(Hm, qx.herm(Hm)), qx.scale(9, I)); out.append(('hermitian', Hm))
            T = qx.rand_int(rng, n, n, -2, 2)
            for i in range(n):
                for j in range(n):
                    if j < i: T[i][j] = Q()
                T[i][i] = Q(3 + i, 1, 0, 0)
            out.append(('triangular', T))
        G = qx.add(qx.rand_int(rng, n, n, -3, 3), qx.scale(7, I)); out.append(('generic', G))
        if n >= 2:
            # exact stagnation: <v1, A v1> = 0 at the first Arnoldi step (zero diagonal entry of the reduced Hessenberg matrix with a non-zero sub-diagonal)
            units = [Q(1), Q(0, 1, 0, 0), Q(0, 0, 1, 0), Q(0, 0, 0, 1)]
            out.append(('cyclic-shift', [[units[(i + j) % 4] if (i - j) % n == 1 else Q() for j in range(n)] for i in range(n)]))
            Ds = qx.zeros(n, n)
            for i in range(n): Ds[i][i] = Q((n // 2 - i) if i < n // 2 else -(i - n // 2 + (1 if n % 2 == 0 else 0)) or 1)
            out.append(('symmetric-spectrum-diagonal', Ds))
            Ex = qx.zeros(n, n)
            for i in range(n): Ex[i][n - 1 - i] = Q(0, 0, 1, 0) if i < n - 1 - i else (Q(0, 0, -1, 0) if i > n - 1 - i else Q(1))
            out.append(('quaternion-exchange', Ex))
        return out
    ctl_terms = []
    nmax = 3 if ctx.quick() else 5
    for n in range(1, nmax + 1):
        for cls, A in systems(n):
            An = qx.to_np(A)
            rhs = [('random', qx.rand_int(rng, n, 1, -3, 3))]
            if cls in ('repeated-diagonal',): e = qx.zeros(n, 1); e[0][0] = Q(1); rhs.append(('eigenvector', e))
            if cls in ('cyclic-shift', 'quaternion-exchange'): e = qx.zeros(n, 1); e[0][0] = Q(1); rhs.append(('unit-vector', e))
            if cls == 'symmetric-spectrum-diagonal': rhs.append(('ones', [[Q(1)] for _ in range(n)]))
            rhs.append(('zero', qx.zeros(n, 1)))
            for bcls, b in rhs:
                if bcls == 'random' and all(q[0].is_zero() for q in b): b[0][0] = Q(1)
                bn = qx.to_np(b)
                for storage in (['dense', 'sparse'] if cls in ('generic', 'hermitian') else ['dense']):
                    Aarg = An if storage == 'dense' else mk_sparse(utils, A)
                    for prec in (['none', 'left_lu'] if cls in ('generic', 'triangular', 'identity+rank1', 'identity') else ['none']):
                        inp = {'class': cls, 'n': n, 'rhs': bcls, 'storage': storage, 'preconditioner': prec, 'A': [[[str(c) for c in a.t()] for a in r] for r in A], 'b': [[str(c) for c in q[0].t()] for q in b]}
                        try: x, info = solve(Aarg, bn, tol=1e-10, preconditioner=prec)
                        except Exception as e: viol(f'C04:raises:{cls}:{bcls}', f'Q-GMRES raised {e!r}', inp); continue
                        xf = quaternion.as_float_array(x)
                        if not np.all(np.isfinite(xf)): viol(f'C04:nonfinite:{bcls}', 'Q-GMRES returned NaN/inf', inp); continue
                        tr = relres(An, x, bn)
                        if bcls == 'zero':
                            if np.any(xf != 0): viol('C04:zero-rhs', 'b = 0 does not give x = 0', inp, xf.tolist())
                            ctl_terms.append(f'({Ql(Fraction(1, 10 ** 10))}, {n}%nat, true, [], 0%nat, {info["iterations"]}%nat, {len(info["residual_history"])}%nat, {str(bool(info["converged"])).lower()})')
                            ctx.count(('zero', cls, n), True); continue
                        if abs(info['residual'] - tr) > 1e-9 * max(1.0, tr) + 1e-13: viol('C04:info:residual', 'info.residual is not ||Ax-b||/||b|| of the returned x', inp, info['residual'], tr)
                        if info['converged'] and tr > 1e-7: viol(f'C04:info:converged:{cls}', f'converged reported with true residual {tr:.2e}', inp, tr)
                        if tr > 1e-8: viol(f'C04:solve:{cls}:{bcls}', f'system not solved after at most n cycles (true residual {tr:.2e}, converged={info["converged"]}, iterations={info["iterations"]})', inp, tr)
                        hist = [h[2] for h in info['residual_history']]
                        if any(hist[i + 1] > hist[i] * (1 + 1e-8) + 1e-14 for i in range(len(hist) - 1)): viol('C04:history:monotone', 'residual history increases', inp, hist)
                        if info['iterations'] > n: viol('C04:iterations', 'more than n cycles', inp, info['iterations'])
                        ctx.count(('sys', cls, n, bcls, storage, prec, [a.t() for r in A for a in r]), n >= 2, sample=inp if cls == 'generic' and n == 3 and storage == 'dense' and prec == 'none' and bcls == 'random' else None)
                        # hypotheses of the cycle theorems (thm/Arnoldi.v, thm/MGS.v) on the basis the solver returns: orthonormal columns, V^H A V upper Hessenberg
                        if prec == 'none' and storage == 'dense' and cls in ('generic', 'hermitian', 'unitary', 'triangular', 'identity+rank1') and all(k in info for k in ('V0', 'V1', 'V2', 'V3')) and info['V0'] is not None:
                            Vb = quaternion.as_quat_array(np.stack([np.asarray(info[k], dtype=float) for k in ('V0', 'V1', 'V2', 'V3')], axis=-1))
                            if Vb.ndim == 2 and Vb.shape[0] == n and 1 <= Vb.shape[1] <= n:
                                mk = Vb.shape[1]; Gm = utils.quat_matmat(utils.quat_hermitian(Vb), Vb)
                                eo = fro(Gm - utils.quat_eye(mk))
                                Hc = utils.quat_matmat(utils.quat_hermitian(Vb), utils.quat_matmat(An, Vb)); Hf = np.sqrt(np.sum(quaternion.as_float_array(Hc) ** 2, axis=-1))
                                low = max([Hf[i, j] for i in range(mk) for j in range(mk) if i > j + 1] or [0.0])
                                if eo > 1e-7: viol('C04:arnoldi:orthonormal', f'the Krylov basis returned in info is not orthonormal (||V^H V - I||_F = {eo:.2e})', inp, eo)
                                if low > 1e-7 * max(1.0, fro(An)): viol('C04:arnoldi:hessenberg', f'V^H A V has an entry of modulus {low:.2e} below the first sub-diagonal', inp, low)
                                ctx.count(('arnoldi-hyp', cls, n, bcls), mk >= 2)
                        # control model: feed the observed cycle residuals (unpreconditioned runs report the residual of the system actually iterated on)
                        if prec == 'none' and storage == 'dense':
                            for tol, cap in [(1e-10, None)] + [(t, c) for t in (1e-2, 1e-6, 1e-12) for c in range(0, n + 1)][: (4 if ctx.quick() else 40)]:
                                try: x2, i2 = solve(An, bn, tol=tol, max_iter=cap)
                                except Exception as e: viol('C04:raises:cap', f'Q-GMRES raised {e!r} with cap {cap}', inp); continue
                                # the cycles that WOULD be produced: take them from an uncapped, tolerance-free run
                                xa, ia = solve(An, bn, tol=1e-300, max_iter=n + 5)
                                cyc = [(Fraction(float(h[2])), int(h[0])) for h in ia['residual_history']]
                                near = any(abs(float(r) - tol) <= 1e-3 * tol for r, _ in cyc)
                                if near: ctx.cov['discarded'] += 1; continue
                                cs = '[' + '; '.join(f'mk {Ql(r)} {k}%nat' for r, k in cyc) + ']'
                                rc = len(i2['residual_history'])
                                ctl_terms.append(f'({Ql(Fraction(tol))}, {(cap if cap is not None else n)}%nat, false, {cs}, {rc}%nat, {i2["iterations"]}%nat, {rc}%nat, {str(bool(i2["converged"])).lower()})')
                                tr2 = relres(An, x2, bn)
                                if i2['converged'] and tr2 > 10 * tol + 1e-13: viol('C04:info:converged:cap', f'converged reported with true residual {tr2:.2e} >= tol {tol}', inp, tr2)
                        # minimal residual of every cycle against the exact optimum (small n, unpreconditioned)
                        if prec == 'none' and storage == 'dense' and n <= (3 if ctx.quick() else 4) and cls in ('generic', 'hermitian', 'identity+rank1', 'repeated-diagonal', 'triangular'):
                            x0 = qx.zeros(n, 1)
                            for m in range(1, n + 1):
                                xm, im = solve(An, bn, tol=1e-300, max_iter=m - 1)
                                if len(im['residual_history']) != m: break
                                opt2 = krylov_min(A, b, x0, im['residual_history'][-1][0])
                                got = relres(An, xm, bn) * fro(bn)
                                if got * got > float(opt2) * (1 + 1e-6) + 1e-18: viol('C04:cycle:minimal', f'cycle {m} does not attain the minimal residual over its Krylov space ({got:.3e} vs {math.sqrt(float(opt2)):.3e})', inp, got, math.sqrt(float(opt2)))
                                if got * got < float(opt2) * (1 - 1e-6) - 1e-18: ctx.broken.append(f'oracle inconsistency: residual below the exact Krylov minimum on {cls} n={n} cycle {m}')
                                x0 = qx.from_np(xm)
    # ---- uniform scaling (cA) x = c b and ill-conditioned Hermitian systems -----------------------------------
    for n in (2, 3) if ctx.quick() else (2, 3, 4, 5):
        _, A = [s for s in systems(n) if s[0] == 'generic'][0]; b = qx.rand_int(rng, n, 1, -3, 3); b[0][0] = Q(1, 2, 0, 0)
        xref, _ = solve(qx.to_np(A), qx.to_np(b), tol=1e-10)
        for e in (-6, -3, 0, 3, 6):
            c = 10.0 ** e; inp = {'class': 'scaled', 'n': n, 'c': c}
            x, info = solve(qx.to_np(A) * c, qx.to_np(b) * c, tol=1e-10)
            tr = relres(qx.to_np(A) * c, x, qx.to_np(b) * c)
            if tr > 1e-8 or fro(x - xref) > 1e-7 * fro(xref): viol(f'C04:scaling:c=1e{e}', f'(cA)x = cb is not solved / depends on c = 1e{e} (true residual {tr:.2e})', inp, tr)
            ctx.count(('scale', n, e), True)
        # Hermitian with a tiny eigenvalue, at moderate and large scale
        U = qx.rand_unitary(rng, n, 1)
        for cond_e in (5, 6):
            D = qx.zeros(n, n)
            for i in range(n): D[i][i] = Q(Fraction(1, 2 ** i))
            D[n - 1][n - 1] = Q(Fraction(1, 10 ** cond_e))
            Hm = qx.mm(qx.mm(U, D), qx.herm(U))
            for e in (3, 6):
                c = 10.0 ** e; Hn = qx.to_np(Hm) * c; bn = qx.to_np(b) * c; inp = {'class': 'hermitian-ill-conditioned', 'n': n, 'cond': f'1e{cond_e}', 'c': c}
                x, info = solve(Hn, bn, tol=1e-10)
                tr = relres(Hn, x, bn)
                if tr > 1e-6: viol(f'C04:solve:ill-conditioned', f'ill-conditioned Hermitian system (cond 1e{cond_e}, scale 1e{e}) not solved after n cycles: true residual {tr:.2e}', inp, tr)
                if abs(info['residual'] - tr) > 1e-9 * max(1.0, tr) + 1e-13: viol('C04:info:residual', 'info.residual is not the true residual', inp)
                ctx.count(('illcond', n, cond_e, e), True)
    # badly row-scaled systems, with and without the LU preconditioner: whatever accuracy is reached, the reported residual (and
    # residual_true) must be ||Ax - b|| / ||b|| of the ORIGINAL system for the returned x, not of the preconditioned one
    for n in (3, 5) if ctx.quick() else (3, 4, 5, 7):
        G = qx.to_np(qx.rand_int(rng, n, n, -3, 3)) + 4.0 * qx.to_np(qx.eye(n)); bq = qx.rand_int(rng, n, 1, -3, 3); bq[0][0] = Q(1, 2, 0, 0); bn = qx.to_np(bq)
        for top in (4, 8, 11):
            sc = np.array([10.0 ** (top * i / (n - 1)) for i in range(n)]).reshape(n, 1)
            As = G * sc
            for bname, bs in (('b', bn), ('scaled b', bn * sc)):
              for prec in ('none', 'left_lu'):
                inp = {'class': 'row-scaled', 'n': n, 'row scale up to': f'1e{top}', 'rhs': bname, 'preconditioner': prec, 'tol': 1e-6}
                try: x, info = solve(As, bs, tol=1e-6, preconditioner=prec)
                except Exception as e: viol('C04:raises:row-scaled', f'Q-GMRES raised {e!r}', inp); continue
                if not cm.all_finite(x): continue
                tr = relres(As, x, bs)
                for key in ('residual', 'residual_true'):
                    if key in info and abs(info[key] - tr) > 1e-6 * tr + 1e-13:
                        viol(f'C04:info:{key}:row-scaled:{prec}', f'info.{key} = {info[key]:.3e} is not ||Ax-b||/||b|| = {tr:.3e} of the returned x (original system)', inp, info[key], tr)
                if info['converged'] and tr > 10 * 1e-6:
                    viol(f'C04:info:converged:row-scaled:{prec}', f'converged reported with true residual {tr:.2e} > 10 tol (tol = 1e-6)', inp, tr)
                ctx.count(('row-scaled', n, top, bname, prec), True)
    # lucky breakdown strictly INSIDE a restart cycle: the residual left by the first cycle is an eigenvector of A (eigenvalue of modulus != 1), so the
    # second cycle's Krylov space is invariant after one step although its length is two
    for n in (3, 4) if ctx.quick() else (3, 4, 5, 6):
        for fam in ('upper-triangular', 'shifted-shift'):
            if fam == 'upper-triangular':
                A = [[(qx.rand_int(rng, 1, 1, -3, 3)[0][0] if j > i else (Q(2 + i) if i == j else Q())) for j in range(n)] for i in range(n)]
                if A[0][1].is_zero(): A[0][1] = Q(0, 1, 1, 0)
                b = qx.zeros(n, 1); b[1][0] = Q(1); b[0][0] = A[0][1] * Q(Fraction(-1, 2))           # A[0,0] b1 + A[0,1] b2 = 0 with A[0,0] = 2
            else:
                lam = Q(3); A = [[(lam if i == j else (Q(1) if j == i + 1 else Q())) for j in range(n)] for i in range(n)]
                b = qx.zeros(n, 1); b[0][0] = Q(1); b[1][0] = Q(-3)
            An = qx.to_np(A); bn = qx.to_np(b)
            for storage in ('dense', 'sparse'):
                inp = {'class': 'restart residual is an eigenvector (' + fam + ')', 'n': n, 'storage': storage, 'A': [[[str(c) for c in a.t()] for a in r] for r in A], 'b': [[str(c) for c in q[0].t()] for q in b]}
                try: x, info = solve(An if storage == 'dense' else mk_sparse(utils, A), bn, tol=1e-10)
                except Exception as e: viol('C04:raises:breakdown-inside-cycle', f'Q-GMRES raised {e!r}', inp); continue
                if not cm.all_finite(x): viol('C04:nonfinite:breakdown-inside-cycle', 'Q-GMRES returned NaN/inf', inp); continue
                tr = relres(An, x, bn); hist = [h[2] for h in info['residual_history']]
                if tr > 1e-8: viol('C04:solve:breakdown-inside-cycle', f'system not solved after at most n cycles when a lucky breakdown falls inside a restart cycle (true residual {tr:.2e}, history {[float("%.3g" % h) for h in hist]})', inp, tr)
                if any(hist[i + 1] > hist[i] * (1 + 1e-8) + 1e-14 for i in range(len(hist) - 1)): viol('C04:history:monotone:breakdown-inside-cycle', 'residual history increases', inp, hist)
                if abs(info['residual'] - tr) > 1e-9 * max(1.0, tr) + 1e-13: viol('C04:info:residual', 'info.residual is not ||Ax-b||/||b|| of the returned x', inp, info['residual'], tr)
                ctx.count(('breakdown-inside', n, fam, storage), True)
    # Arnoldi remainders that are EXACTLY zero next to a non-real pivot (the Hessenberg QR then only has a phase to remove): diagonal systems with
    # quaternion entries and unit-vector right-hand sides, q I with non-real q, upper triangular with b = e_1, a weighted cyclic shift closed by a
    # non-real unit weight
    for n in (3, 5) if ctx.quick() else (3, 4, 5, 6):
        units = [Q(0, 1, 0, 0), Q(0, 0, 1, 0), Q(0, 0, 0, 1), Q(Fraction(3, 5), Fraction(4, 5), 0, 0), Q(Fraction(1, 2), Fraction(1, 2), Fraction(1, 2), Fraction(-1, 2)), Q(0, Fraction(3, 5), 0, Fraction(4, 5))]
        fams = [('quaternion-diagonal', [[(units[i % len(units)] * Q(i + 2) if i == j else Q()) for j in range(n)] for i in range(n)]),
                ('non-real-scalar-matrix', [[(Q(1, 2, -1, 1) if i == j else Q()) for j in range(n)] for i in range(n)]),
                ('quaternion-upper-triangular', [[(units[(i + j) % len(units)] * Q(1 + (i == j) * (i + 2)) if j >= i else Q()) for j in range(n)] for i in range(n)]),
                ('weighted-cyclic-shift', [[(units[i % len(units)] if (i - j) % n == 1 else Q()) for j in range(n)] for i in range(n)])]
        for fam, A in fams:
            An = qx.to_np(A)
            for kpos in sorted({0, n - 2, n - 1}):
                b = qx.zeros(n, 1); b[kpos][0] = Q(2); bn = qx.to_np(b)          # a real power of two: the normalised start vector is exactly e_k
                for storage in ('dense', 'sparse'):
                    inp = {'class': fam + ' with b = c e_k', 'n': n, 'k': kpos, 'storage': storage, 'A': [[[str(c) for c in a.t()] for a in r] for r in A]}
                    try: x, info = solve(An if storage == 'dense' else mk_sparse(utils, A), bn, tol=1e-10)
                    except Exception as e: viol('C04:raises:zero-remainder', f'Q-GMRES raised {e!r}', inp); continue
                    if not cm.all_finite(x): viol('C04:nonfinite:zero-remainder', 'Q-GMRES returned NaN/inf', inp); continue
                    tr = relres(An, x, bn); hist = [h[2] for h in info['residual_history']]
                    if tr > 1e-8: viol('C04:solve:zero-remainder', f'system not solved after at most n cycles (true residual {tr:.2e}, history {[float("%.3g" % h) for h in hist]})', inp, tr)
                    if any(hist[i + 1] > hist[i] * (1 + 1e-8) + 1e-14 for i in range(len(hist) - 1)): viol('C04:history:monotone:zero-remainder', 'residual history increases', inp, hist)
                    if abs(info['residual'] - tr) > 1e-9 * max(1.0, tr) + 1e-13: viol('C04:info:residual', 'info.residual is not ||Ax-b||/||b|| of the returned x', inp, info['residual'], tr)
                    ctx.count(('zero-remainder', n, fam, kpos, storage), True)
    # LU preconditioner under every pivot order: systems A = P^T L U (dyadic, |multipliers| <= 3/4) force each of the n! interchange
    # sequences, the non-involutive ones (3-cycles, 4-cycles) included; the preconditioned run must solve the ORIGINAL system and agree
    # with the unpreconditioned solution
    import itertools
    from .c07 import forced as _forced
    for n in (3, 4) if ctx.quick() else (3, 4, 5):
        perms = list(itertools.permutations(range(n)))
        if len(perms) > 24: perms = [perms[i] for i in sorted(rng.sample(range(len(perms)), 30))]
        for perm in perms:
            A = _forced(rng, n, n, perm); An = qx.to_np(A)
            bq = qx.rand_int(rng, n, 1, -3, 3); bq[0][0] = Q(1, 2, 0, 0); bn = qx.to_np(bq)
            inp = {'class': 'forced-pivot-order', 'n': n, 'pivot rows': list(perm), 'preconditioner': 'left_lu', 'A': [[[str(c) for c in a.t()] for a in r] for r in A], 'b': [[str(c) for c in q[0].t()] for q in bq]}
            try: x, info = solve(An, bn, tol=1e-10, preconditioner='left_lu'); x0, info0 = solve(An, bn, tol=1e-10)
            except Exception as e: viol('C04:raises:forced-pivot-order', f'Q-GMRES raised {e!r}', inp); continue
            if not cm.all_finite(x): viol('C04:nonfinite:forced-pivot-order', 'Q-GMRES with left_lu returned NaN/inf', inp); continue
            tr = relres(An, x, bn); tr0 = relres(An, x0, bn)
            if abs(info['residual'] - tr) > 1e-9 * max(1.0, tr) + 1e-13: viol('C04:info:residual:left_lu', 'info.residual is not ||Ax-b||/||b|| of the returned x (left_lu)', inp, info['residual'], tr)
            if info['converged'] and tr > 1e-7: viol('C04:info:converged:left_lu', f'converged reported with true residual {tr:.2e} (left_lu)', inp, tr)
            if tr0 <= 1e-8 and tr > 1e-8: viol('C04:solve:left_lu:pivot-order', f'the LU-preconditioned run does not solve the system (true residual {tr:.2e}, pivot rows {list(perm)}) while the unpreconditioned run does ({tr0:.2e})', inp, tr, tr0)
            ctx.count(('forced-lu', n, perm), list(perm) != list(range(n)))
    # LU preconditioner failing (zero pivot): silent fallback must still solve
    Z = qx.to_np([[Q(0), Q(1)], [Q(1), Q(0)]]) * 1e-20; bz = qx.to_np([[Q(1)], [Q(0, 1)]]) * 1e-20
    try:
        x, info = solve(Z, bz, tol=1e-10, preconditioner='left_lu')
        if relres(Z, x, bz) > 1e-6: viol('C04:precond:fallback', 'system with a failing LU preconditioner (pivot below the LU threshold) not solved', {'A': '1e-20 * [[0,1],[1,0]]'}, relres(Z, x, bz))
    except Exception as e: viol('C04:precond:fallback', f'failing LU preconditioner raised {e!r} instead of falling back', {})
    ctx.count(('lu-fallback',), True)
    res = cm.run_cases(ctx, 'cases_ctl', HEADER, ctl_terms, 'check_ctl', shard=200)
    if res is not None:
        ctx.cov['traces_validated_against_impl'] += len(res)
        bad = [i for i, r in enumerate(res) if not r]
        if bad: ctx.broken.append(f'GMRES control model and implementation disagree on {len(bad)} of {len(res)} run(s), first: {ctl_terms[bad[0]][:400]}')
    # the information returned by a solve describes THAT solve, also when the solver object is reused, and is not changed later
    import copy
    def _sys(n):
        G = qx.rand_int(rng, n, n, -2, 2)
        for i in range(n): G[i][i] = G[i][i] + Q(5 + n)
        return qx.to_np(G), qx.to_np(qx.rand_int(rng, n, 1, -3, 3))
    for kw in ({}, {'preconditioner': 'left_lu'}):
        (A1, b1), (A2, b2) = _sys(3), _sys(2)
        with contextlib.redirect_stdout(io.StringIO()):
            sv = solver.QGMRESSolver(tol=1e-12, **kw); x1, i1 = sv.solve(A1, b1); i1c = copy.deepcopy(i1); x2, i2 = sv.solve(A2, b2)
            x3, i3 = sv.solve(A2, 0 * b2); xf, jf = solver.QGMRESSolver(tol=1e-12, **kw).solve(A2, b2)
        inp = {'sequence': 'solve(3x3), solve(2x2), solve(2x2, b=0) on one QGMRESSolver', **kw}
        h2 = np.asarray(i2.get('residual_history', []), dtype=float); hf = np.asarray(jf.get('residual_history', []), dtype=float)
        if h2.shape != hf.shape or not np.allclose(h2, hf, rtol=1e-9, atol=1e-14): viol('C04:info:reused-solver', 'residual_history of the second solve on a reused solver is not the history of that solve', inp, h2.tolist(), hf.tolist())
        if len(h2) > i2.get('iterations', len(h2)) + 0 and len(h2) > 2: viol('C04:info:history-length', 'residual_history has more entries than cycles were run', inp, len(h2), i2.get('iterations'))
        if len(np.asarray(i3.get('residual_history', []))) != 0 and np.asarray(i3.get('residual_history')).size and float(np.linalg.norm(np.asarray(x3, dtype=np.quaternion).view(float))) == 0 and len(i3['residual_history']) > 1: viol('C04:info:zero-rhs-history', 'a solve with b = 0 returns a stale non-empty history', inp, i3.get('residual_history'))
        if repr(i1) != repr(i1c): viol('C04:info:changed-later', 'the info record of an earlier solve changed when the solver was used again', inp, repr(i1)[:150], repr(i1c)[:150])
        ctx.count(('reuse', str(kw)), True)
    _G = qx.rand_int(rng, 3, 3, -2, 2)
    for _i in range(3): _G[_i][_i] = _G[_i][_i] + Q(6)
    _A = qx.to_np(_G); _b = qx.to_np(qx.rand_int(rng, 3, 1, -3, 3))
    cm.layout_sweep(ctx, qx, 'C04', 'QGMRESSolver.solve(A)', lambda X: solve(X, _b, tol=1e-12)[0], _A, {'n': 3})
    ctx.cov['rule'] = (f'systems n = 1..{nmax}: identity, scaled identity, identity + rank one, repeated diagonal, unitary, Hermitian, triangular, generic (exact integer/rational data), right-hand sides random / eigenvector / zero, dense and sparse, none / left_lu; '
                       'true residual, info fields, monotone history; control model fed with the observed cycle residuals for tolerances 1e-2..1e-12 and every cap 0..n; every cycle against the exact rational Krylov minimum; '
                       'uniform scaling 1e-6..1e6; Hermitian systems of condition 1e5, 1e6 at scales 1e3, 1e6; failing LU preconditioner. Non-trivial = n >= 2.')
    return cm.finish(ctx, 'proof', '', ASSUME)

ASSUME = ['optimality of the coded Arnoldi / Givens / triangular solve is compared numerically (1e-6) with the proved minimal-residual specification, not proved', 'the control model is fed with the cycle residuals the implementation reports', 'binary64 rounding']
