"""C05: Q-SVD: true singular values, unitary factors, exact and optimal reconstruction."""
import os, sys, math, struct, warnings
from fractions import Fraction
from . import common as cm
from . import qexact as qx
from .qexact import Q

HEADER = """From Coq Require Import ZArith List Bool Arith. Import ListNotations.
From QVM Require Import QsvdGlue.
Open Scope Z_scope.
Definition tm (L : list (list Z)) : nat -> nat -> Z := fun i j => nth j (nth i L []) 0.
Definition tv (L : list Z) : nat -> Z := fun i => nth i L 0.
Definition q4eqb (a b : Z * Z * Z * Z) : bool := let '(a1, a2, a3, a4) := a in let '(b1, b2, b3, b4) := b in Z.eqb a1 b1 && Z.eqb a2 b2 && Z.eqb a3 b3 && Z.eqb a4 b4.
Definition qm_eqb (r c : nat) (M : nat -> nat -> Z * Z * Z * Z) (L : list (list (Z * Z * Z * Z))) : bool :=
  forallb (fun i => forallb (fun j => q4eqb (M i j) (nth j (nth i L []) (0, 0, 0, 0))) (seq 0 c)) (seq 0 r).
(* (m, n, R, recorded Ur, sr, Vtr (bit tokens), implementation U (m x R), s (R), V (n x R)) *)
Definition check_svd (c : nat * nat * nat * list (list Z) * list Z * list (list Z) * list (list (Z * Z * Z * Z)) * list Z * list (list (Z * Z * Z * Z))) : bool :=
  let '(m, n, r, Ur, sr, Vtr, U, s, V) := c in
  qm_eqb m r (qsvd_full_U Z (tm Ur)) U && forallb (fun i => Z.eqb (qsvd_full_s Z (tv sr) i) (nth i s 0)) (seq 0 r)
  && qm_eqb n r (qsvd_full_V Z (tm Vtr)) V.
"""
def tok(x): return struct.unpack('<q', struct.pack('<d', float(x)))[0]
def tmat(M): return '[' + '; '.join('[' + '; '.join(cm.zlit(tok(v)) for v in r) + ']' for r in M) + ']'
def tqmat(Aq):
    import quaternion, numpy as np
    f = quaternion.as_float_array(Aq)
    return '[' + '; '.join('[' + '; '.join('(' + ', '.join(cm.zlit(tok(v)) for v in f[i, j]) + ')' for j in range(f.shape[1])) + ']' for i in range(f.shape[0])) + ']'

def spectra(m, n, quick):
    r = min(m, n); out = []
    base = [Fraction(v) for v in (3, 2, 1, Fraction(1, 2), Fraction(1, 4))]
    out.append(('simple', base[:r]))
    if r >= 2: out.append(('repeated', [Fraction(2)] * 2 + base[2:r])); out.append(('one-zero', base[:r - 1] + [Fraction(0)]))
    if r >= 2: out.append(('all-equal', [Fraction(1)] * r))
    if r >= 3: out.append(('two-zeros', base[:r - 2] + [Fraction(0)] * 2)); out.append(('repeated-tail', base[:r - 2] + [Fraction(1, 3)] * 2))
    out.append(('zero', [Fraction(0)] * r))
    return out
def classify(m, n, sv):
    nz = [s for s in sv if s != 0]; rank = len(nz)
    tags = []
    if len(set(nz)) < len(nz): tags.append('repeated-singular-values')
    if m - rank >= 2 or n - rank >= 2: tags.append('null-space>=2')
    return tags

def run(ctx):
    cm.setup_impl_path()
    for b in cm.audit(cm.coq_sources() + [os.path.join(cm.ROOT, 'props', 'C05.v')]): ctx.broken.append('audit: ' + b)
    cm.prove(ctx, 'C05.v')
    try:
        import numpy as np, quaternion, utils, importlib
        qsvd = importlib.import_module('decomp.qsvd')
        from .c03 import spectral_problem
    except Exception as e:
        ctx.broken.append(f'implementation does not import: {e!r}'); return cm.finish(ctx, 'proof', '', ASSUME)
    warnings.simplefilter('ignore')
    def viol(sig, what, inp, obs='', exp=''):
        ctx.violations.append({'sig': sig, 'what': what, 'input': inp, 'observed': str(obs)[:300], 'expected': str(exp)[:300], 'oracle': 'prescribed exact factorisation U diag(s) V^H; unitarity and reconstruction residuals'})
    rng = ctx.rng; fro = utils.quat_frobenius_norm
    rec = {}
    orig_svd = np.linalg.svd
    def rec_svd(a, *args, **kw):
        r = orig_svd(a, *args, **kw); rec['last'] = (np.array(r[0]), np.array(r[1]), np.array(r[2])); return r
    shapes = [(1, 1), (2, 2), (3, 3), (3, 2), (2, 3), (1, 3), (4, 2), (1, 2), (2, 1)] + ([] if ctx.quick() else [(4, 4), (2, 4), (5, 3), (3, 5), (4, 1), (6, 6)])
    terms = []
    def diagq(s, m, n):
        S = np.zeros((m, n), dtype=np.quaternion)
        for i, v in enumerate(s): S[i, i] = quaternion.quaternion(float(v), 0, 0, 0)
        return S
    for (m, n) in shapes:
        for cls, sv in spectra(m, n, ctx.quick()):
            A, U0, V0 = spectral_problem(rng, m, n, sv); An = qx.to_np(A); tags = classify(m, n, sv)
            suffix = (':' + '+'.join(tags)) if tags else ''
            inp = {'shape': [m, n], 'spectrum': cls, 'singular_values': [str(s) for s in sv], 'A': [[[str(c) for c in a.t()] for a in r] for r in A]}
            np.linalg.svd = rec_svd
            try: U, s, V = qsvd.classical_qsvd_full(An)
            except Exception as e: viol(f'C05:full:raises{suffix}', f'classical_qsvd_full raised {e!r}', inp); continue
            finally: np.linalg.svd = orig_svd
            Ur, sr, Vtr = rec['last']; r = min(m, n); sc = max(1.0, float(max(sv)))
            if not cm.all_finite(U, s, V): viol(f'C05:full:nonfinite{suffix}', 'classical_qsvd_full returned NaN / inf', inp); continue
            if len(s) != r or np.any(np.diff(s) > 1e-12 * sc) or np.any(s < 0): viol(f'C05:full:order{suffix}', 'singular values not non-negative non-increasing', inp, s.tolist())
            elif max(abs(float(a) - float(b)) for a, b in zip(s, sv)) > 1e-9 * sc: viol(f'C05:full:values{suffix}', 'singular values differ from the true quaternion singular values', inp, s.tolist(), [float(x) for x in sv])
            eu = fro(utils.quat_matmat(utils.quat_hermitian(U), U) - utils.quat_eye(m)); ev = fro(utils.quat_matmat(utils.quat_hermitian(V), V) - utils.quat_eye(n))
            er = fro(utils.quat_matmat(utils.quat_matmat(U, diagq(s, m, n)), utils.quat_hermitian(V)) - An)
            if eu > 1e-9 or ev > 1e-9: viol(f'C05:full:unitary{suffix}', f'U or V is not unitary (||U^H U - I|| = {eu:.2e}, ||V^H V - I|| = {ev:.2e})', inp, (eu, ev))
            if er > 1e-9 * sc: viol(f'C05:full:reconstruct{suffix}', f'A != U Sigma V^H (error {er:.2e})', inp, er)
            ctx.count(('full', m, n, cls), True, sample={'shape': [m, n], 'spectrum': cls, 'singular_values': [str(x) for x in sv]} if (m, n) == (3, 3) and cls == 'repeated' else None)
            terms.append(f'({m}%nat, {n}%nat, {r}%nat, {tmat(Ur)}, [' + '; '.join(cm.zlit(tok(v)) for v in sr) + f'], {tmat(Vtr)}, {tqmat(U[:, :r])}, [' + '; '.join(cm.zlit(tok(v)) for v in s) + f'], {tqmat(V[:, :r])})')
            # the same problem at other scales (only where the factorisation is determined: no repeated value, nullity < 2)
            if not tags:
                for sname, scl in (('2^27', 2.0 ** 27), ('2^-40', 2.0 ** -40)):
                    As = An * scl; top_s = float(max(sv)) * scl if sv else 0.0
                    try: Us, ss, Vs = qsvd.classical_qsvd_full(As); U1, s1, V1 = qsvd.classical_qsvd(As, 1)
                    except Exception as e: viol('C05:scaled:raises', f'Q-SVD raised {e!r} on a matrix scaled by {sname}', dict(inp, scale=sname)); continue
                    if top_s > 0:
                        if max(abs(float(a) - float(b) * scl) for a, b in zip(ss, sv)) > 1e-9 * top_s: viol('C05:scaled:values', f'singular values of the matrix scaled by {sname} are not the scaled singular values', dict(inp, scale=sname), ss.tolist())
                        if fro(utils.quat_matmat(utils.quat_matmat(Us, diagq(ss, m, n)), utils.quat_hermitian(Vs)) - As) > 1e-9 * top_s: viol('C05:scaled:reconstruct', f'A != U Sigma V^H for the matrix scaled by {sname}', dict(inp, scale=sname))
                        if abs(float(s1[0]) - top_s) > 1e-9 * top_s: viol('C05:scaled:truncated', f'rank-1 truncation of the matrix scaled by {sname} has the wrong leading value', dict(inp, scale=sname), s1.tolist(), top_s)
                    if fro(utils.quat_matmat(utils.quat_hermitian(Us), Us) - utils.quat_eye(m)) > 1e-9 or fro(utils.quat_matmat(utils.quat_hermitian(Vs), Vs) - utils.quat_eye(n)) > 1e-9: viol('C05:scaled:unitary', f'U or V not unitary for the matrix scaled by {sname}', dict(inp, scale=sname))
                    ctx.count(('scaled', m, n, cls, sname), True)
            if not tags and cls == spectra(m, n, ctx.quick())[0][0]:
                for lname, Al in qx.layouts(An):
                    try: Ul, sl, Vl = qsvd.classical_qsvd_full(Al)
                    except Exception as e: viol('C05:memory-layout:raises', f'classical_qsvd_full raised {type(e).__name__} for a {lname} argument: {e}', dict(inp, layout=lname)); continue
                    if fro(utils.quat_matmat(utils.quat_matmat(Ul, diagq(sl, m, n)), utils.quat_hermitian(Vl)) - An) > 1e-9 * sc: viol('C05:memory-layout', f'Q-SVD is wrong for a {lname} argument', dict(inp, layout=lname))
                    ctx.count(('svd-layout', m, n, lname), True)
            # truncation: Eckart-Young value
            for R in range(1, r + 1):
                np.linalg.svd = rec_svd
                try: Ut, st, Vt = qsvd.classical_qsvd(An, R)
                except Exception as e: viol(f'C05:trunc:raises{suffix}', f'classical_qsvd raised {e!r} for R={R}', inp); continue
                finally: np.linalg.svd = orig_svd
                if Ut.shape != (m, R) or Vt.shape != (n, R) or len(st) != R: viol(f'C05:trunc:shape{suffix}', 'wrong shapes of the truncated factors', inp, (Ut.shape, st.shape, Vt.shape)); continue
                S = np.zeros((R, R), dtype=np.quaternion)
                for i in range(R): S[i, i] = quaternion.quaternion(float(st[i]), 0, 0, 0)
                err2 = fro(An - utils.quat_matmat(utils.quat_matmat(Ut, S), utils.quat_hermitian(Vt))) ** 2
                opt = float(sum(x * x for x in sv[R:]))
                if abs(err2 - opt) > 1e-8 * sc * sc: viol(f'C05:trunc:eckart-young{suffix}', f'rank-{R} truncation error^2 {err2:.3e} != sum of discarded s^2 {opt:.3e}', inp, err2, opt)
                Ur2, sr2, Vtr2 = rec['last']
                terms.append(f'({m}%nat, {n}%nat, {R}%nat, {tmat(Ur2)}, [' + '; '.join(cm.zlit(tok(v)) for v in sr2) + f'], {tmat(Vtr2)}, {tqmat(Ut)}, [' + '; '.join(cm.zlit(tok(v)) for v in st) + f'], {tqmat(Vt)})')
                ctx.count(('trunc', m, n, cls, R), True)
    # a buffer that is decomposed, edited in place and decomposed again: every answer must describe the CURRENT content
    for (m, n) in ((3, 3), (4, 3)):
        A1, _, _ = spectral_problem(rng, m, n, [Fraction(3), Fraction(2), Fraction(1)]); A2, _, _ = spectral_problem(rng, m, n, [Fraction(7), Fraction(5), Fraction(1, 2)])
        buf = qx.to_np(A1).copy(); qsvd.classical_qsvd(buf, 1); qsvd.classical_qsvd_full(buf)
        buf[...] = qx.to_np(A2)
        for R in (1, 2, 3):
            U, sg, V = qsvd.classical_qsvd(buf, R)
            if max(abs(float(a) - b) for a, b in zip(sg, (7.0, 5.0, 0.5))) > 1e-9 * 7: viol('C05:sequence:in-place-edit', f'classical_qsvd(R={R}) on a buffer edited in place returns the values of its previous content', {'shape': [m, n], 'R': R}, sg.tolist(), [7.0, 5.0, 0.5][:R])
        U, sg, V = qsvd.classical_qsvd_full(buf)
        if fro(utils.quat_matmat(utils.quat_matmat(U, diagq(sg, m, n)), utils.quat_hermitian(V)) - buf) > 1e-9 * 7: viol('C05:sequence:in-place-edit', 'classical_qsvd_full on a buffer edited in place does not reconstruct its current content', {'shape': [m, n]})
        ctx.count(('sequence', m, n), True)
    # entries confined to a component subspace (span{1,k}, pure k, span{i,j}, ...): reference values from an independent real embedding
    from .c02 import rexp_ref
    for mask in ((1, 0, 0, 1), (0, 0, 0, 1), (1, 1, 0, 0), (1, 0, 1, 0), (0, 1, 1, 0), (0, 0, 1, 1), (1, 0, 0, 0), (0, 1, 0, 0)):
        for (m, n) in ((3, 3), (4, 2), (2, 4)) if ctx.quick() else ((3, 3), (4, 2), (2, 4), (1, 3), (5, 3)):
            A = [[Q(*[c * k for c, k in zip(a.t(), mask)]) for a in row] for row in qx.rand_int(rng, m, n, -3, 3)]
            An = qx.to_np(A); r = min(m, n)
            sref = np.linalg.svd(np.array([[float(v) for v in row] for row in rexp_ref(A)]), compute_uv=False)[::4][:r]
            if len(sref) >= 2 and float(np.min(np.abs(np.diff(sref)))) < 1e-6 * max(1.0, float(sref[0])) or (len(sref) and sum(1 for v in sref if v < 1e-9) >= 2) or max(m, n) - sum(1 for v in sref if v > 1e-9) >= 2: continue     # repeated / multiple zero values: known findings
            inp = {'shape': [m, n], 'components': list(mask), 'A': [[[str(c) for c in a.t()] for a in row] for row in A]}
            try: U, sg, V = qsvd.classical_qsvd_full(An)
            except Exception as e: viol('C05:subspace:raises', f'classical_qsvd_full raised {e!r}', inp); continue
            scv = max(1.0, float(sref[0]) if len(sref) else 1.0)
            if max(abs(float(a) - float(b)) for a, b in zip(sg, sref)) > 1e-9 * scv: viol('C05:subspace:values', f'singular values wrong for entries in the component subspace {mask}', inp, sg.tolist(), sref.tolist())
            if fro(utils.quat_matmat(utils.quat_matmat(U, diagq(sg, m, n)), utils.quat_hermitian(V)) - An) > 1e-9 * scv: viol('C05:subspace:reconstruct', f'A != U Sigma V^H for entries in the component subspace {mask}', inp)
            ctx.count(('subspace', mask, m, n), True)
    # a column that is a right multiple / right combination of EARLIER columns, followed by an independent one (rank n - 1), tall, very
    # tall, square and wide: the truncations up to the rank are determined (distinct non-zero values) -- values, orthonormal factors and
    # the Eckart-Young error against an independent real embedding
    for (m, n) in ((6, 3), (5, 3), (3, 3), (9, 4), (3, 5)) if ctx.quick() else ((6, 3), (5, 3), (3, 3), (9, 4), (3, 5), (7, 3), (8, 4), (10, 4), (4, 4), (12, 5)):
        for dep in ('right-multiple', 'in-span'):
            A = qx.rand_int(rng, m, n, -3, 3)
            qm = Q(1, -1, 2, 0); q2 = Q(0, 1, 1, -1)
            for i in range(m):
                if dep == 'right-multiple' or n < 4: A[i][1] = A[i][0] * qm
                else: A[i][2] = A[i][0] * qm + A[i][1] * q2
            An = qx.to_np(A); r = min(m, n)
            sref = np.linalg.svd(np.array([[float(v) for v in row] for row in rexp_ref(A)]), compute_uv=False)[::4][:r]
            rk = sum(1 for v in sref if v > 1e-9 * max(1.0, float(sref[0])))
            if rk < 2 or float(np.min(np.abs(np.diff(sref[:rk + 1] if rk < r else sref)))) < 1e-3 * float(sref[0]): ctx.cov['discarded'] += 1; continue
            inp = {'shape': [m, n], 'class': f'dependent column ({dep}) before an independent one', 'rank': rk, 'A': [[[str(c) for c in a.t()] for a in row] for row in A]}
            for R in range(1, rk + 1):
                try: Ut, st, Vt = qsvd.classical_qsvd(An, R)
                except Exception as e: viol('C05:dependent-column:raises', f'classical_qsvd raised {e!r} for R={R}', inp); continue
                scv = float(sref[0])
                if max(abs(float(a) - float(b)) for a, b in zip(st, sref[:R])) > 1e-9 * scv: viol('C05:dependent-column:values', f'leading {R} singular values are wrong for a matrix with a dependent column', dict(inp, R=R), np.asarray(st).tolist(), sref[:R].tolist())
                eu = fro(utils.quat_matmat(utils.quat_hermitian(Ut), Ut) - utils.quat_eye(R)); ev = fro(utils.quat_matmat(utils.quat_hermitian(Vt), Vt) - utils.quat_eye(R))
                if eu > 1e-8 or ev > 1e-8: viol('C05:dependent-column:orthonormal', f'the truncated factors do not have orthonormal columns (||U^H U - I|| = {eu:.2e}, ||V^H V - I|| = {ev:.2e}, R = {R})', dict(inp, R=R), (eu, ev))
                S = np.zeros((R, R), dtype=np.quaternion)
                for i in range(R): S[i, i] = quaternion.quaternion(float(st[i]), 0, 0, 0)
                err2 = fro(An - utils.quat_matmat(utils.quat_matmat(Ut, S), utils.quat_hermitian(Vt))) ** 2; opt = float(sum(float(x) ** 2 for x in sref[R:]))
                if abs(err2 - opt) > 1e-8 * scv * scv: viol('C05:dependent-column:eckart-young', f'rank-{R} truncation error^2 {err2:.3e} != sum of discarded s^2 {opt:.3e}', dict(inp, R=R), err2, opt)
                ctx.count(('dependent-column', m, n, dep, R), True)
    # square matrices that are Hermitian, Hermitian with one zero eigenvalue, or Hermitian up to a relative asymmetry of 1e-5 .. 1e-8 (what a symmetric
    # eigensolver shortcut would read as Hermitian): every truncation against an independent real embedding
    for n in (3, 4) if ctx.quick() else (3, 4, 5, 6):
        G = qx.rand_int(rng, n, n, -3, 3); Hh = qx.add(G, qx.herm(G))
        for kind, asym in (('hermitian', None), ('hermitian-zero-row-and-column', None), ('almost-hermitian', 1e-5), ('almost-hermitian', 4e-6), ('almost-hermitian', 1e-7), ('almost-hermitian', 1e-8)):
            Hn = qx.to_np(Hh).copy()
            if kind == 'hermitian-zero-row-and-column': Hn[0, :] = 0 * Hn[0, :]; Hn[:, 0] = 0 * Hn[:, 0]
            if asym is not None: Hn = Hn + asym * qx.to_np(qx.rand_int(rng, n, n, -3, 3)) * float(np.max(np.abs(quaternion.as_float_array(Hn)))) / 3.0
            sref = np.linalg.svd(utils.real_expand(Hn), compute_uv=False)[::4][:n]
            if float(np.min(np.abs(np.diff(sref)))) < 1e-3 * float(sref[0]): ctx.cov['discarded'] += 1; continue
            inp = {'shape': [n, n], 'class': kind, 'relative asymmetry': asym, 'A': quaternion.as_float_array(Hn).tolist()}
            for R in range(1, n + 1):
                try: Ut, st, Vt = qsvd.classical_qsvd(Hn, R)
                except Exception as e: viol('C05:near-hermitian:raises', f'classical_qsvd raised {e!r} for R={R}', inp); continue
                scv = float(sref[0])
                if not cm.all_finite(Ut, st, Vt): viol('C05:near-hermitian:nonfinite', 'classical_qsvd returned NaN / inf', dict(inp, R=R)); continue
                if max(abs(float(a) - float(b)) for a, b in zip(st, sref[:R])) > 1e-9 * scv: viol('C05:near-hermitian:values', f'leading {R} singular values are wrong for a {kind} matrix (relative deviation {max(abs(float(a) - float(b)) for a, b in zip(st, sref[:R])) / scv:.1e})', dict(inp, R=R), np.asarray(st).tolist(), sref[:R].tolist())
                eu = fro(utils.quat_matmat(utils.quat_hermitian(Ut), Ut) - utils.quat_eye(R)); ev = fro(utils.quat_matmat(utils.quat_hermitian(Vt), Vt) - utils.quat_eye(R))
                if eu > 1e-9 or ev > 1e-9: viol('C05:near-hermitian:orthonormal', f'the truncated factors of a {kind} matrix do not have orthonormal columns (||U^H U - I|| = {eu:.2e}, ||V^H V - I|| = {ev:.2e}, R = {R})', dict(inp, R=R), (eu, ev))
                S = np.zeros((R, R), dtype=np.quaternion)
                for i in range(R): S[i, i] = quaternion.quaternion(float(st[i]), 0, 0, 0)
                err2 = fro(Hn - utils.quat_matmat(utils.quat_matmat(Ut, S), utils.quat_hermitian(Vt))) ** 2; opt = float(sum(float(x) ** 2 for x in sref[R:]))
                if abs(err2 - opt) > 1e-9 * scv * scv: viol('C05:near-hermitian:eckart-young', f'rank-{R} truncation error^2 {err2:.6e} != sum of discarded s^2 {opt:.6e} for a {kind} matrix', dict(inp, R=R), err2, opt)
                ctx.count(('near-hermitian', n, kind, str(asym), R), True)
    # graded spectra (full rank, values down to 1e-9 and 1e-12 of the largest): every value is a singular value -- none may be rounded to zero --
    # compared RELATIVE to itself (the real SVD of the embedding gives absolute accuracy eps * s_max, i.e. 1e-4 relative at 1e-12)
    for (m, n) in ((6, 4), (4, 4), (3, 5)) if ctx.quick() else ((6, 4), (4, 4), (3, 5), (5, 5), (8, 3)):
        r = min(m, n)
        for sv in ([Fraction(1), Fraction(1, 10 ** 3), Fraction(1, 10 ** 6), Fraction(1, 10 ** 9)][:r], [Fraction(5), Fraction(1, 10 ** 4), Fraction(1, 10 ** 8), Fraction(1, 10 ** 12)][:r]):
            sv = sv + [Fraction(1, 10 ** 12)] * 0
            A, _, _ = spectral_problem(rng, m, n, sv); An = qx.to_np(A)
            inp = {'shape': [m, n], 'class': 'graded spectrum', 'singular_values': [str(x) for x in sv]}
            for R in range(1, len(sv) + 1):
                try: Ut, st, Vt = qsvd.classical_qsvd(An, R)
                except Exception as e: viol('C05:graded:raises', f'classical_qsvd raised {e!r} for R={R}', inp); continue
                for i in range(R):
                    want = float(sv[i])
                    if abs(float(st[i]) - want) > max(1e-3 * want, 4e-15 * float(sv[0])): viol('C05:graded:values', f'singular value {i} of a graded full-rank matrix is returned as {float(st[i])!r}, its true value is {want!r}', dict(inp, R=R), float(st[i]), want)
                ctx.count(('graded', m, n, str(sv[-1]), R), True)
            try:
                _, sf, _ = qsvd.classical_qsvd_full(An)
                for i in range(len(sv)):
                    want = float(sv[i])
                    if abs(float(sf[i]) - want) > max(1e-3 * want, 4e-15 * float(sv[0])): viol('C05:graded:values:full', f'singular value {i} of a graded full-rank matrix is returned as {float(sf[i])!r} by classical_qsvd_full, its true value is {want!r}', inp, float(sf[i]), want)
            except Exception as e: viol('C05:graded:raises', f'classical_qsvd_full raised {e!r}', inp)
    res = cm.run_cases(ctx, 'cases_svd', HEADER, terms, 'check_svd', shard=40)
    if res is not None:
        ctx.cov['traces_validated_against_impl'] += len(res)
        bad = [i for i, x in enumerate(res) if not x]
        if bad: ctx.broken.append(f'Q-SVD glue model and implementation disagree on {len(bad)} of {len(res)} case(s) (bit-exact comparison on the recorded LAPACK answer), first: {terms[bad[0]][:300]}')
    ctx.cov['rule'] = ('matrices U diag(s) V^H with exactly unitary rational U, V, shapes ' + str(shapes) + ', multiplicity patterns simple / 2-fold repeated / all equal / repeated tail / one zero / two zeros / zero, every truncation rank; '
                       'values, unitarity, reconstruction, Eckart-Young value; the glue model applied to the recorded numpy.linalg.svd answer compared bit-for-bit with the returned factors. Distinct = (shape, pattern, rank).')
    return cm.finish(ctx, 'proof', '', ASSUME)

ASSUME = ['numpy.linalg.svd is an oracle: only its documented contract is assumed; which inputs make it answer with quaternion-structured vectors is not proved',
          'theorems are conditional on structured oracle factors; the unstructured case is refuted by a witness (props/C05.v)']
