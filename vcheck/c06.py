"""C06: quaternion QR reproduces A with orthonormal Q and triangular R for every shape."""
import os, sys, math, struct, warnings
from fractions import Fraction
from . import common as cm
from . import qexact as qx
from .qexact import Q
from .c05 import tok, tmat, tqmat

HEADER = """From Coq Require Import ZArith List Bool Arith. Import ListNotations.
From QVM Require Import QsvdGlue.
Open Scope Z_scope.
Definition tm (L : list (list Z)) : nat -> nat -> Z := fun i j => nth j (nth i L []) 0.
Definition q4eqb (a b : Z * Z * Z * Z) : bool := let '(a1, a2, a3, a4) := a in let '(b1, b2, b3, b4) := b in Z.eqb a1 b1 && Z.eqb a2 b2 && Z.eqb a3 b3 && Z.eqb a4 b4.
Definition qm_eqb (r c : nat) (M : nat -> nat -> Z * Z * Z * Z) (L : list (list (Z * Z * Z * Z))) : bool :=
  forallb (fun i => forallb (fun j => q4eqb (M i j) (nth j (nth i L []) (0, 0, 0, 0))) (seq 0 c)) (seq 0 r).
(* tall / square: (m, n, recorded Qr, Rr, implementation Q (m x n), R (n x n)) *)
Definition check_qr (c : nat * nat * list (list Z) * list (list Z) * list (list (Z * Z * Z * Z)) * list (list (Z * Z * Z * Z))) : bool :=
  let '(m, n, Qr, Rr, Qm, Rm) := c in qm_eqb m n (qr_Q Z (tm Qr)) Qm.      (* R is recomputed as triu(Q^H A): checked by the oracle *)
"""

def run(ctx):
    cm.setup_impl_path()
    for b in cm.audit(cm.coq_sources() + [os.path.join(cm.ROOT, 'props', 'C06.v')]): ctx.broken.append('audit: ' + b)
    sys.path.insert(0, os.path.join(cm.ROOT, 'qtrans'))
    try:
        import gen_c06
        txt, _ = gen_c06.generate(cm.REPO)
        open(os.path.join(ctx.build, 'Gen_C06.v'), 'w').write(txt)
        ctx.obligations.append(('translate:qsvd.py(qr_qua data flow: wide completion, recomputed upper-triangular R)', True, ''))
        cm.prove(ctx, 'C06.v', ['Gen_C06.v'])
    except Exception as e:
        ctx.obligations.append(('translate', False, repr(e)))
        ctx.broken.append(f'qtrans cannot translate the data flow of qr_qua any more: {e!r}')
    try:
        import numpy as np, quaternion, utils, importlib
        qsvd = importlib.import_module('decomp.qsvd')
        from .c03 import spectral_problem
    except Exception as e:
        ctx.broken.append(f'implementation does not import: {e!r}'); return cm.finish(ctx, 'proof', '', ASSUME)
    warnings.simplefilter('ignore')
    def viol(sig, what, inp, obs='', exp=''):
        ctx.violations.append({'sig': sig, 'what': what, 'input': inp, 'observed': str(obs)[:300], 'expected': str(exp)[:300], 'oracle': 'reconstruction, orthonormality and triangularity residuals'})
    rng = ctx.rng; fro = utils.quat_frobenius_norm
    rec = []
    orig_qr = qsvd.qr
    def rec_qr(a, *args, **kw):
        r = orig_qr(a, *args, **kw); rec.append((np.array(r[0]), np.array(r[1]))); return r
    top = 4 if ctx.quick() else 6
    shapes = [(m, n) for m in range(1, top + 1) for n in range(1, top + 1)]
    terms = []
    for (m, n) in shapes:
        r = min(m, n)
        cands = [('integer', qx.rand_int(rng, m, n, -3, 3), None), ('pure-imaginary', [[Q(0, a.x, a.y, a.z) for a in row] for row in qx.rand_int(rng, m, n, -3, 3)], None)]
        for rk in sorted({r, max(r - 1, 0), max(r - 2, 0), 0}):
            sv = [Fraction(rk - i, 1) for i in range(rk)] + [Fraction(0)] * (r - rk)       # rk, rk-1, ..., 1: positive and distinct
            A, _, _ = spectral_problem(rng, m, n, sv); cands.append((f'rank{rk}', A, rk))
        if n >= 2:
            Z = qx.rand_int(rng, m, n, -2, 2)
            for i in range(m): Z[i][rng.randrange(n)] = Q()
            for i in range(m): Z[i][0] = Q()
            cands.append(('zero-first-column', Z, None))
        for kdep in range(1, min(m, n)):                 # column kdep is a right-combination of the columns before it
            Dm = qx.rand_int(rng, m, n, -3, 3); cs = [Q(*[rng.randint(-2, 2) for _ in range(4)]) for _ in range(kdep)]
            for i in range(m):
                acc = Q()
                for j in range(kdep): acc = acc + Dm[i][j] * cs[j]
                Dm[i][kdep] = acc
            cands.append((f'dependent-column-{kdep}', Dm, None))
        T = qx.rand_int(rng, m, n, -3, 3)
        for i in range(m):
            for j in range(n):
                if j < i: T[i][j] = Q()
            if i < n and T[i][i].is_zero(): T[i][i] = Q(0, 0, 1 + i, 0)       # zero real part on the diagonal
        cands.append(('upper-triangular', T, None))
        if m >= 2:
            Zr = qx.rand_int(rng, m, n, -3, 3); Zr[m - 1] = [Q() for _ in range(n)]; cands.append(('zero-last-row', Zr, None))
            E1 = qx.rand_int(rng, m, n, -3, 3)
            for i in range(1, m): E1[i][0] = Q()
            E1[0][0] = Q(0, 2, 0, 0); cands.append(('first-column-e1', E1, None))
        for cls, A, rk in cands:
            An = qx.to_np(A)
            # rank of the leading columns decides whether Q is determined (nullity >= 2 of the leading block: oracle freedom)
            lead_rank = utils.rank(An[:, :r]) if r else 0
            first_dep = next((k for k in range(r) if utils.rank(An[:, :k + 1]) == (utils.rank(An[:, :k]) if k else 0)), r)       # first column depending on its predecessors
            tag = ''
            if (r - lead_rank) >= 1 and (m - lead_rank) >= 2: tag = ':rank-deficient-leading-block'      # at least two quaternion directions of Q are left to the oracle
            elif (r - lead_rank) >= 1 and 1 <= first_dep < r - 1: tag = ':dependent-interior-column'    # the real QR meets the dependent (non-zero) column before the last one
            inp = {'shape': [m, n], 'class': cls, 'A': [[[str(c) for c in a.t()] for a in row] for row in A]}
            rec.clear(); qsvd.qr = rec_qr
            try: Qm, Rm = qsvd.qr_qua(An)
            except Exception as e: viol(f'C06:raises{tag}', f'qr_qua raised {e!r}', inp); continue
            finally: qsvd.qr = orig_qr
            if not cm.all_finite(Qm, Rm): viol(f'C06:nonfinite{tag}', 'qr_qua returned NaN / inf', inp); continue
            if Qm.shape != (m, r) or Rm.shape != (r, n): viol(f'C06:shape{tag}', 'wrong factor shapes', inp, (Qm.shape, Rm.shape), ((m, r), (r, n))); continue
            sc = max(1.0, fro(An))
            er = fro(utils.quat_matmat(Qm, Rm) - An); eo = fro(utils.quat_matmat(utils.quat_hermitian(Qm), Qm) - utils.quat_eye(r))
            low = max([abs(Rm[i, j]) for i in range(r) for j in range(n) if i > j] or [0.0])
            if er > 1e-10 * sc: viol(f'C06:reconstruct{tag}', f'A != Q R (error {er:.2e}) for a {m}x{n} {cls} matrix', inp, er)
            if eo > 1e-10: viol(f'C06:orthonormal{tag}', f'Q^H Q != I (error {eo:.2e}) for a {m}x{n} {cls} matrix', inp, eo)
            if low > 1e-12 * sc: viol(f'C06:triangular{tag}', f'R is not upper triangular/trapezoidal (entry {low:.2e} below the diagonal)', inp, low)
            ctx.count(('qr', m, n, cls, [a.t() for row in A for a in row]), True, sample={'shape': [m, n], 'class': cls} if (m, n) == (2, 3) and cls == 'integer' else None)
            if cls in ('integer', 'upper-triangular', 'pure-imaginary') and not tag:
                for sname, scl in (('2^27', 2.0 ** 27), ('2^-40', 2.0 ** -40)):
                    As = An * scl; nA = fro(As)
                    try: Qs, Rs = qsvd.qr_qua(As)
                    except Exception as e: viol('C06:scaled:raises', f'qr_qua raised {e!r} on a matrix scaled by {sname}', dict(inp, scale=sname)); continue
                    if nA > 0 and fro(utils.quat_matmat(Qs, Rs) - As) > 1e-10 * nA: viol('C06:scaled:reconstruct', f'A != Q R for the matrix scaled by {sname}', dict(inp, scale=sname))
                    if fro(utils.quat_matmat(utils.quat_hermitian(Qs), Qs) - utils.quat_eye(r)) > 1e-10: viol('C06:scaled:orthonormal', f'Q^H Q != I for the matrix scaled by {sname}', dict(inp, scale=sname))
                    if max([abs(Rs[i, j]) for i in range(r) for j in range(n) if i > j] or [0.0]) > 1e-12 * max(nA, 1e-300): viol('C06:scaled:triangular', f'R not triangular for the matrix scaled by {sname}', dict(inp, scale=sname))
                    ctx.count(('qr-scaled', m, n, cls, sname), True)
            if cls == 'integer':
                for lname, Al in qx.layouts(An):
                    try: Ql, Rl = qsvd.qr_qua(Al)
                    except Exception as e: viol('C06:memory-layout:raises', f'qr_qua raised {type(e).__name__} for a {lname} argument: {e}', dict(inp, layout=lname)); continue
                    if fro(utils.quat_matmat(Ql, Rl) - An) > 1e-10 * sc or fro(utils.quat_matmat(utils.quat_hermitian(Ql), Ql) - utils.quat_eye(r)) > 1e-10: viol('C06:memory-layout', f'qr_qua is wrong for a {lname} argument', dict(inp, layout=lname))
                    ctx.count(('qr-layout', m, n, lname), True)
            if m >= n and len(rec) == 1:
                Qr, Rr = rec[0]
                terms.append(f'({m}%nat, {n}%nat, {tmat(Qr)}, {tmat(Rr)}, {tqmat(Qm)}, {tqmat(Rm)})')
    res = cm.run_cases(ctx, 'cases_qr', HEADER, terms, 'check_qr', shard=40)
    if res is not None:
        ctx.cov['traces_validated_against_impl'] += len(res)
        bad = [i for i, x in enumerate(res) if not x]
        if bad: ctx.broken.append(f'QR glue model and implementation disagree on {len(bad)} of {len(res)} case(s) (bit-exact comparison on the recorded SciPy answer), first: {terms[bad[0]][:300]}')
    ctx.cov['rule'] = (f'all shapes 1..{top} x 1..{top} (tall, square, wide, 1 x n, n x 1); integer, pure-imaginary, zero-first-column matrices and prescribed ranks r, r-1, r-2, 0; reconstruction, orthonormality, triangularity; '
                       'tall/square: the glue model applied to the recorded scipy.linalg.qr answer compared bit-for-bit with the returned factors.')
    return cm.finish(ctx, 'proof', '', ASSUME)

ASSUME = ['scipy.linalg.qr is an oracle with its documented contract only; that its Householder sign convention yields quaternion-structured first block columns for full-rank input is observed, not proved',
          'the wide path composes the square case with R2 = Q^H A2 (theorem C06_wide_completion)']
