"""C07: LU with partial pivoting, both output modes, loud when singular."""
import os, sys, itertools, math
from fractions import Fraction
from . import common as cm
from . import qexact as qx
from .qexact import Q

HEADER = """From Coq Require Import ZArith QArith Qabs Qcanon List Bool Arith. Import ListNotations.
From QV Require Import CRing Sums Quat Mat.
From QVM Require Import LU LUexec.
Definition qq (a b c d : Q) : quat QcR := @mkQ QcR (Q2Qc a) (Q2Qc b) (Q2Qc c) (Q2Qc d).
Definition absQ (x : Qc) : Q := Qabs (this x).
(* |a - b| <= 1e-9 (1 + |b|) componentwise *)
Definition closeq (a b : quat QcR) : bool :=
  let t x y := Qle_bool (Qabs (this x - this y)) ((1 # 1000000000) * (1 + Qabs (this y))) in
  t (qw a) (qw b) && t (qx a) (qx b) && t (qy a) (qy b) && t (qz a) (qz b).
Definition close_mat (r c : nat) (M : qmat QcR) (L : list (list (quat QcR))) : bool :=
  forallb (fun i => forallb (fun j => closeq (nth j (nth i L []) q0Q) (M i j)) (seq 0 c)) (seq 0 r).
(* every comparison made by the pivot search and the zero-pivot guard of the model has a margin:
   checked by re-running with squared moduli perturbed is not needed here because the harness only
   sends inputs that are exactly representable and reports ties separately *)
(* case: (m, n, A, raised, IP (from P), L, U, L2) ; outputs ignored when raised *)
Definition check_lu (c : nat * nat * list (list (quat QcR)) * bool * list nat * list (list (quat QcR)) * list (list (quat QcR)) * list (list (quat QcR))) : bool :=
  let '(m, n, A, raised, ip, L, U, L2) := c in
  match luQ m n (qof_listQ A) with
  | None => raised
  | Some (W, IP) => negb raised
      && forallb (fun i => Nat.eqb (IP i) (nth i ip 0%nat)) (seq 0 m)
      && close_mat m (Nat.min m n) (Lof QcR W) L && close_mat (Nat.min m n) n (Uof QcR W) U
      && close_mat m (Nat.min m n) (Lperm QcR m W IP) L2
  end.
"""
def ql(q): return '(qq ' + ' '.join(f'({Fraction(c).numerator} # {Fraction(c).denominator})' if Fraction(c).numerator >= 0 else f'(({Fraction(c).numerator}) # {Fraction(c).denominator})' for c in q.t()) + ')'
def qmat_lit(A): return '[' + '; '.join('[' + '; '.join(ql(a) for a in r) + ']' for r in A) + ']'

MULTS = [Q(Fraction(1, 2), Fraction(1, 2), 0, Fraction(1, 4)), Q(0, Fraction(-1, 2), Fraction(1, 4), 0), Q(Fraction(1, 4), 0, 0, Fraction(-1, 2)),
         Q(0, 0, 0, 0), Q(Fraction(-1, 2), Fraction(1, 4), Fraction(1, 4), Fraction(1, 4)), Q(0, 0, Fraction(3, 4), 0)]
def forced(rng, m, n, perm):
    """A with A[perm[i]] = (L U)[i], L unit lower with |multipliers|^2 <= 9/16, U upper with non-zero diagonal:
    partial pivoting then takes exactly the interchange sequence that realises perm; all values dyadic."""
    N = min(m, n)
    L = [[(Q(1) if i == k else (MULTS[rng.randrange(len(MULTS))] if i > k else Q())) for k in range(N)] for i in range(m)]
    U = [[(Q(*[rng.randint(-3, 3) for _ in range(4)]) if k <= c else Q()) for c in range(n)] for k in range(N)]
    for k in range(N):
        while U[k][k].is_zero(): U[k][k] = Q(*[rng.randint(-3, 3) for _ in range(4)])
    LU = qx.mm(L, U); A = [None] * m
    for i in range(m): A[perm[i]] = LU[i]
    return A

def run_impl(LUmod, A):
    import numpy as np
    An = qx.to_np(A)
    try:
        L, U, P = LUmod.quaternion_lu(An.copy(), return_p=True)
    except ValueError as e:
        try: LUmod.quaternion_lu(An.copy()); two = 'returned'
        except ValueError: two = 'raised'
        return {'raised': True, 'two': two, 'msg': str(e)}
    L2, U2 = LUmod.quaternion_lu(An.copy())
    import quaternion
    if not all(np.all(np.isfinite(quaternion.as_float_array(x))) for x in (L, U, P, L2, U2)):
        return {'raised': False, 'nonfinite': True}
    return {'raised': False, 'L': qx.from_np(L), 'U': qx.from_np(U), 'P': qx.from_np(P), 'L2': qx.from_np(L2), 'U2': qx.from_np(U2)}

def check_outputs(ctx, A, r, cls, viol):
    """property oracle on the implementation's own outputs, exact rational arithmetic"""
    m, n = qx.shape(A); N = min(m, n)
    if r['raised']:
        if r['two'] != 'raised': viol('C07:modes:raise', 'three-output mode raises but two-output mode returns', A)
        # raising is only legitimate when some column has no usable pivot: verified against the model by correspondence
        return
    L, U, P, L2, U2 = r['L'], r['U'], r['P'], r['L2'], r['U2']
    if qx.shape(L) != (m, N) or qx.shape(U) != (N, n) or qx.shape(P) != (m, m): viol('C07:shapes', 'wrong factor shapes', A, (qx.shape(L), qx.shape(U), qx.shape(P))); return
    scale = max(1, qx.maxabs(A)); tol = Fraction(1, 10 ** 9) * scale * max(m, n)
    # P permutation matrix
    rows = []
    for i in range(m):
        ones = [j for j in range(m) if P[i][j] == Q(1)]; zeros = [j for j in range(m) if P[i][j].is_zero()]
        if len(ones) != 1 or len(zeros) != m - 1: viol('C07:P:notperm', 'P is not a permutation matrix', A, [[p.t() for p in row] for row in P]); return
        rows.append(ones[0])
    if sorted(rows) != list(range(m)): viol('C07:P:notperm', 'P is not a permutation matrix', A, rows); return
    d = qx.maxabs(qx.sub(qx.mm(P, A), qx.mm(L, U)))
    if d > tol: viol('C07:PA=LU', f'P A != L U (max deviation {float(d):.3g}) on {cls}', A, float(d), 0)
    d2 = qx.maxabs(qx.sub(A, qx.mm(L2, U2)))
    if d2 > tol: viol('C07:A=LU', f'two-output mode: A != L U (max deviation {float(d2):.3g}) on {cls}; pivot rows {rows}', A, float(d2), 0)
    if not qx.eq(U, U2): viol('C07:modes:U', 'U differs between output modes', A)
    for i in range(m):
        for k in range(N):
            if k > i and not L[i][k].is_zero(): viol('C07:L:lower', 'L is not lower triangular', A)
            if k == i and L[i][k] != Q(1): viol('C07:L:unit', 'L does not have a unit diagonal', A)
            if k < i and L[i][k].n2() > 1 + Fraction(1, 10 ** 9): viol('C07:L:multiplier', f'multiplier of modulus {float(L[i][k].n2()) ** 0.5:.4g} > 1', A)
    for k in range(N):
        for c in range(n):
            if c < k and not U[k][c].is_zero(): viol('C07:U:upper', 'U is not upper triangular', A)
    return rows

def gen_inputs(ctx):
    rng = ctx.rng; out = []
    top = 4 if ctx.quick() else 5
    for m in range(1, top + 1):
        for perm in itertools.permutations(range(m)):
            ns = sorted({1, m, max(1, m - 1), m + 1}) if (ctx.quick() or m == 5) else list(range(1, 6))
            for n in ns:
                out.append((f'forced:{m}x{n}:{perm}', forced(rng, m, n, perm)))
    # structured zeros: pivot rows that vanish to the right of the pivot while later columns still need elimination (lower-triangular /
    # lower-trapezoidal with a dominant diagonal, block-diagonal, a row a e_1^T with the largest modulus of its column), plain and row-permuted
    for (m, n) in ((3, 3), (4, 4), (5, 3), (3, 5), (4, 3), (5, 5)) if ctx.quick() else ((3, 3), (4, 4), (5, 3), (3, 5), (4, 3), (5, 5), (6, 4), (4, 6), (6, 6)):
        for kind in ('lower-dominant', 'block-diagonal', 'first-row-e1', 'lower-dominant-permuted', 'step1-row-e2'):
            A = qx.rand_int(rng, m, n, -3, 3)
            if kind.startswith('lower-dominant'):
                A = [[(A[i][j] if j < i else (Q(9 + i, 1, 0, -1) if i == j else Q())) for j in range(n)] for i in range(m)]
                if kind.endswith('permuted'): A = A[1:] + A[:1]
            elif kind == 'block-diagonal':
                A = [[(Q(9, 0, 2, 0) if (i, j) == (0, 0) else (Q() if (i == 0) != (j == 0) else A[i][j])) for j in range(n)] for i in range(m)]
            elif kind == 'first-row-e1':
                A[m - 1] = [Q(0, 9, 0, 1)] + [Q() for _ in range(n - 1)]
            elif kind == 'step1-row-e2' and n >= 3 and m >= 3:
                A[0][0] = Q(9, 1, 1, 0); A[1] = [Q()] + [Q(0, 0, 8, 1)] + [Q() for _ in range(n - 2)]
                for i in range(2, m): A[i][0] = Q()
            out.append((f'structured-zeros:{kind}:{m}x{n}', A))
    for _ in range(150 if ctx.quick() else 2500):
        m, n = rng.randint(1, 5), rng.randint(1, 5)
        kind = rng.choice(['int', 'int', 'zerocol', 'rank1', 'zero', 'dupl'])
        A = qx.rand_int(rng, m, n, -4, 4)
        if kind == 'zerocol':
            c = rng.randrange(n)
            for i in range(m): A[i][c] = Q()
        elif kind == 'rank1':
            u = qx.rand_int(rng, m, 1, -2, 2); v = qx.rand_int(rng, 1, n, -2, 2); A = qx.mm(u, v)
        elif kind == 'zero': A = qx.zeros(m, n)
        elif kind == 'dupl' and m > 1: A[m - 1] = [a for a in A[0]]
        out.append((kind + f':{m}x{n}', A))
    return out

def _dyadic(q):
    for c in q.t():
        f = Fraction(c); d = f.denominator
        if d & (d - 1) or abs(f.numerator) >= 2 ** 40 or d >= 2 ** 40: return False
    return True
def pivot_margin_ok(A):
    """replay the elimination exactly; reject inputs in which a pivot comparison or the guard is a near-tie
    (|a|^2 values within 1e-6 relative but different), where float rounding could legitimately decide otherwise.
    While every intermediate value is a small dyadic rational the float computation is exact and nothing is rejected."""
    m, n = qx.shape(A); W = [[Q(*[Fraction(c) for c in a.t()]) for a in r] for r in A]
    exact = True
    for j in range(min(m, n)):
        exact = exact and all(_dyadic(a) for r in W for a in r)
        vals = [W[i][j].n2() for i in range(j, m)]
        best = max(vals)
        if not exact:
            for v in vals:
                if v != best and best != 0 and abs(v - best) <= best * Fraction(1, 10 ** 6): return False
            if best < Fraction(1, 10 ** 20): return False       # exact (near-)zero pivot vs rounding residue
        p = j + vals.index(best); W[j], W[p] = W[p], W[j]
        if j == m - 1: break
        if best < Fraction(1, 10 ** 30): return True
        inv = W[j][j].inv()
        for i in range(j + 1, m):
            W[i][j] = W[i][j] * inv
            for c in range(j + 1, n): W[i][c] = W[i][c] - W[i][j] * W[j][c]
    return True

def run(ctx):
    cm.setup_impl_path()
    for b in cm.audit(cm.coq_sources() + [os.path.join(cm.ROOT, 'props', 'C07.v')]): ctx.broken.append('audit: ' + b)
    cm.prove(ctx, 'C07.v')
    try:
        from decomp import LU as LUmod
        import numpy as np
    except Exception as e:
        ctx.broken.append(f'implementation does not import: {e!r}'); return cm.finish(ctx, 'proof', '', ASSUME)
    def viol(sig, what, A, obs='', exp=''):
        ctx.violations.append({'sig': sig, 'what': what, 'input': {'A': [[[str(c) for c in a.t()] for a in r] for r in A]},
                               'observed': str(obs)[:300], 'expected': str(exp)[:300], 'oracle': 'exact rational arithmetic on the returned factors'})
    terms = []; perms_seen = set()
    for cls, A in gen_inputs(ctx):
        m, n = qx.shape(A)
        try: r = run_impl(LUmod, A)
        except Exception as e:
            viol('C07:crash', f'quaternion_lu raised {type(e).__name__}: {e}', A); continue
        if r.get('nonfinite'):
            viol('C07:nonfinite', f'quaternion_lu returned NaN/inf factors instead of raising or reproducing A ({cls})', A); continue
        rows = check_outputs(ctx, A, r, cls, viol)
        if rows is not None: perms_seen.add((m, tuple(rows)))
        nontriv = (not r['raised'] and rows is not None and rows != list(range(m))) or r['raised'] or cls.startswith('forced')
        ctx.count(('lu', [a.t() for row in A for a in row], m, n), nontriv,
                  sample={'class': cls, 'A': [[[str(c) for c in a.t()] for a in row] for row in A], 'pivot_rows': rows} if cls.startswith('forced:3x3:(1, 2, 0)') else None)
        if not pivot_margin_ok(A): ctx.cov['discarded'] += 1; continue
        if r['raised']:
            terms.append(f'({m}%nat, {n}%nat, {qmat_lit(A)}, true, [], [], [], [])')
        elif rows is not None:
            terms.append(f'({m}%nat, {n}%nat, {qmat_lit(A)}, false, [' + '; '.join(f'{x}%nat' for x in rows) + f'], {qmat_lit(r["L"])}, {qmat_lit(r["U"])}, {qmat_lit(r["L2"])})')
    res = cm.run_cases(ctx, 'cases_lu', HEADER, terms, 'check_lu', shard=120)
    if res is not None:
        ctx.cov['traces_validated_against_impl'] += len(res)
        bad = [i for i, x in enumerate(res) if not x]
        if bad: ctx.broken.append(f'LU model and implementation disagree on {len(bad)} case(s), first: {terms[bad[0]][:400]}')
    top = 4 if ctx.quick() else 5
    _A = qx.to_np(qx.rand_int(ctx.rng, 4, 3, -3, 3))
    cm.layout_sweep(ctx, qx, 'C07', 'quaternion_lu', lambda X: LUmod.quaternion_lu(X, return_p=True), _A, {'shape': [4, 3]})
    cm.layout_sweep(ctx, qx, 'C07', 'quaternion_lu(two-output)', lambda X: LUmod.quaternion_lu(X), _A, {'shape': [4, 3]})
    want = sum(math.factorial(m) for m in range(1, top + 1))
    got = len({(m, p) for (m, p) in perms_seen if m <= top})
    ctx.cov['pivot_orders_seen'] = got; ctx.cov['pivot_orders_possible'] = want
    ctx.cov['exhaustive'] = got == want
    ctx.cov['rule'] = (f'every one of the m! interchange sequences for m <= {top} forced by dyadic inputs A = P^T L U with |multipliers| <= 3/4 (tall, square and wide), '
                       'plus random integer / zero-column / rank-one / zero / duplicated-row inputs; exact rational oracle on the returned factors in both output modes; '
                       'model (Qc) vs implementation: pivot rows exactly, L, U, permuted L within 1e-9, raise <-> None. Non-trivial = non-identity pivot order, forced case or raise; '
                       'discarded = near-tie in a pivot comparison or at the 1e-15 guard.')
    return cm.finish(ctx, 'proof', '', ASSUME)

ASSUME = ['binary64 rounding (model is exact rationals; compared within 1e-9 away from pivot near-ties)',
          'np.argmax returns the first maximum; numpy-quaternion a / b is a * b^{-1}']
