"""C08: Hermitian eigendecomposition and tridiagonalisation are exact unitary reductions."""
import os, sys, math, io, contextlib, warnings
from fractions import Fraction
from . import common as cm
from . import qexact as qx
from .qexact import Q
from .c16 import dq_lit, dmat

HEADER = """From Coq Require Import ZArith List Bool Arith. Import ListNotations.
From QV Require Import FOps.
From QVM Require Import Householder.
Open Scope Z_scope.
Definition K := 30.     (* agreement to 2^-30 (1 + |value|) *)
(* (n, A, P, B): tridiagonalize *)
Definition check_tri (c : nat * list (list (fq FxOps)) * list (list (fq FxOps)) * list (list (fq FxOps))) : bool :=
  let '(n, A, P, B) := c in
  let '(Pm, Bm) := tridiagonalize_model FxOps n (fof A) in fxm_close K n n Pm P && fxm_close K n n Bm B.
(* (m, a, u, zeta, H): householder_vector / householder_matrix with v = e1 *)
Definition check_hv (c : nat * list (fq FxOps) * list (fq FxOps) * fq FxOps * list (list (fq FxOps))) : bool :=
  let '(m, a, u, zeta, H) := c in
  let av := fun i => nth i a fq0 in
  let '(um, zm) := hh_vector FxOps m av in
  forallb (fun i => fxq_close K (um i) (nth i u fq0)) (seq 0 m) && fxq_close K zm zeta && fxm_close K m m (hh_matrix FxOps m av) H.
"""

def qrow(v): return '[' + '; '.join(dq_lit(q) for q in v) + ']'
def fl(M):
    import quaternion
    return [[(q.w, q.x, q.y, q.z) for q in row] for row in M]

def hermitian_cases(rng, n, quick):
    """(class, exact Q matrix, spectrum or None)"""
    out = []
    G = qx.rand_int(rng, n, n, -3, 3); A = qx.add(G, qx.herm(G)); out.append(('integer', A, None))
    G = qx.rand_int(rng, n, n, -9, 9); A2 = qx.scale(Q(Fraction(1, 8)), qx.add(G, qx.herm(G))); out.append(('generic', A2, None))
    if n >= 2:
        Z = [r[:] for r in A]
        for i in range(1, n): Z[i][0] = Q(); Z[0][i] = Q()
        out.append(('zero-first-subcolumn', Z, None))
    if n >= 3:
        Z = [r[:] for r in A]; Z[1][0] = Q(); Z[0][1] = Q()
        if Z[2][0].is_zero(): Z[2][0] = Q(0, 1, 0, 2); Z[0][2] = Q(0, -1, 0, -2)
        out.append(('zero-leading-entry', Z, None))
        Z = [r[:] for r in A]
        for i in range(2, n): Z[i][0] = Q(); Z[0][i] = Q()
        out.append(('first-column-already-reduced', Z, None))
    if n >= 4:
        Z = [r[:] for r in A]
        for i in range(1, n): Z[i][0] = Q(); Z[0][i] = Q()
        Z[2][1] = Q(); Z[1][2] = Q()
        if Z[3][1].is_zero(): Z[3][1] = Q(1, 0, -2, 0); Z[1][3] = Q(1, 0, 2, 0)
        out.append(('zero-leading-entry-second-column', Z, None))
    if n >= 2:
        # columns whose leading entry is an exactly real number (the reflector's phase factor is then +1 or -1): positive and negative
        for nm_, val in (('positive-real-leading-entry', 2), ('negative-real-leading-entry', -2)):
            Z = [r[:] for r in A]; Z[1][0] = Q(val); Z[0][1] = Q(val)
            out.append((nm_, Z, None))
        Gr = [[Q(rng.randint(-3, 3)) for _ in range(n)] for _ in range(n)]
        out.append(('real-symmetric', qx.add(Gr, qx.herm(Gr)), None))
        Tr = qx.zeros(n, n)
        for i in range(n):
            Tr[i][i] = Q(rng.randint(-3, 3))
            if i + 1 < n: Tr[i + 1][i] = Q(i % 3 + 1); Tr[i][i + 1] = Q(i % 3 + 1)
        out.append(('real-tridiagonal-positive', Tr, None))
    T = qx.zeros(n, n)
    for i in range(n):
        T[i][i] = Q(rng.randint(-3, 3))
        if i + 1 < n:
            q = Q(*[rng.randint(-2, 2) for _ in range(4)])
            if q.is_zero(): q = Q(0, 0, 1, 0)
            T[i + 1][i] = q; T[i][i + 1] = q.conj()
    out.append(('tridiagonal', T, None))
    D = qx.zeros(n, n)
    for i in range(n): D[i][i] = Q(rng.randint(-3, 3))
    out.append(('diagonal', D, [D[i][i].w for i in range(n)]))
    # exactly diagonal with DISTINCT entries in an order whose sorting permutation is not an involution (a rotation of the sorted order), and with ties
    if n >= 3:
        vals = [Fraction(2 * i - n) for i in range(n)]; rot = vals[1:] + vals[:1]
        Dr = qx.zeros(n, n)
        for i in range(n): Dr[i][i] = Q(rot[i])
        out.append(('diagonal-rotated-order', Dr, list(rot)))
        tie = [Fraction(0), Fraction(5), Fraction(-2), Fraction(5), Fraction(0)][:n] + [Fraction(7)] * max(0, n - 5)
        Dt = qx.zeros(n, n)
        for i in range(n): Dt[i][i] = Q(tie[i])
        out.append(('diagonal-with-ties', Dt, list(tie)))
    out.append(('zero', qx.zeros(n, n), [Fraction(0)] * n))
    specs = [('simple', [Fraction(i + 1, 1) * (-1) ** i for i in range(n)]), ('repeated', [Fraction(2)] * (n // 2) + [Fraction(-1)] * (n - n // 2)),
             ('all-equal', [Fraction(3, 2)] * n), ('rank-one', [Fraction(3)] + [Fraction(0)] * (n - 1))]
    if not quick: specs += [('zero-and-repeated', [Fraction(0)] * (n // 2) + [Fraction(5, 2)] * (n - n // 2)), ('clustered', [Fraction(1) + Fraction(i, 10 ** 6) for i in range(n)])]
    for nm, sp in specs:
        U = qx.rand_unitary(rng, n, 2); Dm = qx.zeros(n, n)
        for i in range(n): Dm[i][i] = Q(sp[i])
        out.append((f'spectrum-{nm}', qx.mm(qx.mm(U, Dm), qx.herm(U)), sp))
    return out

def herm_with(rng, n):
    G = qx.rand_int(rng, n, n, -3, 3); return qx.add(G, qx.herm(G))

def run(ctx):
    cm.setup_impl_path()
    for b in cm.audit(cm.coq_sources() + [os.path.join(cm.ROOT, 'props', 'C08.v')]): ctx.broken.append('audit: ' + b)
    cm.prove(ctx, 'C08.v')
    try:
        import numpy as np, quaternion, utils, importlib
        tri = importlib.import_module('decomp.tridiagonalize'); eig = importlib.import_module('decomp.eigen')
    except Exception as e:
        ctx.broken.append(f'implementation does not import: {e!r}'); return cm.finish(ctx, 'proof', '', ASSUME)
    warnings.simplefilter('ignore')
    def viol(sig, what, inp, obs='', exp=''):
        ctx.violations.append({'sig': sig, 'what': what, 'input': inp, 'observed': str(obs)[:300], 'expected': str(exp)[:300], 'oracle': 'unitarity / similarity / eigen residuals; prescribed exact spectrum'})
    rng = ctx.rng; fro = utils.quat_frobenius_norm; mmq = utils.quat_matmat; hq = utils.quat_hermitian
    quiet = lambda: contextlib.redirect_stdout(io.StringIO())
    cols = []
    orig_hm = tri.householder_matrix
    def rec_hm(a, v):
        cols.append(np.array(a)); return orig_hm(a, v)
    # ---- householder_vector / householder_matrix on their own (all branches)
    hterms = []
    NV = 40 if ctx.quick() else 400
    for t in range(NV):
        m = rng.randint(1, 5); kind = rng.choice(['generic', 'generic', 'zero', 'zero-leading', 'only-leading', 'pure-imaginary-leading', 'real-negative-leading'])
        a = [Q(*[Fraction(rng.randint(-16, 16), 8) for _ in range(4)]) for _ in range(m)]
        if kind == 'zero': a = [Q() for _ in range(m)]
        if kind == 'zero-leading': a[0] = Q()
        if kind == 'only-leading': a = [a[0] if not a[0].is_zero() else Q(0, 1, 0, 0)] + [Q() for _ in range(m - 1)]
        if kind == 'pure-imaginary-leading': a[0] = Q(0, a[0].x or 1, a[0].y, a[0].z)
        if kind == 'real-negative-leading': a[0] = Q(-abs(a[0].w) - 1)
        an = qx.to_np([a])[0]; e1 = np.zeros(m); e1[0] = 1.0
        inp = {'a': [[str(c) for c in q.t()] for q in a], 'kind': kind}
        try:
            u, zeta = tri.householder_vector(an, e1); H = tri.householder_matrix(an, e1)
        except Exception as e: viol(f'C08:reflector:raises:{kind}', f'householder_vector/matrix raised {e!r}', inp); continue
        nrm = math.sqrt(float(sum(q.n2() for q in a)))
        eu = fro(mmq(hq(H), H) - utils.quat_eye(m)); eu2 = fro(mmq(H, hq(H)) - utils.quat_eye(m))
        Ha = mmq(H, an.reshape(m, 1)).reshape(m); tgt = np.zeros(m, dtype=np.quaternion); tgt[0] = quaternion.quaternion(nrm, 0, 0, 0)
        if max(eu, eu2) > 1e-12: viol(f'C08:reflector:unitary:{kind}', f'householder_matrix is not unitary (defect {max(eu, eu2):.2e})', inp, max(eu, eu2))
        if float(np.max(np.abs(Ha - tgt))) > 1e-12 * max(1.0, nrm): viol(f'C08:reflector:maps:{kind}', 'H a != (||a||, 0, ..., 0)', inp, [str(x) for x in Ha], nrm)
        ctx.count(('reflector', kind, m, [q.t() for q in a]), True, sample=inp if t == 1 else None)
        if abs(zeta) > 0:
            hterms.append(f'({m}%nat, {qrow([q.t() for q in a])}, {qrow([(x.w, x.x, x.y, x.z) for x in u])}, {dq_lit((zeta.w, zeta.x, zeta.y, zeta.z))}, {dmat(fl(H))})')
    # ---- tridiagonalize and the eigendecomposition
    top = 4 if ctx.quick() else 6
    tterms = []
    for n in range(1, top + 1):
        for cls, A, spec in hermitian_cases(rng, n, ctx.quick()):
            for sname, s in (('1', 1.0), ('2^27', 2.0 ** 27), ('2^-27', 2.0 ** -27), ('2^-40', 2.0 ** -40)) if (cls.startswith('spectrum') or cls in ('integer', 'zero-leading-entry')) else (('1', 1.0),):
                An = qx.to_np(A) * s; sc = max(fro(An), 1e-300)
                inp = {'n': n, 'class': cls, 'scale': sname, 'A': [[[str(c) for c in a.t()] for a in row] for row in A]}
                suffix = '' if s == 1.0 else ':scaled'
                if n >= 2:
                    cols.clear(); tri.householder_matrix = rec_hm
                    try:
                        with quiet(): P, B = tri.tridiagonalize(An)
                    except Exception as e: viol(f'C08:tridiagonalize:raises:{cls}{suffix}', f'tridiagonalize raised {e!r} on a Hermitian matrix', inp); P = None
                    finally: tri.householder_matrix = orig_hm
                    if P is not None and not cm.all_finite(P, B):
                        viol(f'C08:tridiagonalize:nonfinite:{cls}{suffix}', 'tridiagonalize returned NaN / inf', inp); P = None
                    if P is not None:
                        eu = max(fro(mmq(hq(P), P) - utils.quat_eye(n)), fro(mmq(P, hq(P)) - utils.quat_eye(n)))
                        es = fro(mmq(mmq(P, An), hq(P)) - B) / sc if fro(An) > 0 else fro(B)
                        Bf = quaternion.as_float_array(B)
                        if eu > 1e-10: viol(f'C08:tridiagonalize:unitary:{cls}{suffix}', f'P is not unitary (defect {eu:.2e})', inp, eu)
                        if es > 1e-9: viol(f'C08:tridiagonalize:similarity:{cls}{suffix}', f'P A P^H != B (relative error {es:.2e})', inp, es)
                        if np.any(Bf[..., 1:] != 0): viol(f'C08:tridiagonalize:real:{cls}{suffix}', 'B has non-real entries', inp)
                        if any(Bf[i, j, 0] != 0 for i in range(n) for j in range(n) if abs(i - j) > 1): viol(f'C08:tridiagonalize:band:{cls}{suffix}', 'B is not tridiagonal', inp)
                        if any(abs(Bf[i, i + 1, 0] - Bf[i + 1, i, 0]) > 1e-9 * sc for i in range(n - 1)): viol(f'C08:tridiagonalize:symmetric:{cls}{suffix}', 'B is not symmetric', inp)
                        # tie-free for the correspondence: no sub-column that is tiny but non-zero, no tiny non-zero leading entry
                        nA = fro(An); tie = any((0 < fro(c) < 1e-6 * nA) or (fro(c) > 0 and 0 < abs(c[0]) < 1e-6 * fro(c)) for c in cols)
                        if s == 1.0 and n <= (4 if ctx.quick() else 5):
                            if tie: ctx.cov['discarded'] += 1
                            else: tterms.append(f'({n}%nat, {dmat(fl(An))}, {dmat(fl(P))}, {dmat(fl(B))})')
                # the only keyword option of the entry points (verbose) must not change the answer
                try:
                    with quiet(): lamv, Vv = eig.quaternion_eigendecomposition(An, verbose=True); lam0, V0 = eig.quaternion_eigendecomposition(An)
                    with quiet(): lw = eig.quaternion_eigenvalues(An, verbose=True); Vw = eig.quaternion_eigenvectors(An, verbose=True)
                    if not (np.array_equal(np.asarray(lamv), np.asarray(lam0)) and np.array_equal(quaternion.as_float_array(Vv), quaternion.as_float_array(V0)) and np.array_equal(np.asarray(lw), np.asarray(lam0)) and np.array_equal(quaternion.as_float_array(Vw), quaternion.as_float_array(V0))):
                        viol(f'C08:eigen:verbose-changes-answer:{cls}{suffix}', 'verbose=True (or the eigenvalues / eigenvectors wrappers) returns something else than the default call', inp)
                except Exception as e: viol(f'C08:eigen:raises:{cls}{suffix}', f'quaternion_eigendecomposition(verbose=True) raised {e!r} on a Hermitian matrix', inp)
                try:
                    with quiet(): lam, V = eig.quaternion_eigendecomposition(An)
                except Exception as e: viol(f'C08:eigen:raises:{cls}{suffix}', f'quaternion_eigendecomposition raised {e!r} on a Hermitian matrix', inp); continue
                lam = np.asarray(lam)
                if not cm.all_finite(lam, V): viol(f'C08:eigen:nonfinite:{cls}{suffix}', 'eigendecomposition returned NaN / inf', inp); continue
                D = np.zeros((n, n), dtype=np.quaternion)
                for i in range(n): D[i, i] = quaternion.quaternion(float(lam[i].real), 0, 0, 0)
                ev = max(fro(mmq(hq(V), V) - utils.quat_eye(n)), fro(mmq(V, hq(V)) - utils.quat_eye(n)))
                er = fro(mmq(An, V) - mmq(V, D)) / sc if fro(An) > 0 else fro(mmq(V, D))
                ea = fro(mmq(mmq(V, D), hq(V)) - An) / sc if fro(An) > 0 else fro(mmq(mmq(V, D), hq(V)))
                if V.shape != (n, n) or lam.shape != (n,): viol(f'C08:eigen:shape:{cls}{suffix}', 'wrong output shapes', inp, (lam.shape, V.shape)); continue
                if np.any(np.imag(lam) != 0): viol(f'C08:eigen:real:{cls}{suffix}', 'eigenvalues of a Hermitian matrix are not real', inp, lam)
                if ev > 1e-9: viol(f'C08:eigen:unitary:{cls}{suffix}', f'eigenvector matrix is not unitary (defect {ev:.2e})', inp, ev)
                if er > 1e-8: viol(f'C08:eigen:residual:{cls}{suffix}', f'A V != V diag(lambda) (relative error {er:.2e})', inp, er)
                if ea > 1e-8: viol(f'C08:eigen:reconstruct:{cls}{suffix}', f'A != V diag(lambda) V^H (relative error {ea:.2e})', inp, ea)
                if spec is not None:
                    want = sorted(float(x) * s for x in spec); got = sorted(float(x.real) for x in lam)
                    if max(abs(a - b) for a, b in zip(want, got)) > 1e-8 * max(sc, 1e-300) and fro(An) > 0 or (fro(An) == 0 and any(g != 0 for g in got)):
                        viol(f'C08:eigen:spectrum:{cls}{suffix}', 'eigenvalues differ from the prescribed spectrum', inp, got, want)
                with quiet(): vr = eig.verify_eigendecomposition(An, lam, V)
                ctx.count(('eigen', n, cls, sname, [a.t() for row in A for a in row]), True, sample={'n': n, 'class': cls} if (n, cls, sname) == (3, 'spectrum-repeated', '1') else None)
    # ---- rejections
    for n in range(1, 5):
        G = qx.rand_int(rng, n, n, -3, 3); G[0][0] = Q(1, 1, 0, 0)           # non-real diagonal entry: not Hermitian
        Gn = qx.to_np(G); inp = {'n': n, 'A': [[[str(c) for c in a.t()] for a in row] for row in G]}
        for nm, f in (('eigen', eig.quaternion_eigendecomposition), ('tridiagonalize', tri.tridiagonalize)):
            try:
                with quiet(): f(Gn)
                viol(f'C08:reject:non-hermitian:{nm}', f'{nm} accepted a non-Hermitian matrix', inp)
            except ValueError: pass
            except Exception as e: viol(f'C08:reject:non-hermitian:{nm}', f'{nm} raised {type(e).__name__} instead of ValueError for a non-Hermitian matrix', inp, repr(e))
            R = qx.to_np(qx.rand_int(rng, n, n + 1, -2, 2))
            try:
                with quiet(): f(R)
                viol(f'C08:reject:non-square:{nm}', f'{nm} accepted a non-square matrix', {'shape': [n, n + 1]})
            except ValueError: pass
            except Exception as e: viol(f'C08:reject:non-square:{nm}', f'{nm} raised {type(e).__name__} instead of ValueError for a non-square matrix', {'shape': [n, n + 1]}, repr(e))
            ctx.count(('reject', nm, n), True)
    # single rows and columns, constant ones included (a constant real row broadcasts against its transpose into an all-close comparison)
    for n in (2, 3, 4):
        for shp in ((1, n), (n, 1)):
            for vname, val in (('zeros', 0.0), ('ones', 1.0), ('constant 2.5', 2.5), ('random', None)):
                R = qx.to_np(qx.rand_int(rng, shp[0], shp[1], -2, 2)) if val is None else quaternion.as_quat_array(np.concatenate([np.full(shp + (1,), val), np.zeros(shp + (3,))], axis=-1))
                for nm, f in (('eigen', eig.quaternion_eigendecomposition), ('eigenvalues', eig.quaternion_eigenvalues), ('eigenvectors', eig.quaternion_eigenvectors), ('tridiagonalize', tri.tridiagonalize)):
                    try:
                        with quiet(): f(R)
                        viol(f'C08:reject:non-square:{nm}', f'{nm} accepted a {shp[0]} x {shp[1]} matrix ({vname})', {'shape': list(shp), 'entries': vname})
                    except ValueError: pass
                    except Exception as e: viol(f'C08:reject:non-square:{nm}', f'{nm} raised {type(e).__name__} instead of ValueError for a {shp[0]} x {shp[1]} matrix ({vname})', {'shape': list(shp), 'entries': vname}, repr(e))
                ctx.count(('reject-line', shp, vname), True)
    try:
        with quiet(): tri.tridiagonalize(qx.to_np([[Q(2)]]))
        viol('C08:reject:1x1:tridiagonalize', 'tridiagonalize accepted a 1 x 1 matrix (documented minimum is 2 x 2)', {'n': 1})
    except ValueError: pass
    _H = qx.to_np(herm_with(rng, 3))
    def _tri(X):
        with quiet(): return tri.tridiagonalize(X)
    def _eig(X):
        with quiet(): return eig.quaternion_eigendecomposition(X)[0]
    cm.layout_sweep(ctx, qx, 'C08', 'tridiagonalize', _tri, _H, {'n': 3})
    cm.layout_sweep(ctx, qx, 'C08', 'quaternion_eigendecomposition(values)', _eig, _H, {'n': 3})
    # ---- correspondence at the fixed-point instance
    for name, terms, fn, shard in (('hv', hterms, 'check_hv', 60), ('tri', tterms, 'check_tri', 6)):
        res = cm.run_cases(ctx, 'cases_' + name, HEADER, terms, fn, shard=shard, timeout=900)
        if res is not None:
            ctx.cov['traces_validated_against_impl'] += len(res)
            bad = [i for i, x in enumerate(res) if not x]
            if bad: ctx.broken.append(f'Householder model ({fn}) and implementation disagree on {len(bad)} of {len(res)} case(s), first: {terms[bad[0]][:400]}')
    ctx.cov['rule'] = (f'reflectors: {NV} random columns of length 1..5 in seven classes (generic, zero, zero leading entry, only leading entry, pure-imaginary / negative-real leading entry): unitarity, H a = ||a|| e1, model agreement. '
                       f'Hermitian matrices n = 1..{top}: integer, generic, zero first sub-column, zero leading entry (first and second column), already reduced, tridiagonal, diagonal, zero, prescribed spectra '
                       '(simple mixed-sign, repeated, all equal, rank one, clustered) from exact rational unitaries, scaled by 2^27, 2^-27 and 2^-40: P unitary, P A P^H = B, B real symmetric tridiagonal, real eigenvalues equal to the spectrum, '
                       'V unitary, A V = V diag(lambda), A = V diag(lambda) V^H; non-Hermitian / non-square / 1x1 rejections. Discarded = correspondence cases with a tiny non-zero sub-column (reflector not determined).')
    return cm.finish(ctx, 'proof', '', ASSUME)

ASSUME = ['numpy.linalg.eigh is an oracle: that it returns an orthonormal eigenbasis V_B of the real symmetric tridiagonal matrix with B V_B = V_B D is the hypothesis of C08_backtransform (validated numerically on every case)',
          'internal_tridiagonalizer is modelled as the equivalent loop (each step applies the embedded reflector to the whole matrix; the code recurses on the trailing block only, which differs by rounding noise in the already reduced rows); tied by the fixed-point correspondence at 2^-30',
          'theorems hold over the real numbers (standard-library real axioms); floating-point rounding is outside the model and bounded only by the numerical oracle',
          'the Hermitian guard np.allclose(A, A^H, atol=1e-10) is exercised (rejections) but not modelled']
