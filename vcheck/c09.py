"""C09: Hessenberg reduction is a unitary similarity to upper Hessenberg form."""
import os, sys, math, io, contextlib, warnings
from fractions import Fraction
from . import common as cm
from . import qexact as qx
from .qexact import Q
from .c16 import dq_lit, dmat, dyad_lit
from .c08 import fl

HEADER = """From Coq Require Import ZArith List Bool Arith. Import ListNotations.
From QV Require Import FOps.
From QVM Require Import Householder.
Open Scope Z_scope.
Definition K := 30.
Definition ATOL := fx_dyad 4951760157141521 (-92).   (* 1e-12 as a binary64 value *)
(* (n, A, P, H): hessenbergize *)
Definition check_hess (c : nat * list (list (fq FxOps)) * list (list (fq FxOps)) * list (list (fq FxOps))) : bool :=
  let '(n, A, P, H) := c in
  let '(Pm, Hm) := hessenbergize_model FxOps ATOL n (fof A) in fxm_close K n n Pm P && fxm_close K n n Hm H.
(* (n, atol, H, cleaned H, is_hessenberg flag): exact *)
Definition check_clean (c : nat * Z * list (list (fq FxOps)) * list (list (fq FxOps)) * bool) : bool :=
  let '(n, atol, H, Hc, flag) := c in
  fxm_close 400 n n (clean_hess FxOps atol (fof H)) Hc && Bool.eqb (is_hess FxOps atol n (fof H)) flag.
"""

def square_cases(rng, n, quick):
    out = []
    A = qx.rand_int(rng, n, n, -3, 3); out.append(('integer', A))
    out.append(('generic', qx.scale(Q(Fraction(1, 8)), qx.rand_int(rng, n, n, -9, 9))))
    G = qx.rand_int(rng, n, n, -3, 3); out.append(('hermitian', qx.add(G, qx.herm(G))))
    Hs = [[A[i][j] if i <= j + 1 else Q() for j in range(n)] for i in range(n)]; out.append(('already-hessenberg', Hs))
    out.append(('upper-triangular', [[A[i][j] if i <= j else Q() for j in range(n)] for i in range(n)]))
    out.append(('lower-triangular', [[A[i][j] if i >= j else Q() for j in range(n)] for i in range(n)]))
    Z = [r[:] for r in A]
    for i in range(n): Z[i][0] = Q()
    out.append(('zero-first-column', Z))
    if n >= 3:
        Z = [r[:] for r in A]; Z[1][0] = Q()
        if Z[2][0].is_zero(): Z[2][0] = Q(0, 1, 0, 2)
        out.append(('zero-subdiagonal-entry', Z))
        Z = [r[:] for r in A]
        for i in range(2, n): Z[i][0] = Q()
        out.append(('first-column-already-reduced', Z))
    out.append(('sparse', qx.rand_int(rng, n, n, -3, 3, density=0.4)))
    out.append(('zero', qx.zeros(n, n)))
    out.append(('weak-first-column', [[A[i][j] * Q(Fraction(1, 2 ** 30)) if j == 0 else A[i][j] for j in range(n)] for i in range(n)]))
    out.append(('weak-last-rows', [[A[i][j] * Q(Fraction(1, 2 ** 30)) if i >= 2 else A[i][j] for j in range(n)] for i in range(n)]))
    out.append(('exchange', [[Q(1) if i + j == n - 1 else Q() for j in range(n)] for i in range(n)]))
    out.append(('cyclic-shift-2', [[Q(0, 0, 1, 0) if (i - j) % n == 2 % n else Q() for j in range(n)] for i in range(n)]))
    out.append(('pure-imaginary', [[Q(0, a.x, a.y, a.z) for a in r] for r in A]))
    # entries confined to a sub-algebra: real-valued (all vector parts zero, non-symmetric) and complex-valued (real + i parts only)
    out.append(('real-valued', [[Q(a.w + (i + 1 if i == j else 0)) for j, a in enumerate(r)] for i, r in enumerate(A)]))
    out.append(('complex-valued', [[Q(a.w, a.x, 0, 0) for a in r] for r in A]))
    if not quick:
        U = qx.rand_unitary(rng, n, 2); out.append(('unitary', U))
        v = qx.rand_int(rng, n, 1, -2, 2); out.append(('rank-one', qx.mm(v, qx.herm(v))))
    return out

def run(ctx):
    cm.setup_impl_path()
    for b in cm.audit(cm.coq_sources() + [os.path.join(cm.ROOT, 'props', 'C09.v')]): ctx.broken.append('audit: ' + b)
    cm.prove(ctx, 'C09.v')
    try:
        import numpy as np, quaternion, utils, importlib
        hes = importlib.import_module('decomp.hessenberg')
    except Exception as e:
        ctx.broken.append(f'implementation does not import: {e!r}'); return cm.finish(ctx, 'proof', '', ASSUME)
    warnings.simplefilter('ignore')
    def viol(sig, what, inp, obs='', exp=''):
        ctx.violations.append({'sig': sig, 'what': what, 'input': inp, 'observed': str(obs)[:300], 'expected': str(exp)[:300], 'oracle': 'unitarity, similarity, structure and invariants (Frobenius norm, real trace, singular values)'})
    rng = ctx.rng; fro = utils.quat_frobenius_norm; mmq = utils.quat_matmat; hq = utils.quat_hermitian
    cols = []
    orig_hm = hes.householder_matrix
    def rec_hm(a, v):
        cols.append(np.array(a)); return orig_hm(a, v)
    top = 5 if ctx.quick() else 7
    hterms = []; cterms = []
    for n in range(1, top + 1):
        for cls, A in square_cases(rng, n, ctx.quick()):
            for sname, s in (('1', 1.0), ('2^27', 2.0 ** 27), ('2^-27', 2.0 ** -27), ('2^-40', 2.0 ** -40)) if cls in ('integer', 'hermitian', 'zero-subdiagonal-entry', 'sparse') else (('1', 1.0),):
                An = qx.to_np(A) * s; nA = fro(An); sc = max(nA, 1e-300)
                inp = {'n': n, 'class': cls, 'scale': sname, 'A': [[[str(c) for c in a.t()] for a in row] for row in A]}
                suffix = '' if s == 1.0 else ':scaled'
                cols.clear(); hes.householder_matrix = rec_hm; A0 = An.copy()
                try: P, H = hes.hessenbergize(An)
                except Exception as e: viol(f'C09:raises:{cls}{suffix}', f'hessenbergize raised {e!r}', inp); continue
                finally: hes.householder_matrix = orig_hm
                if not cm.all_finite(P, H): viol(f'C09:nonfinite:{cls}{suffix}', 'hessenbergize returned NaN / inf', inp); continue
                if P.shape != (n, n) or H.shape != (n, n): viol(f'C09:shape:{cls}{suffix}', 'wrong output shapes', inp, (P.shape, H.shape)); continue
                if not np.array_equal(quaternion.as_float_array(An), quaternion.as_float_array(A0)): viol(f'C09:input-modified:{cls}{suffix}', 'hessenbergize modified its input', inp)
                eu = max(fro(mmq(hq(P), P) - utils.quat_eye(n)), fro(mmq(P, hq(P)) - utils.quat_eye(n)))
                es = fro(mmq(mmq(P, An), hq(P)) - H) / sc if nA > 0 else fro(H)
                low = max([abs(H[i, j]) for i in range(n) for j in range(n) if i > j + 1] or [0.0])
                if eu > 1e-10: viol(f'C09:unitary:{cls}{suffix}', f'P is not unitary (defect {eu:.2e})', inp, eu)
                if es > 1e-9: viol(f'C09:similarity:{cls}{suffix}', f'H != P A P^H (relative error {es:.2e})', inp, es)
                if low > 1e-10 * sc: viol(f'C09:structure:{cls}{suffix}', f'H has an entry of modulus {low:.2e} below the first sub-diagonal', inp, low)
                if s == 1.0 and not hes.is_hessenberg(H, atol=1e-10 * max(1.0, nA)): viol(f'C09:structure:predicate:{cls}', 'is_hessenberg rejects the returned H', inp)
                if abs(fro(H) - nA) > 1e-10 * sc: viol(f'C09:frobenius:{cls}{suffix}', '||H||_F != ||A||_F', inp, fro(H), nA)
                trA = sum(An[i, i].w for i in range(n)); trH = sum(H[i, i].w for i in range(n))
                if abs(trA - trH) > 1e-9 * sc: viol(f'C09:trace:{cls}{suffix}', 'Re tr(H) != Re tr(A)', inp, trH, trA)
                sA = np.linalg.svd(utils.real_expand(An), compute_uv=False); sH = np.linalg.svd(utils.real_expand(H), compute_uv=False)
                if float(np.max(np.abs(sA - sH))) > 1e-9 * sc: viol(f'C09:singular-values:{cls}{suffix}', 'singular values of H differ from those of A', inp)
                ctx.count(('hess', n, cls, sname, [a.t() for row in A for a in row]), True, sample={'n': n, 'class': cls} if (n, cls, sname) == (4, 'zero-subdiagonal-entry', '1') else None)
                tie = any((0 < fro(c) < 1e-6 * nA) or (fro(c) > 0 and 0 < abs(c[0]) < 1e-6 * fro(c)) for c in cols)
                if s == 1.0 and n <= (4 if ctx.quick() else 5):
                    if tie: ctx.cov['discarded'] += 1
                    else: hterms.append(f'({n}%nat, {dmat(fl(An))}, {dmat(fl(P))}, {dmat(fl(H))})')
    _A = qx.to_np(qx.rand_int(rng, 4, 4, -3, 3))
    cm.layout_sweep(ctx, qx, 'C09', 'hessenbergize', lambda X: hes.hessenbergize(X), _A, {'n': 4})
    # the structure predicate and the clean-up on matrices with entries around the tolerance (exact comparison)
    NC = 60 if ctx.quick() else 600
    for t in range(NC):
        n = rng.randint(1, 5); atol = rng.choice([1e-12, 1e-8, 0.5, 0.0])
        M = np.zeros((n, n), dtype=np.quaternion)
        for i in range(n):
            for j in range(n):
                comp = [rng.choice([1.0, -1.0, atol, -atol, atol * (1 + 2 ** -40), -atol * (1 + 2 ** -40), atol * (1 - 2 ** -40), atol / 3, 0.0, 0.0]) for _ in range(4)]   # each component on its own side of the tolerance
                M[i, j] = quaternion.quaternion(*comp)
        Hc = hes.check_hessenberg(M, atol=atol); flag = bool(hes.is_hessenberg(M, atol=atol))
        if any(Hc[i, j] != M[i, j] for i in range(n) for j in range(n) if i <= j + 1): viol('C09:cleanup:touches-hessenberg-part', 'check_hessenberg changed an entry on or above the first sub-diagonal', {'M': fl(M), 'atol': atol})
        if float(np.max(np.abs(quaternion.as_float_array(Hc - M)))) > atol: viol('C09:cleanup:moves-more-than-atol', 'check_hessenberg changed a component by more than atol', {'M': fl(M), 'atol': atol})
        if flag != all(max(abs(c) for c in (M[i, j].w, M[i, j].x, M[i, j].y, M[i, j].z)) <= atol for i in range(n) for j in range(n) if i > j + 1): viol('C09:predicate', 'is_hessenberg disagrees with its definition', {'M': fl(M), 'atol': atol})
        ctx.count(('cleanup', t), True)
        cterms.append(f'({n}%nat, {dyad_lit(atol)}, {dmat(fl(M))}, {dmat(fl(Hc))}, {"true" if flag else "false"})')
    for name, terms, fn, shard in (('hess', hterms, 'check_hess', 6), ('clean', cterms, 'check_clean', 100)):
        res = cm.run_cases(ctx, 'cases_' + name, HEADER, terms, fn, shard=shard, timeout=900)
        if res is not None:
            ctx.cov['traces_validated_against_impl'] += len(res)
            bad = [i for i, x in enumerate(res) if not x]
            if bad: ctx.broken.append(f'Hessenberg model ({fn}) and implementation disagree on {len(bad)} of {len(res)} case(s), first: {terms[bad[0]][:400]}')
    ctx.cov['rule'] = (f'n = 1..{top}; integer, generic, Hermitian, already Hessenberg, upper / lower triangular, zero first column, zero sub-diagonal entry, first column already reduced, sparse, zero, exchange and cyclic-shift permutations, pure-imaginary '
                       '(thorough: unitary, rank one), weak first column / weak trailing rows (2^-30), scaled by 2^27, 2^-27 and 2^-40: P unitary, H = P A P^H, entries below the first sub-diagonal negligible, input untouched, Frobenius norm, real trace and singular values preserved; '
                       f'{NC} matrices with entries around atol for the clean-up and the predicate (exact). Discarded = correspondence cases with a tiny non-zero sub-column.')
    return cm.finish(ctx, 'proof', '', ASSUME)

ASSUME = ['theorems hold over the real numbers (standard-library real axioms); floating-point rounding is outside the model and bounded only by the numerical oracle',
          'householder_matrix is shared with C08 (model/Householder.v); its row-vector branch is not used by the reduction and is not modelled']
