"""C10: every Schur variant preserves the unitary similarity A = Q T Q^H."""
import os, sys, math, io, contextlib, warnings
from fractions import Fraction
from . import common as cm
from . import qexact as qx
from .qexact import Q
from .c16 import dq_lit, dmat, dyad_lit
from .c08 import fl

HEADER = """From Coq Require Import ZArith List Bool Arith. Import ListNotations.
From QV Require Import FOps.
From QVM Require Import Householder Givens Schur.
Open Scope Z_scope.
Definition K := 26.     (* agreement to 2^-26 (1 + |value|) after a few QR sweeps *)
Definition cmp (n : nat) (o : sout FxOps) (Qe Te : list (list (fq FxOps))) (conv : bool) (iters : nat) : bool :=
  fxm_close K n n (oQ _ o) Qe && fxm_close K n n (oT _ o) Te && Bool.eqb (oconv _ o) conv && Nat.eqb (oiters _ o) iters.
Definition idb (b : bool) : bool := b.
"""

def blit(b): return 'true' if b else 'false'
def dl(v): return dyad_lit(float(v))
def dlist(vs): return '[' + '; '.join(dl(v) for v in vs) + ']'

# (name, callable factory, model-term factory): the model term gets (n, tol, max_iter, A literal, recorded schedule, recorded eigvals)
def variants(sch):
    V = []
    for ray in (False, True):
        V.append((f'pure:{"rayleigh" if ray else "none"}', lambda A, mi, tol, ray=ray: sch.quaternion_schur_pure(A, max_iter=mi, tol=tol, return_diagnostics=True, shift_mode='rayleigh' if ray else 'none'),
                  lambda n, tol, mi, Al, sc, ev, ray=ray: f'schur_pure FxOps {n} {dl(tol)} {blit(ray)} {mi} (fof {Al})', 'tol'))
        V.append((f'implicit:{"rayleigh" if ray else "none"}', lambda A, mi, tol, ray=ray: sch.quaternion_schur_pure_implicit(A, max_iter=mi, tol=tol, return_diagnostics=True, shift_mode='rayleigh' if ray else 'none'),
                  lambda n, tol, mi, Al, sc, ev, ray=ray: f'schur_implicit FxOps {n} {dl(tol)} {blit(ray)} {mi} (fof {Al})', 'tol'))
    for var in ('aed', 'ds'):
        for pre in (True, False):
            V.append((f'unified:{var}:{"precomputed" if pre else "adaptive"}', lambda A, mi, tol, var=var, pre=pre: sch.quaternion_schur_unified(A, variant=var, max_iter=mi, tol=tol, precompute_shifts=pre, return_diagnostics=True),
                      lambda n, tol, mi, Al, sc, ev, var=var, pre=pre: f'schur_unified FxOps {n} {dl(tol)} {dl(3.0)} {blit(var == "ds")} 1 {mi} {dlist(sc if pre else [])} [{"; ".join(dlist(e) for e in ev)}] (fof {Al})', '3tol'))
    # the trailing-window option of the AED sweep (default None = whole matrix): only the last `aed_window` sub-diagonals are inspected
    for var in ('aed', 'ds'):
        for w in (2, 3):
            V.append((f'unified:{var}:precomputed:aed_window{w}', lambda A, mi, tol, var=var, w=w: sch.quaternion_schur_unified(A, variant=var, max_iter=mi, tol=tol, precompute_shifts=True, aed_window=w, return_diagnostics=True),
                      lambda n, tol, mi, Al, sc, ev, var=var, w=w: f'schur_unified FxOps {n} {dl(tol)} {dl(3.0)} {blit(var == "ds")} {max(1, n - w + 1)} {mi} {dlist(sc)} [{"; ".join(dlist(e) for e in ev)}] (fof {Al})', '3tol'))
    for var in ('aed_windowed', 'francis_ds'):
        for win in (12, 2):
            V.append((f'experimental:{var}:window{win}', lambda A, mi, tol, var=var, win=win: sch.quaternion_schur_experimental(A, variant=var, max_iter=mi, tol=tol, window=win, return_diagnostics=True),
                      lambda n, tol, mi, Al, sc, ev, var=var, win=win: f'schur_exper FxOps {n} {dl(tol)} {win} {blit(var == "francis_ds")} {mi} [{"; ".join(dlist(e) for e in ev)}] (fof {Al})', 'tol'))
    for mode, nm in ((0, 'wilkinson'), (1, 'rayleigh'), (2, 'double')):
        V.append((f'givens:{nm}', lambda A, mi, tol, nm=nm: sch.quaternion_schur(A, max_iter=mi, tol=tol, shift=nm, return_diagnostics=True),
                  lambda n, tol, mi, Al, sc, ev, mode=mode: f'schur_givens FxOps {n} {dl(tol)} {mode} {mi} [{"; ".join(dlist(e) for e in ev)}] (fof {Al})', 'tol'))
    return V

def inputs(rng, n, quick):
    out = []
    G = qx.rand_int(rng, n, n, -8, 8); A = qx.scale(Q(Fraction(1, 8)), G); out.append(('generic', A))
    H = qx.rand_int(rng, n, n, -3, 3); out.append(('hermitian', qx.add(H, qx.herm(H))))
    out.append(('upper-triangular', [[A[i][j] if i <= j else Q() for j in range(n)] for i in range(n)]))
    out.append(('hessenberg', [[A[i][j] if i <= j + 1 else Q() for j in range(n)] for i in range(n)]))
    if n >= 3:
        B = [[A[i][j] if (i < 2) == (j < 2) else Q() for j in range(n)] for i in range(n)]; out.append(('block-diagonal', B))
        out.append(('lower-block', [[Q(1 + i) if i == j else (Q(4) if (i, j) == (n - 1, n - 2) else Q()) for j in range(n)] for i in range(n)]))
    U = qx.rand_unitary(rng, n, 2); D = qx.zeros(n, n)
    for i in range(n): D[i][i] = Q(Fraction((i + 1) * (-1) ** i))
    out.append(('normal', qx.mm(qx.mm(U, D), qx.herm(U))))
    D2 = qx.zeros(n, n)
    for i in range(n): D2[i][i] = Q(Fraction(2 if i < n // 2 else -1))
    out.append(('hermitian-repeated', qx.mm(qx.mm(U, D2), qx.herm(U))))
    out.append(('integer', qx.rand_int(rng, n, n, -3, 3)))
    v = qx.rand_int(rng, n, 1, -2, 2); out.append(('rank-one', qx.mm(v, qx.herm(v))))
    out.append(('pure-k', [[Q(0, 0, 0, a.w) for a in r] for r in qx.rand_int(rng, n, n, -3, 3)]))
    out.append(('pure-j', [[Q(0, 0, a.w, 0) for a in r] for r in qx.rand_int(rng, n, n, -3, 3)]))
    out.append(('zero', qx.zeros(n, n)))
    Zc = [r[:] for r in A]; Zc[0][0] = Q(); out.append(('zero-corner', Zc))                       # exact zero in the (0,0) entry (kept by the Hessenberg reduction)
    Zd = qx.rand_int(rng, n, n, -3, 3)
    for i in range(n): Zd[i][i] = Q()
    out.append(('zero-diagonal', Zd))
    return out

def run(ctx):
    cm.setup_impl_path()
    for b in cm.audit(cm.coq_sources() + [os.path.join(cm.ROOT, 'props', 'C10.v')]): ctx.broken.append('audit: ' + b)
    cm.prove(ctx, 'C10.v')
    try:
        import numpy as np, quaternion, utils, importlib
        sch = importlib.import_module('decomp.schur')
    except Exception as e:
        ctx.broken.append(f'implementation does not import: {e!r}'); return cm.finish(ctx, 'proof', '', ASSUME)
    warnings.simplefilter('ignore')
    def viol(sig, what, inp, obs='', exp=''):
        ctx.violations.append({'sig': sig, 'what': what, 'input': inp, 'observed': str(obs)[:300], 'expected': str(exp)[:300], 'oracle': 'unitarity and similarity residuals, strict lower triangle against the reported flag, prescribed spectra'})
    rng = ctx.rng; fro = utils.quat_frobenius_norm; mmq = utils.quat_matmat; hq = utils.quat_hermitian
    V = variants(sch)
    rec = {'eig': [], 'sched': [], 'knife': False, 'scale': 1.0}
    orig_eig = np.linalg.eigvals; orig_sched = sch._estimate_shifts_power_deflate; orig_hm = sch.householder_matrix; orig_gg = sch.ggivens
    hes = importlib.import_module('decomp.hessenberg')
    def rec_hm(a, v):
        na = float(np.sqrt(np.sum(np.abs(a) ** 2))); a0 = abs(a[0])
        if (0 < na < 1e-9 * rec['scale']) or (na > 0 and 0 < a0 < 1e-9 * na): rec['knife'] = True     # reflector (or its phase) determined by rounding noise
        rest = float(np.sqrt(np.sum(np.abs(a[1:]) ** 2))) if len(a) > 1 else 0.0
        if 0 < rest < 1e-9 * na: rec['knife'] = True                                                 # 'column already zero: skip' decided by rounding noise
        return orig_hm(a, v)
    def rec_gg(x1, x2):
        t = float(np.sqrt(np.sum(np.asarray(x1) ** 2) + np.sum(np.asarray(x2) ** 2)))
        if 0 < t < 1e-9 * rec['scale']: rec['knife'] = True
        n1 = float(np.sqrt(np.sum(np.asarray(x1) ** 2))); n2 = float(np.sqrt(np.sum(np.asarray(x2) ** 2)))
        if t > 0 and abs(n1 - n2) < 1e-9 * t: rec['knife'] = True                                      # |q1| < |q2| branch of ggivens decided by rounding
        return orig_gg(x1, x2)
    def rec_eig(B): r = orig_eig(B); rec['eig'].append([float(np.real(x)) for x in r]); return r
    def rec_sched(H, steps=5): r = orig_sched(H, steps=steps); rec['sched'] = [float(x) for x in r]; return r
    def call(f, An, mi, tol):
        rec['eig'] = []; rec['sched'] = []; rec['knife'] = False; rec['scale'] = max(float(fro(An)), 1e-300)
        np.linalg.eigvals = rec_eig; sch._estimate_shifts_power_deflate = rec_sched; sch.householder_matrix = rec_hm; sch.ggivens = rec_gg; hes.householder_matrix = rec_hm
        try:
            with contextlib.redirect_stdout(io.StringIO()): return f(An, mi, tol)
        finally: np.linalg.eigvals = orig_eig; sch._estimate_shifts_power_deflate = orig_sched; sch.householder_matrix = orig_hm; sch.ggivens = orig_gg; hes.householder_matrix = orig_hm
    top = 4 if ctx.quick() else 6
    budgets = (0, 1, 2, 5, 60) if ctx.quick() else (0, 1, 2, 3, 5, 12, 60, 400)
    terms = []; term_info = []
    for n in range(1, top + 1):
        for cls, A in inputs(rng, n, ctx.quick()):
            An = qx.to_np(A); nA = fro(An); sc = max(nA, 1.0)
            herm = qx.eq(qx.herm(A), A)
            spec = None
            if cls in ('normal', 'hermitian-repeated'): spec = sorted([Fraction((i + 1) * (-1) ** i) for i in range(n)] if cls == 'normal' else [Fraction(2 if i < n // 2 else -1) for i in range(n)])
            for vname, f, mterm, tkind in V:
                for tol in ((1e-10, 0.125) if cls in ('generic', 'hessenberg', 'block-diagonal', 'lower-block', 'hermitian') else (1e-10,)):
                    for mi in budgets:
                        if ctx.quick() and (n + len(cls) + mi + len(vname)) % 3 and mi not in (2, 60): continue
                        inp = {'n': n, 'class': cls, 'variant': vname, 'tol': tol, 'max_iter': mi, 'A': [[[str(c) for c in a.t()] for a in row] for row in A]}
                        try: Qm, T, dg = call(f, An, mi, tol)
                        except Exception as e: viol(f'C10:raises:{vname}:{cls}', f'{vname} raised {e!r}', inp); continue
                        ev = list(rec['eig']); sched = list(rec['sched']); knife = rec['knife']
                        if not cm.all_finite(Qm, T):
                            viol(f'C10:nonfinite:{vname}:{cls}', f'{vname} returned NaN / inf in Q or T after {mi} iteration(s)', inp); continue
                        conv = bool(dg.get('converged')); iters = int(dg.get('iterations_run') or 0)
                        eu = max(fro(mmq(hq(Qm), Qm) - utils.quat_eye(n)), fro(mmq(Qm, hq(Qm)) - utils.quat_eye(n)))
                        es = fro(mmq(mmq(Qm, T), hq(Qm)) - An)
                        ndefl = n * n                                   # every position can be zeroed a few times at most
                        fac = 3.0 if tkind == '3tol' else 1.0
                        bound = 4 * ndefl * fac * tol * max(1.0, 2 * nA) + 1e-11 * sc * (1 + min(mi, 400)) ** 0.5
                        low = max([abs(T[i, j]) for i in range(n) for j in range(i)] or [0.0])
                        tag = f'{vname}:{cls}' + (':loose-tol' if tol > 1e-6 else '')
                        if eu > 1e-9: viol(f'C10:unitary:{tag}', f'Q is not unitary (defect {eu:.2e}) after {mi} iteration(s)', inp, eu)
                        if es > bound: viol(f'C10:similarity:{tag}', f'||Q T Q^H - A||_F = {es:.2e} exceeds what the deflation tolerance allows ({bound:.2e})', inp, es, bound)
                        if conv and low > fac * tol * max(1.0, 2 * nA) * 1.0000001: viol(f'C10:flag:{tag}', f'converged=True but an entry of modulus {low:.2e} remains below the diagonal (tol {tol})', inp, low, tol)
                        if conv and herm and tol <= 1e-6:
                            off = max([abs(T[i, j]) for i in range(n) for j in range(n) if i != j] or [0.0])
                            im = max([abs(np.array([T[i, i].x, T[i, i].y, T[i, i].z])).max() for i in range(n)] or [0.0])
                            if off > 1e-6 * sc or im > 1e-6 * sc: viol(f'C10:hermitian-diagonal:{tag}', 'converged on a Hermitian matrix but T is not real diagonal', inp, (off, im))
                            elif spec is not None and max(abs(float(a) - b) for a, b in zip(spec, sorted(T[i, i].w for i in range(n)))) > 1e-6 * sc:
                                viol(f'C10:hermitian-eigenvalues:{tag}', 'diagonal of T does not carry the eigenvalues of A', inp, sorted(T[i, i].w for i in range(n)), [float(x) for x in spec])
                        ctx.count(('schur', n, cls, vname, tol, mi), True, sample={k2: inp[k2] for k2 in ('n', 'class', 'variant', 'tol', 'max_iter')} if (n, cls, vname, mi, tol) == (3, 'generic', 'implicit:rayleigh', 2, 1e-10) else None)
                        ctx.cov.setdefault('converged_runs', 0); ctx.cov.setdefault('unconverged_runs', 0)
                        ctx.cov['converged_runs' if conv else 'unconverged_runs'] += 1
                        # correspondence: small budgets, decisions not on a knife edge (same flags / counts for tol (1 +- 1e-6))
                        if n >= 2 and n <= (3 if ctx.quick() else 4) and mi in (1, 2, 5) and (mi < 5 or tol > 1e-6):
                            stable = not knife
                            for t2 in (tol * (1 + 1e-6), tol * (1 - 1e-6)):
                                try:
                                    Q2, T2, d2 = call(f, An, mi, t2)
                                    if bool(d2.get('converged')) != conv or int(d2.get('iterations_run') or 0) != iters or fro(T2 - T) > 1e-9 * sc: stable = False
                                except Exception: stable = False
                            # well determined: a 2^-40 relative perturbation of the data must not move the answer (reflectors built from rounding noise are not determined)
                            if stable:
                                pert = quaternion.as_float_array(An).copy()
                                pert *= 1.0 + (np.array([rng.random() for _ in range(pert.size)]).reshape(pert.shape) - 0.5) * 2.0 ** -40
                                try:
                                    Q2, T2, d2 = call(f, quaternion.as_quat_array(pert), mi, tol)
                                    if bool(d2.get('converged')) != conv or int(d2.get('iterations_run') or 0) != iters or fro(T2 - T) > 1e-9 * sc or fro(Q2 - Qm) > 1e-9: stable = False
                                except Exception: stable = False
                            if not stable: ctx.cov['discarded'] += 1
                            else:
                                if not all(math.isfinite(v) for v in sched) or not all(math.isfinite(v) for e in ev for v in e): ctx.cov['discarded'] += 1; continue
                                terms.append(f'cmp {n} ({mterm(n, tol, mi, dmat(fl(An)), sched, ev)}) {dmat(fl(Qm))} {dmat(fl(T))} {blit(conv)} {iters}')
                                term_info.append((vname, cls, tol, mi))
    _A = qx.to_np(qx.rand_int(rng, 3, 3, -3, 3))
    for vname, f, mterm, tkind in V[::3]:
        cm.layout_sweep(ctx, qx, 'C10', vname, lambda X, f=f: call(f, X, 3, 1e-10)[:2], _A, {'n': 3, 'variant': vname, 'max_iter': 3})
    res = cm.run_cases(ctx, 'cases_schur', HEADER, terms, 'idb', shard=8, timeout=1500)
    if res is not None:
        ctx.cov['traces_validated_against_impl'] += len(res)
        bad = [i for i, x in enumerate(res) if not x]
        if bad: ctx.broken.append(f'Schur model and implementation disagree on {len(bad)} of {len(res)} case(s), first: {term_info[bad[0]]} {terms[bad[0]][:300]}; all: {sorted(set(term_info[i][0] for i in bad))}')
    ctx.cov['rule'] = (f'n = 1..{top}; 15 input classes (generic, zero corner entry, zero diagonal, Hermitian, triangular, Hessenberg, block-diagonal, lower 2x2 block, normal and Hermitian with prescribed spectra, integer, rank one, pure-k / pure-j, zero); '
                       f'{len(V)} variant / shift / window / schedule combinations; tolerances 1e-10 and 0.125; budgets {budgets}: Q unitary, ||Q T Q^H - A|| within the deflation allowance, flag implies triangular T, '
                       'Hermitian + converged implies real diagonal T with the prescribed eigenvalues; model executed at 2^-160 fixed point against runs of 1, 2 and 5 iterations (recorded eigvals / shift schedule). '
                       'Discarded = runs whose decisions change under a 1e-6 relative change of tol or whose answer moves under a 2^-40 relative perturbation of the data or in which a reflector / rotation (or its phase) is built from a vector below 1e-9 of the scale (rounding noise).')
    return cm.finish(ctx, 'proof', '', ASSUME)

ASSUME = ['numpy.linalg.eigvals (2x2 real) and the seeded power-iteration shift schedule are recorded inputs of the model: the theorems hold for every shift',
          'the real-block Givens sweeps of quaternion_schur are modelled in quaternion form (real_expand is a *-homomorphism: C02); explicit QR of quaternion_schur_pure is modelled as written (R Q^H + sigma I)',
          'convergence is not claimed by the property and not proved; that the diagonal of T carries the eigenvalues is validated on prescribed spectra, not proved',
          'theorems over R use the standard-library real axioms; rounding is outside the model']
