"""C11: rank, null spaces and determinants agree with the singular / eigen structure."""
import os, sys, math, warnings
from fractions import Fraction
from . import common as cm
from . import qexact as qx
from .qexact import Q

HEADER = """From Coq Require Import QArith Qcanon List Bool Arith. Import ListNotations.
From QVM Require Import RankNull.
From B Require Import Gen_C11.
Definition qc (q : Q) : Qc := Q2Qc q.
Definition EPSQ : Qc := Q2Qc (1 # 4503599627370496).
(* (m, n, recorded singular values, rank(), rtol, null rank observed (columns of V kept: n - #cols)) *)
Definition check_rank (c : nat * nat * list Q * nat * Q * nat) : bool :=
  let '(m, n, s, r, rtol, nr) := c in
  Nat.eqb (rank_default EPSQ m n (map qc s)) r && Nat.eqb (null_rank (qc rtol) (map qc s)) nr
  && Nat.eqb (gen_rank EPSQ m n (map qc s) None) r && Nat.eqb (length (gen_null_right m n (map qc s) (qc rtol))) (n - nr).
"""
def Ql(x):
    x = Fraction(x); return f'({x.numerator} # {x.denominator})' if x >= 0 else f'(({x.numerator}) # {x.denominator})'

def run(ctx):
    cm.setup_impl_path()
    for b in cm.audit(cm.coq_sources() + [os.path.join(cm.ROOT, 'props', 'C11.v')]): ctx.broken.append('audit: ' + b)
    sys.path.insert(0, os.path.join(cm.ROOT, 'qtrans'))
    gen_ok = False
    try:
        import gen_c11
        txt, _ = gen_c11.generate(cm.REPO)
        open(os.path.join(ctx.build, 'Gen_C11.v'), 'w').write(txt)
        ctx.obligations.append(('translate:utils.py(rank,quat_null_space,det)', True, ''))
        gen_ok = cm.prove(ctx, 'C11.v', ['Gen_C11.v'])
    except Exception as e:
        ctx.obligations.append(('translate', False, repr(e)))
        ctx.broken.append(f'qtrans cannot translate rank / quat_null_space / det any more: {e!r}')
    try:
        import numpy as np, quaternion, utils, importlib
        qsvd = importlib.import_module('decomp.qsvd')
        from .c03 import spectral_problem
    except Exception as e:
        ctx.broken.append(f'implementation does not import: {e!r}'); return cm.finish(ctx, 'proof', '', ASSUME)
    warnings.simplefilter('ignore')
    def viol(sig, what, inp, obs='', exp=''):
        ctx.violations.append({'sig': sig, 'what': what, 'input': inp, 'observed': str(obs)[:300], 'expected': str(exp)[:300], 'oracle': 'prescribed exact rank / spectrum'})
    rng = ctx.rng; fro = utils.quat_frobenius_norm
    top = 4 if ctx.quick() else 6
    rterms = []
    for m in range(1, top + 1):
        for n in range(1, top + 1):
            r = min(m, n)
            for rk in range(0, r + 1):
                for pat in (['simple'] if ctx.quick() and (m + n) % 2 else ['simple', 'repeated']):
                    sv = [Fraction(3 + (r - i), 2) if pat == 'simple' else Fraction(2) for i in range(rk)] + [Fraction(0)] * (r - rk)
                    A, U0, V0 = spectral_problem(rng, m, n, sv)
                    for sname, scl in (('1', 1.0), ('2^27', 2.0 ** 27), ('2^-40', 2.0 ** -40)) if (m + n + rk) % 3 == 0 or not ctx.quick() else (('1', 1.0),):
                      An = qx.to_np(A) * scl
                      tags = []
                      if pat == 'repeated' and rk >= 2: tags.append('repeated-singular-values')
                      if m - rk >= 2 or n - rk >= 2: tags.append('null-space>=2')
                      if scl != 1.0: tags.append('scaled')
                      suf = (':' + '+'.join(tags)) if tags else ''
                      inp = {'shape': [m, n], 'rank': rk, 'pattern': pat, 'scale': sname, 'A': [[[str(c) for c in a.t()] for a in row] for row in A]}
                      try:
                          rr = utils.rank(An); rh = utils.rank(utils.quat_hermitian(An))
                          Nr = utils.quat_null_space(An, 'right'); Nl = utils.quat_null_left(An)
                          _, s, _ = qsvd.classical_qsvd_full(An)
                      except Exception as e: viol(f'C11:raises{suf}', f'rank / null space raised {e!r}', inp); continue
                      if not cm.all_finite(Nr, Nl, s): viol(f'C11:nonfinite{suf}', 'null space / singular values contain NaN / inf', inp); continue
                      if rr != rk: viol(f'C11:rank{suf}', f'rank {rr} != true rank {rk}', inp, rr, rk)
                      if rh != rr: viol(f'C11:rank:herm{suf}', 'rank(A^H) != rank(A)', inp, rh, rr)
                      rreal = int(np.linalg.matrix_rank(utils.real_expand(An)))
                      if rreal != 4 * rr: viol(f'C11:rank:quarter{suf}', 'rank is not a quarter of the rank of the real representation', inp, (rr, rreal))
                      # invariance under invertible factors
                      P = qx.to_np(qx.rand_unitary(rng, m, 1)); G = qx.rand_int(rng, n, n, -2, 2)
                      for i in range(n): G[i][i] = G[i][i] + Q(7)
                      if utils.rank(utils.quat_matmat(utils.quat_matmat(P, An), qx.to_np(G))) != rr: viol(f'C11:rank:invariance{suf}', 'rank changes under multiplication by invertible matrices', inp)
                      if Nr.shape != (n, n - rk) or Nl.shape != (m, m - rk): viol(f'C11:null:shape{suf}', 'null-space bases have the wrong number of columns', inp, (Nr.shape, Nl.shape), ((n, n - rk), (m, m - rk)))
                      else:
                          sc = fro(An)
                          if n - rk and fro(utils.quat_matmat(An, Nr)) > 1e-9 * sc: viol(f'C11:null:annihilate{suf}', 'A N != 0 for the right null-space basis', inp, fro(utils.quat_matmat(An, Nr)))
                          if m - rk and fro(utils.quat_matmat(utils.quat_hermitian(Nl), An)) > 1e-9 * sc: viol(f'C11:null:annihilate-left{suf}', 'N^H A != 0 for the left null-space basis', inp)
                          for nm, N, d in (('right', Nr, n - rk), ('left', Nl, m - rk)):
                              if d and utils.rank(N) != d: viol(f'C11:null:independent:{nm}{suf}', f'{nm} null-space basis columns are not linearly independent (rank {utils.rank(N)} of {d})', inp)
                      ctx.count(('rank', m, n, rk, pat, sname), True, sample={'shape': [m, n], 'rank': rk, 'pattern': pat} if (m, n, rk, sname) == (3, 4, 2, '1') else None)
                      smax = float(max(s)) if len(s) else 0.0
                      tol = np.finfo(float).eps * max(m, n) * smax
                      if all(abs(float(v) - tol) > 0.5 * tol for v in s) and all(abs(float(v) - 1e-10 * smax) > 0.5e-10 * smax or smax == 0 for v in s):
                          rterms.append(f'({m}%nat, {n}%nat, [' + '; '.join(Ql(Fraction(float(v))) for v in s) + f'], {rr}%nat, {Ql(Fraction(1, 10 ** 10))}, {n - Nr.shape[1]}%nat)')
                      else: ctx.cov['discarded'] += 1
    # strongly non-square matrices with a singular value between eps*min(m,n)*smax and eps*max(m,n)*smax: the documented threshold is eps*max(m,n)*smax
    epsf = Fraction(np.finfo(float).eps)
    for (m, n) in ((2, 24), (24, 2), (3, 32)) if ctx.quick() else ((2, 24), (24, 2), (3, 32), (32, 3), (2, 48)):
        r = min(m, n); sv = [Fraction(1)] * (r - 1) + [epsf * Fraction(max(m, n) + 3 * r, 4)]
        sv = [Fraction(r - i) for i in range(r - 1)] + [sv[-1]]
        A, _, _ = spectral_problem(rng, m, n, sv); An = qx.to_np(A)
        inp = {'shape': [m, n], 'singular_values': [str(x) for x in sv], 'note': 'smallest value is below eps*max(m,n)*smax and above eps*min(m,n)*smax'}
        _, s, _ = qsvd.classical_qsvd_full(An); smax = float(max(s)); thr = np.finfo(float).eps * max(m, n) * smax
        want = int(sum(1 for v in s if v > thr)); rr = utils.rank(An)
        if abs(float(s[-1]) - thr) > 0.3 * thr:
            if rr != want: viol('C11:rank:threshold:non-square', f'rank {rr} is not the number of singular values above eps*max(m,n)*max s ({want})', inp, rr, want)
            rterms.append(f'({m}%nat, {n}%nat, [' + '; '.join(Ql(Fraction(float(v))) for v in s) + f'], {rr}%nat, {Ql(Fraction(1, 10 ** 10))}, {n - utils.quat_null_space(An, "right").shape[1]}%nat)')
        else: ctx.cov['discarded'] += 1
        ctx.count(('rank-threshold', m, n), True)
    # an explicit threshold is the threshold in force, 0 included (tol = 0 counts every strictly positive singular value); rank is monotone in tol
    for (m, n), sv in (((3, 3), [Fraction(1), Fraction(1, 2), Fraction(1, 10 ** 18)]), ((4, 4), [Fraction(2), Fraction(2), Fraction(1, 10 ** 17), Fraction(3, 10 ** 18)]),
                       ((5, 3), [Fraction(3), Fraction(1, 10 ** 9), Fraction(1, 10 ** 20)]), ((3, 4), [Fraction(1), Fraction(0), Fraction(0)]), ((3, 3), [Fraction(3), Fraction(2), Fraction(1)])):
        A, _, _ = spectral_problem(rng, m, n, sv); An = qx.to_np(A)
        _, s, _ = qsvd.classical_qsvd_full(An); prev = None
        for t in (0.0, 0, 1e-30, 1e-12, 1e-8, 1e-3, 10.0):
            inp = {'shape': [m, n], 'singular_values': [str(x) for x in sv], 'tol': t}
            try: rr = utils.rank(An, tol=t)
            except Exception as e: viol('C11:rank:explicit-tol:raises', f'rank raised {e!r} for tol = {t!r}', inp); continue
            want = int(sum(1 for v in s if v > t))
            if rr != want: viol('C11:rank:explicit-tol' + (':zero' if t == 0 else ''), f'rank(A, tol={t!r}) = {rr} is not the number of singular values above the threshold in force ({want}; computed values {[float(v) for v in s]})', inp, rr, want)
            if prev is not None and rr > prev: viol('C11:rank:explicit-tol:monotone', 'rank increases when the threshold grows', inp, rr, prev)
            prev = rr
            ctx.count(('rank-tol', m, n, str(sv), str(t)), True)
    # the relative threshold handed to the null-space routines is the one in force on BOTH sides and through every wrapper: the basis has
    # dim - #{s_i > rtol * s_0} columns, each mapped to (at most) the threshold level
    for (m, n) in ((6, 4), (4, 6), (5, 5)) if ctx.quick() else ((6, 4), (4, 6), (5, 5), (7, 4), (4, 4)):
        r = min(m, n); sv = [Fraction(1), Fraction(3, 10), Fraction(1, 10 ** 4), Fraction(1, 10 ** 12)][:r]
        A, _, _ = spectral_problem(rng, m, n, sv); An = qx.to_np(A)
        _, s, _ = qsvd.classical_qsvd_full(An)
        for rt in (None, 1e-14, 1e-6, 1e-2):
            kw = {} if rt is None else {'rtol': rt}; thr = (1e-10 if rt is None else rt) * float(s[0]); rk = int(sum(1 for v in s if v > thr))
            entry = [('quat_null_space(right)', lambda: utils.quat_null_space(An, side='right', **kw), n, False), ('quat_null_space(left)', lambda: utils.quat_null_space(An, side='left', **kw), m, True),
                     ('quat_null_right', lambda: utils.quat_null_right(An, **kw), n, False), ('quat_null_left', lambda: utils.quat_null_left(An, **kw), m, True),
                     ('quat_kernel(right)', lambda: utils.quat_kernel(An, side='right', **kw), n, False), ('quat_kernel(left)', lambda: utils.quat_kernel(An, side='left', **kw), m, True)]
            for nm, f, dim, left in entry:
                inp = {'shape': [m, n], 'singular_values': [str(x) for x in sv], 'rtol': rt, 'entry point': nm}
                try: Nb = f()
                except TypeError: continue                                   # wrapper without an rtol parameter
                except Exception as e: viol('C11:null:rtol:raises', f'{nm} raised {e!r}', inp); continue
                if Nb.shape != (dim, dim - rk): viol(f'C11:null:rtol:{"left" if left else "right"}', f'{nm} with rtol = {rt} returns a basis of shape {Nb.shape}, expected ({dim}, {dim - rk}) (rank {rk} at the threshold in force)', inp, Nb.shape, (dim, dim - rk)); continue
                if Nb.shape[1]:
                    resid = float(utils.quat_frobenius_norm(utils.quat_matmat(utils.quat_hermitian(An) if left else An, Nb)))
                    if resid > 4 * thr * max(1, Nb.shape[1]) + 1e-12: viol(f'C11:null:rtol:residual:{"left" if left else "right"}', f'{nm}: a basis column is not mapped below the threshold ({resid:.2e} > {thr:.2e})', inp, resid, thr)
                ctx.count(('null-rtol', m, n, str(rt), nm), True)
    # determinants
    for n in range(1, (4 if ctx.quick() else 6)):
        for rep in range(3):
            sv = [Fraction(rng.randint(1, 5), rng.randint(1, 3)) for _ in range(n)]
            if rep == 2: sv[-1] = Fraction(0)
            sv = sorted(set(sv), reverse=True) if rep != 2 else sorted(sv, reverse=True)
            if len(sv) < n and rep != 2: sv = [Fraction(n - i + 1) for i in range(n)]
            if rep == 2 and len(set(sv)) < len(sv): sv = [Fraction(n - i) for i in range(n - 1)] + [Fraction(0)]
            A, _, _ = spectral_problem(rng, n, n, sv); An = qx.to_np(A)
            inp = {'n': n, 'singular_values': [str(x) for x in sv]}
            d = utils.det(An, 'Dieudonne'); want = float(math.prod(sv))
            if abs(d - want) > 1e-9 * max(1, want): viol('C11:det:dieudonne', 'Dieudonne determinant is not the product of the singular values', inp, d, want)
            if (want == 0) != (abs(d) < 1e-9): viol('C11:det:zero-iff-singular', 'determinant zero does not coincide with singularity', inp, d)
            B, _, _ = spectral_problem(rng, n, n, [Fraction(i + 2) for i in range(n)][::-1]); Bn = qx.to_np(B)
            dab = utils.det(utils.quat_matmat(An, Bn), 'Dieudonne'); db = utils.det(Bn, 'Dieudonne')
            if abs(dab - d * db) > 1e-8 * max(1, abs(d * db)): viol('C11:det:multiplicative', 'det(AB) != det(A) det(B)', inp, dab, d * db)
            # Moore determinant of a Hermitian matrix with prescribed (signed, distinct) eigenvalues
            ev = [Fraction((-1) ** i * (i + 2), 2) for i in range(n)]
            Uq = qx.rand_unitary(rng, n, 1); D = qx.zeros(n, n)
            for i in range(n): D[i][i] = Q(ev[i])
            Hm = qx.to_np(qx.mm(qx.mm(Uq, D), qx.herm(Uq)))
            dm = utils.det(Hm, 'Moore'); wm = float(math.prod(ev))
            if abs(complex(dm) - wm) > 1e-8 * max(1, abs(wm)): viol('C11:det:moore', 'Moore determinant is not the product of the eigenvalues', {'n': n, 'eigenvalues': [str(x) for x in ev]}, dm, wm)
            ctx.count(('det', n, rep), True)
    # strongly graded but exactly invertible matrices (sigma_min / sigma_max far below eps): the determinant is the product of the singular values and
    # is not zero -- numerical rank deficiency is not singularity; multiplicativity with factors that are harmless one by one
    for e in (28, 40) if ctx.quick() else (14, 28, 40, 60):
        big, small = Fraction(2) ** e, Fraction(1, 2 ** e)
        mats = [('graded diagonal', [[Q(0, big, 0, 0), Q(), Q()], [Q(), Q(0, 0, 1, 0), Q()], [Q(), Q(), Q(0, 0, 0, small)]], Fraction(1)),
                ('graded monomial', [[Q(), Q(big), Q(), Q()], [Q(), Q(), Q(0, 3, 0, 0), Q()], [Q(0, 0, 1, 0), Q(), Q(), Q()], [Q(), Q(), Q(), Q(0, 0, 0, small)]], Fraction(3))]
        for nm, Aq, want in mats:
            inp = {'class': nm, 'exponent': e, 'A': [[[str(c) for c in a.t()] for a in r] for r in Aq]}
            try: d = float(utils.det(qx.to_np(Aq), 'Dieudonne'))
            except Exception as ex: viol('C11:det:graded:raises', f'det raised {ex!r}', inp); continue
            if not abs(d - float(want)) <= 1e-9 * float(want): viol('C11:det:graded', f'Dieudonne determinant of an invertible, strongly graded matrix is {d!r}, the product of its singular values is {float(want)!r}', inp, d, float(want))
            ctx.count(('det-graded', nm, e), True)
        h = e // 2
        Fa = [[Q(Fraction(2) ** h), Q(), Q()], [Q(), Q(0, 1, 0, 0), Q()], [Q(), Q(), Q(Fraction(1, 2 ** h))]]
        Fb = [[Q(0, 0, Fraction(2) ** h, 0), Q(), Q()], [Q(), Q(1), Q()], [Q(), Q(), Q(0, 0, 0, Fraction(1, 2 ** h))]]
        da, db_, dab = (float(utils.det(qx.to_np(M), 'Dieudonne')) for M in (Fa, Fb, qx.mm(Fa, Fb)))
        if not abs(dab - da * db_) <= 1e-9 * abs(da * db_) or not abs(da - 1.0) <= 1e-9: viol('C11:det:graded:multiplicative', f'det(AB) = {dab!r} but det(A) det(B) = {da * db_!r} for two graded diagonal factors', {'exponent': h}, dab, da * db_)
    # large matrices whose determinant is far from 1 but an ordinary double (products of many moderate singular values): c times a quaternion
    # permutation matrix with unit-quaternion entries, det = c^n exactly
    for nbig, cval in ((90, 8.0), (90, 0.125), (64, 10.0)) if ctx.quick() else ((90, 8.0), (90, 0.125), (64, 10.0), (120, 0.25), (120, 4.0)):
        perm = list(range(nbig)); rng.shuffle(perm); unitsq = [quaternion.quaternion(1, 0, 0, 0), quaternion.quaternion(0, 1, 0, 0), quaternion.quaternion(0, 0, 1, 0), quaternion.quaternion(0.5, 0.5, 0.5, -0.5)]
        Mb = np.zeros((nbig, nbig), dtype=np.quaternion)
        for i in range(nbig): Mb[i, perm[i]] = unitsq[i % 4] * cval
        want = cval ** nbig; inp = {'class': 'c times a quaternion permutation matrix', 'n': nbig, 'c': cval}
        try: dbig = float(utils.det(Mb, 'Dieudonne'))
        except Exception as ex: viol('C11:det:large:raises', f'det raised {ex!r}', inp); continue
        if not (math.isfinite(dbig) and abs(dbig - want) <= 1e-9 * want): viol('C11:det:large', f'Dieudonne determinant of {cval} x (unitary permutation), n = {nbig}, is {dbig!r}; the product of its singular values is {want!r}', inp, dbig, want)
        ctx.count(('det-large', nbig, cval), True)
    from .c02 import rexp_ref
    def _herm_patterns(n):
        out = []
        out.append(('exchange', [[Q(1) if i + j == n - 1 else Q() for j in range(n)] for i in range(n)]))
        G = qx.rand_int(rng, n, n, -3, 3); Hq = qx.add(G, qx.herm(G))
        Z = [r[:] for r in Hq]
        if n >= 3:
            Z[1][0] = Q(); Z[0][1] = Q()
            if Z[2][0].is_zero(): Z[2][0] = Q(0, 1, 0, 2); Z[0][2] = Q(0, -1, 0, -2)
        out.append(('zero-leading-entry', Z))
        Ar = qx.zeros(n, n)
        for i in range(n):
            Ar[i][i] = Q(1 + i)
            if i >= 2: Ar[i][0] = Q(0, 0, 1, 0); Ar[0][i] = Q(0, 0, -1, 0)
        out.append(('arrowhead-without-first-spoke', Ar))
        out.append(('negative-definite', qx.scale(-1, qx.add(qx.mm(G, qx.herm(G)), qx.eye(n)))))
        return out
    for n in range(1, (5 if ctx.quick() else 7)):
        for cls, Hq in _herm_patterns(n):
            Hn = qx.to_np(Hq); ev = np.linalg.eigvalsh(np.array([[float(v) for v in row] for row in rexp_ref(Hq)]))[::4]
            want = float(np.prod(ev)); inp = {'n': n, 'class': cls, 'A': [[[str(c) for c in a.t()] for a in row] for row in Hq]}
            try: dm = utils.det(Hn, 'Moore')
            except Exception as e: viol(f'C11:det:moore:raises:{cls}', f'Moore determinant raised {e!r}', inp); continue
            if not abs(complex(dm) - want) <= 1e-8 * max(1.0, abs(want), float(np.prod(np.abs(ev) + 1e-300)) ** 1.0): viol(f'C11:det:moore:{cls}', 'Moore determinant of a Hermitian matrix is not the product of its eigenvalues', inp, dm, want)
            ctx.count(('moore', n, cls), True)
    res = cm.run_cases(ctx, 'cases_rank', HEADER, rterms, 'check_rank', shard=100)
    if res is not None:
        ctx.cov['traces_validated_against_impl'] += len(res)
        bad = [i for i, x in enumerate(res) if not x]
        if bad: ctx.broken.append(f'rank / null-rank model and implementation disagree on {len(bad)} of {len(res)} case(s), first: {rterms[bad[0]][:300]}')
    _A, _, _ = spectral_problem(rng, 3, 4, [Fraction(3), Fraction(1), Fraction(0)]); _A = qx.to_np(_A)
    cm.layout_sweep(ctx, qx, 'C11', 'rank', lambda X: utils.rank(X), _A, {'shape': [3, 4], 'rank': 2})
    cm.layout_sweep(ctx, qx, 'C11', 'quat_null_space', lambda X: fro(utils.quat_matmat(X, utils.quat_null_space(X, 'right'))), _A, {'shape': [3, 4], 'rank': 2})
    _S, _, _ = spectral_problem(rng, 3, 3, [Fraction(3), Fraction(2), Fraction(1)]); _S = qx.to_np(_S)
    cm.layout_sweep(ctx, qx, 'C11', 'det(Dieudonne)', lambda X: utils.det(X, 'Dieudonne'), _S, {'shape': [3, 3]})
    ctx.cov['rule'] = (f'all shapes 1..{top} x 1..{top}, every rank 0..min(m,n), simple and repeated spectra (exact rational constructions), also scaled by 2^27 and 2^-40: rank, rank of A^H, quarter of the real rank, invariance under unitary / invertible factors, '
                       'null-space shapes, annihilation and independence; Dieudonne (product, zero iff singular, multiplicative) and Moore determinants; counting model on the recorded singular values. Discarded = singular value within 50% of a threshold.')
    return cm.finish(ctx, 'proof', '', ASSUME)

ASSUME = ['rank(A^H) = rank(A), invariance under invertible factors and det(AB) = det A det B are facts about true singular values: validated numerically, not proved', 'the Q-SVD contract is a hypothesis of the annihilation theorem']
