"""C12: randomized Q-SVDs: orthonormal factors, interlacing values, exact on low rank."""
import os, sys, math, warnings
from fractions import Fraction
from . import common as cm
from . import qexact as qx
from .qexact import Q

HEADER = """From Coq Require Import ZArith List Bool Arith. Import ListNotations.
From QVM Require Import QsvdGlue.
Open Scope Z_scope.
Definition tv (L : list Z) : nat -> Z := fun i => nth i L 0.
(* (R, recorded real singular values of the small matrix (bit tokens), returned s) : s = S[::4][:R] *)
Definition check_vals (c : nat * list Z * list Z) : bool :=
  let '(r, sr, s) := c in forallb (fun i => Z.eqb (qsvd_full_s Z (tv sr) i) (nth i s 0)) (seq 0 r).
"""
def run(ctx):
    cm.setup_impl_path()
    for b in cm.audit(cm.coq_sources() + [os.path.join(cm.ROOT, 'props', 'C12.v')]): ctx.broken.append('audit: ' + b)
    sys.path.insert(0, os.path.join(cm.ROOT, 'qtrans'))
    try:
        import gen_c12
        txt, _ = gen_c12.generate(cm.REPO)
        open(os.path.join(ctx.build, 'Gen_C12.v'), 'w').write(txt)
        ctx.obligations.append(('translate:qsvd.py(pass_eff_qsvd data flow, n_passes = 2..5)', True, ''))
        cm.prove(ctx, 'C12.v', ['Gen_C12.v'])
    except Exception as e:
        ctx.obligations.append(('translate', False, repr(e)))
        ctx.broken.append(f'qtrans cannot translate the data flow of pass_eff_qsvd any more: {e!r}')
    try:
        import numpy as np, quaternion, utils, importlib
        qsvd = importlib.import_module('decomp.qsvd')
        from .c03 import spectral_problem
    except Exception as e:
        ctx.broken.append(f'implementation does not import: {e!r}'); return cm.finish(ctx, 'proof', '', ASSUME)
    warnings.simplefilter('ignore')
    def viol(sig, what, inp, obs='', exp=''):
        ctx.violations.append({'sig': sig, 'what': what, 'input': inp, 'observed': str(obs)[:300], 'expected': str(exp)[:300], 'oracle': 'prescribed exact spectrum: orthonormality, interlacing, Eckart-Young and ||A||_F bounds'})
    rng = ctx.rng; fro = utils.quat_frobenius_norm
    shapes = [(6, 5), (5, 6), (4, 4), (8, 3), (3, 7), (2, 2), (1, 4)] if ctx.quick() else [(6, 5), (5, 6), (4, 4), (8, 3), (3, 7), (2, 2), (1, 4), (7, 7), (8, 8), (4, 1), (5, 2)]
    seeds = range(3) if ctx.quick() else range(20)
    nrun = 0; vterms = []
    from .c05 import tok
    rec = {}
    orig_svd = np.linalg.svd
    def rec_svd(a, *args, **kw2):
        r0 = orig_svd(a, *args, **kw2); rec['S'] = np.array(r0[1]); return r0
    for (m, n) in shapes:
        r = min(m, n)
        specs = [('simple', [Fraction(r - i) for i in range(r)])]
        if r >= 3: specs.append(('low-rank', [Fraction(5), Fraction(3)] + [Fraction(0)] * (r - 2)))
        if r >= 2: specs.append(('decaying', [Fraction(1, 4 ** i) for i in range(r)]))
        for rk in range(1, r):
            specs.append((f'rank-{rk}', [Fraction(rk - i) for i in range(rk)] + [Fraction(0)] * (r - rk)))
        specs.append(('simple-scaled-2^-40', [Fraction(r - i) * Fraction(1, 2 ** 40) for i in range(r)])); specs.append(('simple-scaled-2^27', [Fraction(r - i) * 2 ** 27 for i in range(r)]))
        for cls, sv in specs:
            A, _, _ = spectral_problem(rng, m, n, sv); An = qx.to_np(A); rankA = sum(1 for s in sv if s != 0); nA = fro(An); sc = nA if nA > 0 else 1.0       # every slack is relative to ||A||_F
            for R in sorted({1, min(2, r), r} | ({rankA + 1} if rankA + 1 <= r else set())):
                confs = [('rand', dict(oversample=P, n_iter=q)) for P in ((0, 2, 10) if ctx.quick() else (0, 1, 2, 5, 10)) for q in ((0, 1) if ctx.quick() else (0, 1, 2, 3))]
                confs += [('pass', dict(oversample=P, n_passes=v)) for P in ((0, 3) if ctx.quick() else (0, 1, 3, 10)) for v in ((2, 3) if ctx.quick() else (2, 3, 4, 5))]
                if ctx.quick(): confs += [('pass', dict(oversample=3, n_passes=v)) for v in (4, 5)]          # every pass count also in the quick tier (one oversampling)
                for kind, kw in confs:
                    for seed in seeds:
                        inp = {'routine': 'rand_qsvd' if kind == 'rand' else 'pass_eff_qsvd', 'shape': [m, n], 'spectrum': cls, 'singular_values': [str(x) for x in sv], 'R': R, 'seed': seed, **kw}
                        np.random.seed(seed); np.linalg.svd = rec_svd
                        try: U, s, V = (qsvd.rand_qsvd if kind == 'rand' else qsvd.pass_eff_qsvd)(An, R, **kw)
                        except Exception as e: viol(f'C12:{kind}:raises', f'{inp["routine"]} raised {type(e).__name__}: {e}', inp); continue
                        finally: np.linalg.svd = orig_svd
                        if len(vterms) < (300 if ctx.quick() else 3000) and seed == 0: vterms.append(f'({R}%nat, [' + '; '.join(cm.zlit(tok(v)) for v in rec['S']) + '], [' + '; '.join(cm.zlit(tok(v)) for v in s) + '])')
                        nrun += 1
                        l = kw['oversample'] + R
                        # region in which the unchanged code loses orthonormality (KF-C12; mapped on the pinned tree): the sketch has at least two
                        # surplus directions beyond rank(A) AND (two or more requested values are zero, OR one is and no power / extra pass is run)
                        dsk = max(min(l, m), min(l, n)) - rankA; nopower = (kw.get('n_iter', 1) == 0) if kind == 'rand' else (kw.get('n_passes', 3) == 2)
                        tag = ':rank-deficient-sketch' if dsk >= 2 and (R - rankA >= 2 or (R - rankA == 1 and nopower)) else ''
                        if U.shape != (m, R) or V.shape != (n, R) or len(s) != R: viol(f'C12:{kind}:shape', 'wrong output shapes', inp, (U.shape, len(s), V.shape), ((m, R), R, (n, R))); continue
                        if not (np.all(np.isfinite(quaternion.as_float_array(U))) and np.all(np.isfinite(s))): viol(f'C12:{kind}:nonfinite', 'NaN/inf in the output', inp); continue
                        eu = fro(utils.quat_matmat(utils.quat_hermitian(U), U) - utils.quat_eye(R)); ev = fro(utils.quat_matmat(utils.quat_hermitian(V), V) - utils.quat_eye(R))
                        if eu > 1e-8 or ev > 1e-8: viol(f'C12:{kind}:orthonormal{tag}', f'U or V does not have orthonormal columns ({eu:.1e}, {ev:.1e})', inp, (eu, ev))
                        if np.any(s < -1e-12 * sc) or np.any(np.diff(s) > 1e-9 * sc): viol(f'C12:{kind}:order{tag}', 'values not non-negative non-increasing', inp, s.tolist())
                        if any(float(s[i]) > float(sv[i]) * (1 + 1e-8) + 1e-10 * sc for i in range(R)): viol(f'C12:{kind}:interlacing{tag}', 'a value exceeds the corresponding true singular value', inp, s.tolist(), [float(x) for x in sv[:R]])
                        S = np.zeros((R, R), dtype=np.quaternion)
                        for i in range(R): S[i, i] = quaternion.quaternion(float(s[i]), 0, 0, 0)
                        err = fro(An - utils.quat_matmat(utils.quat_matmat(U, S), utils.quat_hermitian(V)))
                        opt = math.sqrt(float(sum(x * x for x in sv[R:])))
                        if err < opt * (1 - 1e-8) - 1e-10 * sc: viol(f'C12:{kind}:below-optimum{tag}', 'error below the Eckart-Young optimum (impossible for orthonormal factors)', inp, err, opt)
                        if err > nA * (1 + 1e-8) + 1e-10 * sc: viol(f'C12:{kind}:error-bound{tag}', f'||A - U diag(s) V^H||_F = {err:.3e} exceeds ||A||_F = {nA:.3e}', inp, err, nA)
                        if rankA <= R and err > 1e-8 * sc: viol(f'C12:{kind}:low-rank-exact{tag}', f'rank(A) = {rankA} <= R = {R} but the decomposition is not exact (error {err:.2e})', inp, err)
                        ctx.count((kind, m, n, cls, R, seed, tuple(sorted(kw.items()))), True, sample=inp if nrun == 7 else None)
    _A, _, _ = spectral_problem(rng, 5, 4, [Fraction(4), Fraction(3), Fraction(2), Fraction(1)]); _A = qx.to_np(_A)
    def _rq(X): np.random.seed(0); return qsvd.rand_qsvd(X, 2, oversample=2, n_iter=1)[1]
    def _pq(X): np.random.seed(0); return qsvd.pass_eff_qsvd(X, 2, oversample=2, n_passes=3)[1]
    cm.layout_sweep(ctx, qx, 'C12', 'rand_qsvd(values)', _rq, _A, {'shape': [5, 4], 'R': 2})
    cm.layout_sweep(ctx, qx, 'C12', 'pass_eff_qsvd(values)', _pq, _A, {'shape': [5, 4], 'R': 2})
    res = cm.run_cases(ctx, 'cases_vals', HEADER, vterms, 'check_vals', shard=150)
    if res is not None:
        ctx.cov['traces_validated_against_impl'] += len(res)
        bad = [i for i, x in enumerate(res) if not x]
        if bad: ctx.broken.append(f'value-pick model (every 4th recorded real singular value) and implementation disagree on {len(bad)} of {len(res)} run(s), first: {vterms[bad[0]][:300]}')
    ctx.cov['runs'] = nrun
    ctx.cov['rule'] = ('shapes ' + str(shapes) + ' (sketches wider than the matrix included), spectra simple / low rank / decaying and simple scaled by 2^-40 and 2^27 (exact rational constructions; every slack relative to ||A||_F), R in {1, 2, min(m,n)}, oversample 0..10, power iterations 0..' + ('1' if ctx.quick() else '3') +
                       ', passes 2..' + ('3' if ctx.quick() else '5') + f', seeds {list(seeds)}: shapes, orthonormality, order, interlacing, Eckart-Young lower bound, ||A||_F upper bound, exactness on low rank. Distinct = (routine, shape, spectrum, R, parameters, seed).')
    return cm.finish(ctx, 'proof', '', ASSUME)

ASSUME = ['interlacing s_i <= sigma_i(A) and the Eckart-Young lower bound are mathematical facts validated numerically, not proved', 'qr_qua, numpy.linalg.svd and the global generator are oracles', 'the composition theorems need orthonormal Q from qr_qua (C06)']
